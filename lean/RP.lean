-- Root of the `RP` library: generated constants, models, property theorems.
import RP.Gen.Consts
import RP.Gen.Layout
