import RP.Model.TreeShape
import Mathlib.Tactic.Ring
import Mathlib.Tactic.FieldSimp
import Mathlib.Tactic.Linarith
import Mathlib.Algebra.Order.Field.Basic
/-! # C10 — Sampled trees are external-sampling trees of the legal abstract game

`RP.TreeShape.acceptTree` (run by the driver on every dumped real tree) re-derives every clause of
the property from the game model `RP.Game` and the codecs.

* `C10_accept_sound` : `acceptTree t = true → ExternalSamplingShape t` — every clause as a
  proposition, for all trees.
* `C10_fresh_uniform`, `C10_fresh_sums_to_one`, `C10_known_untouched` : `Profile::witness`.
* `C10_pick_interval` : the inverse-CDF choice of `explore_one` picks edge `j` exactly when the
  uniform draw lies in an interval of length `w_j` (probability `w_j / Σw`; PRNG trusted).
* `C10_builder` (file `RP/Props/C10Builder.lean`) : the model's own builder (`Blueprint::tree` with an
  oracle for the random choices) is accepted, for EVERY oracle, both traversers, every valid deal
  and every fuel.  `C10_builder_instances` below: for concrete oracles the builder does return
  trees (2, 7, 59 nodes) and they are accepted (kernel evaluation), so neither the acceptor nor
  the hypothesis of `C10_builder` is vacuous.
* `pinned_subgame_window` : the window pinned before commit 27e1509 (counted from the start of the
  hand) exceeds the raise cap; refuted by evaluation. -/
namespace RP.C10
open RP.TreeShape RP.TreeShape.DTree
open RP.Codec (Edge)

/-! ## what acceptance means -/

/-- the bucket triple of a node -/
def bucketOf (t : DTree) (i : Nat) : Nat × Nat × Nat := ((t.node i).hist, (t.node i).abs, (t.node i).menu)

/-- every clause of the property, for every node of the tree -/
structure ExternalSamplingShape (t : DTree) : Prop where
  nonempty : 0 < t.size
  /-- node 0 is the only root and holds `Game::root()` (for its own hole cards) -/
  root : ∀ i, i < t.size → t.parent i = none →
    i = 0 ∧ t.game i = RP.Game.root (t.game i).s0.hole (t.game i).s1.hole
  /-- every child is the parent state after a permitted action, which is the concrete form of
      an abstract action on the parent's menu -/
  child_step : ∀ i p, i < t.size → t.parent i = some p →
    p < i ∧ t.edge i ∈ t.menuOf p ∧
    ∃ a, RP.Game.isAllowed (t.game p) a = true ∧ RP.Game.step? (t.game p) a = some (t.game i)
  /-- at the traverser's decisions every action on the menu has exactly one child, and there are
      no other children -/
  walker_menu : ∀ i, i < t.size → RP.Game.turn (t.game i) = .choice t.walker →
    (∀ e ∈ t.menuOf i, (t.kidEdges i).count e = 1) ∧ (∀ e ∈ t.kidEdges i, e ∈ t.menuOf i)
  /-- at opponent decisions and chance exactly one child exists -/
  sampled_one : ∀ i, i < t.size →
    (RP.Game.turn (t.game i) = .chance ∨ ∃ x, x ≠ t.walker ∧ RP.Game.turn (t.game i) = .choice x) →
    (t.kids i).length = 1
  /-- every leaf is a finished hand whose two payoffs sum to zero (and finished hands are leaves) -/
  leaf_finished : ∀ i, i < t.size → (t.kids i = [] ↔ RP.Game.turn (t.game i) = .terminal)
  leaf_zero_sum : ∀ i, i < t.size → t.kids i = [] → (t.node i).pay0 + (t.node i).pay1 = 0
  /-- the bucket is (recalled history, card bucket, menu) -/
  bucket_parts : ∀ i, i < t.size →
    RP.Codec.pathOfEdges (recall (t.history i)) = some (t.node i).hist ∧
    RP.Codec.pathOfEdges (t.menuOf i) = some (t.node i).menu
  /-- nodes grouped into one information set agree on recalled history, menu and card bucket -/
  infoset_agree : ∀ i j, i < t.size → j < t.size → bucketOf t i = bucketOf t j →
    recall (t.history i) = recall (t.history j) ∧ t.menuOf i = t.menuOf j ∧ (t.node i).abs = (t.node j).abs
  /-- the card bucket is a function of the acting player's own cards and the board -/
  abs_function : ∀ i j, i < t.size → j < t.size → t.sweat i = t.sweat j → (t.node i).abs = (t.node j).abs
  /-- no betting round contains more raises than the cap allows -/
  raise_cap : ∀ i, i < t.size →
    (roundEdges (t.history i)).countP isRaise ≤ RP.Gen.MAX_RAISE_REPEATS + 1

theorem step_allowed {g g' : RP.Game.Game} {a : RP.Game.Action} (h : RP.Game.step? g a = some g') :
    RP.Game.isAllowed g a = true := by
  unfold RP.Game.step? at h
  split at h
  · rename_i hc; simp only [Bool.and_eq_true] at hc; exact hc.1
  · cases h

theorem acceptNode_parts {t : DTree} {i : Nat} (h : acceptNode t i = true) :
    linkOk t i = true ∧ bucketOk t i = true ∧ kidsOk t i = true ∧ leafOk t i = true ∧ capOk t i = true := by
  unfold acceptNode at h
  simp only [Bool.and_eq_true] at h
  exact ⟨h.1.1.1.1, h.1.1.1.2, h.1.1.2, h.1.2, h.2⟩

/-- **C10 (acceptor soundness).** A dumped tree the acceptor accepts has the external-sampling
    shape: every clause of the property holds at every node. -/
theorem C10_accept_sound (t : DTree) (h : acceptTree t = true) : ExternalSamplingShape t := by
  unfold acceptTree at h
  simp only [Bool.and_eq_true, decide_eq_true_eq, List.all_eq_true, List.mem_range] at h
  obtain ⟨⟨⟨hpos, _hw⟩, hnode⟩, habs⟩ := h
  have parts := fun i (hi : i < t.size) => acceptNode_parts (hnode i hi)
  have hterm : ∀ i, i < t.size → (t.kids i = [] ↔ RP.Game.turn (t.game i) = .terminal) := by
    intro i hi
    obtain ⟨_, _, hk, hl, _⟩ := parts i hi
    constructor
    · intro hkids
      unfold leafOk at hl
      simp only [hkids, bne_self_eq_false, Bool.false_or, Bool.and_eq_true] at hl
      unfold RP.Game.turn
      simp [hl.1]
    · intro ht
      unfold kidsOk at hk
      rw [ht] at hk
      simpa using hk
  refine
    { nonempty := hpos, root := ?_, child_step := ?_, walker_menu := ?_, sampled_one := ?_,
      leaf_finished := hterm, leaf_zero_sum := ?_, bucket_parts := ?_, infoset_agree := ?_,
      abs_function := ?_, raise_cap := ?_ }
  · intro i hi hp
    have hl := (parts i hi).1
    unfold linkOk at hl
    rw [hp] at hl
    simp only [Bool.and_eq_true, beq_iff_eq] at hl
    exact hl
  · intro i p hi hp
    have hl := (parts i hi).1
    unfold linkOk at hl
    rw [hp] at hl
    simp only [Bool.and_eq_true, decide_eq_true_eq, beq_iff_eq, List.contains_iff_mem] at hl
    exact ⟨hl.1.1, hl.2, _, step_allowed hl.1.2, hl.1.2⟩
  · intro i hi ht
    have hk := (parts i hi).2.2.1
    unfold kidsOk at hk
    rw [ht] at hk
    simp only [if_true, Bool.and_eq_true, List.all_eq_true, beq_iff_eq, List.contains_iff_mem] at hk
    exact hk
  · intro i hi ht
    have hk := (parts i hi).2.2.1
    unfold kidsOk at hk
    rcases ht with ht | ⟨x, hx, ht⟩
    · rw [ht] at hk; simpa using hk
    · rw [ht] at hk; simpa [hx] using hk
  · intro i hi hkids
    have hl := (parts i hi).2.2.2.1
    unfold leafOk at hl
    simp only [hkids, bne_self_eq_false, Bool.false_or, Bool.and_eq_true, beq_iff_eq] at hl
    exact hl.2
  · intro i hi
    have hb := (parts i hi).2.1
    unfold bucketOk at hb
    simp only [Bool.and_eq_true, beq_iff_eq] at hb
    exact ⟨hb.1.1.1, hb.1.1.2⟩
  · intro i j hi hj hb
    have hbi := (parts i hi).2.1
    have hbj := (parts j hj).2.1
    unfold bucketOk at hbi hbj
    simp only [Bool.and_eq_true, beq_iff_eq] at hbi hbj
    unfold bucketOf at hb
    simp only [Prod.mk.injEq] at hb
    obtain ⟨h1, h2, h3⟩ := hb
    refine ⟨?_, ?_, h2⟩
    · have a := hbi.1.2; have b := hbj.1.2
      rw [h1] at a; rw [a] at b; exact Option.some.inj b
    · have a := hbi.2; have b := hbj.2
      rw [h3] at a; rw [a] at b; exact Option.some.inj b
  · intro i j hi hj hs
    unfold absOk at habs
    simp only [List.all_eq_true, List.mem_range, Bool.or_eq_true, bne_iff_ne, ne_eq, beq_iff_eq] at habs
    rcases Nat.lt_trichotomy i j with hlt | heq | hgt
    · rcases habs j hj i hlt with h | h
      · exact absurd hs.symm h
      · exact h.symm
    · subst heq; rfl
    · rcases habs i hi j hgt with h | h
      · exact absurd hs h
      · exact h
  · intro i hi
    have hc := (parts i hi).2.2.2.2
    unfold capOk at hc
    simpa using hc

/-! ## `Profile::witness`: a newly met information set starts from the uniform strategy -/

/-- **C10 (fresh = uniform).** `witness` on a bucket not yet in the profile stores regret 0 and
    policy `1/n` on each of the `n` edges of the node's children. -/
theorem C10_fresh_uniform {α : Type} [Zero α] [One α] [Div α] [NatCast α]
    (profile : List (Nat × List (Edge × α × α))) (bucket : Nat) (edges : List Edge)
    (hnew : profile.lookup bucket = none) :
    (witness profile bucket edges).lookup bucket
      = some (edges.map (fun e => (e, (0 : α), (1 : α) / (edges.length : α)))) := by
  unfold witness
  rw [hnew]
  simp [List.lookup]

/-- a bucket already in the profile is left alone (and so are all other buckets) -/
theorem C10_known_untouched {α : Type} [Zero α] [One α] [Div α] [NatCast α]
    (profile : List (Nat × List (Edge × α × α))) (bucket : Nat) (edges : List Edge)
    (s : List (Edge × α × α)) (hold : profile.lookup bucket = some s) :
    witness profile bucket edges = profile := by
  unfold witness
  rw [hold]

/-- the fresh policies sum to one (they are a probability distribution) -/
theorem C10_fresh_sums_to_one {K : Type} [Field K] [CharZero K] (edges : List Edge) (hne : edges ≠ []) :
    (edges.map (fun _ => (1 : K) / (edges.length : K))).sum = 1 := by
  have hlen : (edges.length : K) ≠ 0 := by
    have : edges.length ≠ 0 := by
      intro h; exact hne (List.length_eq_zero_iff.mp h)
    exact_mod_cast this
  have : ∀ (l : List Edge) (c : K), (l.map (fun _ => c)).sum = (l.length : K) * c := by
    intro l c
    induction l with
    | nil => simp
    | cons x xs ih => simp only [List.map_cons, List.sum_cons, ih, List.length_cons, Nat.cast_succ]; ring
  rw [this]
  field_simp

/-! ## inverse-CDF selection -/
section pick
variable {K : Type} [Field K] [LinearOrder K] [IsStrictOrderedRing K]

theorem sum_nonneg' (l : List K) (h : ∀ v ∈ l, 0 ≤ v) : 0 ≤ l.sum := by
  induction l with
  | nil => simp
  | cons x xs ih =>
    simp only [List.sum_cons]
    have := h x (by simp)
    have := ih (fun v hv => h v (by simp [hv]))
    linarith

theorem pickIndexAux_spec (ws : List K) (hw : ∀ w ∈ ws, 0 ≤ w) :
    ∀ (acc x : K), acc ≤ x → x < acc + ws.sum → ∀ j,
      (pickIndexAux acc ws x = j ↔
        j < ws.length ∧ acc + (ws.take j).sum ≤ x ∧ x < acc + (ws.take (j+1)).sum) := by
  induction ws with
  | nil => intro acc x h1 h2; simp at h2; exact absurd h1 (not_le.mpr h2)
  | cons w ws ih =>
    intro acc x h1 h2 j
    have hw0 : 0 ≤ w := hw w (by simp)
    have hws : ∀ v ∈ ws, 0 ≤ v := fun v hv => hw v (by simp [hv])
    unfold pickIndexAux
    by_cases hx : x < acc + w
    · simp only [hx, if_true]
      constructor
      · intro hj; subst hj; simp; exact ⟨h1, hx⟩
      · rintro ⟨_, h3, _⟩
        cases j with
        | zero => rfl
        | succ k =>
          exfalso
          have hnn : 0 ≤ (ws.take k).sum :=
            sum_nonneg' _ (fun v hv => hws v (List.mem_of_mem_take hv))
          simp only [List.take_succ_cons, List.sum_cons] at h3
          linarith
    · simp only [hx, if_false]
      have hx' : acc + w ≤ x := not_lt.mp hx
      have h2' : x < acc + w + ws.sum := by simpa [add_assoc] using h2
      cases j with
      | zero =>
        constructor
        · intro h; omega
        · rintro ⟨_, _, h4⟩
          simp at h4
          exact absurd h4 hx
      | succ k =>
        have := ih hws (acc + w) x hx' h2' k
        constructor
        · intro h
          have hk : pickIndexAux (acc + w) ws x = k := by omega
          obtain ⟨a, b, c⟩ := this.mp hk
          refine ⟨by simp; omega, ?_, ?_⟩
          · simp only [List.take_succ_cons, List.sum_cons]; linarith
          · simp only [List.take_succ_cons, List.sum_cons]; linarith
        · rintro ⟨a, b, c⟩
          simp only [List.take_succ_cons, List.sum_cons] at b c
          have hk := this.mpr ⟨by simpa using a, by linarith, by linarith⟩
          omega

/-- **C10 (opponent sampling).** With non-negative weights and a draw `x ∈ [0, Σw)`, the
    inverse-CDF choice returns `j` exactly when `x` lies in `[w_0+…+w_{j-1}, w_0+…+w_j)`, an
    interval of length `w_j`: under a uniform draw edge `j` is taken with probability `w_j/Σw`. -/
theorem C10_pick_interval (ws : List K) (hw : ∀ w ∈ ws, 0 ≤ w) (x : K) (h0 : 0 ≤ x) (h1 : x < ws.sum)
    (j : Nat) :
    pickIndex ws x = j ↔ j < ws.length ∧ (ws.take j).sum ≤ x ∧ x < (ws.take (j+1)).sum := by
  have := pickIndexAux_spec ws hw 0 x h0 (by simpa using h1) j
  simpa [pickIndex] using this

/-- the interval of `C10_pick_interval` has length `w_j` -/
theorem C10_pick_interval_length (ws : List K) (j : Nat) (hj : j < ws.length) :
    (ws.take (j+1)).sum - (ws.take j).sum = ws[j] := by
  induction ws generalizing j with
  | nil => simp at hj
  | cons w ws ih =>
    cases j with
    | zero => simp
    | succ k =>
      have hk : k < ws.length := by simpa using hj
      have := ih k hk
      simp only [List.take_succ_cons, List.sum_cons, List.getElem_cons_succ]
      linarith

end pick

/-! ## non-vacuity: the model's own builder is accepted -/

/-- deal the lowest cards still in the deck -/
def lowCards (g : RP.Game.Game) : Nat :=
  let d := RP.Game.deck g
  let k := RP.Game.nRevealed (RP.Game.street g)
  let rec go : Nat → Nat → Nat → Nat → Nat
    | 0, _, acc, _ => acc
    | f+1, bit, acc, need =>
      if need = 0 then acc
      else if d.testBit bit then go f (bit+1) (acc ||| (1 <<< bit)) (need-1) else go f (bit+1) acc need
  go 64 0 0 k

/-- a family of deterministic oracles -/
def orc (m : Nat) : Oracle :=
  { pick := fun i n => n - 1 - (i % m), deal := lowCards, abs := fun s => (s.1 * 31 + s.2) % 1000 }

def hole0 : Nat := 0b11 <<< 40
def hole1 : Nat := 0b101 <<< 20

/-- the opponent / chance take option `n-1-k` (the `k`-th from the end of the menu) -/
def orcK (k : Nat) : Oracle :=
  { pick := fun _ n => if n > k then n - 1 - k else 0, deal := lowCards, abs := fun s => (s.1 * 31 + s.2) % 1000 }

def built1 : Option (Nat × Bool) := (build (orc 1) 0 hole0 hole1 1000).map (fun t => (t.size, acceptTree t))
def built2 : Option (Nat × Bool) := (build (orcK 2) 0 hole0 hole1 1000).map (fun t => (t.size, acceptTree t))
def built3 : Option (Nat × Bool) := (build (orc 1) 1 hole0 hole1 1000).map (fun t => (t.size, acceptTree t))

/-- **C10 (builder, instances).** For these oracles the model of `Blueprint::tree` returns a tree and
    the acceptor accepts it (2, 7 and 59 nodes; both traversers; kernel evaluation). -/
theorem C10_builder_instances :
    built1 = some (2, true) ∧ built2 = some (7, true) ∧ built3 = some (59, true) := by
  refine ⟨by decide +kernel, by decide +kernel, by decide +kernel⟩

/-- the acceptor rejects the same built tree with one pot changed / with the traverser flipped -/
def tamper (t : DTree) : DTree :=
  ⟨t.walker, t.nodes.modify 1 (fun n => { n with game := { n.game with pot := n.game.pot + 1 } })⟩
def tampered1 : Option Bool := (build (orc 1) 1 hole0 hole1 1000).map (fun t => acceptTree (tamper t))
def tampered2 : Option Bool := (build (orc 1) 1 hole0 hole1 1000).map (fun t => acceptTree ⟨0, t.nodes⟩)

theorem acceptor_rejects : tampered1 = some false ∧ tampered2 = some false := by
  refine ⟨by decide +kernel, by decide +kernel⟩

/-! ## the window pinned before commit 27e1509 -/

/-- pre-fix `Node::subgame`: `take_while(is_choice)` from the START of the history -/
def subgamePinned (history : List Edge) : List Edge :=
  (history.takeWhile isChoice).take RP.Gen.MAX_DEPTH_SUBGAME

/-- after four pre-flop raises, a call and the flop, the pinned counter still reads 4 on the flop
    (no raise is ever offered again), while the fixed window reads 0; and with no pre-flop raise
    the pinned counter stays 0 on the flop however many flop raises there were. -/
theorem pinned_subgame_window :
    let r : Edge := .raise 1 1
    (subgamePinned [r, r, r, r, .call, .draw]).countP isAggro = 4 ∧
    nAggro [r, r, r, r, .call, .draw] = 0 ∧
    (subgamePinned [.call, .check, .draw, r, r, r, r, r, r]).countP isAggro = 0 ∧
    nAggro [.call, .check, .draw, r, r, r, r, r, r] = 6 := by
  decide

end RP.C10
