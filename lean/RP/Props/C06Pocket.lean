import RP.Props.C06Classes
/-! # C06 — the class list pocket by pocket

`C06_classes_by_pocket`: on a street with a board the yielded classes are, pocket after pocket, the
canonical boards of that pocket (`pocketClasses`); `C06_pocket_prefix`: the lazily produced prefix
the driver's `isopocket` op folds over is the first `n` of them. -/
namespace RP.C06
open RP.Bits RP.Hands RP.Spec

/-- `s` yields exactly the list `L` and then `None` (any iterator) -/
inductive GYields {σ α : Type} (step : σ → Option (α × σ)) : σ → List α → Prop
  | nil (s) : step s = none → GYields step s []
  | cons (s a s' L) : step s = some (a, s') → GYields step s' L → GYields step s (a :: L)

theorem gyields_of_unfold {σ α : Type} (step : σ → Option (α × σ)) : ∀ F s,
    (unfold step F s).length < F → GYields step s (unfold step F s) := by
  intro F
  induction F with
  | zero => intro s h; omega
  | succ F ih =>
    intro s h
    simp only [unfold] at h ⊢
    cases hs : step s with
    | none => simp only []; exact GYields.nil s hs
    | some p =>
      obtain ⟨a, s'⟩ := p
      rw [hs] at h
      simp only [List.length_cons] at h ⊢
      exact GYields.cons s a s' _ hs (ih s' (by omega))

theorem filterStep_spec {σ α : Type} (step : σ → Option (α × σ)) (keep : α → Bool) (s : σ) (L : List α)
    (hy : GYields step s L) : ∀ f2, L.length < f2 →
    (filterStep step keep f2 s = none ∧ L.filter keep = []) ∨
    (∃ a s' L', filterStep step keep f2 s = some (a, s') ∧ GYields step s' L' ∧ L'.length < L.length ∧
      L.filter keep = a :: L'.filter keep) := by
  induction hy with
  | nil s hs =>
    intro f2 hf
    obtain ⟨f, rfl⟩ : ∃ f, f2 = f + 1 := ⟨f2 - 1, by simp at hf; omega⟩
    left; simp only [filterStep, hs]; exact ⟨trivial, rfl⟩
  | cons s a s' L hs hy' ih =>
    intro f2 hf
    obtain ⟨f, rfl⟩ : ∃ f, f2 = f + 1 := ⟨f2 - 1, by omega⟩
    simp only [List.length_cons] at hf
    by_cases hc : keep a = true
    · right
      refine ⟨a, s', L, by simp only [filterStep, hs, hc, if_true], hy', by simp, ?_⟩
      rw [List.filter_cons, if_pos hc]
    · have hstep : filterStep step keep (f+1) s = filterStep step keep f s' := by
        simp only [filterStep, hs, hc]; rfl
      have hfil : (a :: L).filter keep = L.filter keep := by rw [List.filter_cons, if_neg hc]
      rw [hstep, hfil]
      rcases ih f (by omega) with h | ⟨a2, s2, L2, h1, h2, h3, h4⟩
      · exact Or.inl h
      · exact Or.inr ⟨a2, s2, L2, h1, h2, by simp only [List.length_cons]; omega, h4⟩

theorem filter_unfold {σ α : Type} (step : σ → Option (α × σ)) (keep : α → Bool) :
    ∀ n s L, L.length ≤ n → GYields step s L → ∀ fuel f2, L.length < fuel → L.length < f2 →
      unfold (filterStep step keep f2) fuel s = L.filter keep := by
  intro n
  induction n with
  | zero =>
    intro s L hl hy fuel f2 hf hf2
    obtain ⟨g, rfl⟩ : ∃ g, fuel = g + 1 := ⟨fuel - 1, by omega⟩
    simp only [unfold]
    rcases filterStep_spec step keep s L hy f2 hf2 with ⟨h1, h2⟩ | ⟨a, s', L', _, _, h3, _⟩
    · rw [h1, h2]
    · omega
  | succ n ih =>
    intro s L hl hy fuel f2 hf hf2
    obtain ⟨g, rfl⟩ : ∃ g, fuel = g + 1 := ⟨fuel - 1, by omega⟩
    simp only [unfold]
    rcases filterStep_spec step keep s L hy f2 hf2 with ⟨h1, h2⟩ | ⟨a, s', L', h1, h2, h3, h4⟩
    · rw [h1, h2]
    · rw [h1, h4]
      simp only [List.cons.injEq, true_and]
      exact ih s' L' (by omega) h2 g f2 (by omega) (by omega)

/-- **C06_classes_by_pocket**: the class list is the concatenation, over the pockets in iteration
order, of each pocket's canonical boards -/
theorem C06_classes_by_pocket (short : Bool) (street : Nat) (hs : boardStreet street) :
    classes short street = (hands short 2 0).flatMap (pocketClasses short street) := by
  have hs3 : street ≤ 3 := by rcases hs with h | h | h <;> omega
  obtain ⟨hn1, hn5⟩ := nObserved_board street hs
  rw [(C06_classes_are_canonical short street hs3).1, C06_observations short street hs, List.filter_flatMap]
  apply flatMap_congr'
  intro p hp
  unfold pocketClasses
  rw [(boards_length short _ p hn1 (by omega) hp).1, List.filter_map]
  rfl

/-- **C06_pocket_prefix**: what the driver's `isopocket` op folds over is the first `n` canonical
boards of the pocket -/
theorem C06_pocket_prefix (short : Bool) (street p n : Nat) (hs : boardStreet street)
    (hp : p ∈ hands short 2 0) :
    pocketClassesPrefix short street p n = (pocketClasses short street p).take n := by
  obtain ⟨hn1, hn5⟩ := nObserved_board street hs
  obtain ⟨hb1, hb2⟩ := boards_length short (nObserved street) p hn1 (by omega) hp
  have hlen : (handsOfHand short (nObserved street) p).length < LIST_FUEL := by
    rw [hb1, hb2]
    show _ < 2^52
    have h50 : (if short then 34 else 50) ≤ 50 := by cases short <;> simp
    calc Nat.choose (if short then 34 else 50) (nObserved street)
        ≤ Nat.choose 50 (nObserved street) := Nat.choose_le_choose _ h50
      _ < 2^52 := by
        have : nObserved street = 1 ∨ nObserved street = 2 ∨ nObserved street = 3 ∨
            nObserved street = 4 ∨ nObserved street = 5 := by omega
        rcases this with h | h | h | h | h <;> rw [h] <;> decide +kernel
  have hy := gyields_of_unfold (HandIter.step short) LIST_FUEL
    (HandIter.init short (nObserved street) p) hlen
  unfold pocketClassesPrefix pocketClasses
  rw [← List.map_take]
  congr 1
  have key := filter_unfold (HandIter.step short) (fun b => isCanon short p b) _ _ _ (Nat.le_refl _) hy
    (n + ((handsOfHand short (nObserved street) p).length + 1)) LIST_FUEL (by unfold handsOfHand handsFrom; omega) hlen
  rw [unfold_take _ n ((handsOfHand short (nObserved street) p).length + 1), key]
  rfl

theorem unfoldAt_eq {σ α : Type} (step : σ → Option (α × σ)) :
    ∀ n d s, unfoldAt step n s = (unfold step (n + 1 + d) s)[n]? := by
  intro n
  induction n with
  | zero =>
    intro d s
    have e : 0 + 1 + d = d + 1 := by omega
    rw [e]; simp only [unfoldAt, unfold]
    cases step s with
    | none => rfl
    | some p => obtain ⟨a, s'⟩ := p; rfl
  | succ n ih =>
    intro d s
    have e : n + 1 + 1 + d = (n + 1 + d) + 1 := by omega
    rw [e]; simp only [unfoldAt, unfold]
    cases step s with
    | none => rfl
    | some p => obtain ⟨a, s'⟩ := p; simp only [List.getElem?_cons_succ]; exact ih d s'

/-- **C06_observation_at**: what the driver's `obsnth` op prints — the model of "consume `i` items by
whatever entry point, then `next()`" — is item `i` of the observation list -/
theorem C06_observation_at (short : Bool) (street i : Nat) (hi : i < OBS_FUEL) :
    observationAt short street i = (Hands.observations short street)[i]? := by
  obtain ⟨d, hd⟩ := Nat.exists_eq_add_of_le (show i + 1 ≤ OBS_FUEL from hi)
  unfold observationAt Hands.observations
  rw [hd]; exact unfoldAt_eq _ i d _

end RP.C06
