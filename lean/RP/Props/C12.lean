import RP.Model.Transport
import RP.Lemmas.ArithReal
import RP.Lemmas.MetricReal
import RP.Lemmas.Hist
import RP.Lemmas.Greedy
import RP.Lemmas.Entropic
import Mathlib.Algebra.BigOperators.Fin
import Mathlib.Tactic.Ring
import Mathlib.Tactic.Linarith
import Mathlib.Tactic.Positivity
import Mathlib.Algebra.BigOperators.Group.Finset.Basic
import Mathlib.Algebra.Order.BigOperators.Group.Finset
import Mathlib.Algebra.BigOperators.Ring.Finset
import Mathlib.Order.Interval.Finset.Nat
set_option linter.unusedSimpArgs false
/-! # C12 — earth mover's distances are (near-)optimal transport costs

Model: `RP.Transport` instantiated with `ℝ` (`RP/Lemmas/ArithReal.lean`): exact arithmetic.
Rounding, overflow and NaN of the `f32` implementation are outside these theorems (DESIGN §2);
the `Float32` instantiation of the same definitions is compared with the real code on every run.

① `sinkhorn_cols`, `sinkhorn_cols_le`, `sinkhorn_cols_eq`, `sinkhorn_plan_pos`, `sinkhorn_final`,
  `C12_sinkhorn_plan` (column sums / non-negativity / total mass at exit of `minimize`)
① `C12_equity_*` (closed form, 100/101 factor, symmetric, zero iff equal, triangle, cut lower bound)
① `C12_greedy_*` (feasibility invariants, termination, cost = plan cost ≥ every lower bound)
-/
namespace RP.C12
open RP.Transport

/-! ## Sinkhorn: column sums after an `rhs` update -/

/-- `e_x = exp(lhs x − C(y, x)/T)`: the term of `x` in the log-sum-exp of the `rhs` update at `y` -/
noncomputable def eTerm (d : Nat → Nat → ℝ) (T : ℝ) (y : Nat) (xf : Nat × ℝ) : ℝ :=
  Real.exp (xf.2 - d y xf.1 / T)

/-- the clamped partition sum `Σ_x max(e_x, MIN_POSITIVE)` -/
noncomputable def clampSum (d : Nat → Nat → ℝ) (T : ℝ) (y : Nat) (lhs : Pot ℝ) : ℝ :=
  (lhs.map fun xf => max (eTerm d T y xf) minPosR).sum

theorem divergence_R (d : Nat → Nat → ℝ) (T : ℝ) (y : Nat) (py : ℝ) (lhs : Pot ℝ) :
    divergence d T y py lhs = Real.log py - Real.log (clampSum d T y lhs) := by
  simp only [divergence, R_sub, R_log, sum_eq, R_max, R_exp, reg, R_div, R_minPos, clampSum, eTerm]

theorem clampSum_pos (d : Nat → Nat → ℝ) (T : ℝ) (y : Nat) (lhs : Pot ℝ) (hne : lhs ≠ []) :
    0 < clampSum d T y lhs := by
  unfold clampSum
  cases lhs with
  | nil => exact absurd rfl hne
  | cons x xs =>
    simp only [List.map_cons, List.sum_cons]
    have h1 : 0 < max (eTerm d T y x) minPosR := lt_of_lt_of_le minPosR_pos (le_max_right _ _)
    have h2 : 0 ≤ (xs.map fun xf => max (eTerm d T y xf) minPosR).sum :=
      List.sum_nonneg (by
        intro a ha
        obtain ⟨e, _, rfl⟩ := List.mem_map.mp ha
        exact le_of_lt (lt_of_lt_of_le minPosR_pos (le_max_right _ _)))
    linarith

theorem list_sum_map_mul_left (l : List (Nat × ℝ)) (c : ℝ) (f : Nat × ℝ → ℝ) :
    (l.map fun x => c * f x).sum = c * (l.map f).sum := by
  induction l with
  | nil => simp
  | cons x xs ih => simp [ih, mul_add]

/-- **① `sinkhorn_cols`** — exact column sum of the plan after an `rhs` update, clamp included:
    for every entry `(y, g)` of the updated right potential with `ν(y) > 0`, and a symmetric cost,
    `Σ_x P(x,y) = ν(y) · (Σ_x e_x) / (Σ_x max(e_x, ε))`. -/
theorem sinkhorn_cols (d : Nat → Nat → ℝ) (hsym : ∀ x y, d x y = d y x) (T : ℝ) (nu : Hist)
    (lhs rhs0 : Pot ℝ) (yg : Nat × ℝ) (hy : yg ∈ rhsUpd d T nu lhs rhs0) (hpos : 0 < (density nu yg.1 : ℝ)) :
    (lhs.map fun xf => coupling d T xf.1 xf.2 yg.1 yg.2).sum
      = density nu yg.1 * (lhs.map (eTerm d T yg.1)).sum / clampSum d T yg.1 lhs := by
  simp only [rhsUpd, List.mem_map] at hy
  obtain ⟨y0, _, rfl⟩ := hy
  simp only
  by_cases hne : lhs = []
  · subst hne; simp [clampSum]
  have hS := clampSum_pos d T y0.1 lhs hne
  have hexp : Real.exp (divergence d T y0.1 (density nu y0.1) lhs)
      = density nu y0.1 / clampSum d T y0.1 lhs := by
    rw [divergence_R, Real.exp_sub, Real.exp_log hpos, Real.exp_log hS]
  have hterm : ∀ xf : Nat × ℝ,
      coupling d T xf.1 xf.2 y0.1 (divergence d T y0.1 (density nu y0.1) lhs)
        = (density nu y0.1 / clampSum d T y0.1 lhs) * eTerm d T y0.1 xf := by
    intro xf
    simp only [coupling, R_exp, R_sub, R_add, reg, R_div, eTerm]
    rw [← hexp, ← Real.exp_add, hsym xf.1 y0.1]
    congr 1; ring
  simp only [hterm]
  rw [list_sum_map_mul_left]
  ring

/-- the plan never over-fills a column: `Σ_x P(x,y) ≤ ν(y)` whatever the clamp did -/
theorem sinkhorn_cols_le (d : Nat → Nat → ℝ) (hsym : ∀ x y, d x y = d y x) (T : ℝ) (nu : Hist)
    (lhs rhs0 : Pot ℝ) (yg : Nat × ℝ) (hy : yg ∈ rhsUpd d T nu lhs rhs0) (hpos : 0 < (density nu yg.1 : ℝ)) :
    (lhs.map fun xf => coupling d T xf.1 xf.2 yg.1 yg.2).sum ≤ density nu yg.1 := by
  rw [sinkhorn_cols d hsym T nu lhs rhs0 yg hy hpos]
  by_cases hne : lhs = []
  · subst hne; simp [clampSum]; exact le_of_lt hpos
  have hS := clampSum_pos d T yg.1 lhs hne
  rw [div_le_iff₀ hS]
  apply mul_le_mul_of_nonneg_left _ (le_of_lt hpos)
  unfold clampSum
  apply List.sum_le_sum
  intro xf _
  exact le_max_left _ _

/-- when no term is below `MIN_POSITIVE` the column sum is exactly `ν(y)` -/
theorem sinkhorn_cols_eq (d : Nat → Nat → ℝ) (hsym : ∀ x y, d x y = d y x) (T : ℝ) (nu : Hist)
    (lhs rhs0 : Pot ℝ) (yg : Nat × ℝ) (hy : yg ∈ rhsUpd d T nu lhs rhs0) (hpos : 0 < (density nu yg.1 : ℝ))
    (hne : lhs ≠ []) (hclamp : ∀ xf ∈ lhs, minPosR ≤ eTerm d T yg.1 xf) :
    (lhs.map fun xf => coupling d T xf.1 xf.2 yg.1 yg.2).sum = density nu yg.1 := by
  rw [sinkhorn_cols d hsym T nu lhs rhs0 yg hy hpos]
  have hS := clampSum_pos d T yg.1 lhs hne
  have : clampSum d T yg.1 lhs = (lhs.map (eTerm d T yg.1)).sum := by
    unfold clampSum
    congr 1
    apply List.map_congr_left
    intro xf hxf
    exact max_eq_left (hclamp xf hxf)
  rw [← this]
  field_simp

/-- every plan entry is positive (`P ≥ 0`) -/
theorem sinkhorn_plan_pos (d : Nat → Nat → ℝ) (T : ℝ) (x : Nat) (f : ℝ) (y : Nat) (g : ℝ) :
    0 < coupling d T x f y g := by
  simp only [coupling, R_exp]; exact Real.exp_pos _

/-! ## the loop: the last half-step of every iteration is an `rhs` update -/

theorem rhsUpd_idem (d : Nat → Nat → ℝ) (T : ℝ) (nu : Hist) (lhs r0 : Pot ℝ) :
    rhsUpd d T nu lhs (rhsUpd d T nu lhs r0) = rhsUpd d T nu lhs r0 := by
  simp [rhsUpd, List.map_map, Function.comp_def]

theorem rhsUpd_keys (d : Nat → Nat → ℝ) (T : ℝ) (nu : Hist) (lhs r0 : Pot ℝ) :
    (rhsUpd d T nu lhs r0).map Prod.fst = r0.map Prod.fst := by
  simp [rhsUpd, List.map_map, Function.comp_def]

theorem lhsUpd_keys (d : Nat → Nat → ℝ) (T : ℝ) (mu : Hist) (l0 rhs : Pot ℝ) :
    (lhsUpd d T mu l0 rhs).map Prod.fst = l0.map Prod.fst := by
  simp [lhsUpd, List.map_map, Function.comp_def]

/-- the state invariant: the right potential is the `rhs` update of the current left potential -/
def RhsFresh (d : Nat → Nat → ℝ) (T : ℝ) (nu : Hist) (s : SK ℝ) : Prop :=
  s.rhs = rhsUpd d T nu s.lhs s.rhs

theorem skIter_fresh (d : Nat → Nat → ℝ) (T tol : ℝ) (mu nu : Hist) (s s1 : SK ℝ) (b : Bool)
    (h : skIter d T tol mu nu s = some (s1, b)) :
    RhsFresh d T nu s1 ∧ s1.lhs.map Prod.fst = s.lhs.map Prod.fst ∧ s1.rhs.map Prod.fst = s.rhs.map Prod.fst := by
  unfold skIter at h
  simp only at h
  split at h
  · split at h
    · simp only [Option.some.injEq, Prod.mk.injEq] at h
      obtain ⟨rfl, _⟩ := h
      exact ⟨(rhsUpd_idem d T nu _ _).symm, lhsUpd_keys .., rhsUpd_keys ..⟩
    · cases h
  · cases h

theorem skLoop_fresh (d : Nat → Nat → ℝ) (T tol : ℝ) (mu nu : Hist) (n : Nat) (s s' : SK ℝ)
    (hs : RhsFresh d T nu s) (h : skLoop d T tol mu nu n s = some s') :
    RhsFresh d T nu s' ∧ s'.lhs.map Prod.fst = s.lhs.map Prod.fst ∧ s'.rhs.map Prod.fst = s.rhs.map Prod.fst := by
  induction n generalizing s with
  | zero => simp only [skLoop, Option.some.injEq] at h; subst h; exact ⟨hs, rfl, rfl⟩
  | succ n ih =>
    simp only [skLoop] at h
    cases hi : skIter d T tol mu nu s with
    | none => rw [hi] at h; cases h
    | some r =>
      obtain ⟨s1, b⟩ := r
      rw [hi] at h
      simp only at h
      obtain ⟨hf, hk1, hk2⟩ := skIter_fresh d T tol mu nu s s1 b hi
      cases b with
      | true => simp only [if_true, Option.some.injEq] at h; subst h; exact ⟨hf, hk1, hk2⟩
      | false =>
        simp only [Bool.false_eq_true, if_false] at h
        obtain ⟨h1, h2, h3⟩ := ih s1 hf h
        exact ⟨h1, h2.trans hk1, h3.trans hk2⟩

/-- **① the stopping rule cannot break the column marginals**: after at least one iteration
    (whether the loop ran to its bound or stopped early) the final right potential is the `rhs`
    update of the final left potential, and the supports are unchanged. -/
theorem sinkhorn_final (d : Nat → Nat → ℝ) (T tol : ℝ) (mu nu : Hist) (n : Nat) (s s' : SK ℝ)
    (h : skLoop d T tol mu nu (n + 1) s = some s') :
    RhsFresh d T nu s' ∧ s'.lhs.map Prod.fst = s.lhs.map Prod.fst ∧ s'.rhs.map Prod.fst = s.rhs.map Prod.fst := by
  simp only [skLoop] at h
  cases hi : skIter d T tol mu nu s with
  | none => rw [hi] at h; cases h
  | some r =>
    obtain ⟨s1, b⟩ := r
    rw [hi] at h
    simp only at h
    obtain ⟨hf, hk1, hk2⟩ := skIter_fresh d T tol mu nu s s1 b hi
    cases b with
    | true => simp only [if_true, Option.some.injEq] at h; subst h; exact ⟨hf, hk1, hk2⟩
    | false =>
      simp only [Bool.false_eq_true, if_false] at h
      obtain ⟨h1, h2, h3⟩ := skLoop_fresh d T tol mu nu n s1 s' hf h
      exact ⟨h1, h2.trans hk1, h3.trans hk2⟩

theorem density_pos (h : Hist) (hv : h.Valid) (e : Nat × Nat) (he : e ∈ h.counts) : 0 < (density h e.1 : ℝ) := by
  simp only [density, R_div, R_ofNat, Hist.count_of_mem h hv.wf e he]
  exact div_pos (by exact_mod_cast hv.counts_pos e he) (by exact_mod_cast hv.mass_pos)

theorem density_total (h : Hist) (hv : h.Valid) : (h.counts.map fun e => (density h e.1 : ℝ)).sum = 1 := by
  have h1 : (h.counts.map fun e => (density h e.1 : ℝ)) = h.counts.map fun e => (e.2 : ℝ) / h.mass := by
    apply List.map_congr_left
    intro e he
    simp only [density, R_div, R_ofNat, Hist.count_of_mem h hv.wf e he]
  rw [h1]
  have h2 : ∀ (l : List (Nat × Nat)) (m : ℝ), (l.map fun e => (e.2 : ℝ) / m).sum = ((l.map Prod.snd).sum : ℕ) / m := by
    intro l m
    induction l with
    | nil => simp
    | cons x xs ih => simp [ih, add_div]
  rw [h2, ← hv.mass_eq]
  exact div_self (by exact_mod_cast (ne_of_gt hv.mass_pos))

/-- column sum of the plan of a state at `(y, g)` -/
noncomputable def colSum (d : Nat → Nat → ℝ) (T : ℝ) (s : SK ℝ) (yg : Nat × ℝ) : ℝ :=
  (s.lhs.map fun xf => coupling d T xf.1 xf.2 yg.1 yg.2).sum

/-- **C12, Sinkhorn plan** — for the plan `minimize` returns (any metric, any two valid histograms,
    at least one iteration — `RP.Gen.C12.iterations = 128`), over ℝ:
    every entry is positive; every column sum is `≤ ν(y)`, given exactly by `sinkhorn_cols`;
    and if no exponential falls below `MIN_POSITIVE` every column sum equals `ν(y)` and the total
    mass is `1`. -/
theorem C12_sinkhorn_plan (T tol : ℝ) (n : Nat) (m : Metric ℝ) (mu nu : Hist) (hnu : nu.Valid) (s : SK ℝ)
    (h : minimize T tol (n + 1) m mu nu = some s) :
    (∀ xf ∈ s.lhs, ∀ yg ∈ s.rhs, 0 < coupling m.distD T xf.1 xf.2 yg.1 yg.2) ∧
    s.lhs.map Prod.fst = mu.support ∧ s.rhs.map Prod.fst = nu.support ∧
    (∀ yg ∈ s.rhs, colSum m.distD T s yg
        = density nu yg.1 * (s.lhs.map (eTerm m.distD T yg.1)).sum / clampSum m.distD T yg.1 s.lhs) ∧
    (∀ yg ∈ s.rhs, colSum m.distD T s yg ≤ density nu yg.1) ∧
    ((∀ yg ∈ s.rhs, ∀ xf ∈ s.lhs, minPosR ≤ eTerm m.distD T yg.1 xf) →
        (∀ yg ∈ s.rhs, colSum m.distD T s yg = density nu yg.1) ∧
        (s.rhs.map (colSum m.distD T s)).sum = 1) := by
  unfold minimize at h
  split at h
  · cases h
  · rename_i hemp
    split at h
    · obtain ⟨hf, hk1, hk2⟩ := sinkhorn_final m.distD T tol mu nu n (skInit mu nu) s h
      have hsym := Metric.distD_symm m
      have hkl : s.lhs.map Prod.fst = mu.support := by
        rw [hk1]; simp [skInit, uniform, Hist.support, List.map_map, Function.comp_def]
      have hkr : s.rhs.map Prod.fst = nu.support := by
        rw [hk2]; simp [skInit, uniform, Hist.support, List.map_map, Function.comp_def]
      have hlne : s.lhs ≠ [] := by
        intro he
        rw [he] at hkl
        simp only [List.map_nil, Hist.support] at hkl
        have : mu.counts = [] := List.map_eq_nil_iff.mp hkl.symm
        simp [this] at hemp
      have hposy : ∀ yg ∈ s.rhs, 0 < (density nu yg.1 : ℝ) := by
        intro yg hyg
        have : yg.1 ∈ nu.support := by rw [← hkr]; exact List.mem_map_of_mem hyg
        obtain ⟨e, he, hee⟩ := List.mem_map.mp this
        rw [← hee]; exact density_pos nu hnu e he
      have hmem : ∀ yg ∈ s.rhs, yg ∈ rhsUpd m.distD T nu s.lhs s.rhs := by
        intro yg hyg; rw [← hf]; exact hyg
      refine ⟨fun xf _ yg _ => sinkhorn_plan_pos .., hkl, hkr, ?_, ?_, ?_⟩
      · intro yg hyg
        exact sinkhorn_cols m.distD hsym T nu s.lhs s.rhs yg (hmem yg hyg) (hposy yg hyg)
      · intro yg hyg
        exact sinkhorn_cols_le m.distD hsym T nu s.lhs s.rhs yg (hmem yg hyg) (hposy yg hyg)
      · intro hcl
        have heq : ∀ yg ∈ s.rhs, colSum m.distD T s yg = density nu yg.1 := fun yg hyg =>
          sinkhorn_cols_eq m.distD hsym T nu s.lhs s.rhs yg (hmem yg hyg) (hposy yg hyg) hlne (hcl yg hyg)
        refine ⟨heq, ?_⟩
        have : s.rhs.map (colSum m.distD T s) = s.rhs.map fun yg => (density nu yg.1 : ℝ) :=
          List.map_congr_left heq
        rw [this]
        have h2 : (s.rhs.map fun yg => (density nu yg.1 : ℝ)) = (s.rhs.map Prod.fst).map fun y => (density nu y : ℝ) := by
          simp [List.map_map, Function.comp_def]
        rw [h2, hkr]
        simp only [Hist.support, List.map_map, Function.comp_def]
        exact density_total nu hnu
    · cases h

/-- the generated iteration bound is at least one, so `C12_sinkhorn_plan` applies to the real loop -/
theorem iterations_pos : ∃ n, RP.Gen.C12.iterations = n + 1 := ⟨127, by decide⟩

/-! ## Equity: `variation` is the 1-D Wasserstein distance on the percent grid, times 100/101 -/
section equity
open Finset

/-- cumulative distribution `F(i) = Σ_{j ≤ i} p(j)` -/
noncomputable def cdf (p : ℕ → ℝ) (i : ℕ) : ℝ := ∑ j ∈ range (i + 1), p j

theorem cdf_succ (p : ℕ → ℝ) (i : ℕ) : cdf p (i + 1) = cdf p i + p (i + 1) := by
  unfold cdf; rw [sum_range_succ]

theorem foldl_cdfStep (p q : ℕ → ℝ) (n : ℕ) :
    (List.range n).foldl (cdfStep p q) (0, 0, 0)
      = (∑ j ∈ range n, p j, ∑ j ∈ range n, q j, ∑ i ∈ range n, |cdf p i - cdf q i|) := by
  induction n with
  | zero => simp
  | succ n ih =>
    rw [List.range_succ, List.foldl_append, ih]
    simp only [List.foldl_cons, List.foldl_nil, cdfStep, R_add, R_sub, R_abs]
    rw [sum_range_succ, sum_range_succ, sum_range_succ]
    simp only [cdf, sum_range_succ]

/-- **closed form**: `variation = (Σ_{i<n} |F_x(i) − F_y(i)|) / n` (`n = 101` buckets) -/
theorem C12_equity_closed_form (n : ℕ) (p q : ℕ → ℝ) :
    variationOn n p q = (∑ i ∈ range n, |cdf p i - cdf q i|) / n := by
  unfold variationOn
  simp only [R_ofNat, R_sumSeed, R_div, Nat.cast_zero]
  rw [foldl_cdfStep]

/-- **the 100/101 factor**: for two distributions of equal total mass over `N + 1` buckets the last
    CDF term vanishes, so `variation = (N/(N+1)) · W₁` with `W₁ = Σ_{i<N} |F_x(i) − F_y(i)| / N`
    the 1-D Wasserstein distance for the ground distance `|i − j| / N` (`N = 100`). -/
theorem C12_equity_w1_factor (N : ℕ) (hN : 0 < N) (p q : ℕ → ℝ)
    (hpq : ∑ j ∈ range (N + 1), p j = ∑ j ∈ range (N + 1), q j) :
    variationOn (N + 1) p q = ((N : ℝ) / (N + 1)) * ((∑ i ∈ range N, |cdf p i - cdf q i|) / N) := by
  rw [C12_equity_closed_form, sum_range_succ]
  have hlast : cdf p N - cdf q N = 0 := by unfold cdf; rw [hpq]; ring
  rw [hlast, abs_zero, add_zero]
  have h1 : (N : ℝ) ≠ 0 := by exact_mod_cast (ne_of_gt hN)
  have h2 : ((N : ℝ) + 1) ≠ 0 := by positivity
  push_cast
  field_simp

/-- symmetric -/
theorem C12_equity_symm (n : ℕ) (p q : ℕ → ℝ) : variationOn n p q = variationOn n q p := by
  rw [C12_equity_closed_form, C12_equity_closed_form]
  congr 1
  apply sum_congr rfl
  intro i _; exact abs_sub_comm _ _

/-- non-negative -/
theorem C12_equity_nonneg (n : ℕ) (p q : ℕ → ℝ) : 0 ≤ variationOn n p q := by
  rw [C12_equity_closed_form]
  exact div_nonneg (sum_nonneg fun i _ => abs_nonneg _) (Nat.cast_nonneg n)

/-- triangle inequality -/
theorem C12_equity_triangle (n : ℕ) (p q r : ℕ → ℝ) :
    variationOn n p r ≤ variationOn n p q + variationOn n q r := by
  rw [C12_equity_closed_form, C12_equity_closed_form, C12_equity_closed_form, ← add_div]
  apply div_le_div_of_nonneg_right _ (Nat.cast_nonneg n)
  rw [← sum_add_distrib]
  apply sum_le_sum
  intro i _
  have : cdf p i - cdf r i = (cdf p i - cdf q i) + (cdf q i - cdf r i) := by ring
  rw [this]; exact abs_add_le _ _

/-- **zero only between equal distributions** (and zero between equal ones) -/
theorem C12_equity_zero_iff (n : ℕ) (hn : 0 < n) (p q : ℕ → ℝ) :
    variationOn n p q = 0 ↔ ∀ i < n, p i = q i := by
  rw [C12_equity_closed_form]
  have hn' : (n : ℝ) ≠ 0 := by exact_mod_cast (ne_of_gt hn)
  rw [div_eq_zero_iff]
  simp only [hn', or_false]
  rw [sum_eq_zero_iff_of_nonneg (fun i _ => abs_nonneg _)]
  constructor
  · intro h i hi
    have hc : ∀ k < n, cdf p k = cdf q k := by
      intro k hk
      have := h k (mem_range.mpr hk)
      rw [abs_eq_zero] at this; linarith
    cases i with
    | zero =>
      have := hc 0 hi
      simpa [cdf] using this
    | succ i =>
      have h1 := hc (i + 1) hi
      have h0 := hc i (by omega)
      rw [cdf_succ, cdf_succ, h0] at h1
      linarith
  · intro h i hi
    have : cdf p i = cdf q i := by
      unfold cdf
      apply sum_congr rfl
      intro j hj
      exact h j (by have := mem_range.mp hj; have := mem_range.mp hi; omega)
    rw [this, sub_self, abs_zero]

/-! ### the cut argument: every feasible plan costs at least `Σ |F_x − F_y|` -/

theorem sum_range_ite_le (n k : ℕ) (hk : k < n) (f : ℕ → ℝ) :
    ∑ i ∈ range n, (if i ≤ k then f i else 0) = ∑ i ∈ range (k + 1), f i := by
  rw [← sum_subset (s₁ := range (k + 1)) (s₂ := range n)]
  · apply sum_congr rfl
    intro i hi
    have := mem_range.mp hi
    simp [show i ≤ k by omega]
  · intro i hi; exact mem_range.mpr (by have := mem_range.mp hi; omega)
  · intro i _ hi
    have : ¬ i ≤ k := by intro h; exact hi (mem_range.mpr (by omega))
    simp [this]

/-- number of cuts `k` separating `a ≤ b` is `b − a` -/
theorem cuts_between (n a b : ℕ) (hab : a ≤ b) (hbn : b ≤ n) :
    ∑ k ∈ range n, |(if a ≤ k then (1 : ℝ) else 0) - (if b ≤ k then 1 else 0)| = (b : ℝ) - a := by
  have h1 : ∀ k, |(if a ≤ k then (1 : ℝ) else 0) - (if b ≤ k then 1 else 0)|
      = if a ≤ k ∧ k < b then 1 else 0 := by
    intro k
    by_cases h1 : a ≤ k <;> by_cases h2 : b ≤ k
    · simp [h1, h2, show ¬ k < b by omega]
    · simp [h1, h2, show k < b by omega]
    · exfalso; omega
    · simp [h1, h2]
  simp only [h1]
  rw [sum_boole]
  have : (range n).filter (fun k => a ≤ k ∧ k < b) = Ico a b := by
    ext k; simp only [mem_filter, mem_range, mem_Ico]; omega
  rw [this, Nat.card_Ico, Nat.cast_sub hab]

theorem cuts_abs (n i j : ℕ) (hi : i < n) (hj : j < n) :
    ∑ k ∈ range n, |(if i ≤ k then (1 : ℝ) else 0) - (if j ≤ k then 1 else 0)| = |(i : ℝ) - j| := by
  rcases le_total i j with h | h
  · rw [cuts_between n i j h (by omega)]
    have : (i : ℝ) ≤ j := by exact_mod_cast h
    rw [abs_sub_comm, abs_of_nonneg (by linarith)]
  · have := cuts_between n j i h (by omega)
    have h2 : ∀ k, |(if i ≤ k then (1 : ℝ) else 0) - (if j ≤ k then 1 else 0)|
        = |(if j ≤ k then (1 : ℝ) else 0) - (if i ≤ k then 1 else 0)| := fun k => abs_sub_comm _ _
    simp only [h2]
    rw [this]
    have : (j : ℝ) ≤ i := by exact_mod_cast h
    rw [abs_of_nonneg (by linarith)]

/-- **lower bound (cut argument)**: for every plan `π ≥ 0` on the `n × n` grid with row sums `p` and
    column sums `q`, `Σ_k |F_p(k) − F_q(k)| ≤ Σ_{i,j} π(i,j)·|i − j|`. Dividing by `N = n − 1`:
    every feasible plan for the ground distance `|i − j|/N` costs at least `Σ_k |F_p(k) − F_q(k)|/N`. -/
theorem C12_equity_lower_bound (n : ℕ) (p q : ℕ → ℝ) (π : ℕ → ℕ → ℝ)
    (hπ : ∀ i j, 0 ≤ π i j)
    (hrow : ∀ i < n, ∑ j ∈ range n, π i j = p i)
    (hcol : ∀ j < n, ∑ i ∈ range n, π i j = q j) :
    ∑ k ∈ range n, |cdf p k - cdf q k| ≤ ∑ i ∈ range n, ∑ j ∈ range n, π i j * |(i : ℝ) - j| := by
  -- step 1: each cut
  have hcut : ∀ k < n, |cdf p k - cdf q k| ≤
      ∑ i ∈ range n, ∑ j ∈ range n, π i j * |(if i ≤ k then (1 : ℝ) else 0) - (if j ≤ k then 1 else 0)| := by
    intro k hk
    have hp : cdf p k = ∑ i ∈ range n, ∑ j ∈ range n, π i j * (if i ≤ k then (1 : ℝ) else 0) := by
      unfold cdf
      rw [← sum_range_ite_le n k hk]
      apply sum_congr rfl
      intro i hi
      rw [← hrow i (mem_range.mp hi)]
      by_cases h : i ≤ k <;> simp [h]
    have hq : cdf q k = ∑ i ∈ range n, ∑ j ∈ range n, π i j * (if j ≤ k then (1 : ℝ) else 0) := by
      unfold cdf
      rw [← sum_range_ite_le n k hk, sum_comm]
      apply sum_congr rfl
      intro j hj
      rw [← hcol j (mem_range.mp hj)]
      by_cases h : j ≤ k <;> simp [h]
    rw [hp, hq, ← sum_sub_distrib]
    refine le_trans (abs_sum_le_sum_abs _ _) (sum_le_sum fun i _ => ?_)
    rw [← sum_sub_distrib]
    refine le_trans (abs_sum_le_sum_abs _ _) (sum_le_sum fun j _ => ?_)
    rw [← mul_sub, abs_mul, abs_of_nonneg (hπ i j)]
  -- step 2: sum over the cuts and exchange the sums
  calc ∑ k ∈ range n, |cdf p k - cdf q k|
      ≤ ∑ k ∈ range n, ∑ i ∈ range n, ∑ j ∈ range n,
          π i j * |(if i ≤ k then (1 : ℝ) else 0) - (if j ≤ k then 1 else 0)| :=
        sum_le_sum fun k hk => hcut k (mem_range.mp hk)
    _ = ∑ i ∈ range n, ∑ j ∈ range n, ∑ k ∈ range n,
          π i j * |(if i ≤ k then (1 : ℝ) else 0) - (if j ≤ k then 1 else 0)| := by
        rw [sum_comm]
        apply sum_congr rfl
        intro i _
        rw [sum_comm]
    _ = ∑ i ∈ range n, ∑ j ∈ range n, π i j * |(i : ℝ) - j| := by
        apply sum_congr rfl
        intro i hi
        apply sum_congr rfl
        intro j hj
        rw [← mul_sum, cuts_abs n i j (mem_range.mp hi) (mem_range.mp hj)]

/-! ### ② attainment: the monotone plan costs exactly `Σ |F_x − F_y|` -/

/-- mass strictly below bucket `i` -/
noncomputable def below (p : ℕ → ℝ) (i : ℕ) : ℝ := ∑ j ∈ range i, p j

theorem below_succ (p : ℕ → ℝ) (i : ℕ) : below p (i + 1) = below p i + p i := by
  unfold below; rw [sum_range_succ]

theorem cdf_eq_below (p : ℕ → ℝ) (i : ℕ) : cdf p i = below p (i + 1) := rfl

theorem below_mono (p : ℕ → ℝ) (hp : ∀ i, 0 ≤ p i) {i j : ℕ} (h : i ≤ j) : below p i ≤ below p j := by
  unfold below
  exact sum_le_sum_of_subset_of_nonneg (range_mono h) (fun k _ _ => hp k)

theorem below_nonneg (p : ℕ → ℝ) (hp : ∀ i, 0 ≤ p i) (i : ℕ) : 0 ≤ below p i :=
  sum_nonneg fun k _ => hp k

/-- the monotone (north-west corner) plan: overlap of the mass intervals of `i` under `p` and `j` under `q` -/
noncomputable def mono (p q : ℕ → ℝ) (i j : ℕ) : ℝ :=
  max 0 (min (below p (i + 1)) (below q (j + 1)) - max (below p i) (below q j))

theorem mono_swap (p q : ℕ → ℝ) (i j : ℕ) : mono p q i j = mono q p j i := by
  unfold mono; rw [min_comm, max_comm (below p i)]

/-- telescoping step: `|[u,v] ∩ [0,G']| − |[u,v] ∩ [0,G]| = |[u,v] ∩ [G,G']|` -/
theorem overlap_step (u v G G' : ℝ) (huv : u ≤ v) (hG : G ≤ G') :
    max 0 (min v G' - u) - max 0 (min v G - u) = max 0 (min v G' - max u G) := by
  rcases le_total v G' with h1 | h1 <;> rcases le_total v G with h2 | h2 <;>
    rcases le_total u G with h3 | h3 <;>
    simp only [min_eq_left, min_eq_right, max_eq_left, max_eq_right, h1, h2, h3] <;>
    (rcases le_total 0 (G' - u) with h4 | h4 <;> rcases le_total 0 (G - u) with h5 | h5 <;>
      rcases le_total 0 (v - u) with h6 | h6 <;> rcases le_total 0 (v - G) with h7 | h7 <;>
      rcases le_total 0 (G' - G) with h8 | h8 <;>
      simp only [max_eq_left, max_eq_right, h4, h5, h6, h7, h8] <;> linarith)

theorem mono_row_partial (p q : ℕ → ℝ) (hp : ∀ i, 0 ≤ p i) (hq : ∀ i, 0 ≤ q i) (i m : ℕ) :
    ∑ j ∈ range m, mono p q i j = max 0 (min (below p (i + 1)) (below q m) - below p i) := by
  induction m with
  | zero =>
    have h0 : below q 0 = 0 := by simp [below]
    have : min (below p (i + 1)) 0 - below p i ≤ 0 := by
      have := below_nonneg p hp i; have := min_le_right (below p (i + 1)) 0; linarith
    simp [h0, max_eq_left this]
  | succ m ih =>
    rw [sum_range_succ, ih]
    have huv : below p i ≤ below p (i + 1) := below_mono p hp (by omega)
    have hG : below q m ≤ below q (m + 1) := below_mono q hq (by omega)
    have := overlap_step (below p i) (below p (i + 1)) (below q m) (below q (m + 1)) huv hG
    unfold mono
    linarith

theorem mono_row (n : ℕ) (p q : ℕ → ℝ) (hp : ∀ i, 0 ≤ p i) (hq : ∀ i, 0 ≤ q i)
    (hsum : below p n = below q n) (i : ℕ) (hi : i < n) : ∑ j ∈ range n, mono p q i j = p i := by
  rw [mono_row_partial p q hp hq i n]
  have h1 : below p (i + 1) ≤ below q n := by rw [← hsum]; exact below_mono p hp (by omega)
  rw [min_eq_left h1, below_succ]
  have : 0 ≤ below p i + p i - below p i := by have := hp i; linarith
  rw [max_eq_right this]; ring

/-- indicator of "bucket `i` lies at or below the cut `k`" -/
noncomputable def atOrBelow (k i : ℕ) : ℝ := if i ≤ k then 1 else 0

/-- for a plan with marginals `p, q`: `F_p(k) − F_q(k)` is the net flow across the cut `k` -/
theorem cut_identity (n : ℕ) (p q : ℕ → ℝ) (π : ℕ → ℕ → ℝ)
    (hrow : ∀ i < n, ∑ j ∈ range n, π i j = p i) (hcol : ∀ j < n, ∑ i ∈ range n, π i j = q j)
    (k : ℕ) (hk : k < n) :
    cdf p k - cdf q k = ∑ i ∈ range n, ∑ j ∈ range n, π i j * (atOrBelow k i - atOrBelow k j) := by
  have hp : cdf p k = ∑ i ∈ range n, ∑ j ∈ range n, π i j * atOrBelow k i := by
    unfold cdf
    rw [← sum_range_ite_le n k hk]
    apply sum_congr rfl
    intro i hi
    rw [← hrow i (mem_range.mp hi)]
    unfold atOrBelow
    by_cases h : i ≤ k <;> simp [h]
  have hq : cdf q k = ∑ i ∈ range n, ∑ j ∈ range n, π i j * atOrBelow k j := by
    unfold cdf
    rw [← sum_range_ite_le n k hk, sum_comm]
    apply sum_congr rfl
    intro j hj
    rw [← hcol j (mem_range.mp hj)]
    unfold atOrBelow
    by_cases h : j ≤ k <;> simp [h]
  rw [hp, hq, ← sum_sub_distrib]
  apply sum_congr rfl; intro i _
  rw [← sum_sub_distrib]
  apply sum_congr rfl; intro j _; ring

/-- summing the cut indicators over all cuts gives the ground distance `|i − j|` -/
theorem cuts_exchange (n : ℕ) (π : ℕ → ℕ → ℝ) :
    ∑ k ∈ range n, ∑ i ∈ range n, ∑ j ∈ range n, π i j * |atOrBelow k i - atOrBelow k j|
      = ∑ i ∈ range n, ∑ j ∈ range n, π i j * |(i : ℝ) - j| := by
  rw [sum_comm]
  apply sum_congr rfl; intro i hi
  rw [sum_comm]
  apply sum_congr rfl; intro j hj
  rw [← mul_sum]
  congr 1
  exact cuts_abs n i j (mem_range.mp hi) (mem_range.mp hj)

/-- **② attained by the monotone plan**: for non-negative `p, q` of equal total mass the monotone plan is
    feasible and its cost for the ground distance `|i − j|` is exactly `Σ_k |F_p(k) − F_q(k)|`. -/
theorem C12_equity_attained (n : ℕ) (p q : ℕ → ℝ) (hp : ∀ i, 0 ≤ p i) (hq : ∀ i, 0 ≤ q i)
    (hsum : ∑ i ∈ range n, p i = ∑ i ∈ range n, q i) :
    (∀ i j, 0 ≤ mono p q i j) ∧
    (∀ i < n, ∑ j ∈ range n, mono p q i j = p i) ∧
    (∀ j < n, ∑ i ∈ range n, mono p q i j = q j) ∧
    ∑ i ∈ range n, ∑ j ∈ range n, mono p q i j * |(i : ℝ) - j| = ∑ k ∈ range n, |cdf p k - cdf q k| := by
  have hrow : ∀ i < n, ∑ j ∈ range n, mono p q i j = p i := mono_row n p q hp hq hsum
  have hcol : ∀ j < n, ∑ i ∈ range n, mono p q i j = q j := by
    intro j hj
    have := mono_row n q p hq hp hsum.symm j hj
    rw [← this]
    exact sum_congr rfl fun i _ => mono_swap p q i j
  refine ⟨fun i j => le_max_left _ _, hrow, hcol, ?_⟩
  rw [← cuts_exchange]
  apply sum_congr rfl
  intro k hk
  have hk' := mem_range.mp hk
  rw [cut_identity n p q (mono p q) hrow hcol k hk']
  -- the plan does not cross the cut in both directions
  rcases le_total (cdf q k) (cdf p k) with hle | hle
  · -- no mass goes from above the cut (i > k) to below it (j ≤ k)
    have hzero : ∀ i j, k < i → j ≤ k → mono p q i j = 0 := by
      intro i j hi hj
      unfold mono
      apply max_eq_left
      have h1 : below q (j + 1) ≤ below q (k + 1) := below_mono q hq (by omega)
      have h2 : below p (k + 1) ≤ below p i := below_mono p hp (by omega)
      have h3 := min_le_right (below p (i + 1)) (below q (j + 1))
      have h4 := le_max_left (below p i) (below q j)
      rw [cdf_eq_below, cdf_eq_below] at hle
      linarith
    have hterm : ∀ i j, mono p q i j * (atOrBelow k i - atOrBelow k j)
        = mono p q i j * |atOrBelow k i - atOrBelow k j| := by
      intro i j
      unfold atOrBelow
      by_cases h1 : i ≤ k <;> by_cases h2 : j ≤ k
      · simp [h1, h2]
      · simp [h1, h2]
      · simp [h1, h2, hzero i j (by omega) h2]
      · simp [h1, h2]
    rw [abs_of_nonneg]
    · exact sum_congr rfl fun i _ => sum_congr rfl fun j _ => (hterm i j).symm
    · apply sum_nonneg; intro i _; apply sum_nonneg; intro j _
      rw [hterm]; exact mul_nonneg (le_max_left _ _) (abs_nonneg _)
  · -- no mass goes from below the cut (i ≤ k) to above it (j > k)
    have hzero : ∀ i j, i ≤ k → k < j → mono p q i j = 0 := by
      intro i j hi hj
      unfold mono
      apply max_eq_left
      have h1 : below p (i + 1) ≤ below p (k + 1) := below_mono p hp (by omega)
      have h2 : below q (k + 1) ≤ below q j := below_mono q hq (by omega)
      have h3 := min_le_left (below p (i + 1)) (below q (j + 1))
      have h4 := le_max_right (below p i) (below q j)
      rw [cdf_eq_below, cdf_eq_below] at hle
      linarith
    have hterm : ∀ i j, -(mono p q i j * (atOrBelow k i - atOrBelow k j))
        = mono p q i j * |atOrBelow k i - atOrBelow k j| := by
      intro i j
      unfold atOrBelow
      by_cases h1 : i ≤ k <;> by_cases h2 : j ≤ k
      · simp [h1, h2]
      · simp [h1, h2, hzero i j h1 (by omega)]
      · simp [h1, h2]
      · simp [h1, h2]
    rw [abs_of_nonpos, ← sum_neg_distrib]
    · apply sum_congr rfl; intro i _
      rw [← sum_neg_distrib]
      exact sum_congr rfl fun j _ => (hterm i j).symm
    · have : 0 ≤ -(∑ i ∈ range n, ∑ j ∈ range n, mono p q i j * (atOrBelow k i - atOrBelow k j)) := by
        rw [← sum_neg_distrib]
        apply sum_nonneg; intro i _
        rw [← sum_neg_distrib]
        apply sum_nonneg; intro j _
        rw [hterm]; exact mul_nonneg (le_max_left _ _) (abs_nonneg _)
      linarith

/-- **`Σ_k |F_p(k) − F_q(k)|` is the exact optimal transport cost** for the ground distance `|i − j|`:
    a lower bound for every feasible plan (`C12_equity_lower_bound`) that the monotone plan attains. -/
theorem C12_equity_is_w1 (n : ℕ) (p q : ℕ → ℝ) (hp : ∀ i, 0 ≤ p i) (hq : ∀ i, 0 ≤ q i)
    (hsum : ∑ i ∈ range n, p i = ∑ i ∈ range n, q i) :
    (∃ π : ℕ → ℕ → ℝ, (∀ i j, 0 ≤ π i j) ∧ (∀ i < n, ∑ j ∈ range n, π i j = p i) ∧
        (∀ j < n, ∑ i ∈ range n, π i j = q j) ∧
        ∑ i ∈ range n, ∑ j ∈ range n, π i j * |(i : ℝ) - j| = ∑ k ∈ range n, |cdf p k - cdf q k|) ∧
    (∀ π : ℕ → ℕ → ℝ, (∀ i j, 0 ≤ π i j) → (∀ i < n, ∑ j ∈ range n, π i j = p i) →
        (∀ j < n, ∑ i ∈ range n, π i j = q j) →
        ∑ k ∈ range n, |cdf p k - cdf q k| ≤ ∑ i ∈ range n, ∑ j ∈ range n, π i j * |(i : ℝ) - j|) := by
  obtain ⟨h1, h2, h3, h4⟩ := C12_equity_attained n p q hp hq hsum
  exact ⟨⟨mono p q, h1, h2, h3, h4⟩, fun π hπ hr hc => C12_equity_lower_bound n p q π hπ hr hc⟩

/-! ### the statements for `Equity::variation` on histograms -/

/-- bucket densities of a histogram over the river grid -/
noncomputable def riverPdf (x : Hist) (i : ℕ) : ℝ := density x (riverCode i)

theorem variation_eq (x y : Hist) :
    (variation x y : ℝ) = variationOn RP.Gen.C12.equityBuckets (riverPdf x) (riverPdf y) := rfl

/-- the grid has `equityGrid + 1 = 101` buckets (generated constants) -/
theorem buckets_eq : RP.Gen.C12.equityBuckets = RP.Gen.C12.equityGrid + 1 := by decide

/-- `Equity::distance` between river buckets `i, j ≤ 100` is `|i − j| / 100`: the ground distance of `W₁` -/
theorem river_index : ∀ i < RP.Gen.C12.equityBuckets, indexOf (riverCode i) = i := by decide +kernel

theorem equity_ground_distance (i j : ℕ) (hi : i < RP.Gen.C12.equityBuckets) (hj : j < RP.Gen.C12.equityBuckets) :
    (equityDistance (riverCode i) (riverCode j) : ℝ) = |(i : ℝ) - j| / RP.Gen.C12.equityGrid := by
  simp only [equityDistance, floatize, R_abs, R_sub, R_div, R_ofNat, river_index i hi, river_index j hj]
  rw [← sub_div, abs_div]
  congr 1
  exact abs_of_nonneg (Nat.cast_nonneg _)

theorem riverCode_inj (i j : ℕ) (hi : i < RP.Gen.C12.equityBuckets) (hj : j < RP.Gen.C12.equityBuckets)
    (h : riverCode i = riverCode j) : i = j := by
  have := river_index i hi
  rw [h, river_index j hj] at this
  exact this.symm

/-- an equity histogram — valid, with every key one of the 101 river buckets — is a probability
    vector over the grid: this discharges the hypotheses `hx`, `hy` of `C12_equity` -/
theorem riverPdf_total (x : Hist) (hv : x.Valid)
    (hsup : ∀ e ∈ x.counts, ∃ i < RP.Gen.C12.equityBuckets, e.1 = riverCode i) :
    ∑ i ∈ range RP.Gen.C12.equityBuckets, riverPdf x i = 1 := by
  have hS : ∀ l : List (Nat × Nat), (∀ e ∈ l, ∃ i < RP.Gen.C12.equityBuckets, e.1 = riverCode i) →
      ∑ i ∈ range RP.Gen.C12.equityBuckets, keySum l (riverCode i) = (l.map Prod.snd).sum := by
    intro l
    induction l with
    | nil => intro _; simp [keySum]
    | cons e es ih =>
      intro hl
      obtain ⟨i0, hi0, he0⟩ := hl e (by simp)
      have hstep : ∀ i ∈ range RP.Gen.C12.equityBuckets,
          keySum (e :: es) (riverCode i) = (if i = i0 then e.2 else 0) + keySum es (riverCode i) := by
        intro i hi
        have hin := mem_range.mp hi
        unfold keySum
        by_cases h : i = i0
        · subst h; simp [List.filter_cons, he0]
        · have hne : e.1 ≠ riverCode i := by
            rw [he0]; intro h'; exact h (riverCode_inj i i0 hin hi0 h'.symm)
          have hb : (e.1 == riverCode i) = false := by simpa using hne
          simp [List.filter_cons, hb, h]
      rw [sum_congr rfl hstep, sum_add_distrib, ih (fun e he => hl e (by simp [he]))]
      rw [sum_ite_eq' (range RP.Gen.C12.equityBuckets) i0 (fun _ => e.2)]
      simp [mem_range.mpr hi0]
  have hcount : ∀ i, (riverPdf x i : ℝ) = (keySum x.counts (riverCode i) : ℕ) / (x.mass : ℝ) := fun i => by
    simp only [riverPdf, density, R_div, R_ofNat, Hist.count]
    rw [keySum_eq_lookup x.counts hv.wf]
  simp only [hcount, div_eq_mul_inv]
  rw [← Finset.sum_mul, ← Nat.cast_sum, hS x.counts hsup, ← hv.mass_eq]
  exact mul_inv_cancel₀ (by exact_mod_cast (ne_of_gt hv.mass_pos))

/-- **① `C12_equity`** — for two histograms that are probability vectors over the 101 river buckets:
    `variation = (100/101) · Σ_{i<100} |F_x(i) − F_y(i)| / 100`, it is symmetric, satisfies the triangle
    inequality, is zero iff the bucket densities coincide, and `Σ_{i<100} |F_x(i) − F_y(i)| / 100` is a
    lower bound for the cost of every feasible plan under the ground distance `|i − j|/100`. -/
theorem C12_equity (x y z : Hist)
    (hx : ∑ i ∈ range RP.Gen.C12.equityBuckets, riverPdf x i = 1)
    (hy : ∑ i ∈ range RP.Gen.C12.equityBuckets, riverPdf y i = 1) :
    (variation x y : ℝ) = (100 / 101) * ((∑ i ∈ range 100, |cdf (riverPdf x) i - cdf (riverPdf y) i|) / 100) ∧
    (variation x y : ℝ) = variation y x ∧
    ((variation x y : ℝ) = 0 ↔ ∀ i < 101, riverPdf x i = riverPdf y i) ∧
    (variation x z : ℝ) ≤ variation x y + variation y z ∧
    ∀ π : ℕ → ℕ → ℝ, (∀ i j, 0 ≤ π i j) →
      (∀ i < 101, ∑ j ∈ range 101, π i j = riverPdf x i) →
      (∀ j < 101, ∑ i ∈ range 101, π i j = riverPdf y j) →
      (∑ i ∈ range 100, |cdf (riverPdf x) i - cdf (riverPdf y) i|) / 100
        ≤ ∑ i ∈ range 101, ∑ j ∈ range 101, π i j * (equityDistance (riverCode i) (riverCode j) : ℝ) := by
  have hb : RP.Gen.C12.equityBuckets = 100 + 1 := by decide
  simp only [variation_eq, hb] at hx hy ⊢
  refine ⟨?_, C12_equity_symm _ _ _, C12_equity_zero_iff _ (by omega) _ _, C12_equity_triangle _ _ _ _, ?_⟩
  · have := C12_equity_w1_factor 100 (by omega) (riverPdf x) (riverPdf y) (by rw [hx, hy])
    rw [this]; norm_num
  · intro π hπ hrow hcol
    have hlb := C12_equity_lower_bound 101 (riverPdf x) (riverPdf y) π hπ hrow hcol
    rw [sum_range_succ] at hlb
    have hlast : cdf (riverPdf x) 100 - cdf (riverPdf y) 100 = 0 := by
      unfold cdf; rw [hx, hy]; ring
    rw [hlast, abs_zero, add_zero] at hlb
    have hg : ∀ i ∈ range 101, ∀ j ∈ range 101,
        π i j * (equityDistance (riverCode i) (riverCode j) : ℝ) = π i j * |(i : ℝ) - j| * (1 / 100) := by
      intro i hi j hj
      rw [equity_ground_distance i j (by rw [hb]; exact mem_range.mp hi) (by rw [hb]; exact mem_range.mp hj)]
      have : ((RP.Gen.C12.equityGrid : ℕ) : ℝ) = 100 := by
        have : RP.Gen.C12.equityGrid = 100 := by decide
        rw [this]; norm_num
      rw [this]; ring
    rw [sum_congr rfl fun i hi => sum_congr rfl fun j hj => hg i hi j hj]
    have hdiv : ∑ i ∈ range 101, ∑ j ∈ range 101, π i j * |(i : ℝ) - j| * (1 / 100)
        = (∑ i ∈ range 101, ∑ j ∈ range 101, π i j * |(i : ℝ) - j|) * (1 / 100) := by
      rw [Finset.sum_mul]; apply sum_congr rfl; intro i _; rw [Finset.sum_mul]
    rw [hdiv, div_eq_mul_one_div]
    exact mul_le_mul_of_nonneg_right hlb (by norm_num)

theorem river_cost (π : ℕ → ℕ → ℝ) :
    ∑ i ∈ range 101, ∑ j ∈ range 101, π i j * (equityDistance (riverCode i) (riverCode j) : ℝ)
      = (∑ i ∈ range 101, ∑ j ∈ range 101, π i j * |(i : ℝ) - j|) * (1 / 100) := by
  have hb : RP.Gen.C12.equityBuckets = 100 + 1 := by decide
  have hg : ∀ i ∈ range 101, ∀ j ∈ range 101,
      π i j * (equityDistance (riverCode i) (riverCode j) : ℝ) = π i j * |(i : ℝ) - j| * (1 / 100) := by
    intro i hi j hj
    rw [equity_ground_distance i j (by rw [hb]; exact mem_range.mp hi) (by rw [hb]; exact mem_range.mp hj)]
    have : ((RP.Gen.C12.equityGrid : ℕ) : ℝ) = 100 := by
      have : RP.Gen.C12.equityGrid = 100 := by decide
      rw [this]; norm_num
    rw [this]; ring
  rw [sum_congr rfl fun i hi => sum_congr rfl fun j hj => hg i hi j hj]
  rw [Finset.sum_mul]; apply sum_congr rfl; intro i _; rw [Finset.sum_mul]

theorem riverPdf_nonneg (x : Hist) (i : ℕ) : 0 ≤ riverPdf x i := by
  simp only [riverPdf, density, R_div, R_ofNat]
  exact div_nonneg (Nat.cast_nonneg _) (Nat.cast_nonneg _)

/-- **② `C12_equity_w1`** — `Equity::variation` is exactly `100/101` times the one-dimensional Wasserstein
    distance `W` on the percent grid: `W` is attained by a feasible plan (the monotone one) under the
    real ground distance `Equity::distance`, and no feasible plan is cheaper. -/
theorem C12_equity_w1 (x y : Hist)
    (hx : ∑ i ∈ range RP.Gen.C12.equityBuckets, riverPdf x i = 1)
    (hy : ∑ i ∈ range RP.Gen.C12.equityBuckets, riverPdf y i = 1) :
    ∃ W : ℝ, (variation x y : ℝ) = (100 / 101) * W ∧
      (∃ π : ℕ → ℕ → ℝ, (∀ i j, 0 ≤ π i j) ∧ (∀ i < 101, ∑ j ∈ range 101, π i j = riverPdf x i) ∧
        (∀ j < 101, ∑ i ∈ range 101, π i j = riverPdf y j) ∧
        ∑ i ∈ range 101, ∑ j ∈ range 101, π i j * (equityDistance (riverCode i) (riverCode j) : ℝ) = W) ∧
      (∀ π : ℕ → ℕ → ℝ, (∀ i j, 0 ≤ π i j) → (∀ i < 101, ∑ j ∈ range 101, π i j = riverPdf x i) →
        (∀ j < 101, ∑ i ∈ range 101, π i j = riverPdf y j) →
        W ≤ ∑ i ∈ range 101, ∑ j ∈ range 101, π i j * (equityDistance (riverCode i) (riverCode j) : ℝ)) := by
  obtain ⟨h1, _, _, _, h5⟩ := C12_equity x y y hx hy
  refine ⟨(∑ i ∈ range 100, |cdf (riverPdf x) i - cdf (riverPdf y) i|) / 100, h1, ?_, h5⟩
  have hb : RP.Gen.C12.equityBuckets = 100 + 1 := by decide
  rw [hb] at hx hy
  obtain ⟨a1, a2, a3, a4⟩ := C12_equity_attained 101 (riverPdf x) (riverPdf y)
    (riverPdf_nonneg x) (riverPdf_nonneg y) (by rw [hx, hy])
  refine ⟨mono (riverPdf x) (riverPdf y), a1, a2, a3, ?_⟩
  rw [river_cost, a4, sum_range_succ]
  have hlast : cdf (riverPdf x) 100 - cdf (riverPdf y) 100 = 0 := by
    unfold cdf; rw [hx, hy]; ring
  rw [hlast, abs_zero, add_zero]; ring

end equity

/-! ## Greedy plan (`Heuristic::minimize`) -/
section greedy

theorem massAt_map_keys (l : List (Nat × Nat)) (hs : SortedKeys l) (f : Nat → ℝ) (a : Nat) :
    massAt (l.map fun kc => (kc.1, f kc.1)) a = if (l.lookup a).isSome then f a else 0 := by
  induction l with
  | nil => simp [massAt]
  | cons e es ih =>
    obtain ⟨k, c⟩ := e
    unfold SortedKeys at hs
    rw [List.pairwise_cons] at hs
    simp only [List.map_cons, massAt_cons]
    by_cases h : k = a
    · subst h
      have hnone : es.lookup k = none :=
        lookup_none_of_all_ne k es (fun e he => by have := hs.1 e he; simp at this; omega)
      rw [ih hs.2, hnone]
      simp [List.lookup_cons]
    · have hb : (a == k) = false := by simpa using fun h' : a = k => h h'.symm
      simp only [h, if_false, zero_add, List.lookup_cons, hb]
      exact ih hs.2

/-- the initial pile `Potential::normalize(h)` carries exactly the density of `h` under every key -/
theorem massAt_normalize (h : Hist) (hw : h.WF) (a : Nat) : massAt (normalize h) a = density h a := by
  unfold Transport.normalize
  rw [massAt_map_keys h.counts hw (fun k => density h k) a]
  cases hl : h.counts.lookup a with
  | some c => simp
  | none => simp [density, Hist.count, hl]

theorem normalize_nonneg (h : Hist) : NonNeg (normalize h) := by
  intro e he
  simp only [Transport.normalize, List.mem_map] at he
  obtain ⟨kc, _, rfl⟩ := he
  simp only [density, R_div, R_ofNat]
  exact div_nonneg (Nat.cast_nonneg _) (Nat.cast_nonneg _)

theorem total_normalize (h : Hist) (hv : h.Valid) : total (normalize h) = 1 := by
  unfold total Transport.normalize
  rw [List.map_map]
  exact density_total h hv

/-- **① greedy plan, invariants** — for any non-negative initial pile and sink (total distance function,
    exact arithmetic) `Heuristic::minimize` terminates within its fuel without a panic; the recorded plan
    `P` (the list of moves) has non-negative entries; its row sums never exceed the source masses and its
    column sums never exceed the sink masses (what is left is exactly the remaining pile / sink); the stored
    `cost()` is the plan's cost `Σ P·d`; it stops only when the sources or the sinks are exhausted; and when
    the two total masses agree **all** source mass is placed and every sink is exactly filled. -/
theorem C12_greedy_invariant (δ : Nat → Nat → ℝ) (d : Nat → Nat → Option ℝ) (hd : ∀ x y, d x y = some (δ x y))
    (pile sink : Pot ℝ) (hp : NonNeg pile) (hs : NonNeg sink) :
    ∃ g, greedyLoop d (pile.length + sink.length + 1) ⟨pile, sink, [], []⟩ = some g ∧
      (∀ s ∈ g.steps, 0 ≤ s.2.2) ∧
      (∀ a, rowOf g.steps a ≤ massAt pile a ∧ rowOf g.steps a = massAt pile a - massAt g.pile a) ∧
      (∀ b, colOf g.steps b ≤ massAt sink b ∧ colOf g.steps b = massAt sink b - massAt g.sink b) ∧
      greedyCost g = stepsCost δ g.steps ∧
      (npos g.pile = 0 ∨ npos g.sink = 0) ∧
      (total pile = total sink →
        (∀ a, rowOf g.steps a = massAt pile a) ∧ (∀ b, colOf g.steps b = massAt sink b)) := by
  have hfuel : npos pile + npos sink < pile.length + sink.length + 1 := by
    have := npos_le_length pile; have := npos_le_length sink; omega
  obtain ⟨g, hg, inv, hdone⟩ := greedyLoop_spec δ d hd pile sink _ ⟨pile, sink, [], []⟩
    (LoopInv.init δ pile sink hp hs) hfuel
  refine ⟨g, hg, inv.steps_nonneg, ?_, ?_, ?_, hdone, ?_⟩
  · intro a
    have h1 := inv.rows a
    have h2 := massAt_nonneg g.pile inv.pile_nonneg a
    exact ⟨by linarith, by linarith⟩
  · intro b
    have h1 := inv.cols b
    have h2 := massAt_nonneg g.sink inv.sink_nonneg b
    exact ⟨by linarith, by linarith⟩
  · simp only [greedyCost, sum_eq]; exact inv.cost
  · intro heq
    have hbal := inv.balance
    have hboth : (∀ e ∈ g.pile, e.2 = 0) ∧ (∀ e ∈ g.sink, e.2 = 0) := by
      rcases hdone with h | h
      · have hz := all_zero_of_npos g.pile inv.pile_nonneg h
        have ht := total_zero_of_all g.pile hz
        exact ⟨hz, all_zero_of_total g.sink inv.sink_nonneg (by linarith)⟩
      · have hz := all_zero_of_npos g.sink inv.sink_nonneg h
        have ht := total_zero_of_all g.sink hz
        exact ⟨all_zero_of_total g.pile inv.pile_nonneg (by linarith), hz⟩
    constructor
    · intro a
      have h1 := inv.rows a
      rw [massAt_zero_of_all g.pile hboth.1 a] at h1; linarith
    · intro b
      have h1 := inv.cols b
      rw [massAt_zero_of_all g.sink hboth.2 b] at h1; linarith

/-- a feasible transport plan between `μ` and `ν`, as a list of moves `(x, y, mass)` -/
def Feasible (μ ν : Nat → ℝ) (Q : List (Nat × Nat × ℝ)) : Prop :=
  (∀ s ∈ Q, 0 ≤ s.2.2) ∧ (∀ a, rowOf Q a = μ a) ∧ (∀ b, colOf Q b = ν b)

/-- **① greedy plan is feasible** — between two histograms (each of total mass one) the greedy plan
    places all source mass: its row sums are `μ`, its column sums are `ν`, entries `≥ 0`, and
    `Heuristic::cost()` is its transport cost. -/
theorem C12_greedy_feasible (δ : Nat → Nat → ℝ) (d : Nat → Nat → Option ℝ) (hd : ∀ x y, d x y = some (δ x y))
    (source target : Hist) (hs : source.Valid) (ht : target.Valid) :
    ∃ g, greedy d source target = some g ∧
      Feasible (fun a => density source a) (fun b => density target b) g.steps ∧
      greedyCost g = stepsCost δ g.steps := by
  obtain ⟨g, hg, h1, _, _, h4, _, h6⟩ := C12_greedy_invariant δ d hd (normalize source) (normalize target)
    (normalize_nonneg source) (normalize_nonneg target)
  obtain ⟨hr, hc⟩ := h6 (by rw [total_normalize source hs, total_normalize target ht])
  refine ⟨g, hg, ⟨h1, ?_, ?_⟩, h4⟩
  · intro a; rw [hr a, massAt_normalize source hs.wf a]
  · intro b; rw [hc b, massAt_normalize target ht.wf b]

/-- **① greedy cost ≥ optimum** — the greedy cost is the cost of a feasible plan, hence at least any
    lower bound on the cost of feasible plans, in particular the optimal transport cost. -/
theorem C12_greedy_ge_opt (δ : Nat → Nat → ℝ) (d : Nat → Nat → Option ℝ) (hd : ∀ x y, d x y = some (δ x y))
    (source target : Hist) (hs : source.Valid) (ht : target.Valid) (opt : ℝ)
    (hopt : ∀ Q, Feasible (fun a => density source a) (fun b => density target b) Q → opt ≤ stepsCost δ Q) :
    ∃ g, greedy d source target = some g ∧ opt ≤ greedyCost g := by
  obtain ⟨g, hg, hf, hc⟩ := C12_greedy_feasible δ d hd source target hs ht
  exact ⟨g, hg, by rw [hc]; exact hopt _ hf⟩

/-- non-vacuity: two concrete histograms over learned buckets 1, 2 and 2, 3 are valid, so the greedy
    theorems apply to them with any distance function -/
example : (⟨3, [(2 ^ 64 + 1, 1), (2 ^ 64 + 2, 2)]⟩ : Hist).Valid :=
  ⟨by simp [Hist.WF, SortedKeys], by decide, by decide, by simp⟩

example (δ : Nat → Nat → ℝ) : ∃ g,
    greedy (fun x y => some (δ x y)) ⟨3, [(2 ^ 64 + 1, 1), (2 ^ 64 + 2, 2)]⟩ ⟨2, [(2 ^ 64 + 2, 1), (2 ^ 64 + 3, 1)]⟩ = some g ∧
    greedyCost g = stepsCost δ g.steps :=
  let ⟨g, h1, _, h3⟩ := C12_greedy_feasible δ _ (fun _ _ => rfl) _ _
    ⟨by simp [Hist.WF, SortedKeys], by decide, by decide, by simp⟩
    ⟨by simp [Hist.WF, SortedKeys], by decide, by decide, by simp⟩
  ⟨g, h1, h3⟩

end greedy

/-! ## the Sinkhorn loop never fails over ℝ (non-vacuity of `C12_sinkhorn_plan`) -/

theorem skLoop_total (d : Nat → Nat → ℝ) (T tol : ℝ) (mu nu : Hist) (n : Nat) (s : SK ℝ) :
    ∃ s', skLoop d T tol mu nu n s = some s' := by
  induction n generalizing s with
  | zero => exact ⟨s, rfl⟩
  | succ n ih =>
    have hfin : ∀ p : Pot ℝ, allFinite p = true := by
      intro p; simp [allFinite]
    simp only [skLoop, skIter, hfin, if_true]
    split
    · exact ⟨_, rfl⟩
    · exact ih _

/-- over ℝ `minimize` returns a plan whenever both histograms are non-empty and the metric knows
    every pair of the two supports -/
theorem minimize_total (T tol : ℝ) (n : Nat) (m : Metric ℝ) (mu nu : Hist)
    (hmu : mu.counts ≠ []) (hnu : nu.counts ≠ []) (hcov : m.covers mu.support nu.support = true) :
    ∃ s, minimize T tol n m mu nu = some s := by
  unfold minimize
  have h1 : (mu.counts.isEmpty || nu.counts.isEmpty) = false := by
    cases hm : mu.counts with
    | nil => exact absurd hm hmu
    | cons _ _ =>
      cases hn : nu.counts with
      | nil => exact absurd hn hnu
      | cons _ _ => rfl
  simp only [h1, Bool.false_eq_true, if_false, hcov, if_true]
  exact skLoop_total ..

/-! ## ② the entropic allowance -/
section entropic
open Finset RP.Entropic

theorem sum_flatMap_R {γ : Type} (l : List γ) (f : γ → List ℝ) :
    (l.flatMap f).sum = (l.map fun x => (f x).sum).sum := by
  induction l with
  | nil => rfl
  | cons x xs ih => simp [List.flatMap_cons, ih]

/-- the plan of a state, indexed by positions in the two supports -/
noncomputable def planFin (d : Nat → Nat → ℝ) (T : ℝ) (s : SK ℝ) (i : Fin s.lhs.length) (j : Fin s.rhs.length) : ℝ :=
  coupling d T (s.lhs[i.1]).1 (s.lhs[i.1]).2 (s.rhs[j.1]).1 (s.rhs[j.1]).2

/-- the ground cost between the `i`-th source and the `j`-th target bucket -/
noncomputable def costFin (d : Nat → Nat → ℝ) (s : SK ℝ) (i : Fin s.lhs.length) (j : Fin s.rhs.length) : ℝ :=
  d (s.lhs[i.1]).1 (s.rhs[j.1]).1

theorem planFin_gibbs (d : Nat → Nat → ℝ) (T : ℝ) (s : SK ℝ) :
    planFin d T s = gibbs T (fun i => (s.lhs[i.1]).2) (fun j => (s.rhs[j.1]).2) (costFin d s) := by
  funext i j
  simp only [planFin, coupling, gibbs, costFin, R_exp, R_sub, R_add, reg, R_div]

/-- `Sinkhorn::cost()` is the plan's transport cost `Σ_{i,j} P(i,j)·C(i,j)` (and never fails over ℝ) -/
theorem cost_eq_fin (d : Nat → Nat → ℝ) (T : ℝ) (s : SK ℝ) :
    cost d T s = some (∑ i, ∑ j, planFin d T s i j * costFin d s i j) := by
  unfold cost
  have hfin : (flows d T s).all Arith.finite = true := by simp [List.all_eq_true]
  simp only [hfin, if_true]
  simp only [sum_eq, flows, sum_flatMap_R]
  congr 1
  rw [← Fin.sum_univ_fun_getElem s.lhs (fun xf => (s.rhs.map fun yg => flow d T xf.1 xf.2 yg.1 yg.2).sum)]
  apply sum_congr rfl; intro i _
  rw [← Fin.sum_univ_fun_getElem s.rhs (fun yg => flow d T (s.lhs[i.1]).1 (s.lhs[i.1]).2 yg.1 yg.2)]
  apply sum_congr rfl; intro j _
  simp only [flow, R_mul, planFin, costFin]

theorem planFin_total (d : Nat → Nat → ℝ) (T : ℝ) (s : SK ℝ) :
    ∑ i, ∑ j, planFin d T s i j = (s.rhs.map (colSum d T s)).sum := by
  rw [sum_comm, ← Fin.sum_univ_fun_getElem s.rhs (colSum d T s)]
  apply sum_congr rfl; intro j _
  unfold colSum
  rw [← Fin.sum_univ_fun_getElem s.lhs (fun xf => coupling d T xf.1 xf.2 (s.rhs[j.1]).1 (s.rhs[j.1]).2)]
  rfl

/- Full statement of DESIGN's `C12_entropic` (NOT proved here; its last step is missing):
     OT(μ,ν) − ½‖μ−μ'‖₁ ≤ cost ≤ OT(μ,ν) + ½‖μ−μ'‖₁ + T·min(H(μ'),H(ν)),   μ' = row sums of the plan.
   Proved below: the band relative to the plan's own source marginal μ',
     OT(μ',ν) ≤ cost ≤ OT(μ',ν) + T·min(H(μ'),H(ν)).
   Missing: the stability of the optimal cost in the source marginal, |OT(μ,ν) − OT(μ',ν)| ≤ ½‖μ−μ'‖₁
   for costs in [0,1]. The search oracle checks the full band against an exact solver on every run. -/

/-- **② `C12_entropic_partial`** — the plan `P` returned by `minimize` (temperature `T > 0`, at least one
    iteration, valid target histogram) is itself a feasible plan between its own row sums `μ'` and its
    column sums, its `cost()` is `Σ P·C`, and for EVERY plan `Q ≥ 0` with the same row and column sums —
    in particular the optimal one — `cost ≤ Σ Q·C + T · min(H(μ'), H(columns))`.
    Hence `OT(μ', cols) ≤ cost ≤ OT(μ', cols) + T·min(H(μ'), H(cols))`. -/
theorem C12_entropic_partial (T tol : ℝ) (hT : 0 < T) (n : Nat) (m : Metric ℝ) (mu nu : Hist) (hnu : nu.Valid)
    (s : SK ℝ) (h : minimize T tol (n + 1) m mu nu = some s)
    (Q : Fin s.lhs.length → Fin s.rhs.length → ℝ) (hQ : ∀ i j, 0 ≤ Q i j)
    (hrow : ∀ i, ∑ j, Q i j = ∑ j, planFin m.distD T s i j)
    (hcol : ∀ j, ∑ i, Q i j = ∑ i, planFin m.distD T s i j) :
    ∃ c, cost m.distD T s = some c ∧ c = ∑ i, ∑ j, planFin m.distD T s i j * costFin m.distD s i j ∧
      c ≤ (∑ i, ∑ j, Q i j * costFin m.distD s i j)
          + T * min (ent fun i => ∑ j, planFin m.distD T s i j) (ent fun j => ∑ i, planFin m.distD T s i j) := by
  refine ⟨_, cost_eq_fin m.distD T s, rfl, ?_⟩
  obtain ⟨_, _, hkr, _, hle, _⟩ := C12_sinkhorn_plan T tol n m mu nu hnu s h
  have hmass : ∑ i, ∑ j, planFin m.distD T s i j ≤ 1 := by
    rw [planFin_total]
    have h1 : (s.rhs.map (colSum m.distD T s)).sum ≤ (s.rhs.map fun yg => (density nu yg.1 : ℝ)).sum := by
      apply List.sum_le_sum
      intro yg hyg; exact hle yg hyg
    have h2 : (s.rhs.map fun yg => (density nu yg.1 : ℝ)) = (s.rhs.map Prod.fst).map fun y => (density nu y : ℝ) := by
      simp [List.map_map, Function.comp_def]
    rw [h2, hkr] at h1
    simp only [Hist.support, List.map_map, Function.comp_def] at h1
    rw [density_total nu hnu] at h1
    exact h1
  rw [planFin_gibbs] at hrow hcol hmass ⊢
  exact gibbs_cost_le T hT _ _ _ Q hQ hrow hcol hmass

/-- source / target densities and the plan's row sums, indexed by position in the supports -/
noncomputable def muFin (mu : Hist) (s : SK ℝ) (i : Fin s.lhs.length) : ℝ := density mu (s.lhs[i.1]).1
noncomputable def nuFin (nu : Hist) (s : SK ℝ) (j : Fin s.rhs.length) : ℝ := density nu (s.rhs[j.1]).1
noncomputable def rowFin (d : Nat → Nat → ℝ) (T : ℝ) (s : SK ℝ) (i : Fin s.lhs.length) : ℝ :=
  ∑ j, planFin d T s i j
/-- the mass the plan misplaces on the source side: `½‖μ − μ'‖₁` -/
noncomputable def misplaced (d : Nat → Nat → ℝ) (T : ℝ) (mu : Hist) (s : SK ℝ) : ℝ :=
  (1 / 2) * ∑ i, |muFin mu s i - rowFin d T s i|
/-- `Q` is a transport plan between the two histograms (on the supports of the state) -/
def FeasibleFin (mu nu : Hist) (s : SK ℝ) (Q : Fin s.lhs.length → Fin s.rhs.length → ℝ) : Prop :=
  (∀ i j, 0 ≤ Q i j) ∧ (∀ i, ∑ j, Q i j = muFin mu s i) ∧ (∀ j, ∑ i, Q i j = nuFin nu s j)

/-- **② `C12_entropic`** — the near-optimality band of the property statement, in exact arithmetic and
    when no exponential is clamped (so the columns are exactly `ν` and the total mass is one):
    with `μ(i), ν(j)` the two histograms on their supports, `μ'` the row sums of the Sinkhorn plan,
    `mis = ½‖μ − μ'‖₁` the mass misplaced on the source side and a ground cost in `[0, 1]`,
    * for every feasible plan `Q` between `μ` and `ν` (in particular the optimal one):
      `cost ≤ ⟨Q, C⟩ + mis + T · min(H(μ'), H(ν))`;
    * every lower bound `L` on the cost of feasible plans (in particular the optimum) satisfies
      `L − mis ≤ cost`. -/
theorem C12_entropic (T tol : ℝ) (hT : 0 < T) (n : Nat) (m : Metric ℝ) (mu nu : Hist)
    (hmu : mu.Valid) (hnu : nu.Valid) (s : SK ℝ) (h : minimize T tol (n + 1) m mu nu = some s)
    (hclamp : ∀ yg ∈ s.rhs, ∀ xf ∈ s.lhs, minPosR ≤ eTerm m.distD T yg.1 xf)
    (hC0 : ∀ i j, 0 ≤ costFin m.distD s i j) (hC1 : ∀ i j, costFin m.distD s i j ≤ 1) :
    ∃ c, cost m.distD T s = some c ∧
      (∀ Q, FeasibleFin mu nu s Q →
        c ≤ (∑ i, ∑ j, Q i j * costFin m.distD s i j) + misplaced m.distD T mu s
            + T * min (ent (rowFin m.distD T s)) (ent (nuFin nu s))) ∧
      (∀ L : ℝ, (∀ Q, FeasibleFin mu nu s Q → L ≤ ∑ i, ∑ j, Q i j * costFin m.distD s i j) →
        L - misplaced m.distD T mu s ≤ c) := by
  obtain ⟨_, hkl, hkr, _, _, hun⟩ := C12_sinkhorn_plan T tol n m mu nu hnu s h
  obtain ⟨heq, htot⟩ := hun hclamp
  have hcolP : ∀ j : Fin s.rhs.length, ∑ i, planFin m.distD T s i j = nuFin nu s j := by
    intro j
    unfold nuFin
    rw [← heq (s.rhs[j.1]) (List.getElem_mem j.2)]
    unfold colSum
    rw [← Fin.sum_univ_fun_getElem s.lhs (fun xf => coupling m.distD T xf.1 xf.2 (s.rhs[j.1]).1 (s.rhs[j.1]).2)]
    rfl
  have hμ0 : ∀ i, 0 ≤ muFin mu s i := fun i => by
    simp only [muFin, density, R_div, R_ofNat]; exact div_nonneg (Nat.cast_nonneg _) (Nat.cast_nonneg _)
  have hμ'0 : ∀ i, 0 ≤ rowFin m.distD T s i := fun i =>
    sum_nonneg fun j _ => le_of_lt (sinkhorn_plan_pos ..)
  have hsumμ : ∑ i, muFin mu s i = 1 := by
    unfold muFin
    rw [Fin.sum_univ_fun_getElem s.lhs (fun xf => (density mu xf.1 : ℝ))]
    have : (s.lhs.map fun xf => (density mu xf.1 : ℝ)) = (s.lhs.map Prod.fst).map fun x => (density mu x : ℝ) := by
      simp [List.map_map, Function.comp_def]
    rw [this, hkl]
    simp only [Hist.support, List.map_map, Function.comp_def]
    exact density_total mu hmu
  have hsumμ' : ∑ i, rowFin m.distD T s i = 1 := by
    unfold rowFin; rw [planFin_total]; exact htot
  have hgib := planFin_gibbs m.distD T s
  refine ⟨_, cost_eq_fin m.distD T s, ?_, ?_⟩
  · -- upper bound
    rintro Q ⟨hQ, hrow, hcol⟩
    obtain ⟨Q2, hQ2, hrow2, hcol2, hcost2⟩ := ot_transfer (costFin m.distD s) hC0 hC1
      (rowFin m.distD T s) (muFin mu s) (nuFin nu s) hμ'0 hμ0 (by rw [hsumμ, hsumμ']) Q hQ hrow hcol
    have hmass : ∑ i, ∑ j, planFin m.distD T s i j ≤ 1 := le_of_eq hsumμ'
    have hb : ∑ i, ∑ j, planFin m.distD T s i j * costFin m.distD s i j
        ≤ (∑ i, ∑ j, Q2 i j * costFin m.distD s i j)
          + T * min (ent fun i => ∑ j, planFin m.distD T s i j) (ent fun j => ∑ i, planFin m.distD T s i j) := by
      rw [hgib] at hmass ⊢
      exact gibbs_cost_le T hT _ _ (costFin m.distD s) Q2 hQ2
        (by rw [← hgib]; exact hrow2) (by rw [← hgib]; intro j; rw [hcol2 j, hcolP j]) hmass
    have hent : (ent fun j => ∑ i, planFin m.distD T s i j) = ent (nuFin nu s) := by
      congr 1; funext j; exact hcolP j
    rw [hent] at hb
    have habs : ∑ i, |rowFin m.distD T s i - muFin mu s i| = ∑ i, |muFin mu s i - rowFin m.distD T s i| :=
      sum_congr rfl fun i _ => abs_sub_comm _ _
    rw [habs] at hcost2
    unfold misplaced
    have e1 : (ent fun i => ∑ j, planFin m.distD T s i j) = ent (rowFin m.distD T s) := rfl
    rw [e1] at hb
    linarith
  · -- lower bound
    intro L hL
    obtain ⟨Q2, hQ2, hrow2, hcol2, hcost2⟩ := ot_transfer (costFin m.distD s) hC0 hC1
      (muFin mu s) (rowFin m.distD T s) (nuFin nu s) hμ0 hμ'0 (by rw [hsumμ, hsumμ'])
      (planFin m.distD T s) (fun i j => le_of_lt (sinkhorn_plan_pos ..)) (fun i => rfl) hcolP
    have := hL Q2 ⟨hQ2, hrow2, hcol2⟩
    unfold misplaced
    linarith

end entropic

/-- non-vacuity of `C12_sinkhorn_plan`: two valid histograms over the learned buckets `a, b` and a
    metric knowing the pair: `minimize` (128 iterations) returns a plan, to which the theorem applies -/
example (T tol : ℝ) : ∃ s,
    minimize T tol RP.Gen.C12.iterations ⟨[(pairKey (2 ^ 64 + 1) (2 ^ 64 + 2), (1 : ℝ))]⟩
      ⟨3, [(2 ^ 64 + 1, 1), (2 ^ 64 + 2, 2)]⟩ ⟨2, [(2 ^ 64 + 1, 1), (2 ^ 64 + 2, 1)]⟩ = some s ∧
    (∀ yg ∈ s.rhs, colSum (Metric.distD ⟨[(pairKey (2 ^ 64 + 1) (2 ^ 64 + 2), (1 : ℝ))]⟩) T s yg
        ≤ density (⟨2, [(2 ^ 64 + 1, 1), (2 ^ 64 + 2, 1)]⟩ : Hist) yg.1) := by
  obtain ⟨s, hs⟩ := minimize_total T tol RP.Gen.C12.iterations
    ⟨[(pairKey (2 ^ 64 + 1) (2 ^ 64 + 2), (1 : ℝ))]⟩
    ⟨3, [(2 ^ 64 + 1, 1), (2 ^ 64 + 2, 2)]⟩ ⟨2, [(2 ^ 64 + 1, 1), (2 ^ 64 + 2, 1)]⟩
    (by simp) (by simp) (by decide +kernel)
  refine ⟨s, hs, ?_⟩
  have hv : (⟨2, [(2 ^ 64 + 1, 1), (2 ^ 64 + 2, 1)]⟩ : Hist).Valid :=
    ⟨by simp [Hist.WF, SortedKeys], by decide, by decide, by simp⟩
  have h128 : RP.Gen.C12.iterations = 127 + 1 := by decide
  rw [h128] at hs
  exact (C12_sinkhorn_plan T tol 127 _ _ _ hv s hs).2.2.2.2.1

end RP.C12
