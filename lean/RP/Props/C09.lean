import RP.Model.Regret
import Mathlib.Tactic.Linarith
import Mathlib.Tactic.FieldSimp
import Mathlib.Tactic.Ring
import Mathlib.Tactic.NormNum
import Mathlib.Algebra.Order.Field.Basic
import Mathlib.Algebra.Order.BigOperators.Group.List
/-! # C09 — Regret matching always yields a valid strategy proportional to positive regret

Objects: `RP.Regret.policyVector` (model of `Profile::policy_vector` with the divisor
`epochs().max(1)` of the fixed code), `RP.Regret.record` (clamp + assertions of
`Profile::regret_vector`), instantiated

* with exact rationals `ratOps` (core `Rat` = Mathlib's `ℚ`): the ∀-statements about every regret
  vector, every epoch counter (0 included), `ε = POLICY_MIN` as generated from `lib.rs`;
* with extended rationals `extOps` (`finite | +inf | -inf | NaN`, Rust's `f32::max/min` NaN rule):
  the clamp for *every* extended input, and the epoch-0 division of the pinned code;
* with `Float32` (IEEE binary32, evaluated by the kernel): concrete witnesses of what exact
  arithmetic cannot show — the epoch-0 NaN of the pinned code and the overflow of the sum for stored
  regrets near `f32::MAX` (**KF-C09-overflow**, a finding about the code as it is now).

What is *not* proved: that the `f32` computation stays within a rounding error of the rational one
for all inputs (it does not: see `C09_overflow_witness`); the correspondence run compares the two
on every generated case whose `f32` sum is finite. -/
namespace RP.C09
open RP.Arith RP.Regret

/-! ## what the extractor read from the source (a change there breaks these) -/

example : RP.Gen.C09.clampOpsTxt = ["max REGRET_MIN", "min REGRET_MAX"] := by decide
example : RP.Gen.C09.regretAsserts = ["!r.is_nan()", "!r.is_infinite()"] := by decide
example : RP.Gen.C09.policyFloorTxt = "max POLICY_MIN" := by decide
example : RP.Gen.C09.epochFloor = 1 ∧ RP.Gen.C09.loadEpoch = 0 := by decide
/-- the three constants are the f32 values `-3e5`, `f32::MAX`, `f32::MIN_POSITIVE = 2⁻¹²⁶` -/
example : RP.Gen.C09.REGRET_MIN = -300000 ∧ RP.Gen.C09.REGRET_MAX = (2 ^ 24 - 1) * 2 ^ 104
    ∧ RP.Gen.C09.POLICY_MIN = 1 / 2 ^ 126 := by decide +kernel

/-! ## the rational closed form -/

/-- `max(r / d, ε)` -/
def fl (ε : ℚ) (d : ℕ) (r : ℚ) : ℚ := max (r / d) ε

/-- `S = Σ_b max(R_b / d, ε)` -/
def S (ε : ℚ) (d : ℕ) (R : List ℚ) : ℚ := (R.map (fl ε d)).sum

/-- `p_a = max(R_a / d, ε) / S` -/
def prob (ε : ℚ) (d : ℕ) (R : List ℚ) (r : ℚ) : ℚ := fl ε d r / S ε d R

/-- sum of the positive parts -/
def posSum (R : List ℚ) : ℚ := (R.map (fun r => max r 0)).sum

theorem fl_pos {ε : ℚ} (hε : 0 < ε) (d : ℕ) (r : ℚ) : 0 < fl ε d r :=
  lt_max_of_lt_right hε

theorem S_pos {ε : ℚ} (hε : 0 < ε) (d : ℕ) {R : List ℚ} (hR : R ≠ []) : 0 < S ε d R := by
  apply List.sum_pos
  · intro x hx
    obtain ⟨r, _, rfl⟩ := List.mem_map.1 hx
    exact fl_pos hε d r
  · simpa using hR

theorem fl_le_S {ε : ℚ} (hε : 0 < ε) (d : ℕ) {R : List ℚ} {r : ℚ} (hr : r ∈ R) :
    fl ε d r ≤ S ε d R := by
  apply List.single_le_sum
  · intro x hx
    obtain ⟨r', _, rfl⟩ := List.mem_map.1 hx
    exact (fl_pos hε d r').le
  · exact List.mem_map.2 ⟨r, hr, rfl⟩

/-- every probability is strictly positive -/
theorem prob_pos {ε : ℚ} (hε : 0 < ε) (d : ℕ) {R : List ℚ} {r : ℚ} (hr : r ∈ R) :
    0 < prob ε d R r :=
  div_pos (fl_pos hε d r) (S_pos hε d (List.ne_nil_of_mem hr))

/-- … and at most one -/
theorem prob_le_one {ε : ℚ} (hε : 0 < ε) (d : ℕ) {R : List ℚ} {r : ℚ} (hr : r ∈ R) :
    prob ε d R r ≤ 1 :=
  (div_le_one (S_pos hε d (List.ne_nil_of_mem hr))).2 (fl_le_S hε d hr)

theorem sum_map_div (l : List ℚ) (f : ℚ → ℚ) (c : ℚ) :
    (l.map fun x => f x / c).sum = (l.map f).sum / c := by
  induction l with
  | nil => simp
  | cons x xs ih => simp only [List.map_cons, List.sum_cons, ih]; ring

/-- the probabilities sum to one -/
theorem prob_sum_one {ε : ℚ} (hε : 0 < ε) (d : ℕ) {R : List ℚ} (hR : R ≠ []) :
    (R.map (prob ε d R)).sum = 1 := by
  have h := sum_map_div R (fl ε d) (S ε d R)
  unfold prob
  rw [h]
  exact div_self (S_pos hε d hR).ne'


theorem sum_map_const_eq (l : List ℚ) (c : ℚ) (f : ℚ → ℚ) (h : ∀ x ∈ l, f x = c) :
    (l.map f).sum = l.length * c := by
  induction l with
  | nil => simp
  | cons x xs ih =>
    have hx : f x = c := h x (List.mem_cons_self ..)
    have hxs : ∀ y ∈ xs, f y = c := fun y hy => h y (List.mem_cons_of_mem _ hy)
    simp only [List.map_cons, List.sum_cons, List.length_cons, ih hxs, hx]
    push_cast; ring

/-- uniform when no `R_b / d` exceeds the floor (in particular when no regret is positive) -/
theorem prob_uniform {ε : ℚ} (hε : 0 < ε) (d : ℕ) {R : List ℚ} (h : ∀ b ∈ R, b / d ≤ ε)
    {r : ℚ} (hr : r ∈ R) : prob ε d R r = 1 / R.length := by
  have hfl : ∀ b ∈ R, fl ε d b = ε := fun b hb => max_eq_right (h b hb)
  have hS : S ε d R = R.length * ε := sum_map_const_eq R ε (fl ε d) hfl
  have hn : (0 : ℚ) < R.length := by
    have : 0 < R.length := List.length_pos_of_mem hr
    exact_mod_cast this
  unfold prob
  rw [hS, hfl r hr]
  field_simp

/-- a non-positive stored regret is at the floor whatever the divisor -/
theorem nonpos_at_floor {ε : ℚ} (hε : 0 < ε) (d : ℕ) {b : ℚ} (hb : b ≤ 0) : b / d ≤ ε := by
  have : b / (d : ℚ) ≤ 0 := div_nonpos_of_nonpos_of_nonneg hb (Nat.cast_nonneg d)
  linarith

/-- actions at or above the floor get probabilities exactly in the ratio of their regrets -/
theorem prob_ratio {ε : ℚ} (hε : 0 < ε) {d : ℕ} (hd : 0 < d) {R : List ℚ} {a b : ℚ}
    (ha : a ∈ R) (hae : ε ≤ a / d) (hbe : ε ≤ b / d) :
    prob ε d R a / prob ε d R b = a / b := by
  have hd' : (0 : ℚ) < d := by exact_mod_cast hd
  have hS := S_pos hε d (List.ne_nil_of_mem ha)
  have hb : 0 < b := by
    have : 0 < b / d := lt_of_lt_of_le hε hbe
    rcases div_pos_iff.1 this with h | h
    · exact h.1
    · linarith [h.2]
  unfold prob fl
  rw [max_eq_left hae, max_eq_left hbe]
  field_simp

theorem sum_le_sum_map (l : List ℚ) (f g : ℚ → ℚ) (h : ∀ x ∈ l, f x ≤ g x) :
    (l.map f).sum ≤ (l.map g).sum := by
  induction l with
  | nil => simp
  | cons x xs ih =>
    simp only [List.map_cons, List.sum_cons]
    have := h x (List.mem_cons_self ..)
    have := ih (fun y hy => h y (List.mem_cons_of_mem _ hy))
    linarith

theorem sum_map_add_const (l : List ℚ) (f : ℚ → ℚ) (c : ℚ) :
    (l.map fun x => f x + c).sum = (l.map f).sum + l.length * c := by
  induction l with
  | nil => simp
  | cons x xs ih => simp only [List.map_cons, List.sum_cons, List.length_cons, ih]; push_cast; ring

theorem pos_part_le_fl {ε : ℚ} (hε : 0 < ε) {d : ℕ} (r : ℚ) : max r 0 / d ≤ fl ε d r := by
  unfold fl
  rcases le_total r 0 with h | h
  · rw [max_eq_right h]; simp only [zero_div]; exact le_max_of_le_right hε.le
  · rw [max_eq_left h]; exact le_max_left _ _

theorem fl_le_pos_part_add {ε : ℚ} (hε : 0 < ε) {d : ℕ} (r : ℚ) : fl ε d r ≤ max r 0 / d + ε := by
  unfold fl
  have hd : (0 : ℚ) ≤ d := Nat.cast_nonneg d
  have h0 : 0 ≤ max r 0 / (d : ℚ) := div_nonneg (le_max_right _ _) hd
  have h1 : r / (d : ℚ) ≤ max r 0 / d := div_le_div_of_nonneg_right (le_max_left _ _) hd
  apply max_le <;> linarith

/-- `Σ R⁺ / d ≤ S ≤ Σ R⁺ / d + n ε` -/
theorem S_bounds {ε : ℚ} (hε : 0 < ε) (d : ℕ) (R : List ℚ) :
    posSum R / d ≤ S ε d R ∧ S ε d R ≤ posSum R / d + R.length * ε := by
  constructor
  · have := sum_le_sum_map R (fun r => max r 0 / d) (fl ε d) (fun r _ => pos_part_le_fl hε r)
    rw [sum_map_div R (fun r => max r 0) d] at this
    exact this
  · have := sum_le_sum_map R (fl ε d) (fun r => max r 0 / d + ε) (fun r _ => fl_le_pos_part_add hε r)
    rw [sum_map_add_const R (fun r => max r 0 / d) ε, sum_map_div R (fun r => max r 0) d] at this
    exact this

/-- the total probability of the actions below the floor is at most `n ε / S` -/
theorem floor_mass {ε : ℚ} (hε : 0 < ε) (d : ℕ) {R : List ℚ} (hR : R ≠ []) :
    ((R.filter (fun r => decide (r / d < ε))).map (prob ε d R)).sum ≤ R.length * ε / S ε d R := by
  have hS := S_pos hε d hR
  set F := R.filter (fun r => decide (r / d < ε)) with hF
  have hconst : ∀ x ∈ F, prob ε d R x = ε / S ε d R := by
    intro x hx
    have : x / d < ε := by simpa using (List.mem_filter.1 hx).2
    unfold prob fl
    rw [max_eq_right this.le]
  rw [sum_map_const_eq F _ _ hconst]
  have hlen : (F.length : ℚ) ≤ R.length := by
    exact_mod_cast List.length_filter_le _ R
  have : 0 ≤ ε / S ε d R := (div_pos hε hS).le
  calc (F.length : ℚ) * (ε / S ε d R) ≤ R.length * (ε / S ε d R) := mul_le_mul_of_nonneg_right hlen this
    _ = R.length * ε / S ε d R := by ring

/-- distance to textbook regret matching `R_a⁺ / Σ R⁺`: at most `n ε d / Σ R⁺` -/
theorem prob_near_regret_matching {ε : ℚ} (hε : 0 < ε) {d : ℕ} (hd : 0 < d) {R : List ℚ}
    (hP : 0 < posSum R) {a : ℚ} (ha : a ∈ R) :
    |prob ε d R a - max a 0 / posSum R| ≤ R.length * ε * d / posSum R := by
  have hd' : (0 : ℚ) < d := by exact_mod_cast hd
  have hS := S_pos hε d (List.ne_nil_of_mem ha)
  obtain ⟨hlo, hhi⟩ := S_bounds hε d R
  have hX : 0 < posSum R / d := div_pos hP hd'
  have hn : (1 : ℚ) ≤ R.length := by
    have : 0 < R.length := List.length_pos_of_mem ha
    exact_mod_cast this
  have hm1 := pos_part_le_fl (d := d) hε a
  have hm2 := fl_le_pos_part_add (d := d) hε a
  have hx0 : 0 ≤ max a 0 / (d : ℚ) := div_nonneg (le_max_right _ _) hd'.le
  have hxle : max a 0 / (d : ℚ) ≤ posSum R / d := by
    apply div_le_div_of_nonneg_right _ hd'.le
    unfold posSum
    apply List.single_le_sum
    · intro y hy; obtain ⟨r', _, rfl⟩ := List.mem_map.1 hy; exact le_max_right _ _
    · exact List.mem_map.2 ⟨a, ha, rfl⟩
  -- write x = a⁺/d, X = ΣR⁺/d, m = fl a, S
  set x := max a 0 / (d : ℚ) with hx
  set X := posSum R / (d : ℚ) with hXdef
  set m := fl ε d a with hm
  set s := S ε d R with hs
  have e1 : max a 0 / posSum R = x / X := by
    rw [hx, hXdef]; field_simp
  have e2 : (R.length : ℚ) * ε * d / posSum R = R.length * ε / X := by
    rw [hXdef]; field_simp
  have e3 : prob ε d R a = m / s := rfl
  rw [e1, e2, e3]
  have key : m / s - x / X = (m * X - x * s) / (s * X) := by field_simp
  rw [key, abs_le]
  have hsX : 0 < s * X := mul_pos hS hX
  constructor
  · rw [le_div_iff₀ hsX]
    have : -(R.length * ε / X) * (s * X) = -(R.length * ε * s) := by field_simp
    rw [this]
    nlinarith [mul_nonneg hx0 (mul_nonneg (by linarith : (0:ℚ) ≤ R.length) hε.le), mul_nonneg hx0 hS.le,
      mul_le_mul_of_nonneg_left hxle (mul_nonneg (by linarith : (0:ℚ) ≤ R.length) hε.le)]
  · rw [div_le_iff₀ hsX]
    have : R.length * ε / X * (s * X) = R.length * ε * s := by field_simp
    rw [this]
    nlinarith [mul_pos hε hS, mul_nonneg hε.le hX.le, mul_le_mul_of_nonneg_left hlo hε.le]


/-! ## the model computes the closed form and never aborts (exact arithmetic) -/

theorem ratSum_eq (l : List ℚ) : ratOps.sum l = l.sum := by
  have h : ∀ (l : List ℚ) (a : ℚ), l.foldl ratOps.add a = a + l.sum := by
    intro l
    induction l with
    | nil => intro a; simp
    | cons x xs ih => intro a; simp only [List.foldl_cons, List.sum_cons, ih]; simp only [ratOps]; ring
  simp only [Ops.sum, h]; simp [ratOps]

theorem floored_eq {κ : Type} (ε : ℚ) (dv : ℕ → ℕ) (t : ℕ) (kv : List (κ × ℚ)) :
    floored ratOps dv ε t kv = kv.map (fun ar => (ar.1, fl ε (dv t) ar.2)) := by
  unfold floored
  apply List.map_congr_left
  intro ar _
  simp only [cumulated, ratOps, fl, max_def]

theorem okProb_iff (p : ℚ) : okProb ratOps p = true ↔ 0 ≤ p ∧ p ≤ 1 := by
  simp [okProb, ratOps, RP.Gen.C09.assertLo, RP.Gen.C09.assertHi]

/-- **closed form / no abort.** For the traverser's node (`player = walker t`), any divisor
    function, any `ε > 0` and any stored regrets, the model of `policy_vector` over exact
    arithmetic returns (never aborts), keeps exactly the keys it was given, in order, and
    assigns `p_a = max(R_a/d, ε) / Σ_b max(R_b/d, ε)`. -/
theorem policyVectorWith_eq {κ : Type} {ε : ℚ} (hε : 0 < ε) (dv : ℕ → ℕ) (player t : ℕ)
    (kv : List (κ × ℚ)) (hw : player = RP.Discount.walker t) :
    policyVectorWith ratOps dv ε player t kv
      = some (kv.map fun ar => (ar.1, prob ε (dv t) (kv.map (·.2)) ar.2)) := by
  have hsum : ratOps.sum ((floored ratOps dv ε t kv).map (·.2)) = S ε (dv t) (kv.map (·.2)) := by
    rw [floored_eq, ratSum_eq]; simp [S, List.map_map, Function.comp_def]
  have hps : (floored ratOps dv ε t kv).map
        (fun ax => (ax.1, ratOps.div ax.2 (ratOps.sum ((floored ratOps dv ε t kv).map (·.2)))))
      = kv.map fun ar => (ar.1, prob ε (dv t) (kv.map (·.2)) ar.2) := by
    rw [hsum, floored_eq, List.map_map]
    apply List.map_congr_left
    intro ar _
    simp [prob, ratOps]
  unfold policyVectorWith
  rw [if_neg (by simpa using hw)]
  simp only [hps]
  rw [if_pos]
  rw [List.all_eq_true]
  intro ap hap
  obtain ⟨ar, har, rfl⟩ := List.mem_map.1 hap
  have hmem : ar.2 ∈ kv.map (·.2) := List.mem_map.2 ⟨ar, har, rfl⟩
  exact (okProb_iff _).2 ⟨(prob_pos hε (dv t) hmem).le, prob_le_one hε (dv t) hmem⟩

/-- the generated floor is positive -/
theorem epsQ_pos : (0 : ℚ) < epsQ := by
  unfold epsQ RP.Gen.C09.policyFloor RP.Gen.C09.POLICY_MIN; decide +kernel

/-- **divisor never zero** (the `fix:` of F-C09): `epochs().max(1) ≥ 1` for every counter,
    the value 0 of a freshly loaded profile included. Breaks when the `.max(k)` disappears
    from the source (`epochFloor` is then generated as 0). -/
theorem divisor_pos (t : ℕ) : 0 < divisor t :=
  Nat.lt_of_lt_of_le (by decide : 0 < RP.Gen.C09.epochFloor) (Nat.le_max_right _ _)

theorem divisor_eq_of_pos {t : ℕ} (ht : 1 ≤ t) : divisor t = t := by
  unfold divisor; simp only [RP.Gen.C09.epochFloor]; omega

theorem divisor_zero : divisor 0 = 1 := by decide

/-- **C09 main statement over ℚ.** The code as it is now, at the traverser's information set, for
    every epoch counter `t` (0 included), every non-empty stored regret vector, `ε = POLICY_MIN`:
    no abort; keys = the action set; each probability in `(0,1]`; they sum to one. -/
theorem C09_valid_distribution {κ : Type} (t : ℕ) (kv : List (κ × ℚ)) (hne : kv ≠ []) :
    ∃ ps, policyVector ratOps epsQ (RP.Discount.walker t) t kv = some ps
      ∧ ps.map (·.1) = kv.map (·.1)
      ∧ (∀ ap ∈ ps, 0 < ap.2 ∧ ap.2 ≤ 1)
      ∧ (ps.map (·.2)).sum = 1
      ∧ ps = kv.map fun ar => (ar.1, prob epsQ (divisor t) (kv.map (·.2)) ar.2) := by
  refine ⟨_, policyVectorWith_eq epsQ_pos divisor _ t kv rfl, ?_, ?_, ?_, rfl⟩
  · simp [List.map_map, Function.comp_def]
  · intro ap hap
    obtain ⟨ar, har, rfl⟩ := List.mem_map.1 hap
    have hmem : ar.2 ∈ kv.map (·.2) := List.mem_map.2 ⟨ar, har, rfl⟩
    exact ⟨prob_pos epsQ_pos _ hmem, prob_le_one epsQ_pos _ hmem⟩
  · have h := prob_sum_one epsQ_pos (divisor t) (R := kv.map (·.2)) (by simpa using hne)
    simpa [List.map_map, Function.comp_def] using h

/-- a node of the other player: the walker assertion aborts -/
theorem C09_not_walker_aborts {κ : Type} (player t : ℕ) (kv : List (κ × ℚ))
    (h : player ≠ RP.Discount.walker t) : policyVector ratOps epsQ player t kv = none := by
  simp [policyVector, policyVectorWith, h]

/-- **uniform when no regret is positive** -/
theorem C09_uniform (t : ℕ) {R : List ℚ} (h : ∀ b ∈ R, b ≤ 0) {r : ℚ} (hr : r ∈ R) :
    prob epsQ (divisor t) R r = 1 / R.length :=
  prob_uniform epsQ_pos _ (fun b hb => nonpos_at_floor epsQ_pos _ (h b hb)) hr

/-- **proportional to regret**: two actions whose `R/t` reaches the floor `ε = 2⁻¹²⁶` -/
theorem C09_ratio (t : ℕ) {R : List ℚ} {a b : ℚ} (ha : a ∈ R)
    (hae : epsQ ≤ a / divisor t) (hbe : epsQ ≤ b / divisor t) :
    prob epsQ (divisor t) R a / prob epsQ (divisor t) R b = a / b :=
  prob_ratio epsQ_pos (divisor_pos t) ha hae hbe

/-- **proportional to the positive part up to the floor** -/
theorem C09_near_regret_matching (t : ℕ) {R : List ℚ} (hP : 0 < posSum R) {a : ℚ} (ha : a ∈ R) :
    |prob epsQ (divisor t) R a - max a 0 / posSum R| ≤ R.length * epsQ * divisor t / posSum R :=
  prob_near_regret_matching epsQ_pos (divisor_pos t) hP ha

-- non-vacuity of the hypotheses of `C09_ratio` / `C09_near_regret_matching` / `C09_uniform`
example : epsQ ≤ (3 : ℚ) / divisor 2 ∧ epsQ ≤ (1 : ℚ) / divisor 2 ∧ (3 : ℚ) ∈ [3, -1, 1]
    ∧ 0 < posSum [3, -1, 1] := by decide +kernel
example : prob epsQ (divisor 2) [3, -1, 1] 3 / prob epsQ (divisor 2) [3, -1, 1] 1 = 3 / 1 :=
  C09_ratio 2 (by decide +kernel) (by decide +kernel) (by decide +kernel)
example : prob epsQ (divisor 0) [-2, 0, -7] (-7) = 1 / 3 := by
  have := C09_uniform 0 (R := [-2, 0, -7]) (by decide +kernel) (r := -7) (by decide +kernel)
  simpa using this

-- non-vacuity: three actions, regrets 3, -1, 1 at epoch 2  →  3/4, ε-floor, 1/4 (up to ε)
example : policyVector ratOps (1/1000 : ℚ) 0 2 [("fold", (3:ℚ)), ("call", -1), ("shove", 1)]
    = some [("fold", 1500/2001), ("call", 1/2001), ("shove", 500/2001)] := by decide +kernel
example : policyVector ratOps epsQ 1 0 [(0, (-5:ℚ)), (1, 0)] = none := by decide +kernel
example : policyVector ratOps epsQ 0 0 [(0, (-5:ℚ)), (1, 0)] = some [(0, 1/2), (1, 1/2)] := by
  decide +kernel


/-! ## the clamp of `regret_vector`, for every extended input -/

theorem REGRET_MIN_le_MAX : RP.Gen.C09.REGRET_MIN ≤ RP.Gen.C09.REGRET_MAX := by decide +kernel

/-- the generated clamp is `max(REGRET_MIN)` then `min(REGRET_MAX)` (source order) -/
theorem clampOpsExt_eq :
    clampOpsExt = [(true, Ext.fin RP.Gen.C09.REGRET_MIN), (false, Ext.fin RP.Gen.C09.REGRET_MAX)] := rfl

/-- `x.max(lo).min(hi)` with Rust's NaN rule lands in `[lo, hi]` for every extended `x` -/
theorem clamp_range (lo hi : ℚ) (h : lo ≤ hi) (x : Ext) :
    ∃ q, clamp extOps [(true, Ext.fin lo), (false, Ext.fin hi)] x = Ext.fin q ∧ lo ≤ q ∧ q ≤ hi := by
  cases x with
  | nan => exact ⟨lo, by simp [clamp, extOps, Ext.fmax, Ext.fmin, Ext.lt, not_lt.2 h], le_refl _, h⟩
  | posInf => exact ⟨hi, by simp [clamp, extOps, Ext.fmax, Ext.fmin, Ext.lt], h, le_refl _⟩
  | negInf => exact ⟨lo, by simp [clamp, extOps, Ext.fmax, Ext.fmin, Ext.lt, not_lt.2 h], le_refl _, h⟩
  | fin q =>
    by_cases h1 : q < lo
    · exact ⟨lo, by simp [clamp, extOps, Ext.fmax, Ext.fmin, Ext.lt, h1, not_lt.2 h], le_refl _, h⟩
    · by_cases h2 : hi < q
      · exact ⟨hi, by simp [clamp, extOps, Ext.fmax, Ext.fmin, Ext.lt, h1, h2], h, le_refl _⟩
      · exact ⟨q, by simp [clamp, extOps, Ext.fmax, Ext.fmin, Ext.lt, h1, h2], not_lt.1 h1, not_lt.1 h2⟩

/-- **recorded regrets are finite and inside the clamp, and recording never aborts**: for every
    extended value of the immediate regret (NaN and ±inf included) -/
theorem C09_clamp (x : Ext) :
    ∃ q, record extOps clampOpsExt x = some (Ext.fin q)
      ∧ RP.Gen.C09.REGRET_MIN ≤ q ∧ q ≤ RP.Gen.C09.REGRET_MAX := by
  obtain ⟨q, hq, h1, h2⟩ := clamp_range _ _ REGRET_MIN_le_MAX x
  refine ⟨q, ?_, h1, h2⟩
  rw [clampOpsExt_eq]
  simp only [record, hq]
  simp [extOps, Ext.isNaN, Ext.isInf]

example : record extOps clampOpsExt Ext.nan = some (Ext.fin RP.Gen.C09.REGRET_MIN) := by decide +kernel
example : record extOps clampOpsExt Ext.posInf = some (Ext.fin RP.Gen.C09.REGRET_MAX) := by decide +kernel
example : record extOps clampOpsExt (Ext.fin (-300001)) = some (Ext.fin (-300000)) := by decide +kernel
example : record extOps clampOpsExt (Ext.fin (5/2)) = some (Ext.fin (5/2)) := by decide +kernel

/-! ## epoch counter 0: the pinned computation (divisor `epochs()`), extended values -/

theorem ext_sum_posInf (l : List Ext) (hl : ∀ x ∈ l, x = Ext.posInf ∨ ∃ q : ℚ, x = Ext.fin q) :
    ∀ acc, (acc = Ext.posInf ∨ ∃ q : ℚ, acc = Ext.fin q) →
      (acc = Ext.posInf ∨ Ext.posInf ∈ l) → l.foldl Ext.add acc = Ext.posInf := by
  induction l with
  | nil => intro acc _ h; rcases h with h | h; exact h; simp at h
  | cons x xs ih =>
    intro acc hacc h
    have hx := hl x (List.mem_cons_self ..)
    have hxs : ∀ y ∈ xs, y = Ext.posInf ∨ ∃ q : ℚ, y = Ext.fin q :=
      fun y hy => hl y (List.mem_cons_of_mem _ hy)
    simp only [List.foldl_cons]
    rcases hx with rfl | ⟨qx, rfl⟩
    · -- adding +inf to +inf or to a finite value gives +inf
      have : Ext.add acc Ext.posInf = Ext.posInf := by
        rcases hacc with rfl | ⟨qa, rfl⟩ <;> rfl
      rw [this]; exact ih hxs _ (Or.inl rfl) (Or.inl rfl)
    · rcases hacc with rfl | ⟨qa, rfl⟩
      · exact ih hxs _ (Or.inl rfl) (Or.inl rfl)
      · apply ih hxs _ (Or.inr ⟨qa + qx, rfl⟩)
        rcases h with h | h
        · cases h
        · rcases List.mem_cons.1 h with h | h
          · cases h
          · exact Or.inr h

/-- **C09_epoch0_defect** (the pinned code, kept as a statement about the divisor `epochs()`):
    at epoch counter 0, if some stored regret is positive, `R_a / 0 = +inf`, the sum is `+inf`,
    `inf / inf = NaN`, and the assertion `p >= 0` aborts — for every finite regret vector. -/
theorem C09_epoch0_defect {κ : Type} (ε : ℚ) (kv : List (κ × ℚ))
    (hpos : ∃ ar ∈ kv, 0 < ar.2) :
    policyVectorWith extOps divisorPinned (Ext.fin ε) 0 0 (kv.map fun ar => (ar.1, Ext.fin ar.2)) = none := by
  obtain ⟨ar, har, hr⟩ := hpos
  -- the floored vector: +inf where R_a > 0, ε elsewhere
  have hfl : ∀ r : ℚ, extOps.fmax (cumulated extOps divisorPinned 0 (Ext.fin r)) (Ext.fin ε)
      = if 0 < r then Ext.posInf else Ext.fin ε := by
    intro r
    by_cases h0 : r = 0
    · subst h0; simp [cumulated, divisorPinned, extOps, Ext.div, Ext.fmax]
    · by_cases h1 : 0 < r
      · simp [cumulated, divisorPinned, extOps, Ext.div, Ext.fmax, Ext.lt, h0, h1]
      · simp [cumulated, divisorPinned, extOps, Ext.div, Ext.fmax, Ext.lt, h0, h1]
  have hfloored : floored extOps divisorPinned (Ext.fin ε) 0 (kv.map fun ar => (ar.1, Ext.fin ar.2))
      = kv.map (fun ar => (ar.1, if 0 < ar.2 then Ext.posInf else Ext.fin ε)) := by
    unfold floored
    rw [List.map_map]
    apply List.map_congr_left
    intro x _
    simp only [Function.comp_apply, hfl]
  have hsum : extOps.sum ((kv.map (fun ar => (ar.1, if 0 < ar.2 then Ext.posInf else Ext.fin ε))).map (·.2))
      = Ext.posInf := by
    unfold Ops.sum
    apply ext_sum_posInf
    · intro x hx
      simp only [List.map_map, List.mem_map, Function.comp_apply] at hx
      obtain ⟨y, _, rfl⟩ := hx
      by_cases h : 0 < y.2
      · left; simp [h]
      · right; exact ⟨ε, by simp [h]⟩
    · right; exact ⟨0, rfl⟩
    · right
      simp only [List.map_map, List.mem_map, Function.comp_apply]
      exact ⟨ar, har, by simp [hr]⟩
  unfold policyVectorWith
  rw [if_neg (by decide)]
  simp only [hfloored, hsum]
  rw [if_neg]
  rw [Bool.not_eq_true, List.all_eq_false]
  refine ⟨(ar.1, Ext.nan), ?_, ?_⟩
  · simp only [List.map_map, List.mem_map, Function.comp_apply]
    exact ⟨ar, har, by simp [hr, extOps, Ext.div]⟩
  · simp [okProb, extOps, Ext.le]

/-- the same regrets through the code as it is now: no abort at epoch counter 0 -/
example : policyVector extOps epsExt 0 0 [(0, Ext.fin 1), (1, Ext.fin (-1))]
    = some [(0, Ext.fin (1 / (1 + RP.Gen.C09.POLICY_MIN))),
            (1, Ext.fin (RP.Gen.C09.POLICY_MIN / (1 + RP.Gen.C09.POLICY_MIN)))] := by decide +kernel
example : policyVectorWith extOps divisorPinned epsExt 0 0 [(0, Ext.fin 1), (1, Ext.fin (-1))] = none := by
  decide +kernel

/-! ## the fixed code on extended values: finite in, finite out -/

theorem ext_sum_fin (l : List ℚ) (acc : ℚ) :
    (l.map Ext.fin).foldl Ext.add (Ext.fin acc) = Ext.fin (acc + l.sum) := by
  induction l generalizing acc with
  | nil => simp
  | cons x xs ih =>
    simp only [List.map_cons, List.foldl_cons, List.sum_cons]
    rw [show Ext.add (Ext.fin acc) (Ext.fin x) = Ext.fin (acc + x) from rfl, ih]
    congr 1; ring

theorem ext_floor_fin (ε : ℚ) {d : ℕ} (hd : d ≠ 0) (dv : ℕ → ℕ) (t : ℕ) (hdv : dv t = d) (r : ℚ) :
    extOps.fmax (cumulated extOps dv t (Ext.fin r)) (Ext.fin ε) = Ext.fin (fl ε d r) := by
  have hq : ((d : ℕ) : ℚ) ≠ 0 := by exact_mod_cast hd
  have hc : cumulated extOps dv t (Ext.fin r) = Ext.fin (r / d) := by
    simp [cumulated, extOps, Ext.div, hdv, hq]
  rw [hc]
  unfold fl
  by_cases h : r / d < ε
  · simp [extOps, Ext.fmax, Ext.lt, h, max_eq_right h.le]
  · simp [extOps, Ext.fmax, Ext.lt, h, max_eq_left (not_lt.1 h)]

/-- **the extended model agrees with exact arithmetic whenever the divisor is not 0**: finite
    stored regrets in, the finite probabilities `p_a` out — no `inf`, no `NaN`, no abort. Together
    with `divisor_pos` this is the `fix:` of F-C09 on the model that *can* express the failure
    (`C09_epoch0_defect` is the same computation with divisor 0). -/
theorem C09_fixed_finite {κ : Type} {ε : ℚ} (hε : 0 < ε) (dv : ℕ → ℕ) (t : ℕ) (hdv : dv t ≠ 0)
    (kv : List (κ × ℚ)) (hne : kv ≠ []) :
    policyVectorWith extOps dv (Ext.fin ε) (RP.Discount.walker t) t (kv.map fun ar => (ar.1, Ext.fin ar.2))
      = some (kv.map fun ar => (ar.1, Ext.fin (prob ε (dv t) (kv.map (·.2)) ar.2))) := by
  have hfloored : floored extOps dv (Ext.fin ε) t (kv.map fun ar => (ar.1, Ext.fin ar.2))
      = kv.map (fun ar => (ar.1, Ext.fin (fl ε (dv t) ar.2))) := by
    unfold floored
    rw [List.map_map]
    apply List.map_congr_left
    intro x _
    simp only [Function.comp_apply, ext_floor_fin ε hdv dv t rfl]
  have hsum : extOps.sum ((kv.map (fun ar => (ar.1, Ext.fin (fl ε (dv t) ar.2)))).map (·.2))
      = Ext.fin (S ε (dv t) (kv.map (·.2))) := by
    have h1 : (kv.map (fun ar => (ar.1, Ext.fin (fl ε (dv t) ar.2)))).map (·.2)
        = ((kv.map (·.2)).map (fl ε (dv t))).map Ext.fin := by
      simp [List.map_map, Function.comp_def]
    rw [h1]
    unfold Ops.sum
    have := ext_sum_fin ((kv.map (·.2)).map (fl ε (dv t))) 0
    simpa [extOps, S] using this
  have hS : S ε (dv t) (kv.map (·.2)) ≠ 0 := (S_pos hε (dv t) (by simpa using hne)).ne'
  have hps : (floored extOps dv (Ext.fin ε) t (kv.map fun ar => (ar.1, Ext.fin ar.2))).map
        (fun ax => (ax.1, extOps.div ax.2
          (extOps.sum ((floored extOps dv (Ext.fin ε) t (kv.map fun ar => (ar.1, Ext.fin ar.2))).map (·.2)))))
      = kv.map fun ar => (ar.1, Ext.fin (prob ε (dv t) (kv.map (·.2)) ar.2)) := by
    rw [hfloored, hsum, List.map_map]
    apply List.map_congr_left
    intro ar _
    simp [extOps, Ext.div, hS, prob]
  unfold policyVectorWith
  rw [if_neg (by simp)]
  simp only [hps]
  rw [if_pos]
  rw [List.all_eq_true]
  intro ap hap
  obtain ⟨ar, har, rfl⟩ := List.mem_map.1 hap
  have hmem : ar.2 ∈ kv.map (·.2) := List.mem_map.2 ⟨ar, har, rfl⟩
  have h0 := (prob_pos hε (dv t) hmem).le
  have h1 := prob_le_one hε (dv t) hmem
  simp [okProb, extOps, Ext.le, RP.Gen.C09.assertLo, RP.Gen.C09.assertHi, h0, h1]

/-- the code as it is now, every epoch counter (0 included), every finite stored regret vector:
    the extended-value computation stays finite and returns the probabilities of the ℚ theorems -/
theorem C09_fixed_never_nan {κ : Type} (t : ℕ) (kv : List (κ × ℚ)) (hne : kv ≠ []) :
    policyVector extOps epsExt (RP.Discount.walker t) t (kv.map fun ar => (ar.1, Ext.fin ar.2))
      = some (kv.map fun ar => (ar.1, Ext.fin (prob epsQ (divisor t) (kv.map (·.2)) ar.2))) :=
  C09_fixed_finite epsQ_pos divisor t (divisor_pos t).ne' kv hne

/-! ## binary32 witnesses (kernel evaluation of Lean's IEEE-754 model of `Float32`) -/

def f32 (bits : Nat) : Float32 := Float32.ofBits (UInt32.ofNat bits)
/-- `f32::MAX`, `1.0`, `-1.0`, `0.0`, a quiet NaN -/
def fMAX : Float32 := f32 0x7F7FFFFF
def fOne : Float32 := f32 0x3F800000
def fNegOne : Float32 := f32 0xBF800000
def fZero : Float32 := f32 0
def fNaN : Float32 := f32 0x7FC00000

/-- Rust's `f32::max` NaN rule in the binary32 instantiation: `NaN.max(x) = x` for every `x` -/
theorem f32max_nan_left (x : Float32) : f32max fNaN x = x := by
  have h : fNaN.isNaN = true := by decide +kernel
  simp [f32max, h]

/-- **C09_epoch0_witness** (binary32): the pinned computation (divisor `epochs()` = 0) on stored
    regrets `[1.0, -1.0]` aborts — `1/0 = inf`, `inf + ε = inf`, `inf/inf = NaN` fails
    `assert!(*p >= 0.)` — while the code as it is now returns `[1.0, 2⁻¹²⁶]`. -/
theorem C09_epoch0_witness :
    policyVectorWith f32Ops divisorPinned eps32 0 0 [(0, fOne), (1, fNegOne)] = none
    ∧ policyVector f32Ops eps32 0 0 [(0, fOne), (1, fNegOne)] = some [(0, fOne), (1, f32 0x00800000)] := by
  constructor <;> decide +kernel

/-- **C09_overflow_witness** (binary32; finding KF-C09-overflow, code as it is now). Stored regrets
    `[f32::MAX, f32::MAX]` lie inside the clamp (`REGRET_MAX = f32::MAX`); at epoch counter 1 the sum
    `MAX + MAX` rounds to `+inf`, every quotient `MAX / inf` is `0.0`, both assertions pass, and the
    returned "strategy" is `[0, 0]` — it sums to 0, not to 1. With the same values at counter 2 the
    result is the correct `[1/2, 1/2]`. The exact-arithmetic theorems above cannot see this. -/
theorem C09_overflow_witness :
    policyVector f32Ops eps32 1 1 [(0, fMAX), (1, fMAX)] = some [(0, fZero), (1, fZero)]
    ∧ policyVector f32Ops eps32 0 2 [(0, fMAX), (1, fMAX)] = some [(0, f32 0x3F000000), (1, f32 0x3F000000)]
    ∧ (f32Ops.sum [fMAX, fMAX]).isInf = true := by
  refine ⟨?_, ?_, ?_⟩ <;> decide +kernel

/-- a stored `+inf` (outside the clamp, outside the property's quantifier) aborts: `inf/inf = NaN` -/
example : policyVector f32Ops eps32 1 1 [(0, f32 0x7F800000), (1, fOne)] = none := by decide +kernel
/-- the clamp on binary32: NaN → REGRET_MIN, +inf → f32::MAX, -inf → REGRET_MIN -/
example : record f32Ops clampOps32 fNaN = some (f32 RP.Gen.C09.REGRET_MIN_bits) := by decide +kernel
example : record f32Ops clampOps32 (f32 0x7F800000) = some fMAX := by decide +kernel
example : record f32Ops clampOps32 (f32 0xFF800000) = some (f32 RP.Gen.C09.REGRET_MIN_bits) := by decide +kernel

end RP.C09
