import RP.Props.C10
import RP.Props.C11
/-! # C10 — the model's own builder is accepted, for every choice oracle

`C10_builder`: for every oracle (opponent / chance picks, dealt cards, card abstraction), both
traversers, every valid deal and every fuel, if the model of `Blueprint::tree` returns a tree then
`acceptTree` accepts it.  (A `none` result is an assertion of the Rust code failing — e.g. an
oracle dealing cards that are not in the deck — or the fuel running out.)

Game-level ingredients (imported, not re-proved): the invariant `RP.Game.GameInv` and the
explicit forms of `act` (`RP/Lemmas/Game.lean`), the menu theorems of C11, the path round trip
of C15.  New here: a betting round of the two-seat game has at most 3 passive, 4 raise and 2
all-in edges (`RoundInv`), so it fits the 16-edge window of `Node::subgame` and the raise
counter is exact. -/
namespace RP.C10
open RP.Game RP.TreeShape RP.TreeShape.DTree RP.Menu
open RP.Showdown (Status)
open RP.Codec (Edge pathOfEdges pathToEdges)

/-! ## one betting action: ticker, threshold, all-in seats -/

/-- number of seats that are all-in -/
def shovers (g : Game) : Nat :=
  (if g.s0.state = Status.shoving then 1 else 0) + (if g.s1.state = Status.shoving then 1 else 0)

theorem shovers_eq (g : Game) : shovers g =
    (if (actor g).state = Status.shoving then 1 else 0) + (if (other g).state = Status.shoving then 1 else 0) := by
  unfold shovers
  rcases actor_other_cases g with ⟨ha, ho⟩ | ⟨ha, ho⟩
  · rw [ha, ho]
  · rw [ha, ho]; omega

theorem shovers_tick (g : Game) : shovers (tick g) = shovers g := rfl

theorem shovers_bet (g : Game) (x : Int) : shovers (bet g x) =
    (if ((actor g).bet x).state = Status.shoving then 1 else 0) + (if (other g).state = Status.shoving then 1 else 0) := by
  rw [shovers_eq, actor_bet, other_bet]

theorem shovers_fold (g : Game) : shovers (foldActor g) =
    (if (other g).state = Status.shoving then 1 else 0) := by
  rw [shovers_eq, actor_fold, other_fold]; simp

def plainA : Action → Bool | .draw _ => false | .blind _ => false | _ => true
def passiveA : Action → Bool | .fold => true | .check => true | .call _ => true | _ => false
def shoveA : Action → Bool | .shove _ => true | _ => false

/-- what one accepted betting action does to the round bookkeeping -/
structure StepFacts (g g' : Game) (a : Action) : Prop where
  thr_eq : thr g' = thr g
  tick_le : g.ticker ≤ g'.ticker
  tick_open : isEveryoneAlright g' = false → g'.ticker = g.ticker + 1
  shov_le : shovers g ≤ shovers g'
  shov_inc : shoveA a = true → shovers g + 1 ≤ shovers g'
  closes : passiveA a = true → g.ticker > thr g → isEveryoneAlright g' = true

theorem seat_bet_state (s : Seat) (x : Int) (hb : s.state = Status.betting) :
    (if (s.bet x).state = Status.shoving then 1 else 0) ≥ (if s.state = Status.shoving then (1 : Nat) else 0) := by
  simp [hb]

theorem step_facts {g : Game} (h : GameInv g) {a : Action} (ha : isAllowed g a = true)
    (hp : plainA a = true) : StepFacts g (act g a) a := by
  cases a with
  | draw c => simp [plainA] at hp
  | blind x => simp [plainA] at hp
  | raise x =>
    obtain ⟨e, _⟩ := inv_raise h ha
    obtain ⟨hna, _, _⟩ := (allowed_raise_iff h x).1 ha
    obtain ⟨_, hA, _⟩ := choice_view h hna
    rw [e]
    refine ⟨by simp, by simp, by intro _; simp, ?_, by simp [shoveA], by simp [passiveA]⟩
    rw [shovers_tick, shovers_bet, shovers_eq]; simp [hA]
  | check =>
    obtain ⟨e, _⟩ := inv_check h ha
    obtain ⟨hna, hz⟩ := (allowed_check_iff h).1 ha
    obtain ⟨hna2, hA, hO, hle, hk, hc, hr, hsv⟩ := choice_view h hna
    have hck : max (actor g).stake (other g).stake = (actor g).stake := by omega
    obtain ⟨_, ht, _, _⟩ := check_pair h.pair h.phase hna2 hck
    rw [e]
    refine ⟨by simp, by simp, by intro _; simp, by rw [shovers_tick], by simp [shoveA], ?_⟩
    intro _ hgt
    simp [hgt] at ht
  | call x =>
    obtain ⟨e, _⟩ := inv_call h ha
    obtain ⟨hna, hx, hpos, hlt⟩ := (allowed_call_iff h x).1 ha
    obtain ⟨hna2, hA, hO, hle, hk, hc, hr, hsv⟩ := choice_view h hna
    have hx' : x = max (actor g).stake (other g).stake - (actor g).stake := by rw [hx, toCall_eq]
    obtain ⟨hOb, hal, _⟩ := call_pair h.pair h.phase hna2 hx' (by omega) (by omega)
    have hal1 : isEveryoneAlright (bet g x) = decide (g.ticker > thr g) := by
      rw [alright_bet]; exact hal _
    have hsh : shovers g ≤ shovers (bet g x) := by
      rw [shovers_bet, shovers_eq]; simp [hA]
    rw [e]
    by_cases ht : g.ticker > thr g
    · simp only [ht, if_true]
      refine ⟨by simp, by simp, ?_, hsh, by simp [shoveA], ?_⟩
      · intro hf; rw [hal1] at hf; simp [ht] at hf
      · intro _ _; rw [hal1]; simp [ht]
    · simp only [ht, if_false]
      refine ⟨by simp, by simp, by intro _; simp, by rw [shovers_tick]; exact hsh, by simp [shoveA], ?_⟩
      intro _ hgt; exact absurd hgt ht
  | shove x =>
    obtain ⟨e, _⟩ := inv_shove h ha
    obtain ⟨hna, hx⟩ := (allowed_shove_iff h x).1 ha
    subst hx
    obtain ⟨hna2, hA, hO, hle, hk, hc, hr, hsv⟩ := choice_view h hna
    obtain ⟨hst, halS, halB, _⟩ := shove_pair h.pair h.phase hna2
    have hsh : shovers g + 1 ≤ shovers (bet g (actor g).stack) := by
      rw [shovers_bet, shovers_eq]; simp only [hA, hst]; simp; omega
    rw [e]
    by_cases hS : (other g).state = Status.shoving
    · have hal1 : isEveryoneAlright (bet g (actor g).stack) = true := by
        rw [alright_bet]; exact halS hS _
      simp only [hS, if_true]
      refine ⟨by simp, by simp, ?_, by omega, fun _ => hsh, by simp [passiveA]⟩
      intro hf; rw [hal1] at hf; cases hf
    · simp only [hS, if_false]
      refine ⟨by simp, by simp, by intro _; simp, by rw [shovers_tick]; omega,
        fun _ => by rw [shovers_tick]; exact hsh, by simp [passiveA]⟩
  | fold =>
    obtain ⟨e, _, hf⟩ := inv_fold h ha
    obtain ⟨hna, _⟩ := (allowed_fold_iff h).1 ha
    obtain ⟨_, hA, _⟩ := choice_view h hna
    have hal : isEveryoneAlright (foldActor g) = true := by
      unfold isEveryoneAlright; simp [hf]
    rw [e]
    refine ⟨by simp, by simp, ?_, ?_, by simp [shoveA], fun _ _ => hal⟩
    · intro hc; rw [hal] at hc; cases hc
    · rw [shovers_fold, shovers_eq]; simp [hA]

/-! ## the round invariant -/

def passiveE (e : Edge) : Bool := !isAggro e

/-- bookkeeping of the current betting round `L` (its edges, newest first) in state `g` -/
structure RoundInv (g : Game) (L : List Edge) : Prop where
  pas : L.countP passiveE ≤ 3
  pasOpen : isEveryoneAlright g = false → L.countP passiveE ≤ 2 ∧ L.countP passiveE + thr g ≤ g.ticker + 1
  rai : L.countP isRaise ≤ 4
  sho : L.countP isShove ≤ shovers g

theorem shovers_le (g : Game) : shovers g ≤ 2 := by
  unfold shovers; split <;> split <;> omega

theorem length_split (L : List Edge) :
    L.length = L.countP passiveE + L.countP isRaise + L.countP isShove := by
  induction L with
  | nil => rfl
  | cons e L ih =>
    simp only [List.length_cons, List.countP_cons, ih]
    cases e <;> simp [passiveE, isAggro, isRaise, isShove] <;> omega

theorem aggro_split (L : List Edge) : L.countP isAggro = L.countP isRaise + L.countP isShove := by
  induction L with
  | nil => rfl
  | cons e L ih =>
    simp only [List.countP_cons, ih]
    cases e <;> simp [isAggro, isRaise, isShove] <;> omega

/-- **a betting round has at most nine edges** -/
theorem RoundInv.length_le {g : Game} {L : List Edge} (h : RoundInv g L) : L.length ≤ 9 := by
  have := h.pas; have := h.rai; have := h.sho; have := shovers_le g
  rw [length_split]; omega

theorem RoundInv.nil {g : Game} (h : GameInv g) : RoundInv g [] := by
  refine ⟨by simp, ?_, by simp, by simp⟩
  intro hna
  refine ⟨by simp, ?_⟩
  simp only [List.countP_nil, Nat.zero_add]
  rw [thr_eq]
  by_cases hs : street g = 0
  · have := h.tick_pre hs; simp [hs]; omega
  · simp only [hs, if_false]
    rcases h.tick_post hs with h1 | ⟨h1, h2⟩
    · omega
    · exfalso
      rw [alright_eq] at hna
      simp [alright2, shoving2, h1, h2] at hna

theorem actionize_kind (g : Game) (d : Nat) (e : Edge) (he : e ≠ Edge.draw) :
    plainA (actionize g d e) = true ∧ (isAggro e = false → passiveA (actionize g d e) = true) ∧
    (isShove e = true → shoveA (actionize g d e) = true) := by
  cases e with
  | draw => exact absurd rfl he
  | raise n d' =>
    simp only [actionize]
    split
    · simp [plainA, isAggro, isRaise, isShove]
    · split <;> simp [plainA, isAggro, isRaise, isShove]
  | _ => simp [actionize, plainA, passiveA, shoveA, isAggro, isRaise, isShove]

theorem raises_nonempty {g : Game} {n : Nat} {e : Edge} (h : e ∈ raises g n) :
    n ≤ RP.Gen.MAX_RAISE_REPEATS := by
  unfold raises at h
  by_cases hn : n > RP.Gen.MAX_RAISE_REPEATS
  · simp [hn] at h
  · omega

/-- **one more edge of the round**: following a menu edge at a decision keeps the bookkeeping;
    the raise counter `n` is the number of aggressive edges in the 16-edge window. -/
theorem RoundInv.step {g : Game} {L : List Edge} (h : GameInv g) (hna : isEveryoneAlright g = false)
    (hr : RoundInv g L) (d : Nat) {e : Edge}
    (he : e ∈ choices g ((L.take RP.Gen.MAX_DEPTH_SUBGAME).countP isAggro)) :
    RoundInv (act g (actionize g d e)) (e :: L) := by
  have hlen := hr.length_le
  have h16 : RP.Gen.MAX_DEPTH_SUBGAME = 16 := rfl
  have htake : L.take RP.Gen.MAX_DEPTH_SUBGAME = L := by
    rw [h16]; exact List.take_of_length_le (by omega)
  rw [htake] at he
  obtain ⟨i, hi⟩ : ∃ i, turn g = Turn.choice i := ⟨actorIdx g, ((RP.C03.C03_turn g).2.2 _).2 ⟨hna, rfl⟩⟩
  have hall := RP.C11.C11_entry_allowed h hi _ d e he
  have hnd : e ≠ Edge.draw := by
    intro hd; subst hd
    rcases (mem_choices h hna _ _).1 he with ⟨_, hm⟩ | ⟨_, hm⟩ | ⟨_, hm⟩ | ⟨_, hm⟩ | ⟨_, hm⟩
    · have := ((raises_ok g _).2.2 _ hm).2; simp [isRaise] at this
    all_goals cases hm
  obtain ⟨hpl, hpa, hsh⟩ := actionize_kind g d e hnd
  have sf := step_facts h hall hpl
  obtain ⟨hp2, hp3⟩ := hr.pasOpen hna
  by_cases hag : isAggro e = true
  · -- aggressive edge: passive count unchanged
    have hpe : passiveE e = false := by simp [passiveE, hag]
    have hcp : (e :: L).countP passiveE = L.countP passiveE := by simp [hpe]
    refine ⟨by rw [hcp]; omega, ?_, ?_, ?_⟩
    · intro hop
      rw [hcp, sf.thr_eq]
      have := sf.tick_le
      exact ⟨hp2, by omega⟩
    · by_cases hre : isRaise e = true
      · -- a raise edge is only offered while fewer than MAX_RAISE_REPEATS+1 aggressive edges
        have hmem : e ∈ raises g (L.countP isAggro) := by
          rcases (mem_choices h hna _ _).1 he with ⟨_, hm⟩ | ⟨_, hm⟩ | ⟨_, hm⟩ | ⟨_, hm⟩ | ⟨_, hm⟩
          · exact hm
          all_goals (subst hm; simp [isRaise] at hre)
        have hn := raises_nonempty hmem
        have hmax : RP.Gen.MAX_RAISE_REPEATS = 3 := rfl
        rw [aggro_split] at hn
        simp only [List.countP_cons, hre, if_true]
        omega
      · have : isRaise e = false := by simpa using hre
        simp only [List.countP_cons, this]
        simpa using hr.rai
    · by_cases hse : isShove e = true
      · have := sf.shov_inc (hsh hse)
        have := hr.sho
        simp only [List.countP_cons, hse, if_true]
        omega
      · have hse' : isShove e = false := by simpa using hse
        have := sf.shov_le
        have := hr.sho
        simp only [List.countP_cons, hse']
        simp; omega
  · -- passive edge
    have hag' : isAggro e = false := by simpa using hag
    have hpe : passiveE e = true := by simp [passiveE, hag']
    have hcp : (e :: L).countP passiveE = L.countP passiveE + 1 := by simp [hpe]
    have hre : isRaise e = false := by
      cases e <;> simp [isAggro, isRaise, isShove] at hag' ⊢
    have hse : isShove e = false := by
      cases e <;> simp [isAggro, isRaise, isShove] at hag' ⊢
    refine ⟨by rw [hcp]; omega, ?_, ?_, ?_⟩
    · intro hop
      have hle : ¬ g.ticker > thr g := by
        intro hgt
        have := sf.closes (hpa hag') hgt
        rw [this] at hop; cases hop
      have := sf.tick_open hop
      rw [hcp, sf.thr_eq]
      exact ⟨by omega, by omega⟩
    · simp only [List.countP_cons, hre]; simpa using hr.rai
    · have := sf.shov_le
      have := hr.sho
      simp only [List.countP_cons, hse]
      simp; omega

/-! ## pushing a node onto a dumped tree -/

/-- parents precede children -/
def ParentsOK (t : DTree) : Prop := ∀ i p, t.parent i = some p → p < i

theorem push_size (t : DTree) (n : DNode) : (t.push n).size = t.size + 1 := by
  simp [DTree.push, DTree.size]

theorem push_walker (t : DTree) (n : DNode) : (t.push n).walker = t.walker := rfl

theorem push_get_lt (t : DTree) (n : DNode) {i : Nat} (hi : i < t.size) :
    (t.push n).nodes[i]? = t.nodes[i]? := by
  have : i < t.nodes.size := hi
  simp [DTree.push, Array.getElem?_push]; omega

theorem push_get_eq (t : DTree) (n : DNode) : (t.push n).nodes[t.size]? = some n := by
  simp [DTree.push, DTree.size]

theorem get_ge (t : DTree) {i : Nat} (hi : t.size ≤ i) : t.nodes[i]? = none := by
  have : t.nodes.size ≤ i := hi
  simp [this]

theorem push_node_lt (t : DTree) (n : DNode) {i : Nat} (hi : i < t.size) : (t.push n).node i = t.node i := by
  unfold DTree.node; rw [push_get_lt t n hi]
theorem push_node_eq (t : DTree) (n : DNode) : (t.push n).node t.size = n := by
  unfold DTree.node; rw [push_get_eq]; rfl
theorem push_parent_lt (t : DTree) (n : DNode) {i : Nat} (hi : i < t.size) : (t.push n).parent i = t.parent i := by
  unfold DTree.parent; rw [push_get_lt t n hi]
theorem push_parent_eq (t : DTree) (n : DNode) : (t.push n).parent t.size = n.parent := by
  unfold DTree.parent; rw [push_get_eq]; rfl
theorem parent_ge (t : DTree) {i : Nat} (hi : t.size ≤ i) : t.parent i = none := by
  unfold DTree.parent; rw [get_ge t hi]; rfl
theorem parent_lt_size (t : DTree) {i p : Nat} (h : t.parent i = some p) : i < t.size := by
  by_cases hi : i < t.size
  · exact hi
  · rw [parent_ge t (by omega)] at h; cases h
theorem push_game_lt (t : DTree) (n : DNode) {i : Nat} (hi : i < t.size) : (t.push n).game i = t.game i := by
  unfold DTree.game; rw [push_node_lt t n hi]
theorem push_game_eq (t : DTree) (n : DNode) : (t.push n).game t.size = n.game := by
  unfold DTree.game; rw [push_node_eq]
theorem push_edge_lt (t : DTree) (n : DNode) {i : Nat} (hi : i < t.size) : (t.push n).edge i = t.edge i := by
  unfold DTree.edge; rw [push_node_lt t n hi]
theorem push_edge_eq (t : DTree) (n : DNode) : (t.push n).edge t.size = n.edge := by
  unfold DTree.edge; rw [push_node_eq]

theorem push_parentsOK {t : DTree} (hp : ParentsOK t) (n : DNode)
    (hn : ∀ p, n.parent = some p → p < t.size) : ParentsOK (t.push n) := by
  intro i p h
  by_cases hi : i < t.size
  · rw [push_parent_lt t n hi] at h; exact hp i p h
  · have hi' := parent_lt_size _ h
    rw [push_size] at hi'
    have : i = t.size := by omega
    subst this
    rw [push_parent_eq] at h
    exact hn p h

theorem historyAux_fuel {t : DTree} (hp : ParentsOK t) :
    ∀ f f' i, i < f → i < f' → historyAux t f i = historyAux t f' i := by
  intro f
  induction f with
  | zero => intro f' i h; omega
  | succ f ih =>
    intro f' i h h'
    cases f' with
    | zero => omega
    | succ k =>
      unfold historyAux
      cases hpi : t.parent i with
      | none => rfl
      | some p =>
        have := hp i p hpi
        simp only []
        rw [ih k p (by omega) (by omega)]

theorem history_child {t : DTree} (hp : ParentsOK t) {i p : Nat} (h : t.parent i = some p) :
    t.history i = t.history p ++ [t.edge i] := by
  have hlt := hp i p h
  unfold DTree.history
  rw [historyAux]
  simp only [h]
  rw [historyAux_fuel hp i (p+1) p hlt (by omega)]

theorem history_root {t : DTree} {i : Nat} (h : t.parent i = none) : t.history i = [] := by
  unfold DTree.history; rw [historyAux]; simp only [h]

theorem historyAux_push {t : DTree} (hp : ParentsOK t) (n : DNode) :
    ∀ f i, i < t.size → historyAux (t.push n) f i = historyAux t f i := by
  intro f
  induction f with
  | zero => intro i _; rfl
  | succ f ih =>
    intro i hi
    unfold historyAux
    rw [push_parent_lt t n hi, push_edge_lt t n hi]
    cases hpi : t.parent i with
    | none => rfl
    | some p =>
      have := hp i p hpi
      simp only []
      rw [ih p (by omega)]

theorem history_push_lt {t : DTree} (hp : ParentsOK t) (n : DNode) {i : Nat} (hi : i < t.size) :
    (t.push n).history i = t.history i := historyAux_push hp n _ i hi

theorem menuOf_push_lt {t : DTree} (hp : ParentsOK t) (n : DNode) {i : Nat} (hi : i < t.size) :
    (t.push n).menuOf i = t.menuOf i := by
  unfold DTree.menuOf; rw [push_game_lt t n hi, history_push_lt hp n hi]

theorem sweat_push_lt (t : DTree) (n : DNode) {i : Nat} (hi : i < t.size) :
    (t.push n).sweat i = t.sweat i := by
  unfold DTree.sweat; rw [push_game_lt t n hi]

/-- history of the freshly pushed node -/
theorem history_push_new {t : DTree} (hp : ParentsOK t) (n : DNode)
    (hn : ∀ p, n.parent = some p → p < t.size) :
    (t.push n).history t.size =
      match n.parent with
      | some p => t.history p ++ [n.edge]
      | none => [] := by
  have hp' := push_parentsOK hp n hn
  cases hpar : n.parent with
  | none => exact history_root (by rw [push_parent_eq, hpar])
  | some p =>
    have h1 : (t.push n).parent t.size = some p := by rw [push_parent_eq, hpar]
    rw [history_child hp' h1, push_edge_eq, history_push_lt hp n (hn p hpar)]

theorem kids_push (t : DTree) (n : DNode) (i : Nat) :
    (t.push n).kids i = t.kids i ++ (if n.parent = some i then [t.size] else []) := by
  unfold DTree.kids
  rw [push_size, List.range_succ, List.filter_append]
  congr 1
  · apply List.filter_congr
    intro j hj
    rw [push_parent_lt t n (List.mem_range.mp hj)]
  · simp only [List.filter_cons, List.filter_nil, push_parent_eq]
    by_cases h : n.parent = some i <;> simp [h]

theorem kidEdges_push {t : DTree} (n : DNode) (i : Nat) :
    (t.push n).kidEdges i = t.kidEdges i ++ (if n.parent = some i then [n.edge] else []) := by
  unfold DTree.kidEdges
  rw [kids_push, List.map_append]
  congr 1
  · apply List.map_congr_left
    intro j hj
    unfold DTree.kids at hj
    have := (List.mem_filter.mp hj).1
    exact push_edge_lt t n (List.mem_range.mp this)
  · by_cases h : n.parent = some i <;> simp [h, push_edge_eq]

/-! ## branches, sampling, the work list -/

theorem allSome_spec {α β : Type} (f : α → Option β) :
    ∀ (l : List α) (bs : List β), allSome f l = some bs → List.Forall₂ (fun a b => f a = some b) l bs := by
  intro l
  induction l with
  | nil => intro bs h; simp [allSome] at h; subst h; exact List.Forall₂.nil
  | cons a as ih =>
    intro bs h
    unfold allSome at h
    cases hfa : f a with
    | none => simp [hfa] at h
    | some b =>
      cases hr : allSome f as with
      | none => simp [hfa, hr] at h
      | some bs' =>
        simp [hfa, hr] at h
        subst h
        exact List.Forall₂.cons hfa (ih bs' hr)

theorem branches_spec {o : Oracle} {t : DTree} {i : Nat} {bs : List Branch}
    (h : branches o t i = some bs) :
    bs.map (·.edge) = t.menuOf i ∧
    ∀ b ∈ bs, b.parent = i ∧ b.edge ∈ t.menuOf i ∧
      step? (t.game i) (actionize (t.game i) (o.deal (t.game i)) b.edge) = some b.game := by
  unfold branches at h
  have := allSome_spec _ _ _ h
  generalize t.menuOf i = l at this ⊢
  clear h
  induction this with
  | nil => simp
  | @cons e b l bs hb _ ih =>
    unfold branchOf at hb
    cases hs : step? (t.game i) (actionize (t.game i) (o.deal (t.game i)) e) with
    | none => simp [hs] at hb
    | some g' =>
      simp [hs] at hb
      subst hb
      obtain ⟨ih1, ih2⟩ := ih
      refine ⟨by simp [ih1], ?_⟩
      intro b' hb'
      rcases List.mem_cons.mp hb' with rfl | hm
      · exact ⟨rfl, by simp, hs⟩
      · obtain ⟨a, b, c⟩ := ih2 b' hm
        exact ⟨a, by simp [b], c⟩

/-- what `sample` returns: all branches at the traverser's node, one of them elsewhere -/
theorem sample_spec {o : Oracle} {t : DTree} {i : Nat} {ks : List Branch}
    (h : sample o t i = some ks) :
    ∃ bs, branches o t i = some bs ∧ (∀ k ∈ ks, k ∈ bs) ∧
      (RP.Game.turn (t.game i) = .choice t.walker → ks = bs) ∧
      (RP.Game.turn (t.game i) ≠ .choice t.walker → (bs = [] → ks = []) ∧ (bs ≠ [] → ks.length = 1)) := by
  unfold sample at h
  cases hb : branches o t i with
  | none => simp [hb] at h
  | some bs =>
    refine ⟨bs, rfl, ?_⟩
    cases bs with
    | nil => simp [hb] at h; subst h; simp
    | cons b0 bs0 =>
      simp only [hb] at h
      have hidx : o.pick i (b0 :: bs0).length % (b0 :: bs0).length < (b0 :: bs0).length :=
        Nat.mod_lt _ (by simp)
      have hone : ∀ ks', some ((b0 :: bs0)[o.pick i (b0 :: bs0).length % (b0 :: bs0).length]?.toList) = some ks' →
          (∀ k ∈ ks', k ∈ b0 :: bs0) ∧ ks'.length = 1 := by
        intro ks' hk
        rw [List.getElem?_eq_getElem hidx] at hk
        simp only [Option.toList_some, Option.some.injEq] at hk
        subst hk
        exact ⟨by intro k hk; simp at hk; subst hk; exact List.getElem_mem _, rfl⟩
      cases ht : RP.Game.turn (t.game i) with
      | terminal =>
        simp only [ht] at h
        obtain ⟨a, b⟩ := hone ks h
        exact ⟨a, by simp, fun _ => ⟨by simp, fun _ => b⟩⟩
      | chance =>
        simp only [ht] at h
        obtain ⟨a, b⟩ := hone ks h
        exact ⟨a, by simp, fun _ => ⟨by simp, fun _ => b⟩⟩
      | choice x =>
        simp only [ht] at h
        by_cases hx : x = t.walker
        · simp only [hx, if_true, Option.some.injEq] at h
          subst h
          exact ⟨fun k hk => hk, fun _ => rfl, fun hne => absurd (by rw [hx]) hne⟩
        · simp only [hx, if_false] at h
          obtain ⟨a, b⟩ := hone ks h
          refine ⟨a, ?_, fun _ => ⟨by simp, fun _ => b⟩⟩
          intro he; exact absurd (Turn.choice.inj he) hx

theorem branches_push_lt {o : Oracle} {t : DTree} (hp : ParentsOK t) (n : DNode) {i : Nat} (hi : i < t.size) :
    branches o (t.push n) i = branches o t i := by
  unfold branches; rw [push_game_lt t n hi, menuOf_push_lt hp n hi]

theorem sample_push_lt {o : Oracle} {t : DTree} (hp : ParentsOK t) (n : DNode) {i : Nat} (hi : i < t.size) :
    sample o (t.push n) i = sample o t i := by
  unfold sample; rw [branches_push_lt hp n hi, push_game_lt t n hi, push_walker]

/-- edges of the branches still on the work list whose parent is `i` -/
def pending (todo : List Branch) (i : Nat) : List Edge := (todo.filter (fun b => b.parent == i)).map (·.edge)

theorem pending_append (a b : List Branch) (i : Nat) : pending (a ++ b) i = pending a i ++ pending b i := by
  simp [pending, List.filter_append]

theorem pending_none {l : List Branch} {i : Nat} (h : ∀ b ∈ l, b.parent ≠ i) : pending l i = [] := by
  unfold pending
  rw [List.filter_eq_nil_iff.mpr]
  · rfl
  · intro b hb; simpa using h b hb

theorem pending_all {l : List Branch} {i : Nat} (h : ∀ b ∈ l, b.parent = i) : pending l i = l.map (·.edge) := by
  unfold pending
  rw [List.filter_eq_self.mpr]
  intro b hb; simpa using h b hb

theorem roundEdges_snoc (h : List Edge) (e : Edge) :
    roundEdges (h ++ [e]) = if isChoice e then e :: roundEdges h else [] := by
  unfold roundEdges
  rw [List.reverse_append]
  simp only [List.reverse_cons, List.reverse_nil, List.nil_append, List.singleton_append, List.takeWhile_cons]

theorem growStep_some {o : Oracle} {t : DTree} {rest : List Branch} {b : Branch} {s : DTree × List Branch}
    (h : growStep o t (rest ++ [b]) = some s) :
    ∃ t' kids, attach o t (some b.parent) b.edge b.game = some t' ∧ sample o t' t.size = some kids ∧
      s = (t', rest ++ kids) := by
  unfold growStep at h
  simp only [List.getLast?_append, List.getLast?_singleton, Option.some_or, List.dropLast_concat] at h
  cases ha : attach o t (some b.parent) b.edge b.game with
  | none => simp [ha] at h
  | some t' =>
    simp only [ha] at h
    cases hs : sample o t' t.size with
    | none => simp [hs] at h
    | some kids =>
      simp only [hs, Option.some.injEq] at h
      exact ⟨t', kids, rfl, hs, h.symm⟩

/-! ## the loop invariant -/

/-- what the acceptor asks of node `i` and is already fixed when the node is attached -/
structure NodeOK (o : Oracle) (t : DTree) (i : Nat) : Prop where
  link : linkOk t i = true
  inv : GameInv (t.game i)
  hist : pathOfEdges (recall (t.history i)) = some (t.node i).hist
  menu : pathOfEdges (t.menuOf i) = some (t.node i).menu
  abs : (t.node i).abs = o.abs (t.sweat i)
  pay : (t.node i).pay0 = 0 ∧ (t.node i).pay1 = 0
  ri : RoundInv (t.game i) (roundEdges (t.history i))
  alpha : ∀ e ∈ t.history i, e ∈ RP.C15.allEdges

/-- a branch on the work list: `(edge, parent.apply(parent.actionize(edge)))` for a menu edge -/
structure BranchOK (o : Oracle) (t : DTree) (b : Branch) : Prop where
  par : b.parent < t.size
  mem : b.edge ∈ t.menuOf b.parent
  stp : step? (t.game b.parent) (actionize (t.game b.parent) (o.deal (t.game b.parent)) b.edge) = some b.game

structure Inv (o : Oracle) (t : DTree) (todo : List Branch) : Prop where
  pos : 0 < t.size
  wlk : t.walker < 2
  par : ParentsOK t
  node : ∀ i, i < t.size → NodeOK o t i
  br : ∀ b ∈ todo, BranchOK o t b
  kids : ∀ i, i < t.size →
    ∃ ks, sample o t i = some ks ∧ (t.kidEdges i ++ pending todo i).Perm (ks.map (·.edge))

theorem linkOk_push_lt {t : DTree} (hp : ParentsOK t) (n : DNode) {i : Nat} (hi : i < t.size) :
    linkOk (t.push n) i = linkOk t i := by
  unfold linkOk
  rw [push_parent_lt t n hi, push_game_lt t n hi, push_edge_lt t n hi]
  cases hpi : t.parent i with
  | none => rfl
  | some p =>
    have hlt : p < t.size := by have := hp i p hpi; omega
    simp only [push_game_lt t n hlt, menuOf_push_lt hp n hlt]

theorem NodeOK.push {o : Oracle} {t : DTree} (hp : ParentsOK t) (n : DNode) {i : Nat} (hi : i < t.size)
    (h : NodeOK o t i) : NodeOK o (t.push n) i := by
  obtain ⟨a, b, c, d, e, f, g, k⟩ := h
  refine ⟨?_, ?_, ?_, ?_, ?_, ?_, ?_, ?_⟩
  · rw [linkOk_push_lt hp n hi]; exact a
  · rw [push_game_lt t n hi]; exact b
  · rw [history_push_lt hp n hi, push_node_lt t n hi]; exact c
  · rw [menuOf_push_lt hp n hi, push_node_lt t n hi]; exact d
  · rw [sweat_push_lt t n hi, push_node_lt t n hi]; exact e
  · rw [push_node_lt t n hi]; exact f
  · rw [history_push_lt hp n hi, push_game_lt t n hi]; exact g
  · rw [history_push_lt hp n hi]; exact k

theorem BranchOK.push {o : Oracle} {t : DTree} (hp : ParentsOK t) (n : DNode) {b : Branch}
    (h : BranchOK o t b) : BranchOK o (t.push n) b := by
  obtain ⟨a, m, s⟩ := h
  refine ⟨by rw [push_size]; omega, ?_, ?_⟩
  · rw [menuOf_push_lt hp n a]; exact m
  · rw [push_game_lt t n a]; exact s

/-- the branches `sample` returns for node `i` are good work-list entries with parent `i` -/
theorem sample_branchOK {o : Oracle} {t : DTree} {i : Nat} (hi : i < t.size) {ks : List Branch}
    (h : sample o t i = some ks) : ∀ k ∈ ks, k.parent = i ∧ BranchOK o t k := by
  obtain ⟨bs, hb, hsub, _, _⟩ := sample_spec h
  obtain ⟨_, hall⟩ := branches_spec hb
  intro k hk
  obtain ⟨a, b, c⟩ := hall k (hsub k hk)
  exact ⟨a, ⟨by rw [a]; exact hi, by rw [a]; exact b, by rw [a]; exact c⟩⟩

/-! ## attaching a node -/

theorem attach_spec {o : Oracle} {t t' : DTree} {parent : Option Nat} {e : Edge} {g : Game}
    (hp : ParentsOK t) (hn : ∀ p, parent = some p → p < t.size)
    (h : attach o t parent e g = some t') :
    ∃ n : DNode, t' = t.push n ∧ n.parent = parent ∧ n.edge = e ∧ n.game = g ∧ n.pay0 = 0 ∧ n.pay1 = 0 ∧
      pathOfEdges (recall (t'.history t.size)) = some n.hist ∧
      pathOfEdges (t'.menuOf t.size) = some n.menu ∧ n.abs = o.abs (t'.sweat t.size) := by
  unfold attach at h
  simp only at h
  -- the placeholder push and the final push agree on history / menu / sweat of the new node
  have key : ∀ n : DNode, n.parent = parent → n.edge = e → n.game = g →
      (t.push n).history t.size = (t.push ⟨parent, e, g, 0, 0, 0, 0, 0⟩).history t.size ∧
      (t.push n).menuOf t.size = (t.push ⟨parent, e, g, 0, 0, 0, 0, 0⟩).menuOf t.size ∧
      (t.push n).sweat t.size = (t.push ⟨parent, e, g, 0, 0, 0, 0, 0⟩).sweat t.size := by
    intro n h1 h2 h3
    have e1 : (t.push n).history t.size = (t.push ⟨parent, e, g, 0, 0, 0, 0, 0⟩).history t.size := by
      rw [history_push_new hp n (by rw [h1]; exact hn),
        history_push_new hp ⟨parent, e, g, 0, 0, 0, 0, 0⟩ (by exact hn), h1, h2]
    refine ⟨e1, ?_, ?_⟩
    · unfold DTree.menuOf; rw [e1, push_game_eq, push_game_eq, h3]
    · unfold DTree.sweat; rw [push_game_eq, push_game_eq, h3]
  cases hh : pathOfEdges (recall ((t.push ⟨parent, e, g, 0, 0, 0, 0, 0⟩).history t.size)) with
  | none => simp [hh] at h
  | some hcode =>
    cases hm : pathOfEdges ((t.push ⟨parent, e, g, 0, 0, 0, 0, 0⟩).menuOf t.size) with
    | none => simp [hh, hm] at h
    | some mcode =>
      simp only [hh, hm, Option.some.injEq] at h
      obtain ⟨k1, k2, k3⟩ := key ⟨parent, e, g, hcode, o.abs ((t.push ⟨parent, e, g, 0, 0, 0, 0, 0⟩).sweat t.size), mcode, 0, 0⟩ rfl rfl rfl
      refine ⟨_, h.symm, rfl, rfl, rfl, rfl, rfl, ?_, ?_, ?_⟩
      · rw [← h, k1]; exact hh
      · rw [← h, k2]; exact hm
      · rw [← h, k3]

/-! ## the freshly attached node -/

theorem xor_or_cancel (b d m1 m2 : Nat) (h : d &&& (b ||| m1 ||| m2) = 0) : (b ||| d) ^^^ b = d := by
  apply Nat.eq_of_testBit_eq
  intro j
  have := congrArg (fun x => x.testBit j) h
  simp only [Nat.testBit_and, Nat.testBit_or, Nat.zero_testBit, Nat.testBit_xor] at this ⊢
  cases hb : b.testBit j <;> cases hd : d.testBit j <;> simp_all

theorem actionize_deal (g : Game) (d d' : Nat) (e : Edge) (he : e ≠ Edge.draw) :
    actionize g d e = actionize g d' e := by
  cases e <;> first | rfl | exact absurd rfl he

/-- the acceptor recovers the action the builder took from the two states -/
theorem actionAlong_eq {gp g : Game} (h : GameInv gp) (d : Nat) (e : Edge)
    (hs : step? gp (actionize gp d e) = some g) : actionAlong gp g e = actionize gp d e := by
  unfold actionAlong
  by_cases he : e = Edge.draw
  · subst he
    change step? gp (Action.draw d) = some g at hs
    show Action.draw (g.board ^^^ gp.board) = Action.draw d
    have ha : isAllowed gp (Action.draw d) = true := step_allowed hs
    rw [step?_eq h] at hs
    simp only [ha, if_true, Option.some.injEq] at hs
    obtain ⟨_, _, hdis, _, _⟩ := (allowed_draw_iff h d).1 ha
    obtain ⟨hact, _, _⟩ := inv_draw h ha
    have hb : g.board = gp.board ||| d := by
      rw [← hs, hact]
      by_cases hsh : gp.s0.state = Status.shoving <;> simp [hsh]
    rw [hb]
    unfold inPlay at hdis
    rw [xor_or_cancel gp.board d _ _ hdis]
  · exact actionize_deal gp _ d e he

/-- an edge on the menu of a state with the invariant: the single `Draw` at a chance node, or a
    betting edge at a decision -/
theorem menu_edge_cases {g : Game} (h : GameInv g) {n : Nat} {e : Edge} (he : e ∈ choices g n) :
    (e = Edge.draw ∧ turn g = Turn.chance) ∨ (e ≠ Edge.draw ∧ isEveryoneAlright g = false) := by
  cases ht : turn g with
  | terminal => rw [RP.C11.C11_terminal_menu ht] at he; cases he
  | chance =>
    rw [(RP.C11.C11_chance_menu h ht n).1] at he
    left; exact ⟨by simpa using he, rfl⟩
  | choice i =>
    right
    have hna := RP.C11.decision_of_turn ht
    refine ⟨?_, hna⟩
    intro hd; subst hd
    rcases (mem_choices h hna _ _).1 he with ⟨_, hm⟩ | ⟨_, hm⟩ | ⟨_, hm⟩ | ⟨_, hm⟩ | ⟨_, hm⟩
    · have := ((raises_ok g _).2.2 _ hm).2; simp [isRaise] at this
    all_goals cases hm

theorem menu_alphabet {g : Game} (h : GameInv g) (n : Nat) :
    (choices g n).length ≤ 16 ∧ ∀ e ∈ choices g n, e ∈ RP.C15.allEdges := by
  cases ht : turn g with
  | terminal => rw [RP.C11.C11_terminal_menu ht]; simp
  | chance =>
    rw [(RP.C11.C11_chance_menu h ht n).1]
    refine ⟨by simp, ?_⟩
    intro e he; simp at he; subst he; decide
  | choice i =>
    have := RP.C11.C11_menu_length h ht n
    exact ⟨by omega, fun e he => RP.C11.alphabet_eq ▸ RP.C11.C11_menu_alphabet h ht n e he⟩

theorem nAggro_eq (h : List Edge) :
    nAggro h = ((roundEdges h).take RP.Gen.MAX_DEPTH_SUBGAME).countP isAggro := by
  unfold nAggro subgame roundEdges; rfl

theorem newNode_ok {o : Oracle} {t : DTree} {b : Branch} {n : DNode} (hp : ParentsOK t)
    (hpar : NodeOK o t b.parent) (hb : BranchOK o t b)
    (h1 : n.parent = some b.parent) (h2 : n.edge = b.edge) (h3 : n.game = b.game)
    (h4 : n.pay0 = 0) (h5 : n.pay1 = 0)
    (h6 : pathOfEdges (recall ((t.push n).history t.size)) = some n.hist)
    (h7 : pathOfEdges ((t.push n).menuOf t.size) = some n.menu)
    (h8 : n.abs = o.abs ((t.push n).sweat t.size)) :
    NodeOK o (t.push n) t.size := by
  obtain ⟨hlt, hmem, hstp⟩ := hb
  have hn : ∀ p, n.parent = some p → p < t.size := by
    intro p hq; rw [h1] at hq; injection hq with hq; omega
  have hhist : (t.push n).history t.size = t.history b.parent ++ [b.edge] := by
    rw [history_push_new hp n hn, h1, h2]
  have hinvp := hpar.inv
  have hginv : GameInv b.game := inv_step hinvp hstp
  have hmem' : b.edge ∈ choices (t.game b.parent) (nAggro (t.history b.parent)) := by
    unfold DTree.menuOf menu at hmem; exact hmem
  have hcases := menu_edge_cases hinvp hmem'
  refine ⟨?_, ?_, ?_, ?_, ?_, ?_, ?_, ?_⟩
  · -- link
    unfold linkOk
    rw [push_parent_eq, h1]
    simp only [push_game_lt t n hlt, push_game_eq, push_edge_eq, menuOf_push_lt hp n hlt, h2, h3]
    rw [actionAlong_eq hinvp _ _ hstp, hstp]
    simp [hlt, hmem]
  · rw [push_game_eq, h3]; exact hginv
  · rw [push_node_eq]; exact h6
  · rw [push_node_eq]; exact h7
  · rw [push_node_eq]; exact h8
  · rw [push_node_eq]; exact ⟨h4, h5⟩
  · -- round invariant
    rw [hhist, roundEdges_snoc, push_game_eq, h3]
    rcases hcases with ⟨hd, _⟩ | ⟨hnd, hna⟩
    · rw [hd]; simp only [isChoice, isChance]; exact RoundInv.nil hginv
    · have hch : isChoice b.edge = true := by
        cases hbe : b.edge <;> simp [isChoice, isChance]; exact absurd hbe hnd
      simp only [hch, if_true]
      have hact : b.game = act (t.game b.parent) (actionize (t.game b.parent) (o.deal (t.game b.parent)) b.edge) := by
        have := hstp
        rw [step?_eq hinvp, step_allowed hstp] at this
        simpa using this.symm
      rw [hact]
      apply RoundInv.step hinvp hna hpar.ri
      rw [← nAggro_eq]; exact hmem'
  · -- alphabet
    intro e he
    rw [hhist] at he
    rcases List.mem_append.mp he with h | h
    · exact hpar.alpha e h
    · simp at h; subst h
      exact (menu_alphabet hinvp _).2 _ hmem'

/-! ## one turn of the loop keeps the invariant -/

theorem kids_ge {t : DTree} (hp : ParentsOK t) {i : Nat} (hi : t.size ≤ i) : t.kids i = [] := by
  unfold DTree.kids
  rw [List.filter_eq_nil_iff]
  intro j hj
  have hj' := List.mem_range.mp hj
  cases hpj : t.parent j with
  | none => simp
  | some q => have := hp j q hpj; simp; omega

theorem Inv.step {o : Oracle} {t t' : DTree} {rest kids : List Branch} {b : Branch}
    (h : Inv o t (rest ++ [b])) (ha : attach o t (some b.parent) b.edge b.game = some t')
    (hs : sample o t' t.size = some kids) : Inv o t' (rest ++ kids) := by
  have hb := h.br b (by simp)
  have hlt := hb.par
  have hn0 : ∀ p, some b.parent = some p → p < t.size := by
    intro p hq; injection hq with hq; omega
  obtain ⟨n, rfl, h1, h2, h3, h4, h5, h6, h7, h8⟩ := attach_spec h.par hn0 ha
  have hn : ∀ p, n.parent = some p → p < t.size := by rw [h1]; exact hn0
  have hp' := push_parentsOK h.par n hn
  have hkb := sample_branchOK (by rw [push_size]; omega) hs
  refine ⟨by rw [push_size]; omega, h.wlk, hp', ?_, ?_, ?_⟩
  · intro i hi
    rw [push_size] at hi
    by_cases hi' : i < t.size
    · exact (h.node i hi').push h.par n hi'
    · have : i = t.size := by omega
      subst this
      exact newNode_ok h.par (h.node _ hlt) hb h1 h2 h3 h4 h5 h6 h7 h8
  · intro x hx
    rcases List.mem_append.mp hx with hx | hx
    · exact (h.br x (List.mem_append_left _ hx)).push h.par n
    · exact (hkb x hx).2
  · intro i hi
    rw [push_size] at hi
    have hpk : ∀ j, j ≠ t.size → pending kids j = [] :=
      fun j hj => pending_none (fun k hk => by rw [(hkb k hk).1]; exact fun e => hj e.symm)
    by_cases hi' : i < t.size
    · obtain ⟨ks, hks, hperm⟩ := h.kids i hi'
      refine ⟨ks, by rw [sample_push_lt h.par n hi']; exact hks, ?_⟩
      rw [kidEdges_push, pending_append, hpk i (by omega), List.append_nil, h1, h2]
      rw [pending_append] at hperm
      by_cases hpi : b.parent = i
      · have e1 : pending [b] i = [b.edge] := by simp [pending, hpi]
        rw [e1] at hperm
        simp only [hpi, if_true]
        refine List.Perm.trans ?_ hperm
        rw [List.append_assoc]
        exact List.Perm.append_left _ List.perm_append_comm
      · have e1 : pending [b] i = [] := by simp [pending, hpi]
        rw [e1, List.append_nil] at hperm
        have : ¬ (some b.parent = some i) := by intro e; injection e with e; exact hpi e
        simp only [this, if_false, List.append_nil]
        exact hperm
    · have : i = t.size := by omega
      subst this
      refine ⟨kids, hs, ?_⟩
      have e0 : (t.push n).kidEdges t.size = [] := by
        rw [kidEdges_push, h1]
        have : ¬ (some b.parent = some t.size) := by intro e; injection e with e; omega
        simp only [this, if_false, List.append_nil]
        unfold DTree.kidEdges; rw [kids_ge h.par (Nat.le_refl _)]; rfl
      have e1 : pending rest t.size = [] :=
        pending_none (fun x hx e => by
          have := (h.br x (List.mem_append_left _ hx)).par; rw [e] at this; exact Nat.lt_irrefl _ this)
      have e2 : pending kids t.size = kids.map (·.edge) := pending_all (fun k hk => (hkb k hk).1)
      rw [e0, pending_append, e1, e2]
      exact List.Perm.refl _

/-! ## the start: `plant` the root and sample it -/

theorem Inv.init {o : Oracle} {w h0 h1 : Nat} {t : DTree} {kids : List Branch} (hw : w < 2)
    (hv : ValidDeal h0 h1) (ha : attach o (⟨w, #[]⟩ : DTree) none .draw (root h0 h1) = some t)
    (hs : sample o t 0 = some kids) : Inv o t kids := by
  have hp0 : ParentsOK (⟨w, #[]⟩ : DTree) := by
    intro i p h; simp [DTree.parent] at h
  have hsz : (⟨w, #[]⟩ : DTree).size = 0 := rfl
  obtain ⟨n, rfl, h1', h2, h3, h4, h5, h6, h7, h8⟩ := attach_spec hp0 (by intro p hq; cases hq) ha
  rw [hsz] at h6 h7 h8
  have hn : ∀ p, n.parent = some p → p < (⟨w, #[]⟩ : DTree).size := by rw [h1']; intro p hq; cases hq
  have hp' := push_parentsOK hp0 n hn
  have hsize : ((⟨w, #[]⟩ : DTree).push n).size = 1 := by rw [push_size, hsz]
  have hpar0 : ((⟨w, #[]⟩ : DTree).push n).parent 0 = none := by
    have := push_parent_eq (⟨w, #[]⟩ : DTree) n; rw [hsz] at this; rw [this, h1']
  have hgame0 : ((⟨w, #[]⟩ : DTree).push n).game 0 = root h0 h1 := by
    have := push_game_eq (⟨w, #[]⟩ : DTree) n; rw [hsz] at this; rw [this, h3]
  have hnode0 : ((⟨w, #[]⟩ : DTree).push n).node 0 = n := by
    have := push_node_eq (⟨w, #[]⟩ : DTree) n; rw [hsz] at this; exact this
  have hhist0 := history_root hpar0
  have hkb := sample_branchOK (by rw [hsize]; omega) hs
  refine ⟨by rw [hsize]; omega, hw, hp', ?_, fun x hx => (hkb x hx).2, ?_⟩
  · intro i hi
    rw [hsize] at hi
    have : i = 0 := by omega
    subst this
    refine ⟨?_, ?_, ?_, ?_, ?_, ?_, ?_, ?_⟩
    · unfold linkOk; rw [hpar0, hgame0]; simp [root]
    · rw [hgame0]; exact inv_root hv
    · rw [hnode0]; exact h6
    · rw [hnode0]; exact h7
    · rw [hnode0]; exact h8
    · rw [hnode0]; exact ⟨h4, h5⟩
    · rw [hhist0, hgame0]; exact RoundInv.nil (inv_root hv)
    · rw [hhist0]; intro e he; cases he
  · intro i hi
    rw [hsize] at hi
    have : i = 0 := by omega
    subst this
    refine ⟨kids, hs, ?_⟩
    have e0 : ((⟨w, #[]⟩ : DTree).push n).kidEdges 0 = [] := by
      unfold DTree.kidEdges DTree.kids
      rw [hsize]
      simp [hpar0]
    rw [e0, pending_all (fun k hk => (hkb k hk).1)]
    exact List.Perm.refl _

theorem grow_inv {o : Oracle} : ∀ (fuel : Nat) (t : DTree) (todo : List Branch) (tf : DTree),
    Inv o t todo → grow o fuel t todo = some tf → Inv o tf [] := by
  intro fuel
  induction fuel with
  | zero =>
    intro t todo tf h hg
    rw [grow] at hg
    cases todo with
    | nil => simp at hg; subst hg; exact h
    | cons x xs => simp at hg
  | succ f ih =>
    intro t todo tf h hg
    rw [grow] at hg
    rcases List.eq_nil_or_concat todo with hnil | ⟨rest, b, hcat⟩
    · subst hnil; simp at hg; subst hg; exact h
    · have hcat' : todo = rest ++ [b] := by rw [hcat]; simp
      subst hcat'
      have hne : (rest ++ [b]).isEmpty = false := by simp
      simp only [hne, Bool.false_eq_true, if_false] at hg
      cases hst : growStep o t (rest ++ [b]) with
      | none => simp [hst] at hg
      | some s =>
        simp only [hst] at hg
        obtain ⟨t', kids, ha, hs, rfl⟩ := growStep_some hst
        exact ih t' (rest ++ kids) tf (h.step ha hs) hg

/-! ## a finished run is accepted -/

theorem roundtrip {es : List Edge} {p : Nat} (hl : es.length ≤ 16) (he : ∀ e ∈ es, e ∈ RP.C15.allEdges)
    (h : pathOfEdges es = some p) : pathToEdges p = some es := by
  obtain ⟨q, h1, _, h2⟩ := RP.C15.C15_path_roundtrip es hl he
  rw [h] at h1; injection h1 with h1; subst h1; exact h2

theorem map_edge_nil {l : List Nat} {f : Nat → Edge} (h : l.map f = []) : l = [] := by
  cases l with
  | nil => rfl
  | cons a as => simp at h

theorem menuOf_eq (t : DTree) (i : Nat) :
    t.menuOf i = choices (t.game i) (nAggro (t.history i)) := by
  unfold DTree.menuOf menu; rfl

/-- children and leaf clauses of a node whose children are exactly what `sample` returned -/
theorem kids_final {o : Oracle} {t : DTree} {i : Nat} {ks : List Branch} (hinv : GameInv (t.game i))
    (hpay : (t.node i).pay0 = 0 ∧ (t.node i).pay1 = 0)
    (hs : sample o t i = some ks) (hperm : (t.kidEdges i).Perm (ks.map (·.edge))) :
    kidsOk t i = true ∧ leafOk t i = true := by
  obtain ⟨bs, hb, hsub, hwalk, hoth⟩ := sample_spec hs
  obtain ⟨hmenu, _⟩ := branches_spec hb
  have hmenu' : bs.map (·.edge) = choices (t.game i) (nAggro (t.history i)) := by
    rw [← menuOf_eq]; exact hmenu
  have hlen : (t.kidEdges i).length = ks.length := by rw [hperm.length_eq]; simp
  have hklen : (t.kids i).length = (t.kidEdges i).length := by unfold DTree.kidEdges; simp
  have hone : ks.length = 1 → kidsOk t i = true → (t.kids i).length = 1 ∧ leafOk t i = true := by
    intro h1 _
    have : (t.kids i).length = 1 := by omega
    refine ⟨this, ?_⟩
    unfold leafOk
    cases hk : t.kids i with
    | nil => rw [hk] at this; simp at this
    | cons a as => simp
  cases ht : turn (t.game i) with
  | terminal =>
    have hm : bs.map (·.edge) = [] := by rw [hmenu', RP.C11.C11_terminal_menu ht]
    have hbs : bs = [] := by cases bs with | nil => rfl | cons a as => simp at hm
    have hks : ks = [] := by
      cases ks with
      | nil => rfl
      | cons k ks' => have := hsub k (by simp); rw [hbs] at this; cases this
    have hk : t.kids i = [] := by
      apply map_edge_nil (f := t.edge)
      have := hperm; rw [hks] at this; simpa [DTree.kidEdges] using this.eq_nil
    have hstop := ((RP.C03.C03_turn (t.game i)).1).1 ht
    constructor
    · unfold kidsOk; rw [ht]; simp [hk]
    · unfold leafOk; simp [hk, hstop, hpay.1, hpay.2]
  | chance =>
    have hm : bs.map (·.edge) = [Edge.draw] := by rw [hmenu', (RP.C11.C11_chance_menu hinv ht _).1]
    have hbs : bs ≠ [] := by intro e; rw [e] at hm; simp only [List.map_nil] at hm; cases hm
    have hne : turn (t.game i) ≠ Turn.choice t.walker := by rw [ht]; intro e; cases e
    have h1 := (hoth hne).2 hbs
    have hk : (t.kids i).length = 1 := by omega
    constructor
    · unfold kidsOk; rw [ht]; simp [hk]
    · unfold leafOk
      cases hkk : t.kids i with
      | nil => rw [hkk] at hk; simp at hk
      | cons a as => simp
  | choice x =>
    have hnon := (RP.C11.C11_menu_nonempty hinv ht (nAggro (t.history i))).2
    have hbs : bs ≠ [] := by
      intro e; rw [e] at hmenu'; simp only [List.map_nil] at hmenu'; exact hnon hmenu'.symm
    by_cases hx : x = t.walker
    · have hks : ks = bs := hwalk (by rw [ht, hx])
      have hp2 : (t.kidEdges i).Perm (t.menuOf i) := by rw [hks, hmenu] at hperm; exact hperm
      have hnd : (t.menuOf i).Nodup := by
        rw [menuOf_eq]; exact RP.C11.C11_menu_nodup hinv ht (nAggro (t.history i))
      have hnon' : t.menuOf i ≠ [] := by rw [menuOf_eq]; exact hnon
      constructor
      · unfold kidsOk; rw [ht]
        simp only [hx, if_true, Bool.and_eq_true, List.all_eq_true, beq_iff_eq, List.contains_iff_mem]
        constructor
        · intro e he
          rw [hp2.count_eq]
          rw [hnd.count]; simp [he]
        · intro e he; exact hp2.mem_iff.mp he
      · unfold leafOk
        have : t.kidEdges i ≠ [] := by
          intro e; rw [e] at hp2
          have := hp2.symm.eq_nil
          exact hnon' this
        cases hkk : t.kids i with
        | nil => exfalso; apply this; unfold DTree.kidEdges; rw [hkk]; rfl
        | cons a as => simp
    · have hne : turn (t.game i) ≠ Turn.choice t.walker := by
        rw [ht]; intro e; exact hx (Turn.choice.inj e)
      have h1 := (hoth hne).2 hbs
      have hk : (t.kids i).length = 1 := by omega
      constructor
      · unfold kidsOk; rw [ht]; simp [hx, hk]
      · unfold leafOk
        cases hkk : t.kids i with
        | nil => rw [hkk] at hk; simp at hk
        | cons a as => simp

theorem Inv.accept {o : Oracle} {t : DTree} (h : Inv o t []) : acceptTree t = true := by
  unfold acceptTree
  simp only [Bool.and_eq_true, decide_eq_true_eq, List.all_eq_true, List.mem_range]
  refine ⟨⟨⟨h.pos, h.wlk⟩, ?_⟩, ?_⟩
  · intro i hi
    have hn := h.node i hi
    obtain ⟨ks, hs, hperm⟩ := h.kids i hi
    have hperm' : (t.kidEdges i).Perm (ks.map (·.edge)) := by
      have : pending [] i = [] := rfl
      rw [this, List.append_nil] at hperm; exact hperm
    obtain ⟨hk, hl⟩ := kids_final hn.inv hn.pay hs hperm'
    unfold acceptNode
    simp only [Bool.and_eq_true]
    refine ⟨⟨⟨⟨hn.link, ?_⟩, hk⟩, hl⟩, ?_⟩
    · -- bucket words encode and decode
      unfold bucketOk
      simp only [Bool.and_eq_true, beq_iff_eq]
      have hrl : (recall (t.history i)).length ≤ 16 := by
        unfold recall; exact List.length_take_le _ _
      have hra : ∀ e ∈ recall (t.history i), e ∈ RP.C15.allEdges :=
        fun e he => hn.alpha e (List.mem_of_mem_take he)
      have hma := menu_alphabet hn.inv (nAggro (t.history i))
      exact ⟨⟨⟨hn.hist, hn.menu⟩, roundtrip hrl hra hn.hist⟩, roundtrip hma.1 hma.2 hn.menu⟩
    · unfold capOk
      have := hn.ri.rai
      have hmax : RP.Gen.MAX_RAISE_REPEATS = 3 := rfl
      simp only [decide_eq_true_eq]; omega
  · unfold absOk
    simp only [List.all_eq_true, List.mem_range, Bool.or_eq_true, bne_iff_ne, ne_eq, beq_iff_eq]
    intro i hi j hj
    by_cases hsw : t.sweat i = t.sweat j
    · right
      rw [(h.node i hi).abs, (h.node j (by omega)).abs, hsw]
    · left; exact hsw

/-- **C10 (builder).** For every oracle — which option the opponent / chance take at each node,
    which cards are dealt, which card abstraction is used —, both traversers, every valid deal and
    every fuel: a tree returned by the model of `Blueprint::tree` is accepted by `acceptTree`
    (so every clause of `ExternalSamplingShape` holds of it, by `C10_accept_sound`). -/
theorem C10_builder (o : Oracle) (w h0 h1 fuel : Nat) (hw : w < 2) (hv : ValidDeal h0 h1) (t : DTree)
    (hb : build o w h0 h1 fuel = some t) : acceptTree t = true := by
  unfold build at hb
  cases ha : attach o (⟨w, #[]⟩ : DTree) none .draw (root h0 h1) with
  | none => simp [ha] at hb
  | some t0 =>
    simp only [ha] at hb
    cases hs : sample o t0 0 with
    | none => simp [hs] at hb
    | some kids =>
      simp only [hs] at hb
      exact (grow_inv fuel t0 kids t (Inv.init hw hv ha hs) hb).accept

theorem C10_builder_shape (o : Oracle) (w h0 h1 fuel : Nat) (hw : w < 2) (hv : ValidDeal h0 h1) (t : DTree)
    (hb : build o w h0 h1 fuel = some t) : ExternalSamplingShape t :=
  C10_accept_sound t (C10_builder o w h0 h1 fuel hw hv t hb)

/-- non-vacuity: `C10_builder` applies to the concrete runs evaluated in `C10_builder_instances`
    (which return trees of 2, 7 and 59 nodes) -/
theorem demo_valid : ValidDeal hole0 hole1 := by unfold ValidDeal; decide

example : ∀ t, build (orc 1) 1 hole0 hole1 1000 = some t → ExternalSamplingShape t :=
  fun t h => C10_builder_shape (orc 1) 1 hole0 hole1 1000 (by decide) demo_valid t h

end RP.C10
