import RP.Gen.Consts
/-! # C06 — the published isomorphism-class counts equal the Burnside value

Number of suit-orbits of (2-card pocket, k-card board) pairs = (1/24) Σ_π #fixed(π), and a pair of
card sets is fixed by a suit permutation π iff, rank by rank and cycle by cycle, the cards of the
cycle are all in the pocket, all on the board, or all absent: #fixed(π) is the coefficient of
`x² y^k` in `Π_{cycles of π, length ℓ} (1 + x^ℓ + y^ℓ)^R` (R ranks). The polynomial arithmetic below is
executable (truncated at degree 2 in x, 5 in y) and evaluated by the kernel on the generated
`Permutation::exhaust` table and the generated `n_isomorphisms` tables of both decks. -/
namespace RP.C06

/-- truncated polynomial in x (degree ≤ 2) and y (degree ≤ 5): three rows (powers of x) of six
coefficients (powers of y) -/
abbrev Poly := List (List Nat)

def pzeroRow : List Nat := List.replicate 6 0
def pone : Poly := [[1, 0, 0, 0, 0, 0], pzeroRow, pzeroRow]

def padd (a b : Poly) : Poly := List.zipWith (List.zipWith (· + ·)) a b
/-- `x^l · p`, truncated -/
def shiftX (l : Nat) (p : Poly) : Poly := (List.replicate l pzeroRow ++ p).take 3
/-- `y^l · p`, truncated -/
def shiftY (l : Nat) (p : Poly) : Poly := p.map fun row => (List.replicate l 0 ++ row).take 6

/-- `p · (1 + x^l + y^l)`, truncated (distributivity) -/
def mulFactor (l : Nat) (p : Poly) : Poly := padd (padd p (shiftX l p)) (shiftY l p)

/-- `p · (1 + x^l + y^l)^n` -/
def mulFactorPow (l : Nat) : Nat → Poly → Poly
  | 0, p => p
  | n+1, p => mulFactorPow l n (mulFactor l p)

def coeff (p : Poly) (i j : Nat) : Nat := (p.getD i []).getD j 0

/-- `perm` applied `n` times (a permutation of the four suits is the list of its images) -/
def iter (perm : List Nat) : Nat → Nat → Nat
  | 0, s => s
  | n+1, s => iter perm n (perm.getD s 0)

def cycLen (perm : List Nat) (s : Nat) : Nat :=
  if iter perm 1 s = s then 1 else if iter perm 2 s = s then 2 else if iter perm 3 s = s then 3 else 4

/-- `s` is the least suit of its cycle -/
def isMin (perm : List Nat) (s : Nat) : Bool := (List.range 4).all fun n => decide (s ≤ iter perm n s)

def cycleLengths (perm : List Nat) : List Nat := ((List.range 4).filter (isMin perm)).map (cycLen perm)

/-- `Π_cycles (1 + x^ℓ + y^ℓ)^R` -/
def fixedPoly (R : Nat) (perm : List Nat) : Poly :=
  (cycleLengths perm).foldl (fun acc l => mulFactorPow l R acc) pone

/-- `Σ_π Π_cycles (1 + x^ℓ + y^ℓ)^R` over the generated `Permutation::exhaust` table -/
def fixedTotal (R : Nat) : Poly :=
  RP.Gen.permExhaust.foldl (fun acc perm => padd acc (fixedPoly R perm)) [pzeroRow, pzeroRow, pzeroRow]

/-- the coefficients of `x² y^k` for the board sizes `k` of the four streets -/
def fixedSums (R : Nat) : List Nat := RP.Gen.nObserved.map (fun k => coeff (fixedTotal R) 2 k)

-- sanity of the machinery on things one can check by hand
example : cycleLengths [1, 0, 3, 2] = [2, 2] ∧ cycleLengths [0, 1, 2, 3] = [1, 1, 1, 1] ∧
    cycleLengths [1, 2, 3, 0] = [4] ∧ cycleLengths [0, 2, 3, 1] = [1, 3] := by decide
-- (1 + x + y)^2 = 1 + 2x + 2y + x² + 2xy + y²
example : mulFactorPow 1 2 pone = [[1, 2, 1, 0, 0, 0], [2, 2, 0, 0, 0, 0], [1, 0, 0, 0, 0, 0]] := by decide +kernel
-- (1 + x² + y²)·(1 + x + y) = 1 + x + y + x² + y² + x²y + xy² + … (x³, y³ truncated only beyond the box)
example : mulFactor 2 (mulFactor 1 pone) = [[1, 1, 1, 1, 0, 0], [1, 0, 1, 0, 0, 0], [1, 1, 0, 0, 0, 0]] := by decide +kernel
-- identity permutation: C(52,2) pockets, C(52,2)·C(50,3) flop observations
example : coeff (fixedPoly 13 [0, 1, 2, 3]) 2 0 = 1326 ∧ coeff (fixedPoly 13 [0, 1, 2, 3]) 2 3 = 25989600 := by
  decide +kernel

/-- the generated `Permutation::exhaust` table is the symmetric group on the four suits:
24 pairwise different rearrangements of `[0, 1, 2, 3]` -/
theorem permExhaust_is_S4 :
    RP.Gen.permExhaust.length = 24 ∧ RP.Gen.permExhaust.Nodup ∧
    ∀ p ∈ RP.Gen.permExhaust, p.length = 4 ∧ ∀ s, s < 4 → s ∈ p := by decide +kernel

/-- the `x²` row of `Σ_π Π_cycles (1+x^ℓ+y^ℓ)^13` (board sizes 0..5), evaluated by the kernel -/
theorem fixedTotal_row_std :
    (fixedTotal 13).getD 2 [] = [4056, 121992, 2250456, 30883008, 335041200, 2955750096] := by
  decide +kernel

/-- the `x²` row for 9 ranks -/
theorem fixedTotal_row_short :
    (fixedTotal 9).getD 2 [] = [1944, 39096, 487512, 4480704, 32180544, 185369472] := by decide +kernel

/-- **C06_burnside_arith** (standard deck, 13 ranks): the published class counts
169 / 1,286,792 / 13,960,050 / 123,156,254 are exactly `(1/24)·Σ_π [x²y^k] Π_cycles (1+x^ℓ+y^ℓ)^13`
for the board sizes `k` of the four streets; the sums are divisible by 24. -/
theorem C06_burnside_arith_std :
    fixedSums 13 = RP.Gen.n_isomorphisms_Std.map (· * 24) := by
  unfold fixedSums coeff
  rw [fixedTotal_row_std]
  decide

/-- **C06_burnside_arith** (short deck, 9 ranks): 81 / 186,696 / 1,340,856 / 7,723,728 -/
theorem C06_burnside_arith_short :
    fixedSums 9 = RP.Gen.n_isomorphisms_Short.map (· * 24) := by
  unfold fixedSums coeff
  rw [fixedTotal_row_short]
  decide

/-- **C06_burnside_arith**: both decks -/
theorem C06_burnside_arith :
    fixedSums 13 = RP.Gen.n_isomorphisms_Std.map (· * 24) ∧
    fixedSums 9 = RP.Gen.n_isomorphisms_Short.map (· * 24) :=
  ⟨C06_burnside_arith_std, C06_burnside_arith_short⟩

/-- the values named in the property statement -/
theorem C06_burnside_values :
    RP.Gen.n_isomorphisms_Std = [169, 1286792, 13960050, 123156254] ∧
    RP.Gen.nObserved = [0, 3, 4, 5] := by decide

end RP.C06
