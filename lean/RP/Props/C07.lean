import RP.Model.Equity
/-! # C07 — River equity is the exact win/loss enumeration and ignores suit labels

Generic part (this file): theorems about the counting fold of `Observation::equity` for *any*
strength key and *any* villain list:

* `C07_counts`     : the fold returns `(#{v : v < hero}, #{v : v ≠ hero})` — exactly wins and
                     wins+losses over the enumerated holdings; ties are dropped;
* `C07_wins_le`    : wins ≤ total, hence the exact quotient lies in `[0,1]`; all-tie ↦ one half;
* `C07_perm`       : the result does not depend on the order of enumeration;
* `C07_invariant`  : if a relabeling `ρ` preserves strength keys and maps the villain holdings of
                     one observation onto those of the other (up to order), both observations get
                     the same `(wins,total)`, hence bit-identical `f32` equity, the same river bucket —
                     and two turn observations whose children correspond get the same histogram.

The instantiation with the evaluator model (suit-blind keys: C01) and the hand-iterator model
(the 2-card holdings avoiding the seen cards: C06) is in `RP/Props/C07Inst.lean`. -/
namespace RP.C07
open RP.Equity

theorem counts_foldl (hero : Nat) (vs : List Nat) (a b : Nat) :
    vs.foldl (fun (acc : Nat × Nat) v =>
      if v < hero then (acc.1 + 1, acc.2 + 1) else if hero < v then (acc.1, acc.2 + 1) else acc) (a, b)
    = (a + (vs.filter (· < hero)).length, b + (vs.filter (· ≠ hero)).length) := by
  induction vs generalizing a b with
  | nil => simp
  | cons v vs ih =>
    simp only [List.foldl_cons]
    by_cases h1 : v < hero
    · have h2 : v ≠ hero := by omega
      simp only [h1, if_true, ih, List.filter_cons, decide_true, h2, ne_eq, not_false_eq_true,
        List.length_cons]
      ext <;> simp <;> omega
    · by_cases h2 : hero < v
      · have h3 : v ≠ hero := by omega
        simp only [h1, h2, if_false, if_true, ih, List.filter_cons, decide_false, h3, ne_eq,
          not_false_eq_true, decide_true, List.length_cons]
        ext <;> simp <;> omega
      · have h3 : v = hero := by omega
        simp only [h1, h2, if_false, ih, List.filter_cons, decide_false, h3, ne_eq, not_true_eq_false]
        simp

/-- **Exact enumeration**: wins = number of holdings strictly weaker than the hero, total = number
    of holdings not tying with the hero. -/
theorem C07_counts (hero : Nat) (vs : List Nat) :
    counts hero vs = ((vs.filter (· < hero)).length, (vs.filter (· ≠ hero)).length) := by
  unfold counts
  rw [counts_foldl]; simp

theorem filter_length_mono (p q : Nat → Bool) (hpq : ∀ x, p x = true → q x = true) (vs : List Nat) :
    (vs.filter p).length ≤ (vs.filter q).length := by
  induction vs with
  | nil => simp
  | cons v vs ih =>
    simp only [List.filter_cons]
    cases hp : p v with
    | true => simp only [hpq v hp, if_true, List.length_cons]; omega
    | false =>
      cases hq : q v with
      | true => simp only [if_true, List.length_cons]; simp; omega
      | false => simpa using ih

theorem C07_wins_le (hero : Nat) (vs : List Nat) : (counts hero vs).1 ≤ (counts hero vs).2 := by
  rw [C07_counts]
  exact filter_length_mono _ _ (by intro x hx; simp at hx ⊢; omega) vs

theorem C07_total_le (hero : Nat) (vs : List Nat) : (counts hero vs).2 ≤ vs.length := by
  rw [C07_counts]; exact List.length_filter_le _ _

/-- order of enumeration is irrelevant -/
theorem C07_perm (hero : Nat) {vs vs' : List Nat} (h : vs.Perm vs') : counts hero vs = counts hero vs' := by
  rw [C07_counts, C07_counts, (h.filter _).length_eq, (h.filter _).length_eq]

/-- **Suit-relabeling invariance** in its generic form: `key` is the strength key of a card set,
    `ρ` a relabeling of card sets that preserves keys; if the holdings enumerated for the second
    observation are (in any order) the images of those enumerated for the first, both get the same
    `(wins, total)`. -/
theorem C07_invariant {Hand : Type} (key : Hand → Nat) (ρ : Hand → Hand)
    (hkey : ∀ h, key (ρ h) = key h) (hero : Hand) (vs vs' : List Hand)
    (hvs : vs'.Perm (vs.map ρ)) :
    counts (key (ρ hero)) (vs'.map key) = counts (key hero) (vs.map key) := by
  rw [hkey]
  have : (vs'.map key).Perm (vs.map key) := by
    have h1 := hvs.map key
    have h2 : (vs.map ρ).map key = vs.map key := by
      rw [List.map_map]; apply List.map_congr_left; intro h _; exact hkey h
    rw [h2] at h1; exact h1
  exact C07_perm _ this

/-- consequently the `f32` equity and the river bucket coincide (they are functions of the counts) -/
theorem C07_bucket_invariant {Hand : Type} (n : Nat) (key : Hand → Nat) (ρ : Hand → Hand)
    (hkey : ∀ h, key (ρ h) = key h) (hero : Hand) (vs vs' : List Hand)
    (hvs : vs'.Perm (vs.map ρ)) :
    bucket n (key (ρ hero)) (vs'.map key) = bucket n (key hero) (vs.map key) := by
  unfold bucket; rw [C07_invariant key ρ hkey hero vs vs' hvs]

/-- the next-street histogram only depends on the multiset of child buckets -/
theorem C07_histogram_perm (n : Nat) {bs bs' : List Nat} (h : bs.Perm bs') :
    histogram n bs = histogram n bs' := by
  unfold histogram
  congr 1
  apply List.map_congr_left
  intro i _
  rw [(h.filter _).length_eq]

-- non-vacuity: hero key 5 against holdings with keys [3, 5, 7, 1, 5, 9] : wins 2 of 4 non-ties
example : counts 5 [3, 5, 7, 1, 5, 9] = (2, 4) := by decide
example : counts 5 [5, 5] = (0, 0) := by decide
example : (equityF32 (2, 4)).toBits = 0x3F000000 := by decide
example : quantize 100 (equityF32 (666, 990)) = 67 := by decide

end RP.C07
