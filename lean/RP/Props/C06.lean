import RP.Lemmas.HandsIter
import RP.Lemmas.KSubsets
/-! # C06 — Exhaustive iterators visit every situation exactly once; class counts are exact

Model: `RP/Model/Hands.lean` (`HandIterator`, `ObservationIterator`, `IsomorphismIterator`,
`Observation::children`), specification: `RP/Spec/Hands.lean` (`ksubsets`: the `k`-subsets of the
unblocked cards in increasing order). Lemmas: `RP/Lemmas/{Gosper,HandsIter,KSubsets}.lean`.
The Burnside arithmetic is in `RP/Props/C06Burnside.lean`. -/
namespace RP.C06
open RP.Bits RP.Hands RP.Spec

/-! ## the model's `permute` is the source's `permute` -/

/-- the hand-written `permute` coincides with the definition regenerated from
`src/cards/hands.rs` by `tools/extractors/c06.py` (breaks when the source line sequence changes) -/
theorem permute_eq_generated : ∀ x, permute x = RP.Gen.C06.permute x := fun _ => rfl

/-! ## ① `permute` increases; the loops terminate; nothing overflows -/

/-- `permute x > x` for every word -/
theorem permute_gt (x : Nat) : x < permute x := by
  unfold permute
  simp only []
  have h1 : x ≤ x ||| (x - 1) := Nat.left_le_or
  have h2 : (x ||| (x - 1)) + 1 ≤ ((x ||| (x - 1)) + 1) ||| ((not64 (x ||| (x - 1)) &&& ((x ||| (x - 1)) + 1)) - 1) >>> (1 + tzW 64 x) :=
    Nat.left_le_or
  omega

example : permute 0b0111 = 0b1011 ∧ permute 0b1110 = 0b10011 := by decide

/-- **advance_terminates**: from a valid, non-exhausted state (`k ≥ 1` cards, effective mask below
`2^52`) the skip loop of `advance` stops before its fuel is used up, at the least word above
`next` with `k` bits and no masked bit; this word is below `2^53` (top bit ≤ 52), the state
invariant is kept, and every word handed to `permute` on the way is in `(0, 2^53)`, where
`permute_no_overflow` applies. -/
theorem advance_terminates (k m : Nat) (hk : 1 ≤ k) (hm : m < 2^52) (s : HandIter) (hs : HInv k m s)
    (hne : s.next < 2^52) :
    HInv k m s.advance ∧ s.next < s.advance.next ∧ s.advance.next < 2^53 ∧
    s.advance.next &&& m = 0 ∧
    (∀ y, s.next < y → popW 64 y = k → y &&& m = 0 → s.advance.next ≤ y) ∧
    (∀ a ∈ s.next :: skipArgs (fun y => y &&& s.mask == 0) SKIP_FUEL (permute s.next), 0 < a ∧ a < 2^53) :=
  advance_spec k m hk hm s hs hne

/-- every `permute` call of the construction and of every later `advance` receives a word on which
no `u64` operation overflows or underflows -/
theorem C06_reachable_no_overflow (a : Nat) (h : 0 < a ∧ a < 2^63) :
    1 ≤ a ∧ (a ||| (a - 1)) + 1 < 2^64 ∧
    1 ≤ (not64 (a ||| (a - 1)) &&& ((a ||| (a - 1)) + 1)) ∧ 1 + tzW 64 a < 64 :=
  permute_no_overflow a h.1 h.2

/-! ## the deck and the blocked cards -/

/-- the cards the iterator never deals: the mask restricted to the deck (`Hand::from`), plus the
sixteen low cards in the short deck -/
def blocked (short : Bool) (mask : Nat) : Nat := effMask short (handOf short mask)

/-- `y` is a `k`-card hand of the configured deck that avoids `mask` -/
def IsHand (short : Bool) (k mask y : Nat) : Prop :=
  popW 64 y = k ∧ y &&& mask = 0 ∧ y &&& handMask short = y

theorem handMask_testBit (short : Bool) (i : Nat) :
    (handMask short).testBit i = (decide (i < 52) && (!short || decide (16 ≤ i))) := by
  cases short
  · show (2^52 - 1).testBit i = _
    rw [Nat.testBit_two_pow_sub_one]; simp
  · show (2^16 * (2^36 - 1) + 0).testBit i = _
    rw [Nat.testBit_two_pow_mul_add _ (by decide), Nat.testBit_two_pow_sub_one]
    by_cases h : i < 16
    · simp [h]
    · by_cases h2 : i < 52
      · have : i - 16 < 36 := by omega
        simp [h, h2, this]; omega
      · have : ¬ i - 16 < 36 := by omega
        simp [h, h2, this]

theorem handOf_lt (short : Bool) (n : Nat) : handOf short n < 2^52 := by
  unfold handOf
  apply Nat.and_lt_two_pow
  cases short <;> decide

theorem blocked_lt (short : Bool) (mask : Nat) : blocked short mask < 2^52 :=
  effMask_lt short _ (handOf_lt short mask)

theorem blocked_testBit (short : Bool) (mask i : Nat) :
    (blocked short mask).testBit i =
      ((mask.testBit i && (handMask short).testBit i) || (short && decide (i < 16))) := by
  unfold blocked effMask handOf
  cases short
  · simp
  · show ((mask &&& handMask true) ||| (2^16 - 1)).testBit i = _
    rw [Nat.testBit_or, Nat.testBit_and, Nat.testBit_two_pow_sub_one]; simp

theorem isHand_iff (short : Bool) (k mask y : Nat) :
    IsHand short k mask y ↔ (popW 64 y = k ∧ y &&& blocked short mask = 0 ∧ y < 2^52) := by
  unfold IsHand
  constructor
  · rintro ⟨h1, h2, h3⟩
    have hy : y < 2^52 := by
      rw [← h3]; apply Nat.and_lt_two_pow; cases short <;> decide
    refine ⟨h1, ?_, hy⟩
    rw [and_eq_zero_iff_testBit] at h2 ⊢
    intro i hi
    have hH : (handMask short).testBit i = true := by
      have := congrArg (fun n => n.testBit i) h3
      simp only [Nat.testBit_and, hi, Bool.true_and] at this
      exact this
    rw [blocked_testBit, h2 i hi]
    rw [handMask_testBit] at hH
    cases short <;> simp_all
  · rintro ⟨h1, h2, h3⟩
    rw [and_eq_zero_iff_testBit] at h2
    have hsub : y &&& handMask short = y := by
      apply Nat.eq_of_testBit_eq
      intro i
      rw [Nat.testBit_and]
      cases hi : y.testBit i
      · rfl
      · have hb := h2 i hi
        rw [blocked_testBit] at hb
        have hlt : i < 52 := by
          apply Nat.lt_of_not_le
          intro hle
          have : y < 2^i := Nat.lt_of_lt_of_le h3 (Nat.pow_le_pow_right (by omega) hle)
          rw [Nat.testBit_lt_two_pow this] at hi; exact absurd hi (by simp)
        rw [handMask_testBit]
        cases short <;> simp_all
    refine ⟨h1, ?_, hsub⟩
    rw [and_eq_zero_iff_testBit]
    intro i hi
    have hb := h2 i hi
    have hH : (handMask short).testBit i = true := by
      have := congrArg (fun n => n.testBit i) hsub
      simp only [Nat.testBit_and, hi, Bool.true_and] at this
      exact this
    rw [blocked_testBit, hH] at hb
    simp at hb
    exact hb.1

/-- `Hand::from` in `look` changes nothing on a hand the iterator can stand on -/
theorem look_id (short : Bool) (mask y : Nat) (hy : y < 2^52) (h : y &&& blocked short mask = 0) :
    handOf short y = y :=
  ((isHand_iff short (popW 64 y) mask y).mpr ⟨rfl, h, hy⟩).2.2

/-! ## ① soundness and ② completeness of `HandIterator` (k ≥ 1) -/

theorem hands_unfold (short : Bool) (k mask : Nat) :
    hands short k mask = unfold (HandIter.step short) (2^52) (HandIter.init short k (handOf short mask)) := rfl

/-- characterisation of the yielded list: strictly increasing, and its members are exactly the
`k`-card hands of the deck that avoid the mask -/
theorem hands_spec (short : Bool) (k mask : Nat) (hk : 1 ≤ k) (hk64 : k < 64) :
    List.Pairwise (· < ·) (hands short k mask) ∧
    ∀ y, y ∈ hands short k mask ↔ IsHand short k mask y := by
  obtain ⟨hinv, hleast, _⟩ := init_spec short k (handOf short mask) hk hk64
  have hm := blocked_lt short mask
  have hpos := pos_of_pop hk hinv.pop
  obtain ⟨p1, p2⟩ := unfold_hands short k (blocked short mask) hk hm
    (fun y hy h => look_id short mask y hy h) (2^52) _ hinv (by omega)
  rw [hands_unfold]
  refine ⟨p1, fun y => ?_⟩
  rw [p2 y, isHand_iff]
  constructor
  · rintro ⟨q1, q2, q3, _⟩; exact ⟨q1, q2, q3⟩
  · rintro ⟨q1, q2, q3⟩; exact ⟨q1, q2, q3, hleast y q1 q2⟩

/-- **C06_hands_sound** (k ≥ 1): the yielded list is strictly increasing (hence duplicate-free),
every element has `k` cards, avoids the mask, consists of cards of the configured deck (in the
short deck: none of the sixteen low cards) and lies below `2^52`. -/
theorem C06_hands_sound (short : Bool) (k mask : Nat) (hk : 1 ≤ k) (hk64 : k < 64) :
    List.Pairwise (· < ·) (hands short k mask) ∧
    ∀ y ∈ hands short k mask,
      popW 64 y = k ∧ y &&& mask = 0 ∧ y &&& handMask short = y ∧ y < 2^52 := by
  obtain ⟨p1, p2⟩ := hands_spec short k mask hk hk64
  refine ⟨p1, fun y hy => ?_⟩
  have h := (p2 y).mp hy
  exact ⟨h.1, h.2.1, h.2.2, ((isHand_iff short k mask y).mp h).2.2⟩

/-- **gosper_least** (②): `permute x` is the least `y > x` with the popcount of `x`
(`0 < x < 2^63`), it fits in 64 bits and has the same popcount. -/
theorem gosper_least (x : Nat) (hx : 0 < x) (hlt : x < 2^63) :
    x < permute x ∧ permute x < 2^64 ∧ popW 64 (permute x) = popW 64 x ∧
    ∀ y, x < y → popW 64 y = popW 64 x → permute x ≤ y :=
  gosper_step_least x hx hlt

/-- **C06_hands_complete** (②, k ≥ 1): the yielded list *is* the increasing list of the
`k`-subsets of the unblocked cards — every such hand exactly once, in increasing order. -/
theorem C06_hands_complete (short : Bool) (k mask : Nat) (hk : 1 ≤ k) (hk64 : k < 64) :
    hands short k mask = ksubsets 52 k (blocked short mask) := by
  obtain ⟨p1, p2⟩ := hands_spec short k mask hk hk64
  apply pairwise_lt_ext _ _ p1 (ksubsets_sorted _ _ _)
  intro y
  rw [p2 y, isHand_iff, mem_ksubsets]
  constructor
  · rintro ⟨q1, q2, q3⟩
    exact ⟨q3, by rw [← popW_eq_of_lt q3 (by omega : 52 ≤ 64)]; exact q1, q2⟩
  · rintro ⟨q1, q2, q3⟩
    exact ⟨by rw [popW_eq_of_lt q1 (by omega : 52 ≤ 64)]; exact q2, q3, q1⟩

/-- the number of cards the iterator may deal -/
def nFree (short : Bool) (mask : Nat) : Nat := 52 - popW 52 (blocked short mask)

/-- **C06_hands_count** (②, k ≥ 1): as many hands as the binomial coefficient says -/
theorem C06_hands_count (short : Bool) (k mask : Nat) (hk : 1 ≤ k) (hk64 : k < 64) :
    (hands short k mask).length = Nat.choose (nFree short mask) k := by
  rw [C06_hands_complete short k mask hk hk64, length_ksubsets]; rfl

/-! ## KF-C06-k0 — what the code does for `k = 0`, and how it deviates -/

/-- the code yields **nothing** for `k = 0` (the initial word is `0`, which counts as exhausted) -/
theorem C06_hands_k0 (short : Bool) (mask : Nat) : hands short 0 mask = [] := by
  have h0 : (HandIter.init short 0 (handOf short mask)).next = 0 := by
    rw [init_next]
    show skipUntil _ (2^53) 0 = 0
    have : initStop (effMask short (handOf short mask)) 0 = true := by
      rw [initStop_iff]; right; left; rfl
    rw [show (2:Nat)^53 = (2^53 - 1) + 1 from by norm_num]
    simp only [skipUntil, this, if_true]
  rw [hands_unfold, show (2:Nat)^52 = (2^52 - 1) + 1 from by norm_num]
  simp only [unfold]
  rw [step_exhausted short _ (Or.inl h0)]

/-- the deviation: the property (and the iterator's own `size_hint`, `C(n,0) = 1`) asks for one
hand, the empty one -/
theorem C06_k0_deviation (short : Bool) (mask : Nat) :
    ksubsets 52 0 (blocked short mask) = [0] ∧ hands short 0 mask ≠ ksubsets 52 0 (blocked short mask) := by
  refine ⟨rfl, ?_⟩
  rw [C06_hands_k0]; simp [ksubsets]

-- non-vacuity: five free cards {0,3,4,5,6} of the standard deck, k = 2 (the walk visits all C(52,2) words)
example : hands false 2 (2^52 - 1 - 0b1111001) = [9, 17, 24, 33, 40, 48, 65, 72, 80, 96] := by decide +kernel
example : ksubsets 52 2 (blocked false (2^52 - 1 - 0b1111001)) = [9, 17, 24, 33, 40, 48, 65, 72, 80, 96] := by decide +kernel
example : nFree false (2^52 - 1 - 0b1111001) = 5 ∧ Nat.choose 5 2 = 10 := by decide +kernel
-- short deck: single cards start at 6c (bit 16); 36 cards
example : (hands true 1 0).head? = some 0x10000 ∧ (hands true 1 0).length = 36 := by decide +kernel
example : nFree true 0 = 36 ∧ nFree false 0 = 52 := by decide +kernel
example : hands false 0 0 = [] ∧ ksubsets 52 0 0 = [0] := by decide +kernel

end RP.C06
