import RP.Lemmas.HandsIter
import RP.Lemmas.KSubsets
import RP.Lemmas.ObsIter
/-! # C06 — Exhaustive iterators visit every situation exactly once; class counts are exact

Model: `RP/Model/Hands.lean` (`HandIterator`, `ObservationIterator`, `IsomorphismIterator`,
`Observation::children`), specification: `RP/Spec/Hands.lean` (`ksubsets`: the `k`-subsets of the
unblocked cards in increasing order). Lemmas: `RP/Lemmas/{Gosper,HandsIter,KSubsets}.lean`.
The Burnside arithmetic is in `RP/Props/C06Burnside.lean`. -/
namespace RP.C06
open RP.Bits RP.Hands RP.Spec

/-! ## the model's `permute` is the source's `permute` -/

/-- the hand-written `permute` coincides with the definition regenerated from
`src/cards/hands.rs` by `tools/extractors/c06.py` (breaks when the source line sequence changes) -/
theorem permute_eq_generated : ∀ x, permute x = RP.Gen.C06.permute x := fun _ => rfl

/-! ## ① `permute` increases; the loops terminate; nothing overflows -/

/-- `permute x > x` for every word -/
theorem permute_gt (x : Nat) : x < permute x := by
  unfold permute
  simp only []
  have h1 : x ≤ x ||| (x - 1) := Nat.left_le_or
  have h2 : (x ||| (x - 1)) + 1 ≤ ((x ||| (x - 1)) + 1) ||| ((not64 (x ||| (x - 1)) &&& ((x ||| (x - 1)) + 1)) - 1) >>> (1 + tzW 64 x) :=
    Nat.left_le_or
  omega

example : permute 0b0111 = 0b1011 ∧ permute 0b1110 = 0b10011 := by decide

/-- **advance_terminates**: from a valid, non-exhausted state (`k ≥ 1` cards, effective mask below
`2^52`) the skip loop of `advance` stops before its fuel is used up, at the least word above
`next` with `k` bits and no masked bit; this word is below `2^53` (top bit ≤ 52), the state
invariant is kept, and every word handed to `permute` on the way is in `(0, 2^53)`, where
`permute_no_overflow` applies. -/
theorem advance_terminates (k m : Nat) (hk : 1 ≤ k) (hm : m < 2^52) (s : HandIter) (hs : HInv k m s)
    (hne : s.next < 2^52) :
    HInv k m s.advance ∧ s.next < s.advance.next ∧ s.advance.next < 2^53 ∧
    s.advance.next &&& m = 0 ∧
    (∀ y, s.next < y → popW 64 y = k → y &&& m = 0 → s.advance.next ≤ y) ∧
    (∀ a ∈ s.next :: skipArgs (fun y => y &&& s.mask == 0) SKIP_FUEL (permute s.next), 0 < a ∧ a < 2^53) :=
  advance_spec k m hk hm s hs hne

/-- **init_terminates**: the skip loop of `From<(usize, Hand)>` (`1 ≤ k < 64`, any blocking hand)
stops before its fuel is used up; the iterator then stands on the least `k`-card word avoiding the
effective mask, or is exhausted (`next ≥ 2^52`); every word handed to `permute` is in `(0, 2^63)`. -/
theorem init_terminates (short : Bool) (k hand : Nat) (hk : 1 ≤ k) (hk64 : k < 64) :
    HInv k (effMask short hand) (HandIter.init short k hand) ∧
    (∀ y, popW 64 y = k → y &&& effMask short hand = 0 → (HandIter.init short k hand).next ≤ y) ∧
    (∀ a ∈ skipArgs (initStop (effMask short hand)) SKIP_FUEL (2^k - 1), 0 < a ∧ a < 2^63) :=
  init_spec short k hand hk hk64

/-- every `permute` call of the construction and of every later `advance` receives a word on which
no `u64` operation overflows or underflows -/
theorem C06_reachable_no_overflow (a : Nat) (h : 0 < a ∧ a < 2^63) :
    1 ≤ a ∧ (a ||| (a - 1)) + 1 < 2^64 ∧
    1 ≤ (not64 (a ||| (a - 1)) &&& ((a ||| (a - 1)) + 1)) ∧ 1 + tzW 64 a < 64 :=
  permute_no_overflow a h.1 h.2

/-! ## the deck and the blocked cards -/

/-- the cards the iterator never deals: the mask restricted to the deck (`Hand::from`), plus the
sixteen low cards in the short deck -/
def blocked (short : Bool) (mask : Nat) : Nat := effMask short (handOf short mask)

/-- `y` is a `k`-card hand of the configured deck that avoids `mask` -/
def IsHand (short : Bool) (k mask y : Nat) : Prop :=
  popW 64 y = k ∧ y &&& mask = 0 ∧ y &&& handMask short = y

theorem handMask_testBit (short : Bool) (i : Nat) :
    (handMask short).testBit i = (decide (i < 52) && (!short || decide (16 ≤ i))) := by
  cases short
  · show (2^52 - 1).testBit i = _
    rw [Nat.testBit_two_pow_sub_one]; simp
  · show (2^16 * (2^36 - 1) + 0).testBit i = _
    rw [Nat.testBit_two_pow_mul_add _ (by decide), Nat.testBit_two_pow_sub_one]
    by_cases h : i < 16
    · simp [h]
    · by_cases h2 : i < 52
      · have : i - 16 < 36 := by omega
        simp [h, h2, this]; omega
      · have : ¬ i - 16 < 36 := by omega
        simp [h, h2, this]

theorem handOf_lt (short : Bool) (n : Nat) : handOf short n < 2^52 := by
  unfold handOf
  apply Nat.and_lt_two_pow
  cases short <;> decide

theorem blocked_lt (short : Bool) (mask : Nat) : blocked short mask < 2^52 :=
  effMask_lt short _ (handOf_lt short mask)

theorem blocked_testBit (short : Bool) (mask i : Nat) :
    (blocked short mask).testBit i =
      ((mask.testBit i && (handMask short).testBit i) || (short && decide (i < 16))) := by
  unfold blocked effMask handOf
  cases short
  · simp
  · show ((mask &&& handMask true) ||| (2^16 - 1)).testBit i = _
    rw [Nat.testBit_or, Nat.testBit_and, Nat.testBit_two_pow_sub_one]; simp

theorem isHand_iff (short : Bool) (k mask y : Nat) :
    IsHand short k mask y ↔ (popW 64 y = k ∧ y &&& blocked short mask = 0 ∧ y < 2^52) := by
  unfold IsHand
  constructor
  · rintro ⟨h1, h2, h3⟩
    have hy : y < 2^52 := by
      rw [← h3]; apply Nat.and_lt_two_pow; cases short <;> decide
    refine ⟨h1, ?_, hy⟩
    rw [and_eq_zero_iff_testBit] at h2 ⊢
    intro i hi
    have hH : (handMask short).testBit i = true := by
      have := congrArg (fun n => n.testBit i) h3
      simp only [Nat.testBit_and, hi, Bool.true_and] at this
      exact this
    rw [blocked_testBit, h2 i hi]
    rw [handMask_testBit] at hH
    cases short <;> simp_all
  · rintro ⟨h1, h2, h3⟩
    rw [and_eq_zero_iff_testBit] at h2
    have hsub : y &&& handMask short = y := by
      apply Nat.eq_of_testBit_eq
      intro i
      rw [Nat.testBit_and]
      cases hi : y.testBit i
      · rfl
      · have hb := h2 i hi
        rw [blocked_testBit] at hb
        have hlt : i < 52 := by
          apply Nat.lt_of_not_le
          intro hle
          have : y < 2^i := Nat.lt_of_lt_of_le h3 (Nat.pow_le_pow_right (by omega) hle)
          rw [Nat.testBit_lt_two_pow this] at hi; exact absurd hi (by simp)
        rw [handMask_testBit]
        cases short <;> simp_all
    refine ⟨h1, ?_, hsub⟩
    rw [and_eq_zero_iff_testBit]
    intro i hi
    have hb := h2 i hi
    have hH : (handMask short).testBit i = true := by
      have := congrArg (fun n => n.testBit i) hsub
      simp only [Nat.testBit_and, hi, Bool.true_and] at this
      exact this
    rw [blocked_testBit, hH] at hb
    simp at hb
    exact hb.1

/-- `Hand::from` in `look` changes nothing on a hand the iterator can stand on -/
theorem look_id (short : Bool) (mask y : Nat) (hy : y < 2^52) (h : y &&& blocked short mask = 0) :
    handOf short y = y :=
  ((isHand_iff short (popW 64 y) mask y).mpr ⟨rfl, h, hy⟩).2.2

/-! ## ① soundness and ② completeness of `HandIterator` (k ≥ 1) -/

theorem hands_unfold (short : Bool) (k mask : Nat) :
    hands short k mask = unfold (HandIter.step short) (2^52) (HandIter.init short k (handOf short mask)) := rfl

/-- characterisation of the yielded list: strictly increasing, and its members are exactly the
`k`-card hands of the deck that avoid the mask -/
theorem hands_spec (short : Bool) (k mask : Nat) (hk : 1 ≤ k) (hk64 : k < 64) :
    List.Pairwise (· < ·) (hands short k mask) ∧
    ∀ y, y ∈ hands short k mask ↔ IsHand short k mask y := by
  obtain ⟨hinv, hleast, _⟩ := init_spec short k (handOf short mask) hk hk64
  have hm := blocked_lt short mask
  have hpos := pos_of_pop hk hinv.pop
  obtain ⟨p1, p2⟩ := unfold_hands short k (blocked short mask) hk hm
    (fun y hy h => look_id short mask y hy h) (2^52) _ hinv (by omega)
  rw [hands_unfold]
  refine ⟨p1, fun y => ?_⟩
  rw [p2 y, isHand_iff]
  constructor
  · rintro ⟨q1, q2, q3, _⟩; exact ⟨q1, q2, q3⟩
  · rintro ⟨q1, q2, q3⟩; exact ⟨q1, q2, q3, hleast y q1 q2⟩

/-- **C06_hands_sound** (k ≥ 1): the yielded list is strictly increasing (hence duplicate-free),
every element has `k` cards, avoids the mask, consists of cards of the configured deck (in the
short deck: none of the sixteen low cards) and lies below `2^52`. -/
theorem C06_hands_sound (short : Bool) (k mask : Nat) (hk : 1 ≤ k) (hk64 : k < 64) :
    List.Pairwise (· < ·) (hands short k mask) ∧
    ∀ y ∈ hands short k mask,
      popW 64 y = k ∧ y &&& mask = 0 ∧ y &&& handMask short = y ∧ y < 2^52 := by
  obtain ⟨p1, p2⟩ := hands_spec short k mask hk hk64
  refine ⟨p1, fun y hy => ?_⟩
  have h := (p2 y).mp hy
  exact ⟨h.1, h.2.1, h.2.2, ((isHand_iff short k mask y).mp h).2.2⟩

/-- **gosper_least** (②): `permute x` is the least `y > x` with the popcount of `x`
(`0 < x < 2^63`), it fits in 64 bits and has the same popcount. -/
theorem gosper_least (x : Nat) (hx : 0 < x) (hlt : x < 2^63) :
    x < permute x ∧ permute x < 2^64 ∧ popW 64 (permute x) = popW 64 x ∧
    ∀ y, x < y → popW 64 y = popW 64 x → permute x ≤ y :=
  gosper_step_least x hx hlt

/-- **C06_hands_complete** (②, k ≥ 1): the yielded list *is* the increasing list of the
`k`-subsets of the unblocked cards — every such hand exactly once, in increasing order. -/
theorem C06_hands_complete (short : Bool) (k mask : Nat) (hk : 1 ≤ k) (hk64 : k < 64) :
    hands short k mask = ksubsets 52 k (blocked short mask) := by
  obtain ⟨p1, p2⟩ := hands_spec short k mask hk hk64
  apply pairwise_lt_ext _ _ p1 (ksubsets_sorted _ _ _)
  intro y
  rw [p2 y, isHand_iff, mem_ksubsets]
  constructor
  · rintro ⟨q1, q2, q3⟩
    exact ⟨q3, by rw [← popW_eq_of_lt q3 (by omega : 52 ≤ 64)]; exact q1, q2⟩
  · rintro ⟨q1, q2, q3⟩
    exact ⟨by rw [popW_eq_of_lt q1 (by omega : 52 ≤ 64)]; exact q2, q3, q1⟩

/-- the number of cards the iterator may deal -/
def nFree (short : Bool) (mask : Nat) : Nat := 52 - popW 52 (blocked short mask)

/-- **C06_hands_count** (②, k ≥ 1): as many hands as the binomial coefficient says -/
theorem C06_hands_count (short : Bool) (k mask : Nat) (hk : 1 ≤ k) (hk64 : k < 64) :
    (hands short k mask).length = Nat.choose (nFree short mask) k := by
  rw [C06_hands_complete short k mask hk hk64, length_ksubsets]; rfl

/-! ## KF-C06-k0 — what the code does for `k = 0`, and how it deviates -/

/-- the code yields **nothing** for `k = 0` (the initial word is `0`, which counts as exhausted) -/
theorem C06_hands_k0 (short : Bool) (mask : Nat) : hands short 0 mask = [] := by
  have h0 : (HandIter.init short 0 (handOf short mask)).next = 0 := by
    rw [init_next]
    show skipUntil _ (2^53) 0 = 0
    have : initStop (effMask short (handOf short mask)) 0 = true := by
      rw [initStop_iff]; right; left; rfl
    rw [show (2:Nat)^53 = (2^53 - 1) + 1 from by norm_num]
    simp only [skipUntil, this, if_true]
  rw [hands_unfold, show (2:Nat)^52 = (2^52 - 1) + 1 from by norm_num]
  simp only [unfold]
  rw [step_exhausted short _ (Or.inl h0)]

/-- the deviation: the property (and the iterator's own `size_hint`, `C(n,0) = 1`) asks for one
hand, the empty one -/
theorem C06_k0_deviation (short : Bool) (mask : Nat) :
    ksubsets 52 0 (blocked short mask) = [0] ∧ hands short 0 mask ≠ ksubsets 52 0 (blocked short mask) := by
  refine ⟨rfl, ?_⟩
  rw [C06_hands_k0]; simp [ksubsets]

/-! ## ① `ObservationIterator` = pockets × boards, in terms of the `HandIterator` lists -/

theorem hands_eq_handsOfHand (short : Bool) (k p : Nat) (hp : handOf short p = p) :
    hands short k p = handsOfHand short k p := by
  unfold hands; rw [hp]

theorem hands_two_zero (short : Bool) : hands short 2 0 = handsFrom short (HandIter.init short 2 0) := by
  unfold hands handsOfHand handOf; rw [Nat.zero_and]

/-- the "primed" first pocket of `ObservationIterator::start()` is the first pocket the outer
iterator yields (2c2d, resp. 6c6d in the short deck) -/
theorem outer_first (short : Bool) :
    HandIter.step short (HandIter.init short 2 0) = some (obsStart short, (HandIter.init short 2 0).advance) := by
  have hn : (HandIter.init short 2 0).next = obsStart short := by cases short <;> decide +kernel
  have hs : obsStart short < 2^52 ∧ 0 < obsStart short ∧ handOf short (obsStart short) = obsStart short := by
    cases short <;> decide +kernel
  rw [step_live short _ (by rw [hn]; exact hs.2.1) (by rw [hn]; exact hs.1), hn, hs.2.2]

theorem blocked_zero (short : Bool) : blocked short 0 = if short then 65535 else 0 := by
  cases short <;> decide +kernel

/-- what is known about every pocket the outer iterator yields -/
theorem mem_pockets (short : Bool) (p : Nat) (hp : p ∈ hands short 2 0) :
    p < 2^52 ∧ handOf short p = p ∧ popW 64 p = 2 ∧ p &&& blocked short 0 = 0 := by
  have h := ((hands_spec short 2 0 (by omega) (by omega)).2 p).mp hp
  have h' := (isHand_iff short 2 0 p).mp h
  exact ⟨h'.2.2, h.2.2, h.1, h'.2.1⟩

/-- with a pocket removed, 50 cards (34 in the short deck) remain -/
theorem nFree_pocket (short : Bool) (p : Nat) (hp : p ∈ hands short 2 0) :
    nFree short p = if short then 34 else 50 := by
  obtain ⟨h1, h2, h3, h4⟩ := mem_pockets short p hp
  unfold nFree blocked
  rw [h2]
  have hp52 : popW 52 p = 2 := by rw [← popW_eq_of_lt h1 (by omega : 52 ≤ 64)]; exact h3
  cases short
  · show 52 - popW 52 p = 50
    rw [hp52]
  · show 52 - popW 52 (p ||| 65535) = 34
    rw [blocked_zero] at h4
    rw [popW_or_disjoint 52 p 65535 h4, hp52]
    decide +kernel

theorem boards_length (short : Bool) (n p : Nat) (hn : 1 ≤ n) (hn64 : n < 64) (hp : p ∈ hands short 2 0) :
    handsOfHand short n p = hands short n p ∧
    (hands short n p).length = Nat.choose (if short then 34 else 50) n := by
  obtain ⟨_, h2, _, _⟩ := mem_pockets short p hp
  refine ⟨(hands_eq_handsOfHand short n p h2).symm, ?_⟩
  rw [C06_hands_count short n p hn hn64, nFree_pocket short p hp]

theorem length_flatMap_const {α β : Type} (l : List α) (f : α → List β) (c : Nat)
    (h : ∀ a ∈ l, (f a).length = c) : (l.flatMap f).length = l.length * c := by
  induction l with
  | nil => simp
  | cons a t ih =>
    rw [List.flatMap_cons, List.length_append, h a (List.mem_cons_self ..),
      ih (fun b hb => h b (List.mem_cons_of_mem _ hb)), List.length_cons]
    ring

theorem flatMap_congr' {α β : Type} (l : List α) (f g : α → List β) (h : ∀ a ∈ l, f a = g a) :
    l.flatMap f = l.flatMap g := by
  induction l with
  | nil => rfl
  | cons a t ih =>
    rw [List.flatMap_cons, List.flatMap_cons, h a (List.mem_cons_self ..),
      ih (fun b hb => h b (List.mem_cons_of_mem _ hb))]

theorem pockets_length (short : Bool) : (hands short 2 0).length = if short then 630 else 1326 := by
  rw [C06_hands_count short 2 0 (by omega) (by omega)]
  cases short <;> decide +kernel

/-- streets with a board: flop, turn, river -/
def boardStreet (street : Nat) : Prop := street = 1 ∨ street = 2 ∨ street = 3

theorem nObserved_board (street : Nat) (h : boardStreet street) :
    1 ≤ nObserved street ∧ nObserved street ≤ 5 := by
  rcases h with rfl | rfl | rfl <;> decide

/-- **C06_observations** (flop, turn, river): the stateful iterator — primed first pocket, inner
board iterator rebuilt for every pocket — yields exactly
`for p in hands(2, ∅) { for b in hands(n, p) { (p, b) } }`, in that order. -/
theorem C06_observations (short : Bool) (street : Nat) (hs : boardStreet street) :
    Hands.observations short street =
      (hands short 2 0).flatMap (fun p => (hands short (nObserved street) p).map (fun b => (p, b))) := by
  obtain ⟨hn1, hn5⟩ := nObserved_board street hs
  have hs0 : street ≠ 0 := by rcases hs with h | h | h <;> omega
  generalize hn : nObserved street = n at *
  have hfirst := outer_first short
  have hg0 : Good short 2 (HandIter.init short 2 0) := good_init short 2 0 (by omega) (by omega) (by decide)
  have hpk : hands short 2 0 = obsStart short :: handsFrom short (HandIter.init short 2 0).advance := by
    rw [hands_two_zero]
    rcases good_step short 2 (by omega) _ hg0 with ⟨h1, _⟩ | ⟨x, s', h1, _, h3⟩
    · rw [hfirst] at h1; exact absurd h1 (by simp)
    · rw [hfirst] at h1
      simp only [Option.some.injEq, Prod.mk.injEq] at h1
      rw [h3, ← h1.1, ← h1.2]
  have hgo : Good short 2 (HandIter.init short 2 0).advance := by
    rcases good_step short 2 (by omega) _ hg0 with ⟨h1, _⟩ | ⟨x, s', h1, h2, _⟩
    · rw [hfirst] at h1; exact absurd h1 (by simp)
    · rw [hfirst] at h1
      simp only [Option.some.injEq, Prod.mk.injEq] at h1
      rw [h1.2]; exact h2
  have hstart : obsStart short < 2^52 := by cases short <;> decide +kernel
  -- the initial state
  have hinit : ObsIter.init short street =
      { street := street, pocket := obsStart short, outer := (HandIter.init short 2 0).advance,
        inner := HandIter.init short n (obsStart short) } := by
    unfold ObsIter.init
    simp only [hs0, if_false, hn, show RP.Gen.C06.pocketSize = 2 from rfl, hfirst]
  -- every pocket has boards
  have hboards : ∀ p ∈ hands short 2 0,
      handsOfHand short n p = hands short n p ∧ (hands short n p).length = Nat.choose (if short then 34 else 50) n :=
    fun p hp => boards_length short n p hn1 (by omega) hp
  have hpos : 0 < Nat.choose (if short then 34 else 50) n := by
    apply Nat.choose_pos; cases short <;> simp <;> omega
  have hrest : obsRest short n (ObsIter.init short street) =
      (hands short 2 0).flatMap (fun p => (hands short n p).map (fun b => (p, b))) := by
    rw [hinit]
    simp only [obsRest]
    conv => rhs; rw [hpk, List.flatMap_cons]
    have h0 := (hboards (obsStart short) (by rw [hpk]; exact List.mem_cons_self ..)).1
    have : handsFrom short (HandIter.init short n (obsStart short)) = hands short n (obsStart short) := h0
    rw [this]
    congr 1
    apply flatMap_congr'
    intro p hp
    rw [(hboards p (by rw [hpk]; exact List.mem_cons_of_mem _ hp)).1]
  have hlen : (obsRest short n (ObsIter.init short street)).length < OBS_FUEL := by
    rw [hrest, length_flatMap_const _ _ (Nat.choose (if short then 34 else 50) n)
      (fun p hp => by rw [List.length_map]; exact (hboards p hp).2), pockets_length]
    have hc : Nat.choose (if short then 34 else 50) n ≤ 2^22 := by
      have h50 : (if short then 34 else 50) ≤ 50 := by cases short <;> simp
      calc Nat.choose (if short then 34 else 50) n ≤ Nat.choose 50 n := Nat.choose_le_choose n h50
        _ ≤ 2^22 := by
          have : n = 1 ∨ n = 2 ∨ n = 3 ∨ n = 4 ∨ n = 5 := by omega
          rcases this with rfl | rfl | rfl | rfl | rfl <;> decide +kernel
    have hl : (if short then 630 else 1326) ≤ 2^11 := by cases short <;> decide
    show _ < 2^62
    calc (if short then 630 else 1326) * Nat.choose (if short then 34 else 50) n
        ≤ 2^11 * 2^22 := Nat.mul_le_mul hl hc
      _ < 2^62 := by decide
  unfold Hands.observations
  rw [obs_unfold short n hn1 (by omega) OBS_FUEL (ObsIter.init short street)
    (by rw [hinit]; exact hs0) (by rw [hinit]; exact hn)
    (by rw [hinit]; exact good_init short n _ hn1 (by omega) hstart)
    (by rw [hinit]; exact hgo) ?_ hlen, hrest]
  intro p hp
  rw [hinit] at hp
  have hp' : p ∈ hands short 2 0 := by rw [hpk]; exact List.mem_cons_of_mem _ hp
  refine ⟨(mem_pockets short p hp').1, ?_⟩
  intro hnil
  have := (hboards p hp').2
  rw [← (hboards p hp').1, hnil] at this
  simp at this; omega

/-- **C06_observations_pref**: pre-flop the inner iterator is a `k = 0` iterator, which never
yields (KF-C06-k0 is what makes this work); every pocket comes out once with an empty board. -/
theorem C06_observations_pref (short : Bool) :
    Hands.observations short 0 = (hands short 2 0).map (fun p => (p, 0)) := by
  have hg0 : Good short 2 (HandIter.init short 2 0) := good_init short 2 0 (by omega) (by omega) (by decide)
  have hinit : ObsIter.init short 0 =
      { street := 0, pocket := obsStart short, outer := HandIter.init short 2 0,
        inner := HandIter.init short 0 (obsStart short) } := by
    unfold ObsIter.init
    simp only [if_true, show RP.Gen.C06.pocketSize = 2 from rfl, show nObserved 0 = 0 from rfl]
  unfold Hands.observations
  rw [obs_unfold_pref short OBS_FUEL (ObsIter.init short 0) (by rw [hinit]) (by rw [hinit]; exact init_zero_next short _)
    (by rw [hinit]; exact hg0) ?_, hinit, hands_two_zero]
  rw [hinit]
  show (handsFrom short (HandIter.init short 2 0)).length < 2^62
  rw [← hands_two_zero, pockets_length]
  cases short <;> decide

/-! ## the observations against the specification; the published counts -/

theorem effMask_eq_or (short : Bool) (p : Nat) : effMask short p = p ||| blocked short 0 := by
  rw [blocked_zero]; unfold effMask
  cases short
  · simp
  · rfl

theorem blocked_of_deck_hand (short : Bool) (p : Nat) (hp : handOf short p = p) :
    blocked short p = p ||| blocked short 0 := by
  unfold blocked; rw [hp, effMask_eq_or]; rfl

/-- **C06_observations_spec**: on every street the iterator yields exactly the specification list:
every pocket of the deck in increasing order and, for each, every board avoiding it in increasing
order — each legal (pocket, board) combination exactly once. Pre-flop included (one empty board). -/
theorem C06_observations_spec (short : Bool) (street : Nat) (hs : street ≤ 3) :
    Hands.observations short street = Spec.observations 52 (blocked short 0) (nObserved street) := by
  unfold Spec.observations
  have hpk := C06_hands_complete short 2 0 (by omega) (by omega)
  by_cases h0 : street = 0
  · subst h0
    rw [C06_observations_pref, hpk]
    show _ = List.flatMap (fun p => List.map (fun b => (p, b)) [0]) _
    generalize ksubsets 52 2 (blocked short 0) = l
    induction l with
    | nil => rfl
    | cons a t ih => simp only [List.map_cons, List.flatMap_cons, List.map_nil, List.singleton_append, ih]
  · have hb : boardStreet street := by unfold boardStreet; omega
    obtain ⟨hn1, hn5⟩ := nObserved_board street hb
    rw [C06_observations short street hb]
    conv => rhs; rw [← hpk]
    apply flatMap_congr'
    intro p hp
    obtain ⟨_, h2, _, _⟩ := mem_pockets short p hp
    rw [C06_hands_complete short _ p hn1 (by omega), blocked_of_deck_hand short p h2]

theorem ksubsets_spec_mem (w m0 n p b : Nat) :
    (p, b) ∈ Spec.observations w m0 n ↔
      (p < 2^w ∧ popW w p = 2 ∧ p &&& m0 = 0) ∧ (b < 2^w ∧ popW w b = n ∧ b &&& (p ||| m0) = 0) := by
  unfold Spec.observations
  simp only [List.mem_flatMap, List.mem_map, Prod.mk.injEq]
  constructor
  · rintro ⟨p', hp', b', hb', rfl, rfl⟩
    exact ⟨(mem_ksubsets _ _ _ _).mp hp', (mem_ksubsets _ _ _ _).mp hb'⟩
  · rintro ⟨hp, hb⟩
    exact ⟨p, (mem_ksubsets _ _ _ _).mpr hp, b, (mem_ksubsets _ _ _ _).mpr hb, rfl, rfl⟩

/-- every legal combination of a 2-card pocket and an `n`-card board (cards of the deck, disjoint)
is among the observations of the street — with `C06_observations_spec` and the strict order of the
specification lists: exactly once -/
theorem C06_observations_complete (short : Bool) (street p b : Nat) (hs : street ≤ 3) :
    (p, b) ∈ Hands.observations short street ↔
      (p < 2^52 ∧ popW 52 p = 2 ∧ p &&& blocked short 0 = 0) ∧
      (b < 2^52 ∧ popW 52 b = nObserved street ∧ b &&& (p ||| blocked short 0) = 0) := by
  rw [C06_observations_spec short street hs, ksubsets_spec_mem]

def nObservationsTable (short : Bool) : List Nat :=
  if short then RP.Gen.n_observations_Short else RP.Gen.n_observations_Std
def nChildrenTable (short : Bool) : List Nat :=
  if short then RP.Gen.n_children_Short else RP.Gen.n_children_Std
def nIsomorphismsTable (short : Bool) : List Nat :=
  if short then RP.Gen.n_isomorphisms_Short else RP.Gen.n_isomorphisms_Std
/-- cards in the deck -/
def deckSize (short : Bool) : Nat := if short then 36 else 52

/-- the published `Street::n_observations` are `C(N,2)·C(N−2,n)` and `Street::n_children`
are `C(N−2−n, revealed)`, for both decks (generated tables) -/
theorem C06_count_tables (short : Bool) :
    (∀ street, street ≤ 3 → (nObservationsTable short).getD street 0
        = Nat.choose (deckSize short) 2 * Nat.choose (deckSize short - 2) (nObserved street)) ∧
    (∀ street, street < 3 → (nChildrenTable short).getD street 0
        = Nat.choose (deckSize short - 2 - nObserved street) (nRevealed street)) := by
  cases short <;> decide +kernel

/-- **C06_observations_count**: the iterator yields exactly `Street::n_observations()` items -/
theorem C06_observations_count (short : Bool) (street : Nat) (hs : street ≤ 3) :
    (Hands.observations short street).length = (nObservationsTable short).getD street 0 := by
  by_cases h0 : street = 0
  · subst h0
    rw [C06_observations_pref, List.length_map, pockets_length]
    cases short <;> rfl
  · have hb : boardStreet street := by unfold boardStreet; omega
    obtain ⟨hn1, hn5⟩ := nObserved_board street hb
    rw [C06_observations short street hb,
      length_flatMap_const _ _ (Nat.choose (if short then 34 else 50) (nObserved street))
        (fun p hp => by rw [List.length_map]; exact (boards_length short _ p hn1 (by omega) hp).2),
      pockets_length]
    rcases hb with rfl | rfl | rfl <;> cases short <;> decide +kernel

/-! ## ① `Observation::children` -/

theorem and_or_zero {x y z : Nat} (h : x &&& (y ||| z) = 0) : x &&& y = 0 ∧ x &&& z = 0 := by
  rw [Nat.and_or_distrib_left, Nat.or_eq_zero_iff] at h; exact h

/-- **C06_children**: for a legal observation before the river (2-card pocket of the deck, the
street's board avoiding it) `children` yields, in increasing order of the revealed cards, the
observation extended by every `n_revealed`-subset of the cards not yet seen — exactly once each —
and there are `Street::n_children()` of them. (On the river the code panics: `children = none`.) -/
theorem C06_children (short : Bool) (street pocket board : Nat) (hst : street < 3)
    (hp : IsHand short 2 0 pocket) (hb : IsHand short (nObserved street) pocket board) :
    children short pocket board =
      some ((ksubsets 52 (nRevealed street) (blocked short (pocket ||| board))).map
        (fun r => (pocket, board ||| r))) ∧
    (ksubsets 52 (nRevealed street) (blocked short (pocket ||| board))).length
      = (nChildrenTable short).getD street 0 := by
  have hp' := (isHand_iff short 2 0 pocket).mp hp
  have hb' := (isHand_iff short _ pocket board).mp hb
  have hdisj : pocket &&& board = 0 := by rw [Nat.and_comm]; exact hb.2.1
  have hdeck : handOf short (pocket ||| board) = pocket ||| board := by
    unfold handOf
    rw [Nat.and_or_distrib_right, hp.2.2, hb.2.2]
  have hr1 : 1 ≤ nRevealed street := by
    have : street = 0 ∨ street = 1 ∨ street = 2 := by omega
    rcases this with rfl | rfl | rfl <;> decide
  have hr64 : nRevealed street < 64 := by
    have : street = 0 ∨ street = 1 ∨ street = 2 := by omega
    rcases this with rfl | rfl | rfl <;> decide
  have hsz : streetOfSize (popW 64 board) = some street := by
    rw [hb.1]
    have : street = 0 ∨ street = 1 ∨ street = 2 := by omega
    rcases this with rfl | rfl | rfl <;> decide
  refine ⟨?_, ?_⟩
  · unfold children
    simp only [hsz]
    rw [if_neg (by omega), if_neg (by simpa using hdisj)]
    rw [← hands_eq_handsOfHand short _ _ hdeck, C06_hands_complete short _ _ hr1 hr64]
  · rw [length_ksubsets]
    -- the number of unseen cards
    have hS : pocket &&& blocked short 0 = 0 := hp'.2.1
    have hbS : board &&& blocked short 0 = 0 := by
      have := hb'.2.1
      rw [blocked_of_deck_hand short pocket hp.2.2] at this
      exact (and_or_zero this).2
    have hblk : blocked short (pocket ||| board) = (pocket ||| board) ||| blocked short 0 :=
      blocked_of_deck_hand short _ hdeck
    have hpop : popW 52 (blocked short (pocket ||| board)) = 2 + nObserved street + popW 52 (blocked short 0) := by
      rw [hblk, popW_or_disjoint _ _ _ (by rw [Nat.and_or_distrib_right, hS, hbS]; rfl),
        popW_or_disjoint _ _ _ hdisj]
      rw [← popW_eq_of_lt hp'.2.2 (by omega : 52 ≤ 64), ← popW_eq_of_lt hb'.2.2 (by omega : 52 ≤ 64),
        hp.1, hb.1]
    rw [hpop, blocked_zero]
    have : street = 0 ∨ street = 1 ∨ street = 2 := by omega
    rcases this with rfl | rfl | rfl <;> cases short <;> decide +kernel

/-- on the river `children` panics in the code (`n_revealed` of the terminal street) -/
theorem C06_children_river (short : Bool) (pocket board : Nat) (h : popW 64 board = 5) :
    children short pocket board = none := by
  unfold children
  have : streetOfSize (popW 64 board) = some 3 := by rw [h]; decide
  simp only [this]
  rfl

/-! ## ① `IsomorphismIterator` = the observations filtered by `is_canonical` -/

/-- `st` yields exactly the list `L` and then `None` -/
inductive Yields (short : Bool) : ObsIter → List (Nat × Nat) → Prop
  | nil (st) : ObsIter.step short st = none → Yields short st []
  | cons (st o st' L) : ObsIter.step short st = some (o, st') → Yields short st' L → Yields short st (o :: L)

theorem yields_of_unfold (short : Bool) : ∀ F st, (unfold (ObsIter.step short) F st).length < F →
    Yields short st (unfold (ObsIter.step short) F st) := by
  intro F
  induction F with
  | zero => intro st h; omega
  | succ F ih =>
    intro st h
    simp only [unfold] at h ⊢
    cases hs : ObsIter.step short st with
    | none => simp only []; exact Yields.nil st hs
    | some p =>
      obtain ⟨o, st'⟩ := p
      rw [hs] at h
      simp only [List.length_cons] at h ⊢
      exact Yields.cons st o st' _ hs (ih st' (by omega))

theorem isoStep_spec (short : Bool) (canon : Nat → Nat → Bool) (st : ObsIter) (L : List (Nat × Nat))
    (hy : Yields short st L) : ∀ f2, L.length < f2 →
    (isoStep short canon f2 st = none ∧ L.filter (fun o => canon o.1 o.2) = []) ∨
    (∃ o st' L', isoStep short canon f2 st = some (o, st') ∧ Yields short st' L' ∧ L'.length < L.length ∧
      L.filter (fun o => canon o.1 o.2) = o :: L'.filter (fun o => canon o.1 o.2)) := by
  induction hy with
  | nil st hs =>
    intro f2 hf
    obtain ⟨f, rfl⟩ : ∃ f, f2 = f + 1 := ⟨f2 - 1, by simp at hf; omega⟩
    left; simp only [isoStep, hs]; exact ⟨trivial, rfl⟩
  | cons st o st' L hs hy' ih =>
    intro f2 hf
    obtain ⟨f, rfl⟩ : ∃ f, f2 = f + 1 := ⟨f2 - 1, by omega⟩
    simp only [List.length_cons] at hf
    by_cases hc : canon o.1 o.2 = true
    · right
      refine ⟨o, st', L, by simp only [isoStep, hs, hc, if_true], hy', by simp, ?_⟩
      rw [List.filter_cons, if_pos hc]
    · have hstep : isoStep short canon (f+1) st = isoStep short canon f st' := by
        simp only [isoStep, hs, hc]; rfl
      have hfil : (o :: L).filter (fun o => canon o.1 o.2) = L.filter (fun o => canon o.1 o.2) := by
        rw [List.filter_cons, if_neg hc]
      rw [hstep, hfil]
      rcases ih f (by omega) with h | ⟨o2, st2, L2, h1, h2, h3, h4⟩
      · exact Or.inl h
      · exact Or.inr ⟨o2, st2, L2, h1, h2, by simp only [List.length_cons]; omega, h4⟩

theorem iso_unfold (short : Bool) (canon : Nat → Nat → Bool) :
    ∀ n st L, L.length ≤ n → Yields short st L → ∀ fuel f2, L.length < fuel → L.length < f2 →
      unfold (isoStep short canon f2) fuel st = L.filter (fun o => canon o.1 o.2) := by
  intro n
  induction n with
  | zero =>
    intro st L hl hy fuel f2 hf hf2
    obtain ⟨g, rfl⟩ : ∃ g, fuel = g + 1 := ⟨fuel - 1, by omega⟩
    simp only [unfold]
    rcases isoStep_spec short canon st L hy f2 hf2 with ⟨h1, h2⟩ | ⟨o, st', L', _, _, h3, _⟩
    · rw [h1, h2]
    · omega
  | succ n ih =>
    intro st L hl hy fuel f2 hf hf2
    obtain ⟨g, rfl⟩ : ∃ g, fuel = g + 1 := ⟨fuel - 1, by omega⟩
    simp only [unfold]
    rcases isoStep_spec short canon st L hy f2 hf2 with ⟨h1, h2⟩ | ⟨o, st', L', h1, h2, h3, h4⟩
    · rw [h1, h2]
    · rw [h1, h4]
      simp only [List.cons.injEq, true_and]
      exact ih st' L' (by omega) h2 g f2 (by omega) (by omega)

/-- **C06_isomorphisms_filter**: `IsomorphismIterator` yields exactly the observations of the
street that satisfy `is_canonical`, in the order of the observation iterator (the canonicity
predicate is a parameter; its model and theorems belong to C05). -/
theorem C06_isomorphisms_filter (short : Bool) (canon : Nat → Nat → Bool) (street : Nat) (hs : street ≤ 3) :
    isomorphisms short canon street = (Hands.observations short street).filter (fun o => canon o.1 o.2) := by
  have hlen : (Hands.observations short street).length < OBS_FUEL := by
    rw [C06_observations_count short street hs]
    have : street = 0 ∨ street = 1 ∨ street = 2 ∨ street = 3 := by omega
    rcases this with rfl | rfl | rfl | rfl <;> cases short <;> decide +kernel
  have hy := yields_of_unfold short OBS_FUEL (ObsIter.init short street) hlen
  exact iso_unfold short canon _ _ _ (Nat.le_refl _) hy OBS_FUEL OBS_FUEL hlen hlen

/-- **C06_one_per_class** (corollary of C05's theorems, taken here as hypotheses about an
equivalence `r` "same up to suit relabeling" and a canonical-form function): if every legal
observation is equivalent to its canonical form, which is again legal, equivalent observations have
equal canonical forms, and `is_canonical o ↔ canon o = o`, then every legal observation of the
street has exactly one representative among the yielded isomorphism classes. -/
theorem C06_one_per_class (short : Bool) (street : Nat) (hs : street ≤ 3)
    (isCanonical : Nat → Nat → Bool) (canon : Nat × Nat → Nat × Nat) (r : Nat × Nat → Nat × Nat → Prop)
    (canon_legal : ∀ o ∈ Hands.observations short street, canon o ∈ Hands.observations short street)
    (canon_rel : ∀ o ∈ Hands.observations short street, r o (canon o))
    (canon_inv : ∀ a b, a ∈ Hands.observations short street → b ∈ Hands.observations short street →
      r a b → canon a = canon b)
    (canonical_iff : ∀ o, isCanonical o.1 o.2 = true ↔ canon o = o)
    (o : Nat × Nat) (ho : o ∈ Hands.observations short street) :
    ∃ c, (c ∈ isomorphisms short isCanonical street ∧ r o c) ∧
      ∀ c', c' ∈ isomorphisms short isCanonical street → r o c' → c' = c := by
  rw [C06_isomorphisms_filter short isCanonical street hs]
  have hco := canon_legal o ho
  have hidem : canon (canon o) = canon o := (canon_inv o (canon o) ho hco (canon_rel o ho)).symm
  refine ⟨canon o, ⟨?_, canon_rel o ho⟩, ?_⟩
  · rw [List.mem_filter]
    exact ⟨hco, by simpa using (canonical_iff (canon o)).mpr hidem⟩
  · intro c' hc' hr
    rw [List.mem_filter] at hc'
    have h1 : canon c' = c' := (canonical_iff c').mp (by simpa using hc'.2)
    rw [← h1]
    exact (canon_inv o c' ho hc'.1 hr).symm

-- non-vacuity: five free cards {0,3,4,5,6} of the standard deck, k = 2 (the walk visits all C(52,2) words)
example : hands false 2 (2^52 - 1 - 0b1111001) = [9, 17, 24, 33, 40, 48, 65, 72, 80, 96] := by decide +kernel
example : ksubsets 52 2 (blocked false (2^52 - 1 - 0b1111001)) = [9, 17, 24, 33, 40, 48, 65, 72, 80, 96] := by decide +kernel
example : nFree false (2^52 - 1 - 0b1111001) = 5 ∧ Nat.choose 5 2 = 10 := by decide +kernel
-- short deck: single cards start at 6c (bit 16); 36 cards
example : (hands true 1 0).head? = some 0x10000 ∧ (hands true 1 0).length = 36 := by decide +kernel
example : nFree true 0 = 36 ∧ nFree false 0 = 52 := by decide +kernel
example : hands false 0 0 = [] ∧ ksubsets 52 0 0 = [0] := by decide +kernel

