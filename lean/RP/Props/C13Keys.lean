import RP.Props.C13
import RP.Props.C15
/-! # C13 ∘ C15 — the pair keys `Layer::metric` uses are collision-free for the real layers

`RP.Transport.absCode` (C12/C13 model: `variant · 2^64 + bits`) and `RP.Codec.absOf` (C15 model:
`⟨variant, bits⟩`) describe the same `Abstraction::from((street, index))`; their `bits` coincide, hence
so do the XOR pair keys. `RP.C15.C15_pair_keys_distinct_within` then discharges the hypothesis
`layerKeys.Nodup` of `C13_metric_entries` for the preflop (169, `C15_pair_keys_distinct_pref`), flop (128), turn (144) and river (101) bucket sets
(bucket counts are the generated constants `RP.Codec.nAbstractions`). -/
namespace RP.C13
open RP.Transport RP.Kmeans

/-- the `u64` of the C12/C13 abstraction code is the `bits` field of the C15 abstraction -/
theorem bitsOf_absCode (s i : Nat) (hs : s < 4) (hi : i < 2 ^ 64) :
    bitsOf (absCode s i) = (RP.Codec.absOf s i).bits := by
  have hL : RP.Gen.absL < 2 ^ 64 := by decide
  have hM : RP.Gen.absM < 2 ^ 64 := by decide
  have hH : RP.Gen.absH < 2 ^ 64 := by decide
  have hbits : (RP.Codec.absOf s i).bits < 2 ^ 64 := by
    simp only [RP.Codec.absOf]
    apply Nat.or_lt_two_pow
    · apply Nat.or_lt_two_pow
      · exact Nat.lt_of_le_of_lt Nat.and_le_left hL
      · exact Nat.lt_of_le_of_lt Nat.and_le_left hM
    · exact Nat.lt_of_le_of_lt Nat.and_le_left hH
  have hcode : absCode s i = (RP.Gen.C12.variantOfStreet.getD s 2) * 2 ^ 64 + (RP.Codec.absOf s i).bits := by
    have hu : i % 2 ^ 64 = i := Nat.mod_eq_of_lt hi
    have hsL : RP.Codec.absLbits = RP.Gen.C12.shiftL := by decide
    have hsH : RP.Codec.absHshift = RP.Gen.C12.shiftH := by decide
    have hst : RP.Codec.streetU8 s = s := by
      have : s = 0 ∨ s = 1 ∨ s = 2 ∨ s = 3 := by omega
      rcases this with rfl | rfl | rfl | rfl <;> rfl
    have hsmall : s <<< RP.Gen.C12.shiftL % 2 ^ 64 = s <<< RP.Gen.C12.shiftL := by
      have : s = 0 ∨ s = 1 ∨ s = 2 ∨ s = 3 := by omega
      rcases this with rfl | rfl | rfl | rfl <;> decide
    simp only [absCode, Transport.signature, W64, RP.Codec.absOf, RP.Codec.signature, hsL, hsH, hst,
      RP.Codec.u64, hu, hsmall]
  unfold bitsOf W64
  rw [hcode, Nat.mul_add_mod_self_right, Nat.mod_eq_of_lt hbits]

/-- the key `Layer::metric` files a pair under is C15's pair key of the two abstractions -/
theorem keyOf_eq_codec (s i j : Nat) (hs : s < 4) (hi : i < 2 ^ 64) (hj : j < 2 ^ 64) :
    keyOf s i j = RP.Codec.pairKey (RP.Codec.absOf s i) (RP.Codec.absOf s j) := by
  have hop : RP.Gen.C15.pairOp = 0 := rfl
  simp only [keyOf, Transport.pairKey, bitsOf_absCode s i hs hi, bitsOf_absCode s j hs hj,
    RP.Codec.pairKey, hop, RP.Codec.absToU64]

/-! ### `layerKeys` has no duplicates when the keys are injective on the pairs `j < i < K` -/

theorem mem_rowKeys (s i : Nat) (j0 n k : Nat) :
    k ∈ rowKeys s i j0 n ↔ ∃ j, j0 ≤ j ∧ j < j0 + n ∧ j < i ∧ k = keyOf s i j := by
  induction n generalizing j0 with
  | zero => simp [rowKeys]; intro j h1 h2; omega
  | succ n ih =>
    simp only [rowKeys, List.mem_append, ih]
    constructor
    · rintro (h | ⟨j, h1, h2, h3, h4⟩)
      · split at h
        · simp only [List.mem_singleton] at h
          exact ⟨j0, by omega, by omega, by omega, h⟩
        · cases h
      · exact ⟨j, by omega, by omega, h3, h4⟩
    · rintro ⟨j, h1, h2, h3, h4⟩
      by_cases hj : j = j0
      · subst hj; left; simp [h3, h4]
      · right; exact ⟨j, by omega, by omega, h3, h4⟩

theorem mem_allKeys (s K : Nat) (i0 n k : Nat) :
    k ∈ allKeys s K i0 n ↔ ∃ i j, i0 ≤ i ∧ i < i0 + n ∧ j < K ∧ j < i ∧ k = keyOf s i j := by
  induction n generalizing i0 with
  | zero => simp [allKeys]; intro i h1 h2; omega
  | succ n ih =>
    simp only [allKeys, List.mem_append, ih, mem_rowKeys]
    constructor
    · rintro (⟨j, _, h2, h3, h4⟩ | ⟨i, j, h1, h2, h3, h4, h5⟩)
      · exact ⟨i0, j, by omega, by omega, by omega, h3, h4⟩
      · exact ⟨i, j, by omega, by omega, h3, h4, h5⟩
    · rintro ⟨i, j, h1, h2, h3, h4, h5⟩
      by_cases hi : i = i0
      · subst hi; left; exact ⟨j, by omega, by omega, h4, h5⟩
      · right; exact ⟨i, j, by omega, by omega, h3, h4, h5⟩

theorem rowKeys_nodup (s i : Nat) (j0 n : Nat)
    (hinj : ∀ j j', j < i → j' < i → keyOf s i j = keyOf s i j' → j = j') : (rowKeys s i j0 n).Nodup := by
  induction n generalizing j0 with
  | zero => simp [rowKeys]
  | succ n ih =>
    simp only [rowKeys]
    rw [List.nodup_append]
    refine ⟨by split <;> simp, ih (j0 + 1), ?_⟩
    intro a ha b hb
    split at ha
    · simp only [List.mem_singleton] at ha
      obtain ⟨j, h1, _, h3, h4⟩ := (mem_rowKeys s i (j0 + 1) n b).mp hb
      intro hab
      have := hinj j0 j (by omega) h3 (by rw [← ha, hab, h4])
      omega
    · cases ha

theorem layerKeys_nodup (s K : Nat)
    (hinj : ∀ i j i' j', j < i → i < K → j' < i' → i' < K → keyOf s i j = keyOf s i' j' → i = i' ∧ j = j') :
    (layerKeys s K).Nodup := by
  unfold layerKeys
  suffices h : ∀ n i0, i0 + n ≤ K → (allKeys s K i0 n).Nodup from h K 0 (by omega)
  intro n
  induction n with
  | zero => intro i0 _; simp [allKeys]
  | succ n ih =>
    intro i0 hK
    simp only [allKeys]
    rw [List.nodup_append]
    refine ⟨?_, ih (i0 + 1) (by omega), ?_⟩
    · exact rowKeys_nodup s i0 0 K fun j j' hj hj' h => (hinj i0 j i0 j' hj (by omega) hj' (by omega) h).2
    · intro a ha b hb hab
      obtain ⟨j, _, _, h3, h4⟩ := (mem_rowKeys s i0 0 K a).mp ha
      obtain ⟨i', j', g1, g2, _, g4, g5⟩ := (mem_allKeys s K (i0 + 1) n b).mp hb
      have := (hinj i0 j i' j' h3 (by omega) g4 (by omega) (by rw [← h4, hab, g5])).1
      omega

/-- **collision-free keys for the real bucket sets** (from C15): for the preflop (`s = 0`, 169 classes
kept as centroids), flop (`s = 1`, 128 buckets), turn (`s = 2`, 144) and river (`s = 3`, 101) sets, and
any number of centroids up to the bucket count, the keys `Layer::metric` inserts are pairwise distinct. -/
theorem layerKeys_nodup_real (s K : Nat) (hs4 : s < 4) (hK : K ≤ RP.Codec.nAbstractions s) :
    (layerKeys s K).Nodup := by
  have hn : RP.Codec.nAbstractions s ≤ 256 := by
    have : s = 0 ∨ s = 1 ∨ s = 2 ∨ s = 3 := by omega
    rcases this with rfl | rfl | rfl | rfl <;> decide
  apply layerKeys_nodup
  intro i j i' j' hj hi hj' hi' h
  rw [keyOf_eq_codec s i j hs4 (by omega) (by omega), keyOf_eq_codec s i' j' hs4 (by omega) (by omega),
    RP.C15.C15_pair_symmetric (RP.Codec.absOf s i), RP.C15.C15_pair_symmetric (RP.Codec.absOf s i')] at h
  have := RP.C15.C15_pair_keys_distinct_within4 s j i j' i' hs4 hj (by omega) hj' (by omega) h
  exact ⟨this.2, this.1⟩

/-- **`C13_metric_entries_real`** — unconditional form of `C13_metric_entries` for the real layers:
    on every street (preflop included) with at most `street.k()` (= generated cluster count / 169
    preflop classes) centroids the map `Layer::metric` builds has exactly `K(K−1)/2` entries, strictly
    increasing keys, and under the key of each pair `j < i` the symmetrised distance. -/
theorem C13_metric_entries_real {κ α : Type} [Arith α] (s : Nat) (hs : s < 4)
    (emd : κ → κ → α) (kmeans : List κ) (hK : kmeans.length ≤ RP.Codec.nAbstractions s) :
    2 * (metricRaw s emd kmeans).length = kmeans.length * (kmeans.length - 1) ∧
    SortedKeys (metricRaw s emd kmeans) ∧
    ∀ i j x y, kmeans[i]? = some x → kmeans[j]? = some y → j < i →
      (metricRaw s emd kmeans).lookup (keyOf s i j) = some (symDist emd x y) :=
  C13_metric_entries s emd kmeans (layerKeys_nodup_real s kmeans.length hs hK)

/-- the bucket counts are the generated cluster counts -/
example : RP.Codec.nAbstractions 1 = RP.Gen.KMEANS_FLOP_CLUSTER_COUNT ∧
    RP.Codec.nAbstractions 2 = RP.Gen.KMEANS_TURN_CLUSTER_COUNT ∧
    RP.Codec.nAbstractions 3 = RP.Gen.KMEANS_EQTY_CLUSTER_COUNT := ⟨rfl, rfl, rfl⟩

/-- non-vacuity: a full turn layer of 144 centroids has 144·143/2 = 10296 entries -/
example (emd : Nat → Nat → ℝ) : 2 * (metricRaw 2 emd (List.range 144)).length = 144 * 143 :=
  (C13_metric_entries_real 2 (by decide) emd (List.range 144)
    (by rw [List.length_range]; decide)).1.trans (by rw [List.length_range])

/-- non-vacuity for the preflop layer: 169 centroids give 169·168/2 = 14196 entries -/
example (emd : Nat → Nat → ℝ) : 2 * (metricRaw 0 emd (List.range 169)).length = 169 * 168 :=
  (C13_metric_entries_real 0 (by decide) emd (List.range 169)
    (by rw [List.length_range]; decide)).1.trans (by rw [List.length_range])

end RP.C13
