import RP.Model.Discount
import RP.Gen.C19
import Mathlib.Analysis.SpecialFunctions.Pow.Real
import Mathlib.Algebra.BigOperators.Intervals
import Mathlib.Algebra.Order.BigOperators.Ring.Finset
import Mathlib.Tactic.Linarith
import Mathlib.Tactic.FieldSimp
import Mathlib.Tactic.Ring
import Mathlib.Tactic.NormNum
/-! # C19 — Average strategy is a polynomially weighted mean; traversers alternate

Objects: `RP.Discount.regretAcc`, `policyAcc`, `weight`, `walker`, `next`, `phaseOf`
(models of `Profile::add_regret/add_policy/next/walker`, `Discount::policy/regret`, `Phase::from`,
`Memory::add_*`, `Strategy::weight`), instantiated with `ℝ` and `Real.rpow`; `γ, α, ω, period`, the
phase boundaries, the walker modulus and the epoch step are the generated values.

One epoch = one `add_regret`, one `add_policy` (both with the counter value `t` *before* `next()`),
then `next()`.  `regretAcc … t0 prior r k` / `policyAcc … t0 prior p k` are the stored values after
`k` epochs, counter started at `t0` with stored value `prior`.

Not covered (outside the property's quantifier, noted for the record): a bucket visited by several
trees in one epoch is discounted once per visit; a bucket not visited in an epoch is not discounted
for that epoch; `Profile::load` resets the counter to 0, so the first visit after a resume
multiplies the loaded average strategy by `0^γ = 0` (and a loaded regret by 0 if the added regret
is non-zero) — `C19_policy_closed_form` / `regret_factor_zero` with `t0 = 0` state exactly that. -/
namespace RP.C19
open RP.Arith RP.Discount Finset

/-! ## what the extractor read from the source -/

example : RP.Gen.C19.discountPolicy = "(tasf32/(tasf32+1.)).powf(self.gamma)" := rfl
example : RP.Gen.C19.discountRegret =
    "ift%self.period!=0{1.}elseifregret>0.{letx=(tasf32/self.periodasf32).powf(self.alpha);x/(x+1.)}elseifregret<0.{letx=(tasf32/self.periodasf32).powf(self.omega);x/(x+1.)}else{1.}" := rfl
example : RP.Gen.C19.phaseFrom =
    "matchepochs{eife<crate::CFR_DISCOUNT_PHASE=>Phase::Discount,eife<crate::CFR_PRUNNING_PHASE=>Phase::Explore,_=>Phase::Prune,}" := rfl
example : RP.Gen.C19.memoryAddRegret = "self.regret*=discount;self.regret+=value;" := rfl
example : RP.Gen.C19.memoryAddPolicy = "self.policy*=discount;self.policy+=value;" := rfl
example : RP.Gen.C19.profileAddRegret =
    "lett=self.epochs();letphase=self.phase();letdiscount=Discount::default();letstrategy=self.strategies.get_mut(bucket).expect(\"bucketbeenwitnessed\");for(action,&regret)inregrets.inner(){letdecision=strategy.get_mut(action).expect(\"actionbeenwitnessed\");letdiscount=matchphase{Phase::Discount=>discount.regret(t,regret),Phase::Explore=>1.,Phase::Prune=>1.,};decision.add_regret(discount,regret);}" := rfl
example : RP.Gen.C19.profileAddPolicy =
    "lett=self.epochs();letdiscount=Discount::default();letstrategy=self.strategies.get_mut(bucket).expect(\"bucketbeenwitnessed\");for(action,&policy)inpolicy.inner(){letdiscount=discount.policy(t);letdecision=strategy.get_mut(action).expect(\"actionbeenwitnessed\");decision.add_policy(discount,policy);}" := rfl
example : RP.Gen.C19.profilePhase = "Phase::from(self.epochs())" := rfl
example : RP.Gen.C19.strategyWeight =
    "letdenom=self.0.values().map(|s|s.policy()).sum::<Probability>();letnumer=self.0.get(edge).expect(\"edgeininfoset\").policy();numer/denom" := rfl

/-! ## the real instantiation -/

noncomputable def realOps : Ops ℝ where
  ofNat n := (n : ℝ)
  add a b := a + b
  mul a b := a * b
  div a b := a / b
  fmax a b := max a b
  fmin a b := min a b
  le a b := decide (a ≤ b)
  lt a b := decide (a < b)
  isNaN _ := false
  isInf _ := false
  sumSeed := 0

/-- `powf` over the reals -/
noncomputable def rpow : ℝ → ℝ → ℝ := fun x y => x ^ y

/-- `Discount::default()` over the reals -/
noncomputable def PR : Params ℝ := params realOps

/-- the generated parameters: `period = 1`, `γ = 2`, `α = 3/2`, `ω = 1/2` -/
theorem PR_period : PR.period = 1 := by decide
theorem PR_gamma : PR.gamma = 2 := by
  simp [PR, params, ofPair, realOps, RP.Gen.discount_gamma]
theorem PR_alpha : PR.alpha = 3 / 2 := by
  simp [PR, params, ofPair, realOps, RP.Gen.discount_alpha]
theorem PR_omega : PR.omega = 1 / 2 := by
  simp [PR, params, ofPair, realOps, RP.Gen.discount_omega]
theorem PR_gamma_ne : PR.gamma ≠ 0 := by rw [PR_gamma]; norm_num
theorem PR_period_pos : 0 < PR.period := by decide

/-- the discount factor of the average strategy at counter `u` -/
noncomputable def δ (u : ℕ) : ℝ := policyDiscount realOps rpow PR u
/-- the factor `add_regret` applies at counter `u` when the regret `r` is added -/
noncomputable def d (u : ℕ) (r : ℝ) : ℝ := regretFactor realOps rpow PR u r

theorem δ_eq (u : ℕ) : δ u = ((u : ℝ) / ((u : ℝ) + 1)) ^ PR.gamma := by
  simp [δ, policyDiscount, realOps, rpow]

/-! ## a linear recurrence and its closed form -/

/-- `a (k+1) = a k * f k + v k`, `a 0 = prior`  ⇒  prior·Π f + Σ_s v_s Π_{s<j<k} f_j -/
theorem linrec_closed (f v : ℕ → ℝ) (prior : ℝ) (a : ℕ → ℝ) (h0 : a 0 = prior)
    (hs : ∀ k, a (k + 1) = a k * f k + v k) (k : ℕ) :
    a k = prior * ∏ j ∈ range k, f j + ∑ s ∈ range k, v s * ∏ j ∈ Ico (s + 1) k, f j := by
  induction k with
  | zero => simp [h0]
  | succ k ih =>
    rw [hs, ih, prod_range_succ, sum_range_succ]
    have hsum : ∑ s ∈ range k, v s * ∏ j ∈ Ico (s + 1) (k + 1), f j
        = (∑ s ∈ range k, v s * ∏ j ∈ Ico (s + 1) k, f j) * f k := by
      rw [sum_mul]
      apply sum_congr rfl
      intro s hs'
      have : s + 1 ≤ k := by simpa [Nat.succ_le_iff] using mem_range.1 hs'
      rw [prod_Ico_succ_top this]; ring
    rw [hsum]
    simp only [Ico_self, prod_empty]
    ring

theorem regretAcc_succ (t0 : ℕ) (prior : ℝ) (r : ℕ → ℝ) (k : ℕ) :
    regretAcc realOps rpow PR t0 prior r (k + 1)
      = regretAcc realOps rpow PR t0 prior r k * d (t0 + k) (r k) + r k := by
  simp [regretAcc, regretStep, accumulate, realOps, d]

theorem policyAcc_succ (t0 : ℕ) (prior : ℝ) (p : ℕ → ℝ) (k : ℕ) :
    policyAcc realOps rpow PR t0 prior p (k + 1)
      = policyAcc realOps rpow PR t0 prior p k * δ (t0 + k) + p k := by
  simp [policyAcc, policyStep, accumulate, realOps, δ]

/-! ## regret: a combination with weights in (0,1], non-decreasing, one after the discount phase -/

/-- the weight of the regret added in the `s`-th epoch, seen after `k` epochs -/
noncomputable def w (t0 : ℕ) (r : ℕ → ℝ) (s k : ℕ) : ℝ := ∏ j ∈ Ico (s + 1) k, d (t0 + j) (r j)

/-- **C19 (regret), closed form**: `regret_T = prior·Π d + Σ_s r_s · w_s` -/
theorem C19_regret_closed_form (t0 : ℕ) (prior : ℝ) (r : ℕ → ℝ) (k : ℕ) :
    regretAcc realOps rpow PR t0 prior r k
      = prior * ∏ j ∈ range k, d (t0 + j) (r j) + ∑ s ∈ range k, r s * w t0 r s k :=
  linrec_closed (fun j => d (t0 + j) (r j)) r prior _ rfl (regretAcc_succ t0 prior r) k

theorem ratio_pos_lt_one {x : ℝ} (hx : 0 < x) : 0 < x / (x + 1) ∧ x / (x + 1) ≤ 1 := by
  have h1 : 0 < x + 1 := by linarith
  exact ⟨div_pos hx h1, (div_le_one h1).2 (by linarith)⟩

theorem ratio_eq (t : ℕ) (e : ℝ) :
    ratio realOps rpow PR t e = ((t : ℝ) / (PR.period : ℝ)) ^ e / (((t : ℝ) / (PR.period : ℝ)) ^ e + 1) := by
  simp [ratio, realOps, rpow]

/-- every factor applied from counter 1 on lies in `(0, 1]`, whatever the sign pattern -/
theorem d_pos_le_one {u : ℕ} (hu : 1 ≤ u) (r : ℝ) : 0 < d u r ∧ d u r ≤ 1 := by
  have hbase : (0 : ℝ) < (u : ℝ) / (PR.period : ℝ) := by
    apply div_pos
    · exact_mod_cast hu
    · exact_mod_cast PR_period_pos
  have one : (0 : ℝ) < 1 ∧ (1 : ℝ) ≤ 1 := ⟨one_pos, le_refl _⟩
  unfold d regretFactor
  cases phaseOf u with
  | explore => simp [realOps]
  | prune => simp [realOps]
  | discount =>
    simp only [regretDiscount]
    split_ifs
    · simp [realOps]
    · rw [ratio_eq]; exact ratio_pos_lt_one (Real.rpow_pos_of_pos hbase _)
    · rw [ratio_eq]; exact ratio_pos_lt_one (Real.rpow_pos_of_pos hbase _)
    · simp [realOps]

/-- the sign-dependent value of the factor inside the discount phase (`period = 1`):
    `u^α/(u^α+1)` for an added regret `> 0`, `u^ω/(u^ω+1)` for `< 0`, `1` for `= 0` -/
theorem d_discount_phase {u : ℕ} (hu : u < RP.Gen.CFR_DISCOUNT_PHASE) (r : ℝ) :
    d u r = if 0 < r then (u : ℝ) ^ PR.alpha / ((u : ℝ) ^ PR.alpha + 1)
            else if r < 0 then (u : ℝ) ^ PR.omega / ((u : ℝ) ^ PR.omega + 1) else 1 := by
  have hp : phaseOf u = Phase.discount := by simp [phaseOf, hu]
  have hmod : u % PR.period = 0 := by rw [PR_period]; exact Nat.mod_one u
  unfold d regretFactor
  rw [hp]
  simp only [regretDiscount, hmod, ne_eq, not_true_eq_false, if_false]
  simp only [ratio_eq, PR_period]
  simp [realOps]

/-- **exactly one once the discount phase is over** -/
theorem d_one_after_phase {u : ℕ} (hu : RP.Gen.CFR_DISCOUNT_PHASE ≤ u) (r : ℝ) : d u r = 1 := by
  unfold d regretFactor phaseOf
  rw [if_neg (by omega)]
  split_ifs <;> simp [realOps]

/-- at counter 0 an added non-zero regret wipes what was stored (`0^α/(0^α+1) = 0`) -/
theorem regret_factor_zero {r : ℝ} (hr : r ≠ 0) : d 0 r = 0 := by
  rw [d_discount_phase (by decide)]
  have ha : (0 : ℝ) ^ PR.alpha = 0 := Real.zero_rpow (by rw [PR_alpha]; norm_num)
  have ho : (0 : ℝ) ^ PR.omega = 0 := Real.zero_rpow (by rw [PR_omega]; norm_num)
  rcases lt_or_gt_of_ne hr with h | h
  · simp [h, not_lt.2 h.le, ho]
  · simp [h, ha]

/-- **weights in (0,1]** -/
theorem C19_weight_range (t0 : ℕ) (r : ℕ → ℝ) (s k : ℕ) : 0 < w t0 r s k ∧ w t0 r s k ≤ 1 := by
  unfold w
  constructor
  · apply prod_pos
    intro j hj
    exact (d_pos_le_one (by have := (mem_Ico.1 hj).1; omega) _).1
  · apply prod_le_one
    · intro j hj
      exact (d_pos_le_one (by have := (mem_Ico.1 hj).1; omega) _).1.le
    · intro j hj
      exact (d_pos_le_one (by have := (mem_Ico.1 hj).1; omega) _).2

/-- **weights do not decrease with recency** -/
theorem C19_weight_mono (t0 : ℕ) (r : ℕ → ℝ) {s k : ℕ} (h : s + 1 < k) :
    w t0 r s k ≤ w t0 r (s + 1) k := by
  unfold w
  rw [prod_eq_prod_Ico_succ_bot h]
  have hd := d_pos_le_one (u := t0 + (s + 1)) (by omega) (r (s + 1))
  have hw := (C19_weight_range t0 r (s + 1) k).1
  unfold w at hw
  calc d (t0 + (s + 1)) (r (s + 1)) * ∏ j ∈ Ico (s + 1 + 1) k, d (t0 + j) (r j)
      ≤ 1 * ∏ j ∈ Ico (s + 1 + 1) k, d (t0 + j) (r j) := mul_le_mul_of_nonneg_right hd.2 hw.le
    _ = _ := one_mul _

theorem C19_weight_mono_le (t0 : ℕ) (r : ℕ → ℝ) {s s' k : ℕ} (h : s ≤ s') (h' : s' < k) :
    w t0 r s k ≤ w t0 r s' k := by
  induction s', h using Nat.le_induction with
  | base => exact le_refl _
  | succ n hn ih => exact le_trans (ih (by omega)) (C19_weight_mono t0 r (by omega))

/-- **weights are exactly one once the discount phase is over** -/
theorem C19_weight_one (t0 : ℕ) (r : ℕ → ℝ) {s : ℕ} (k : ℕ)
    (h : RP.Gen.CFR_DISCOUNT_PHASE ≤ t0 + s + 1) : w t0 r s k = 1 := by
  unfold w
  apply prod_eq_one
  intro j hj
  exact d_one_after_phase (by have := (mem_Ico.1 hj).1; omega) _

/-- after the discount phase regrets are plain sums -/
theorem C19_regret_plain_sum (t0 : ℕ) (h : RP.Gen.CFR_DISCOUNT_PHASE ≤ t0) (prior : ℝ) (r : ℕ → ℝ) (k : ℕ) :
    regretAcc realOps rpow PR t0 prior r k = prior + ∑ s ∈ range k, r s := by
  rw [C19_regret_closed_form]
  have h1 : ∏ j ∈ range k, d (t0 + j) (r j) = 1 :=
    prod_eq_one (fun j _ => d_one_after_phase (by omega) _)
  rw [h1, mul_one]
  congr 1
  apply sum_congr rfl
  intro s _
  rw [C19_weight_one t0 r k (by omega), mul_one]

/-! ## average strategy: polynomially weighted sum, weighted mean -/

theorem δ_telescope (γ : ℝ) (t0 a : ℕ) (ha : 0 < t0 + a) (k : ℕ) (hk : a ≤ k) :
    ∏ j ∈ Ico a k, (((t0 + j : ℕ) : ℝ) / (((t0 + j : ℕ) : ℝ) + 1)) ^ γ
      = (((t0 + a : ℕ) : ℝ) / ((t0 + k : ℕ) : ℝ)) ^ γ := by
  induction k, hk using Nat.le_induction with
  | base =>
    have : ((t0 + a : ℕ) : ℝ) ≠ 0 := by exact_mod_cast ha.ne'
    rw [Ico_self, prod_empty, div_self this, Real.one_rpow]
  | succ k hk ih =>
    rw [prod_Ico_succ_top hk, ih]
    have h1 : (0 : ℝ) < ((t0 + a : ℕ) : ℝ) := by exact_mod_cast ha
    have h2 : (0 : ℝ) < ((t0 + k : ℕ) : ℝ) := by
      have : 0 < t0 + k := by omega
      exact_mod_cast this
    rw [← Real.mul_rpow (div_pos h1 h2).le (div_pos h2 (by linarith)).le]
    congr 1
    have : ((t0 + (k + 1) : ℕ) : ℝ) = ((t0 + k : ℕ) : ℝ) + 1 := by push_cast; ring
    rw [this]
    field_simp

/-- the factor left on the prior after `k ≥ 1` epochs: `(t0 / (t0 + k))^γ` (0 when `t0 = 0`) -/
theorem δ_prior (t0 k : ℕ) (hk : 1 ≤ k) :
    ∏ j ∈ range k, δ (t0 + j) = ((t0 : ℝ) / ((t0 + k : ℕ) : ℝ)) ^ PR.gamma := by
  rcases Nat.eq_zero_or_pos t0 with h0 | h0
  · subst h0
    have hz : δ 0 = 0 := by
      rw [δ_eq]; simp [Real.zero_rpow PR_gamma_ne]
    rw [prod_eq_zero (mem_range.2 hk) (by simpa using hz)]
    simp [Real.zero_rpow PR_gamma_ne]
  · have := δ_telescope PR.gamma t0 0 (by omega) k (Nat.zero_le k)
    rw [← Nat.Ico_zero_eq_range]
    simpa [δ_eq] using this

/-- **C19 (average strategy), closed form** for `k ≥ 1` epochs from counter `t0`:
    `policy = prior·(t0/(t0+k))^γ + Σ_s p_s · ((t0+s+1)/(t0+k))^γ` -/
theorem C19_policy_closed_form (t0 : ℕ) (prior : ℝ) (p : ℕ → ℝ) (k : ℕ) (hk : 1 ≤ k) :
    policyAcc realOps rpow PR t0 prior p k
      = prior * ((t0 : ℝ) / ((t0 + k : ℕ) : ℝ)) ^ PR.gamma
        + ∑ s ∈ range k, p s * (((t0 + s + 1 : ℕ) : ℝ) / ((t0 + k : ℕ) : ℝ)) ^ PR.gamma := by
  rw [linrec_closed (fun j => δ (t0 + j)) p prior _ rfl (policyAcc_succ t0 prior p) k, δ_prior t0 k hk]
  congr 1
  apply sum_congr rfl
  intro s hs
  have hsk : s + 1 ≤ k := by simpa [Nat.succ_le_iff] using mem_range.1 hs
  have := δ_telescope PR.gamma t0 (s + 1) (by omega) k hsk
  simp only [δ_eq]
  rw [this]
  rfl

/-- **C19 (average strategy), fresh profile**: after epochs `0..T` the stored policy is
    `Σ_{s≤T} p_s · ((s+1)/(T+1))^γ`; the prior (the uniform `1/n` written by `witness`) is wiped
    at `t = 0` because the discount factor there is `0^γ = 0`. -/
theorem C19_policy_weighted_sum (prior : ℝ) (p : ℕ → ℝ) (T : ℕ) :
    policyAcc realOps rpow PR 0 prior p (T + 1)
      = ∑ s ∈ range (T + 1), p s * (((s + 1 : ℕ) : ℝ) / ((T + 1 : ℕ) : ℝ)) ^ PR.gamma := by
  rw [C19_policy_closed_form 0 prior p (T + 1) (by omega)]
  simp [Real.zero_rpow PR_gamma_ne]

theorem list_sum_finset_sum {ι : Type} (as : List ι) (g : ι → ℕ → ℝ) (k : ℕ) :
    (as.map fun a => ∑ s ∈ range k, g a s).sum = ∑ s ∈ range k, (as.map fun a => g a s).sum := by
  induction as with
  | nil => simp
  | cons a as ih => simp only [List.map_cons, List.sum_cons, ih, sum_add_distrib]

theorem realDiv (a b : ℝ) : realOps.div a b = a / b := rfl

theorem realSum_eq (l : List ℝ) : realOps.sum l = l.sum := by
  have h : ∀ (l : List ℝ) (a : ℝ), l.foldl realOps.add a = a + l.sum := by
    intro l
    induction l with
    | nil => intro a; simp
    | cons x xs ih => intro a; simp only [List.foldl_cons, List.sum_cons, ih]; simp only [realOps]; ring
  simp only [Ops.sum, h]; simp [realOps]

/-- **C19 (average strategy), weighted mean**: on a fresh profile, if every per-epoch strategy
    `p · s` is a distribution over the actions `as`, the normalised stored strategy
    (`Strategy::weight`) of action `a` after epochs `0..T` is the `(s+1)^γ`-weighted mean
    `Σ_s (s+1)^γ p_a(s) / Σ_s (s+1)^γ`. -/
theorem C19_weighted_mean {ι : Type} (as : List ι) (p : ι → ℕ → ℝ) (prior : ι → ℝ) (T : ℕ)
    (hdist : ∀ s, (as.map fun a => p a s).sum = 1) (a : ι) :
    weight realOps (as.map fun b => policyAcc realOps rpow PR 0 (prior b) (p b) (T + 1))
        (policyAcc realOps rpow PR 0 (prior a) (p a) (T + 1))
      = (∑ s ∈ range (T + 1), ((s + 1 : ℕ) : ℝ) ^ PR.gamma * p a s)
          / ∑ s ∈ range (T + 1), ((s + 1 : ℕ) : ℝ) ^ PR.gamma := by
  have hT : (0 : ℝ) < ((T + 1 : ℕ) : ℝ) := by exact_mod_cast Nat.succ_pos T
  have hTγ : (0 : ℝ) < ((T + 1 : ℕ) : ℝ) ^ PR.gamma := Real.rpow_pos_of_pos hT _
  have hterm : ∀ (q : ℕ → ℝ), ∑ s ∈ range (T + 1), q s * (((s + 1 : ℕ) : ℝ) / ((T + 1 : ℕ) : ℝ)) ^ PR.gamma
      = (∑ s ∈ range (T + 1), ((s + 1 : ℕ) : ℝ) ^ PR.gamma * q s) / ((T + 1 : ℕ) : ℝ) ^ PR.gamma := by
    intro q
    rw [div_eq_mul_inv, sum_mul]
    apply sum_congr rfl
    intro s _
    rw [Real.div_rpow (by positivity) hT.le]
    ring
  unfold weight
  rw [realSum_eq, realDiv]
  simp only [C19_policy_weighted_sum]
  rw [list_sum_finset_sum as (fun b s => p b s * (((s + 1 : ℕ) : ℝ) / ((T + 1 : ℕ) : ℝ)) ^ PR.gamma)]
  have hden : ∑ s ∈ range (T + 1), (as.map fun b => p b s * (((s + 1 : ℕ) : ℝ) / ((T + 1 : ℕ) : ℝ)) ^ PR.gamma).sum
      = ∑ s ∈ range (T + 1), 1 * (((s + 1 : ℕ) : ℝ) / ((T + 1 : ℕ) : ℝ)) ^ PR.gamma := by
    apply sum_congr rfl
    intro s _
    rw [List.sum_map_mul_right, hdist s]
  rw [hden, hterm (p a), hterm (fun _ => 1)]
  simp only [mul_one]
  rw [div_div_div_cancel_right₀ hTγ.ne']

/-! ## traversers alternate -/

/-- `walker t = t mod 2` -/
theorem C19_walker (t : ℕ) : walker t = t % 2 := by
  unfold walker
  simp only [RP.Gen.C09.walkerMod, RP.Gen.C09.walkerZero, RP.Gen.C09.walkerElse]
  rcases Nat.mod_two_eq_zero_or_one t with h | h <;> simp [h]

/-- a fresh profile (`Default`) and a loaded one both start at counter 0: player 0 walks first -/
theorem C19_walker_start : walker RP.Gen.C09.startEpoch = 0 ∧ walker RP.Gen.C09.loadEpoch = 0 := by decide

/-- `next` adds one, and the traverser changes with every epoch -/
theorem C19_walker_alternates (t : ℕ) : next t = t + 1 ∧ walker (next t) = 1 - walker t := by
  refine ⟨rfl, ?_⟩
  rw [C19_walker, C19_walker]
  show (t + 1) % 2 = 1 - t % 2
  omega

theorem C19_counter (t0 k : ℕ) : counterAfter t0 k = t0 + k := by
  induction k with
  | zero => rfl
  | succ k ih => simp only [counterAfter, ih]; rfl

/-- the phases: `Discount` below `CFR_DISCOUNT_PHASE`, `Explore` below `CFR_PRUNNING_PHASE`, then `Prune` -/
theorem phase_boundaries (t : ℕ) :
    (phaseOf t = Phase.discount ↔ t < RP.Gen.CFR_DISCOUNT_PHASE)
    ∧ (phaseOf t = Phase.prune ↔ RP.Gen.CFR_PRUNNING_PHASE ≤ t) := by
  have hlt : RP.Gen.CFR_DISCOUNT_PHASE < RP.Gen.CFR_PRUNNING_PHASE := by decide
  unfold phaseOf
  constructor <;> split_ifs <;> simp <;> omega

/-! ## non-vacuity -/

-- three epochs on a fresh profile, strategies 1, 0, 1/2 for one action: (1·1 + 0·4 + ½·9)/9
example : policyAcc realOps rpow PR 0 (1/3) (fun s => if s = 0 then 1 else if s = 1 then 0 else 1/2) 3
    = 11 / 18 := by
  rw [C19_policy_weighted_sum]
  simp only [PR_gamma, sum_range_succ, range_zero, sum_empty]
  norm_num
-- regrets +1, -1 at counters 0, 1: the first is weighted by d(1, -1) = 1^ω/(1^ω+1) = 1/2
example : regretAcc realOps rpow PR 0 0 (fun s => if s = 0 then 1 else -1) 2 = -1 / 2 := by
  rw [C19_regret_closed_form]
  simp only [w, sum_range_succ, range_zero, sum_empty, prod_range_succ, prod_empty]
  have h1 : d (0 + 1) (-1) = 1 / 2 := by
    rw [d_discount_phase (by decide)]; norm_num
  simp [h1]
  norm_num
example : walker 0 = 0 ∧ walker 1 = 1 ∧ walker 2 = 0 ∧ phaseOf 389 = .discount ∧ phaseOf 390 = .explore := by
  decide

end RP.C19
