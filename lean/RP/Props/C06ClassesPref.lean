import RP.Props.C06PrefA
import RP.Props.C06PrefB
import RP.Props.C06PrefC
import RP.Props.C06PrefD
/-! # C06 — the pre-flop class counts 169 / 81 by direct kernel enumeration

`C06_classes_pref`: the model of `IsomorphismIterator::from(Street::Pref)` (C05's canonicity model
inside the iterator model) yields exactly `Street::Pref.n_isomorphisms()` items, for both decks:
every one of the 1326 (630) pockets is tested by the kernel, in chunks (`RP/Props/C06Pref{A,B,C,D}.lean`).
Together with `C06_one_per_class_iso` this makes "number of pre-flop suit classes = published
constant" a theorem that does not go through Burnside's lemma. -/
namespace RP.C06
open RP.Bits RP.Hands RP.Spec

theorem pref_total_std : restLen false [] = 169 := by
  have s0 := restLen_step false 15 []
  have s1 := restLen_step false 21 [15]
  have s2 := restLen_step false 26 [21, 15]
  have s3 := restLen_step false 30 [26, 21, 15]
  have s4 := restLen_step false 33 [30, 26, 21, 15]
  have s5 := restLen_step false 36 [33, 30, 26, 21, 15]
  have s6 := restLen_step false 39 [36, 33, 30, 26, 21, 15]
  have s7 := restLen_step false 42 [39, 36, 33, 30, 26, 21, 15]
  have s8 := restLen_step false 45 [42, 39, 36, 33, 30, 26, 21, 15]
  have s9 := restLen_step false 47 [45, 42, 39, 36, 33, 30, 26, 21, 15]
  have s10 := restLen_step false 49 [47, 45, 42, 39, 36, 33, 30, 26, 21, 15]
  have s11 := restLen_step false 51 [49, 47, 45, 42, 39, 36, 33, 30, 26, 21, 15]
  have s12 := restLen_step false 52 [51, 49, 47, 45, 42, 39, 36, 33, 30, 26, 21, 15]
  rw [pref_std_0] at s0
  rw [pref_std_1] at s1
  rw [pref_std_2] at s2
  rw [pref_std_3] at s3
  rw [pref_std_4] at s4
  rw [pref_std_5] at s5
  rw [pref_std_6] at s6
  rw [pref_std_7] at s7
  rw [pref_std_8] at s8
  rw [pref_std_9] at s9
  rw [pref_std_10] at s10
  rw [pref_std_11] at s11
  rw [pref_std_12] at s12
  have r := pref_std_rest
  omega

theorem pref_total_short : restLen true [] = 81 := by
  have s0 := restLen_step true 31 []
  have s1 := restLen_step true 37 [31]
  have s2 := restLen_step true 42 [37, 31]
  have s3 := restLen_step true 46 [42, 37, 31]
  have s4 := restLen_step true 49 [46, 42, 37, 31]
  have s5 := restLen_step true 52 [49, 46, 42, 37, 31]
  rw [pref_short_0] at s0
  rw [pref_short_1] at s1
  rw [pref_short_2] at s2
  rw [pref_short_3] at s3
  rw [pref_short_4] at s4
  rw [pref_short_5] at s5
  have r := pref_short_rest
  omega

theorem classes_pref_length (short : Bool) : (classes short 0).length = restLen short [] := by
  rw [(C06_classes_are_canonical short 0 (by omega)).1, C06_observations_pref,
    C06_hands_complete short 2 0 (by omega) (by omega), List.filter_map, List.length_map]
  rfl

/-- **C06_classes_pref**: pre-flop the isomorphism iterator yields exactly the published number of
classes, 169 (standard deck) and 81 (short deck) -/
theorem C06_classes_pref (short : Bool) :
    (classes short 0).length = (nIsomorphismsTable short).getD 0 0 := by
  rw [classes_pref_length]
  cases short
  · exact pref_total_std
  · exact pref_total_short

end RP.C06
