import RP.Lemmas.PrefChunks
/-! kernel enumeration of the canonical pre-flop pockets, one chunk per theorem (generated layout:
boundaries `2^j`, earlier boundaries listed most recent first) -/
namespace RP.C06
theorem pref_short_0 : chunkLen true 31 [] = 9 := by decide +kernel
theorem pref_short_1 : chunkLen true 37 [31] = 16 := by decide +kernel
theorem pref_short_2 : chunkLen true 42 [37, 31] = 11 := by decide +kernel
theorem pref_short_3 : chunkLen true 46 [42, 37, 31] = 13 := by decide +kernel
theorem pref_short_4 : chunkLen true 49 [46, 42, 37, 31] = 15 := by decide +kernel
theorem pref_short_5 : chunkLen true 52 [49, 46, 42, 37, 31] = 17 := by decide +kernel
theorem pref_short_rest : restLen true [52, 49, 46, 42, 37, 31] = 0 := by decide +kernel

end RP.C06
