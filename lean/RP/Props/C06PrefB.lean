import RP.Lemmas.PrefChunks
/-! kernel enumeration of the canonical pre-flop pockets, one chunk per theorem (generated layout:
boundaries `2^j`, earlier boundaries listed most recent first) -/
namespace RP.C06
theorem pref_std_5 : chunkLen false 36 [33, 30, 26, 21, 15] = 17 := by decide +kernel
theorem pref_std_6 : chunkLen false 39 [36, 33, 30, 26, 21, 15] = 0 := by decide +kernel
theorem pref_std_7 : chunkLen false 42 [39, 36, 33, 30, 26, 21, 15] = 19 := by decide +kernel
theorem pref_std_8 : chunkLen false 45 [42, 39, 36, 33, 30, 26, 21, 15] = 21 := by decide +kernel

end RP.C06
