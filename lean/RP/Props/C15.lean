import RP.Lemmas.Codec
import RP.Lemmas.Abs
import RP.Props.C15Pairs.AllP
import RP.Props.C15Pairs.All4
/-! # C15 — Compact numeric encodings are lossless

Theorems about the packings of `RP/Model/Codec.lean` (the definitions the driver `drv_c15` runs
against the real `From` impls).  Each round trip is stated for **all** values of its domain and
proved by arithmetic on bit fields; injectivity follows from the round trip. Domains:

* cards: `c < 52`; hands: every subset of the deck mask; observations: every pocket/board word
  `< 2^64` with 2 pocket and ≤ 5 board cards (street recovery: 0/3/4/5 board cards);
* actions: fold, check, call/raise/shove/blind with **every** `i16` amount (negative amounts
  sign-extend in `as u32` and are still recovered by `as i16`), draws of 0..3 cards
  (a draw of ≥ 4 cards keeps only its three lowest cards: see `draw_four_lossy`);
* edges: the 15 edges (5 + `Odds::GRID`) through `u8`, every raise with `0 ≤ num, den ≤ 255`
  through `u64`; paths: every list of ≤ 16 of the 15 edges;
* abstractions: every `(street, index)` with `street ≤ 3` (index taken modulo 4096), every
  `(variant, bits)` whose variant agrees with its street tag; buckets componentwise;
* pair keys: all unordered pairs inside flop, turn and river bucket sets (23,474 keys). -/
namespace RP.C15
open RP.Bits RP.Gen RP.Codec

/-- a decoder that inverts an encoder on a domain makes the encoder injective there -/
theorem inj_of_roundtrip {α β : Type} (D : α → Prop) (enc : α → β) (dec : β → Option α)
    (h : ∀ a, D a → dec (enc a) = some a) : ∀ a b, D a → D b → enc a = enc b → a = b := by
  intro a b ha hb e
  have := h a ha; rw [e, h b hb] at this
  exact (Option.some.inj this).symm

/-! ## casts -/
theorem ofI64_toI64 (n : Nat) (h : n < 2^64) : ofI64 (toI64 n) = n := by
  unfold ofI64 toI64; split <;> omega
theorem toI64_ofI64 (i : Int) (h1 : -2^63 ≤ i) (h2 : i < 2^63) : toI64 (ofI64 i) = i := by
  unfold ofI64 toI64; split <;> omega
theorem toI64_injective (a b : Nat) (ha : a < 2^64) (hb : b < 2^64) (h : toI64 a = toI64 b) : a = b := by
  rw [← ofI64_toI64 a ha, h, ofI64_toI64 b hb]

/-! ## Card ↔ u8 / u32 -/
theorem C15_card_rank_suit (c : Nat) : cardOfRS (rank c) (suit c) = c := by
  simp only [cardOfRS, rank, suit, C15.cardMul, C15.cardRankDiv, C15.cardSuitMod]; omega
theorem C15_card_u8 (c : Nat) : cardOfU8 (cardToU8 c) = c := rfl
theorem C15_card_u8_injective (a b : Nat) (h : cardToU8 a = cardToU8 b) : a = b := h
/-- all 52 cards -/
theorem C15_card_u32 : ∀ c, c < 52 → cardOfU32 (cardToU32 c) = some c := by decide
theorem C15_card_u32_injective : ∀ a b, a < 52 → b < 52 → cardToU32 a = cardToU32 b → a = b :=
  inj_of_roundtrip (· < 52) cardToU32 cardOfU32 C15_card_u32
example : cardToU32 39 = 66048 ∧ cardOfU32 66048 = some 39 := by decide
/-- outside the image the real decoder panics: no rank bit / no suit bit -/
example : cardOfU32 0 = none ∧ cardOfU32 1 = none := by decide

/-! ## Hand ↔ u64 -/
theorem C15_hand_u64 (mask h : Nat) (hh : h &&& mask = h) : handOfU64 mask (handToU64 h) = h := hh
theorem C15_hand_u64_injective (a b : Nat) (h : handToU64 a = handToU64 b) : a = b := h
/-- `Hand::from(u64)` always lands in the domain -/
theorem C15_hand_of_u64_valid (mask n : Nat) : handOfU64 mask n &&& mask = handOfU64 mask n := by
  unfold handOfU64; rw [Nat.and_assoc, Nat.and_self]
/-- `Vec<Card>::from(Hand)` then `Hand::from(Vec<Card>)` -/
theorem C15_hand_cards (h : Nat) (hh : h < 2^64) : addAll (handCards h) 0 = some h :=
  addAll_perm_handCards h hh _ (nodup_handCards h) (fun _ => Iff.rfl)
example : handCards 0b100101 = [0, 2, 5] ∧ addAll [0, 2, 5] 0 = some 0b100101 := by decide

/-! ## Observation ↔ i64, street from the code -/
/-- the values of `Observation`: two pocket cards, at most five board cards (the type's own
assertions); overlap of pocket and board is irrelevant for the packing -/
structure ObsDom (o : Obs) : Prop where
  pocket_lt : o.pocket < 2^64
  board_lt : o.board < 2^64
  pocket_size : handSize o.pocket = 2
  board_size : handSize o.board ≤ 5

theorem map_sub_add (l : List Nat) : (l.map (fun c => C15.obsOffset + c)).map (· - C15.obsDecOffset) = l := by
  simp [C15.obsOffset, C15.obsDecOffset, List.map_map, Function.comp_def]

/-- the digit string an observation is packed into, least significant first -/
def obsDigitsLE (o : Obs) : List Nat :=
  ((handCards o.pocket).map (fun c => C15.obsOffset + c)).reverse ++ ((handCards o.board).map (fun c => C15.obsOffset + c)).reverse

theorem obsToU64_digits (o : Obs) (h : ObsDom o) :
    obsToU64 o = valLE 8 (obsDigitsLE o) ∧ valLE 8 (obsDigitsLE o) < 2^56 ∧
    (obsDigitsLE o).length = 2 + handSize o.board ∧ (∀ d ∈ obsDigitsLE o, 0 < d ∧ d < 256) := by
  have hcards : obsCards o = handCards o.board ++ handCards o.pocket := by simp [obsCards, C15.obsPublicFirst]
  have hlen : (obsCards o).length = handSize o.board + 2 := by
    rw [hcards, List.length_append, length_handCards, length_handCards, h.pocket_size]
  have hmem : ∀ c ∈ obsCards o, c < 64 := by
    intro c hc; rw [hcards, List.mem_append, mem_handCards, mem_handCards] at hc
    rcases hc with hc | hc <;> exact hc.1
  have e := obsToU64_eq o (by have := h.board_size; omega) hmem
  have hrev : ((obsCards o).map (fun c => C15.obsOffset + c)).reverse = obsDigitsLE o := by
    rw [hcards, List.map_append, List.reverse_append]; rfl
  rw [hrev] at e
  have hdig : ∀ d ∈ obsDigitsLE o, 0 < d ∧ d < 256 := by
    intro d hd
    rw [← hrev] at hd
    simp only [List.mem_reverse, List.mem_map, C15.obsOffset] at hd
    obtain ⟨c, hc, rfl⟩ := hd
    have := hmem c hc; omega
  have hl : (obsDigitsLE o).length = 2 + handSize o.board := by
    rw [← hrev, List.length_reverse, List.length_map, hlen]; omega
  refine ⟨e, ?_, hl, hdig⟩
  have := valLE_lt 8 (obsDigitsLE o) (fun d hd => by have := hdig d hd; omega)
  have hle : 2^((obsDigitsLE o).length * 8) ≤ 2^56 := Nat.pow_le_pow_right (by omega) (by have := h.board_size; omega)
  omega

/-- **Observation round trip** — every observation (2 pocket cards, ≤ 5 board cards, any cards of
a 64-bit word) is recovered from its `i64` code. -/
theorem C15_obs_roundtrip (o : Obs) (h : ObsDom o) : obsOfI64 (obsToI64 o) = some o := by
  obtain ⟨e, hlt, hl, hdig⟩ := obsToU64_digits o h
  have hI : obsToI64 o = ((valLE 8 (obsDigitsLE o) : Nat) : Int) := by
    unfold obsToI64 toI64; rw [e]; split <;> omega
  unfold obsOfI64
  rw [hI, obsDigits_nat]
  simp only [C15.obsDecDigits, C15.obsDecShift]
  rw [digitsRem_valLE _ 8 hdig (by have := h.board_size; omega)]
  unfold obsDigitsLE
  rw [obsFold_head C15.obsDecOffset C15.obsDecPocket _ _ 0 0 0
    (by simp [C15.obsDecPocket, length_handCards, h.pocket_size])
    (by intro d hd; have := hdig d hd; simp only [C15.obsDecOffset]; omega)]
  rw [← List.map_reverse, ← List.map_reverse, map_sub_add, map_sub_add]
  rw [addAll_perm_handCards o.pocket h.pocket_lt _ (nodup_reverse' (nodup_handCards _)) (fun j => List.mem_reverse),
      addAll_perm_handCards o.board h.board_lt _ (nodup_reverse' (nodup_handCards _)) (fun j => List.mem_reverse)]
  simp [obsMk, h.pocket_size, h.board_size, C15.obsPocketSize, C15.obsPublicMax]

/-- **Distinct observations get distinct codes.** -/
theorem C15_obs_injective : ∀ a b, ObsDom a → ObsDom b → obsToI64 a = obsToI64 b → a = b :=
  inj_of_roundtrip ObsDom obsToI64 obsOfI64 C15_obs_roundtrip

/-- **The street is recovered from the observation code alone** (0/3/4/5 board cards), and it is
the street `Observation::street()` reports. -/
theorem C15_obs_street (o : Obs) (h : ObsDom o) :
    streetOfObsCode (obsToI64 o) = obsStreet o := by
  obtain ⟨e, hlt, hl, hdig⟩ := obsToU64_digits o h
  have hI : obsToI64 o = ((valLE 8 (obsDigitsLE o) : Nat) : Int) := by
    unfold obsToI64 toI64; rw [e]; split <;> omega
  unfold streetOfObsCode obsStreet
  rw [hI, obsDigits_nat]
  have hd : digitsRem C15.streetDecShift C15.streetDecDigits (valLE 8 (obsDigitsLE o)) = obsDigitsLE o :=
    digitsRem_valLE _ 8 hdig (by have := h.board_size; omega)
  simp only [hd]
  have hall : (obsDigitsLE o).all (fun d => decide (C15.streetDecOffset ≤ d ∧ d - C15.streetDecOffset < 64)) = true := by
    rw [List.all_eq_true]; intro d hd
    have h64 : 1 ≤ d ∧ d ≤ 64 := by
      simp only [obsDigitsLE, List.mem_append, List.mem_reverse, List.mem_map, C15.obsOffset] at hd
      rcases hd with ⟨c, hc, rfl⟩ | ⟨c, hc, rfl⟩ <;> have := ((mem_handCards _ c).mp hc).1 <;> omega
    simp only [C15.streetDecOffset]
    exact decide_eq_true (by omega)
  have hsk : (obsDigitsLE o).length - C15.streetDecSkip = handSize o.board := by
    rw [hl]; simp [C15.streetDecSkip]
  rw [hsk]
  simp only [hall, if_true]

theorem C15_obs_street_defined (o : Obs) (h : ObsDom o) (hs : handSize o.board = 0 ∨ handSize o.board = 3 ∨ handSize o.board = 4 ∨ handSize o.board = 5) :
    ∃ s, streetOfObsCode (obsToI64 o) = some s ∧ (s, handSize o.board) ∈ [(0, 0), (1, 3), (2, 4), (3, 5)] := by
  rw [C15_obs_street o h]; unfold obsStreet
  rcases hs with e | e | e | e <;> rw [e] <;> decide

-- A♠K♠ | 2♣ 3♣ 4♣ : board first (most significant), the highest pocket card is the lowest byte
example : obsToI64 ⟨(1 <<< 51) ||| (1 <<< 47), 0b10001 ||| (1 <<< 8)⟩ = 0x0105093034 ∧
    obsOfI64 0x0105093034 = some ⟨(1 <<< 51) ||| (1 <<< 47), 0b10001 ||| (1 <<< 8)⟩ ∧
    streetOfObsCode 0x0105093034 = some 1 := by decide
/-- the `+1` offset: the deuce of clubs (card 0) is digit 1, so a pocket holding it is not cut short -/
example : obsToI64 ⟨0b11, 0⟩ = 0x0102 ∧ obsOfI64 0x0102 = some ⟨0b11, 0⟩ ∧ streetOfObsCode 0x0102 = some 0 := by decide

/-! ## Action ↔ u32 -/
def I16 (x : Int) : Prop := -32768 ≤ x ∧ x ≤ 32767
/-- the domain: every `i16` amount (the property names 0..=32767; negative amounts are covered
too), draws of at most three cards -/
def ActionDom : Action → Prop
  | .draw h => h < 2^64 ∧ handSize h ≤ 3
  | .call x => I16 x
  | .raise x => I16 x
  | .shove x => I16 x
  | .blind x => I16 x
  | .fold => True
  | .check => True

theorem actBits_eq : actBits = 8 := by decide
theorem and_mask (v : Nat) : v &&& actionMask = v % 256 := by
  have : actionMask = 2^8 - 1 := by decide
  rw [this, Nat.and_two_pow_sub_one_eq_mod]

/-- amount field: `code | (x as u32) << 8`, read back with `& 0xFF`, `>> 8`, `as i16` -/
theorem chips_fields (code : Nat) (x : Int) (hc : code < 256) (hx : I16 x) :
    chipsToU32 code x &&& actionMask = code ∧ toI16 (chipsToU32 code x >>> actBits) = x := by
  have e : chipsToU32 code x = code + ((x % 2^32).toNat % 2^24) * 2^8 := by
    unfold chipsToU32 u32 i16ToU32
    rw [actBits_eq]
    have : ((x % 2^32).toNat <<< 8) % 2^32 = ((x % 2^32).toNat % 2^24) <<< 8 := by
      rw [Nat.shiftLeft_eq, Nat.shiftLeft_eq]; omega
    rw [this, or_shl_eq _ _ _ (by omega)]
  rw [and_mask, actBits_eq, Nat.shiftRight_eq_div_pow, e]
  unfold I16 at hx
  refine ⟨by omega, ?_⟩
  unfold toI16
  have hd : (code + (x % 2 ^ 32).toNat % 2 ^ 24 * 2 ^ 8) / 2 ^ 8 = (x % 2 ^ 32).toNat % 2 ^ 24 := by omega
  rw [hd]
  split <;> omega

theorem draw_positions (ds : List Nat) (hl : ds.length ≤ 3) (hd : ∀ d ∈ ds, 0 < d ∧ d < 256) :
    (([0, 1, 2] : List Nat).map (fun i => (valLE 8 ds >>> (8 * i)) &&& actionMask)).filter (fun x => x > 0) = ds := by
  simp only [and_mask, Nat.shiftRight_eq_div_pow, List.map_cons, List.map_nil]
  match ds, hl, hd with
  | [], _, _ => simp [valLE]
  | [a], _, hd =>
    have ha := hd a (by simp)
    have h0 : (a + 2 ^ 8 * 0) / 2 ^ (8 * 0) % 256 = a := by omega
    have h1 : (a + 2 ^ 8 * 0) / 2 ^ (8 * 1) % 256 = 0 := by omega
    have h2 : (a + 2 ^ 8 * 0) / 2 ^ (8 * 2) % 256 = 0 := by omega
    simp only [valLE, h0, h1, h2]
    simp [List.filter, ha.1]
  | [a, b], _, hd =>
    have ha := hd a (by simp)
    have hb := hd b (by simp)
    have h0 : (a + 2 ^ 8 * (b + 2 ^ 8 * 0)) / 2 ^ (8 * 0) % 256 = a := by omega
    have h1 : (a + 2 ^ 8 * (b + 2 ^ 8 * 0)) / 2 ^ (8 * 1) % 256 = b := by omega
    have h2 : (a + 2 ^ 8 * (b + 2 ^ 8 * 0)) / 2 ^ (8 * 2) % 256 = 0 := by omega
    simp only [valLE, h0, h1, h2]
    simp [List.filter, ha.1, hb.1]
  | [a, b, c], _, hd =>
    have ha := hd a (by simp)
    have hb := hd b (by simp)
    have hc := hd c (by simp)
    have h0 : (a + 2 ^ 8 * (b + 2 ^ 8 * (c + 2 ^ 8 * 0))) / 2 ^ (8 * 0) % 256 = a := by omega
    have h1 : (a + 2 ^ 8 * (b + 2 ^ 8 * (c + 2 ^ 8 * 0))) / 2 ^ (8 * 1) % 256 = b := by omega
    have h2 : (a + 2 ^ 8 * (b + 2 ^ 8 * (c + 2 ^ 8 * 0))) / 2 ^ (8 * 2) % 256 = c := by omega
    simp only [valLE, h0, h1, h2]
    simp [List.filter, ha.1, hb.1, hc.1]
  | _ :: _ :: _ :: _ :: _, hl, _ => simp at hl

theorem draw_fields (h : Nat) (hh : h < 2^64) (hs : handSize h ≤ 3) :
    (actEnc 6 ||| drawToU32 h) &&& actionMask = 6 ∧ drawOfData ((actEnc 6 ||| drawToU32 h) >>> actBits) = some h := by
  have htake : (handCards h).take C15.drawTake = handCards h := by
    apply List.take_of_length_le; rw [length_handCards]; exact hs
  let ds := (handCards h).map (fun c => c + C15.drawOffset)
  have hds : ∀ d ∈ ds, 0 < d ∧ d < 256 := by
    intro d hd
    simp only [ds, List.mem_map, C15.drawOffset] at hd
    obtain ⟨c, hc, rfl⟩ := hd
    have := ((mem_handCards h c).mp hc).1; omega
  have hlen : ds.length ≤ 3 := by simp only [ds, List.length_map, length_handCards]; exact hs
  have hv := valLE_lt 8 ds (fun d hd => by have := hds d hd; omega)
  have hv24 : valLE 8 ds < 2^24 := by
    have : 2^(ds.length * 8) ≤ 2^24 := Nat.pow_le_pow_right (by omega) (by omega)
    omega
  have e : actEnc 6 ||| drawToU32 h = 6 + valLE 8 ds * 2^8 := by
    unfold drawToU32 u32
    rw [htake, actBits_eq]
    rw [packAt_eq 8 32 ds 0 0 (fun d hd => by have := hds d hd; omega) (by omega) (by omega)]
    have e6 : actEnc 6 = 6 := by decide
    simp only [Nat.zero_mul, Nat.pow_zero, Nat.one_mul, Nat.zero_add, e6]
    have : (valLE 8 ds <<< 8) % 2^32 = valLE 8 ds <<< 8 := by
      apply Nat.mod_eq_of_lt; rw [Nat.shiftLeft_eq]; omega
    rw [this, or_shl_eq _ _ _ (by omega)]
  rw [e, and_mask, actBits_eq, Nat.shiftRight_eq_div_pow]
  refine ⟨by omega, ?_⟩
  have hdv : (6 + valLE 8 ds * 2 ^ 8) / 2 ^ 8 = valLE 8 ds := by omega
  rw [hdv]
  unfold drawOfData
  have hpos : (C15.drawDecPositions.map (fun i => (valLE 8 ds >>> (actBits * i)) &&& actionMask)).filter (fun x => x > 0) = ds := by
    rw [actBits_eq]; exact draw_positions ds hlen hds
  simp only [hpos]
  have hall : ds.all (fun x => decide (C15.drawDecOffset ≤ x % 256)) = true := by
    rw [List.all_eq_true]; intro d hd
    have := hds d hd
    exact decide_eq_true (by simp only [C15.drawDecOffset]; omega)
  simp only [hall, if_true]
  have hmap : ds.map (fun x => x % 256 - C15.drawDecOffset) = handCards h := by
    simp only [ds, List.map_map]
    rw [List.map_congr_left (g := id)]
    · simp
    · intro c hc
      have := ((mem_handCards h c).mp hc).1
      simp only [Function.comp, C15.drawOffset, C15.drawDecOffset, id]; omega
  rw [hmap]
  exact C15_hand_cards h hh

/-- **Action round trip** — fold, check, every `i16` amount of call/raise/shove/blind, every draw
of at most three cards. -/
theorem C15_action_roundtrip (a : Action) (h : ActionDom a) : actionOfU32 (actionToU32 a) = some a := by
  have d0 : actDec 0 = 0 := by decide
  have d1 : actDec 1 = 1 := by decide
  have d2 : actDec 2 = 2 := by decide
  have d3 : actDec 3 = 3 := by decide
  have d4 : actDec 4 = 4 := by decide
  have d5 : actDec 5 = 5 := by decide
  have d6 : actDec 6 = 6 := by decide
  cases a with
  | fold => decide
  | check => decide
  | call x =>
    have ek : actEnc 2 = 2 := by decide
    have ⟨k, b⟩ := chips_fields 2 x (by decide) h
    simp [actionOfU32, actionToU32, k, b, d0, d1, d2, ek]
  | raise x =>
    have ek : actEnc 3 = 3 := by decide
    have ⟨k, b⟩ := chips_fields 3 x (by decide) h
    simp [actionOfU32, actionToU32, k, b, d0, d1, d2, d3, ek]
  | shove x =>
    have ek : actEnc 4 = 4 := by decide
    have ⟨k, b⟩ := chips_fields 4 x (by decide) h
    simp [actionOfU32, actionToU32, k, b, d0, d1, d2, d3, d4, ek]
  | blind x =>
    have ek : actEnc 5 = 5 := by decide
    have ⟨k, b⟩ := chips_fields 5 x (by decide) h
    simp [actionOfU32, actionToU32, k, b, d0, d1, d2, d3, d4, d5, ek]
  | draw hd =>
    have ⟨k, b⟩ := draw_fields hd h.1 h.2
    simp [actionOfU32, actionToU32, k, b, d0, d1, d2, d3, d4, d5, d6]

/-- **Distinct actions get distinct codes.** -/
theorem C15_action_injective : ∀ a b, ActionDom a → ActionDom b → actionToU32 a = actionToU32 b → a = b :=
  inj_of_roundtrip ActionDom actionToU32 actionOfU32 C15_action_roundtrip

example : actionToU32 (.call 32767) = 0x7FFF02 ∧ actionOfU32 0x7FFF02 = some (.call 32767) := by decide
/-- a negative amount sign-extends to 32 bits, the shift drops the top byte, `as i16` recovers it -/
example : actionToU32 (.raise (-1)) = 0xFFFFFF03 ∧ actionOfU32 0xFFFFFF03 = some (.raise (-1)) := by decide
example : actionToU32 (.draw 0b10011) = 0x05020106 ∧ actionOfU32 0x05020106 = some (.draw 0b10011) := by decide
/-- outside the domain: a draw of four cards keeps only the three lowest (`take(3)`) -/
theorem draw_four_lossy : actionOfU32 (actionToU32 (.draw 0b1111)) = some (.draw 0b0111) := by decide

/-! ## Edge ↔ u8 / u64 -/
/-- the 15 abstract edges: five plain ones and one raise per entry of `Odds::GRID` -/
def allEdges : List Edge := [.draw, .fold, .check, .call, .shove] ++ grid.map (fun o => .raise o.1 o.2)

def edgeU8Ok (e : Edge) : Bool :=
  match edgeToU8 e with
  | some c => decide (0 < c) && decide (c < 16) && (edgeOfU8 c == some e)
  | none => false
theorem edgeU8Ok_all : ∀ e ∈ allEdges, edgeU8Ok e = true := by decide

/-- **Edge ↔ u8**: each of the 15 edges has a code in `1..=15` (a non-zero nibble) that decodes back. -/
theorem C15_edge_u8 (e : Edge) (h : e ∈ allEdges) :
    ∃ c, edgeToU8 e = some c ∧ (0 < c ∧ c < 16) ∧ edgeOfU8 c = some e := by
  have := edgeU8Ok_all e h
  unfold edgeU8Ok at this
  cases hc : edgeToU8 e with
  | none => rw [hc] at this; simp at this
  | some c =>
    rw [hc] at this
    simp only [Bool.and_eq_true, decide_eq_true_eq, beq_iff_eq] at this
    exact ⟨c, rfl, ⟨this.1.1, this.1.2⟩, this.2⟩
theorem C15_edge_u8_injective (a b : Edge) (ha : a ∈ allEdges) (hb : b ∈ allEdges) (h : edgeToU8 a = edgeToU8 b) : a = b := by
  obtain ⟨c, hc, _, hd⟩ := C15_edge_u8 a ha
  obtain ⟨c', hc', _, hd'⟩ := C15_edge_u8 b hb
  rw [hc, hc'] at h
  have : c = c' := Option.some.inj h
  subst this; rw [hd] at hd'; exact Option.some.inj hd'
theorem allEdges_length : allEdges.length = 15 := by decide
/-- a raise with odds outside the grid has no `u8` code (the real code panics) -/
example : edgeToU8 (.raise 5 7) = none ∧ edgeToU8 (.raise 1 2) = some 8 ∧ edgeOfU8 8 = some (.raise 1 2) := by decide

/-- **Edge ↔ u64**: every raise whose odds fit in 8 bits each (in particular the whole grid). -/
theorem C15_edge_u64_raise (n d : Int) (hn : 0 ≤ n ∧ n ≤ 255) (hd : 0 ≤ d ∧ d ≤ 255) :
    edgeOfU64 (edgeToU64 (.raise n d)) = some (.raise n d) := by
  have e : edgeToU64 (.raise n d) = 4 + n.toNat * 2^3 + d.toNat * 2^11 := by
    simp only [edgeToU64]
    have e5 : e64 5 = 4 := by decide
    have e6 : e64 6 = 3 := by decide
    have e7 : e64 7 = 11 := by decide
    rw [e5, e6, e7]
    have hn' : u64 (i16ToU64 n <<< 3) = n.toNat <<< 3 := by
      unfold u64 i16ToU64; rw [Nat.shiftLeft_eq, Nat.shiftLeft_eq]; omega
    have hd' : u64 (i16ToU64 d <<< 11) = d.toNat <<< 11 := by
      unfold u64 i16ToU64; rw [Nat.shiftLeft_eq, Nat.shiftLeft_eq]; omega
    rw [hn', hd', or_shl_eq 4 _ 3 (by omega), or_shl_eq _ _ 11 (by omega)]
  rw [e]
  unfold edgeOfU64
  have m10 : d64 10 = 2^3 - 1 := by decide
  have m7 : d64 7 = 2^8 - 1 := by decide
  have m9 : d64 9 = 2^8 - 1 := by decide
  have s6 : d64 6 = 3 := by decide
  have s8 : d64 8 = 11 := by decide
  simp only [m10, m7, m9, s6, s8, Nat.and_two_pow_sub_one_eq_mod, Nat.shiftRight_eq_div_pow]
  have t : (4 + n.toNat * 2 ^ 3 + d.toNat * 2 ^ 11) % 2 ^ 3 = 4 := by omega
  have a : (4 + n.toNat * 2 ^ 3 + d.toNat * 2 ^ 11) / 2 ^ 3 % 2 ^ 8 = n.toNat := by omega
  have b : (4 + n.toNat * 2 ^ 3 + d.toNat * 2 ^ 11) / 2 ^ 11 % 2 ^ 8 = d.toNat := by omega
  rw [t, a, b]
  have tn : toI16 n.toNat = n := by unfold toI16; split <;> omega
  have td : toI16 d.toNat = d := by unfold toI16; split <;> omega
  rw [tn, td]
  have t0 : d64 0 = 0 := by decide
  have t1 : d64 1 = 1 := by decide
  have t2 : d64 2 = 2 := by decide
  have t3 : d64 3 = 3 := by decide
  have t5 : d64 5 = 4 := by decide
  simp [t0, t1, t2, t3, t5]
theorem C15_edge_u64_plain : ∀ e ∈ [Edge.draw, .fold, .check, .call, .shove], edgeOfU64 (edgeToU64 e) = some e := by decide
/-- all 15 edges through `u64` -/
theorem C15_edge_u64 : ∀ e ∈ allEdges, edgeOfU64 (edgeToU64 e) = some e := by decide
theorem C15_edge_u64_injective : ∀ a b, a ∈ allEdges → b ∈ allEdges → edgeToU64 a = edgeToU64 b → a = b :=
  inj_of_roundtrip (· ∈ allEdges) edgeToU64 edgeOfU64 C15_edge_u64
example : edgeToU64 (.raise 3 4) = 4 + 3 * 8 + 4 * 2048 := by decide
/-- outside the domain: a negative numerator sign-extends over the denominator field and is lost -/
example : edgeOfU64 (edgeToU64 (.raise (-1) 2)) = some (.raise 255 255) := by decide

/-! ## Path ↔ Vec<Edge> -/
theorem optAll_roundtrip {α β : Type} (f : α → Option β) (g : β → Option α) (P : β → Prop) :
    ∀ es : List α, (∀ e ∈ es, ∃ c, f e = some c ∧ P c ∧ g c = some e) →
    ∃ cs, optAll f es = some cs ∧ cs.length = es.length ∧ (∀ c ∈ cs, P c) ∧ optAll g cs = some es
  | [], _ => ⟨[], rfl, rfl, by simp, rfl⟩
  | e :: es, h => by
    obtain ⟨c, hc, hp, hg⟩ := h e (by simp)
    obtain ⟨cs, h1, h2, h3, h4⟩ := optAll_roundtrip f g P es (fun x hx => h x (by simp [hx]))
    refine ⟨c :: cs, by simp [optAll, hc, h1], by simp [h2], ?_, by simp [optAll, hg, h4]⟩
    intro x hx
    rcases List.mem_cons.mp hx with rfl | hx
    · exact hp
    · exact h3 x hx

/-- **Path round trip** — every list of at most 16 of the 15 edges packs into a `u64` and unpacks
to the same list (nibble `i` = `u8(edge i)`, the walk stops at the first zero nibble or after 16). -/
theorem C15_path_roundtrip (es : List Edge) (hl : es.length ≤ 16) (he : ∀ e ∈ es, e ∈ allEdges) :
    ∃ p, pathOfEdges es = some p ∧ p < 2^64 ∧ pathToEdges p = some es := by
  obtain ⟨cs, h1, h2, h3, h4⟩ := optAll_roundtrip edgeToU8 edgeOfU8 (fun c => 0 < c ∧ c < 16) es
    (fun e h => C15_edge_u8 e (he e h))
  have p3 : pp 3 = 16 := by decide
  have p4 : pp 4 = 4 := by decide
  have p0 : pp 0 = 16 := by decide
  have p1 : pp 1 = 4 := by decide
  have p2 : pp 2 = 2^4 - 1 := by decide
  have hcs : ∀ c ∈ cs, c < 2^4 := fun c hc => by have := h3 c hc; omega
  have hp : packAt 4 (2^64) 0 cs 0 = valLE 4 cs := by
    rw [packAt_eq 4 64 cs 0 0 hcs (by omega) (by omega)]; simp
  have hv := valLE_lt 4 cs hcs
  have hle : 2^(cs.length * 4) ≤ 2^64 := Nat.pow_le_pow_right (by omega) (by omega)
  refine ⟨valLE 4 cs, ?_, by omega, ?_⟩
  · unfold pathOfEdges; rw [p3, p4, if_pos hl, h1]; simp only [hp]
  · unfold pathToEdges; rw [p0, p1, p2, nibbles_valLE 4 cs 16 (fun c hc => by have := h3 c hc; exact ⟨this.1, by omega⟩) (by omega)]
    exact h4

/-- **Distinct paths get distinct codes.** -/
theorem C15_path_injective (a b : List Edge) (ha : a.length ≤ 16) (hb : b.length ≤ 16)
    (hae : ∀ e ∈ a, e ∈ allEdges) (hbe : ∀ e ∈ b, e ∈ allEdges) (h : pathOfEdges a = pathOfEdges b) : a = b := by
  obtain ⟨p, h1, _, h2⟩ := C15_path_roundtrip a ha hae
  obtain ⟨q, h3, _, h4⟩ := C15_path_roundtrip b hb hbe
  rw [h1, h3] at h
  have : p = q := Option.some.inj h
  subst this; rw [h2] at h4; exact Option.some.inj h4
/-- the stored form of a path is the `i64` reinterpretation of the word -/
theorem C15_path_i64 (p : Nat) (h : p < 2^64) : pathOfI64 (pathToI64 p) = p := ofI64_toI64 p h
example : pathOfEdges [.fold, .raise 1 2, .shove] = some 0x582 ∧ pathToEdges 0x582 = some [.fold, .raise 1 2, .shove] := by decide
/-- 17 edges trip the length assertion -/
example : pathOfEdges (List.replicate 17 Edge.fold) = none := by decide
/-- sixteen edges use all 64 bits -/
example : pathOfEdges (List.replicate 16 (Edge.raise 4 1)) = some 0xFFFFFFFFFFFFFFFF ∧
    (pathToEdges 0xFFFFFFFFFFFFFFFF).map List.length = some 16 := by decide

/-! ## Abstraction ↔ u64 / i64, Bucket, street from the bucket code -/
/-- values of `Abstraction`: the enum variant agrees with the street tag of the word -/
def AbsValid (a : Abs) : Prop := a.bits < 2^64 ∧ lookup C15.absTagVariant (absTag a.bits % 256) = some a.variant

/-- **Abstraction ↔ u64 / i64** for every valid abstraction word. -/
theorem C15_abs_u64 (a : Abs) (h : AbsValid a) : absOfU64 (absToU64 a) = some a := by
  unfold absOfU64 absToU64; rw [h.2]; rfl
theorem C15_abs_i64 (a : Abs) (h : AbsValid a) : absOfI64 (absToI64 a) = some a := by
  unfold absOfI64 absToI64; rw [ofI64_toI64 _ (by unfold absToU64; exact h.1)]; exact C15_abs_u64 a h
theorem C15_abs_i64_injective : ∀ a b, AbsValid a → AbsValid b → absToI64 a = absToI64 b → a = b :=
  inj_of_roundtrip AbsValid absToI64 absOfI64 C15_abs_i64
/-- whatever `Abstraction::from(u64)` returns is valid -/
theorem absOfU64_valid (n : Nat) (hn : n < 2^64) (a : Abs) (h : absOfU64 n = some a) : AbsValid a := by
  unfold absOfU64 at h
  cases hl : lookup C15.absTagVariant (absTag n % 256) with
  | none => rw [hl] at h; simp at h
  | some v => rw [hl] at h; simp at h; subst h; exact ⟨hn, hl⟩

/-- every constructed abstraction (all four streets, every index) is valid, and **its street and
index are recovered from the code alone** -/
theorem C15_abs_of (s i : Nat) (hs : s < 4) :
    AbsValid (absOf s i) ∧ absStreet (absOf s i) = some s ∧ absIndex (absOf s i) = i % 4096 := by
  obtain ⟨ht, hi, hb⟩ := absOf_fields s i hs
  have hv := variant_tables s hs
  refine ⟨⟨hb, ?_⟩, ?_, hi⟩
  · rw [ht, Nat.mod_eq_of_lt (by omega), hv.1]; rfl
  · unfold absStreet; rw [ht]; exact hv.2
theorem C15_abs_of_roundtrip (s i : Nat) (hs : s < 4) :
    absOfI64 (absToI64 (absOf s i)) = some (absOf s i) ∧
    (absOfI64 (absToI64 (absOf s i))).bind absStreet = some s :=
  ⟨C15_abs_i64 _ (C15_abs_of s i hs).1, by rw [C15_abs_i64 _ (C15_abs_of s i hs).1]; exact (C15_abs_of s i hs).2.1⟩
/-- **Distinct buckets get distinct codes** (all streets, all 12-bit indices; in particular the 542) -/
theorem C15_abs_of_injective (s i s' i' : Nat) (hs : s < 4) (hs' : s' < 4) (hi : i < 4096) (hi' : i' < 4096)
    (h : absToU64 (absOf s i) = absToU64 (absOf s' i')) : s = s' ∧ i = i' := by
  have a := absOf_fields s i hs
  have b := absOf_fields s' i' hs'
  unfold absToU64 at h
  unfold absIndex at a b
  rw [h] at a
  exact ⟨a.1.symm.trans b.1, by have := a.2.1.symm.trans b.2.1; omega⟩
example : absOf 1 5 = ⟨1, 121870505085349893⟩ ∧ absStreet (absOf 1 5) = some 1 ∧ absIndex (absOf 1 5) = 5 := by decide
/-- the constructor keeps only 12 bits of the index -/
example : absOf 2 4096 = absOf 2 0 := by decide

/-- **Bucket componentwise**: the three `i64` columns give the bucket back, and the street. -/
def BucketValid (b : Bucket) : Prop := b.past < 2^64 ∧ AbsValid b.present ∧ b.future < 2^64
theorem C15_bucket_roundtrip (b : Bucket) (h : BucketValid b) : bucketOfCodes (bucketToCodes b) = some b := by
  unfold bucketOfCodes bucketToCodes
  simp only [C15_abs_i64 _ h.2.1, Option.map_some, pathOfI64, pathToI64, ofI64_toI64 _ h.1, ofI64_toI64 _ h.2.2]
theorem C15_bucket_injective : ∀ a b, BucketValid a → BucketValid b → bucketToCodes a = bucketToCodes b → a = b :=
  inj_of_roundtrip BucketValid bucketToCodes bucketOfCodes C15_bucket_roundtrip
theorem C15_bucket_street (p f s i : Nat) (hs : s < 4) :
    bucketStreetOfCodes (bucketToCodes ⟨p, absOf s i, f⟩) = some s := by
  unfold bucketStreetOfCodes bucketToCodes
  exact (C15_abs_of_roundtrip s i hs).2

/-! ## Pair keys -/
theorem pairKey_fast (s i j : Nat) (hs : s < 4) : pairKey (absOf s i) (absOf s j) = fastKey s i j := by
  have : C15.pairOp = 0 := rfl
  simp only [pairKey, this, absToU64, absOf_bits _ _ hs, fastKey]

theorem absBitsFast_low (s i : Nat) : absBitsFast s i % 2^12 = i % 4096 := by
  unfold absBitsFast
  have h56 : s * 2^56 = (s * 2^44) * 2^12 := by rw [Nat.mul_assoc]
  rw [h56]; omega

/-- **A collision of two pair keys forces equal `i xor j`** (the low 12 bits of a key). -/
theorem C15_pair_collision_low_bits (s s' i j i' j' : Nat) (hs : s < 4) (hs' : s' < 4)
    (hi : i < 4096) (hj : j < 4096) (hi' : i' < 4096) (hj' : j' < 4096)
    (h : pairKey (absOf s i) (absOf s j) = pairKey (absOf s' i') (absOf s' j')) : i ^^^ j = i' ^^^ j' := by
  rw [pairKey_fast _ _ _ hs, pairKey_fast _ _ _ hs'] at h
  have := congrArg (· % 2^12) h
  simp only [fastKey, Nat.xor_mod_two_pow, absBitsFast_low] at this
  rwa [Nat.mod_eq_of_lt hi, Nat.mod_eq_of_lt hj, Nat.mod_eq_of_lt hi', Nat.mod_eq_of_lt hj'] at this

theorem learned_small : ∀ sk ∈ learned, sk.1 < 4 ∧ sk.2 ≤ 256 := by decide

/-- **Preflop layer** (beyond the property's three learned streets; needed by C13): the 169 preflop
classes are kept as centroids and `Layer::metric` stores their C(169,2) = 14,196 pairwise distances under
the same XOR keys; inside that set two unordered pairs with the same key are the same pair. -/
theorem C15_pair_keys_distinct_pref (i j i' j' : Nat)
    (hij : i < j) (hj : j < nAbstractions 0) (hij' : i' < j') (hj' : j' < nAbstractions 0)
    (h : pairKey (absOf 0 i) (absOf 0 j) = pairKey (absOf 0 i') (absOf 0 j')) : i = i' ∧ j = j' := by
  have hk : nAbstractions 0 ≤ 256 := by decide
  have hd := C15_pair_collision_low_bits 0 0 i j i' j' (by omega) (by omega) (by omega) (by omega) (by omega) (by omega) h
  have hlt : i ^^^ j < 2^8 := Nat.xor_lt_two_pow (by omega) (by omega)
  have hr := RP.C15Pairs.all_dP (i ^^^ j) hlt
  have m1 := mem_entriesOf prefLayer 0 _ i j (by simp [prefLayer]) hij hj
  have m2 := mem_entriesOf prefLayer 0 _ i' j' (by simp [prefLayer]) hij' hj'
  rw [← hd] at m2
  rw [pairKey_fast _ _ _ (by omega), pairKey_fast _ _ _ (by omega)] at h
  have e := rdx_spec 44 _ hr _ m1 _ m2 h
  have e2 : i = i' := congrArg (·.2.1) e
  refine ⟨e2, ?_⟩
  have : i ^^^ (i ^^^ j) = i' ^^^ (i' ^^^ j') := by rw [hd, e2]
  rwa [← Nat.xor_assoc, Nat.xor_self, Nat.zero_xor, ← Nat.xor_assoc, Nat.xor_self, Nat.zero_xor] at this

/-- **Observation outside the property** (its text says "across the three learned streets"): the
four-street statement is FALSE. `Metric::sources` uploads the metric files of all four streets into one
table keyed by `xor`; three preflop pair keys coincide with a turn or river pair key
(`drv_c15`'s `paircross` line recomputes the full list from the model and the harness from the real
`Pair::from`). Within every street, and across flop/turn/river, keys are distinct (theorems above). -/
theorem C15_pref_cross_street_collisions :
    pairKey (absOf 0 8) (absOf 0 40) = pairKey (absOf 2 75) (absOf 2 107) ∧
    pairKey (absOf 0 16) (absOf 0 48) = pairKey (absOf 3 10) (absOf 3 42) ∧
    pairKey (absOf 0 27) (absOf 0 91) = pairKey (absOf 3 32) (absOf 3 96) := by decide
/-- … so the analogue of `C15_pair_keys_distinct` with the preflop layer included does not hold -/
theorem C15_four_streets_not_collision_free :
    ¬ ∀ s s' i j i' j', s < 4 → s' < 4 → i < j → j < nAbstractions s → i' < j' → j' < nAbstractions s' →
      pairKey (absOf s i) (absOf s j) = pairKey (absOf s' i') (absOf s' j') → s = s' ∧ i = i' ∧ j = j' := by
  intro h
  have := (h 0 2 8 40 75 107 (by decide) (by decide) (by decide) (by decide) (by decide) (by decide)
    C15_pref_cross_street_collisions.1).1
  omega

/-- the three preflop pairs whose key is shared with a turn / river pair -/
def knownCollision (s i j : Nat) : Prop := s = 0 ∧ ((i = 8 ∧ j = 40) ∨ (i = 16 ∧ j = 48) ∨ (i = 27 ∧ j = 91))

theorem mem_fourLayers (s : Nat) (hs : s < 4) : (s, nAbstractions s) ∈ fourLayers := by
  have : s = 0 ∨ s = 1 ∨ s = 2 ∨ s = 3 := by omega
  rcases this with rfl | rfl | rfl | rfl <;> decide

theorem mem_entries4x (s i j : Nat) (hs : s < 4) (hij : i < j) (hj : j < nAbstractions s)
    (hk : ¬ knownCollision s i j) : (s, i, fastKey s i j) ∈ entries4x (i ^^^ j) := by
  unfold entries4x
  rw [List.mem_filter]
  refine ⟨mem_entriesOf fourLayers s _ i j (mem_fourLayers s hs) hij hj, ?_⟩
  have hx : i ^^^ (i ^^^ j) = j := by rw [← Nat.xor_assoc, Nat.xor_self, Nat.zero_xor]
  simp only [excepted, Bool.not_eq_true', Bool.and_eq_false_iff, beq_eq_false_iff_ne, ne_eq]
  by_cases h0 : s = 0
  · right
    subst h0
    have hk' : ¬ ((i = 8 ∧ j = 40) ∨ (i = 16 ∧ j = 48) ∨ (i = 27 ∧ j = 91)) := fun h => hk ⟨rfl, h⟩
    simp only [Bool.or_eq_false_iff, Bool.and_eq_false_iff, beq_eq_false_iff_ne, ne_eq]
    refine ⟨?_, ?_⟩
    · by_cases hd : i ^^^ j = 32
      · right
        refine ⟨?_, ?_⟩
        · intro hi; apply hk'; left; refine ⟨hi, ?_⟩
          rw [← hx, hd, hi]; decide
        · intro hi; apply hk'; right; left; refine ⟨hi, ?_⟩
          rw [← hx, hd, hi]; decide
      · left; exact hd
    · by_cases hd : i ^^^ j = 64
      · right
        intro hi; apply hk'; right; right; refine ⟨hi, ?_⟩
        rw [← hx, hd, hi]; decide
      · left; exact hd
  · left; exact h0

/-- **Every collision in the four-street key space involves one of the three listed preflop pairs**:
over the 37,670 keys of the preflop (169), flop (128), turn (144) and river (101) bucket sets together,
two unordered pairs with the same key are the same pair of the same street, or one of them is the
preflop pair (8, 40), (16, 48) or (27, 91). With `C15_pref_cross_street_collisions` this describes the
key collisions of the uploaded `metric` table completely. -/
theorem C15_four_streets_collisions_only (s s' i j i' j' : Nat) (hs4 : s < 4) (hs4' : s' < 4)
    (hij : i < j) (hj : j < nAbstractions s) (hij' : i' < j') (hj' : j' < nAbstractions s')
    (h : pairKey (absOf s i) (absOf s j) = pairKey (absOf s' i') (absOf s' j')) :
    (s = s' ∧ i = i' ∧ j = j') ∨ knownCollision s i j ∨ knownCollision s' i' j' := by
  by_cases hk : knownCollision s i j
  · exact Or.inr (Or.inl hk)
  by_cases hk' : knownCollision s' i' j'
  · exact Or.inr (Or.inr hk')
  left
  have hn : ∀ t, t < 4 → nAbstractions t ≤ 256 := by
    intro t ht
    have : t = 0 ∨ t = 1 ∨ t = 2 ∨ t = 3 := by omega
    rcases this with rfl | rfl | rfl | rfl <;> decide
  have hk1 := hn s hs4
  have hk2 := hn s' hs4'
  have hd := C15_pair_collision_low_bits s s' i j i' j' hs4 hs4' (by omega) (by omega) (by omega) (by omega) h
  have hlt : i ^^^ j < 2^8 := Nat.xor_lt_two_pow (by omega) (by omega)
  have hr := RP.C15Pairs.all_d4 (i ^^^ j) hlt
  have m1 := mem_entries4x s i j hs4 hij hj hk
  have m2 := mem_entries4x s' i' j' hs4' hij' hj' hk'
  rw [← hd] at m2
  rw [pairKey_fast _ _ _ hs4, pairKey_fast _ _ _ hs4'] at h
  have e := rdx_spec 44 _ hr _ m1 _ m2 h
  have e1 : s = s' := congrArg (·.1) e
  have e2 : i = i' := congrArg (·.2.1) e
  refine ⟨e1, e2, ?_⟩
  have : i ^^^ (i ^^^ j) = i' ^^^ (i' ^^^ j') := by rw [hd, e2]
  rwa [← Nat.xor_assoc, Nat.xor_self, Nat.zero_xor, ← Nat.xor_assoc, Nat.xor_self, Nat.zero_xor] at this

/-- **Pair keys are collision-free** (the property's statement): inside the flop, turn and river bucket
sets and across the three, two unordered pairs `{i, j}` (written `i < j`) with the same key are the same
pair of the same street. Covers all C(128,2) + C(144,2) + C(101,2) = 23,474 keys (the counts are the
generated constants). A corollary of the four-street table: the listed exceptions are preflop pairs. -/
theorem C15_pair_keys_distinct (s s' i j i' j' : Nat) (hs : s = 1 ∨ s = 2 ∨ s = 3) (hs' : s' = 1 ∨ s' = 2 ∨ s' = 3)
    (hij : i < j) (hj : j < nAbstractions s) (hij' : i' < j') (hj' : j' < nAbstractions s')
    (h : pairKey (absOf s i) (absOf s j) = pairKey (absOf s' i') (absOf s' j')) : s = s' ∧ i = i' ∧ j = j' := by
  rcases C15_four_streets_collisions_only s s' i j i' j' (by omega) (by omega) hij hj hij' hj' h with h | h | h
  · exact h
  · exact absurd h.1 (by omega)
  · exact absurd h.1 (by omega)

/-- within one street's bucket set -/
theorem C15_pair_keys_distinct_within (s i j i' j' : Nat) (hs : s = 1 ∨ s = 2 ∨ s = 3)
    (hij : i < j) (hj : j < nAbstractions s) (hij' : i' < j') (hj' : j' < nAbstractions s)
    (h : pairKey (absOf s i) (absOf s j) = pairKey (absOf s i') (absOf s j')) : i = i' ∧ j = j' :=
  (C15_pair_keys_distinct s s i j i' j' hs hs hij hj hij' hj' h).2
/-- within the bucket set of any of the **four** streets -/
theorem C15_pair_keys_distinct_within4 (s i j i' j' : Nat) (hs : s < 4)
    (hij : i < j) (hj : j < nAbstractions s) (hij' : i' < j') (hj' : j' < nAbstractions s)
    (h : pairKey (absOf s i) (absOf s j) = pairKey (absOf s i') (absOf s j')) : i = i' ∧ j = j' := by
  have : s = 0 ∨ s = 1 ∨ s = 2 ∨ s = 3 := by omega
  rcases this with rfl | hs'
  · exact C15_pair_keys_distinct_pref i j i' j' hij hj hij' hj' h
  · exact C15_pair_keys_distinct_within s i j i' j' hs' hij hj hij' hj' h

/-- the key does not depend on the order of the pair -/
theorem C15_pair_symmetric (a b : Abs) : pairKey a b = pairKey b a := by
  have : C15.pairOp = 0 := rfl
  simp only [pairKey, this, Nat.xor_comm]
/-- the stored `i64` form of a key -/
theorem C15_pair_i64 (k : Nat) (h : k < 2^64) : pairOfI64 (pairToI64 k) = k := ofI64_toI64 k h
-- the group d = 1 holds 64 + 72 + 50 keys of the learned streets (255 such groups make up the 23,474 keys)
-- and 84 more of the preflop layer (37,670 keys in all)
example : (entries 1).length = 186 ∧ (entriesOf fourLayers 1).length = 270 := by decide +kernel
example : pairKey (absOf 1 0) (absOf 1 1) = fastKey 1 0 1 ∧ fastKey 1 0 1 % 4096 = 1 := by decide

end RP.C15
