import RP.Lemmas.Showdown
/-! # C04 — Showdown pays every main and side pot to the best eligible hand

Model: `RP.Showdown.settle` (`lean/RP/Model/Showdown.lean`, mirrors `src/gameplay/showdown.rs`).
Specification: `RP.Pots` (`lean/RP/Spec/Pots.lean`): commitment levels, layers, eligible seats,
layer winners, floor/ceil shares, cap.

Hypotheses (`RP.Pots.ValidLedger`), exactly the property's: the ledger is fresh (no reward
yet), commitments are non-negative, some contesting seat holds the largest commitment of the
table (so every all-in seat is in for at most that and no folded seat has committed more) and
every contesting seat that is not all-in has matched it.

All theorems are for every ledger of any length, any commitments and any strengths. -/
namespace RP.C04
open RP.Showdown RP.Pots RP.C04L

/-- termination and adequacy of the model's fuel, for EVERY ledger (also outside the property's
    hypotheses): the final state of the model is the result of the two `while let` loops
    (`OuterRun`/`InnerRun` are their fuel-free big-step semantics). `best` strictly decreases over
    the strengths present, `distributing` strictly increases over the commitments present. -/
theorem C04_terminates (l : List Entry) : OuterRun (init l) (run l) := by
  apply outer_run
  have := List.length_filter_le (fun s : Seat => live s && below (init l).best s.strength)
    (seats (init l).payouts)
  have e : (seats (init l).payouts).length = l.length := by simp [seats, init]
  omega

/-- the engine does not touch commitments, states or strengths, nor the number of seats -/
theorem C04_seats_preserved {l : List Entry} (hl : ValidLedger l) : seats (settle l) = seats l :=
  (run_spec hl).1.seats_eq

/-- every commitment is covered when the loop ends (the loops did not run out of fuel: the
    engine left through `is_complete` or because no strength level was left) -/
theorem C04_all_layers_paid {l : List Entry} (hl : ValidLedger l) :
    ∀ p ∈ l, p.risked ≤ (run l).distributing := by
  intro p hp
  exact (run_spec hl).2 (seat p) (mem_seats hp)

/-- ① pays out exactly the chips that were put in -/
theorem C04_conservation {l : List Entry} (hl : ValidLedger l) :
    sumInt ((settle l).map (·.reward)) = sumInt (l.map (·.risked)) := by
  have ⟨hI, hall⟩ := run_spec hl
  have ht := hI.total
  have e : sumInt (l.map (·.risked)) = sumInt ((seats l).map (·.risked)) :=
    sum_over_seats l (·.risked)
  rw [e]
  show sumInt ((run l).payouts.map (·.reward)) = _
  rw [ht]
  unfold potSum
  apply sumInt_map_congr
  intro s hs
  have h1 := hall s hs
  have h2 := hl.2.1 s hs
  omega

/-- ① pays nothing to folded players -/
theorem C04_folded_zero {l : List Entry} (hl : ValidLedger l) :
    ∀ q ∈ settle l, q.status = Status.folding → q.reward = 0 := by
  intro q hq hf
  have hg := (run_spec hl).1.each q hq
  exact hg.folded (by simp [live, seat, hf])

/-- ① each layer goes to the strongest contesting hand that paid into it, split equally with
    only whole odd chips left over: a seat receives at least the sum of the floor shares and at
    most the sum of the ceiling shares of the layers it wins (robust to the engine merging
    adjacent layers with the same winner set) -/
theorem C04_share_bounds {l : List Entry} (hl : ValidLedger l) :
    ∀ q ∈ settle l, lower (seats l) (seat q) ≤ q.reward ∧ q.reward ≤ upper (seats l) (seat q) := by
  intro q hq
  have ⟨hI, hall⟩ := run_spec hl
  have hg := hI.each q hq
  have h1 := hg.lo
  have h2 := hg.hi
  rw [lowerTo_final _ hall] at h1
  rw [upperTo_final _ hall] at h2
  exact ⟨h1, h2⟩

/-- ① a seat that is paid anything is a winner of some layer (eligible: contesting and paid into
    the layer; no eligible seat is stronger) -/
theorem C04_paid_only_to_layer_winner {l : List Entry} (hl : ValidLedger l) :
    ∀ q ∈ settle l, 0 < q.reward →
      ∃ ab ∈ layers (seats l), wins (seats l) ab.2 (seat q) = true := by
  intro q hq hpos
  apply Classical.byContradiction
  intro hno
  have h2 := (C04_share_bounds hl q hq).2
  have : upper (seats l) (seat q) = 0 := by
    rw [upper_eq, sumInt_map_congr _ (fun _ => (0 : Int)) (layers (seats l))]
    · exact sumInt_map_zero _
    · intro ab hab
      have : wins (seats l) ab.2 (seat q) = false := by
        cases h : wins (seats l) ab.2 (seat q) with
        | false => rfl
        | true => exact absurd ⟨ab, hab, h⟩ hno
      simp [ceilTerm, this]
  omega

/-- ① never pays a player more than the others' contributions up to his own commitment allow -/
theorem C04_cap {l : List Entry} (hl : ValidLedger l) :
    ∀ q ∈ settle l, q.reward ≤ cap (seats l) (seat q) := by
  intro q hq
  have ⟨hI, hall⟩ := run_spec hl
  have hg := (hI.each q hq).cap
  have hqs : seat q ∈ seats l := by
    have := mem_seats hq
    rw [show seats (settle l) = seats l from hI.seats_eq] at this
    exact this
  have hle := hall (seat q) hqs
  simp only [seat] at hle
  have e : min q.risked (run l).distributing = q.risked := by omega
  rw [e] at hg
  have : potSum (seats l) 0 q.risked = cap (seats l) (seat q) := by
    unfold potSum cap
    apply sumInt_map_congr
    intro s hs
    have := hl.2.1 s hs
    simp only [seat]; omega
  omega

/-- rewards are never negative -/
theorem C04_reward_nonneg {l : List Entry} (hl : ValidLedger l) : ∀ q ∈ settle l, 0 ≤ q.reward := by
  intro q hq
  have h1 := (C04_share_bounds hl q hq).1
  have : 0 ≤ lower (seats l) (seat q) := by
    rw [lower_eq]
    have := sumInt_map_le (fun _ => (0 : Int)) (floorTerm (seats l) (seat q)) (layers (seats l)) (by
      rintro ⟨a, b⟩ hab
      show 0 ≤ floorTerm (seats l) (seat q) (a, b)
      unfold floorTerm floorDiv
      split
      · rw [pot_eq_potSum _ hab]
        have ⟨h1, _, _, _⟩ := layer_facts (chain_levels (seats l)) hab
        exact Int.ediv_nonneg (potSum_nonneg _ (by omega)) (by omega)
      · exact Int.le_refl _)
    rw [sumInt_map_zero] at this
    exact this
  omega

/-- ② the exact payout: cut the pot at the commitment levels, merge adjacent layers with the same
    winner set; every merged layer pays `⌊chips / n⌋` to each of its `n` winners and one more chip
    to the first `chips mod n` winners in seat order (`RP.Pots.payout`) -/
theorem C04_exact_merged_layers {l : List Entry} (hl : ValidLedger l) :
    rewards l = payout (seats l) := by
  have ⟨hI, hall⟩ := run_spec hl
  have hx := hI.exact
  have e1 : after (run l).distributing (layers (seats l)) = [] := by
    apply List.filter_eq_nil_iff.2
    intro ab hab
    have := layer_top_le (seats l) hall hab
    simp; omega
  have hlen : ((run l).payouts.map (·.reward)).length = (seats l).length := by
    have := congrArg List.length hI.seats_eq
    simpa [seats] using this
  rw [e1] at hx
  have e2 : payoutOf (seats l) [] = (seats l).map (fun _ => (0 : Int)) := rfl
  rw [e2, addVec_zeros_right (seats l) _ hlen] at hx
  exact hx

/-- for callers (the game model, C02): conservation and the exact payout need only that the
    ledger is fresh, commitments are non-negative and some contesting seat holds the largest
    commitment of the table (`Covered`, implied by `Valid`) -/
theorem conservation_of_covered {l : List Entry} (hz : ∀ p ∈ l, p.reward = 0)
    (hc : Covered (seats l)) :
    sumInt ((settle l).map (·.reward)) = sumInt (l.map (·.risked)) ∧
    rewards l = payout (seats l) ∧ seats (settle l) = seats l := by
  have ⟨hI, hall⟩ := run_spec_covered hz hc
  refine ⟨?_, ?_, hI.seats_eq⟩
  · have ht := hI.total
    have e : sumInt (l.map (·.risked)) = sumInt ((seats l).map (·.risked)) :=
      sum_over_seats l (·.risked)
    rw [e]
    show sumInt ((run l).payouts.map (·.reward)) = _
    rw [ht]
    unfold potSum
    apply sumInt_map_congr
    intro s hs
    have h1 := hall s hs
    have h2 := hc.1 s hs
    omega
  · have hx := hI.exact
    have e1 : after (run l).distributing (layers (seats l)) = [] := by
      apply List.filter_eq_nil_iff.2
      intro ab hab
      have := layer_top_le (seats l) hall hab
      simp; omega
    have hlen : ((run l).payouts.map (·.reward)).length = (seats l).length := by
      have := congrArg List.length hI.seats_eq
      simpa [seats] using this
    rw [e1] at hx
    have e2 : payoutOf (seats l) [] = (seats l).map (fun _ => (0 : Int)) := rfl
    rw [e2, addVec_zeros_right (seats l) _ hlen] at hx
    exact hx

/-! ### the specification is the intended one (sanity of `levels`, `floorDiv`, `ceilDiv`) -/

/-- the levels are exactly the positive commitments … -/
theorem levels_mem (ss : List Seat) (y : Int) : y ∈ levels ss ↔ 0 < y ∧ ∃ s ∈ ss, s.risked = y :=
  mem_levels

/-- … in strictly increasing order starting above 0 -/
theorem levels_increasing (ss : List Seat) : Chain 0 (levels ss) := chain_levels ss

/-- `floorDiv`/`ceilDiv` are the floor and the ceiling of the quotient -/
theorem floor_ceil_spec (x : Int) (n : Nat) (hn : 0 < n) :
    floorDiv x n * n ≤ x ∧ x < (floorDiv x n + 1) * n ∧
    x ≤ ceilDiv x n * n ∧ (ceilDiv x n - 1) * n < x := by
  have hn' : (0 : Int) < n := by omega
  have hne : (n : Int) ≠ 0 := by omega
  unfold floorDiv ceilDiv
  have h1 := Int.ediv_mul_le x hne
  have h2 := Int.lt_ediv_add_one_mul_self x hn'
  have h3 := Int.ediv_mul_le (-x) hne
  have h4 := Int.lt_ediv_add_one_mul_self (-x) hn'
  refine ⟨h1, h2, ?_, ?_⟩
  · rw [Int.neg_mul]; omega
  · rw [Int.sub_mul, Int.neg_mul]; rw [Int.add_mul] at h4; omega

/-! ### non-vacuity: concrete ledgers inside the hypotheses -/

/-- three levels, an odd chip, a folded seat with money between two all-in levels -/
def ex1 : List Entry :=
  [Entry.mk0 3 .shoving 9, Entry.mk0 4 .betting 3, Entry.mk0 4 .betting 3, Entry.mk0 2 .folding 10,
   Entry.mk0 1 .shoving 9]

example : ValidLedger ex1 := by decide
example : rewards ex1 = [10, 1, 1, 0, 2] := by decide
example : layers (seats ex1) = [(0, 1), (1, 2), (2, 3), (3, 4)] := by decide
example : (seats ex1).map (lower (seats ex1)) = [9, 1, 1, 0, 2] := by decide
example : (seats ex1).map (upper (seats ex1)) = [10, 1, 1, 0, 3] := by decide
example : payout (seats ex1) = [10, 1, 1, 0, 2] := by decide
example : merge (seats ex1) (layers (seats ex1))
    = [([true, false, false, false, true], 5), ([true, false, false, false, false], 7),
       ([false, true, true, false, false], 2)] := by decide
example : sumInt ((settle ex1).map (·.reward)) = sumInt (ex1.map (·.risked)) :=
  C04_conservation (by decide)

/-- a tie with an odd chip: 5 chips between two winners -/
def ex2 : List Entry := [Entry.mk0 2 .betting 5, Entry.mk0 2 .betting 5, Entry.mk0 1 .folding 9]

example : ValidLedger ex2 := by decide
example : rewards ex2 = [3, 2, 0] := by decide
example : (seats ex2).map (lower (seats ex2)) = [2, 2, 0] := by decide
example : (seats ex2).map (upper (seats ex2)) = [3, 3, 0] := by decide
example : (seats ex2).map (cap (seats ex2)) = [5, 5, 3] := by decide
example : payout (seats ex2) = [3, 2, 0] := by decide

/-- the hypothesis on folded seats is needed: a folded seat above the largest contesting
    commitment leaves chips unpaid (the engine has nobody to give the top layer to) -/
def ex3 : List Entry := [Entry.mk0 5 .folding 1, Entry.mk0 3 .betting 2]

example : ¬ ValidLedger ex3 := by decide
example : rewards ex3 = [0, 6] ∧ sumInt (ex3.map (·.risked)) = 8 := by decide

end RP.C04
