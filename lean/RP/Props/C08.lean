import RP.Lemmas.Cfr
/-! # C08 — Regret updates are the external-sampling counterfactual regret estimator

Model: `RP.Cfr` (`Model/Cfr.lean`), function by function the fixed `profile.rs`.
Specification: `RP.Cfr.Spec` (`Spec/Cfr.lean`), the textbook estimator.

All theorems are over an arbitrary field `K`, an arbitrary well-formed flat tree
(`parent < index`, adjacency table lists only children), an arbitrary profile `σ`, and assume that
the external reach of the leaves below the information set is non-zero (the code divides by it).

* `C08_estimator` : `immediateRegret = Σ_{h∈I} ( v(h·a) − Σ_b σ(h,b)·v(h·b) )`
* `C08_regretVector` : `regret_vector` is that value, clamped, for each action of the first node
* `C08_value_unrolled` : `v(c) = Σ_{leaves ℓ below c} u(ℓ) · Π_{walker edges on c→ℓ} σ`
* `C08_shift` : unchanged by `u ↦ u + c` (external-sampling shape, traverser's σ sums to 1)
* `C08_flat` : zero when all actions are worth the same
* `pinned_not_shift_invariant` : the pre-fix algebra violates shift invariance (2-action tree)

Partial with respect to the property: exact arithmetic; `f32` rounding is only compared
(tolerance `1e-4·Σ|terms|`) by the correspondence run. -/
namespace RP.C08
open RP.Cfr

variable {K : Type} [Field K]

/-! ## the model's reach functions are path products -/

/-- factor of an edge in `relative_reach` / `profiled_reach` -/
def reachF (t : Tree K) (σ : Nat → Nat → K) (p n : Nat) : K := reach t σ p (t.incoming n)
/-- factor of an edge in `external_reach` -/
def extF (t : Tree K) (σ : Nat → Nat → K) (p n : Nat) : K :=
  if t.player p = .walker then 1 else reach t σ p (t.incoming n)

theorem relativeReach_eq_pp (t : Tree K) (σ : Nat → Nat → K) (c l : Nat) :
    relativeReach t σ c l = pp t (reachF t σ) (some c) l := by
  unfold relativeReach pp
  generalize l + 1 = f
  induction f generalizing l with
  | zero => rfl
  | succ f ih =>
    unfold relativeReachAux ppAux
    by_cases h : c = l
    · simp [h]
    · simp only [h, if_false, Option.some.injEq]
      cases t.parent l with
      | none => rfl
      | some p => simp only [ih p, reachF]

theorem externalReach_eq_pp (t : Tree K) (σ : Nat → Nat → K) (n : Nat) :
    externalReach t σ n = pp t (extF t σ) none n := by
  unfold externalReach pp
  generalize n + 1 = f
  induction f generalizing n with
  | zero => rfl
  | succ f ih =>
    unfold externalReachAux ppAux
    simp only [reduceCtorEq, if_false]
    cases t.parent n with
    | none => rfl
    | some p =>
      simp only [ih p, extF]
      split <;> simp

theorem walkerProb_eq_pp (t : Tree K) (σ : Nat → Nat → K) (c l : Nat) :
    Spec.walkerProb t σ c l = pp t (Spec.weight t σ) (some c) l := by
  unfold Spec.walkerProb pp
  generalize l + 1 = f
  induction f generalizing l with
  | zero => rfl
  | succ f ih =>
    unfold Spec.walkerProbAux ppAux
    by_cases h : c = l
    · simp [h]
    · simp only [h, if_false, Option.some.injEq]
      cases t.parent l with
      | none => rfl
      | some p => simp only [ih p]

/-- `reach = (traverser's part) · (external part)` on every edge -/
theorem reachF_factor (t : Tree K) (σ : Nat → Nat → K) :
    reachF t σ = fun p n => Spec.weight t σ p n * extF t σ p n := by
  funext p n
  unfold reachF Spec.weight extF reach
  by_cases h : t.player p = .walker
  · simp [h]
  · simp [h]

/-- **Path lemma** (Appendix A.5): for a leaf `l` below `c`,
    `external_reach(c) · terminal_value(c, l) = u(l) · Π_{walker edges c→l} σ`. -/
theorem ext_mul_terminalValue {t : Tree K} (wf : t.WF) (σ : Nat → Nat → K) {c l : Nat}
    (hcl : Anc t c l) (hne : externalReach t σ l ≠ 0) :
    externalReach t σ c * terminalValue t σ c l = t.payoff l * Spec.walkerProb t σ c l := by
  unfold terminalValue
  rw [relativeReach_eq_pp, walkerProb_eq_pp, reachF_factor]
  have hmul := pp_mul (t := t) (Spec.weight t σ) (extF t σ) (some c) (l+1) l
  change pp t (fun p n => Spec.weight t σ p n * extF t σ p n) (some c) l = _ at hmul
  rw [hmul]
  change externalReach t σ c * (t.payoff l * (pp t (Spec.weight t σ) (some c) l * pp t (extF t σ) (some c) l)
    / externalReach t σ l) = _
  rw [externalReach_eq_pp] at hne ⊢
  rw [externalReach_eq_pp]
  have hsplit := pp_split wf (extF t σ) (s := none) hcl (by intro h e; cases e)
  rw [hsplit] at hne ⊢
  have hA : pp t (extF t σ) none c ≠ 0 := left_ne_zero_of_mul hne
  have hE : pp t (extF t σ) (some c) l ≠ 0 := right_ne_zero_of_mul hne
  field_simp

/-! ## the unrolled value equals the recursive textbook value -/

theorem walkerProb_self (t : Tree K) (σ : Nat → Nat → K) (n : Nat) : Spec.walkerProb t σ n n = 1 := by
  rw [walkerProb_eq_pp, pp_stop]

theorem walkerProb_kid {t : Tree K} (wf : t.WF) (σ : Nat → Nat → K) {n c l : Nat}
    (hc : c ∈ t.kids n) (hl : Anc t c l) :
    Spec.walkerProb t σ n l = Spec.weight t σ n c * Spec.walkerProb t σ c l := by
  rw [walkerProb_eq_pp, walkerProb_eq_pp]
  rw [pp_split wf (Spec.weight t σ) (s := some n) hl
    (by intro h e; injection e with e; subst e; exact Anc.kid wf hc)]
  have hne : (some n : Option Nat) ≠ some c := by
    intro e; injection e with e; have := wf.kid_gt hc; omega
  rw [pp_step wf _ (wf.kids_parent n c hc) hne, pp_stop, one_mul]

theorem valueOver_leavesAux {t : Tree K} (wf : t.WF) (σ : Nat → Nat → K) :
    ∀ f n, t.size ≤ f + n → Spec.valueOver t σ n (leavesAux t f n) = Spec.valueAux t σ f n := by
  intro f
  induction f with
  | zero => intro n _; simp [leavesAux, Spec.valueOver, Spec.valueAux, walkerProb_self]
  | succ f ih =>
    intro n hn
    unfold leavesAux Spec.valueAux
    by_cases hk : t.kids n = []
    · simp [hk, Spec.valueOver, walkerProb_self]
    · simp only [hk, if_false]
      unfold Spec.valueOver
      rw [sum_flatMap']
      apply sum_map_congr'
      intro c hc
      have hgt := wf.kid_gt hc
      rw [← ih c (by omega)]
      unfold Spec.valueOver
      rw [← sum_map_mul_left']
      apply sum_map_congr'
      intro l hl
      rw [walkerProb_kid wf σ hc (mem_leavesAux_anc wf f c l hl)]
      ring

/-- **Unrolled form of the specification**: the textbook value of a node is the sum over the
    leaves below it of the payoff times the traverser's own probabilities along the path. -/
theorem C08_value_unrolled {t : Tree K} (wf : t.WF) (σ : Nat → Nat → K) (c : Nat) :
    Spec.value t σ c = ((leaves t c).map (fun l => t.payoff l * Spec.walkerProb t σ c l)).sum := by
  unfold Spec.value leaves
  rw [← valueOver_leavesAux wf σ t.size c (by omega)]
  rfl

theorem valueAux_fuel {t : Tree K} (wf : t.WF) (σ : Nat → Nat → K) (f f' n : Nat)
    (h : t.size ≤ f + n) (h' : t.size ≤ f' + n) : Spec.valueAux t σ f n = Spec.valueAux t σ f' n := by
  rw [← valueOver_leavesAux wf σ f n h, ← valueOver_leavesAux wf σ f' n h', leavesAux_fuel wf f f' n h h']

/-- at a traverser node with children, `v(h) = Σ_b σ(h,b)·v(h·b)` -/
theorem value_walker {t : Tree K} (wf : t.WF) (σ : Nat → Nat → K) {h : Nat}
    (hw : t.player h = .walker) (hk : t.kids h ≠ []) : Spec.value t σ h = Spec.nodeValue t σ h := by
  unfold Spec.value Spec.nodeValue
  cases hs : t.size with
  | zero => exfalso; exact hk (wf.kids_nil_of_size_le (by omega))
  | succ s =>
    rw [Spec.valueAux]
    simp only [hk, if_false]
    apply sum_map_congr'
    intro b hb
    have := wf.kid_gt hb
    unfold Spec.value
    rw [hs, valueAux_fuel wf σ s (s+1) b (by omega) (by omega)]
    simp [Spec.weight, hw]

/-! ## model = specification -/

/-- `external_reach(c) · Σ_{leaves below c} terminal_value(c, ·)` is the textbook value of `c` -/
theorem model_value {t : Tree K} (wf : t.WF) (σ : Nat → Nat → K) (c : Nat)
    (hne : ∀ l ∈ leaves t c, externalReach t σ l ≠ 0) :
    externalReach t σ c * ((leaves t c).map (terminalValue t σ c)).sum = Spec.value t σ c := by
  rw [C08_value_unrolled wf, ← sum_map_mul_left']
  apply sum_map_congr'
  intro l hl
  exact ext_mul_terminalValue wf σ (mem_leavesAux_anc wf _ c l hl) (hne l hl)

theorem expectedValue_eq {t : Tree K} (wf : t.WF) (σ : Nat → Nat → K) (h : Nat)
    (hne : ∀ l ∈ leaves t h, externalReach t σ l ≠ 0) :
    expectedValue t σ h = Spec.value t σ h := model_value wf σ h hne

/-- the child of a traverser node has the same external reach -/
theorem externalReach_kid_of_walker {t : Tree K} (wf : t.WF) (σ : Nat → Nat → K) {h c : Nat}
    (hc : c ∈ t.kids h) (hw : t.player h = .walker) : externalReach t σ c = externalReach t σ h := by
  rw [externalReach_eq_pp, externalReach_eq_pp, pp_step wf _ (wf.kids_parent h c hc) (by simp)]
  simp [extF, hw]

theorem cfactualValue_eq {t : Tree K} (wf : t.WF) (σ : Nat → Nat → K) {h a c : Nat}
    (hw : t.player h = .walker) (hf : follow t h a = some c)
    (hne : ∀ l ∈ leaves t h, externalReach t σ l ≠ 0) :
    cfactualValue t σ h a = Spec.value t σ c := by
  have hc := (follow_mem hf).1
  unfold cfactualValue
  rw [hf]
  simp only []
  rw [← externalReach_kid_of_walker wf σ hc hw]
  exact model_value wf σ c (fun l hl => hne l (leaves_kid_subset wf hc l hl))

theorem gain_eq {t : Tree K} (wf : t.WF) (σ : Nat → Nat → K) {h a : Nat}
    (hw : t.player h = .walker) (hf : (follow t h a).isSome)
    (hne : ∀ l ∈ leaves t h, externalReach t σ l ≠ 0) :
    gain t σ h a = Spec.actionValue t σ h a - Spec.nodeValue t σ h := by
  obtain ⟨c, hc⟩ := Option.isSome_iff_exists.mp hf
  have hk : t.kids h ≠ [] := by
    intro e; have := (follow_mem hc).1; rw [e] at this; simp at this
  unfold gain
  rw [cfactualValue_eq wf σ hw hc hne, expectedValue_eq wf σ h hne, value_walker wf σ hw hk]
  have : Spec.child t h a = some c := hc
  simp [Spec.actionValue, this]

/-- **C08 (estimator).** The regret the model of `Profile::immediate_regret` records for action `a`
    at the information set `I = roots` equals
    `Σ_{h∈I} ( v(h·a) − Σ_b σ(h,b)·v(h·b) )` with `v` the sampled counterfactual value. -/
theorem C08_estimator (t : Tree K) (σ : Nat → Nat → K) (roots : List Nat) (a : Nat) (wf : t.WF)
    (hw : ∀ h ∈ roots, t.player h = .walker)
    (ha : ∀ h ∈ roots, (follow t h a).isSome)
    (hne : ∀ h ∈ roots, ∀ l ∈ leaves t h, externalReach t σ l ≠ 0) :
    immediateRegret t σ roots a = Spec.regret t σ roots a := by
  unfold immediateRegret Spec.regret
  apply sum_map_congr'
  intro h hh
  exact gain_eq wf σ (hw h hh) (ha h hh) (hne h hh)

/-- **C08 (regret vector).** `Profile::regret_vector` has one entry per action of the first node of
    the set: the textbook regret clamped to `[lo, hi]` (`REGRET_MIN`, `REGRET_MAX`). -/
theorem C08_regretVector [Max K] [Min K] (t : Tree K) (σ : Nat → Nat → K) (lo hi : K)
    (h0 : Nat) (rest : List Nat) (wf : t.WF)
    (hw : ∀ h ∈ h0 :: rest, t.player h = .walker)
    (ha : ∀ a ∈ outgoing t h0, ∀ h ∈ h0 :: rest, (follow t h a).isSome)
    (hne : ∀ h ∈ h0 :: rest, ∀ l ∈ leaves t h, externalReach t σ l ≠ 0) :
    regretVector t σ lo hi (h0 :: rest) =
      (outgoing t h0).map (fun a => (a, min (max (Spec.regret t σ (h0 :: rest) a) lo) hi)) := by
  unfold regretVector
  apply List.map_congr_left
  intro a haa
  rw [C08_estimator t σ (h0 :: rest) a wf hw (ha a haa) hne]

/-! ## shift invariance -/

/-- external-sampling shape: a node that is not the traverser's has at most one (sampled) child -/
def ExternalShape (t : Tree K) : Prop := ∀ n, t.player n ≠ .walker → (t.kids n).length ≤ 1

/-- the traverser's probabilities sum to one at each of its nodes -/
def WalkerNormalized (t : Tree K) (σ : Nat → Nat → K) : Prop :=
  ∀ n, t.player n = .walker → t.kids n ≠ [] →
    ((t.kids n).map (fun b => σ (t.bucket n) (t.incoming b))).sum = 1

omit [Field K] in
theorem externalShape_of_check {t : Tree K} (wf : t.WF) (h : t.externalShapeB = true) :
    ExternalShape t := by
  intro n hn
  by_cases hs : n < t.size
  · unfold Tree.externalShapeB at h
    simp only [List.all_eq_true, List.mem_range, Bool.or_eq_true, beq_iff_eq, decide_eq_true_eq] at h
    rcases h n hs with h | h
    · exact absurd h hn
    · exact h
  · simp [wf.kids_nil_of_size_le (by omega : t.size ≤ n)]

/-- executable form of `WalkerNormalized` -/
def walkerNormalizedB [DecidableEq K] (t : Tree K) (σ : Nat → Nat → K) : Bool :=
  (List.range t.size).all (fun n => t.player n != .walker || t.kids n == [] ||
    decide (((t.kids n).map (fun b => σ (t.bucket n) (t.incoming b))).sum = 1))

theorem walkerNormalized_of_check [DecidableEq K] {t : Tree K} (wf : t.WF) {σ : Nat → Nat → K}
    (h : walkerNormalizedB t σ = true) : WalkerNormalized t σ := by
  intro n hw hk
  have hs : n < t.size := by
    by_cases hs : n < t.size
    · exact hs
    · exact absurd (wf.kids_nil_of_size_le (by omega : t.size ≤ n)) hk
  unfold walkerNormalizedB at h
  simp only [List.all_eq_true, List.mem_range, Bool.or_eq_true, bne_iff_ne, ne_eq, beq_iff_eq,
    decide_eq_true_eq] at h
  rcases h n hs with (h | h) | h
  · exact absurd hw h
  · exact absurd h hk
  · exact h

/-- the tree with `c` added to every payoff -/
def shift (c : K) (t : Tree K) : Tree K := t.mapPayoff (· + c)

section accessors
variable (c : K) (t : Tree K)
@[simp] theorem shift_kids (i : Nat) : (shift c t).kids i = t.kids i := rfl
@[simp] theorem shift_size : (shift c t).size = t.size := by simp [shift, Tree.mapPayoff, Tree.size]
@[simp] theorem shift_parent (i : Nat) : (shift c t).parent i = t.parent i := by
  simp only [shift, Tree.mapPayoff, Tree.parent, Array.getElem?_map]
  cases t.nodes[i]? <;> rfl
@[simp] theorem shift_incoming (i : Nat) : (shift c t).incoming i = t.incoming i := by
  simp only [shift, Tree.mapPayoff, Tree.incoming, Array.getElem?_map]
  cases t.nodes[i]? <;> rfl
@[simp] theorem shift_player (i : Nat) : (shift c t).player i = t.player i := by
  simp only [shift, Tree.mapPayoff, Tree.player, Array.getElem?_map]
  cases t.nodes[i]? <;> rfl
@[simp] theorem shift_bucket (i : Nat) : (shift c t).bucket i = t.bucket i := by
  simp only [shift, Tree.mapPayoff, Tree.bucket, Array.getElem?_map]
  cases t.nodes[i]? <;> rfl
theorem shift_payoff {i : Nat} (hi : i < t.size) : (shift c t).payoff i = t.payoff i + c := by
  have : i < t.nodes.size := hi
  simp [shift, Tree.mapPayoff, Tree.payoff, this]

theorem shift_wf (wf : t.WF) : (shift c t).WF :=
  ⟨fun i p h => wf.parent_lt i p (by simpa using h), fun i j h => by simpa using wf.kids_parent i j h⟩

theorem shift_follow (h a : Nat) : follow (shift c t) h a = follow t h a := by
  simp [follow]

theorem shift_leavesAux (f n : Nat) : leavesAux (shift c t) f n = leavesAux t f n := by
  induction f generalizing n with
  | zero => rfl
  | succ f ih =>
    unfold leavesAux
    simp only [shift_kids]
    by_cases hk : t.kids n = []
    · simp [hk]
    · simp only [hk, if_false]
      exact flatMap_congr' (fun x _ => ih x)

theorem shift_leaves (n : Nat) : leaves (shift c t) n = leaves t n := by
  simp [leaves, shift_leavesAux]

theorem shift_weight (σ : Nat → Nat → K) (n b : Nat) :
    Spec.weight (shift c t) σ n b = Spec.weight t σ n b := by
  simp [Spec.weight]

theorem shift_externalReach (σ : Nat → Nat → K) (n : Nat) :
    externalReach (shift c t) σ n = externalReach t σ n := by
  unfold externalReach
  generalize n + 1 = f
  induction f generalizing n with
  | zero => rfl
  | succ f ih =>
    unfold externalReachAux
    simp only [shift_parent, shift_player, shift_incoming]
    cases t.parent n with
    | none => rfl
    | some p => simp only [ih p, reach, shift_player, shift_bucket]
end accessors

/-- the textbook value moves by exactly `c` when `c` is added to every payoff -/
theorem value_shift {t : Tree K} (wf : t.WF) (σ : Nat → Nat → K) (es : ExternalShape t)
    (wn : WalkerNormalized t σ) (c : K) :
    ∀ f n, n < t.size → Spec.valueAux (shift c t) σ f n = Spec.valueAux t σ f n + c := by
  intro f
  induction f with
  | zero => intro n hn; simp [Spec.valueAux, shift_payoff c t hn]
  | succ f ih =>
    intro n hn
    unfold Spec.valueAux
    simp only [shift_kids]
    by_cases hk : t.kids n = []
    · simp [hk, shift_payoff c t hn]
    · simp only [hk, if_false]
      have h1 : ((t.kids n).map (fun b => Spec.weight (shift c t) σ n b * Spec.valueAux (shift c t) σ f b)).sum
          = ((t.kids n).map (fun b => Spec.weight t σ n b * (Spec.valueAux t σ f b + c))).sum := by
        apply sum_map_congr'
        intro b hb
        rw [shift_weight, ih b (wf.kid_lt_size hb)]
      rw [h1, sum_map_mul_add']
      have h2 : ((t.kids n).map (fun b => Spec.weight t σ n b)).sum = 1 := by
        by_cases hw : t.player n = .walker
        · have := wn n hw hk
          simpa [Spec.weight, hw] using this
        · have hlen := es n hw
          match hkk : t.kids n, hk, hlen with
          | [b], _, _ => simp [Spec.weight, hw]
          | [], h, _ => exact absurd rfl h
          | _ :: _ :: _, _, h => simp at h
      rw [h2, mul_one]

theorem regret_shift {t : Tree K} (wf : t.WF) (σ : Nat → Nat → K) (es : ExternalShape t)
    (wn : WalkerNormalized t σ) (c : K) (roots : List Nat) (a : Nat)
    (hw : ∀ h ∈ roots, t.player h = .walker) (ha : ∀ h ∈ roots, (follow t h a).isSome) :
    Spec.regret (shift c t) σ roots a = Spec.regret t σ roots a := by
  unfold Spec.regret
  apply sum_map_congr'
  intro h hh
  obtain ⟨k, hk⟩ := Option.isSome_iff_exists.mp (ha h hh)
  have hkm := (follow_mem hk).1
  have hne : t.kids h ≠ [] := by intro e; rw [e] at hkm; simp at hkm
  have e1 : Spec.child (shift c t) h a = some k := by
    have : Spec.child (shift c t) h a = follow (shift c t) h a := rfl
    rw [this, shift_follow, hk]
  have e2 : Spec.child t h a = some k := hk
  have hv : ∀ b ∈ t.kids h, Spec.value (shift c t) σ b = Spec.value t σ b + c := by
    intro b hb
    unfold Spec.value
    rw [shift_size]
    exact value_shift wf σ es wn c t.size b (wf.kid_lt_size hb)
  unfold Spec.actionValue Spec.nodeValue
  rw [e1, e2]
  simp only [shift_kids, shift_bucket, shift_incoming]
  rw [hv k hkm]
  have h1 : ((t.kids h).map (fun b => σ (t.bucket h) (t.incoming b) * Spec.value (shift c t) σ b)).sum
      = ((t.kids h).map (fun b => σ (t.bucket h) (t.incoming b) * (Spec.value t σ b + c))).sum := by
    apply sum_map_congr'
    intro b hb
    rw [hv b hb]
  rw [h1, sum_map_mul_add', wn h (hw h hh) hne]
  ring

/-- **C08 (shift invariance).** In a tree of external-sampling shape, with the traverser's
    probabilities summing to one at each of its nodes, the recorded regret is unchanged when a
    constant is added to all payoffs. -/
theorem C08_shift (t : Tree K) (σ : Nat → Nat → K) (roots : List Nat) (a : Nat) (c : K) (wf : t.WF)
    (es : ExternalShape t) (wn : WalkerNormalized t σ)
    (hw : ∀ h ∈ roots, t.player h = .walker)
    (ha : ∀ h ∈ roots, (follow t h a).isSome)
    (hne : ∀ h ∈ roots, ∀ l ∈ leaves t h, externalReach t σ l ≠ 0) :
    immediateRegret (shift c t) σ roots a = immediateRegret t σ roots a := by
  rw [C08_estimator t σ roots a wf hw ha hne,
    C08_estimator (shift c t) σ roots a (shift_wf c t wf) (by simpa using hw)
      (by simpa [shift_follow] using ha)
      (by simpa [shift_leaves, shift_externalReach] using hne)]
  exact regret_shift wf σ es wn c roots a hw ha

/-- **C08 (all actions worth the same).** If at every node of the set all actions have the same
    value and the traverser's probabilities there sum to one, the recorded regret of every action
    is zero. -/
theorem C08_flat (t : Tree K) (σ : Nat → Nat → K) (roots : List Nat) (a : Nat) (wf : t.WF)
    (hw : ∀ h ∈ roots, t.player h = .walker)
    (ha : ∀ h ∈ roots, (follow t h a).isSome)
    (hne : ∀ h ∈ roots, ∀ l ∈ leaves t h, externalReach t σ l ≠ 0)
    (hsum : ∀ h ∈ roots, ((t.kids h).map (fun b => σ (t.bucket h) (t.incoming b))).sum = 1)
    (hflat : ∀ h ∈ roots, ∃ k : K, ∀ b ∈ t.kids h, Spec.value t σ b = k) :
    immediateRegret t σ roots a = 0 := by
  rw [C08_estimator t σ roots a wf hw ha hne]
  unfold Spec.regret
  have : ∀ h ∈ roots, Spec.actionValue t σ h a - Spec.nodeValue t σ h = 0 := by
    intro h hh
    obtain ⟨c, hc⟩ := Option.isSome_iff_exists.mp (ha h hh)
    obtain ⟨k, hk⟩ := hflat h hh
    have e2 : Spec.child t h a = some c := hc
    unfold Spec.actionValue Spec.nodeValue
    rw [e2]
    simp only []
    rw [hk c (follow_mem hc).1]
    have h1 : ((t.kids h).map (fun b => σ (t.bucket h) (t.incoming b) * Spec.value t σ b)).sum
        = ((t.kids h).map (fun b => k * σ (t.bucket h) (t.incoming b))).sum := by
      apply sum_map_congr'
      intro b hb
      rw [hk b hb, mul_comm]
    rw [h1, sum_map_mul_left', hsum h hh]
    ring
  rw [sum_map_congr' this]
  simp

/-! ## non-vacuity: a concrete tree (traverser – opponent – traverser – chance – leaf) -/

/-- ```
    0 walker b0 ─2→ 1 leaf (−1)
                ─4→ 2 opponent b1 ─6→ 3 walker b2 ─2→ 4 leaf (−3)
                                                   ─4→ 5 chance ─1→ 6 leaf (7)
    ``` -/
def ex : Tree ℚ := Tree.ofNodes #[
  ⟨none, 0, .walker, 0, 0⟩, ⟨some 0, 2, .terminal, 9, -1⟩, ⟨some 0, 4, .opponent, 1, 0⟩,
  ⟨some 2, 6, .walker, 2, 0⟩, ⟨some 3, 2, .terminal, 9, -3⟩, ⟨some 3, 4, .chance, 3, 0⟩,
  ⟨some 5, 1, .terminal, 9, 7⟩]

def σx : Nat → Nat → ℚ
  | 0, 2 => 1/4 | 0, 4 => 3/4 | 1, 6 => 1/3 | 2, 2 => 2/5 | 2, 4 => 3/5 | _, _ => 0

theorem ex_wf : ex.WF := Tree.wfb_sound _ (by decide +kernel)
theorem ex_shape : ExternalShape ex := externalShape_of_check ex_wf (by decide +kernel)
theorem ex_norm : WalkerNormalized ex σx := walkerNormalized_of_check ex_wf (by decide +kernel)

example : leaves ex 0 = [6, 4, 1] := by decide +kernel
example : externalReach ex σx 6 = 1/3 := by decide +kernel
-- regrets at the root, at the inner traverser node, and of the (artificial) two-node set
example : immediateRegret ex σx [0] 2 = -3 ∧ immediateRegret ex σx [0] 4 = 1 := by decide +kernel
example : immediateRegret ex σx [3] 2 = -6 ∧ immediateRegret ex σx [3] 4 = 4 := by decide +kernel
example : immediateRegret ex σx [0, 3] 4 = 5 := by decide +kernel
example : Spec.regret ex σx [0, 3] 4 = 5 := by decide +kernel
example : regretVector ex σx (-300000) 2 [0, 3] = [(4, 2), (2, -9)] := by decide +kernel
-- the hypotheses of the theorems are satisfiable, and the theorems apply
example : immediateRegret ex σx [0, 3] 4 = Spec.regret ex σx [0, 3] 4 :=
  C08_estimator ex σx [0, 3] 4 ex_wf (by decide +kernel) (by decide +kernel) (by decide +kernel)
example : immediateRegret (shift 10 ex) σx [0, 3] 4 = immediateRegret ex σx [0, 3] 4 :=
  C08_shift ex σx [0, 3] 4 10 ex_wf ex_shape ex_norm (by decide +kernel) (by decide +kernel)
    (by decide +kernel)
example : immediateRegret (shift 10 ex) σx [0, 3] 4 = 5 := by decide +kernel

/-- all actions worth the same (both leaves pay 2): zero regret -/
def exFlat : Tree ℚ := Tree.ofNodes #[
  ⟨none, 0, .walker, 0, 0⟩, ⟨some 0, 2, .terminal, 9, 2⟩, ⟨some 0, 4, .terminal, 9, 2⟩]
example : immediateRegret exFlat σx [0] 2 = 0 :=
  C08_flat exFlat σx [0] 2 (Tree.wfb_sound _ (by decide +kernel)) (by decide +kernel)
    (by decide +kernel) (by decide +kernel) (by decide +kernel)
    (by intro h hh; exact ⟨2, by simp at hh; subst hh; decide +kernel⟩)

/-! ## the algebra pinned before commit d6f8047 is not the estimator

`Pinned.immediateRegret = Σ_h ( σ(h,a)·v(h·a) − π_walker(h)·Σ_b σ(h,b)·v(h·b) )`.  On the two-action
tree below (payoffs 1 and 0, σ = ¼, ¾) it changes when 1 is added to both payoffs, and it is
non-zero when both actions are worth the same; the fixed model gives the textbook values. -/
def ex2 : Tree ℚ := Tree.ofNodes #[
  ⟨none, 0, .walker, 0, 0⟩, ⟨some 0, 2, .terminal, 9, 1⟩, ⟨some 0, 4, .terminal, 9, 0⟩]

theorem pinned_not_shift_invariant :
    Pinned.immediateRegret ex2 σx [0] 2 = 0 ∧ Pinned.immediateRegret (shift 1 ex2) σx [0] 2 = -3/4 ∧
    immediateRegret ex2 σx [0] 2 = 3/4 ∧ immediateRegret (shift 1 ex2) σx [0] 2 = 3/4 := by
  decide +kernel

theorem pinned_not_flat :
    Pinned.immediateRegret exFlat σx [0] 2 = -3/2 ∧ immediateRegret exFlat σx [0] 2 = 0 := by
  decide +kernel

end RP.C08
