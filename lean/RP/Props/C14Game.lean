import RP.Lemmas.Game
import RP.Props.C14
/-! # C14 (dealing half) — hole cards and board are pairwise disjoint in every state of every
hand; the deck is the complement of the cards in play; dealt cards are never cards in play

Model: `RP.Game` (`lean/RP/Model/Game.lean`): holes and board are 64-bit card masks, `deck g` is
`Game::deck` (`removed.complement()`), `isAllowed g (.draw c)` is the `Action::Draw` arm of
`Game::is_allowed`, `showCards` is `Game::show` (`Board::add`). The statements hold in every
state reachable from a freshly dealt hand with a valid deal by any accepted action list
(`RP.Game.inv_run`): the card clauses are part of the invariant `GameInv`.

`Game::draw()` = `self.deck().deal(street)` draws `n_revealed` cards with `Deck::draw`; by the
deck half (`RP.C14.C14_draw_total`, `C14_draw_removes`) every such card is a card of `deck g`,
and `C14_deck_complement` says those are exactly the cards not in play; `C14_offer_fresh` puts
the two together for the model of `Deck::deal` (`dealFrom`). -/
namespace RP.C14
open RP.Game RP.Deck
open RP.Bits

/-- cards in play are pairwise disjoint and inside the 52-card mask; the board has 0/3/4/5 cards -/
structure Dealt (g : Game) : Prop where
  holes : g.s0.hole &&& g.s1.hole = 0
  board0 : g.board &&& g.s0.hole = 0
  board1 : g.board &&& g.s1.hole = 0
  inside : g.board < 2 ^ 52 ∧ g.s0.hole < 2 ^ 52 ∧ g.s1.hole < 2 ^ 52
  size : popW 64 g.board = 0 ∨ popW 64 g.board = 3 ∨ popW 64 g.board = 4 ∨ popW 64 g.board = 5

theorem dealt_of_inv {g : Game} (h : GameInv g) : Dealt g := by
  obtain ⟨a, b, c, d, e, f⟩ := h.cards
  refine ⟨f, d, e, ⟨a, b, c⟩, ?_⟩
  have hs := h.street_ok
  unfold street at hs; rw [streetOf_eq] at hs
  generalize popW 64 g.board = n at *
  by_cases h0 : n = 0
  · exact Or.inl h0
  by_cases h3 : n = 3
  · exact Or.inr (Or.inl h3)
  by_cases h4 : n = 4
  · exact Or.inr (Or.inr (Or.inl h4))
  by_cases h5 : n = 5
  · exact Or.inr (Or.inr (Or.inr h5))
  · simp [h0, h3, h4, h5] at hs

/-- **C14, dealing invariant.** In every state of every hand (any accepted action list from a
freshly dealt hand with a valid deal) holes and board are pairwise disjoint. -/
theorem C14_game_disjoint {h0 h1 : Nat} (hv : ValidDeal h0 h1) {as : List Action} {g : Game}
    (hr : run? (root h0 h1) as = some g) : Dealt g :=
  dealt_of_inv (inv_run (inv_root hv) hr)

/-- the holes never change -/
theorem C14_holes_fixed {g g' : Game} {a : Action} (h : GameInv g) (hs : step? g a = some g') :
    g'.s0.hole = g.s0.hole ∧ g'.s1.hole = g.s1.hole := by
  rw [step?_eq h] at hs
  have ha : isAllowed g a = true := by
    cases hq : isAllowed g a
    · simp [hq] at hs
    · rfl
  simp only [ha, if_true, Option.some.injEq] at hs
  subst hs
  cases a with
  | draw c =>
    rw [(inv_draw h ha).1]; unfold nextStreet
    split <;> exact ⟨rfl, rfl⟩
  | fold => rw [(inv_fold h ha).1]; exact hole_fold g
  | check => rw [(inv_check h ha).1]; exact ⟨rfl, rfl⟩
  | call x => rw [(inv_call h ha).1]; split <;> exact hole_bet g x
  | raise x => rw [(inv_raise h ha).1]; exact hole_bet g x
  | shove x => rw [(inv_shove h ha).1]; split <;> exact hole_bet g x
  | blind x => rw [allowed_blind_iff h x] at ha; cases ha

/-- **`Game::deck` is the complement of the cards in play** (inside the 52-card mask). -/
theorem C14_deck_complement {g : Game} (h : GameInv g) (c : Nat) :
    (deck g).testBit c = (decide (c < 52) && !(inPlay g).testBit c) := by
  unfold deck; rw [handMask_eq, Nat.testBit_xor, Nat.testBit_two_pow_sub_one]
  by_cases hc : c < 52
  · simp [hc]
  · have : (inPlay g).testBit c = false :=
      Nat.testBit_lt_two_pow (Nat.lt_of_lt_of_le (inPlay_lt h.cards) (Nat.pow_le_pow_right (by omega) (by omega)))
    simp [hc, this]

/-- **An accepted deal consists of fresh cards**: disjoint from both holes and from the board,
inside the deck, of the street's size; and the board after it is again disjoint from the holes. -/
theorem C14_draw_fresh {g : Game} (h : GameInv g) {c : Nat} (ha : isAllowed g (.draw c) = true) :
    c &&& g.board = 0 ∧ c &&& g.s0.hole = 0 ∧ c &&& g.s1.hole = 0 ∧ c &&& deck g = c ∧
    popW 64 c = nRevealed (street g) ∧ (act g (.draw c)).board = g.board ||| c ∧
    Dealt (act g (.draw c)) := by
  obtain ⟨_, _, hdis, hlt, hn⟩ := (allowed_draw_iff h c).1 ha
  have hsub : c &&& deck g = c := by
    unfold deck; rw [handMask_eq]
    exact (subset_compl_iff c (inPlay g) (inPlay_lt h.cards)).2 ⟨hdis, hlt⟩
  have hb : (act g (.draw c)).board = g.board ||| c := by
    rw [(inv_draw h ha).1]; split <;> rfl
  unfold inPlay at hdis
  rw [Nat.and_or_distrib_left, Nat.and_or_distrib_left] at hdis
  obtain ⟨h01, h2⟩ := Nat.or_eq_zero_iff.1 hdis
  obtain ⟨h0, h1⟩ := Nat.or_eq_zero_iff.1 h01
  exact ⟨h0, h1, h2, hsub, hn, hb, dealt_of_inv (inv_act h ha)⟩

/-- conversely every set of fresh cards of the right size is accepted at a chance node -/
theorem C14_fresh_accepted {g : Game} (h : GameInv g) (ht : turn g = Turn.chance) {c : Nat}
    (hsub : c &&& deck g = c) (hn : popW 64 c = nRevealed (street g)) :
    isAllowed g (.draw c) = true := by
  have hd : mustStop g = false ∧ mustDeal g = true := by
    unfold turn at ht
    by_cases hs : mustStop g = true
    · simp [hs] at ht
    · by_cases hd : mustDeal g = true
      · exact ⟨by simpa using hs, hd⟩
      · simp [hs, hd] at ht
  unfold deck at hsub; rw [handMask_eq] at hsub
  obtain ⟨a, b⟩ := (subset_compl_iff c (inPlay g) (inPlay_lt h.cards)).1 hsub
  exact (allowed_draw_iff h c).2 ⟨hd.1, hd.2, a, b, hn⟩

/-! ## the engine's own offers -/

theorem popW_single : ∀ c, c < 64 → popW 64 (1 <<< c) = 1 := by decide

/-- subset as a bitwise statement -/
theorem sub_iff (a d : Nat) : a &&& d = a ↔ ∀ j, a.testBit j = true → d.testBit j = true := by
  constructor
  · intro h j hj
    have := congrArg (fun n => n.testBit j) h
    simp only [Nat.testBit_and, hj, Bool.true_and] at this
    exact this
  · intro h
    apply Nat.eq_of_testBit_eq
    intro j
    rw [Nat.testBit_and]
    cases ha : a.testBit j
    · simp
    · simp [h j ha]

theorem disj_iff (a b : Nat) : a &&& b = 0 ↔ ∀ j, a.testBit j = true → b.testBit j = false := by
  constructor
  · intro h j hj
    have := congrArg (fun n => n.testBit j) h
    simp only [Nat.testBit_and, hj, Bool.true_and, Nat.zero_testBit] at this
    exact this
  · intro h
    apply Nat.eq_of_testBit_eq
    intro j
    rw [Nat.testBit_and, Nat.zero_testBit]
    cases ha : a.testBit j
    · simp
    · simp [h j ha]

theorem testBit_bit (c j : Nat) : (1 <<< c).testBit j = decide (j = c) := by
  rw [Nat.one_shiftLeft, Nat.testBit_two_pow]
  by_cases h : c = j <;> simp [h, eq_comm]

/-- one `Deck::draw`: the card is in the deck, the rest is the deck without it, one card fewer -/
theorem draw_step (d r : Nat) (hd : d < 2 ^ 64) (hne : 0 < popW 64 d) :
    (draw d r).1 < 64 ∧ d.testBit (draw d r).1 = true ∧
    (∀ j, (draw d r).2.testBit j = (d.testBit j && !decide (j = (draw d r).1))) ∧
    (draw d r).2 < 2 ^ 64 ∧ popW 64 (draw d r).2 + 1 = popW 64 d := by
  have hi : r % popW 64 d < popW 64 d := Nat.mod_lt _ hne
  have hm : (draw d r).1 < 64 ∧ d.testBit (draw d r).1 = true := C14_draw_mem d (r % popW 64 d) hi
  have hr : ∀ j, (draw d r).2.testBit j = (d.testBit j && !decide (j = (draw d r).1)) :=
    fun j => C14_draw_removes d (r % popW 64 d) j hd hi
  have hlt : (draw d r).2 < 2 ^ 64 := by
    show remove d _ < 2 ^ 64
    unfold remove; exact Nat.lt_of_le_of_lt Nat.and_le_left hd
  refine ⟨hm.1, hm.2, hr, hlt, ?_⟩
  -- d = rest ||| bit c, disjoint
  have hpart : (draw d r).2 ||| (1 <<< (draw d r).1) = d := by
    apply Nat.eq_of_testBit_eq; intro j
    rw [Nat.testBit_or, hr j, testBit_bit]
    by_cases hj : j = (draw d r).1
    · rw [hj]; simp [hm.2]
    · simp [hj]
  have hdis : (draw d r).2 &&& (1 <<< (draw d r).1) = 0 := by
    apply Nat.eq_of_testBit_eq; intro j
    rw [Nat.testBit_and, hr j, testBit_bit, Nat.zero_testBit]
    by_cases hj : j = (draw d r).1 <;> simp [hj]
  have := RP.Game.popW_or_disjoint 64 _ _ hdis
  rw [hpart, popW_single _ hm.1] at this
  omega

/-- model of `Deck::deal` (and hence `Game::draw`): successive `Deck::draw`s folded with
`Hand::add`; `rs` are the raw values of the random source, one per card -/
def dealFrom : Nat → List Nat → Nat × Nat
  | d, [] => (d, 0)
  | d, r :: rs => ((dealFrom (draw d r).2 rs).1, (dealFrom (draw d r).2 rs).2 ||| (1 <<< (draw d r).1))

theorem dealFrom_spec : ∀ (rs : List Nat) (d : Nat), d < 2 ^ 64 → rs.length ≤ popW 64 d →
    (∀ j, (dealFrom d rs).2.testBit j = true → d.testBit j = true) ∧
    (∀ j, (dealFrom d rs).1.testBit j = true → d.testBit j = true ∧ (dealFrom d rs).2.testBit j = false) ∧
    popW 64 (dealFrom d rs).2 = rs.length := by
  intro rs
  induction rs with
  | nil =>
    intro d _ _
    refine ⟨fun j h => by simp [dealFrom] at h, fun j h => ⟨by simpa [dealFrom] using h, by simp [dealFrom]⟩, ?_⟩
    simp [dealFrom, popW_zero]
  | cons r rs ih =>
    intro d hd hlen
    simp only [List.length_cons] at hlen
    obtain ⟨hc, hbit, hrem, hlt, hpop⟩ := draw_step d r hd (by omega)
    obtain ⟨i1, i2, i3⟩ := ih (draw d r).2 hlt (by omega)
    simp only [dealFrom]
    refine ⟨?_, ?_, ?_⟩
    · intro j hj
      rw [Nat.testBit_or, testBit_bit] at hj
      by_cases hjc : j = (draw d r).1
      · rw [hjc]; exact hbit
      · simp only [hjc, decide_false, Bool.or_false] at hj
        have := i1 j hj; rw [hrem j] at this; simp at this; exact this.1
    · intro j hj
      obtain ⟨a, b⟩ := i2 j hj
      rw [hrem j] at a; simp at a
      refine ⟨a.1, ?_⟩
      rw [Nat.testBit_or, testBit_bit, b]; simp [a.2]
    · have hdis : (dealFrom (draw d r).2 rs).2 &&& (1 <<< (draw d r).1) = 0 := by
        rw [disj_iff]; intro j hj
        have := i1 j hj; rw [hrem j] at this; simp at this
        rw [testBit_bit]; simp [this.2]
      rw [RP.Game.popW_or_disjoint 64 _ _ hdis, i3, popW_single _ hc]; simp

/-- the engine's offered deal: `self.deck().deal(self.street())` with raw random values `rs` -/
def offer (g : Game) (rs : List Nat) : Nat := (dealFrom (deck g) rs).2

theorem deck_lt {g : Game} (h : GameInv g) : deck g < 2 ^ 52 := by
  unfold deck; rw [handMask_eq]
  exact Nat.xor_lt_two_pow (inPlay_lt h.cards) (by omega)

/-- **C14, offered draws.** (`henough`: the deck has enough cards left — 52 − 9 in the real game; it is
a hypothesis here because the invariant does not record that a hole has exactly two cards.)
At every chance node of every hand, whatever the random source returns,
the cards `Game::draw()` offers are cards of the deck — never a hole card, never a board card —,
pairwise distinct, of the street's size, and the engine accepts them. -/
theorem C14_offer_fresh {g : Game} (h : GameInv g) (ht : turn g = Turn.chance) (rs : List Nat)
    (hn : rs.length = nRevealed (street g)) (henough : nRevealed (street g) ≤ popW 64 (deck g)) :
    offer g rs &&& inPlay g = 0 ∧ offer g rs &&& deck g = offer g rs ∧
    popW 64 (offer g rs) = nRevealed (street g) ∧ isAllowed g (.draw (offer g rs)) = true := by
  have hd : deck g < 2 ^ 64 := Nat.lt_trans (deck_lt h) (by omega)
  obtain ⟨s1, _, s3⟩ := dealFrom_spec rs (deck g) hd (by omega)
  have hsub : offer g rs &&& deck g = offer g rs := (sub_iff _ _).2 s1
  have hpop : popW 64 (offer g rs) = nRevealed (street g) := by unfold offer; rw [s3, hn]
  have hal := C14_fresh_accepted h ht hsub hpop
  obtain ⟨b, h0, h1, _⟩ := C14_draw_fresh h hal
  refine ⟨?_, hsub, hpop, hal⟩
  unfold inPlay; rw [Nat.and_or_distrib_left, Nat.and_or_distrib_left, b, h0, h1]; rfl

-- non-vacuity: a flop / turn / river line; the dealt cards and holes stay disjoint, a deal
-- containing a hole card or a board card is refused
example : (run? (root 0x3 0x30) [.call 1, .check, .draw 0x700, .check, .check, .draw 0x1000]).map
    (fun g => (g.board, g.s0.hole, g.s1.hole, street g, deck g == 2^52 - 1 - 0x1733)) =
    some (0x1700, 0x3, 0x30, 2, true) := by decide
example : (run? (root 0x3 0x30) [.call 1, .check, .draw 0x700, .check, .check]).map
    (fun g => [isAllowed g (.draw 0x1000), isAllowed g (.draw 0x1), isAllowed g (.draw 0x100), isAllowed g (.draw 0x3000)]) =
    some [true, false, false, false] := by decide

-- an offered flop from concrete random values: three distinct fresh cards, accepted
example : (run? (root 0x3 0x30) [.call 1, .check]).map
    (fun g => (offer g [0, 0, 100], popW 64 (offer g [0, 0, 100]), isAllowed g (.draw (offer g [0, 0, 100])),
               decide (nRevealed (street g) ≤ popW 64 (deck g)))) =
    some (0x400c, 3, true, true) := by decide

end RP.C14
