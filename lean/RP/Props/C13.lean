import RP.Model.Kmeans
import RP.Lemmas.ArithReal
import RP.Lemmas.Hist
import RP.Lemmas.MetricReal
import Mathlib.Tactic.Ring
import Mathlib.Tactic.Linarith
import Mathlib.Order.Defs.LinearOrder
set_option linter.unusedSimpArgs false
/-! # C13 — a k-means step assigns every point to its nearest centroid and conserves mass

Model: `RP.Kmeans` (`neighborhood`, `next`, `lookup`, `metric` of `clustering/layer.rs`).
The earth mover's distance is an arbitrary function into a linear order `β`
(`tcmp a b = some (compare a b)`); an unordered comparison (`NaN`) is the failure outcome `none`.

* `C13_argmin_first_min`   : `neighborhood` returns the FIRST index attaining the minimum
* `C13_next_spec`          : every centroid of `next` is the pointwise sum of exactly the points whose
                             first-nearest centroid it is; `C13_next_conserves` : total mass and every
                             per-bucket count are conserved; `C13_next_length`
* `C13_lookup_spec`        : the i-th class is paired with the bucket of the i-th point's nearest centroid
* `C13_metric_entries`     : one entry per unordered pair given collision-free keys, with the symmetrised
                             value; `C13_metric_symmetric`, `C13_metric_nonneg`, `C13_metric_max`
-/
namespace RP.C13
open RP.Transport RP.Kmeans

/-! ## argmin: the first minimum -/
section argmin
variable {β : Type} [LinearOrder β]

/-- the total comparison of a linear order, as a `partial_cmp` that never fails -/
def tcmp (a b : β) : Option Ordering := some (compare a b)

/-- `r` splits `l` into strictly larger elements before it and not-smaller elements after it -/
def FirstMin (l : List (Nat × β)) (r : Nat × β) : Prop :=
  ∃ pre post, l = pre ++ r :: post ∧ (∀ e ∈ pre, r.2 < e.2) ∧ (∀ e ∈ post, r.2 ≤ e.2)

theorem FirstMin.le {l : List (Nat × β)} {r : Nat × β} (h : FirstMin l r) : ∀ e ∈ l, r.2 ≤ e.2 := by
  obtain ⟨pre, post, rfl, h1, h2⟩ := h
  intro e he
  simp only [List.mem_append, List.mem_cons] at he
  rcases he with he | rfl | he
  · exact le_of_lt (h1 e he)
  · exact le_refl _
  · exact h2 e he

theorem minByGo_firstMin (acc : Nat × β) (l : List (Nat × β)) :
    ∃ r, minByGo (cmpSnd tcmp) acc l = some r ∧ FirstMin (acc :: l) r := by
  induction l generalizing acc with
  | nil => exact ⟨acc, rfl, [], [], rfl, by simp, by simp⟩
  | cons c cs ih =>
    by_cases hgt : c.2 < acc.2
    · have hc : compare acc.2 c.2 = .gt := compare_gt_iff_gt.mpr hgt
      obtain ⟨r, hr, hf⟩ := ih c
      refine ⟨r, ?_, ?_⟩
      · simp only [minByGo, cmpSnd, tcmp, hc]; exact hr
      · have hle := hf.le c (by simp)
        obtain ⟨pre, post, e, h1, h2⟩ := hf
        refine ⟨acc :: pre, post, by rw [e]; rfl, ?_, h2⟩
        intro x hx
        rcases List.mem_cons.mp hx with rfl | hx
        · exact lt_of_le_of_lt hle hgt
        · exact h1 x hx
    · have hle : acc.2 ≤ c.2 := not_lt.mp hgt
      obtain ⟨r, hr, hf⟩ := ih acc
      refine ⟨r, ?_, ?_⟩
      · have hne : compare acc.2 c.2 ≠ .gt := fun h => hgt (compare_gt_iff_gt.mp h)
        simp only [minByGo, cmpSnd, tcmp]
        cases hcmp : compare acc.2 c.2 with
        | gt => exact absurd hcmp hne
        | lt => exact hr
        | eq => exact hr
      · obtain ⟨pre, post, e, h1, h2⟩ := hf
        cases pre with
        | nil =>
          simp only [List.nil_append, List.cons.injEq] at e
          obtain ⟨rfl, rfl⟩ := e
          refine ⟨[], c :: cs, rfl, by simp, ?_⟩
          intro x hx
          rcases List.mem_cons.mp hx with rfl | hx
          · exact hle
          · exact h2 x hx
        | cons p pre' =>
          simp only [List.cons_append, List.cons.injEq] at e
          obtain ⟨rfl, rfl⟩ := e
          refine ⟨acc :: c :: pre', post, rfl, ?_, h2⟩
          intro x hx
          simp only [List.mem_cons] at hx
          rcases hx with rfl | rfl | hx
          · exact h1 _ (by simp)
          · exact lt_of_lt_of_le (h1 _ (by simp)) hle
          · exact h1 x (by simp [hx])

omit [LinearOrder β] in
theorem enumFrom_map_snd (n : Nat) (ds : List β) : (enumFrom n ds).map Prod.snd = ds := by
  induction ds generalizing n with
  | nil => rfl
  | cons d ds ih => simp [enumFrom, ih]

omit [LinearOrder β] in
theorem enumFrom_getElem? (n : Nat) (ds : List β) (k : Nat) :
    (enumFrom n ds)[k]? = ds[k]?.map fun d => (n + k, d) := by
  induction ds generalizing n k with
  | nil => simp [enumFrom]
  | cons d ds ih =>
    cases k with
    | zero => simp [enumFrom]
    | succ k =>
      simp only [enumFrom, List.getElem?_cons_succ, ih]
      congr 1; funext d; congr 1; omega

omit [LinearOrder β] in
theorem enumFrom_split (n : Nat) (ds : List β) (pre post : List (Nat × β)) (r : Nat × β)
    (h : enumFrom n ds = pre ++ r :: post) :
    r.1 = n + pre.length ∧ ds = pre.map Prod.snd ++ r.2 :: post.map Prod.snd := by
  constructor
  · have h1 : (enumFrom n ds)[pre.length]? = some r := by rw [h]; simp
    rw [enumFrom_getElem?] at h1
    cases hd : ds[pre.length]? with
    | none => simp [hd] at h1
    | some d => simp only [hd, Option.map_some, Option.some.injEq] at h1; rw [← h1]
  · have := enumFrom_map_snd n ds
    rw [h] at this
    rw [← this]; simp

omit [LinearOrder β] in
theorem enumFrom_ne_nil (n : Nat) (ds : List β) (h : ds ≠ []) : ∃ e es, enumFrom n ds = e :: es := by
  cases ds with
  | nil => exact absurd rfl h
  | cons d ds => exact ⟨_, _, rfl⟩

/-- **`neighborhood` returns the first index attaining the minimum**: for a non-empty list of
    distances the result `(i, d)` is the entry at position `i`, no distance is smaller than `d`,
    and every distance at an earlier position is strictly larger. -/
theorem C13_argmin_first_min (ds : List β) (hne : ds ≠ []) :
    ∃ i d, argmin tcmp ds = some (i, d) ∧ ds[i]? = some d ∧
      (∀ j (hj : j < ds.length), d ≤ ds[j]) ∧ (∀ j (hj : j < ds.length), j < i → d < ds[j]) := by
  obtain ⟨e, es, he⟩ := enumFrom_ne_nil 0 ds hne
  obtain ⟨r, hr, hf⟩ := minByGo_firstMin e es
  obtain ⟨pre, post, hsplit, h1, h2⟩ := hf
  rw [← he] at hsplit
  obtain ⟨hi, hds⟩ := enumFrom_split 0 ds pre post r hsplit
  refine ⟨r.1, r.2, ?_, ?_, ?_, ?_⟩
  · simp only [argmin, he, minBy, hr, Option.map_some]
  · rw [hds, hi]; simp
  · intro j hj
    have hm : ds[j] ∈ pre.map Prod.snd ++ r.2 :: post.map Prod.snd := by
      rw [← hds]; exact List.getElem_mem hj
    simp only [List.mem_append, List.mem_map, List.mem_cons] at hm
    rcases hm with ⟨x, hx, hxe⟩ | h | ⟨x, hx, hxe⟩
    · rw [← hxe]; exact le_of_lt (h1 x hx)
    · rw [h]
    · rw [← hxe]; exact h2 x hx
  · intro j hj hji
    have hjl : j < (pre.map Prod.snd).length := by simp; omega
    have hq : ds[j]? = (pre.map Prod.snd)[j]? := by
      conv_lhs => rw [hds]
      exact List.getElem?_append_left hjl
    rw [List.getElem?_eq_getElem hj, List.getElem?_eq_getElem hjl] at hq
    rw [Option.some.inj hq]
    have hm : (pre.map Prod.snd)[j] ∈ pre.map Prod.snd := List.getElem_mem hjl
    obtain ⟨x, hx, hxe⟩ := List.mem_map.mp hm
    rw [← hxe]; exact h1 x hx

/-- no centroid: the `expect` panics -/
theorem C13_argmin_empty : argmin (tcmp (β := β)) [] = none := rfl

end argmin

/-! ## `next`: absorb every point into exactly its first-nearest centroid -/
section next

theorem absorbAt_eq (cs : List Hist) (n : Nat) (p : Hist) :
    absorbAt cs n p = if h : n < cs.length then some (cs.set n (cs[n].absorb p)) else none := by
  induction cs generalizing n with
  | nil => simp [absorbAt]
  | cons c cs ih =>
    cases n with
    | zero => simp [absorbAt]
    | succ n =>
      simp only [absorbAt, ih n, List.length_cons, Nat.add_lt_add_iff_right]
      split <;> simp

/-- what the assignments `asg = [(point, neighbor)]` contribute to centroid `j` under `f` -/
def contrib (f : Hist → Nat) (asg : List (Hist × Nat)) (j : Nat) : Nat :=
  ((asg.filter fun pn => pn.2 == j).map fun pn => f pn.1).sum

theorem absorbAll_spec (asg : List (Hist × Nat)) (cs cs' : List Hist)
    (hcs : ∀ c ∈ cs, c.WF) (hps : ∀ pn ∈ asg, pn.1.WF) (h : absorbAll cs asg = some cs') :
    cs'.length = cs.length ∧ (∀ pn ∈ asg, pn.2 < cs.length) ∧
    ∀ j c, cs[j]? = some c → ∃ c', cs'[j]? = some c' ∧ c'.WF ∧
      (∀ a, c'.count a = c.count a + contrib (fun h => h.count a) asg j) ∧
      c'.mass = c.mass + contrib (fun h => h.mass) asg j := by
  induction asg generalizing cs with
  | nil =>
    simp only [absorbAll, Option.some.injEq] at h
    subst h
    refine ⟨rfl, by simp, fun j c hc => ⟨c, hc, hcs c (List.mem_of_getElem? hc), by simp [contrib], by simp [contrib]⟩⟩
  | cons pn rest ih =>
    obtain ⟨p, n⟩ := pn
    simp only [absorbAll, absorbAt_eq] at h
    by_cases hn : n < cs.length
    · rw [dif_pos hn] at h
      simp only at h
      have hpw : p.WF := hps (p, n) (by simp)
      have hcs1 : ∀ c ∈ cs.set n (cs[n].absorb p), c.WF := by
        intro c hc
        rcases List.mem_or_eq_of_mem_set hc with hc | rfl
        · exact hcs c hc
        · exact Hist.absorb_WF _ _ (hcs _ (List.getElem_mem hn))
      obtain ⟨hl, hlt, hj⟩ := ih (cs.set n (cs[n].absorb p)) hcs1 (fun pn hpn => hps pn (by simp [hpn])) h
      rw [List.length_set] at hl hlt
      refine ⟨hl, ?_, ?_⟩
      · intro pn hpn
        rcases List.mem_cons.mp hpn with rfl | hpn
        · exact hn
        · exact hlt pn hpn
      · intro j c hc
        by_cases hjn : j = n
        · subst hjn
          have hcj : cs[j] = c := by
            rw [List.getElem?_eq_getElem hn] at hc; exact Option.some.inj hc
          have : (cs.set j (cs[j].absorb p))[j]? = some (c.absorb p) := by
            rw [List.getElem?_set_self hn, hcj]
          obtain ⟨c', h1, h2, h3, h4⟩ := hj j _ this
          refine ⟨c', h1, h2, ?_, ?_⟩
          · intro a
            rw [h3 a, Hist.absorb_count c p (hcs c (List.mem_of_getElem? hc)) hpw a]
            simp [contrib, List.filter_cons]; omega
          · rw [h4, Hist.absorb_mass]
            simp [contrib, List.filter_cons]; omega
        · have : (cs.set n (cs[n].absorb p))[j]? = some c := by
            rw [List.getElem?_set_ne (fun h' => hjn h'.symm)]; exact hc
          obtain ⟨c', h1, h2, h3, h4⟩ := hj j _ this
          have hb : ((p, n).2 == j) = false := by simpa using fun h' : n = j => hjn h'.symm
          refine ⟨c', h1, h2, ?_, ?_⟩
          · intro a; rw [h3 a]; simp [contrib, List.filter_cons, hb]
          · rw [h4]; simp [contrib, List.filter_cons, hb]
    · rw [dif_neg hn] at h
      cases h

variable {π κ β : Type}

/-- `neighbors` succeeds exactly with the list of all neighborhoods, in point order -/
theorem neighbors_some (cmp : β → β → Option Ordering) (dist : π → κ → β) (kmeans : List κ)
    (points : List π) (ns : List (Nat × β)) :
    neighbors cmp dist kmeans points = some ns ↔
      List.Forall₂ (fun p r => neighborhood cmp dist kmeans p = some r) points ns := by
  induction points generalizing ns with
  | nil =>
    simp only [neighbors, Option.some.injEq]
    constructor
    · rintro rfl; exact List.Forall₂.nil
    · intro h; cases h; rfl
  | cons x xs ih =>
    simp only [neighbors]
    cases hx : neighborhood cmp dist kmeans x with
    | none =>
      simp only []
      constructor
      · intro h; cases h
      · intro h; cases h with | cons h1 _ => rw [hx] at h1; cases h1
    | some r =>
      simp only []
      cases hxs : neighbors cmp dist kmeans xs with
      | none =>
        simp only [Option.map_none]
        constructor
        · intro h; cases h
        · intro h
          cases h with
          | cons h1 h2 => have := (ih _).mpr h2; rw [hxs] at this; cases this
      | some rs =>
        simp only [Option.map_some, Option.some.injEq]
        constructor
        · rintro rfl; exact List.Forall₂.cons hx ((ih rs).mp hxs)
        · intro h
          cases h with
          | cons h1 h2 =>
            rw [hx] at h1
            have := (ih _).mpr h2
            rw [hxs] at this
            cases h1; cases this; rfl

/-- the assignment list `next` folds over -/
def assignment (histOf : π → Hist) (points : List π) (ns : List (Nat × β)) : List (Hist × Nat) :=
  (points.map histOf).zip (ns.map Prod.fst)

/-- **`next`**: if the step succeeds then (1) there are exactly `k = street.k()` new centroids,
    (2) every point has a neighborhood `ns[i]` (by `C13_argmin_first_min` the first-nearest centroid)
    with index below `k`, and (3) the `j`-th new centroid is a well-formed histogram whose count of
    every bucket `a` — and whose mass — is the sum over exactly the points assigned to `j`. -/
theorem C13_next_spec (k : Nat) (cmp : β → β → Option Ordering) (dist : π → κ → β) (histOf : π → Hist)
    (points : List π) (kmeans : List κ) (cs : List Hist)
    (hwf : ∀ p ∈ points, (histOf p).WF)
    (h : next k cmp dist histOf points kmeans = some cs) :
    cs.length = k ∧ ∃ ns, List.Forall₂ (fun p r => neighborhood cmp dist kmeans p = some r) points ns ∧
      (∀ r ∈ ns, r.1 < k) ∧
      ∀ j, j < k → ∃ c, cs[j]? = some c ∧ c.WF ∧
        (∀ a, c.count a = contrib (fun h => h.count a) (assignment histOf points ns) j) ∧
        c.mass = contrib (fun h => h.mass) (assignment histOf points ns) j := by
  unfold next at h
  cases hn : neighbors cmp dist kmeans points with
  | none => rw [hn] at h; cases h
  | some ns =>
    rw [hn] at h
    simp only at h
    have hF := (neighbors_some cmp dist kmeans points ns).mp hn
    have hlen : points.length = ns.length := hF.length_eq
    have hps : ∀ pn ∈ (points.map histOf).zip (ns.map Prod.fst), pn.1.WF := by
      intro pn hpn
      have := (List.of_mem_zip hpn).1
      obtain ⟨p, hp, hpe⟩ := List.mem_map.mp this
      rw [← hpe]; exact hwf p hp
    obtain ⟨hl, hlt, hj⟩ := absorbAll_spec _ (List.replicate k Hist.empty) cs
      (fun c hc => by rw [(List.mem_replicate.mp hc).2]; exact Hist.empty_WF) hps h
    rw [List.length_replicate] at hl hlt
    refine ⟨hl, ns, hF, ?_, ?_⟩
    · intro r hr
      obtain ⟨i, hi, rfl⟩ := List.getElem_of_mem hr
      have hi' : i < points.length := by omega
      have hm : (histOf points[i], ns[i].1) ∈ (points.map histOf).zip (ns.map Prod.fst) := by
        rw [List.mem_iff_getElem]
        refine ⟨i, by simp; omega, by simp⟩
      exact hlt _ hm
    · intro j hjk
      have : (List.replicate k Hist.empty)[j]? = some Hist.empty := by simp [hjk]
      obtain ⟨c', h1, h2, h3, h4⟩ := hj j _ this
      exact ⟨c', h1, h2, fun a => by rw [h3 a, Hist.empty_count]; simp [assignment],
        by rw [h4]; simp [assignment, Hist.empty]⟩

theorem contrib_total (f : Hist → Nat) (asg : List (Hist × Nat)) (k : Nat) (h : ∀ pn ∈ asg, pn.2 < k) :
    ((List.range k).map (contrib f asg)).sum = (asg.map fun pn => f pn.1).sum := by
  induction asg with
  | nil =>
    have : contrib f [] = fun _ => 0 := funext fun j => by simp [contrib]
    rw [this]; simp
  | cons pn rest ih =>
    have hr := ih (fun pn hpn => h pn (by simp [hpn]))
    have hlt : pn.2 < k := h pn (by simp)
    have key : ∀ j, contrib f (pn :: rest) j = (if pn.2 = j then f pn.1 else 0) + contrib f rest j := by
      intro j
      by_cases hj : pn.2 = j
      · simp [contrib, List.filter_cons, hj]
      · have : (pn.2 == j) = false := by simpa using hj
        simp [contrib, List.filter_cons, hj, this]
    have hfun : contrib f (pn :: rest) = fun j => (if pn.2 = j then f pn.1 else 0) + contrib f rest j :=
      funext key
    rw [hfun, List.map_cons, List.sum_cons, ← hr]
    have hsplit : ∀ (l : List Nat) (g1 g2 : Nat → Nat),
        (l.map fun j => g1 j + g2 j).sum = (l.map g1).sum + (l.map g2).sum := by
      intro l g1 g2; induction l with
      | nil => simp
      | cons x xs ihx => simp [ihx]; omega
    rw [hsplit]
    congr 1
    -- exactly one index below k equals pn.2
    have : ∀ k, pn.2 < k → ((List.range k).map fun j => if pn.2 = j then f pn.1 else 0).sum = f pn.1 := by
      intro k
      induction k with
      | zero => intro h; omega
      | succ k ihk =>
        intro hk
        rw [List.range_succ, List.map_append, List.sum_append]
        by_cases hlast : pn.2 = k
        · have hz : ((List.range k).map fun j => if pn.2 = j then f pn.1 else 0).sum = 0 := by
            apply List.sum_eq_zero
            intro x hx
            obtain ⟨j, hj, rfl⟩ := List.mem_map.mp hx
            have := List.mem_range.mp hj
            have : pn.2 ≠ j := by omega
            simp [this]
          rw [hz]; simp [hlast]
        · have := ihk (by omega)
          rw [this]; simp [hlast]
    exact this k hlt

/-- **Conservation**: the new centroids together contain exactly the samples of all points —
    the total mass and, for every bucket `a`, the total count are unchanged. -/
theorem C13_next_conserves (k : Nat) (cmp : β → β → Option Ordering) (dist : π → κ → β) (histOf : π → Hist)
    (points : List π) (kmeans : List κ) (cs : List Hist)
    (hwf : ∀ p ∈ points, (histOf p).WF)
    (h : next k cmp dist histOf points kmeans = some cs) :
    (cs.map Hist.mass).sum = (points.map fun p => (histOf p).mass).sum ∧
    ∀ a, (cs.map fun c => c.count a).sum = (points.map fun p => (histOf p).count a).sum := by
  obtain ⟨hl, ns, hF, hlt, hj⟩ := C13_next_spec k cmp dist histOf points kmeans cs hwf h
  have hlen : points.length = ns.length := hF.length_eq
  have hasg : ∀ pn ∈ assignment histOf points ns, pn.2 < k := by
    intro pn hpn
    have := (List.of_mem_zip hpn).2
    obtain ⟨r, hr, hre⟩ := List.mem_map.mp this
    rw [← hre]; exact hlt r hr
  have hcs : ∀ (g : Hist → Nat), (∀ j, j < k → ∃ c, cs[j]? = some c ∧ g c = contrib g (assignment histOf points ns) j) →
      (cs.map g).sum = ((List.range k).map (contrib g (assignment histOf points ns))).sum := by
    intro g hg
    congr 1
    apply List.ext_getElem?
    intro j
    by_cases hjk : j < k
    · obtain ⟨c, hc, hgc⟩ := hg j hjk
      simp [hc, hjk, hgc]
    · have h1 : cs.length ≤ j := by omega
      simp [List.getElem?_eq_none h1, hjk]
  have hfst : ∀ (g : Hist → Nat), ((assignment histOf points ns).map fun pn => g pn.1).sum = (points.map fun p => g (histOf p)).sum := by
    intro g
    congr 1
    unfold assignment
    apply List.ext_getElem?
    intro i
    by_cases hi : i < points.length
    · have hi2 : i < ns.length := by omega
      simp [List.getElem?_eq_getElem, hi, hi2]
    · have h1 : points.length ≤ i := by omega
      simp [h1, hlen ▸ h1]
  constructor
  · rw [hcs Hist.mass (fun j hjk => by obtain ⟨c, h1, _, _, h4⟩ := hj j hjk; exact ⟨c, h1, h4⟩),
      contrib_total _ _ k hasg, hfst Hist.mass]
  · intro a
    rw [hcs (fun c => c.count a) (fun j hjk => by obtain ⟨c, h1, _, h3, _⟩ := hj j hjk; exact ⟨c, h1, h3 a⟩),
      contrib_total _ _ k hasg, hfst (fun c => c.count a)]

theorem absorbAll_total (asg : List (Hist × Nat)) (cs : List Hist) (h : ∀ pn ∈ asg, pn.2 < cs.length) :
    ∃ cs', absorbAll cs asg = some cs' := by
  induction asg generalizing cs with
  | nil => exact ⟨cs, rfl⟩
  | cons pn rest ih =>
    have hn : pn.2 < cs.length := h pn (by simp)
    simp only [absorbAll, absorbAt_eq, dif_pos hn]
    exact ih _ (fun pn' hpn' => by rw [List.length_set]; exact h pn' (by simp [hpn']))

/-- **every point is merged into exactly one centroid**: with at least one centroid, no more centroids
    than `k = street.k()` and a total order on distances, `next` never fails. -/
theorem C13_next_total {β : Type} [LinearOrder β] (k : Nat) (dist : π → κ → β) (histOf : π → Hist)
    (points : List π) (kmeans : List κ) (hne : kmeans ≠ []) (hk : kmeans.length ≤ k) :
    ∃ cs, next k tcmp dist histOf points kmeans = some cs := by
  have hnb : ∀ x : π, ∃ r, neighborhood tcmp dist kmeans x = some r ∧ r.1 < kmeans.length := by
    intro x
    have hne' : kmeans.map (dist x) ≠ [] := by simpa using hne
    obtain ⟨i, d, h1, h2, _, _⟩ := C13_argmin_first_min (kmeans.map (dist x)) hne'
    refine ⟨(i, d), h1, ?_⟩
    have := (List.getElem?_eq_some_iff.mp h2).1
    simpa using this
  have hns : ∀ pts : List π, ∃ ns, neighbors tcmp dist kmeans pts = some ns ∧ ∀ r ∈ ns, r.1 < kmeans.length := by
    intro pts
    induction pts with
    | nil => exact ⟨[], rfl, by simp⟩
    | cons x xs ih =>
      obtain ⟨r, hr, hlt⟩ := hnb x
      obtain ⟨ns, hns, hall⟩ := ih
      refine ⟨r :: ns, by simp [neighbors, hr, hns], ?_⟩
      intro r' hr'
      rcases List.mem_cons.mp hr' with rfl | hr'
      · exact hlt
      · exact hall r' hr'
  obtain ⟨ns, hns', hall⟩ := hns points
  unfold next
  rw [hns']
  apply absorbAll_total
  intro pn hpn
  have := (List.of_mem_zip hpn).2
  obtain ⟨r, hr, hre⟩ := List.mem_map.mp this
  rw [List.length_replicate, ← hre]
  exact Nat.lt_of_lt_of_le (hall r hr) hk

/-- **`lookup`**: the `i`-th isomorphism class is paired with `abstraction(k)` where `k` is the
    neighborhood of the `i`-th point; the table has `min(#classes, #points)` rows. -/
theorem C13_lookup_spec {ι : Type} (street : Nat) (cmp : β → β → Option Ordering) (dist : π → κ → β)
    (points : List π) (kmeans : List κ) (isos : List ι) (l : List (ι × Nat))
    (h : lookup street cmp dist points kmeans isos = some l) :
    l.length = min isos.length points.length ∧
    ∀ i (hi : i < l.length), ∃ p r, points[i]? = some p ∧ isos[i]? = some l[i].1 ∧
      neighborhood cmp dist kmeans p = some r ∧ l[i].2 = absCode street r.1 := by
  unfold lookup at h
  cases hn : neighbors cmp dist kmeans points with
  | none => rw [hn] at h; cases h
  | some ns =>
    rw [hn] at h
    simp only [Option.some.injEq] at h
    subst h
    have hF := (neighbors_some cmp dist kmeans points ns).mp hn
    have hlen : points.length = ns.length := hF.length_eq
    refine ⟨by simp [hlen], ?_⟩
    intro i hi
    simp only [List.length_zip, List.length_map] at hi
    have hi1 : i < isos.length := by omega
    have hi2 : i < ns.length := by omega
    have hi3 : i < points.length := by omega
    refine ⟨points[i], ns[i], by simp [hi3], by simp [hi1], ?_, by simp⟩
    exact List.Forall₂.get hF hi3 hi2

end next

/-! ## derived metric -/
section metric
variable {κ α : Type} [Arith α]

theorem mapInsert_keys (k : Nat) (v : α) (l : List (Nat × α)) :
    ∀ e ∈ mapInsert k v l, e.1 = k ∨ e ∈ l := by
  induction l with
  | nil => intro e he; simp [mapInsert] at he; left; rw [he]
  | cons x xs ih =>
    obtain ⟨k', v'⟩ := x
    intro e he
    unfold mapInsert at he
    split at he
    · rcases List.mem_cons.mp he with rfl | he
      · left; rfl
      · right; simp [he]
    · split at he
      · rcases List.mem_cons.mp he with rfl | he
        · left; rfl
        · right; exact he
      · rcases List.mem_cons.mp he with rfl | he
        · right; simp
        · rcases ih e he with h | h
          · left; exact h
          · right; simp [h]

theorem mapInsert_sorted (k : Nat) (v : α) (l : List (Nat × α)) (hs : SortedKeys l) :
    SortedKeys (mapInsert k v l) := by
  induction l with
  | nil => simp [mapInsert, SortedKeys]
  | cons x xs ih =>
    obtain ⟨k', v'⟩ := x
    unfold SortedKeys at hs ⊢
    rw [List.pairwise_cons] at hs
    unfold mapInsert
    split
    · rename_i hkk; subst hkk
      rw [List.pairwise_cons]; exact ⟨fun e he => hs.1 e he, hs.2⟩
    · split
      · rename_i hlt
        rw [List.pairwise_cons]
        refine ⟨?_, by rw [List.pairwise_cons]; exact hs⟩
        intro e he
        rcases List.mem_cons.mp he with rfl | he
        · exact hlt
        · exact Nat.lt_trans hlt (hs.1 e he)
      · rename_i hne hnlt
        rw [List.pairwise_cons]
        refine ⟨?_, ih hs.2⟩
        intro e he
        rcases mapInsert_keys k v xs e he with h | h
        · show k' < e.1; omega
        · exact hs.1 e h

theorem mapInsert_lookup (k : Nat) (v : α) (l : List (Nat × α)) (hs : SortedKeys l) (a : Nat) :
    (mapInsert k v l).lookup a = if a = k then some v else l.lookup a := by
  induction l with
  | nil =>
    by_cases h : a = k
    · simp [mapInsert, h]
    · have : (a == k) = false := by simpa using h
      simp [mapInsert, h, List.lookup_cons, this]
  | cons x xs ih =>
    obtain ⟨k', v'⟩ := x
    unfold SortedKeys at hs
    rw [List.pairwise_cons] at hs
    unfold mapInsert
    split
    · rename_i hkk; subst hkk
      by_cases h : a = k
      · subst h; simp [List.lookup_cons]
      · have : (a == k) = false := by simpa using h
        simp [List.lookup_cons, this, h]
    · rename_i hne
      split
      · by_cases h : a = k
        · subst h; simp [List.lookup_cons]
        · have : (a == k) = false := by simpa using h
          simp only [List.lookup_cons, this, h, if_false]
      · by_cases hak' : a = k'
        · subst hak'
          have h1 : a ≠ k := fun h => hne h.symm
          simp [List.lookup_cons, h1]
        · have h2 : (a == k') = false := by simpa using hak'
          simp only [List.lookup_cons, h2]
          exact ih hs.2

theorem mapInsert_length (k : Nat) (v : α) (l : List (Nat × α)) (hs : SortedKeys l)
    (hnone : l.lookup k = none) : (mapInsert k v l).length = l.length + 1 := by
  induction l with
  | nil => simp [mapInsert]
  | cons x xs ih =>
    obtain ⟨k', v'⟩ := x
    unfold SortedKeys at hs
    rw [List.pairwise_cons] at hs
    have hne : k ≠ k' := by
      intro h; subst h; simp [List.lookup_cons] at hnone
    have hb : (k == k') = false := by simpa using hne
    simp only [List.lookup_cons, hb] at hnone
    unfold mapInsert
    simp only [hne, if_false]
    split
    · simp
    · simp [ih hs.2 hnone]

/-- folding `BTreeMap::insert` over items with pairwise distinct, fresh keys -/
theorem foldIns_spec (es acc : List (Nat × α)) (hs : SortedKeys acc)
    (hnd : (es.map Prod.fst).Nodup) (hdis : ∀ e ∈ es, acc.lookup e.1 = none) :
    let res := es.foldl (fun acc e => mapInsert e.1 e.2 acc) acc
    SortedKeys res ∧ res.length = acc.length + es.length ∧
      (∀ e ∈ es, res.lookup e.1 = some e.2) ∧
      (∀ a, (∀ e ∈ es, e.1 ≠ a) → res.lookup a = acc.lookup a) := by
  induction es generalizing acc with
  | nil => simp [hs]
  | cons x xs ih =>
    obtain ⟨k, v⟩ := x
    simp only [List.map_cons, List.nodup_cons] at hnd
    have hs' := mapInsert_sorted k v acc hs
    have hdis' : ∀ e ∈ xs, (mapInsert k v acc).lookup e.1 = none := by
      intro e he
      rw [mapInsert_lookup k v acc hs]
      have : e.1 ≠ k := fun h => hnd.1 (h ▸ List.mem_map_of_mem he)
      simp only [this, if_false]
      exact hdis e (by simp [he])
    obtain ⟨h1, h2, h3, h4⟩ := ih (mapInsert k v acc) hs' hnd.2 hdis'
    simp only [List.foldl_cons]
    refine ⟨h1, ?_, ?_, ?_⟩
    · rw [h2, mapInsert_length k v acc hs (hdis (k, v) (by simp))]; simp; omega
    · intro e he
      rcases List.mem_cons.mp he with rfl | he
      · rw [h4 k (fun e he' h => hnd.1 (h ▸ List.mem_map_of_mem he')), mapInsert_lookup k v acc hs]; simp
      · exact h3 e he
    · intro a ha
      rw [h4 a (fun e he => ha e (by simp [he])), mapInsert_lookup k v acc hs]
      have : a ≠ k := fun h => ha (k, v) (by simp) h.symm
      simp [this]

/-- the pair key `Layer::metric` files the pair of centroids `(i, j)` under -/
def keyOf (street i j : Nat) : Nat := pairKey (absCode street i) (absCode street j)

/-- the items the inner loop inserts, in order -/
def rowItems (street : Nat) (emd : κ → κ → α) (i : Nat) (x : κ) : Nat → List κ → List (Nat × α)
  | _, [] => []
  | j, y :: ys => (if i > j then [(keyOf street i j, symDist emd x y)] else []) ++ rowItems street emd i x (j + 1) ys

/-- the items the double loop inserts, in order -/
def allItems (street : Nat) (emd : κ → κ → α) (all : List κ) : Nat → List κ → List (Nat × α)
  | _, [] => []
  | i, x :: xs => rowItems street emd i x 0 all ++ allItems street emd all (i + 1) xs

theorem metricRow_eq (street : Nat) (emd : κ → κ → α) (i : Nat) (x : κ) (j : Nat) (ys : List κ) (acc : List (Nat × α)) :
    metricRow street emd i x j ys acc =
      (rowItems street emd i x j ys).foldl (fun acc e => mapInsert e.1 e.2 acc) acc := by
  induction ys generalizing j acc with
  | nil => rfl
  | cons y ys ih =>
    simp only [metricRow, rowItems, ih, List.foldl_append, keyOf]
    split <;> rfl

theorem metricRows_eq (street : Nat) (emd : κ → κ → α) (all : List κ) (i : Nat) (xs : List κ) (acc : List (Nat × α)) :
    metricRows street emd all i xs acc =
      (allItems street emd all i xs).foldl (fun acc e => mapInsert e.1 e.2 acc) acc := by
  induction xs generalizing i acc with
  | nil => rfl
  | cons x xs ih => simp only [metricRows, allItems, ih, metricRow_eq, List.foldl_append]

theorem rowItems_length (street : Nat) (emd : κ → κ → α) (i : Nat) (x : κ) (j : Nat) (ys : List κ) :
    (rowItems street emd i x j ys).length = min ys.length (i - j) := by
  induction ys generalizing j with
  | nil => simp [rowItems]
  | cons y ys ih =>
    simp only [rowItems, List.length_append, ih, List.length_cons]
    split
    · simp; omega
    · simp; omega

theorem allItems_length (street : Nat) (emd : κ → κ → α) (all : List κ) (i : Nat) (xs : List κ)
    (hK : i + xs.length ≤ all.length) :
    2 * (allItems street emd all i xs).length + xs.length = 2 * xs.length * i + xs.length * xs.length := by
  induction xs generalizing i with
  | nil => simp [allItems]
  | cons x xs ih =>
    simp only [List.length_cons] at hK
    have h := ih (i + 1) (by omega)
    simp only [allItems, List.length_append, rowItems_length, List.length_cons, Nat.sub_zero]
    have hmin : min all.length i = i := by omega
    rw [hmin]
    have e1 : 2 * xs.length * (i + 1) = 2 * xs.length * i + 2 * xs.length := by ring
    have e2 : 2 * (xs.length + 1) * i + (xs.length + 1) * (xs.length + 1)
        = 2 * xs.length * i + 2 * i + xs.length * xs.length + 2 * xs.length + 1 := by ring
    rw [e2]; rw [e1] at h; omega

theorem rowItems_keys (street : Nat) (emd emd' : κ → κ → α) (i : Nat) (x x' : κ) (j : Nat) (ys : List κ) :
    (rowItems street emd i x j ys).map Prod.fst = (rowItems street emd' i x' j ys).map Prod.fst := by
  induction ys generalizing j with
  | nil => rfl
  | cons y ys ih =>
    simp only [rowItems, List.map_append, ih]
    split <;> rfl

theorem rowItems_mem (street : Nat) (emd : κ → κ → α) (i : Nat) (x : κ) (j0 : Nat) (ys : List κ)
    (t : Nat) (y : κ) (hy : ys[t]? = some y) (hlt : j0 + t < i) :
    (keyOf street i (j0 + t), symDist emd x y) ∈ rowItems street emd i x j0 ys := by
  induction ys generalizing j0 t with
  | nil => simp at hy
  | cons y0 ys ih =>
    cases t with
    | zero =>
      simp only [List.getElem?_cons_zero, Option.some.injEq] at hy
      subst hy
      have : i > j0 := by omega
      simp [rowItems, this]
    | succ t =>
      simp only [List.getElem?_cons_succ] at hy
      have := ih (j0 + 1) t hy (by omega)
      simp only [rowItems, List.mem_append]
      right
      have e : j0 + (t + 1) = j0 + 1 + t := by omega
      rw [e]; exact this

theorem allItems_mem (street : Nat) (emd : κ → κ → α) (all : List κ) (i0 : Nat) (xs : List κ)
    (s : Nat) (x y : κ) (j : Nat) (hx : xs[s]? = some x) (hy : all[j]? = some y) (hlt : j < i0 + s) :
    (keyOf street (i0 + s) j, symDist emd x y) ∈ allItems street emd all i0 xs := by
  induction xs generalizing i0 s with
  | nil => simp at hx
  | cons x0 xs ih =>
    cases s with
    | zero =>
      simp only [List.getElem?_cons_zero, Option.some.injEq] at hx
      subst hx
      simp only [allItems, List.mem_append]
      left
      have := rowItems_mem street emd i0 x0 0 all j y hy (by omega)
      simpa using this
    | succ s =>
      simp only [List.getElem?_cons_succ] at hx
      have := ih (i0 + 1) s hx (by omega)
      simp only [allItems, List.mem_append]
      right
      have e : i0 + (s + 1) = i0 + 1 + s := by omega
      rw [e]; exact this

/-- the keys the inner loop inserts for centroid `i` against `n` centroids starting at index `j` -/
def rowKeys (street i : Nat) : Nat → Nat → List Nat
  | _, 0 => []
  | j, n + 1 => (if i > j then [keyOf street i j] else []) ++ rowKeys street i (j + 1) n

def allKeys (street K : Nat) : Nat → Nat → List Nat
  | _, 0 => []
  | i, n + 1 => rowKeys street i 0 K ++ allKeys street K (i + 1) n

/-- the keys inserted by `Layer::metric` over `K` centroids of a street (they do not depend on the
    centroids themselves): `keyOf street i j` for `j < i < K`, in loop order -/
def layerKeys (street K : Nat) : List Nat := allKeys street K 0 K

theorem rowItems_keys' (street : Nat) (emd : κ → κ → α) (i : Nat) (x : κ) (j : Nat) (ys : List κ) :
    (rowItems street emd i x j ys).map Prod.fst = rowKeys street i j ys.length := by
  induction ys generalizing j with
  | nil => rfl
  | cons y ys ih =>
    simp only [rowItems, rowKeys, List.map_append, ih, List.length_cons]
    split <;> rfl

theorem allItems_keys (street : Nat) (emd : κ → κ → α) (all : List κ) (i : Nat) (xs : List κ) :
    (allItems street emd all i xs).map Prod.fst = allKeys street all.length i xs.length := by
  induction xs generalizing i with
  | nil => rfl
  | cons x xs ih =>
    simp only [allItems, allKeys, List.map_append, ih, rowItems_keys', List.length_cons]

/-- **`Layer::metric`, one entry per unordered pair.** If the pair keys of the `K` centroids do not
    collide (`layerKeys street K` has no duplicates — C15, and checked exhaustively for the real
    cluster counts by the harness) then the map built before normalisation has exactly `K(K−1)/2`
    entries, strictly increasing (hence distinct) keys, and under the key of each pair `j < i`
    the symmetrised distance `(emd(xᵢ,xⱼ) + emd(xⱼ,xᵢ)) / 2`. -/
theorem C13_metric_entries (street : Nat) (emd : κ → κ → α) (kmeans : List κ)
    (hinj : (layerKeys street kmeans.length).Nodup) :
    2 * (metricRaw street emd kmeans).length = kmeans.length * (kmeans.length - 1) ∧
    SortedKeys (metricRaw street emd kmeans) ∧
    ∀ i j x y, kmeans[i]? = some x → kmeans[j]? = some y → j < i →
      (metricRaw street emd kmeans).lookup (keyOf street i j) = some (symDist emd x y) := by
  have hnd : ((allItems street emd kmeans 0 kmeans).map Prod.fst).Nodup := by
    rw [allItems_keys]; exact hinj
  have hspec := foldIns_spec (allItems street emd kmeans 0 kmeans) [] (by simp [SortedKeys]) hnd
    (fun e _ => rfl)
  simp only at hspec
  obtain ⟨h1, h2, h3, _⟩ := hspec
  unfold metricRaw
  rw [metricRows_eq]
  refine ⟨?_, h1, ?_⟩
  · rw [h2]
    have := allItems_length street emd kmeans 0 kmeans (by omega)
    simp only [List.length_nil, Nat.zero_add]
    cases hK : kmeans.length with
    | zero => rw [hK] at this; omega
    | succ n =>
      rw [hK] at this
      simp only [Nat.add_sub_cancel]
      have e : (n + 1) * (n + 1) = (n + 1) * n + (n + 1) := by ring
      rw [e] at this; omega
  · intro i j x y hx hy hlt
    have := allItems_mem street emd kmeans 0 kmeans i x y j hx hy (by omega)
    rw [Nat.zero_add] at this
    exact h3 _ this

omit [Arith α] in
/-- **symmetric by construction**: the metric cannot distinguish `(a, b)` from `(b, a)` -/
theorem C13_metric_symmetric (m : Metric α) (a b : Nat) : m.lookup a b = m.lookup b a := by
  unfold Metric.lookup; rw [pairKey_comm]

/-- the stored value itself is symmetric in the two centroids (over ℝ) -/
theorem C13_symDist_symm (emd : κ → κ → ℝ) (x y : κ) : symDist emd x y = symDist emd y x := by
  simp only [symDist, R_div, R_add]; rw [add_comm]

theorem mem_foldIns (es acc : List (Nat × α)) :
    ∀ e ∈ es.foldl (fun acc e => mapInsert e.1 e.2 acc) acc, e ∈ acc ∨ ∃ e' ∈ es, e'.2 = e.2 ∧ e'.1 = e.1 := by
  induction es generalizing acc with
  | nil => intro e he; left; exact he
  | cons x xs ih =>
    intro e he
    rcases ih (mapInsert x.1 x.2 acc) e he with h | ⟨e', he', h⟩
    · rcases mapInsert_keys x.1 x.2 acc e h with hk | hk
      · -- the inserted entry
        have : e = (x.1, x.2) ∨ e ∈ acc := by
          clear ih he
          induction acc with
          | nil => simp [mapInsert] at h; left; exact h
          | cons z zs ihz =>
            unfold mapInsert at h
            split at h
            · rcases List.mem_cons.mp h with h | h
              · left; exact h
              · right; simp [h]
            · split at h
              · rcases List.mem_cons.mp h with h | h
                · left; exact h
                · right; exact h
              · rcases List.mem_cons.mp h with h | h
                · right; simp [h]
                · rcases ihz h with h | h
                  · left; exact h
                  · right; simp [h]
        rcases this with rfl | h'
        · right; exact ⟨x, by simp, rfl, rfl⟩
        · left; exact h'
      · left; exact hk
    · right; exact ⟨e', by simp [he'], h⟩

/-- **non-negative, scaled to a maximum of one (or all zero)** — over ℝ, for a non-negative `emd`:
    every entry of `Layer::metric` lies in `[0, 1]`; if some symmetrised distance reaches
    `MIN_POSITIVE` an entry equals `1`; if all are `0`, all entries are `0`. -/
theorem C13_metric_max (street : Nat) (emd : κ → κ → ℝ) (kmeans : List κ) (hemd : ∀ x y, 0 ≤ emd x y) :
    (∀ e ∈ (metric street emd kmeans).entries, 0 ≤ e.2 ∧ e.2 ≤ 1) ∧
    ((∃ e ∈ metricRaw street emd kmeans, minPosR ≤ e.2) → ∃ e ∈ (metric street emd kmeans).entries, e.2 = 1) ∧
    ((∀ e ∈ metricRaw street emd kmeans, e.2 = 0) → ∀ e ∈ (metric street emd kmeans).entries, e.2 = 0) := by
  have hpos : ∀ e ∈ metricRaw street emd kmeans, 0 ≤ e.2 := by
    intro e he
    unfold metricRaw at he
    rw [metricRows_eq] at he
    rcases mem_foldIns _ _ e he with h | ⟨e', he', h, _⟩
    · simp at h
    · rw [← h]
      -- every item value is a symDist
      have hall : ∀ (all : List κ) (i : Nat) (xs : List κ), ∀ e ∈ allItems street emd all i xs, 0 ≤ e.2 := by
        intro all i xs
        induction xs generalizing i with
        | nil => simp [allItems]
        | cons x xs ih =>
          intro e he
          simp only [allItems, List.mem_append] at he
          rcases he with he | he
          · have hrow : ∀ (j : Nat) (ys : List κ), ∀ e ∈ rowItems street emd i x j ys, 0 ≤ e.2 := by
              intro j ys
              induction ys generalizing j with
              | nil => simp [rowItems]
              | cons y ys ihy =>
                intro e he
                simp only [rowItems, List.mem_append] at he
                rcases he with he | he
                · split at he
                  · simp only [List.mem_singleton] at he
                    rw [he]
                    simp only [symDist, R_div, R_add, R_ofNat]
                    exact div_nonneg (add_nonneg (hemd _ _) (hemd _ _)) (Nat.cast_nonneg _)
                  · simp at he
                · exact ihy _ e he
            exact hrow 0 all e he
          · exact ih _ e he
      exact hall kmeans 0 kmeans e' he'
  have := Metric.normalize_spec (metricRaw street emd kmeans) hpos
  exact ⟨this.2.1, this.2.2.1, this.2.2.2⟩

end metric

/-- non-vacuity of `C13_next_spec` / `C13_next_conserves`: three points, two centroids at "positions"
    2 and 6 (distance = |mass − position|), `k = 3` allocated centroids: the points of mass 2 and 3 go
    to centroid 0, the point of mass 5 to centroid 1, the third allocated centroid stays empty; the
    counts of bucket 5 add up (2 + 1 = 3). -/
example :
    next 3 (tcmp (β := Nat)) (fun (p : Hist) (c : Nat) => if p.mass ≤ c then c - p.mass else p.mass - c) id
      [⟨2, [(5, 2)]⟩, ⟨5, [(7, 5)]⟩, ⟨3, [(5, 1), (9, 2)]⟩] [2, 6]
    = some [⟨5, [(5, 3), (9, 2)]⟩, ⟨5, [(7, 5)]⟩, ⟨0, []⟩] := by decide

/-- a tie (point of mass 4 is at distance 2 from both centroids) goes to the FIRST centroid -/
example :
    next 2 (tcmp (β := Nat)) (fun (p : Hist) (c : Nat) => if p.mass ≤ c then c - p.mass else p.mass - c) id
      [⟨4, [(1, 4)]⟩] [2, 6] = some [⟨4, [(1, 4)]⟩, ⟨0, []⟩] := by decide

/-- non-vacuity of `C13_lookup_spec` -/
example :
    lookup 2 (tcmp (β := Nat)) (fun (p : Hist) (c : Nat) => if p.mass ≤ c then c - p.mass else p.mass - c)
      [⟨2, [(5, 2)]⟩, ⟨5, [(7, 5)]⟩] [2, 6] ["iso0", "iso1", "iso2"]
    = some [("iso0", absCode 2 0), ("iso1", absCode 2 1)] := by decide

/-- non-vacuity of `C13_metric_entries`: three centroids on the turn street (hypothesis discharged
    by evaluation): three entries, and the pair (2, 0) carries the symmetrised value -/
example : 2 * (metricRaw 2 (fun (x y : ℝ) => |x - y|) [1, 2, 4]).length = 3 * (3 - 1) :=
  (C13_metric_entries 2 _ [1, 2, 4] (by decide +kernel)).1

example : (metricRaw 2 (fun (x y : ℝ) => |x - y|) [1, 2, 4]).lookup (keyOf 2 2 0)
    = some (symDist (fun (x y : ℝ) => |x - y|) 4 1) :=
  (C13_metric_entries 2 _ [1, 2, 4] (by decide +kernel)).2.2 2 0 4 1 rfl rfl (by omega)

/-- the pair keys of three turn buckets do not collide -/
example : (layerKeys 2 3).Nodup := by decide +kernel

/-- non-vacuity: ties go to the first minimum (index 1, not 2), as `Iterator::min_by` does -/
example : argmin (tcmp (β := Nat)) [7, 3, 3, 5] = some (1, 3) := by decide

/-- an unordered distance (NaN, here `none`) makes the step fail instead of picking a centroid -/
example : argmin (fun a b : Option Nat => match a, b with
    | some x, some y => some (compare x y) | _, _ => none) [some 2, none, some 1] = none := by decide

end RP.C13
