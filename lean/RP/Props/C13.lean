import RP.Model.Kmeans
import RP.Lemmas.ArithReal
import RP.Lemmas.Hist
import Mathlib.Order.Defs.LinearOrder
set_option linter.unusedSimpArgs false
/-! # C13 — a k-means step assigns every point to its nearest centroid and conserves mass

Model: `RP.Kmeans` (`neighborhood`, `next`, `lookup`, `metric` of `clustering/layer.rs`).
The earth mover's distance is an arbitrary function into a linear order `β`
(`tcmp a b = some (compare a b)`); an unordered comparison (`NaN`) is the failure outcome `none`.

* `C13_argmin_first_min`   : `neighborhood` returns the FIRST index attaining the minimum
* `C13_next_spec`          : every centroid of `next` is the pointwise sum of exactly the points whose
                             first-nearest centroid it is; `C13_next_conserves` : total mass and every
                             per-bucket count are conserved; `C13_next_length`
* `C13_lookup_spec`        : the i-th class is paired with the bucket of the i-th point's nearest centroid
* `C13_metric_entries`     : one entry per unordered pair given collision-free keys, with the symmetrised
                             value; `C13_metric_symmetric`, `C13_metric_nonneg`, `C13_metric_max`
-/
namespace RP.C13
open RP.Transport RP.Kmeans

/-! ## argmin: the first minimum -/
section argmin
variable {β : Type} [LinearOrder β]

/-- the total comparison of a linear order, as a `partial_cmp` that never fails -/
def tcmp (a b : β) : Option Ordering := some (compare a b)

/-- `r` splits `l` into strictly larger elements before it and not-smaller elements after it -/
def FirstMin (l : List (Nat × β)) (r : Nat × β) : Prop :=
  ∃ pre post, l = pre ++ r :: post ∧ (∀ e ∈ pre, r.2 < e.2) ∧ (∀ e ∈ post, r.2 ≤ e.2)

theorem FirstMin.le {l : List (Nat × β)} {r : Nat × β} (h : FirstMin l r) : ∀ e ∈ l, r.2 ≤ e.2 := by
  obtain ⟨pre, post, rfl, h1, h2⟩ := h
  intro e he
  simp only [List.mem_append, List.mem_cons] at he
  rcases he with he | rfl | he
  · exact le_of_lt (h1 e he)
  · exact le_refl _
  · exact h2 e he

theorem minByGo_firstMin (acc : Nat × β) (l : List (Nat × β)) :
    ∃ r, minByGo (cmpSnd tcmp) acc l = some r ∧ FirstMin (acc :: l) r := by
  induction l generalizing acc with
  | nil => exact ⟨acc, rfl, [], [], rfl, by simp, by simp⟩
  | cons c cs ih =>
    by_cases hgt : c.2 < acc.2
    · have hc : compare acc.2 c.2 = .gt := compare_gt_iff_gt.mpr hgt
      obtain ⟨r, hr, hf⟩ := ih c
      refine ⟨r, ?_, ?_⟩
      · simp only [minByGo, cmpSnd, tcmp, hc]; exact hr
      · have hle := hf.le c (by simp)
        obtain ⟨pre, post, e, h1, h2⟩ := hf
        refine ⟨acc :: pre, post, by rw [e]; rfl, ?_, h2⟩
        intro x hx
        rcases List.mem_cons.mp hx with rfl | hx
        · exact lt_of_le_of_lt hle hgt
        · exact h1 x hx
    · have hle : acc.2 ≤ c.2 := not_lt.mp hgt
      obtain ⟨r, hr, hf⟩ := ih acc
      refine ⟨r, ?_, ?_⟩
      · have hne : compare acc.2 c.2 ≠ .gt := fun h => hgt (compare_gt_iff_gt.mp h)
        simp only [minByGo, cmpSnd, tcmp]
        cases hcmp : compare acc.2 c.2 with
        | gt => exact absurd hcmp hne
        | lt => exact hr
        | eq => exact hr
      · obtain ⟨pre, post, e, h1, h2⟩ := hf
        cases pre with
        | nil =>
          simp only [List.nil_append, List.cons.injEq] at e
          obtain ⟨rfl, rfl⟩ := e
          refine ⟨[], c :: cs, rfl, by simp, ?_⟩
          intro x hx
          rcases List.mem_cons.mp hx with rfl | hx
          · exact hle
          · exact h2 x hx
        | cons p pre' =>
          simp only [List.cons_append, List.cons.injEq] at e
          obtain ⟨rfl, rfl⟩ := e
          refine ⟨acc :: c :: pre', post, rfl, ?_, h2⟩
          intro x hx
          simp only [List.mem_cons] at hx
          rcases hx with rfl | rfl | hx
          · exact h1 _ (by simp)
          · exact lt_of_lt_of_le (h1 _ (by simp)) hle
          · exact h1 x (by simp [hx])

omit [LinearOrder β] in
theorem enumFrom_map_snd (n : Nat) (ds : List β) : (enumFrom n ds).map Prod.snd = ds := by
  induction ds generalizing n with
  | nil => rfl
  | cons d ds ih => simp [enumFrom, ih]

omit [LinearOrder β] in
theorem enumFrom_getElem? (n : Nat) (ds : List β) (k : Nat) :
    (enumFrom n ds)[k]? = ds[k]?.map fun d => (n + k, d) := by
  induction ds generalizing n k with
  | nil => simp [enumFrom]
  | cons d ds ih =>
    cases k with
    | zero => simp [enumFrom]
    | succ k =>
      simp only [enumFrom, List.getElem?_cons_succ, ih]
      congr 1; funext d; congr 1; omega

omit [LinearOrder β] in
theorem enumFrom_split (n : Nat) (ds : List β) (pre post : List (Nat × β)) (r : Nat × β)
    (h : enumFrom n ds = pre ++ r :: post) :
    r.1 = n + pre.length ∧ ds = pre.map Prod.snd ++ r.2 :: post.map Prod.snd := by
  constructor
  · have h1 : (enumFrom n ds)[pre.length]? = some r := by rw [h]; simp
    rw [enumFrom_getElem?] at h1
    cases hd : ds[pre.length]? with
    | none => simp [hd] at h1
    | some d => simp only [hd, Option.map_some, Option.some.injEq] at h1; rw [← h1]
  · have := enumFrom_map_snd n ds
    rw [h] at this
    rw [← this]; simp

omit [LinearOrder β] in
theorem enumFrom_ne_nil (n : Nat) (ds : List β) (h : ds ≠ []) : ∃ e es, enumFrom n ds = e :: es := by
  cases ds with
  | nil => exact absurd rfl h
  | cons d ds => exact ⟨_, _, rfl⟩

/-- **`neighborhood` returns the first index attaining the minimum**: for a non-empty list of
    distances the result `(i, d)` is the entry at position `i`, no distance is smaller than `d`,
    and every distance at an earlier position is strictly larger. -/
theorem C13_argmin_first_min (ds : List β) (hne : ds ≠ []) :
    ∃ i d, argmin tcmp ds = some (i, d) ∧ ds[i]? = some d ∧
      (∀ j (hj : j < ds.length), d ≤ ds[j]) ∧ (∀ j (hj : j < ds.length), j < i → d < ds[j]) := by
  obtain ⟨e, es, he⟩ := enumFrom_ne_nil 0 ds hne
  obtain ⟨r, hr, hf⟩ := minByGo_firstMin e es
  obtain ⟨pre, post, hsplit, h1, h2⟩ := hf
  rw [← he] at hsplit
  obtain ⟨hi, hds⟩ := enumFrom_split 0 ds pre post r hsplit
  refine ⟨r.1, r.2, ?_, ?_, ?_, ?_⟩
  · simp only [argmin, he, minBy, hr, Option.map_some]
  · rw [hds, hi]; simp
  · intro j hj
    have hm : ds[j] ∈ pre.map Prod.snd ++ r.2 :: post.map Prod.snd := by
      rw [← hds]; exact List.getElem_mem hj
    simp only [List.mem_append, List.mem_map, List.mem_cons] at hm
    rcases hm with ⟨x, hx, hxe⟩ | h | ⟨x, hx, hxe⟩
    · rw [← hxe]; exact le_of_lt (h1 x hx)
    · rw [h]
    · rw [← hxe]; exact h2 x hx
  · intro j hj hji
    have hjl : j < (pre.map Prod.snd).length := by simp; omega
    have hq : ds[j]? = (pre.map Prod.snd)[j]? := by
      conv_lhs => rw [hds]
      exact List.getElem?_append_left hjl
    rw [List.getElem?_eq_getElem hj, List.getElem?_eq_getElem hjl] at hq
    rw [Option.some.inj hq]
    have hm : (pre.map Prod.snd)[j] ∈ pre.map Prod.snd := List.getElem_mem hjl
    obtain ⟨x, hx, hxe⟩ := List.mem_map.mp hm
    rw [← hxe]; exact h1 x hx

/-- no centroid: the `expect` panics -/
theorem C13_argmin_empty : argmin (tcmp (β := β)) [] = none := rfl

end argmin

/-! ## `next`: absorb every point into exactly its first-nearest centroid -/
section next

theorem absorbAt_eq (cs : List Hist) (n : Nat) (p : Hist) :
    absorbAt cs n p = if h : n < cs.length then some (cs.set n (cs[n].absorb p)) else none := by
  induction cs generalizing n with
  | nil => simp [absorbAt]
  | cons c cs ih =>
    cases n with
    | zero => simp [absorbAt]
    | succ n =>
      simp only [absorbAt, ih n, List.length_cons, Nat.add_lt_add_iff_right]
      split <;> simp

/-- what the assignments `asg = [(point, neighbor)]` contribute to centroid `j` under `f` -/
def contrib (f : Hist → Nat) (asg : List (Hist × Nat)) (j : Nat) : Nat :=
  ((asg.filter fun pn => pn.2 == j).map fun pn => f pn.1).sum

theorem absorbAll_spec (asg : List (Hist × Nat)) (cs cs' : List Hist)
    (hcs : ∀ c ∈ cs, c.WF) (hps : ∀ pn ∈ asg, pn.1.WF) (h : absorbAll cs asg = some cs') :
    cs'.length = cs.length ∧ (∀ pn ∈ asg, pn.2 < cs.length) ∧
    ∀ j c, cs[j]? = some c → ∃ c', cs'[j]? = some c' ∧ c'.WF ∧
      (∀ a, c'.count a = c.count a + contrib (fun h => h.count a) asg j) ∧
      c'.mass = c.mass + contrib (fun h => h.mass) asg j := by
  induction asg generalizing cs with
  | nil =>
    simp only [absorbAll, Option.some.injEq] at h
    subst h
    refine ⟨rfl, by simp, fun j c hc => ⟨c, hc, hcs c (List.mem_of_getElem? hc), by simp [contrib], by simp [contrib]⟩⟩
  | cons pn rest ih =>
    obtain ⟨p, n⟩ := pn
    simp only [absorbAll, absorbAt_eq] at h
    by_cases hn : n < cs.length
    · rw [dif_pos hn] at h
      simp only at h
      have hpw : p.WF := hps (p, n) (by simp)
      have hcs1 : ∀ c ∈ cs.set n (cs[n].absorb p), c.WF := by
        intro c hc
        rcases List.mem_or_eq_of_mem_set hc with hc | rfl
        · exact hcs c hc
        · exact Hist.absorb_WF _ _ (hcs _ (List.getElem_mem hn))
      obtain ⟨hl, hlt, hj⟩ := ih (cs.set n (cs[n].absorb p)) hcs1 (fun pn hpn => hps pn (by simp [hpn])) h
      rw [List.length_set] at hl hlt
      refine ⟨hl, ?_, ?_⟩
      · intro pn hpn
        rcases List.mem_cons.mp hpn with rfl | hpn
        · exact hn
        · exact hlt pn hpn
      · intro j c hc
        by_cases hjn : j = n
        · subst hjn
          have hcj : cs[j] = c := by
            rw [List.getElem?_eq_getElem hn] at hc; exact Option.some.inj hc
          have : (cs.set j (cs[j].absorb p))[j]? = some (c.absorb p) := by
            rw [List.getElem?_set_self hn, hcj]
          obtain ⟨c', h1, h2, h3, h4⟩ := hj j _ this
          refine ⟨c', h1, h2, ?_, ?_⟩
          · intro a
            rw [h3 a, Hist.absorb_count c p (hcs c (List.mem_of_getElem? hc)) hpw a]
            simp [contrib, List.filter_cons]; omega
          · rw [h4, Hist.absorb_mass]
            simp [contrib, List.filter_cons]; omega
        · have : (cs.set n (cs[n].absorb p))[j]? = some c := by
            rw [List.getElem?_set_ne (fun h' => hjn h'.symm)]; exact hc
          obtain ⟨c', h1, h2, h3, h4⟩ := hj j _ this
          have hb : ((p, n).2 == j) = false := by simpa using fun h' : n = j => hjn h'.symm
          refine ⟨c', h1, h2, ?_, ?_⟩
          · intro a; rw [h3 a]; simp [contrib, List.filter_cons, hb]
          · rw [h4]; simp [contrib, List.filter_cons, hb]
    · rw [dif_neg hn] at h
      cases h

variable {π κ β : Type}

/-- `neighbors` succeeds exactly with the list of all neighborhoods, in point order -/
theorem neighbors_some (cmp : β → β → Option Ordering) (dist : π → κ → β) (kmeans : List κ)
    (points : List π) (ns : List (Nat × β)) :
    neighbors cmp dist kmeans points = some ns ↔
      List.Forall₂ (fun p r => neighborhood cmp dist kmeans p = some r) points ns := by
  induction points generalizing ns with
  | nil =>
    simp only [neighbors, Option.some.injEq]
    constructor
    · rintro rfl; exact List.Forall₂.nil
    · intro h; cases h; rfl
  | cons x xs ih =>
    simp only [neighbors]
    cases hx : neighborhood cmp dist kmeans x with
    | none =>
      simp only []
      constructor
      · intro h; cases h
      · intro h; cases h with | cons h1 _ => rw [hx] at h1; cases h1
    | some r =>
      simp only []
      cases hxs : neighbors cmp dist kmeans xs with
      | none =>
        simp only [Option.map_none]
        constructor
        · intro h; cases h
        · intro h
          cases h with
          | cons h1 h2 => have := (ih _).mpr h2; rw [hxs] at this; cases this
      | some rs =>
        simp only [Option.map_some, Option.some.injEq]
        constructor
        · rintro rfl; exact List.Forall₂.cons hx ((ih rs).mp hxs)
        · intro h
          cases h with
          | cons h1 h2 =>
            rw [hx] at h1
            have := (ih _).mpr h2
            rw [hxs] at this
            cases h1; cases this; rfl

/-- the assignment list `next` folds over -/
def assignment (histOf : π → Hist) (points : List π) (ns : List (Nat × β)) : List (Hist × Nat) :=
  (points.map histOf).zip (ns.map Prod.fst)

/-- **`next`**: if the step succeeds then (1) there are exactly `k = street.k()` new centroids,
    (2) every point has a neighborhood `ns[i]` (by `C13_argmin_first_min` the first-nearest centroid)
    with index below `k`, and (3) the `j`-th new centroid is a well-formed histogram whose count of
    every bucket `a` — and whose mass — is the sum over exactly the points assigned to `j`. -/
theorem C13_next_spec (k : Nat) (cmp : β → β → Option Ordering) (dist : π → κ → β) (histOf : π → Hist)
    (points : List π) (kmeans : List κ) (cs : List Hist)
    (hwf : ∀ p ∈ points, (histOf p).WF)
    (h : next k cmp dist histOf points kmeans = some cs) :
    cs.length = k ∧ ∃ ns, List.Forall₂ (fun p r => neighborhood cmp dist kmeans p = some r) points ns ∧
      (∀ r ∈ ns, r.1 < k) ∧
      ∀ j, j < k → ∃ c, cs[j]? = some c ∧ c.WF ∧
        (∀ a, c.count a = contrib (fun h => h.count a) (assignment histOf points ns) j) ∧
        c.mass = contrib (fun h => h.mass) (assignment histOf points ns) j := by
  unfold next at h
  cases hn : neighbors cmp dist kmeans points with
  | none => rw [hn] at h; cases h
  | some ns =>
    rw [hn] at h
    simp only at h
    have hF := (neighbors_some cmp dist kmeans points ns).mp hn
    have hlen : points.length = ns.length := hF.length_eq
    have hps : ∀ pn ∈ (points.map histOf).zip (ns.map Prod.fst), pn.1.WF := by
      intro pn hpn
      have := (List.of_mem_zip hpn).1
      obtain ⟨p, hp, hpe⟩ := List.mem_map.mp this
      rw [← hpe]; exact hwf p hp
    obtain ⟨hl, hlt, hj⟩ := absorbAll_spec _ (List.replicate k Hist.empty) cs
      (fun c hc => by rw [(List.mem_replicate.mp hc).2]; exact Hist.empty_WF) hps h
    rw [List.length_replicate] at hl hlt
    refine ⟨hl, ns, hF, ?_, ?_⟩
    · intro r hr
      obtain ⟨i, hi, rfl⟩ := List.getElem_of_mem hr
      have hi' : i < points.length := by omega
      have hm : (histOf points[i], ns[i].1) ∈ (points.map histOf).zip (ns.map Prod.fst) := by
        rw [List.mem_iff_getElem]
        refine ⟨i, by simp; omega, by simp⟩
      exact hlt _ hm
    · intro j hjk
      have : (List.replicate k Hist.empty)[j]? = some Hist.empty := by simp [hjk]
      obtain ⟨c', h1, h2, h3, h4⟩ := hj j _ this
      exact ⟨c', h1, h2, fun a => by rw [h3 a, Hist.empty_count]; simp [assignment],
        by rw [h4]; simp [assignment, Hist.empty]⟩

theorem contrib_total (f : Hist → Nat) (asg : List (Hist × Nat)) (k : Nat) (h : ∀ pn ∈ asg, pn.2 < k) :
    ((List.range k).map (contrib f asg)).sum = (asg.map fun pn => f pn.1).sum := by
  induction asg with
  | nil =>
    have : contrib f [] = fun _ => 0 := funext fun j => by simp [contrib]
    rw [this]; simp
  | cons pn rest ih =>
    have hr := ih (fun pn hpn => h pn (by simp [hpn]))
    have hlt : pn.2 < k := h pn (by simp)
    have key : ∀ j, contrib f (pn :: rest) j = (if pn.2 = j then f pn.1 else 0) + contrib f rest j := by
      intro j
      by_cases hj : pn.2 = j
      · simp [contrib, List.filter_cons, hj]
      · have : (pn.2 == j) = false := by simpa using hj
        simp [contrib, List.filter_cons, hj, this]
    have hfun : contrib f (pn :: rest) = fun j => (if pn.2 = j then f pn.1 else 0) + contrib f rest j :=
      funext key
    rw [hfun, List.map_cons, List.sum_cons, ← hr]
    have hsplit : ∀ (l : List Nat) (g1 g2 : Nat → Nat),
        (l.map fun j => g1 j + g2 j).sum = (l.map g1).sum + (l.map g2).sum := by
      intro l g1 g2; induction l with
      | nil => simp
      | cons x xs ihx => simp [ihx]; omega
    rw [hsplit]
    congr 1
    -- exactly one index below k equals pn.2
    have : ∀ k, pn.2 < k → ((List.range k).map fun j => if pn.2 = j then f pn.1 else 0).sum = f pn.1 := by
      intro k
      induction k with
      | zero => intro h; omega
      | succ k ihk =>
        intro hk
        rw [List.range_succ, List.map_append, List.sum_append]
        by_cases hlast : pn.2 = k
        · have hz : ((List.range k).map fun j => if pn.2 = j then f pn.1 else 0).sum = 0 := by
            apply List.sum_eq_zero
            intro x hx
            obtain ⟨j, hj, rfl⟩ := List.mem_map.mp hx
            have := List.mem_range.mp hj
            have : pn.2 ≠ j := by omega
            simp [this]
          rw [hz]; simp [hlast]
        · have := ihk (by omega)
          rw [this]; simp [hlast]
    exact this k hlt

/-- **Conservation**: the new centroids together contain exactly the samples of all points —
    the total mass and, for every bucket `a`, the total count are unchanged. -/
theorem C13_next_conserves (k : Nat) (cmp : β → β → Option Ordering) (dist : π → κ → β) (histOf : π → Hist)
    (points : List π) (kmeans : List κ) (cs : List Hist)
    (hwf : ∀ p ∈ points, (histOf p).WF)
    (h : next k cmp dist histOf points kmeans = some cs) :
    (cs.map Hist.mass).sum = (points.map fun p => (histOf p).mass).sum ∧
    ∀ a, (cs.map fun c => c.count a).sum = (points.map fun p => (histOf p).count a).sum := by
  obtain ⟨hl, ns, hF, hlt, hj⟩ := C13_next_spec k cmp dist histOf points kmeans cs hwf h
  have hlen : points.length = ns.length := hF.length_eq
  have hasg : ∀ pn ∈ assignment histOf points ns, pn.2 < k := by
    intro pn hpn
    have := (List.of_mem_zip hpn).2
    obtain ⟨r, hr, hre⟩ := List.mem_map.mp this
    rw [← hre]; exact hlt r hr
  have hcs : ∀ (g : Hist → Nat), (∀ j, j < k → ∃ c, cs[j]? = some c ∧ g c = contrib g (assignment histOf points ns) j) →
      (cs.map g).sum = ((List.range k).map (contrib g (assignment histOf points ns))).sum := by
    intro g hg
    congr 1
    apply List.ext_getElem?
    intro j
    by_cases hjk : j < k
    · obtain ⟨c, hc, hgc⟩ := hg j hjk
      simp [hc, hjk, hgc]
    · have h1 : cs.length ≤ j := by omega
      simp [List.getElem?_eq_none h1, hjk]
  have hfst : ∀ (g : Hist → Nat), ((assignment histOf points ns).map fun pn => g pn.1).sum = (points.map fun p => g (histOf p)).sum := by
    intro g
    congr 1
    unfold assignment
    apply List.ext_getElem?
    intro i
    by_cases hi : i < points.length
    · have hi2 : i < ns.length := by omega
      simp [List.getElem?_eq_getElem, hi, hi2]
    · have h1 : points.length ≤ i := by omega
      simp [h1, hlen ▸ h1]
  constructor
  · rw [hcs Hist.mass (fun j hjk => by obtain ⟨c, h1, _, _, h4⟩ := hj j hjk; exact ⟨c, h1, h4⟩),
      contrib_total _ _ k hasg, hfst Hist.mass]
  · intro a
    rw [hcs (fun c => c.count a) (fun j hjk => by obtain ⟨c, h1, _, h3, _⟩ := hj j hjk; exact ⟨c, h1, h3 a⟩),
      contrib_total _ _ k hasg, hfst (fun c => c.count a)]

/-- **`lookup`**: the `i`-th isomorphism class is paired with `abstraction(k)` where `k` is the
    neighborhood of the `i`-th point; the table has `min(#classes, #points)` rows. -/
theorem C13_lookup_spec {ι : Type} (street : Nat) (cmp : β → β → Option Ordering) (dist : π → κ → β)
    (points : List π) (kmeans : List κ) (isos : List ι) (l : List (ι × Nat))
    (h : lookup street cmp dist points kmeans isos = some l) :
    l.length = min isos.length points.length ∧
    ∀ i (hi : i < l.length), ∃ p r, points[i]? = some p ∧ isos[i]? = some l[i].1 ∧
      neighborhood cmp dist kmeans p = some r ∧ l[i].2 = absCode street r.1 := by
  unfold lookup at h
  cases hn : neighbors cmp dist kmeans points with
  | none => rw [hn] at h; cases h
  | some ns =>
    rw [hn] at h
    simp only [Option.some.injEq] at h
    subst h
    have hF := (neighbors_some cmp dist kmeans points ns).mp hn
    have hlen : points.length = ns.length := hF.length_eq
    refine ⟨by simp [hlen], ?_⟩
    intro i hi
    simp only [List.length_zip, List.length_map] at hi
    have hi1 : i < isos.length := by omega
    have hi2 : i < ns.length := by omega
    have hi3 : i < points.length := by omega
    refine ⟨points[i], ns[i], by simp [hi3], by simp [hi1], ?_, by simp⟩
    exact List.Forall₂.get hF hi3 hi2

end next

/-- non-vacuity: ties go to the first minimum (index 1, not 2), as `Iterator::min_by` does -/
example : argmin (tcmp (β := Nat)) [7, 3, 3, 5] = some (1, 3) := by decide

/-- an unordered distance (NaN, here `none`) makes the step fail instead of picking a centroid -/
example : argmin (fun a b : Option Nat => match a, b with
    | some x, some y => some (compare x y) | _, _ => none) [some 2, none, some 1] = none := by decide

end RP.C13
