import RP.Props.C07Inst
import RP.Props.C05
import RP.Lemmas.C01.Cards
/-! # C07 on isomorphism classes: equity, bucket and turn histogram are class functions

C05 defines the suit-isomorphism class of an observation (`RP.Iso.canon`, bit-shift based
`RP.Iso.image`/`permute`); C07Inst proves invariance under `RP.C01.relabel π` (nibble-wise).
This file shows the two relabelings are the same function on hands of the deck and concludes
that `riverCounts`, the `f32` equity, `riverBucket` and `turnHistogram` take the same value on
all members of one C05 class — in particular on an observation and on its canonical
representative, which is what `Lookup` / `Encoder::abstraction` rely on when they store one
bucket per canonical observation. Both decks: `m = RP.Eval.handMask cfg`. -/
namespace RP.C07
open RP.Bits RP.Equity RP.Iso

/-! ## (1) bridge: `RP.C01.relabel π` = `RP.Iso.image m π` on hands of the deck -/

theorem relabelW_nib (π : List Nat) (hπ : π ∈ RP.Gen.permExhaust) : ∀ w h r, r < w →
    RP.C01.relabelW w π h / 16^r % 16 = RP.C01.permNib π (h / 16^r % 16) := by
  intro w
  induction w with
  | zero => intro h r hr; omega
  | succ w ih =>
    intro h r hr
    cases r with
    | zero => simp only [Nat.pow_zero, Nat.div_one]; exact RP.C01.relabelW_mod w π hπ h
    | succ r =>
      have e1 : RP.C01.relabelW (w+1) π h / 16^(r+1) = RP.C01.relabelW w π (h / 16) / 16^r := by
        rw [Nat.pow_succ, Nat.mul_comm, ← Nat.div_div_eq_div_mul, RP.C01.relabelW_div w π hπ]
      have e2 : h / 16^(r+1) = h / 16 / 16^r := by
        rw [Nat.pow_succ, Nat.mul_comm, ← Nat.div_div_eq_div_mul]
      rw [e1, e2]
      exact ih (h / 16) r (by omega)

theorem permNib_bit : ∀ π ∈ RP.Gen.permExhaust, ∀ n, n < 16 → ∀ s, s < 4 →
    (RP.C01.permNib π n).testBit (π.getD s 0) = n.testBit s := by decide +kernel

/-- card `(r, s)` of `h` is card `(r, π[s])` of `relabel π h` — C05's `Relabel` -/
theorem relabel_Relabel (π : List Nat) (hπ : π ∈ RP.Gen.permExhaust) (h : Nat) (hh : h < 2^52) :
    Relabel π h (RP.C01.relabel π h) := by
  intro r s hs
  by_cases hr : r < 13
  · have ht : π.getD s 0 < 4 := pmap_lt π hπ s hs
    show (RP.C01.relabelW 13 π h).testBit (4 * r + π.getD s 0) = h.testBit (4 * r + s)
    rw [RP.C01.testBit_nib _ r _ ht, RP.C01.testBit_nib h r s hs, relabelW_nib π hπ 13 h r hr]
    exact permNib_bit π hπ _ (Nat.mod_lt _ (by decide)) s hs
  · have h1 : (RP.C01.relabel π h).testBit (4 * r + pmap π s) = false :=
      Nat.testBit_lt_two_pow (Nat.lt_of_lt_of_le (RP.C01.relabel_lt π hπ h) (Nat.pow_le_pow_right (by decide) (by omega)))
    have h2 : h.testBit (4 * r + s) = false :=
      Nat.testBit_lt_two_pow (Nat.lt_of_lt_of_le hh (Nat.pow_le_pow_right (by decide) (by omega)))
    rw [h1, h2]

/-- **bridge**: on hands inside the deck mask the two relabelings coincide -/
theorem relabel_eq_image {m : Nat} (hm : MaskOK m) (π : List Nat) (hπ : π ∈ RP.Gen.permExhaust) (h : Nat)
    (hh : h &&& m = h) : RP.C01.relabel π h = image m π h := by
  have hlt : h < 2^52 := by rw [← hh]; exact Nat.lt_of_le_of_lt Nat.and_le_right hm.1
  have hi : image m π h < 2^52 := by
    rw [← image_and_mask hm hπ h]; exact Nat.lt_of_le_of_lt Nat.and_le_right hm.1
  have r1 := relabel_Relabel π hπ h hlt
  have r2 := image_relabel hm hπ hh
  apply Nat.eq_of_testBit_eq
  intro i
  by_cases h52 : i < 52
  · obtain ⟨s, hs, hst⟩ := pmap_surj π hπ (i % 4) (Nat.mod_lt _ (by decide))
    have e : i = 4 * (i / 4) + pmap π s := by omega
    rw [e, r1 (i / 4) s hs, r2 (i / 4) s hs]
  · rw [Nat.testBit_lt_two_pow (Nat.lt_of_lt_of_le (RP.C01.relabel_lt π hπ h) (Nat.pow_le_pow_right (by decide) (by omega))),
      Nat.testBit_lt_two_pow (Nat.lt_of_lt_of_le hi (Nat.pow_le_pow_right (by decide) (by omega)))]

/-- the deck mask of a configuration satisfies C05's mask condition -/
theorem maskOK_cfg (cfg : RP.Eval.Cfg) : MaskOK (RP.Eval.handMask cfg) := by
  cases cfg
  · exact maskOK_std
  · exact maskOK_short

/-- `Permutation::permute` of an observation is the nibble-wise relabeling of pocket and board -/
theorem permute_eq_relabel (cfg : RP.Eval.Cfg) (π : List Nat) (hπ : π ∈ RP.Gen.permExhaust) (o : Obs)
    (ho : RP.C05.Valid (RP.Eval.handMask cfg) o) :
    permute (RP.Eval.handMask cfg) π o = ⟨RP.C01.relabel π o.pocket, RP.C01.relabel π o.board⟩ := by
  rw [RP.C05.permute_eq, relabel_eq_image (maskOK_cfg cfg) π hπ _ ho.pocket_in,
    relabel_eq_image (maskOK_cfg cfg) π hπ _ ho.board_in]

/-! ## well-formed observations of C05 are the observations of C07Inst -/

theorem riverObs_of_wf (cfg : RP.Eval.Cfg) (o : Obs) (ho : RP.C05.WellFormed (RP.Eval.handMask cfg) o)
    (h5 : size o.board = 5) : RiverObs (shortOf cfg) o.pocket o.board := by
  refine ⟨⟨ho.pocket2, Nat.and_zero _, ?_⟩, ⟨h5, ?_, ?_⟩⟩
  · rw [handMask_link]; exact ho.pocket_in
  · rw [Nat.and_comm]; exact ho.disjoint
  · rw [handMask_link]; exact ho.board_in

theorem turnObs_of_wf (cfg : RP.Eval.Cfg) (o : Obs) (ho : RP.C05.WellFormed (RP.Eval.handMask cfg) o)
    (h4 : size o.board = 4) : TurnObs (shortOf cfg) o.pocket o.board := by
  refine ⟨⟨ho.pocket2, Nat.and_zero _, ?_⟩, ⟨h4, ?_, ?_⟩⟩
  · rw [handMask_link]; exact ho.pocket_in
  · rw [Nat.and_comm]; exact ho.disjoint
  · rw [handMask_link]; exact ho.board_in

/-! ## (2) river: counts, equity bits and bucket are functions of the isomorphism class -/

/-- **C07_class_invariant**: two river observations with the same canonical form (same C05 class)
    have the same `(wins, total)`, the bit-identical `f32` equity and the same river bucket -/
theorem C07_class_invariant (cfg : RP.Eval.Cfg) (o₁ o₂ : Obs)
    (h₁ : RP.C05.WellFormed (RP.Eval.handMask cfg) o₁) (h₂ : RP.C05.WellFormed (RP.Eval.handMask cfg) o₂)
    (h5 : size o₁.board = 5)
    (hc : canon (RP.Eval.handMask cfg) o₁ = canon (RP.Eval.handMask cfg) o₂) :
    riverCounts cfg (shortOf cfg) o₂.pocket o₂.board = riverCounts cfg (shortOf cfg) o₁.pocket o₁.board ∧
    (riverEquity cfg (shortOf cfg) o₂.pocket o₂.board).toBits = (riverEquity cfg (shortOf cfg) o₁.pocket o₁.board).toBits ∧
    riverBucket cfg (shortOf cfg) o₂.pocket o₂.board = riverBucket cfg (shortOf cfg) o₁.pocket o₁.board := by
  obtain ⟨π, hπ, e, _, _⟩ := RP.C05.C05_orbit (maskOK_cfg cfg) h₁.toValid h₂.toValid hc
  rw [permute_eq_relabel cfg π hπ o₁ h₁.toValid] at e
  have hr := riverObs_of_wf cfg o₁ h₁ h5
  rw [e]
  exact ⟨C07_river_counts_invariant cfg π hπ _ _ hr, (C07_river_equity_invariant cfg π hπ _ _ hr).2,
    C07_river_bucket_invariant cfg π hπ _ _ hr⟩

/-- the bucket (and equity) of an observation is the bucket of its canonical representative -/
theorem C07_bucket_of_canon (cfg : RP.Eval.Cfg) (o : Obs)
    (ho : RP.C05.WellFormed (RP.Eval.handMask cfg) o) (h5 : size o.board = 5) :
    riverBucket cfg (shortOf cfg) (canon (RP.Eval.handMask cfg) o).pocket (canon (RP.Eval.handMask cfg) o).board =
      riverBucket cfg (shortOf cfg) o.pocket o.board ∧
    (riverEquity cfg (shortOf cfg) (canon (RP.Eval.handMask cfg) o).pocket (canon (RP.Eval.handMask cfg) o).board).toBits =
      (riverEquity cfg (shortOf cfg) o.pocket o.board).toBits := by
  have hp := permOf_mem (RP.Eval.handMask cfg) o
  rw [RP.C05.canon_eq, permute_eq_relabel cfg _ hp o ho.toValid]
  have hr := riverObs_of_wf cfg o ho h5
  exact ⟨C07_river_bucket_invariant cfg _ hp _ _ hr, (C07_river_equity_invariant cfg _ hp _ _ hr).2⟩

/-! ## (3) turn: the histogram of child buckets is a function of the isomorphism class -/

theorem C07_class_histogram_invariant (cfg : RP.Eval.Cfg) (o₁ o₂ : Obs)
    (h₁ : RP.C05.WellFormed (RP.Eval.handMask cfg) o₁) (h₂ : RP.C05.WellFormed (RP.Eval.handMask cfg) o₂)
    (h4 : size o₁.board = 4)
    (hc : canon (RP.Eval.handMask cfg) o₁ = canon (RP.Eval.handMask cfg) o₂) :
    turnHistogram cfg (shortOf cfg) o₂.pocket o₂.board = turnHistogram cfg (shortOf cfg) o₁.pocket o₁.board := by
  obtain ⟨π, hπ, e, _, _⟩ := RP.C05.C05_orbit (maskOK_cfg cfg) h₁.toValid h₂.toValid hc
  rw [permute_eq_relabel cfg π hπ o₁ h₁.toValid] at e
  rw [e]
  exact C07_turn_histogram_invariant cfg π hπ _ _ (turnObs_of_wf cfg o₁ h₁ h4)

theorem C07_histogram_of_canon (cfg : RP.Eval.Cfg) (o : Obs)
    (ho : RP.C05.WellFormed (RP.Eval.handMask cfg) o) (h4 : size o.board = 4) :
    turnHistogram cfg (shortOf cfg) (canon (RP.Eval.handMask cfg) o).pocket (canon (RP.Eval.handMask cfg) o).board =
      turnHistogram cfg (shortOf cfg) o.pocket o.board := by
  have hp := permOf_mem (RP.Eval.handMask cfg) o
  rw [RP.C05.canon_eq, permute_eq_relabel cfg _ hp o ho.toValid]
  exact C07_turn_histogram_invariant cfg _ hp _ _ (turnObs_of_wf cfg o ho h4)

/-! ## non-vacuity (the observations of C05's examples) -/

theorem exA_wf : RP.C05.WellFormed (RP.Eval.handMask .std) RP.C05.exA :=
  { RP.C05.exA_valid with disjoint := by decide +kernel, street := by decide +kernel }
theorem exB_wf : RP.C05.WellFormed (RP.Eval.handMask .std) RP.C05.exB :=
  { RP.C05.exB_valid with disjoint := by decide +kernel, street := by decide +kernel }
theorem exS_wf : RP.C05.WellFormed (RP.Eval.handMask .short) RP.C05.exS :=
  { RP.C05.exS_valid with disjoint := by decide +kernel, street := by decide +kernel }

-- the bridge on a concrete hand and relabeling that moves cards
example : RP.C01.relabel [1, 2, 0, 3] RP.C05.exA.board = image RP.Gen.handMaskStd [1, 2, 0, 3] RP.C05.exA.board ∧
    RP.C01.relabel [1, 2, 0, 3] RP.C05.exA.board ≠ RP.C05.exA.board := by decide +kernel
-- exA and exB are different observations of one class: same counts, equity bits and bucket
example : RP.C05.exA ≠ RP.C05.exB ∧
    riverBucket .std false RP.C05.exB.pocket RP.C05.exB.board = riverBucket .std false RP.C05.exA.pocket RP.C05.exA.board :=
  ⟨by decide, (C07_class_invariant .std _ _ exA_wf exB_wf (by decide +kernel) (by decide +kernel)).2.2⟩
-- short deck: the stored bucket of the canonical representative is the bucket of the member
example : canon RP.Gen.handMaskShort RP.C05.exS ≠ RP.C05.exS ∧
    riverBucket .short true (canon RP.Gen.handMaskShort RP.C05.exS).pocket (canon RP.Gen.handMaskShort RP.C05.exS).board =
      riverBucket .short true RP.C05.exS.pocket RP.C05.exS.board :=
  ⟨by decide +kernel, (C07_bucket_of_canon .short _ exS_wf (by decide +kernel)).1⟩
-- a turn observation (exA without its last board card) and its canonical form
def exTurnObs : Obs := ⟨2^3 + 2^47, 2^1 + 2^14 + 2^24 + 2^32⟩
example : turnHistogram .std false (canon RP.Gen.handMaskStd exTurnObs).pocket (canon RP.Gen.handMaskStd exTurnObs).board =
    turnHistogram .std false exTurnObs.pocket exTurnObs.board :=
  C07_histogram_of_canon .std exTurnObs
    { pocket_in := by decide +kernel, board_in := by decide +kernel, pocket2 := by decide +kernel,
      board5 := by decide +kernel, disjoint := by decide +kernel, street := by decide +kernel } (by decide +kernel)

end RP.C07
