import RP.Props.C02
import RP.Props.C03
import RP.Props.C14Game
import RP.Props.C01
/-! # C02 composed with C01 — "the pot goes to the strongest remaining hand" in terms of the RULES

`RP.C02.C02_payout` is stated for an abstract hand-strength function. Here it is instantiated
with the evaluator model's `Strength` key (`RP.Eval.strengthKey .std`, the derived `Ord` of
`Strength` the real `Showdown` compares with) and composed with
`RP.C01.C01_strength_order` (evaluated strength order = order of the best five-card poker hands,
`RP.Spec.Poker.best5`, brute force over all five-subsets under the rules), so that the payout
clause speaks about poker hands and not about a key.

The game model's deck is the standard 52-card deck (`RP.Gen.handMaskStd`), so the statement is
for `Cfg.std`. For the short deck one would need a `Game` model parametrised by the deck mask
(`deck g`, `ValidDeal`, the card clauses of `GameInv`) and `handMaskShort`; the betting part
and `C01_strength_order .short` are already deck-generic.

Trusted base of this file: it inherits C01's use of native evaluation for the class table
(`Lean.ofReduceBool`), see props/C01.json. -/
namespace RP.C02
open RP.Game
open RP.Showdown (Status)
open RP.Bits (popW)
open RP.Eval (Cfg strengthKey compareHands)
open RP.Spec.Poker (best5)
open RP.C01 (ValidHand)

/-- the holes dealt at the root are the holes of every later state -/
theorem holes_run {g : Game} (h : GameInv g) : ∀ {as : List Action} {g' : Game},
    run? g as = some g' → g'.s0.hole = g.s0.hole ∧ g'.s1.hole = g.s1.hole := by
  intro as
  induction as generalizing g with
  | nil => intro g' hr; simp only [run?, Option.some.injEq] at hr; subst hr; exact ⟨rfl, rfl⟩
  | cons a as ih =>
    intro g' hr
    have e : run? g (a :: as) = (step? g a).bind (fun g1 => run? g1 as) := rfl
    rw [e] at hr
    cases hs : step? g a with
    | none => rw [hs] at hr; cases hr
    | some g1 =>
      rw [hs] at hr
      obtain ⟨a0, a1⟩ := RP.C14.C14_holes_fixed h hs
      obtain ⟨b0, b1⟩ := ih (inv_step h hs) hr
      exact ⟨b0.trans a0, b1.trans a1⟩

/-- bits above the word do not count -/
theorem popW_add (w : Nat) {x : Nat} (hx : x < 2 ^ w) : ∀ k, popW (w + k) x = popW w x := by
  intro k
  induction k with
  | zero => rfl
  | succ k ih =>
    have : x.testBit (w + k) = false :=
      Nat.testBit_lt_two_pow (Nat.lt_of_lt_of_le hx (Nat.pow_le_pow_right (by omega) (by omega)))
    rw [← Nat.add_assoc, RP.Bits.popW_succ, this, ih]; simp

theorem popW_64_52 {x : Nat} (hx : x < 2 ^ 52) : popW 64 x = popW 52 x := popW_add 52 hx 12

/-- a hole of two cards together with a disjoint five-card board inside the deck is a valid
    seven-card hand of the standard deck -/
theorem validHand_seven {hole board : Nat} (hh : hole < 2 ^ 52) (hb : board < 2 ^ 52)
    (hd : board &&& hole = 0) (h2 : popW 52 hole = 2) (h5 : popW 52 board = 5) :
    ValidHand Cfg.std (hole ||| board) := by
  have hlt : hole ||| board < 2 ^ 52 := Nat.or_lt_two_pow hh hb
  have hpop : popW 52 (hole ||| board) = 7 := by
    rw [popW_or_disjoint 52 _ _ (by rw [Nat.and_comm]; exact hd), h2, h5]
  refine ⟨?_, by omega, by omega⟩
  show (hole ||| board) &&& RP.Gen.handMaskStd = hole ||| board
  rw [handMask_eq, Nat.and_two_pow_sub_one_eq_mod, Nat.mod_eq_of_lt hlt]

/-- **C02, payout clause in terms of the poker rules.** For every deal of two 2-card holes from
the standard deck and every accepted action list from the freshly dealt hand that ends in a
showdown (terminal, nobody folded): the board has five cards, both seven-card hands are valid
hands, and with the real evaluator's strength order (`strengthKey .std`, what `Showdown` compares)
the settlement pays the whole pot to the seat whose **best five-card poker hand** is higher, and
on equal best hands gives each seat exactly its own contribution back (the pot is split). -/
theorem C02_payout_rules {h0 h1 : Nat} (hv : ValidDeal h0 h1) (hc0 : popW 52 h0 = 2)
    (hc1 : popW 52 h1 = 2) {as : List Action} {g : Game} (hr : run? (root h0 h1) as = some g)
    (ht : turn g = Turn.terminal) (n0 : g.s0.state ≠ Status.folding)
    (n1 : g.s1.state ≠ Status.folding) :
    popW 52 g.board = 5 ∧ g.s0.hole = h0 ∧ g.s1.hole = h1 ∧
    ValidHand Cfg.std (h0 ||| g.board) ∧ ValidHand Cfg.std (h1 ||| g.board) ∧
    (best5 false (h1 ||| g.board) < best5 false (h0 ||| g.board) →
      rewards (strengthKey Cfg.std) g = some [g.pot, 0]) ∧
    (best5 false (h0 ||| g.board) < best5 false (h1 ||| g.board) →
      rewards (strengthKey Cfg.std) g = some [0, g.pot]) ∧
    (best5 false (h0 ||| g.board) = best5 false (h1 ||| g.board) →
      rewards (strengthKey Cfg.std) g = some [g.s0.spent, g.s1.spent] ∧
      g.s0.spent + g.s1.spent = g.pot ∧ g.s0.spent = g.s1.spent) := by
  have hinv : GameInv g := C02_reachable hv hr
  obtain ⟨e0, e1⟩ := holes_run (inv_root hv) hr
  have e0' : g.s0.hole = h0 := e0
  have e1' : g.s1.hole = h1 := e1
  have hs : mustStop g = true := (RP.C03.C03_turn g).1.1 ht
  -- showdown: river, five board cards
  have hs3 : street g = 3 := by
    rcases terminal_view hinv hs with ⟨f, _⟩ | ⟨f, _⟩ | ⟨s3, _⟩
    · exact absurd f n0
    · exact absurd f n1
    · exact s3
  obtain ⟨hd01, hdb0, hdb1, ⟨hbl, hh0, hh1⟩, hsize⟩ := RP.C14.dealt_of_inv hinv
  have hb64 : popW 64 g.board = 5 := by
    unfold street at hs3; rw [streetOf_eq] at hs3
    rcases hsize with e | e | e | e <;> rw [e] at hs3 <;> simp at hs3
    exact e
  have hb5 : popW 52 g.board = 5 := by rw [← popW_64_52 hbl]; exact hb64
  rw [e0'] at hdb0 hh0; rw [e1'] at hdb1 hh1
  have v0 := validHand_seven hh0 hbl hdb0 hc0 hb5
  have v1 := validHand_seven hh1 hbl hdb1 hc1 hb5
  -- the evaluator orders the two hands as the rules do
  have hord : compare (strengthKey Cfg.std (h0 ||| g.board)) (strengthKey Cfg.std (h1 ||| g.board)) =
      compare (best5 false (h0 ||| g.board)) (best5 false (h1 ||| g.board)) :=
    RP.C01.C01_strength_order Cfg.std _ _ v0 v1
  obtain ⟨r0, r1, hrew, _, hsum, _, _, _, _, _, hshow⟩ := C02_payout hinv hs (strengthKey Cfg.std)
  have hshow' := hshow n0 n1
  simp only [e0', e1'] at hshow'
  obtain ⟨hgt, hlt, heq⟩ := hshow'
  obtain ⟨_, hpot⟩ := seats_view hinv
  refine ⟨hb5, e0', e1', v0, v1, ?_, ?_, ?_⟩
  · intro hb
    have : strengthKey Cfg.std (h1 ||| g.board) < strengthKey Cfg.std (h0 ||| g.board) := by
      rw [← Nat.compare_eq_gt, hord, Nat.compare_eq_gt]; exact hb
    obtain ⟨a, b⟩ := hgt this
    rw [hrew, a, b]
  · intro hb
    have : strengthKey Cfg.std (h0 ||| g.board) < strengthKey Cfg.std (h1 ||| g.board) := by
      rw [← Nat.compare_eq_lt, hord, Nat.compare_eq_lt]; exact hb
    obtain ⟨a, b⟩ := hlt this
    rw [hrew, a, b]
  · intro hb
    have : strengthKey Cfg.std (h0 ||| g.board) = strengthKey Cfg.std (h1 ||| g.board) := by
      rw [← Nat.compare_eq_eq, hord, Nat.compare_eq_eq]; exact hb
    obtain ⟨a, b, c⟩ := heq this
    rw [hrew, a, b]
    exact ⟨rfl, hpot.symm, by omega⟩

/-! ## non-vacuity: a checked-down hand with real cards -/

/-- A♣A♦ against 7♥6♠ on K♣ 9♦ T♥ | Q♠ | 8♣, checked down -/
def showdownDemo : List Action :=
  [.call 1, .check, .draw (2^44 ||| 2^29 ||| 2^34), .check, .check, .draw (2^43), .check, .check,
   .draw (2^24), .check, .check]
def demoH0 : Nat := 2^48 ||| 2^49
def demoH1 : Nat := 2^22 ||| 2^19

theorem demo_showdown_deal : ValidDeal demoH0 demoH1 ∧ popW 52 demoH0 = 2 ∧ popW 52 demoH1 = 2 := by
  unfold ValidDeal; decide

/-- non-vacuity: the theorem applies to this hand; the straight (6-T) beats the pair of aces and
    takes the pot of 4 -/
example : ∃ g, run? (root demoH0 demoH1) showdownDemo = some g ∧
    best5 false (demoH0 ||| g.board) < best5 false (demoH1 ||| g.board) ∧
    rewards (strengthKey Cfg.std) g = some [0, g.pot] ∧ g.pot = 4 := by
  cases hrun : run? (root demoH0 demoH1) showdownDemo with
  | none => exact absurd hrun (by decide)
  | some g =>
    have hfacts : (run? (root demoH0 demoH1) showdownDemo).map (fun g =>
        (turn g, g.s0.state, g.s1.state, g.pot,
          decide (best5 false (demoH0 ||| g.board) < best5 false (demoH1 ||| g.board)))) =
        some (Turn.terminal, RP.Showdown.Status.betting, RP.Showdown.Status.betting, 4, true) := by decide
    rw [hrun] at hfacts
    simp only [Option.map_some, Option.some.injEq, Prod.mk.injEq, decide_eq_true_eq] at hfacts
    obtain ⟨ht, s0, s1, hp, hlt⟩ := hfacts
    obtain ⟨_, _, _, _, _, _, hwin, _⟩ :=
      C02_payout_rules demo_showdown_deal.1 demo_showdown_deal.2.1 demo_showdown_deal.2.2 hrun ht
        (by rw [s0]; simp) (by rw [s1]; simp)
    exact ⟨g, rfl, hlt, hwin hlt, hp⟩
-- and the model computes the same thing directly
example : (run? (root demoH0 demoH1) showdownDemo).bind (rewards (strengthKey Cfg.std)) = some [0, 4] := by decide

end RP.C02
