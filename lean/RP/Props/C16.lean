import RP.Model.Parse
import RP.Lemmas.Codec
import RP.Lemmas.Parse
import RP.Lemmas.Abs
/-! # C16 — Text parsers never abort and accept only valid values

Theorems about the parser models of `RP/Model/Parse.lean` (the definitions the driver `drv_c16`
runs against the real `TryFrom<&str>` impls).

* **never aborts** — for *every* instantiation `U` of the Unicode tables (no assumption at all) and
  *every* string, each of the eight parsers returns `ok` or `err`, never `panic`;
* **accepted observation is well-formed** — 2 pocket cards, 0/3/4/5 board cards, no card in both,
  all cards below 52;
* **print → parse** — under `U.AsciiOK` (the tables restricted to ASCII are the ASCII ones) the
  printed form of every value parses back to it. -/
namespace RP.C16
open RP.Codec RP.Gen RP.Parse

/-! ## never aborts (all strings, all Unicode tables) -/
theorem parseCard_no_panic (U : Unicode) (s : List Char) : parseCard U s ≠ .panic := by
  unfold parseCard
  split
  · split
    · simp
    · split <;> simp
  · simp

theorem collectCards_no_panic (U : Unicode) : ∀ l : List (List Char), collectCards U l ≠ .panic
  | [] => by simp [collectCards]
  | ch :: rest => by
    have ih := collectCards_no_panic U rest
    have hc := parseCard_no_panic U ch
    unfold collectCards
    cases h1 : parseCard U ch with
    | panic => exact absurd h1 hc
    | err => simp
    | ok c =>
      cases h2 : collectCards U rest with
      | panic => exact absurd h2 ih
      | err => simp
      | ok cs => simp

theorem tokensCards_no_panic (U : Unicode) : ∀ l : List (List Char), tokensCards U l ≠ .panic ∧ tokensCards U l ≠ .err
  | [] => by simp [tokensCards]
  | t :: ts => by
    have ih := tokensCards_no_panic U ts
    have hc := collectCards_no_panic U (chunks2 t)
    unfold tokensCards
    cases h1 : collectCards U (chunks2 t) with
    | panic => exact absurd h1 hc
    | err => exact ih
    | ok cs =>
      cases h2 : tokensCards U ts with
      | panic => exact absurd h2 ih.1
      | err => exact absurd h2 ih.2
      | ok r => simp

/-- `Hand::try_from` never aborts — and never even fails: unparsable tokens are dropped -/
theorem parseHand_total (U : Unicode) (s : List Char) : ∃ h, parseHand U s = .ok h := by
  have := tokensCards_no_panic U (splitWs U s)
  unfold parseHand
  cases h : tokensCards U (splitWs U s) with
  | panic => exact absurd h this.1
  | err => exact absurd h this.2
  | ok cs => exact ⟨_, rfl⟩
theorem C16_hand_no_panic (U : Unicode) (s : List Char) : parseHand U s ≠ .panic := by
  obtain ⟨h, e⟩ := parseHand_total U s; rw [e]; simp
theorem C16_card_no_panic (U : Unicode) (s : List Char) : parseCard U s ≠ .panic := parseCard_no_panic U s
theorem C16_hole_no_panic (U : Unicode) (s : List Char) : parseHole U s ≠ .panic := by
  obtain ⟨h, e⟩ := parseHand_total U s
  unfold parseHole; rw [e]; simp only; split <;> simp

theorem obsSizes_ok (p b : Nat) (h : (handSize p, handSize b) ∈ C16.obsSizes) :
    handSize p = 2 ∧ (handSize b = 0 ∨ handSize b = 3 ∨ handSize b = 4 ∨ handSize b = 5) := by
  simp only [C16.obsSizes, List.mem_cons, Prod.mk.injEq, List.mem_nil_iff, or_false] at h
  omega

theorem C16_obs_no_panic (U : Unicode) (s : List Char) : parseObs U s ≠ .panic := by
  unfold parseObs
  simp only
  obtain ⟨p, e1⟩ := parseHand_total U ((splitOnce C16.obsSeparator (trim U s)).getD (trim U s, [])).1
  obtain ⟨b, e2⟩ := parseHand_total U ((splitOnce C16.obsSeparator (trim U s)).getD (trim U s, [])).2
  rw [e1, e2]
  simp only
  split
  · simp
  · split
    · rename_i hsz
      have := obsSizes_ok p b hsz
      have hm : obsMk p b = some ⟨p, b⟩ := by
        unfold obsMk
        have : handSize p = C15.obsPocketSize ∧ handSize b ≤ C15.obsPublicMax := by
          simp only [C15.obsPocketSize, C15.obsPublicMax]; omega
        rw [if_pos this]
      rw [hm]; simp
    · simp

theorem C16_street_no_panic (U : Unicode) (s : List Char) : parseStreet U s ≠ .panic := by
  unfold parseStreet
  split
  · split <;> simp
  · simp

theorem C16_abs_no_panic (U : Unicode) (s : List Char) : parseAbs U s ≠ .panic := by
  unfold parseAbs
  simp only
  split
  · rename_i a b _ _
    have := C16_street_no_panic U a
    cases h : parseStreet U a with
    | panic => exact absurd h this
    | err => simp
    | ok st => simp only; split <;> simp
  · simp

theorem C16_action_no_panic (U : Unicode) (s : List Char) : parseAction U s ≠ .panic := by
  unfold parseAction
  simp only
  split
  · simp
  · rename_i first rest hparts
    have amount : ∀ mk : Int → Action,
        (match rest.head? with
          | some n => (match parseInt 10 CHIPS_BITS true n with
            | some x => Outcome.ok (mk x)
            | none => Outcome.err)
          | none => Outcome.err) ≠ .panic := by
      intro mk; split
      · split <;> simp
      · simp
    split; · simp
    split; · simp
    split; · exact amount _
    split; · exact amount _
    split; · exact amount _
    split; · exact amount _
    split
    · have hv : vecSliceFrom (first :: rest) 1 = some rest := by simp [vecSliceFrom]
      rw [hparts, hv]; simp only
      obtain ⟨h, e⟩ := parseHand_total U (joinSp rest)
      rw [e]; simp
    · simp

theorem byteSlice_after_ascii (c : Char) (cs : List Char) (hc : c.toNat < 128) : byteSliceFrom (c :: cs) 1 = some cs := by
  have : utf8Len c = 1 := by unfold utf8Len; simp [hc]
  simp [byteSliceFrom, this]

theorem C16_turn_no_panic (s : List Char) : parseTurn s ≠ .panic := by
  unfold parseTurn
  split; · simp
  split; · simp
  split
  · rename_i hh
    cases s with
    | nil => simp at hh
    | cons c cs =>
      simp only [List.head?_cons, Option.some.injEq] at hh
      have hs : byteSliceFrom (c :: cs) C16.turnSliceFrom = some cs := by
        rw [hh]; exact byteSlice_after_ascii _ _ (by decide)
      rw [hs]; simp only
      split <;> simp
  · simp

/-! ## accepted values are valid -/
theorem lookup_mem {α β : Type} [BEq α] : ∀ (l : List (α × β)) (k : α) (v : β), l.lookup k = some v → ∃ k', (k', v) ∈ l
  | [], _, _, h => by simp [List.lookup] at h
  | (k', v') :: l, k, v, h => by
    simp only [List.lookup] at h
    split at h
    · simp at h; subst h; exact ⟨k', by simp⟩
    · obtain ⟨k'', hm⟩ := lookup_mem l k v h
      exact ⟨k'', by simp [hm]⟩

theorem rank_values : ∀ p ∈ C16.rankParse, p.2 < 13 := by decide
theorem suit_values : ∀ p ∈ C16.suitParse, p.2 < 4 := by decide

/-- an accepted card is one of the 52 -/
theorem parseCard_lt (U : Unicode) (s : List Char) (c : Nat) (h : parseCard U s = .ok c) : c < 52 := by
  unfold parseCard at h
  split at h
  · split at h
    · simp at h
    · rename_i r hr
      split at h
      · simp at h
      · rename_i x hx
        simp only [Outcome.ok.injEq] at h
        obtain ⟨_, m1⟩ := lookup_mem _ _ _ hr
        obtain ⟨_, m2⟩ := lookup_mem _ _ _ hx
        have b1 := rank_values _ m1
        have b2 := suit_values _ m2
        simp only [cardOfRS, C15.cardMul] at h
        simp only at b1 b2
        omega
  · simp at h

theorem collectCards_lt (U : Unicode) : ∀ (l : List (List Char)) (cs : List Nat), collectCards U l = .ok cs → ∀ c ∈ cs, c < 52
  | [], cs, h => by simp [collectCards] at h; subst h; simp
  | ch :: rest, cs, h => by
    unfold collectCards at h
    cases h1 : parseCard U ch with
    | panic => rw [h1] at h; simp at h
    | err => rw [h1] at h; simp at h
    | ok c =>
      rw [h1] at h; simp only at h
      cases h2 : collectCards U rest with
      | panic => rw [h2] at h; simp at h
      | err => rw [h2] at h; simp at h
      | ok r =>
        rw [h2] at h; simp only [Outcome.ok.injEq] at h; subst h
        intro x hx
        rcases List.mem_cons.mp hx with rfl | hx
        · exact parseCard_lt U ch _ h1
        · exact collectCards_lt U rest r h2 x hx

theorem tokensCards_lt (U : Unicode) : ∀ (l : List (List Char)) (cs : List Nat), tokensCards U l = .ok cs → ∀ c ∈ cs, c < 52
  | [], cs, h => by simp [tokensCards] at h; subst h; simp
  | t :: ts, cs, h => by
    unfold tokensCards at h
    cases h1 : collectCards U (chunks2 t) with
    | panic => rw [h1] at h; simp at h
    | err => rw [h1] at h; simp only at h; exact tokensCards_lt U ts cs h
    | ok a =>
      rw [h1] at h; simp only at h
      cases h2 : tokensCards U ts with
      | panic => rw [h2] at h; simp at h
      | err => rw [h2] at h; simp at h
      | ok r =>
        rw [h2] at h; simp only [Outcome.ok.injEq] at h; subst h
        intro x hx
        rcases List.mem_append.mp hx with hx | hx
        · exact collectCards_lt U _ a h1 x hx
        · exact tokensCards_lt U ts r h2 x hx

theorem foldl_or_lt (cs : List Nat) (hc : ∀ c ∈ cs, c < 52) : ∀ acc, acc < 2^52 →
    cs.foldl (fun a c => a ||| (1 <<< c)) acc < 2^52 := by
  induction cs with
  | nil => intro acc h; simpa using h
  | cons c cs ih =>
    intro acc h
    simp only [List.foldl_cons]
    apply ih (fun x hx => hc x (by simp [hx]))
    apply Nat.or_lt_two_pow h
    rw [Nat.one_shiftLeft]
    exact Nat.pow_lt_pow_right (by omega) (hc c (by simp))

/-- an accepted hand holds only cards of the 52-card deck -/
theorem C16_hand_valid (U : Unicode) (s : List Char) (h : Nat) (e : parseHand U s = .ok h) : h < 2^52 := by
  unfold parseHand at e
  cases h1 : tokensCards U (splitWs U s) with
  | panic => rw [h1] at e; simp at e
  | err => rw [h1] at e; simp at e
  | ok cs =>
    rw [h1] at e; simp only [Outcome.ok.injEq] at e; subst e
    exact foldl_or_lt cs (tokensCards_lt U _ cs h1) 0 (by omega)
theorem C16_card_valid (U : Unicode) (s : List Char) (c : Nat) (h : parseCard U s = .ok c) : c < 52 := parseCard_lt U s c h
theorem C16_hole_valid (U : Unicode) (s : List Char) (h : Nat) (e : parseHole U s = .ok h) : h < 2^52 ∧ handSize h = 2 := by
  unfold parseHole at e
  cases h1 : parseHand U s with
  | panic => rw [h1] at e; simp at e
  | err => rw [h1] at e; simp at e
  | ok x =>
    rw [h1] at e; simp only at e
    split at e
    · rename_i hs
      simp only [Outcome.ok.injEq] at e; subst e
      exact ⟨C16_hand_valid U s _ h1, hs⟩
    · simp at e

/-- **A returned observation is well-formed**: two pocket cards, 0 / 3 / 4 / 5 board cards, no card in
both, every card one of the 52 — for every string and every Unicode table. -/
theorem C16_obs_wellformed (U : Unicode) (s : List Char) (o : Obs) (h : parseObs U s = .ok o) :
    handSize o.pocket = 2 ∧ (handSize o.board = 0 ∨ handSize o.board = 3 ∨ handSize o.board = 4 ∨ handSize o.board = 5) ∧
    o.pocket &&& o.board = 0 ∧ o.pocket < 2^52 ∧ o.board < 2^52 := by
  obtain ⟨op, ob⟩ := o
  show handSize op = 2 ∧ (handSize ob = 0 ∨ handSize ob = 3 ∨ handSize ob = 4 ∨ handSize ob = 5) ∧
    op &&& ob = 0 ∧ op < 2^52 ∧ ob < 2^52
  unfold parseObs at h
  simp only at h
  cases e1 : parseHand U ((splitOnce C16.obsSeparator (trim U s)).getD (trim U s, [])).1 with
  | panic => rw [e1] at h; simp at h
  | err => rw [e1] at h; simp at h
  | ok p =>
    rw [e1] at h; simp only at h
    cases e2 : parseHand U ((splitOnce C16.obsSeparator (trim U s)).getD (trim U s, [])).2 with
    | panic => rw [e2] at h; simp at h
    | err => rw [e2] at h; simp at h
    | ok b =>
      rw [e2] at h; simp only at h
      split at h
      · simp at h
      · rename_i hov
        split at h
        · rename_i hsz
          have hz := obsSizes_ok p b hsz
          unfold obsMk at h
          split at h
          · rename_i o' heq
            simp only [Outcome.ok.injEq] at h
            subst h
            split at heq
            · simp only [Option.some.injEq, Obs.mk.injEq] at heq
              obtain ⟨rfl, rfl⟩ := heq
              have hp : p < 2^52 := C16_hand_valid U _ _ e1
              have hb : b < 2^52 := C16_hand_valid U _ _ e2
              have hd : p &&& b = 0 := by simpa using hov
              exact ⟨hz.1, hz.2, hd, hp, hb⟩
            · simp at heq
          · simp at h
        · simp at h

/-! ## print → parse (Unicode tables constrained on ASCII only) -/
theorem card_rt_ascii : ∀ c, c < 52 → parseCard asciiU (printCard c) = .ok c := by decide
theorem card_print_ascii : ∀ c, c < 52 → AllAscii (printCard c) := by unfold AllAscii; decide
/-- **all 52 cards** -/
theorem C16_card_roundtrip (U : Unicode) (hU : U.AsciiOK) (c : Nat) (hc : c < 52) : parseCard U (printCard c) = .ok c := by
  rw [parseCard_ascii hU (card_print_ascii c hc)]; exact card_rt_ascii c hc
/-- accepted spellings beyond the printed one: any letter case, the four suit symbols, surrounding white space -/
example : parseCard asciiU "as".toList = .ok 51 ∧ parseCard asciiU " AS\t".toList = .ok 51 ∧ parseCard rustU "A♠".toList = .ok 51 ∧
    parseCard rustU "é".toList = .err ∧ parseCard rustU "Asé".toList = .err := by decide

theorem street_rt_ascii : ∀ s, s < 4 → parseStreet asciiU (printStreet s) = .ok s := by decide
theorem street_print_ascii : ∀ s, s < 4 → AllAscii (printStreet s) := by unfold AllAscii; decide
/-- **all 4 streets** -/
theorem C16_street_roundtrip (U : Unicode) (hU : U.AsciiOK) (s : Nat) (hs : s < 4) : parseStreet U (printStreet s) = .ok s := by
  rw [parseStreet_ascii hU (street_print_ascii s hs)]; exact street_rt_ascii s hs
/-- only the first character counts, after case mapping: `ﬀ` (U+FB00) upper-cases to `FF` and is read as the flop -/
example : parseStreet rustU "ﬀ".toList = .ok 1 ∧ parseStreet rustU "Fxyz".toList = .ok 1 ∧ parseStreet rustU "".toList = .err := by decide

/-- **every player turn** (`XX`, `??`, `P<n>` for every `usize`) -/
theorem C16_turn_roundtrip (t : Turn) (ht : ∀ n, t = .choice n → n < 2^64) : parseTurn (printTurn t) = .ok t := by
  cases t with
  | terminal => decide
  | chance => decide
  | choice n =>
    have hn := ht n rfl
    have hp : printTurn (.choice n) = 'P' :: printNat 10 n := rfl
    rw [hp]
    unfold parseTurn
    have h1 : ('P' :: printNat 10 n) ≠ C16.turnTerminal := by simp [C16.turnTerminal]
    have h2 : ('P' :: printNat 10 n) ≠ C16.turnChance := by simp [C16.turnChance]
    have h3 : ('P' :: printNat 10 n).head? = some C16.turnPrefix := rfl
    have h4 : byteSliceFrom ('P' :: printNat 10 n) C16.turnSliceFrom = some (printNat 10 n) :=
      byteSlice_after_ascii _ _ (by decide)
    have h5 := parseInt_printNat 10 64 false (Or.inl rfl) n (by simp; omega)
    simp only [h1, h2, h3, h4, h5, if_false, if_true]
    simp
example : printTurn (.choice 12) = "P12".toList ∧ parseTurn "P+12".toList = .ok (.choice 12) ∧ parseTurn "P-1".toList = .err ∧
    parseTurn "Pé".toList = .err ∧ parseTurn "P18446744073709551616".toList = .err ∧ parseTurn " P1".toList = .err := by decide

theorem printHand_ascii (h : Nat) (hh : h < 2^52) : AllAscii (printHand h) := fun c hc => (printHand_chars h hh c hc).2.1

/-- **every hand** (any subset of the 52 cards, the empty hand included): printed as the concatenated
cards, lowest first -/
theorem C16_hand_roundtrip (U : Unicode) (hU : U.AsciiOK) (h : Nat) (hh : h < 2^52) : parseHand U (printHand h) = .ok h := by
  rw [parseHand_ascii hU (printHand_ascii h hh)]; exact parseHand_print_ascii h hh
/-- **every hole** (two cards) -/
theorem C16_hole_roundtrip (U : Unicode) (hU : U.AsciiOK) (h : Nat) (hh : h < 2^52) (h2 : handSize h = 2) :
    parseHole U (printHand h) = .ok h := by
  unfold parseHole; rw [C16_hand_roundtrip U hU h hh]; simp [h2, C16.holeSize]
example : printHand 0b100101 = "2c2h3d".toList ∧ parseHand asciiU "2c2h3d".toList = .ok 0b100101 ∧
    parseHand asciiU "3d 2h  2c".toList = .ok 0b100101 := by decide
/-- a token with a chunk that is not a card is dropped as a whole, the call still succeeds -/
example : parseHand asciiU "AsKx 2c".toList = .ok 1 ∧ parseHand asciiU "xyz".toList = .ok 0 ∧ parseHole asciiU "AsAs".toList = .err := by decide

/-- the values of `Observation` that the game produces: two pocket cards, 0 / 3 / 4 / 5 board cards, disjoint -/
structure ObsValid (o : Obs) : Prop where
  pocket_lt : o.pocket < 2^52
  board_lt : o.board < 2^52
  pocket_size : handSize o.pocket = 2
  board_size : handSize o.board = 0 ∨ handSize o.board = 3 ∨ handSize o.board = 4 ∨ handSize o.board = 5
  disjoint : o.pocket &&& o.board = 0

theorem printObs_ascii (o : Obs) (h : ObsValid o) : AllAscii (printObs o) := by
  intro c hc
  simp only [printObs, C16.obsSeparator, List.mem_append, List.mem_cons, List.mem_nil_iff, or_false] at hc
  rcases hc with hc | rfl | rfl | rfl | hc
  · exact printHand_ascii _ h.pocket_lt c hc
  · decide
  · decide
  · decide
  · exact printHand_ascii _ h.board_lt c hc

theorem parseObs_print_ascii (o : Obs) (h : ObsValid o) : parseObs asciiU (printObs o) = .ok o := by
  obtain ⟨op, ob⟩ := o
  have hpl : op < 2^52 := h.pocket_lt
  have hbl : ob < 2^52 := h.board_lt
  have hps : handSize op = 2 := h.pocket_size
  have hbs : handSize ob = 0 ∨ handSize ob = 3 ∨ handSize ob = 4 ∨ handSize ob = 5 := h.board_size
  have hdj : op &&& ob = 0 := h.disjoint
  -- the pocket string is non-empty and starts / ends with a non-blank
  have hPne : handCards op ≠ [] := by
    intro e; have := length_handCards op; rw [e, hps] at this; simp at this
  have hP : printHand op ≠ [] := fun e => hPne ((printHand_nil_iff op hpl).mp e)
  have hPc := printHand_chars op hpl
  have hBc := printHand_chars ob hbl
  -- the trimmed string is  P ++ " ~" ++ rest  with rest = [] or ' ' :: B
  have key : ∃ rest, trim asciiU (printObs ⟨op, ob⟩) = (printHand op ++ [' ']) ++ '~' :: rest ∧
      parseHand asciiU rest = .ok ob := by
    cases hp : printHand op with
    | nil => exact absurd hp hP
    | cons a as =>
      have ha : asciiWs a = false := (hPc a (by rw [hp]; simp)).1
      by_cases hB : printHand ob = []
      · refine ⟨[], ?_, ?_⟩
        · have e : printObs ⟨op, ob⟩ = ((a :: as) ++ [' ', '~']) ++ [' '] := by
            simp [printObs, C16.obsSeparator, hp, hB]
          rw [e]
          have := trim_core ((a :: as) ++ [' ', '~']) [' '] a (as ++ [' ', '~']) (by simp) ha '~' (' ' :: (a :: as).reverse)
            (by simp) (by decide) (by intro c hc; simp at hc; subst hc; decide)
          rw [this]; simp
        · have := parseHand_pad ob hbl [] [] (by intro c hc; simp at hc) (by intro c hc; simp at hc)
          simpa [hB] using this
      · refine ⟨' ' :: printHand ob, ?_, ?_⟩
        · have e : printObs ⟨op, ob⟩ = ((a :: as) ++ ' ' :: '~' :: ' ' :: printHand ob) ++ [] := by
            simp [printObs, C16.obsSeparator, hp]
          rw [e]
          cases hr : (printHand ob).reverse with
          | nil => simp at hr; exact absurd hr hB
          | cons z zs =>
            have hzm : z ∈ printHand ob := by
              have : z ∈ (printHand ob).reverse := by rw [hr]; simp
              simpa using this
            have hz : asciiWs z = false := (hBc z hzm).1
            have := trim_core ((a :: as) ++ ' ' :: '~' :: ' ' :: printHand ob) [] a (as ++ ' ' :: '~' :: ' ' :: printHand ob)
              (by simp) ha z (zs ++ ' ' :: '~' :: ' ' :: (a :: as).reverse) (by simp [hr]) hz (by intro c hc; simp at hc)
            rw [this]; simp
        · have := parseHand_pad ob hbl [' '] [] (by intro c hc; simp at hc; subst hc; decide) (by intro c hc; simp at hc)
          simpa using this
  obtain ⟨rest, ht, hrest⟩ := key
  unfold parseObs
  rw [ht]
  have hsep : C16.obsSeparator = ['~'] := rfl
  simp only []
  rw [hsep, splitOnce_tilde (printHand op ++ [' ']) rest (by
    intro c hc; simp only [List.mem_append, List.mem_singleton] at hc
    rcases hc with hc | rfl
    · exact (hPc c hc).2.2
    · decide)]
  simp only [Option.getD_some]
  have hpk := parseHand_pad op hpl [] [' '] (by intro c hc; simp at hc) (by intro c hc; simp at hc; subst hc; decide)
  rw [List.nil_append] at hpk
  rw [hpk, hrest]
  simp only [hdj, ne_eq, not_true_eq_false, if_false]
  have hsz : (handSize op, handSize ob) ∈ C16.obsSizes := by
    rw [hps]; rcases hbs with e | e | e | e <;> rw [e] <;> decide
  have hm : obsMk op ob = some ⟨op, ob⟩ := by
    unfold obsMk
    have : handSize op = C15.obsPocketSize ∧ handSize ob ≤ C15.obsPublicMax := by
      simp only [C15.obsPocketSize, C15.obsPublicMax]; omega
    rw [if_pos this]
  simp only [hsz, if_true, hm]

/-- **every observation** — two pocket cards, a flop / turn / river board or none, disjoint: the printed
form `"<pocket> ~ <board>"` parses back (for pre-flop the trailing blank is trimmed). -/
theorem C16_obs_roundtrip (U : Unicode) (hU : U.AsciiOK) (o : Obs) (h : ObsValid o) : parseObs U (printObs o) = .ok o := by
  rw [parseObs_ascii hU (printObs_ascii o h)]; exact parseObs_print_ascii o h
example : printObs ⟨0b11, 0b11100⟩ = "2c2d ~ 2h2s3c".toList ∧ parseObs asciiU "2c2d ~ 2h2s3c".toList = .ok ⟨0b11, 0b11100⟩ ∧
    printObs ⟨0b11, 0⟩ = "2c2d ~ ".toList ∧ parseObs asciiU "2c2d ~ ".toList = .ok ⟨0b11, 0⟩ := by decide
/-- overlapping pocket and board, wrong counts: rejected (the third `fix:`) -/
example : parseObs asciiU "AsKs ~ AsKd2c".toList = .err ∧ parseObs asciiU "AsKs ~ 2c3c".toList = .err ∧
    parseObs asciiU "As ~ 2c3c4c".toList = .err ∧ parseObs asciiU "".toList = .err := by decide

/-- the values of `Action`: every `i16` amount, every set of dealt cards -/
def ActionValid : Action → Prop
  | .draw h => h < 2^52
  | .call x => -32768 ≤ x ∧ x ≤ 32767
  | .raise x => -32768 ≤ x ∧ x ≤ 32767
  | .shove x => -32768 ≤ x ∧ x ≤ 32767
  | .blind x => -32768 ≤ x ∧ x ≤ 32767
  | .fold => True
  | .check => True

theorem kw_ne : ∀ i, i < 7 → ∀ j, j < 7 → i ≠ j → keyword i ≠ keyword j := by decide

theorem parseAction_print_ascii (a : Action) (h : ActionValid a) : parseAction asciiU (printAction a) = .ok a := by
  cases a with
  | fold => decide
  | check => decide
  | call x =>
    obtain ⟨hine, hic⟩ := printInt_chars x
    have hsp := splitWs_two ['C', 'A', 'L', 'L'] ' ' [' '] (printInt x) (by unfold NoWs; decide) (by decide) (by decide) (by unfold AllWs; decide) (fun c hc => (hic c hc).1)
    have he : (printInt x).isEmpty = false := by
      cases hq : printInt x with
      | nil => exact absurd hq hine
      | cons a b => rfl
    rw [he] at hsp
    have hp : printAction (.call x) = ['C', 'A', 'L', 'L'] ++ ' ' :: ([' '] ++ printInt x) := rfl
    rw [hp]; unfold parseAction; rw [hsp]
    have hk : asciiU.upper ['C', 'A', 'L', 'L'] = keyword 2 := by decide
    have n0 : keyword 2 ≠ keyword 0 := kw_ne 2 (by omega) 0 (by omega) (by omega)
    have n1 : keyword 2 ≠ keyword 1 := kw_ne 2 (by omega) 1 (by omega) (by omega)
    simp [hk, n0, n1, parseInt_printInt x h]
  | raise x =>
    obtain ⟨hine, hic⟩ := printInt_chars x
    have hsp := splitWs_two ['R', 'A', 'I', 'S', 'E'] ' ' [] (printInt x) (by unfold NoWs; decide) (by decide) (by decide) (by unfold AllWs; decide) (fun c hc => (hic c hc).1)
    have he : (printInt x).isEmpty = false := by
      cases hq : printInt x with
      | nil => exact absurd hq hine
      | cons a b => rfl
    rw [he] at hsp
    have hp : printAction (.raise x) = ['R', 'A', 'I', 'S', 'E'] ++ ' ' :: ([] ++ printInt x) := rfl
    rw [hp]; unfold parseAction; rw [hsp]
    have hk : asciiU.upper ['R', 'A', 'I', 'S', 'E'] = keyword 3 := by decide
    have n0 : keyword 3 ≠ keyword 0 := kw_ne 3 (by omega) 0 (by omega) (by omega)
    have n1 : keyword 3 ≠ keyword 1 := kw_ne 3 (by omega) 1 (by omega) (by omega)
    have n2 : keyword 3 ≠ keyword 2 := kw_ne 3 (by omega) 2 (by omega) (by omega)
    simp [hk, n0, n1, n2, parseInt_printInt x h]
  | shove x =>
    obtain ⟨hine, hic⟩ := printInt_chars x
    have hsp := splitWs_two ['S', 'H', 'O', 'V', 'E'] ' ' [] (printInt x) (by unfold NoWs; decide) (by decide) (by decide) (by unfold AllWs; decide) (fun c hc => (hic c hc).1)
    have he : (printInt x).isEmpty = false := by
      cases hq : printInt x with
      | nil => exact absurd hq hine
      | cons a b => rfl
    rw [he] at hsp
    have hp : printAction (.shove x) = ['S', 'H', 'O', 'V', 'E'] ++ ' ' :: ([] ++ printInt x) := rfl
    rw [hp]; unfold parseAction; rw [hsp]
    have hk : asciiU.upper ['S', 'H', 'O', 'V', 'E'] = keyword 4 := by decide
    have n0 : keyword 4 ≠ keyword 0 := kw_ne 4 (by omega) 0 (by omega) (by omega)
    have n1 : keyword 4 ≠ keyword 1 := kw_ne 4 (by omega) 1 (by omega) (by omega)
    have n2 : keyword 4 ≠ keyword 2 := kw_ne 4 (by omega) 2 (by omega) (by omega)
    have n3 : keyword 4 ≠ keyword 3 := kw_ne 4 (by omega) 3 (by omega) (by omega)
    simp [hk, n0, n1, n2, n3, parseInt_printInt x h]
  | blind x =>
    obtain ⟨hine, hic⟩ := printInt_chars x
    have hsp := splitWs_two ['B', 'L', 'I', 'N', 'D'] ' ' [] (printInt x) (by unfold NoWs; decide) (by decide) (by decide) (by unfold AllWs; decide) (fun c hc => (hic c hc).1)
    have he : (printInt x).isEmpty = false := by
      cases hq : printInt x with
      | nil => exact absurd hq hine
      | cons a b => rfl
    rw [he] at hsp
    have hp : printAction (.blind x) = ['B', 'L', 'I', 'N', 'D'] ++ ' ' :: ([] ++ printInt x) := rfl
    rw [hp]; unfold parseAction; rw [hsp]
    have hk : asciiU.upper ['B', 'L', 'I', 'N', 'D'] = keyword 5 := by decide
    have n0 : keyword 5 ≠ keyword 0 := kw_ne 5 (by omega) 0 (by omega) (by omega)
    have n1 : keyword 5 ≠ keyword 1 := kw_ne 5 (by omega) 1 (by omega) (by omega)
    have n2 : keyword 5 ≠ keyword 2 := kw_ne 5 (by omega) 2 (by omega) (by omega)
    have n3 : keyword 5 ≠ keyword 3 := kw_ne 5 (by omega) 3 (by omega) (by omega)
    have n4 : keyword 5 ≠ keyword 4 := kw_ne 5 (by omega) 4 (by omega) (by omega)
    simp [hk, n0, n1, n2, n3, n4, parseInt_printInt x h]
  | draw hd =>
    have hh : hd < 2^52 := h
    have hsp := splitWs_two ['D', 'E', 'A', 'L'] ' ' [' '] (printHand hd) (by unfold NoWs; decide) (by decide) (by decide) (by unfold AllWs; decide)
      (fun c hc => (printHand_chars hd hh c hc).1)
    have hp : printAction (.draw hd) = ['D', 'E', 'A', 'L'] ++ ' ' :: ([' '] ++ printHand hd) := rfl
    rw [hp]
    unfold parseAction
    rw [hsp]
    have hkw : asciiU.upper ['D', 'E', 'A', 'L'] = keyword 6 := by decide
    have h1 : keyword 6 ≠ keyword 1 := by decide
    have h0 : keyword 6 ≠ keyword 0 := by decide
    have h2 : keyword 6 ≠ keyword 2 := by decide
    have h3 : keyword 6 ≠ keyword 3 := by decide
    have h4 : keyword 6 ≠ keyword 4 := by decide
    have h5 : keyword 6 ≠ keyword 5 := by decide
    simp only [hkw, h0, h1, h2, h3, h4, h5, if_false, if_true]
    have hv : ∀ r : List (List Char), vecSliceFrom (['D', 'E', 'A', 'L'] :: r) 1 = some r := by intro r; simp [vecSliceFrom]
    rw [hv]
    simp only
    have hj : joinSp (if (printHand hd).isEmpty then [] else [printHand hd]) = printHand hd := by
      cases hq : printHand hd with
      | nil => rfl
      | cons a b => rfl
    rw [hj, parseHand_print_ascii hd hh]

theorem printAction_ascii (a : Action) (h : ActionValid a) : AllAscii (printAction a) := by
  have pre : ∀ k, k < 7 → AllAscii (prefixOf k) := by unfold AllAscii; decide
  cases a with
  | fold => exact pre 0 (by omega)
  | check => exact pre 1 (by omega)
  | call x => intro c hc; rcases List.mem_append.mp hc with hc | hc; exact pre 2 (by omega) c hc; exact ((printInt_chars x).2 c hc).2
  | raise x => intro c hc; rcases List.mem_append.mp hc with hc | hc; exact pre 3 (by omega) c hc; exact ((printInt_chars x).2 c hc).2
  | shove x => intro c hc; rcases List.mem_append.mp hc with hc | hc; exact pre 4 (by omega) c hc; exact ((printInt_chars x).2 c hc).2
  | blind x => intro c hc; rcases List.mem_append.mp hc with hc | hc; exact pre 5 (by omega) c hc; exact ((printInt_chars x).2 c hc).2
  | draw hd => intro c hc; rcases List.mem_append.mp hc with hc | hc; exact pre 6 (by omega) c hc; exact printHand_ascii hd h c hc

/-- **every action**: fold, check, call / raise / shove / blind with every `i16` amount (negative ones
included), a deal of any set of cards (the empty one included) -/
theorem C16_action_roundtrip (U : Unicode) (hU : U.AsciiOK) (a : Action) (h : ActionValid a) :
    parseAction U (printAction a) = .ok a := by
  rw [parseAction_ascii hU (printAction_ascii a h)]; exact parseAction_print_ascii a h
example : printAction (.call (-5)) = "CALL  -5".toList ∧ parseAction asciiU "CALL  -5".toList = .ok (.call (-5)) ∧
    printAction (.draw 0b10011) = "DEAL  2c2d3c".toList ∧ parseAction asciiU "deal 3c 2d2c".toList = .ok (.draw 0b10011) := by decide
/-- the second `fix:` — an empty or blank string is an error, not an abort; and what else is accepted / rejected -/
example : parseAction asciiU [] = .err ∧ parseAction asciiU "   ".toList = .err ∧ parseAction asciiU ['C', 'A', 'L', 'L'] = .err ∧
    parseAction asciiU "CALL 32768".toList = .err ∧ parseAction asciiU "CALL +7 junk".toList = .ok (.call 7) ∧
    parseAction rustU "ſhove 5".toList = .ok (.shove 5) := by decide

/-- the street letter of the printed bucket -/
def streetLetter (s : Nat) : Char := ((printStreet s).map asciiUpper).headD '?'
theorem streetLetter_facts : ∀ s, s < 4 → (printStreet s).head?.map (fun c => [asciiUpper c]) = some [streetLetter s] ∧
    (∀ c, (printStreet s).head? = some c → isAscii c = true) ∧
    streetLetter s ≠ ':' ∧ asciiWs (streetLetter s) = false ∧ isAscii (streetLetter s) = true ∧
    parseStreet asciiU [streetLetter s] = .ok s := by decide

/-- the printed form of the bucket `(street, index)`: street letter, `::`, index in hex (≥ 2 digits) -/
def absText (s i : Nat) : List Char := streetLetter s :: ':' :: ':' :: hexPad C16.absHexWidth i

theorem printAbs_eq (U : Unicode) (hU : U.AsciiOK) (s i : Nat) (hs : s < 4) (hi : i < 4096) :
    printAbs U (absOf s i) = some (absText s i) := by
  obtain ⟨h1, h2⟩ := RP.C15.abs_street_index s i hs
  obtain ⟨f1, f2, _⟩ := streetLetter_facts s hs
  unfold printAbs
  rw [h1, h2]
  simp only
  cases hh : (printStreet s).head? with
  | none => rw [hh] at f1; simp at f1
  | some c =>
    rw [hh] at f1
    simp only [Option.map_some, Option.some.injEq] at f1
    simp only
    rw [hU.upper [c] (by intro x hx; simp at hx; rw [hx]; exact f2 c hh)]
    simp only [List.map_cons, List.map_nil, f1]
    rw [Nat.mod_eq_of_lt hi]
    rfl

theorem parseAbs_text_ascii (s i : Nat) (hs : s < 4) (hi : i < 4096) : parseAbs asciiU (absText s i) = .ok (absOf s i) := by
  obtain ⟨_, _, f3, f4, f5, f6⟩ := streetLetter_facts s hs
  obtain ⟨p1, p2, p3⟩ := parseInt_hexPad C16.absHexWidth i (by omega)
  -- trimming changes nothing
  have htrim : trim asciiU (absText s i) = absText s i := by
    cases hr : (hexPad C16.absHexWidth i).reverse with
    | nil => simp at hr; exact absurd hr p2
    | cons z zs =>
      have hzm : z ∈ hexPad C16.absHexWidth i := by
        have : z ∈ (hexPad C16.absHexWidth i).reverse := by rw [hr]; simp
        simpa using this
      have := trim_core (absText s i) [] (streetLetter s) (':' :: ':' :: hexPad C16.absHexWidth i) rfl f4 z
        (zs ++ [':', ':', streetLetter s]) (by simp [absText, hr]) (p3 z hzm).2.1 (by intro c hc; simp at hc)
      simpa using this
  have hsplit : splitOn C16.absDelim (absText s i) = [[streetLetter s], hexPad C16.absHexWidth i] := by
    have hd : C16.absDelim = [':', ':'] := rfl
    have hne : ¬ ':' = streetLetter s := fun e => f3 e.symm
    unfold splitOn absText
    rw [hd]
    simp only [splitOnAux, List.isPrefixOf]
    simp [hne, splitOnAux, splitOnAux_nocolon _ [] (fun c hc => (p3 c hc).1)]
  unfold parseAbs
  rw [htrim, hsplit]
  have hr : C16.absRadix = 16 := rfl
  simp only [List.getElem?_cons_zero, List.getElem?_cons_succ, f6, hr, p1]
  simp

theorem absText_ascii (s i : Nat) (hs : s < 4) (hi : i < 4096) : AllAscii (absText s i) := by
  obtain ⟨_, _, _, _, f5, _⟩ := streetLetter_facts s hs
  obtain ⟨_, _, p3⟩ := parseInt_hexPad C16.absHexWidth i (by omega)
  intro c hc
  simp only [absText, List.mem_cons] at hc
  rcases hc with rfl | rfl | rfl | hc
  · exact f5
  · decide
  · decide
  · exact (p3 c hc).2.2

/-- **every bucket** built by `Abstraction::from((street, index))` (all four streets, every 12-bit
index — in particular the 542 buckets in use): it prints as `<S>::<hex>` and that parses back. -/
theorem C16_abs_roundtrip (U : Unicode) (hU : U.AsciiOK) (s i : Nat) (hs : s < 4) (hi : i < 4096) :
    ∃ str, printAbs U (absOf s i) = some str ∧ parseAbs U str = .ok (absOf s i) :=
  ⟨absText s i, printAbs_eq U hU s i hs hi, by
    rw [parseAbs_ascii hU (absText_ascii s i hs hi)]; exact parseAbs_text_ascii s i hs hi⟩
example : absText 1 26 = "F::1a".toList ∧ parseAbs asciiU "F::1a".toList = .ok (absOf 1 26) ∧ parseAbs asciiU " f::1A ".toList = .ok (absOf 1 26) := by decide
/-- what else is accepted: the index is cut to 12 bits, only the first letter of the street counts;
an abstraction word with another hash field prints the same text and so does not come back -/
example : parseAbs asciiU "F::1000".toList = .ok (absOf 1 0) ∧ parseAbs asciiU "flop::+1a::junk".toList = .ok (absOf 1 26) ∧
    parseAbs asciiU "F:1a".toList = .err ∧ parseAbs asciiU "F::-1".toList = .err ∧
    printAbs asciiU ⟨1, (1 <<< 56) ||| 26⟩ = some "F::1a".toList := by decide

/-! ## the assumption on the Unicode tables is satisfiable — by the ASCII tables and by the driver's Rust tables -/
theorem asciiU_ok : asciiU.AsciiOK := ⟨fun _ _ => rfl, fun _ _ => rfl, fun _ _ => rfl⟩

theorem rustWs_ascii : ∀ n, n < 128 → rustWs.contains n = decide (n = 32 ∨ (9 ≤ n ∧ n ≤ 13)) := by decide
theorem flatMap_mapChar (special : List (Nat × List Nat)) (f : Char → Char) :
    ∀ s : List Char, (∀ c ∈ s, isAscii c = true) → s.flatMap (mapChar special f) = s.map f
  | [], _ => rfl
  | c :: cs, h => by
    have hc : c.toNat < 128 := by simpa [isAscii] using h c (by simp)
    simp only [List.flatMap_cons, List.map_cons, mapChar, hc, if_true]
    rw [flatMap_mapChar special f cs (fun x hx => h x (by simp [hx]))]
    rfl
/-- the instantiation used by the driver (Rust's 25 white-space code points and the case mappings that
reach ASCII) satisfies the assumption of the round-trip theorems -/
theorem rustU_ok : rustU.AsciiOK := by
  refine ⟨?_, ?_, ?_⟩
  · intro c hc
    have hlt : c.toNat < 128 := by simpa [isAscii] using hc
    show rustWs.contains c.toNat = asciiWs c
    rw [rustWs_ascii _ hlt]; rfl
  · intro s hs; exact flatMap_mapChar _ _ s hs
  · intro s hs; exact flatMap_mapChar _ _ s hs

end RP.C16
