import RP.Model.Sampler
import Mathlib.Tactic.Linarith
import Mathlib.Algebra.Order.Field.Rat
import Mathlib.Algebra.BigOperators.Group.List.Basic
import Mathlib.Algebra.Order.BigOperators.Group.List
/-! # C20 — seeded sampling is a function of (epoch, information set) and unbiased

What a theorem can carry (see DESIGN.md §6 C20):

* the model's sampled branch is a *function* of `(epoch, bucket, weights)` only — the model has no
  other input (no thread, time, tree or address), stated as congruence lemmas; the model is
  bit-exact (SipHash-1-3, SplitMix64, Xoshiro256++, rand's `gen_range` and `WeightedIndex<f32>`),
  so the correspondence run *predicts* the real choice and any hidden input in the real code
  shows up as a disagreement;
* the inverse-CDF selection used by `WeightedIndex` picks index `i` exactly on an interval of
  length `wᵢ`: with a uniform variate the draw is unbiased (`C20_pick_interval`), and the index is
  always in range (`C20_pick_lt`).

What it cannot exhibit: thread identity, scheduling, randomly keyed hashing. That part is explored
by the harness (same answers from many threads / trees / repetitions). PRNG quality is trusted. -/
namespace RP.C20
open RP.Sampler

/-- the selection over exact rationals: same `cums` / `partitionPoint` the driver runs on `Float32` -/
def pick (ws : List ℚ) (x : ℚ) : Nat :=
  match ws with
  | [] => 0
  | w :: ws => partitionPoint (cums w ws) x

theorem take_sum_nonneg (ws : List ℚ) (hnn : ∀ w ∈ ws, 0 ≤ w) (k : Nat) : 0 ≤ (ws.take k).sum :=
  List.sum_nonneg (fun v hv => hnn v (List.mem_of_mem_take hv))

theorem pp_cums_iff : ∀ (ws : List ℚ) (t x : ℚ) (i : Nat), (∀ w ∈ ws, 0 ≤ w) → i ≤ ws.length →
    (partitionPoint (cums t ws) x = i ↔
      (i = 0 ∨ t + (ws.take (i - 1)).sum ≤ x) ∧ (i = ws.length ∨ x < t + (ws.take i).sum)) := by
  intro ws
  induction ws with
  | nil =>
    intro t x i _ hi
    have : i = 0 := by simpa using hi
    subst this
    simp [cums, partitionPoint]
  | cons w ws ih =>
    intro t x i hnn hi
    have hw : 0 ≤ w := hnn w (by simp)
    have hnn' : ∀ w ∈ ws, 0 ≤ w := fun v hv => hnn v (by simp [hv])
    simp only [cums, partitionPoint]
    cases i with
    | zero =>
      by_cases h : t ≤ x
      · simp [h]
      · simp [h]; linarith
    | succ j =>
      have hj : j ≤ ws.length := by simpa using hi
      have IH := ih (t + w) x j hnn' hj
      have hs := take_sum_nonneg ws hnn'
      by_cases h : t ≤ x
      · simp only [h, if_true, Nat.add_right_cancel_iff]
        rw [IH]
        cases j with
        | zero =>
          simp
          constructor
          · rintro (a | a)
            · exact ⟨h, Or.inl (List.eq_nil_of_length_eq_zero a.symm)⟩
            · exact ⟨h, Or.inr a⟩
          · rintro ⟨_, (a | a)⟩
            · left; simp [a]
            · right; exact a
        | succ k =>
          simp [add_assoc]
      · simp only [h, if_false]
        simp
        intro a
        have := take_sum_nonneg (w :: ws) hnn j
        linarith

/-- **Interval lemma** (unbiasedness): for non-negative weights and `0 ≤ x < total`, index `i` is
    picked exactly when `x` lies in `[w₀+…+wᵢ₋₁, w₀+…+wᵢ)`, an interval of length `wᵢ`. -/
theorem C20_pick_interval (ws : List ℚ) (hnn : ∀ w ∈ ws, 0 ≤ w) (x : ℚ) (hx0 : 0 ≤ x)
    (hx : x < ws.sum) (i : Nat) (hi : i < ws.length) :
    pick ws x = i ↔ (ws.take i).sum ≤ x ∧ x < (ws.take (i + 1)).sum := by
  cases ws with
  | nil => simp at hi
  | cons w ws =>
    have hnn' : ∀ v ∈ ws, 0 ≤ v := fun v hv => hnn v (by simp [hv])
    have hi' : i ≤ ws.length := by simpa [Nat.lt_succ_iff] using hi
    simp only [pick]
    rw [pp_cums_iff ws w x i hnn' hi']
    simp only [List.take_succ_cons, List.sum_cons] at hx ⊢
    cases i with
    | zero =>
      simp only [List.take_zero, List.sum_nil, add_zero, true_or, true_and]
      constructor
      · rintro (h | h)
        · have : ws = [] := List.eq_nil_of_length_eq_zero h.symm
          subst this; exact ⟨hx0, by simpa using hx⟩
        · exact ⟨hx0, h⟩
      · rintro ⟨_, h⟩; right; exact h
    | succ j =>
      simp only [Nat.add_sub_cancel, List.take_succ_cons, List.sum_cons, Nat.succ_ne_zero, false_or]
      constructor
      · rintro ⟨a, (b | b)⟩
        · have : List.take (j + 1) ws = ws := List.take_of_length_le (by omega)
          rw [this]; exact ⟨a, hx⟩
        · exact ⟨a, b⟩
      · rintro ⟨a, b⟩; exact ⟨a, Or.inr b⟩

theorem pp_le_length {α : Type} [LE α] [DecidableRel (α := α) (· ≤ ·)] (cs : List α) (x : α) :
    partitionPoint cs x ≤ cs.length := by
  induction cs with
  | nil => simp [partitionPoint]
  | cons c cs ih =>
    simp only [partitionPoint, List.length_cons]
    split
    · omega
    · omega

theorem cums_length {α : Type} [Add α] (t : α) (ws : List α) : (cums t ws).length = ws.length := by
  induction ws generalizing t with
  | nil => rfl
  | cons w ws ih => simp [cums, ih]

/-- the picked index is always a valid branch index, for any chosen value (no out-of-range branch) -/
theorem C20_pick_lt (ws : List ℚ) (hne : ws ≠ []) (x : ℚ) : pick ws x < ws.length := by
  cases ws with
  | nil => exact absurd rfl hne
  | cons w ws =>
    simp only [pick, List.length_cons]
    have := pp_le_length (cums w ws) x
    rw [cums_length] at this
    omega

/-- the same on the `Float32` instance the driver runs (whatever the floats are) -/
theorem C20_partitionPoint_f32_lt (w : Float32) (ws : List Float32) (x : Float32) :
    partitionPoint (cums w ws) x < (w :: ws).length := by
  have := pp_le_length (cums w ws) x
  rw [cums_length] at this
  simp only [List.length_cons]; omega

/-- **Reproducibility of the model**: the sampled opponent branch is a function of the epoch, the
    bucket and the weights at that bucket — equal keys give equal choices. (The model has no other
    input; that the *code* has none is what the correspondence run checks.) -/
theorem C20_exploreOne_congr (e₁ e₂ p₁ p₂ d₁ d₂ a₁ a₂ f₁ f₂ : Nat) (w₁ w₂ : List Float32)
    (he : e₁ = e₂) (hp : p₁ = p₂) (hd : d₁ = d₂) (ha : a₁ = a₂) (hf : f₁ = f₂) (hw : w₁ = w₂) :
    exploreOne e₁ p₁ d₁ a₁ f₁ w₁ = exploreOne e₂ p₂ d₂ a₂ f₂ w₂ := by
  subst he hp hd ha hf hw; rfl

theorem C20_exploreAny_congr (e₁ e₂ p₁ p₂ d₁ d₂ a₁ a₂ f₁ f₂ n₁ n₂ : Nat)
    (he : e₁ = e₂) (hp : p₁ = p₂) (hd : d₁ = d₂) (ha : a₁ = a₂) (hf : f₁ = f₂) (hn : n₁ = n₂) :
    exploreAny e₁ p₁ d₁ a₁ f₁ n₁ = exploreAny e₂ p₂ d₂ a₂ f₂ n₂ := by
  subst he hp hd ha hf hn; rfl

/-- centroid seeding is a function of (street, k, points) -/
theorem C20_kmeansInit_congr (s₁ s₂ k₁ k₂ : Nat) (p₁ p₂ : List (Nat × List Nat))
    (hs : s₁ = s₂) (hk : k₁ = k₂) (hp : p₁ = p₂) : kmeansInit s₁ k₁ p₁ = kmeansInit s₂ k₂ p₂ := by
  subst hs hk hp; rfl

/-- `Layer::init` on the preflop street performs no clustering and draws nothing: with `n = k` points
the centroids are the points themselves, in order; any other `n` aborts (`assert!(n == k)`) -/
theorem C20_layerInit_pref (k : Nat) (pts : List (Nat × List Nat)) :
    layerInit 0 k pts = if pts.length = k then some (List.range k) else none := by
  simp [layerInit]
/-- on the learned streets `Layer::init` is the seeded k-means++ choice, a function of (street, k, points) -/
theorem C20_layerInit_learned (s k : Nat) (pts : List (Nat × List Nat)) (hs : s ≠ 0) :
    layerInit s k pts = kmeansInit s k pts := by
  simp [layerInit, hs]
example : layerInit 0 3 [(1, [1]), (2, [2]), (3, [3])] = some [0, 1, 2] ∧ layerInit 0 2 [(1, [1])] = none := by
  decide

/-- the widening-multiply step of `gen_range`: for any 64-bit draw `v` the candidate `⌊v·n / 2^64⌋`
    is a valid index below `n` (so whichever draw is accepted, the chance branch index is in range) -/
theorem genRangeIdx_lt (n zone : Nat) (hn : 0 < n) : ∀ (fuel : Nat) (x : Xo),
    genRangeIdx n zone x fuel < n := by
  intro fuel
  induction fuel with
  | zero => intro x; simpa [genRangeIdx] using hn
  | succ f ih =>
    intro x
    simp only [genRangeIdx]
    split
    · have hv : (xoNext x).1.toNat < 2 ^ 64 := (xoNext x).1.toNat_lt
      apply Nat.div_lt_of_lt_mul
      exact Nat.mul_lt_mul_of_pos_right hv hn
    · exact ih _

/-- `genRangeIdx` is the first component of the pair-returning loop used when the generator state
    is threaded on -/
theorem genRangeIdx_eq (n zone : Nat) : ∀ (fuel : Nat) (x : Xo),
    genRangeIdx n zone x fuel = (genRangeGo n zone x fuel).1 := by
  intro fuel
  induction fuel with
  | zero => intro x; rfl
  | succ f ih =>
    intro x
    simp only [genRangeIdx, genRangeGo]
    split
    · rfl
    · exact ih _

/-- **`explore_any` always picks an existing chance branch**, for every epoch, bucket and `n > 0`. -/
theorem C20_exploreAny_lt (e p d a f n : Nat) (hn : 0 < n) : exploreAny e p d a f n < n :=
  genRangeIdx_lt n _ hn _ _

/-- **`explore_one` always picks an existing opponent branch** whenever it does not panic. -/
theorem C20_exploreOne_lt (e p d a f : Nat) (ws : List Float32) (i : Nat)
    (h : exploreOne e p d a f ws = some i) : i < ws.length := by
  unfold exploreOne weightedIndex at h
  cases ws with
  | nil => simp at h
  | cons w ws =>
    simp only [List.isEmpty_cons, Bool.false_eq_true, if_false, prefixSums] at h
    by_cases c0 : ((w :: ws).any fun w => !decide (w ≥ 0.0)) = true
    · simp [c0] at h
    · by_cases c1 : (List.foldl (fun x1 x2 => x1 + x2) w ws == 0.0) = true
      · simp [c0, c1] at h
      · by_cases c2 : (!decide (0.0 < List.foldl (fun x1 x2 => x1 + x2) w ws)) = true
        · simp [c0, c1, c2] at h
          simp only [Bool.not_eq_true', decide_eq_false_iff_not] at c2
          exact absurd (of_decide_eq_true h.1) c2
        · simp [c0, c1, c2] at h
          rw [← h.2]
          exact C20_partitionPoint_f32_lt w ws _

-- non-vacuity: weights 1/2, 1/4, 1/4; x = 0.6 falls in the second interval [1/2, 3/4)
example : pick [1/2, 1/4, 1/4] (3/5) = 1 := by
  have hnn : ∀ w ∈ ([1/2, 1/4, 1/4] : List ℚ), 0 ≤ w := by
    intro w hw
    simp only [List.mem_cons, List.not_mem_nil, or_false] at hw
    rcases hw with rfl | rfl | rfl <;> norm_num
  rw [C20_pick_interval _ hnn _ (by norm_num) (by norm_num) 1 (by simp)]
  norm_num

end RP.C20
