import RP.Lemmas.PrefChunks
/-! kernel enumeration of the canonical pre-flop pockets, one chunk per theorem (generated layout:
boundaries `2^j`, earlier boundaries listed most recent first) -/
namespace RP.C06
theorem pref_std_0 : chunkLen false 15 [] = 9 := by decide +kernel
theorem pref_std_1 : chunkLen false 21 [15] = 16 := by decide +kernel
theorem pref_std_2 : chunkLen false 26 [21, 15] = 11 := by decide +kernel
theorem pref_std_3 : chunkLen false 30 [26, 21, 15] = 13 := by decide +kernel
theorem pref_std_4 : chunkLen false 33 [30, 26, 21, 15] = 15 := by decide +kernel

end RP.C06
