import RP.Lemmas.PrefChunks
/-! kernel enumeration of the canonical pre-flop pockets, one chunk per theorem (generated layout:
boundaries `2^j`, earlier boundaries listed most recent first) -/
namespace RP.C06
theorem pref_std_9 : chunkLen false 47 [45, 42, 39, 36, 33, 30, 26, 21, 15] = 0 := by decide +kernel
theorem pref_std_10 : chunkLen false 49 [47, 45, 42, 39, 36, 33, 30, 26, 21, 15] = 23 := by decide +kernel
theorem pref_std_11 : chunkLen false 51 [49, 47, 45, 42, 39, 36, 33, 30, 26, 21, 15] = 0 := by decide +kernel
theorem pref_std_12 : chunkLen false 52 [51, 49, 47, 45, 42, 39, 36, 33, 30, 26, 21, 15] = 25 := by decide +kernel
theorem pref_std_rest : restLen false [52, 51, 49, 47, 45, 42, 39, 36, 33, 30, 26, 21, 15] = 0 := by decide +kernel

end RP.C06
