import RP.Props.C06
import RP.Model.HandsIso
import RP.Props.C05
/-! # C06 — `IsomorphismIterator` yields exactly one representative of every suit-equivalence class

Unconditional form of `C06_one_per_class`: the canonicity predicate is C05's model
`RP.Iso.isCanonical` at the deck mask of the build (`RP.Hands.isCanon`, `RP.Hands.classes` in
`RP/Model/HandsIso.lean`, the definitions the driver runs), the equivalence is "some row `π` of the generated
`Permutation::exhaust` table relabels one observation into the other" (`RP.Iso.permute`), and the
facts about `canon` come from `RP/Props/C05.lean` (`C05_invariant`, `C05_idempotent`,
`canon_of_isCanonical`, `wellFormed_permute`). Both decks, all four streets. -/
namespace RP.C06
open RP.Bits RP.Hands RP.Spec

theorem deckMask_eq (short : Bool) : deckMask short = handMask short := by cases short <;> rfl

theorem deckMask_ok (short : Bool) : Iso.MaskOK (deckMask short) := by
  cases short
  · exact Iso.maskOK_std
  · exact Iso.maskOK_short

/-- a legal observation of the street: two pocket cards and the street's board cards, all of the
deck, pocket and board disjoint -/
structure Legal (short : Bool) (street : Nat) (o : Iso.Obs) : Prop where
  pocket_in : o.pocket &&& deckMask short = o.pocket
  board_in : o.board &&& deckMask short = o.board
  pocket2 : popW 64 o.pocket = 2
  boardn : popW 64 o.board = nObserved street
  disjoint : o.pocket &&& o.board = 0

/-- `o'` is a suit-relabeling of `o` by a row of the generated `Permutation::exhaust` table -/
def SameOrbit (short : Bool) (o o' : Iso.Obs) : Prop :=
  ∃ π, π ∈ RP.Gen.permExhaust ∧ o' = Iso.permute (deckMask short) π o

/-- the observations the iterator yields are exactly the legal ones -/
theorem mem_observations_iff (short : Bool) (street : Nat) (hs : street ≤ 3) (p b : Nat) :
    (p, b) ∈ Hands.observations short street ↔ Legal short street ⟨p, b⟩ := by
  rw [C06_observations_complete short street p b hs]
  constructor
  · rintro ⟨⟨p1, p2, p3⟩, ⟨b1, b2, b3⟩⟩
    have hp : IsHand short 2 0 p :=
      (isHand_iff short 2 0 p).mpr ⟨by rw [popW_eq_of_lt p1 (by omega : 52 ≤ 64)]; exact p2, p3, p1⟩
    have hb : IsHand short (nObserved street) p b :=
      (isHand_iff short _ p b).mpr
        ⟨by rw [popW_eq_of_lt b1 (by omega : 52 ≤ 64)]; exact b2,
         by rw [blocked_of_deck_hand short p hp.2.2]; exact b3, b1⟩
    exact ⟨by rw [deckMask_eq]; exact hp.2.2, by rw [deckMask_eq]; exact hb.2.2, hp.1, hb.1,
      by rw [Nat.and_comm]; exact hb.2.1⟩
  · intro h
    have hp : IsHand short 2 0 p := ⟨h.pocket2, Nat.and_zero p, by rw [← deckMask_eq]; exact h.pocket_in⟩
    have hb : IsHand short (nObserved street) p b :=
      ⟨h.boardn, by rw [Nat.and_comm]; exact h.disjoint, by rw [← deckMask_eq]; exact h.board_in⟩
    have hp' := (isHand_iff short 2 0 p).mp hp
    have hb' := (isHand_iff short _ p b).mp hb
    rw [blocked_of_deck_hand short p hp.2.2] at hb'
    exact ⟨⟨hp'.2.2, by rw [← popW_eq_of_lt hp'.2.2 (by omega : 52 ≤ 64)]; exact hp'.1, hp'.2.1⟩,
      ⟨hb'.2.2, by rw [← popW_eq_of_lt hb'.2.2 (by omega : 52 ≤ 64)]; exact hb'.1, hb'.2.1⟩⟩

theorem nObserved_le (street : Nat) (hs : street ≤ 3) : nObserved street ≤ 5 ∧
    (nObserved street = 0 ∨ nObserved street = 3 ∨ nObserved street = 4 ∨ nObserved street = 5) := by
  have : street = 0 ∨ street = 1 ∨ street = 2 ∨ street = 3 := by omega
  rcases this with rfl | rfl | rfl | rfl <;> decide

theorem size_eq (h : Nat) : Iso.size h = popW 64 h := rfl

theorem Legal.wellFormed {short : Bool} {street : Nat} (hs : street ≤ 3) {o : Iso.Obs}
    (h : Legal short street o) : C05.WellFormed (deckMask short) o :=
  { pocket_in := h.pocket_in, board_in := h.board_in,
    pocket2 := by rw [size_eq]; exact h.pocket2,
    board5 := by rw [size_eq, h.boardn]; exact (nObserved_le street hs).1,
    disjoint := h.disjoint,
    street := by rw [size_eq, h.boardn]; exact (nObserved_le street hs).2 }

/-- relabeling by a row of the table keeps an observation legal for its street -/
theorem Legal.permute {short : Bool} {street : Nat} (hs : street ≤ 3) {o : Iso.Obs}
    (h : Legal short street o) {π : List Nat} (hπ : π ∈ RP.Gen.permExhaust) :
    Legal short street (Iso.permute (deckMask short) π o) := by
  have hw := C05.wellFormed_permute (deckMask_ok short) hπ (h.wellFormed hs)
  have h2 := hw.pocket2
  have hb := Iso.size_image (deckMask_ok short) hπ o.board h.board_in
  rw [size_eq] at h2 hb
  rw [size_eq] at hb
  exact ⟨hw.pocket_in, hw.board_in, h2, by rw [C05.permute_board, hb]; exact h.boardn, hw.disjoint⟩

/-- **C06_classes_are_canonical**: the iterator lists exactly the canonical legal observations of
the street, in the order of the observation iterator. -/
theorem C06_classes_are_canonical (short : Bool) (street : Nat) (hs : street ≤ 3) :
    classes short street = (Hands.observations short street).filter (fun o => isCanon short o.1 o.2) ∧
    ∀ p b, (p, b) ∈ classes short street ↔
      (Legal short street ⟨p, b⟩ ∧ Iso.isCanonical (deckMask short) ⟨p, b⟩ = true) := by
  have hf := C06_isomorphisms_filter short (isCanon short) street hs
  refine ⟨hf, fun p b => ?_⟩
  unfold classes
  rw [hf, List.mem_filter, mem_observations_iff short street hs]
  rfl

/-- **C06_one_per_class** (unconditional): for every legal observation `o` of the street there is
exactly one yielded class representative that is a suit-relabeling of `o` — namely `canon o`. -/
theorem C06_one_per_class_iso (short : Bool) (street : Nat) (hs : street ≤ 3) (o : Iso.Obs)
    (ho : Legal short street o) :
    ∃ c : Iso.Obs, ((c.pocket, c.board) ∈ classes short street ∧ SameOrbit short o c) ∧
      ∀ c' : Iso.Obs, (c'.pocket, c'.board) ∈ classes short street → SameOrbit short o c' → c' = c := by
  have hm := deckMask_ok short
  have hmem := (C06_classes_are_canonical short street hs).2
  have hπ : Iso.permOf (deckMask short) o ∈ RP.Gen.permExhaust := Iso.permOf_mem _ o
  refine ⟨Iso.canon (deckMask short) o, ⟨?_, Iso.permOf (deckMask short) o, hπ, rfl⟩, ?_⟩
  · rw [hmem]
    exact ⟨ho.permute hs hπ, (C05.C05_idempotent hm o).2⟩
  · rintro c' hc' ⟨π, hπ', rfl⟩
    obtain ⟨hl, hcan⟩ := (hmem _ _).mp hc'
    have hl' : Legal short street (Iso.permute (deckMask short) π o) := hl
    have hcan' : Iso.isCanonical (deckMask short) (Iso.permute (deckMask short) π o) = true := hcan
    rw [← C05.canon_of_isCanonical hm (hl'.wellFormed hs).toValid hcan',
      C05.C05_invariant hm (ho.wellFormed hs).toValid hπ']

/-- two yielded representatives in the same suit-orbit are the same observation: no class is
listed twice (and the list itself has no duplicates, being a sublist of a strictly ordered list) -/
theorem C06_classes_distinct (short : Bool) (street : Nat) (hs : street ≤ 3) (c c' : Iso.Obs)
    (hc : (c.pocket, c.board) ∈ classes short street) (hc' : (c'.pocket, c'.board) ∈ classes short street)
    (h : SameOrbit short c c') : c' = c := by
  have hmem := (C06_classes_are_canonical short street hs).2
  obtain ⟨hl, hcan⟩ := (hmem _ _).mp hc
  obtain ⟨hl', hcan'⟩ := (hmem _ _).mp hc'
  obtain ⟨π, hπ, rfl⟩ := h
  have hl0 : Legal short street c := hl
  exact C05.C05_unique_representative (deckMask_ok short) (hl0.wellFormed hs).toValid hπ hcan hcan'

theorem unfold_take {σ α : Type} (step : σ → Option (α × σ)) :
    ∀ n d s, unfold step n s = (unfold step (n + d) s).take n := by
  intro n
  induction n with
  | zero => intro d s; simp [unfold]
  | succ n ih =>
    intro d s
    have e : n + 1 + d = (n + d) + 1 := by omega
    rw [e]
    simp only [unfold]
    cases step s with
    | none => simp
    | some p => obtain ⟨a, s'⟩ := p; simp only [List.take_succ_cons, List.cons.injEq, true_and]; exact ih d s'

/-- what the driver's `iso <deck> <street> <n>` op folds over: the first `n` yielded classes -/
theorem C06_classes_prefix (short : Bool) (street n : Nat) (hn : n ≤ OBS_FUEL) :
    classesPrefix short street n = (classes short street).take n := by
  obtain ⟨d, hd⟩ := Nat.exists_eq_add_of_le hn
  unfold classesPrefix classes isomorphisms
  rw [hd]; exact unfold_take _ n d _

-- non-vacuity: pocket pairs pre-flop are represented by the pair in hearts and spades (the sort puts
-- the suits holding fewer cards first): 2h2s is its own representative, 2c2h is represented by it
example : (0b1100, 0) ∈ classes false 0 := by
  rw [(C06_classes_are_canonical false 0 (by omega)).2]
  exact ⟨⟨by decide +kernel, by decide +kernel, by decide +kernel, by decide +kernel, by decide +kernel⟩,
    by decide +kernel⟩
example : Iso.canon (deckMask false) ⟨0b101, 0⟩ = ⟨0b1100, 0⟩ ∧ Iso.isCanonical (deckMask false) ⟨0b101, 0⟩ = false := by
  decide +kernel

end RP.C06
