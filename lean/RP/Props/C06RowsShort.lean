import RP.Lemmas.FixCount
/-! kernel evaluation of the rank-by-rank fixed-point tables for the 24 rows of the generated
`Permutation::exhaust` table (short deck): the `x²` row (board sizes 0..5) per relabeling -/
namespace RP.C06

theorem rowsShort_a : (RP.Gen.permExhaust.take 8).map (xrow RP.Gen.handMaskShort) =
  [[630, 21420, 353430, 3769920, 29216880, 175301280],
   [162, 2610, 21186, 116352, 488016, 1667952],
   [162, 2610, 21186, 116352, 488016, 1667952],
   [36, 252, 756, 1584, 3528, 7560],
   [36, 252, 756, 1584, 3528, 7560],
   [162, 2610, 21186, 116352, 488016, 1667952],
   [162, 2610, 21186, 116352, 488016, 1667952],
   [18, 0, 306, 0, 2448, 0]] := by decide +kernel

theorem rowsShort_b : ((RP.Gen.permExhaust.drop 8).take 8).map (xrow RP.Gen.handMaskShort) =
  [[36, 252, 756, 1584, 3528, 7560],
   [0, 0, 0, 0, 0, 0],
   [0, 0, 0, 0, 0, 0],
   [36, 252, 756, 1584, 3528, 7560],
   [36, 252, 756, 1584, 3528, 7560],
   [0, 0, 0, 0, 0, 0],
   [162, 2610, 21186, 116352, 488016, 1667952],
   [36, 252, 756, 1584, 3528, 7560]] := by decide +kernel

theorem rowsShort_c : (RP.Gen.permExhaust.drop 16).map (xrow RP.Gen.handMaskShort) =
  [[18, 0, 306, 0, 2448, 0],
   [0, 0, 0, 0, 0, 0],
   [0, 0, 0, 0, 0, 0],
   [36, 252, 756, 1584, 3528, 7560],
   [36, 252, 756, 1584, 3528, 7560],
   [162, 2610, 21186, 116352, 488016, 1667952],
   [0, 0, 0, 0, 0, 0],
   [18, 0, 306, 0, 2448, 0]] := by decide +kernel

theorem rowsShort : RP.Gen.permExhaust.map (xrow RP.Gen.handMaskShort) =
  [[630, 21420, 353430, 3769920, 29216880, 175301280],
   [162, 2610, 21186, 116352, 488016, 1667952],
   [162, 2610, 21186, 116352, 488016, 1667952],
   [36, 252, 756, 1584, 3528, 7560],
   [36, 252, 756, 1584, 3528, 7560],
   [162, 2610, 21186, 116352, 488016, 1667952],
   [162, 2610, 21186, 116352, 488016, 1667952],
   [18, 0, 306, 0, 2448, 0],
   [36, 252, 756, 1584, 3528, 7560],
   [0, 0, 0, 0, 0, 0],
   [0, 0, 0, 0, 0, 0],
   [36, 252, 756, 1584, 3528, 7560],
   [36, 252, 756, 1584, 3528, 7560],
   [0, 0, 0, 0, 0, 0],
   [162, 2610, 21186, 116352, 488016, 1667952],
   [36, 252, 756, 1584, 3528, 7560],
   [18, 0, 306, 0, 2448, 0],
   [0, 0, 0, 0, 0, 0],
   [0, 0, 0, 0, 0, 0],
   [36, 252, 756, 1584, 3528, 7560],
   [36, 252, 756, 1584, 3528, 7560],
   [162, 2610, 21186, 116352, 488016, 1667952],
   [0, 0, 0, 0, 0, 0],
   [18, 0, 306, 0, 2448, 0]] := by
  have h : RP.Gen.permExhaust = RP.Gen.permExhaust.take 8 ++ ((RP.Gen.permExhaust.drop 8).take 8 ++ RP.Gen.permExhaust.drop 16) := by
    decide
  conv => lhs; rw [h]
  rw [List.map_append, List.map_append]
  rw [rowsShort_a, rowsShort_b, rowsShort_c]
  rfl

end RP.C06
