import RP.Lemmas.Menu
import RP.Lemmas.MenuF32
import RP.Props.C03
import RP.Props.C15
/-! # C11 — Every abstract action on a menu maps to a permitted concrete action

Model: `RP.TreeShape.choices / raises / expand / actionize` (bottom of src/gameplay/game.rs, written
for C10) over the two-seat game model `RP.Game`; codecs `RP.Codec` (edge.rs, path.rs); odds tables
and constants generated from the source (`RP.Gen.oddsGrid`, `PREF/FLOP/LATE/LAST_RAISES`,
`MAX_RAISE_REPEATS`, `STACK`, …).

Every menu statement is about **every** state satisfying the game invariant `RP.Game.GameInv` at a
choice node and **every** raise count `n`; the invariant holds in every state reachable from a
freshly dealt hand by any accepted action list (`RP.C03.C03_reachable`), so `C11_reachable` states
them for all reachable states — a superset of the states reachable under the abstraction
(`C11_abstract_closed`: following a menu entry never trips `apply`'s assertion and lands in a state
with the invariant again).

* `C11_f32_floor`: on Lean's IEEE-754 `Float32`, in the order game.rs evaluates it,
  `(pot as f32 * (num as f32 / den as f32)) as i16 = ⌊pot·num/den⌋` for every `0 ≤ pot ≤ 2·STACK`
  and every entry of `Odds::GRID` (kernel evaluation of the 201 × 10 table); hence
  `C11_actionize_f32`: the float `actionize` and the integer one agree in every reachable state.
* `C11_menu_nonempty`, `C11_menu_nodup`, `C11_menu_kinds` (+ the converse `C11_menu_kinds_exact`),
  `C11_entry_allowed`, `C11_abstract_closed`, `C11_menu_monotone` (general form `C11_monotone`),
  `C11_snap` (+ `snap_clamp`), `C11_menu_length`, `C11_menu_pack`, `C11_menu_path_injective`,
  `C11_history_pack`, `C11_history_too_long`; bundled as `MenuOK` in `C11_menu` / `C11_reachable`;
  `AbsReach` / `C11_abs_reach` / `C11_abs_reach_menu` for the abstract tree itself;
  `C11_chance_menu`, `C11_terminal_menu` for the nodes that are not decisions.
* `C11_grid_*`, `C11_street_tables_in_grid`, `C11_raise_edges_coded`: the grid is in lowest terms
  and strictly sorted; every per-street odds is a member of `GRID`, so `u8::from(Edge::Raise(odds))`
  never hits `expect("invalid odds value")`.

The point the brief asks to check: `choices` offers raise edges only when `legal()` contains a
`Raise` (`to_raise < to_shove`), but `actionize` of such an edge may return `Shove(to_shove)`, whose
`is_allowed` goes through `legal().contains(Shove(x))`, i.e. needs `to_shove > 0` and
`x = to_shove`. Both hold (the actor of a choice node has chips behind, `choice_view`); the case is
the first branch of `C11_entry_allowed` and the third non-vacuity example. -/
namespace RP.C11
open RP.Game RP.Menu RP.TreeShape
open RP.Showdown (Status)
open RP.Bits (popW)
open RP.Codec (Edge pathOfEdges pathToEdges edgeToU8 edgeOfU8 edgeToU64 edgeOfU64)

/-! ## the odds tables (generated from src/mccfr/odds.rs) -/

/-- `Odds::GRID`: positive numerators and denominators, in lowest terms -/
theorem C11_grid_lowest_terms : ∀ o ∈ gridOdds, 0 < o.1 ∧ 0 < o.2 ∧ Nat.gcd o.1 o.2 = 1 := by decide
/-- `Odds::GRID` is strictly increasing as rationals ("pre-sorted", used by `Odds::nearest`) -/
theorem C11_grid_sorted : strictlySorted gridOdds = true := by decide
theorem C11_grid_nodup : gridOdds.Nodup := by decide
theorem C11_grid_length : gridOdds.length = 10 := by decide
/-- every per-street raise table is strictly increasing and a sub-list of `Odds::GRID` -/
theorem C11_street_tables_in_grid :
    ∀ t ∈ streetTables, strictlySorted t = true ∧ ∀ o ∈ t, o ∈ gridOdds := by decide

theorem alphabet_eq : alphabet = RP.C15.allEdges := rfl

/-- **no `expect("invalid odds value")`**: the raise edge of every per-street odds has a `u8` code
in `6..=15` that decodes back to it (`Edge::from(u8)` indexes `Odds::GRID`) -/
theorem C11_raise_edges_coded : ∀ t ∈ streetTables, ∀ o ∈ t,
    ∃ c, edgeToU8 (.raise o.1 o.2) = some c ∧ (6 ≤ c ∧ c ≤ 15) ∧ edgeOfU8 c = some (.raise o.1 o.2) := by
  have key : ∀ t ∈ streetTables, ∀ o ∈ t,
      (match edgeToU8 (.raise o.1 o.2) with
        | some c => decide (6 ≤ c) && decide (c ≤ 15) && (edgeOfU8 c == some (Edge.raise o.1 o.2))
        | none => false) = true := by decide
  intro t ht o ho
  have := key t ht o ho
  cases hc : edgeToU8 (.raise o.1 o.2) with
  | none => rw [hc] at this; cases this
  | some c =>
    rw [hc] at this
    simp only [Bool.and_eq_true, decide_eq_true_eq, beq_iff_eq] at this
    exact ⟨c, rfl, ⟨this.1.1, this.1.2⟩, this.2⟩

/-- all 15 edges: `u8` code in `1..=15` and `u64` code, both decoding back (from C15) -/
theorem C11_edge_codes (e : Edge) (h : e ∈ alphabet) :
    (∃ c, edgeToU8 e = some c ∧ (0 < c ∧ c < 16) ∧ edgeOfU8 c = some e) ∧
    edgeOfU64 (edgeToU64 e) = some e :=
  ⟨RP.C15.C15_edge_u8 e h, RP.C15.C15_edge_u64 e h⟩

/-! ## the `f32` product of `actionize` truncates to the integer floor -/

/-- **C11, float truncation.** For every pot a hand can have (`0 ≤ pot ≤ 2·STACK`) and every odds of
`Odds::GRID`, the expression of game.rs — `pot as f32`, `num as f32 / den as f32`, product, `as i16`
(saturating truncation toward zero) — evaluated on IEEE-754 binary32 equals `⌊pot·num/den⌋`. -/
theorem C11_f32_floor (pot : Int) (h0 : 0 ≤ pot) (h1 : pot ≤ 2 * STACK) (o : Nat × Nat)
    (ho : o ∈ gridOdds) : betF32 pot o.1 o.2 = betFloor pot o.1 o.2 := by
  have hrow := f32_rows o ho
  unfold f32Row at hrow
  rw [List.all_eq_true] at hrow
  have hm : pot.toNat ∈ List.range (2 * RP.Gen.STACK + 1) := by
    rw [List.mem_range]; unfold STACK at h1; omega
  have := hrow _ hm
  have e : ((pot.toNat : Nat) : Int) = pot := Int.toNat_of_nonneg h0
  rw [e] at this
  exact eq_of_beq this

/-- the table is not trivially integral: thirds and quarters are rounded *up* by binary32
(`1/3 ↦ 0x3EAAAAAB`), and the product still truncates to the floor -/
example : (oddsToF32 1 3).toBits = 0x3EAAAAAB ∧ betF32 3 1 3 = 1 ∧ betF32 200 2 3 = 133 ∧
    betF32 199 3 4 = 149 ∧ betF32 200 4 1 = 800 := by decide +kernel
/-- outside the theorem's range the cast saturates (Rust `as i16`), it does not wrap -/
example : asChips (chipsToF32 20000 * chipsToF32 3) = 32767 ∧
    asChips (chipsToF32 0 / chipsToF32 0) = 0 := by decide +kernel

/-! ## the menu at a decision -/

/-- a decision node in terms of the closing predicates (from `C03_turn`) -/
theorem decision_of_turn {g : Game} {i : Nat} (ht : turn g = Turn.choice i) :
    isEveryoneAlright g = false := (((RP.C03.C03_turn g).2.2 i).1 ht).1

theorem run?_append (g : Game) (as bs : List Action) :
    run? g (as ++ bs) = (run? g as).bind (fun g' => run? g' bs) := by
  induction as generalizing g with
  | nil => simp [run?]
  | cons a as ih =>
    simp only [List.cons_append, run?]
    cases step? g a with
    | none => simp
    | some g1 => simp [ih]

theorem pot_range {g : Game} (h : GameInv g) : 0 ≤ g.pot ∧ g.pot ≤ 2 * STACK := by
  have hc := consts_ok
  have := h.pair.blinds; have := h.pot_eq
  exact ⟨by omega, RP.C03.pot_le h⟩

/-- **C11, non-empty.** At every decision, for every raise count, all-in is on the menu. -/
theorem C11_menu_nonempty {g : Game} {i : Nat} (h : GameInv g) (ht : turn g = Turn.choice i) (n : Nat) :
    Edge.shove ∈ choices g n ∧ choices g n ≠ [] := by
  have hna := decision_of_turn ht
  have hm : Edge.shove ∈ choices g n :=
    (mem_choices h hna n _).2 (Or.inr (Or.inl ⟨mayShove_choice h hna, rfl⟩))
  exact ⟨hm, List.ne_nil_of_mem hm⟩

/-- **C11, no duplicates.** -/
theorem C11_menu_nodup {g : Game} {i : Nat} (h : GameInv g) (ht : turn g = Turn.choice i) (n : Nat) :
    (choices g n).Nodup := by
  rw [choices_eq h (decision_of_turn ht)]
  apply nodup_menu
  · cases mayRaise g
    · simp
    · simpa using (raises_ok g n).1
  · intro e he
    cases hm : mayRaise g
    · simp [hm] at he
    · rw [hm] at he; exact ((raises_ok g n).2.2 e (by simpa using he)).2

/-- the kinds of abstract edges and of concrete actions -/
inductive Kind where
  | draw | fold | check | call | raise | shove | blind
  deriving DecidableEq, Repr

def edgeKind : Edge → Kind
  | .draw => .draw | .fold => .fold | .check => .check | .call => .call
  | .raise _ _ => .raise | .shove => .shove
def actionKind : Action → Kind
  | .draw _ => .draw | .fold => .fold | .check => .check | .call _ => .call
  | .raise _ => .raise | .shove _ => .shove | .blind _ => .blind

/-- what the rules of No-Limit Hold'em say about a kind at a decision (the right-hand sides of
`C03_memoryless`): fold iff facing a bet, check iff not, call iff the outstanding amount is
positive and less than the stack, all-in with chips behind, raise iff some legal raise size exists
(`outstanding + max outstanding BB ≤ stack − 1`), never a deal -/
def KindPermitted (g : Game) : Kind → Prop
  | .fold => 0 < toCall g
  | .check => toCall g = 0
  | .call => 0 < toCall g ∧ toCall g < (actor g).stack
  | .shove => 0 < (actor g).stack
  | .raise => toCall g + max (toCall g) BB ≤ (actor g).stack - 1
  | .draw => False
  | .blind => False

/-- **C11, kinds.** Every kind on the menu is a kind `legal()` offers there, and a kind the rules
permit there; in particular no `Draw` edge at a decision. -/
theorem C11_menu_kinds {g : Game} {i : Nat} (h : GameInv g) (ht : turn g = Turn.choice i) (n : Nat) :
    ∀ e ∈ choices g n,
      (∃ a ∈ legal g, actionKind a = edgeKind e) ∧ KindPermitted g (edgeKind e) ∧ e ≠ Edge.draw := by
  have hna := decision_of_turn ht
  obtain ⟨_, _, _, _, hk, _, hr, hsv⟩ := choice_view h hna
  intro e he
  rw [legal_choice h hna]
  rcases (mem_choices h hna n e).1 he with ⟨hm, hmem⟩ | ⟨hm, rfl⟩ | ⟨hm, rfl⟩ | ⟨hm, rfl⟩ | ⟨hm, rfl⟩
  · have hre := ((raises_ok g n).2.2 e hmem).2
    cases e <;> simp [isRaise] at hre
    refine ⟨⟨Action.raise (toRaise g), by unfold legalChoice; simp [hm], rfl⟩, ?_, by simp⟩
    unfold mayRaise at hm
    simp only [decide_eq_true_eq] at hm
    show toCall g + max (toCall g) BB ≤ (actor g).stack - 1
    rw [← hr, ← hsv]; omega
  · exact ⟨⟨Action.shove (toShove g), by unfold legalChoice; simp [hm], rfl⟩, hk, by simp⟩
  · refine ⟨⟨Action.call (toCall g), by unfold legalChoice; simp [hm], rfl⟩, ?_, by simp⟩
    unfold mayCall mayFold at hm
    simp only [Bool.and_eq_true, decide_eq_true_eq] at hm
    exact ⟨hm.1, by rw [← hsv]; exact hm.2⟩
  · refine ⟨⟨Action.fold, by unfold legalChoice; simp [hm], rfl⟩, ?_, by simp⟩
    unfold mayFold at hm
    show 0 < toCall g
    simpa using hm
  · refine ⟨⟨Action.check, by unfold legalChoice; simp [hm], rfl⟩, ?_, by simp⟩
    unfold mayCheck at hm
    have : effectiveStake g = (actor g).stake := by simpa using hm
    show toCall g = 0
    unfold toCall; omega

/-- **C11, snapping — what `actionize` does with a raise edge**, in every state: with
`bet = ⌊pot·num/den⌋`, `min = to_raise()`, `max = to_shove()`:
`bet ≥ max → Shove(max)`; otherwise `bet ≤ min → Raise(min)`; otherwise `Raise(bet)`. -/
theorem C11_snap (g : Game) (deal : Nat) (n d : Int) :
    (toShove g ≤ betFloor g.pot n d → actionize g deal (.raise n d) = .shove (toShove g)) ∧
    (betFloor g.pot n d < toShove g → betFloor g.pot n d ≤ toRaise g →
        actionize g deal (.raise n d) = .raise (toRaise g)) ∧
    (toRaise g < betFloor g.pot n d → betFloor g.pot n d < toShove g →
        actionize g deal (.raise n d) = .raise (betFloor g.pot n d)) := by
  unfold actionize betFloor
  refine ⟨?_, ?_, ?_⟩
  · intro h1; simp only [ge_iff_le, h1, if_true]
  · intro h1 h2
    have : ¬ toShove g ≤ g.pot * n / d := by omega
    simp only [ge_iff_le, this, if_false, h2, if_true]
  · intro h1 h2
    have a : ¬ toShove g ≤ g.pot * n / d := by omega
    have b : ¬ g.pot * n / d ≤ toRaise g := by omega
    simp only [ge_iff_le, a, b, if_false]

/-- where a raise is possible (`to_raise < to_shove`), the chips of the translated action are the
pot fraction clamped into `[min raise, all-in]` -/
theorem snap_clamp (g : Game) (deal : Nat) (n d : Int) (hr : toRaise g < toShove g) :
    chipsOf (actionize g deal (.raise n d)) = min (max (betFloor g.pot n d) (toRaise g)) (toShove g) := by
  obtain ⟨s1, s2, s3⟩ := C11_snap g deal n d
  by_cases h1 : toShove g ≤ betFloor g.pot n d
  · rw [s1 h1]; simp only [chipsOf]; omega
  · by_cases h2 : betFloor g.pot n d ≤ toRaise g
    · rw [s2 (by omega) h2]; simp only [chipsOf]; omega
    · rw [s3 (by omega) (by omega)]; simp only [chipsOf]; omega

/-- **C11, monotone** (general form): in any state where a raise is possible and the pot is not
negative, a larger pot fraction (as a rational) never translates to fewer chips; an all-in
counts as the stack. -/
theorem C11_monotone (g : Game) (deal : Nat) (hr : toRaise g < toShove g) (hp : 0 ≤ g.pot)
    {n1 d1 n2 d2 : Int} (hd1 : 0 < d1) (hd2 : 0 < d2) (hle : n1 * d2 ≤ n2 * d1) :
    chipsOf (actionize g deal (.raise n1 d1)) ≤ chipsOf (actionize g deal (.raise n2 d2)) := by
  rw [snap_clamp g deal n1 d1 hr, snap_clamp g deal n2 d2 hr]
  have := betFloor_mono hp hd1 hd2 hle
  omega

/-- odds of a raise edge on a menu: members of `Odds::GRID`, hence positive -/
theorem menu_raise_odds {g : Game} {n : Nat} {a b : Int} (hmem : Edge.raise a b ∈ raises g n) :
    (∃ o ∈ gridOdds, a = (o.1 : Int) ∧ b = (o.2 : Int)) ∧ 0 < a ∧ 0 < b := by
  obtain ⟨o, ho, ha, hb⟩ := raise_in_alphabet ((raises_ok g n).2.2 _ hmem).1
  obtain ⟨p1, p2, _⟩ := C11_grid_lowest_terms o ho
  exact ⟨⟨o, ho, ha, hb⟩, by omega, by omega⟩

/-- **C11, monotone on menus.** For two raise entries of a menu, `odds₁ ≤ odds₂` as rationals
implies `chips(actionize e₁) ≤ chips(actionize e₂)` (all-in = the stack). -/
theorem C11_menu_monotone {g : Game} {i : Nat} (h : GameInv g) (ht : turn g = Turn.choice i) (n deal : Nat)
    {n1 d1 n2 d2 : Int} (h1 : Edge.raise n1 d1 ∈ choices g n) (h2 : Edge.raise n2 d2 ∈ choices g n)
    (hle : n1 * d2 ≤ n2 * d1) :
    chipsOf (actionize g deal (.raise n1 d1)) ≤ chipsOf (actionize g deal (.raise n2 d2)) := by
  have hna := decision_of_turn ht
  have r1 : mayRaise g = true ∧ Edge.raise n1 d1 ∈ raises g n := by
    rcases (mem_choices h hna n _).1 h1 with x | ⟨_, x⟩ | ⟨_, x⟩ | ⟨_, x⟩ | ⟨_, x⟩
    · exact x
    all_goals cases x
  have r2 : Edge.raise n2 d2 ∈ raises g n := by
    rcases (mem_choices h hna n _).1 h2 with x | ⟨_, x⟩ | ⟨_, x⟩ | ⟨_, x⟩ | ⟨_, x⟩
    · exact x.2
    all_goals cases x
  have hr : toRaise g < toShove g := by have := r1.1; unfold mayRaise at this; simpa using this
  exact C11_monotone g deal hr (pot_range h).1 (menu_raise_odds r1.2).2.2 (menu_raise_odds r2).2.2 hle

/-- **C11, every entry is accepted.** At every decision, for every raise count, the concrete action
of every menu entry passes `is_allowed` (whatever cards a `Draw` would carry: there is no `Draw`
entry at a decision). Raise entries: `Shove(max)` is accepted because the actor has chips behind,
`Raise(min)` because raises are only offered when `min < max`, `Raise(bet)` because
`min < bet < max`. -/
theorem C11_entry_allowed {g : Game} {i : Nat} (h : GameInv g) (ht : turn g = Turn.choice i) (n deal : Nat) :
    ∀ e ∈ choices g n, isAllowed g (actionize g deal e) = true := by
  have hna := decision_of_turn ht
  obtain ⟨_, _, _, _, hk, _, hr, hsv⟩ := choice_view h hna
  obtain ⟨_, hall⟩ := legalChoice_spec h hna
  intro e he
  rcases (mem_choices h hna n e).1 he with ⟨hm, hmem⟩ | ⟨hm, rfl⟩ | ⟨hm, rfl⟩ | ⟨hm, rfl⟩ | ⟨hm, rfl⟩
  · have hre := ((raises_ok g n).2.2 e hmem).2
    cases e <;> simp [isRaise] at hre
    rename_i a b
    have hlt : toRaise g < toShove g := by unfold mayRaise at hm; simpa using hm
    obtain ⟨s1, s2, s3⟩ := C11_snap g deal a b
    by_cases c1 : toShove g ≤ betFloor g.pot a b
    · rw [s1 c1, allowed_shove_iff h]; exact ⟨hna, hsv⟩
    · by_cases c2 : betFloor g.pot a b ≤ toRaise g
      · rw [s2 (by omega) c2, allowed_raise_iff h]; exact ⟨hna, by omega, by omega⟩
      · rw [s3 (by omega) (by omega), allowed_raise_iff h]; exact ⟨hna, by omega, by omega⟩
  · exact hall _ (by unfold legalChoice; simp [hm, actionize])
  · exact hall _ (by unfold legalChoice; simp [hm, actionize])
  · exact hall _ (by unfold legalChoice; simp [hm, actionize])
  · exact hall _ (by unfold legalChoice; simp [hm, actionize])

/-- following a menu entry never trips `apply`'s assertions, and the invariant holds again: the
states reachable under the abstraction are reachable states -/
theorem C11_abstract_closed {g : Game} {i : Nat} (h : GameInv g) (ht : turn g = Turn.choice i) (n deal : Nat)
    (e : Edge) (he : e ∈ choices g n) :
    step? g (actionize g deal e) = some (act g (actionize g deal e)) ∧
    GameInv (act g (actionize g deal e)) :=
  (RP.C03.C03_reject (actionize g deal e)).2 h (C11_entry_allowed h ht n deal e he)

/-- **C11, the float `actionize` is the integer one** in every state with the invariant, for every
edge of the alphabet (so every theorem here about `actionize` is about the expression of game.rs) -/
theorem C11_actionize_f32 {g : Game} (h : GameInv g) (deal : Nat) (e : Edge) (he : e ∈ alphabet) :
    actionizeF32 g deal e = actionize g deal e := by
  cases e with
  | raise a b =>
    obtain ⟨o, ho, rfl, rfl⟩ := raise_in_alphabet he
    have := C11_f32_floor g.pot (pot_range h).1 (pot_range h).2 o ho
    simp only [actionizeF32, actionize, this, betFloor]
  | _ => rfl

/-- **C11, size.** A menu has at most 13 entries (≤ 10 raise sizes, all-in, call, and one of
fold / check), so it fits the 16 nibbles of a `Path`. -/
theorem C11_menu_length {g : Game} {i : Nat} (h : GameInv g) (ht : turn g = Turn.choice i) (n : Nat) :
    (choices g n).length ≤ 13 := by
  rw [choices_eq h (decision_of_turn ht)]
  have hl := (raises_ok g n).2.1
  have hx := fold_check_exclusive g
  cases mayRaise g <;> cases mayShove g <;> cases mayCall g <;> cases hf : mayFold g <;>
    cases hc : mayCheck g <;> simp [hf, hc] at hx ⊢ <;> omega

theorem C11_menu_alphabet {g : Game} {i : Nat} (h : GameInv g) (ht : turn g = Turn.choice i) (n : Nat) :
    ∀ e ∈ choices g n, e ∈ alphabet := by
  have hna := decision_of_turn ht
  intro e he
  rcases (mem_choices h hna n e).1 he with ⟨_, hmem⟩ | ⟨_, rfl⟩ | ⟨_, rfl⟩ | ⟨_, rfl⟩ | ⟨_, rfl⟩
  · exact ((raises_ok g n).2.2 e hmem).1
  all_goals (unfold alphabet; simp)

/-- **C11, packing of histories.** Every list of at most sixteen edges of the 15-symbol alphabet
packs into a 64-bit `Path` and unpacks to the same list (this is `C15_path_roundtrip`). -/
theorem C11_history_pack (es : List Edge) (hl : es.length ≤ 16) (he : ∀ e ∈ es, e ∈ alphabet) :
    ∃ p, pathOfEdges es = some p ∧ p < 2 ^ 64 ∧ pathToEdges p = some es :=
  RP.C15.C15_path_roundtrip es hl he

/-- **C11, the signed 64-bit form.** The same histories also survive `i64::from(Path)` /
`Path::from(i64)` (the database column): a sixteenth edge with code ≥ 8 sets bit 63 and the stored
number is negative, and it still reads back to the same list. -/
theorem C11_history_pack_i64 (es : List Edge) (hl : es.length ≤ 16) (he : ∀ e ∈ es, e ∈ alphabet) :
    ∃ p, pathOfEdges es = some p ∧ RP.Codec.pathOfI64 (RP.Codec.pathToI64 p) = p ∧
      pathToEdges (RP.Codec.pathOfI64 (RP.Codec.pathToI64 p)) = some es := by
  obtain ⟨p, h1, h2, h3⟩ := C11_history_pack es hl he
  have := RP.C15.C15_path_i64 p h2
  exact ⟨p, h1, this, by rw [this]; exact h3⟩

example : (pathOfEdges (List.replicate 15 Edge.fold ++ [Edge.raise 1 2])).map RP.Codec.pathToI64 =
    some (-9069649169573862878) ∧
    pathToEdges (RP.Codec.pathOfI64 (-9069649169573862878)) =
      some (List.replicate 15 Edge.fold ++ [Edge.raise 1 2]) := by decide

/-- seventeen or more edges trip `assert!(edges.len() <= 16)` -/
theorem C11_history_too_long (es : List Edge) (hl : 16 < es.length) : pathOfEdges es = none := by
  have p3 : RP.Codec.pp 3 = 16 := by decide
  unfold pathOfEdges; rw [p3]; simp; omega

/-- **C11, packing of menus.** The menu of every decision survives `Path::from` / `Vec<Edge>::from`. -/
theorem C11_menu_pack {g : Game} {i : Nat} (h : GameInv g) (ht : turn g = Turn.choice i) (n : Nat) :
    ∃ p, pathOfEdges (choices g n) = some p ∧ p < 2 ^ 64 ∧ pathToEdges p = some (choices g n) :=
  C11_history_pack _ (by have := C11_menu_length h ht n; omega) (C11_menu_alphabet h ht n)

/-! ## chance and terminal nodes (not decisions) -/

/-- at a chance node the menu is the single `Draw` edge, and its concrete action is accepted exactly
for a well-formed deal of fresh cards -/
theorem C11_chance_menu {g : Game} (h : GameInv g) (ht : turn g = Turn.chance) (n : Nat) :
    choices g n = [Edge.draw] ∧
    ∀ deal, isAllowed g (actionize g deal .draw) = true ↔
      (deal &&& inPlay g = 0 ∧ deal < 2 ^ 52 ∧ popW 64 deal = nRevealed (street g)) := by
  obtain ⟨hs, hd⟩ := (RP.C03.C03_turn g).2.1.1 ht
  constructor
  · unfold choices; rw [legal_chance hs hd]; simp [expand, edgeOfAction]
  · intro deal
    have := ((RP.C03.C03_memoryless h).2.1 ht).2 (.draw deal)
    simp only [actionize]; rw [this]
    constructor
    · rintro ⟨c, hc, r⟩; cases hc; exact r
    · intro r; exact ⟨deal, rfl, r⟩

/-- at the end of a hand the menu is empty -/
theorem C11_terminal_menu {g : Game} (ht : turn g = Turn.terminal) (n : Nat) : choices g n = [] := by
  have hs := (RP.C03.C03_turn g).1.1 ht
  unfold choices legal; simp [hs]

/-! ## the property, bundled, for every reachable state -/

/-- everything C11 says about one decision and one raise count -/
structure MenuOK (g : Game) (n : Nat) : Prop where
  nonempty : choices g n ≠ []
  nodup : (choices g n).Nodup
  kinds : ∀ e ∈ choices g n,
    (∃ a ∈ legal g, actionKind a = edgeKind e) ∧ KindPermitted g (edgeKind e) ∧ e ≠ Edge.draw
  allowed : ∀ deal, ∀ e ∈ choices g n, isAllowed g (actionize g deal e) = true
  float : ∀ deal, ∀ e ∈ choices g n, actionizeF32 g deal e = actionize g deal e
  steps : ∀ deal, ∀ e ∈ choices g n, ∃ g', step? g (actionize g deal e) = some g' ∧ GameInv g'
  monotone : ∀ deal n1 d1 n2 d2, Edge.raise n1 d1 ∈ choices g n → Edge.raise n2 d2 ∈ choices g n →
    n1 * d2 ≤ n2 * d1 →
    chipsOf (actionize g deal (.raise n1 d1)) ≤ chipsOf (actionize g deal (.raise n2 d2))
  snap : ∀ deal n1 d1, Edge.raise n1 d1 ∈ choices g n →
    chipsOf (actionize g deal (.raise n1 d1)) = min (max (betFloor g.pot n1 d1) (toRaise g)) (toShove g)
  size : (choices g n).length ≤ 13
  pack : ∃ p, pathOfEdges (choices g n) = some p ∧ p < 2 ^ 64 ∧ pathToEdges p = some (choices g n)

/-- **C11** for every state with the invariant at a decision and every raise count -/
theorem C11_menu {g : Game} {i : Nat} (h : GameInv g) (ht : turn g = Turn.choice i) (n : Nat) :
    MenuOK g n where
  nonempty := (C11_menu_nonempty h ht n).2
  nodup := C11_menu_nodup h ht n
  kinds := C11_menu_kinds h ht n
  allowed := fun deal => C11_entry_allowed h ht n deal
  float := fun deal e he => C11_actionize_f32 h deal e (C11_menu_alphabet h ht n e he)
  steps := fun deal e he => ⟨_, C11_abstract_closed h ht n deal e he⟩
  monotone := fun deal _ _ _ _ h1 h2 hle => C11_menu_monotone h ht n deal h1 h2 hle
  snap := fun deal n1 d1 h1 => by
    have hna := decision_of_turn ht
    have r1 : mayRaise g = true := by
      rcases (mem_choices h hna n _).1 h1 with x | ⟨_, x⟩ | ⟨_, x⟩ | ⟨_, x⟩ | ⟨_, x⟩
      · exact x.1
      all_goals cases x
    exact snap_clamp g deal n1 d1 (by unfold mayRaise at r1; simpa using r1)
  size := C11_menu_length h ht n
  pack := C11_menu_pack h ht n

/-- **C11** for every state reachable from a freshly dealt hand by any accepted action list (of any
length, with any chip amounts — a superset of the states reachable under the abstraction), at a
decision, for every raise count -/
theorem C11_reachable {h0 h1 : Nat} (hv : ValidDeal h0 h1) {as : List Action} {g : Game}
    (hr : run? (root h0 h1) as = some g) {i : Nat} (ht : turn g = Turn.choice i) (n : Nat) :
    MenuOK g n := C11_menu (RP.C03.C03_reachable hv hr) ht n



/-- **C11, kinds, converse.** The plain kinds are on the menu exactly when the rules permit them;
raise entries are there exactly when a legal raise size exists and the street's table for this
raise count is not empty (after `MAX_RAISE_REPEATS` raises in the round it is). -/
theorem C11_menu_kinds_exact {g : Game} {i : Nat} (h : GameInv g) (ht : turn g = Turn.choice i) (n : Nat) :
    (Edge.fold ∈ choices g n ↔ KindPermitted g .fold) ∧
    (Edge.check ∈ choices g n ↔ KindPermitted g .check) ∧
    (Edge.call ∈ choices g n ↔ KindPermitted g .call) ∧
    (Edge.shove ∈ choices g n ↔ KindPermitted g .shove) ∧
    (∀ a b, Edge.raise a b ∈ choices g n ↔ (KindPermitted g .raise ∧ Edge.raise a b ∈ raises g n)) ∧
    (RP.Gen.MAX_RAISE_REPEATS < n → ∀ a b, Edge.raise a b ∉ choices g n) := by
  have hna := decision_of_turn ht
  obtain ⟨_, _, _, _, hk, _, hr, hsv⟩ := choice_view h hna
  have notraise : ∀ e, e ∈ raises g n → isRaise e = true := fun e he => ((raises_ok g n).2.2 e he).2
  have hraise : mayRaise g = true ↔ KindPermitted g .raise := by
    unfold mayRaise; simp only [decide_eq_true_eq]
    show toRaise g < toShove g ↔ toCall g + max (toCall g) BB ≤ (actor g).stack - 1
    rw [hr, hsv]; omega
  refine ⟨?_, ?_, ?_, ?_, ?_, ?_⟩
  · rw [mem_choices h hna]
    constructor
    · rintro (⟨_, x⟩ | ⟨_, x⟩ | ⟨_, x⟩ | ⟨hm, _⟩ | ⟨_, x⟩)
      · have := notraise _ x; simp [isRaise] at this
      · cases x
      · cases x
      · unfold mayFold at hm; show 0 < toCall g; simpa using hm
      · cases x
    · intro hp; right; right; right; left
      have hp' : 0 < toCall g := hp
      exact ⟨by unfold mayFold; simpa using hp', rfl⟩
  · rw [mem_choices h hna]
    constructor
    · rintro (⟨_, x⟩ | ⟨_, x⟩ | ⟨_, x⟩ | ⟨_, x⟩ | ⟨hm, _⟩)
      · have := notraise _ x; simp [isRaise] at this
      · cases x
      · cases x
      · cases x
      · unfold mayCheck at hm
        have : effectiveStake g = (actor g).stake := by simpa using hm
        show toCall g = 0; unfold toCall; omega
    · intro hp; right; right; right; right
      refine ⟨?_, rfl⟩
      unfold mayCheck; simp only [beq_iff_eq]
      have : toCall g = 0 := hp
      unfold toCall at this; omega
  · rw [mem_choices h hna]
    constructor
    · rintro (⟨_, x⟩ | ⟨_, x⟩ | ⟨hm, _⟩ | ⟨_, x⟩ | ⟨_, x⟩)
      · have := notraise _ x; simp [isRaise] at this
      · cases x
      · unfold mayCall mayFold at hm
        simp only [Bool.and_eq_true, decide_eq_true_eq] at hm
        exact ⟨hm.1, by rw [← hsv]; exact hm.2⟩
      · cases x
      · cases x
    · intro hp; right; right; left
      refine ⟨?_, rfl⟩
      have : 0 < toCall g ∧ toCall g < (actor g).stack := hp
      unfold mayCall mayFold; rw [hsv]
      simp only [Bool.and_eq_true, decide_eq_true_eq]; exact this
  · constructor
    · intro _; exact hk
    · intro _; exact (C11_menu_nonempty h ht n).1
  · intro a b
    rw [mem_choices h hna]
    constructor
    · rintro (⟨hm, x⟩ | ⟨_, x⟩ | ⟨_, x⟩ | ⟨_, x⟩ | ⟨_, x⟩)
      · exact ⟨hraise.1 hm, x⟩
      all_goals cases x
    · rintro ⟨hp, x⟩; exact Or.inl ⟨hraise.2 hp, x⟩
  · intro hlt a b hmem
    have hmem' : Edge.raise a b ∈ raises g n := by
      rcases (mem_choices h hna n _).1 hmem with x | ⟨_, x⟩ | ⟨_, x⟩ | ⟨_, x⟩ | ⟨_, x⟩
      · exact x.2
      all_goals cases x
    unfold raises at hmem'
    simp [hlt] at hmem'

/-- two decisions (or raise counts) with the same packed menu word have the same menu -/
theorem C11_menu_path_injective {g g' : Game} {i i' : Nat} (h : GameInv g) (ht : turn g = Turn.choice i)
    (h' : GameInv g') (ht' : turn g' = Turn.choice i') (n n' : Nat)
    (he : pathOfEdges (choices g n) = pathOfEdges (choices g' n')) : choices g n = choices g' n' := by
  obtain ⟨p, h1, _, h2⟩ := C11_menu_pack h ht n
  obtain ⟨q, h3, _, h4⟩ := C11_menu_pack h' ht' n'
  rw [h1, h3] at he
  have : p = q := Option.some.inj he
  subst this; rw [h2] at h4; exact Option.some.inj h4

/-! ## the states reachable under the abstraction -/

/-- the game states of the abstract tree: the root of a valid deal; from a decision, the state
after the concrete action of any entry of any menu `choices g n`; from a chance node, the state
after any accepted deal -/
inductive AbsReach (h0 h1 : Nat) : Game → Prop
  | root : AbsReach h0 h1 (root h0 h1)
  | choice {g : Game} {i : Nat} (n deal : Nat) (e : Edge) :
      AbsReach h0 h1 g → turn g = Turn.choice i → e ∈ choices g n →
      AbsReach h0 h1 (act g (actionize g deal e))
  | chance {g : Game} (deal : Nat) :
      AbsReach h0 h1 g → turn g = Turn.chance → isAllowed g (actionize g deal .draw) = true →
      AbsReach h0 h1 (act g (actionize g deal .draw))

/-- **C11 on the abstract tree.** Every state reachable under the abstraction satisfies the game
invariant and is reached without tripping an assertion of `apply`; hence `C11_menu` applies at each
of its decisions, for every raise count. -/
theorem C11_abs_reach {h0 h1 : Nat} (hv : ValidDeal h0 h1) {g : Game} (hr : AbsReach h0 h1 g) :
    GameInv g ∧ ∃ as, run? (root h0 h1) as = some g := by
  induction hr with
  | root => exact ⟨inv_root hv, [], rfl⟩
  | @choice g i n deal e _ ht he ih =>
    obtain ⟨hinv, as, has⟩ := ih
    obtain ⟨hs, hi⟩ := C11_abstract_closed hinv ht n deal e he
    exact ⟨hi, as ++ [actionize g deal e], by rw [run?_append, has]; simp [run?, hs]⟩
  | @chance g deal _ _ ha ih =>
    obtain ⟨hinv, as, has⟩ := ih
    obtain ⟨hs, hi⟩ := (RP.C03.C03_reject _).2 hinv ha
    exact ⟨hi, as ++ [actionize g deal .draw], by rw [run?_append, has]; simp [run?, hs]⟩

theorem C11_abs_reach_menu {h0 h1 : Nat} (hv : ValidDeal h0 h1) {g : Game} (hr : AbsReach h0 h1 g)
    {i : Nat} (ht : turn g = Turn.choice i) (n : Nat) : MenuOK g n :=
  C11_menu (C11_abs_reach hv hr).1 ht n

/-! ## non-vacuity: concrete decisions -/

private def demo (as : List Action) : Option Game := run? (root 0x3 0x30) as
/-- menu with the concrete action of each entry -/
private def view (as : List Action) (n : Nat) : Option (List (Edge × Action)) :=
  (demo as).map fun g => (choices g n).map fun e => (e, actionize g 0 e)
theorem demo_deal : ValidDeal 0x3 0x30 := by unfold ValidDeal; decide

/-- the bundled theorem instantiated on a concrete line of play ending at a decision of seat `i` -/
private theorem demo_menu (as : List Action) (n i : Nat)
    (ht : (demo as).map turn = some (Turn.choice i)) : ∃ g, demo as = some g ∧ MenuOK g n := by
  cases hd : demo as with
  | none => rw [hd] at ht; cases ht
  | some g => rw [hd] at ht; exact ⟨g, rfl, C11_reachable demo_deal hd (Option.some.inj ht) n⟩

-- the root (small blind to act, pot 3, min raise 3): 13 entries — the maximum; every pot fraction
-- up to 1:1 snaps to the minimum raise, the larger ones are ⌊pot·odds⌋
example : view [] 0 = some
    [(.raise 1 4, .raise 3), (.raise 1 3, .raise 3), (.raise 1 2, .raise 3), (.raise 2 3, .raise 3),
     (.raise 3 4, .raise 3), (.raise 1 1, .raise 3), (.raise 3 2, .raise 4), (.raise 2 1, .raise 6),
     (.raise 3 1, .raise 9), (.raise 4 1, .raise 12), (.shove, .shove 99), (.call, .call 1),
     (.fold, .fold)] := by decide
-- the theorem instantiated at the root: every clause, for raise count 0
example : MenuOK (root 0x3 0x30) 0 :=
  C11_reachable demo_deal (as := []) rfl (i := 1) (by decide) 0
example : (demo []).map (fun g => (pathOfEdges (choices g 0), (choices g 0).length)) =
    some (some 0x245FEDCBA9876, 13) ∧
    pathToEdges 0x245FEDCBA9876 = (demo []).map (fun g => choices g 0) := by decide
-- a flop decision after a bet of 10 into 4 (raise count 1): min raise 20, pot 14
example : view [.call 1, .check, .draw 0x700, .raise 10] 1 = some
    [(.raise 1 2, .raise 20), (.raise 3 4, .raise 20), (.raise 1 1, .raise 20), (.raise 3 2, .raise 21),
     (.raise 2 1, .raise 28), (.shove, .shove 98), (.call, .call 10), (.fold, .fold)] := by decide
example : ∃ g, demo [.call 1, .check, .draw 0x700, .raise 10] = some g ∧ MenuOK g 1 :=
  demo_menu _ 1 0 (by decide)
-- short stacks (pot 102, 49 behind) on the flop: every raise entry snaps to all-in, and the engine
-- accepts `Shove(49)` although the entry came from the `Raise` slot of `legal()`
example : view [.raise 50, .call 49, .draw 0x700] 0 = some
    [(.raise 1 2, .shove 49), (.raise 3 4, .shove 49), (.raise 1 1, .shove 49), (.raise 3 2, .shove 49),
     (.raise 2 1, .shove 49), (.shove, .shove 49), (.check, .check)] := by decide
example : ∃ g, demo [.raise 50, .call 49, .draw 0x700] = some g ∧ MenuOK g 0 :=
  demo_menu _ 0 1 (by decide)
example : (demo [.raise 50, .call 49, .draw 0x700]).map
    (fun g => (legal g, (choices g 0).all fun e => isAllowed g (actionize g 0 e))) =
    some ([.raise 2, .shove 49, .check], true) := by decide
-- turn: the first raise of the round has two sizes, later ones one, after the cap none
example : (view [.raise 10, .call 9, .draw 0x700, .check, .check, .draw 0x800] 0,
           view [.raise 10, .call 9, .draw 0x700, .check, .check, .draw 0x800] 1,
           view [.raise 10, .call 9, .draw 0x700, .check, .check, .draw 0x800] 4) =
    (some [(.raise 1 2, .raise 11), (.raise 1 1, .raise 22), (.shove, .shove 89), (.check, .check)],
     some [(.raise 1 1, .raise 22), (.shove, .shove 89), (.check, .check)],
     some [(.shove, .shove 89), (.check, .check)]) := by decide
-- facing an all-in: no raise entry at all; chance node: the single Draw edge; terminal: nothing
example : (view [.shove 99] 0, view [.raise 10, .call 9] 0, view [.raise 10, .fold] 0) =
    (some [(.shove, .shove 98), (.fold, .fold)], some [(.draw, .draw 0)], some []) := by decide
-- monotonicity needs "a raise is possible": where `to_raise ≥ to_shove` (facing an all-in; no raise
-- edge is offered there) the raw translation of a raise edge is `Raise(min)` below and `Shove(max)`
-- above, and min > max
example : (demo [.shove 99]).map (fun g =>
    (toRaise g, toShove g, actionize g 0 (.raise 1 4), actionize g 0 (.raise 4 1))) =
    some (196, 98, .raise 196, .shove 98) := by decide
-- the abstract tree: the 4:1 edge at the root leads to the state after `Raise(12)`, a decision of
-- the big blind, where the bundled theorem applies again
example : ∃ g, AbsReach 0x3 0x30 g ∧ demo [.raise 12] = some g ∧ turn g = Turn.choice 0 ∧ MenuOK g 1 := by
  have h : AbsReach 0x3 0x30 (act (root 0x3 0x30) (actionize (root 0x3 0x30) 0 (.raise 4 1))) :=
    AbsReach.choice (i := 1) 0 0 (.raise 4 1) AbsReach.root (by decide) (by decide)
  have ht : turn (act (root 0x3 0x30) (actionize (root 0x3 0x30) 0 (.raise 4 1))) = Turn.choice 0 := by decide
  exact ⟨_, h, by decide, ht, C11_abs_reach_menu demo_deal h ht 1⟩
-- packing: sixteen edges use all 64 bits, seventeen are rejected
example : pathOfEdges (List.replicate 16 Edge.shove) = some 0x5555555555555555 ∧
    pathOfEdges (List.replicate 17 Edge.shove) = none := by decide

end RP.C11
