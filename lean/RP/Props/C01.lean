import RP.Lemmas.C01.Classes
/-! # C01 — hand strength ordering is exactly the poker hand ranking (both deck configurations)

Model: `RP.Eval` (`strength cfg bits`, comparison key `strengthKey`, `compareHands`), written as
`evalA cfg (α h)` where `α h` = (per-rank count vector, rank mask, rank mask of the flush suit).
Specification: `RP.Spec.Poker` (`value5`, `best5`; on classes `specA`).
The category order and kicker counts the model uses are the generated `RP.Gen.rankingOrder*`,
`RP.Gen.nKickers`; the rules' order is written by hand in the specification. -/
namespace RP.C01
open RP.Bits RP.Eval RP.Spec.Poker

/-- **C01_table** (uses `native_decide` in `RP.Lemmas.C01.Tab*`): on every class — count vector of
    13 ranks with digits ≤ 4 and 5..7 cards, flush rank set of 5..7 ranks — the evaluator model
    returns a well-formed `(Ranking, Kickers)` whose translation into the rules' value space is the
    rules' best-five value of the class; a non-straight flush keeps only its top card
    (`coarse`, the known finding KF-C01-flush).  73 775 count vectors + 4 719 flush sets per deck,
    walked by `forallCV` / `forallF` which are proved to visit every valid class. -/
theorem C01_table (cfg : Cfg) (c : Cls) (hv : ValidCls c) :
    (evalA? cfg c).isSome = true ∧ wfRes (evalA cfg c) = true ∧
      specOf cfg (evalA cfg c) = coarse cfg (specA cfg c) :=
  table_cls cfg c hv

/-- the walkers are complete: every valid count vector / flush set is a row of the table -/
theorem C01_table_complete (cfg : Cfg) :
    (∀ cv, validCV 13 cv → 5 ≤ digitSum 13 cv → digitSum 13 cv ≤ 7 → rowN cfg cv = true) ∧
    (∀ F, F < 2^13 → 5 ≤ popW 13 F → popW 13 F ≤ 7 → rowF cfg F = true) :=
  ⟨rowN_of_valid cfg, rowF_of_valid cfg⟩

-- non-vacuity: A A K K Q Q J (three pairs) is a valid class; two pair aces and kings, queen kicker
example : ValidCls (clsN (2 * 8^12 + 2 * 8^11 + 2 * 8^10 + 8^9)) := ⟨by decide, by decide, by decide, rfl, by decide⟩
example : evalA .std (clsN (2 * 8^12 + 2 * 8^11 + 2 * 8^10 + 8^9)) = (⟨cTwoPair, 12, 11⟩, 2^10) := by decide

/-- **C01_key_order**: the derived `Ord` of `Strength` (variant index from the generated enum order,
    fields, kicker mask as a number) orders well-formed results exactly as the rules order their
    translations: needs the generated variant order to be the category order of the deck's rules -/
theorem C01_key_order (cfg : Cfg) (a b : Rk × Nat) (ha : wfRes a = true) (hb : wfRes b = true) :
    compare (keyA cfg a) (keyA cfg b) = compare (specOf cfg a) (specOf cfg b) :=
  key_order cfg a b ha hb

/-- the generated enum order of each build is the order of its rules (flush and full house
    exchanged in the short deck) -/
theorem C01_variant_order (cfg : Cfg) : ∀ c1, c1 < 9 → ∀ c2, c2 < 9 →
    (variantIdx cfg c1 < variantIdx cfg c2 → posOfCat cfg c1 < posOfCat cfg c2) ∧
    (variantIdx cfg c1 = variantIdx cfg c2 → c1 = c2) :=
  idx_facts cfg

example : variantIdx .std cFullHouse > variantIdx .std cFlush ∧ variantIdx .short cFlush > variantIdx .short cFullHouse := by decide

/-- **C01_order_classes**: on valid classes the engine's comparison is the rules' comparison,
    unless the two values are non-straight flushes with equal top card and different lower cards -/
theorem C01_order_classes (cfg : Cfg) (c1 c2 : Cls) (h1 : ValidCls c1) (h2 : ValidCls c2)
    (hn : ¬ FlushTie cfg (specA cfg c1) (specA cfg c2)) :
    compare (keyA cfg (evalA cfg c1)) (keyA cfg (evalA cfg c2)) = compare (specA cfg c1) (specA cfg c2) :=
  order_cls cfg c1 c2 h1 h2 hn

/-- … and on such pairs the engine answers `Equal` -/
theorem C01_flush_behaviour_classes (cfg : Cfg) (c1 c2 : Cls) (h1 : ValidCls c1) (h2 : ValidCls c2)
    (ht : FlushTie cfg (specA cfg c1) (specA cfg c2)) :
    compare (keyA cfg (evalA cfg c1)) (keyA cfg (evalA cfg c2)) = .eq :=
  tie_cls cfg c1 c2 h1 h2 ht

/-- As Ks Qs Js 9s and Ah Kh Qh Jh 8h -/
def witnessA : Nat := 2^51 + 2^47 + 2^43 + 2^39 + 2^31
def witnessB : Nat := 2^50 + 2^46 + 2^42 + 2^38 + 2^26

/-- **known finding KF-C01-flush, witness**: the engine calls these two flushes equal, the rules
    do not — so the unrestricted statement of C01 is false for the code as it is -/
theorem C01_flush_witness (cfg : Cfg) :
    compareHands cfg witnessA witnessB = .eq ∧
    compare (best5 (Cfg.isShort cfg) witnessA) (best5 (Cfg.isShort cfg) witnessB) = .gt := by
  cases cfg <;> decide

theorem C01_full_statement_fails (cfg : Cfg) :
    ¬ ∀ h1 h2, compareHands cfg h1 h2 = compare (best5 (Cfg.isShort cfg) h1) (best5 (Cfg.isShort cfg) h2) := by
  intro h
  have := C01_flush_witness cfg
  rw [h witnessA witnessB] at this
  have e : Ordering.eq = Ordering.gt := this.1.symm.trans this.2
  cases e

end RP.C01
