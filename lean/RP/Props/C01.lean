import RP.Lemmas.C01.Lift
import RP.Lemmas.C01.Native
/-! # C01 — hand strength ordering is exactly the poker hand ranking (both deck configurations)

Model: `RP.Eval` (`strength cfg bits`, comparison key `strengthKey`, `compareHands`), written as
`evalA cfg (α h)` where `α h` = (per-rank count vector, rank mask, rank mask of the flush suit).
Specification: `RP.Spec.Poker` (`value5`, `best5`; on classes `specA`).
Main theorem: `C01_strength_order` — for all 5..7-card hands of the configured deck,
`Strength::cmp` (model) = comparison of the best five-card poker hands (rules).
The category order and kicker counts the model uses are the generated `RP.Gen.rankingOrder*`,
`RP.Gen.nKickers`; the rules' order is written by hand in the specification. -/
namespace RP.C01
open RP.Bits RP.Eval RP.Spec.Poker

/-- **C01_table** (uses `native_decide` in `RP.Lemmas.C01.Tab*`): on every class — count vector of
    13 ranks with digits ≤ 4 and 5..7 cards, flush rank set of 5..7 ranks — the evaluator model
    returns a well-formed `(Ranking, Kickers)` whose translation into the rules' value space is the
    rules' best-five value of the class.  73 775 count vectors + 4 719 flush sets per deck,
    walked by `forallCV` / `forallF` which are proved to visit every valid class. -/
theorem C01_table (cfg : Cfg) (c : Cls) (hv : ValidCls c) :
    (evalA? cfg c).isSome = true ∧ wfRes (evalA cfg c) = true ∧
      specOf cfg (evalA cfg c) = specA cfg c :=
  table_cls cfg c hv

/-- the walkers are complete: every valid count vector / flush set is a row of the table -/
theorem C01_table_complete (cfg : Cfg) :
    (∀ cv, validCV 13 cv → 5 ≤ digitSum 13 cv → digitSum 13 cv ≤ 7 → rowN cfg cv = true) ∧
    (∀ F, F < 2^13 → 5 ≤ popW 13 F → popW 13 F ≤ 7 → rowF cfg F = true) :=
  ⟨rowN_of_valid cfg, rowF_of_valid cfg⟩

-- non-vacuity: A A K K Q Q J (three pairs) is a valid class; two pair aces and kings, queen kicker
example : ValidCls (clsN (2 * 8^12 + 2 * 8^11 + 2 * 8^10 + 8^9)) := ⟨by decide, by decide, by decide, rfl, by decide⟩
example : evalA .std (clsN (2 * 8^12 + 2 * 8^11 + 2 * 8^10 + 8^9)) = (⟨cTwoPair, 12, 11⟩, 2^10) := by decide

/-- **C01_key_order**: the derived `Ord` of `Strength` (variant index from the generated enum order,
    fields, kicker mask as a number) orders well-formed results exactly as the rules order their
    translations: needs the generated variant order to be the category order of the deck's rules -/
theorem C01_key_order (cfg : Cfg) (a b : Rk × Nat) (ha : wfRes a = true) (hb : wfRes b = true) :
    compare (keyA cfg a) (keyA cfg b) = compare (specOf cfg a) (specOf cfg b) :=
  key_order cfg a b ha hb

/-- the generated enum order of each build is the order of its rules (flush and full house
    exchanged in the short deck) -/
theorem C01_variant_order (cfg : Cfg) : ∀ c1, c1 < 9 → ∀ c2, c2 < 9 →
    (variantIdx cfg c1 < variantIdx cfg c2 → posOfCat cfg c1 < posOfCat cfg c2) ∧
    (variantIdx cfg c1 = variantIdx cfg c2 → c1 = c2) :=
  idx_facts cfg

example : variantIdx .std cFullHouse > variantIdx .std cFlush ∧ variantIdx .short cFlush > variantIdx .short cFullHouse := by decide

/-- **C01_order_classes**: on valid classes the engine's comparison is the rules' comparison -/
theorem C01_order_classes (cfg : Cfg) (c1 c2 : Cls) (h1 : ValidCls c1) (h2 : ValidCls c2) :
    compare (keyA cfg (evalA cfg c1)) (keyA cfg (evalA cfg c2)) = compare (specA cfg c1) (specA cfg c2) :=
  order_cls cfg c1 c2 h1 h2

/-- every 5..7-card subset of the configured deck (a hand word) has a valid class: the table
    applies to every hand.  Bit-level part: `u16::from(Hand)` is the mask of non-empty nibbles,
    nibble popcounts are the rank counts, the flush suit's rank set has 5..7 ranks. -/
theorem C01_class_of_hand (cfg : Cfg) (h : Nat) (hv : ValidHand cfg h) : ValidCls (α h) :=
  valid_alpha cfg h hv

/-- the evaluator never panics on a 5..7-card hand -/
theorem C01_total (cfg : Cfg) (h : Nat) (hv : ValidHand cfg h) : (strength? cfg h).isSome = true :=
  strength_total cfg h hv

/-- **C01_strength_order_classes** (full statement relative to the rules on classes): for all
    5..7-card hands of the configured deck, `Strength::cmp` answers as the rules compare the best
    five-rank selections of the two hands (`specA`: maximum of the rules' value over all
    five-element sub-multisets of the ranks, and over the five-subsets of the flush suit). -/
theorem C01_strength_order_classes (cfg : Cfg) (h1 h2 : Nat) (v1 : ValidHand cfg h1) (v2 : ValidHand cfg h2) :
    compareHands cfg h1 h2 = compare (specA cfg (α h1)) (specA cfg (α h2)) :=
  order_hands_abs cfg h1 h2 v1 v2

/-- **C01_lift**: the best five-card hand (maximum of `value5` over all five-card subsets of the
    concrete card set) is the rules' value of the hand's class: every five-element rank
    sub-multiset is realised by a five-card subset, a subset is of one suit iff it lies in the
    (unique) flush suit, and one suit only raises the value of five ranks -/
theorem C01_lift (cfg : Cfg) (h : Nat) (hv : ValidHand cfg h) :
    best5 (Cfg.isShort cfg) h = specA cfg (α h) :=
  lift cfg h hv

/-- **C01_strength_order** — the property, in full: for any two sets of five to seven distinct
    cards of the configured deck, comparing their evaluated strengths (`Strength::cmp`, derived
    order with the generated variant order of the build) gives the same answer as comparing
    their best five-card poker hands under the rules of that deck. -/
theorem C01_strength_order (cfg : Cfg) (h1 h2 : Nat) (v1 : ValidHand cfg h1) (v2 : ValidHand cfg h2) :
    compareHands cfg h1 h2 = compare (best5 (Cfg.isShort cfg) h1) (best5 (Cfg.isShort cfg) h2) := by
  rw [lift cfg h1 v1, lift cfg h2 v2]
  exact order_hands_abs cfg h1 h2 v1 v2

/-- **C01_flush_excludes**: ≤ 7 cards with ≥ 5 in one suit contain neither quads nor a full
    house (the evaluator run without the flush information finds neither), so trying the flush
    first is sound in both deck orders -/
theorem C01_flush_excludes (cfg : Cfg) (h F : Nat) (hv : ValidHand cfg h) (hF : (α h).fl = some F) :
    (evalA cfg (clsN (α h).cv)).1.cat ≠ cFourOAK ∧ (evalA cfg (clsN (α h).cv)).1.cat ≠ cFullHouse :=
  flush_excludes cfg h F hv hF

/-- **C01_suit_blind**: relabeling the four suits by any of the 24 permutations
    (`RP.Gen.permExhaust`) changes neither the validity of a hand nor its strength -/
theorem C01_suit_blind (cfg : Cfg) (π : List Nat) (hπ : π ∈ RP.Gen.permExhaust) (h : Nat) (hv : ValidHand cfg h) :
    ValidHand cfg (relabel π h) ∧ strength cfg (relabel π h) = strength cfg h :=
  ⟨validHand_relabel cfg π hπ h hv, strength_relabel cfg π hπ h hv⟩

/-- As Ks Qs Js 9s and Ah Kh Qh Jh 8h -/
def witnessA : Nat := 2^51 + 2^47 + 2^43 + 2^39 + 2^31
def witnessB : Nat := 2^50 + 2^46 + 2^42 + 2^38 + 2^26

/-- the repaired flush tie: the nine-high kicker beats the eight-high one, in the model as in the rules -/
theorem C01_flush_kickers_example (cfg : Cfg) :
    compareHands cfg witnessA witnessB = .gt ∧
    compare (best5 (Cfg.isShort cfg) witnessA) (best5 (Cfg.isShort cfg) witnessB) = .gt := by
  cases cfg <;> decide

-- non-vacuity of the main theorem and of the lift: a seven-card hand (As Ks Qs Js 9s + 9h 9d: flush beats
-- trips) against the eight-high-kicker flush; both sides evaluate, and the theorem applies
def sevenCards : Nat := witnessA + 2^30 + 2^29
example : ValidHand .std sevenCards ∧ ValidHand .short sevenCards := by unfold ValidHand; decide
example : compareHands .std sevenCards witnessB = compare (best5 false sevenCards) (best5 false witnessB) :=
  C01_strength_order .std _ _ (by unfold ValidHand; decide) (by unfold ValidHand; decide)
example : compareHands .std sevenCards witnessB = .gt ∧ compareHands .short witnessB sevenCards = .lt := by decide
example : best5 false sevenCards = specA .std (α sevenCards) ∧ (α sevenCards).fl ≠ none := by decide
-- short deck: A-6-7-8-9 is the lowest straight and a flush beats a full house
example : (strength .short (2^48 + 2^17 + 2^22 + 2^27 + 2^28)).idx = variantIdx .short cStraight ∧
    (strength .short (2^48 + 2^17 + 2^22 + 2^27 + 2^28)).r1 = 7 := by decide
example : compareHands .short witnessB (2^48 + 2^49 + 2^50 + 2^44 + 2^45) = .gt ∧
    compareHands .std witnessB (2^48 + 2^49 + 2^50 + 2^44 + 2^45) = .lt := by decide

-- the two flushes are valid hands of both decks; relabeling spades→hearts maps one suit to the other
example : ValidHand .std witnessA ∧ ValidHand .short witnessB := by unfold ValidHand; decide
example : relabel [3, 2, 1, 0] witnessA = 2^48 + 2^44 + 2^40 + 2^36 + 2^28 := by decide
example : (α witnessA).fl = some (2^12 + 2^11 + 2^10 + 2^9 + 2^7) := by decide

end RP.C01
