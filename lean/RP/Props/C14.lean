import RP.Model.Deck
/-! # C14 — Cards are dealt uniformly and never twice (deck part)

`drawAt deck i` is the model of `Deck::draw` with the uniform index fixed to `i`.
Theorems: for every 64-bit deck word and every index below its size the drawn card is
the `i`-th lowest remaining card; hence `i ↦ card` is a bijection between `{0..n-1}` and the
cards of the deck (a uniform index gives every remaining card probability `1/n`), and the
card is removed and nothing else. -/
namespace RP.C14
open RP.Bits RP.Deck

theorem drawLoop_even (w d i : Nat) (h : d % 2 = 0) :
    drawLoop (w+1) d i = drawLoop w (d / 2) i + 1 := by
  induction i generalizing d with
  | zero => simp [drawLoop, tzW, h]
  | succ i ih =>
    simp only [drawLoop]
    rw [clearLowest_even d h]
    have : (2 * clearLowest (d / 2)) % 2 = 0 := by omega
    rw [ih _ this]
    congr 2
    omega

/-- The card found for index `i` is set in the deck and has exactly `i` cards below it. -/
theorem drawLoop_spec (w : Nat) : ∀ d i, i < popW w d →
    (drawLoop w d i < w ∧ d.testBit (drawLoop w d i) = true ∧ popW (drawLoop w d i) d = i) := by
  induction w with
  | zero => intro d i h; simp [popW] at h
  | succ w ih =>
    intro d i h
    by_cases hb : d % 2 = 0
    · rw [drawLoop_even w d i hb]
      have hi : i < popW w (d / 2) := by simp only [popW, hb] at h; omega
      obtain ⟨h1, h2, h3⟩ := ih (d / 2) i hi
      refine ⟨by omega, ?_, ?_⟩
      · rw [Nat.testBit_succ]; exact h2
      · simp only [popW, hb, h3]; omega
    · have hb1 : d % 2 = 1 := by omega
      cases i with
      | zero =>
        simp only [drawLoop, tzW, hb1, if_true]
        refine ⟨by omega, ?_, by simp [popW]⟩
        simp [Nat.testBit_zero, hb1]
      | succ i =>
        simp only [drawLoop]
        rw [clearLowest_odd d hb1]
        have hev : (2 * (d / 2)) % 2 = 0 := by omega
        rw [drawLoop_even w _ i hev]
        have hh : 2 * (d / 2) / 2 = d / 2 := by omega
        rw [hh]
        have hi : i < popW w (d / 2) := by simp only [popW, hb1] at h; omega
        obtain ⟨h1, h2, h3⟩ := ih (d / 2) i hi
        refine ⟨by omega, ?_, ?_⟩
        · rw [Nat.testBit_succ]; exact h2
        · simp only [popW, hb1, h3]; omega

/-- **Injective**: different indices draw different cards. -/
theorem C14_draw_injective (d i j : Nat) (hi : i < popW 64 d) (hj : j < popW 64 d)
    (h : (drawAt d i).1 = (drawAt d j).1) : i = j := by
  have a := (drawLoop_spec 64 d i hi).2.2
  have b := (drawLoop_spec 64 d j hj).2.2
  simp only [drawAt] at h
  rw [h] at a; omega

/-- **Surjective**: every card of the deck is drawn by exactly the index counting the cards below it. -/
theorem C14_draw_surjective (d c : Nat) (hc : c < 64) (hb : d.testBit c = true) :
    popW c d < popW 64 d ∧ (drawAt d (popW c d)).1 = c := by
  have hlt := popW_lt_of_testBit hc hb
  obtain ⟨_, h2, h3⟩ := drawLoop_spec 64 d (popW c d) hlt
  exact ⟨hlt, testBit_rank_unique h2 hb h3⟩

/-- The drawn card is in the deck (never a card that was already removed). -/
theorem C14_draw_mem (d i : Nat) (hi : i < popW 64 d) :
    (drawAt d i).1 < 64 ∧ d.testBit (drawAt d i).1 = true :=
  ⟨(drawLoop_spec 64 d i hi).1, (drawLoop_spec 64 d i hi).2.1⟩

theorem testBit_not64_shift (c j : Nat) (hc : c < 64) :
    (not64 (1 <<< c)).testBit j = (decide (j < 64) && !decide (j = c)) := by
  unfold not64
  rw [Nat.testBit_xor, Nat.testBit_two_pow_sub_one, Nat.one_shiftLeft, Nat.testBit_two_pow]
  by_cases h1 : j < 64 <;> by_cases h2 : c = j <;> simp [h1, h2] <;> omega

/-- The remaining deck is the old deck without exactly the drawn card. -/
theorem C14_draw_removes (d i j : Nat) (hd : d < 2^64) (hi : i < popW 64 d) :
    (drawAt d i).2.testBit j = (d.testBit j && !decide (j = (drawAt d i).1)) := by
  have hc := (drawLoop_spec 64 d i hi).1
  simp only [drawAt, remove, Nat.testBit_and]
  rw [testBit_not64_shift _ _ hc]
  by_cases h1 : j < 64
  · by_cases h2 : j = drawLoop 64 d i <;> simp [h1, h2]
  · have : d.testBit j = false := Nat.testBit_lt_two_pow (Nat.lt_of_lt_of_le hd (Nat.pow_le_pow_right (by omega) (by omega)))
    simp [this]

/-- **Uniformity in counting form**: for every card `c` of the deck exactly one index `i < n`
    draws it — so with the index uniform on `{0,…,n-1}` each remaining card has probability `1/n`. -/
theorem C14_draw_exactly_one_index (d c : Nat) (hc : c < 64) (hb : d.testBit c = true) :
    ((List.range (popW 64 d)).filter (fun i => (drawAt d i).1 == c)).length = 1 := by
  obtain ⟨hlt, heq⟩ := C14_draw_surjective d c hc hb
  have key : ∀ i, i < popW 64 d → (((drawAt d i).1 == c) = true ↔ i = popW c d) := by
    intro i hi
    constructor
    · intro h
      have h' : (drawAt d i).1 = c := by simpa using h
      exact C14_draw_injective d i (popW c d) hi hlt (by rw [h', heq])
    · intro h; subst h; simpa using heq
  have : (List.range (popW 64 d)).filter (fun i => (drawAt d i).1 == c)
       = (List.range (popW 64 d)).filter (fun i => i == popW c d) := by
    apply List.filter_congr
    intro i hi
    have hi' : i < popW 64 d := List.mem_range.mp hi
    have := key i hi'
    by_cases h : i = popW c d
    · subst h; simpa using heq
    · have h1 : ((drawAt d i).1 == c) = false := by
        cases hh : ((drawAt d i).1 == c) with
        | false => rfl
        | true => exact absurd (this.mp hh) h
      simp [h1, h]
  rw [this]
  -- exactly one element of `range n` equals a given `k < n`
  have cnt : ∀ n k, k < n → ((List.range n).filter (fun i => i == k)).length = 1 := by
    intro n
    induction n with
    | zero => intro k hk; omega
    | succ n ih =>
      intro k hk
      rw [List.range_succ, List.filter_append, List.length_append]
      by_cases h : k < n
      · have hne : (n == k) = false := by simp; omega
        simp [ih k h, hne]
      · have hk' : k = n := by omega
        subst hk'
        have : (List.range k).filter (fun i => i == k) = [] := by
          apply List.filter_eq_nil_iff.mpr
          intro i hi
          have := List.mem_range.mp hi
          simp; omega
        simp [this]
  exact cnt _ _ hlt

/-- The whole `draw`: whatever raw random value is supplied, a card of the deck comes out. -/
theorem C14_draw_total (d r : Nat) (hne : 0 < popW 64 d) :
    d.testBit (draw d r).1 = true :=
  (C14_draw_mem d (r % popW 64 d) (Nat.mod_lt _ hne)).2

/-- The pinned off-by-one (`while ones < i`) is refuted by the model: that loop body runs `i`
times and starts from `card = tz deck`, i.e. index `i` yields the `(i-1)`-th card. -/
def drawLoopPinned (w : Nat) (d i : Nat) : Nat := drawLoop w d (i - 1)
example : drawLoopPinned 64 0b111 0 = drawLoopPinned 64 0b111 1 := by decide
example : ∀ i, i < 3 → drawLoopPinned 64 0b111 i ≠ 2 := by decide


/-! ## Sequences of draws from one kept deck (`Deck::hole`, `Deck::deal`, a whole hand) -/

/-- removing a card of the deck lowers the count by exactly one -/
theorem popW_remove (d d' c : Nat) (hb : d.testBit c = true)
    (h : ∀ j, d'.testBit j = (d.testBit j && !decide (j = c))) :
    ∀ w, popW w d' + (if c < w then 1 else 0) = popW w d := by
  intro w
  induction w with
  | zero => simp [popW]
  | succ w ih =>
    rw [popW_succ, popW_succ, h w]
    by_cases h1 : c < w
    · have : ¬ w = c := by omega
      have h2 : c < w + 1 := by omega
      simp [h1, h2, this] at ih ⊢; omega
    · by_cases h2 : w = c
      · subst h2; simp [hb] at ih ⊢; omega
      · have h3 : ¬ c < w + 1 := by omega
        simp [h1, h2, h3] at ih ⊢; omega

theorem drawAt_lt (d i : Nat) : (drawAt d i).2 ≤ d := by
  simp only [drawAt, remove]; exact Nat.and_le_left

theorem draw_size (d r : Nat) (hd : d < 2^64) (hne : 0 < popW 64 d) :
    popW 64 (draw d r).2 + 1 = popW 64 d := by
  have hi : r % popW 64 d < popW 64 d := Nat.mod_lt _ hne
  have hm := C14_draw_mem d _ hi
  have := popW_remove d (drawAt d (r % popW 64 d)).2 (drawAt d (r % popW 64 d)).1 hm.2
    (fun j => C14_draw_removes d _ j hd hi) 64
  simp only [hm.1, if_true] at this
  exact this

/-- **Never twice, along any sequence of draws from one deck**: whatever raw random values are
    used, `k` successive draws (a hole, a flop, every street of a hand dealt from one kept deck)
    return `k` pairwise different cards of the original deck, and the deck that remains is the
    original one without exactly those cards. -/
theorem C14_drawMany_spec : ∀ (rs : List Nat) (d : Nat) (cs : List Nat) (d' : Nat), d < 2^64 →
    drawMany d rs = some (cs, d') →
    cs.length = rs.length ∧ cs.Nodup ∧ (∀ c ∈ cs, c < 64 ∧ d.testBit c = true) ∧
    (∀ j, d'.testBit j = (d.testBit j && !decide (j ∈ cs))) ∧ d' < 2^64 := by
  intro rs
  induction rs with
  | nil =>
    intro d cs d' hd h
    simp only [drawMany, Option.some.injEq, Prod.mk.injEq] at h
    obtain ⟨rfl, rfl⟩ := h
    simp [hd]
  | cons r rs ih =>
    intro d cs d' hd h
    simp only [drawMany] at h
    by_cases h0 : popW 64 d = 0
    · simp [h0] at h
    · simp only [h0, if_false] at h
      cases hm : drawMany (draw d r).2 rs with
      | none => simp [hm] at h
      | some p =>
        obtain ⟨cs1, d1⟩ := p
        simp only [hm, Option.some.injEq, Prod.mk.injEq] at h
        obtain ⟨rfl, rfl⟩ := h
        have hi : r % popW 64 d < popW 64 d := Nat.mod_lt _ (Nat.pos_of_ne_zero h0)
        have hmem := C14_draw_mem d _ hi
        have hrem := fun j => C14_draw_removes d _ j hd hi
        have hd1 : (draw d r).2 < 2^64 := Nat.lt_of_le_of_lt (drawAt_lt d _) hd
        obtain ⟨hl, hnd, hin, hbits, hlt⟩ := ih (draw d r).2 cs1 d1 hd1 hm
        have hc_notin : (draw d r).1 ∉ cs1 := by
          intro hc
          have := (hin _ hc).2
          simp only [draw] at this
          rw [hrem] at this
          simp at this
        refine ⟨by simp [hl], List.nodup_cons.mpr ⟨hc_notin, hnd⟩, ?_, ?_, hlt⟩
        · intro c hc
          rcases List.mem_cons.mp hc with rfl | hc
          · exact hmem
          · have := hin c hc
            refine ⟨this.1, ?_⟩
            have h2 := this.2
            simp only [draw] at h2
            rw [hrem] at h2
            simp at h2
            exact h2.1
        · intro j
          rw [hbits j]
          simp only [draw]
          rw [hrem j]
          by_cases e1 : j = (drawAt d (r % popW 64 d)).1 <;> by_cases e2 : j ∈ cs1 <;>
            simp [e1, e2, List.mem_cons]

/-- **No abort while cards remain**: `k ≤ n` successive draws from a deck of `n` cards all succeed
    (the real `gen_range(0..n)` never sees an empty range) -/
theorem C14_drawMany_total : ∀ (rs : List Nat) (d : Nat), d < 2^64 → rs.length ≤ popW 64 d →
    (drawMany d rs).isSome = true := by
  intro rs
  induction rs with
  | nil => intro d _ _; simp [drawMany]
  | cons r rs ih =>
    intro d hd hl
    simp only [List.length_cons] at hl
    have hne : 0 < popW 64 d := by omega
    have hsz := draw_size d r hd hne
    have hd1 : (draw d r).2 < 2^64 := Nat.lt_of_le_of_lt (drawAt_lt d _) hd
    have := ih (draw d r).2 hd1 (by omega)
    simp only [drawMany, show popW 64 d ≠ 0 by omega, if_false]
    cases hm : drawMany (draw d r).2 rs with
    | none => simp [hm] at this
    | some p => simp

/-- the deck shrinks by exactly the number of cards dealt -/
theorem C14_drawMany_size : ∀ (rs : List Nat) (d : Nat) (cs : List Nat) (d' : Nat), d < 2^64 →
    drawMany d rs = some (cs, d') → popW 64 d' + rs.length = popW 64 d := by
  intro rs
  induction rs with
  | nil =>
    intro d cs d' _ h
    simp only [drawMany, Option.some.injEq, Prod.mk.injEq] at h
    simp [h.2]
  | cons r rs ih =>
    intro d cs d' hd h
    simp only [drawMany] at h
    by_cases h0 : popW 64 d = 0
    · simp [h0] at h
    · simp only [h0, if_false] at h
      cases hm : drawMany (draw d r).2 rs with
      | none => simp [hm] at h
      | some p =>
        obtain ⟨cs1, d1⟩ := p
        simp only [hm, Option.some.injEq, Prod.mk.injEq] at h
        obtain ⟨_, rfl⟩ := h
        have hd1 : (draw d r).2 < 2^64 := Nat.lt_of_le_of_lt (drawAt_lt d _) hd
        have := ih (draw d r).2 cs1 d1 hd1 hm
        have hsz := draw_size d r hd (Nat.pos_of_ne_zero h0)
        simp only [List.length_cons]; omega

-- non-vacuity: a whole hand dealt from one kept full deck with every raw value 0 takes the
-- nine lowest cards, two by two, then the flop, turn and river
example : dealRun (2^52 - 1) 0 = some ([0b11, 0b1100, 0b1110000, 0b10000000, 0b100000000], 2^52 - 2^9) := by decide
example : drawMany 0b101 [7, 7, 7] = none := by decide

-- non-vacuity: a full 52-card deck, index 51 draws card 51 (the ace of spades)
example : popW 64 (2^52 - 1) = 52 := by decide
example : (drawAt (2^52 - 1) 51).1 = 51 := by decide
example : (drawAt (2^52 - 1) 0) = (0, 2^52 - 2) := by decide

end RP.C14
