import RP.Model.Deck
/-! # C14 — Cards are dealt uniformly and never twice (deck part)

`drawAt deck i` is the model of `Deck::draw` with the uniform index fixed to `i`.
Theorems: for every 64-bit deck word and every index below its size the drawn card is
the `i`-th lowest remaining card; hence `i ↦ card` is a bijection between `{0..n-1}` and the
cards of the deck (a uniform index gives every remaining card probability `1/n`), and the
card is removed and nothing else. -/
namespace RP.C14
open RP.Bits RP.Deck

theorem drawLoop_even (w d i : Nat) (h : d % 2 = 0) :
    drawLoop (w+1) d i = drawLoop w (d / 2) i + 1 := by
  induction i generalizing d with
  | zero => simp [drawLoop, tzW, h]
  | succ i ih =>
    simp only [drawLoop]
    rw [clearLowest_even d h]
    have : (2 * clearLowest (d / 2)) % 2 = 0 := by omega
    rw [ih _ this]
    congr 2
    omega

/-- The card found for index `i` is set in the deck and has exactly `i` cards below it. -/
theorem drawLoop_spec (w : Nat) : ∀ d i, i < popW w d →
    (drawLoop w d i < w ∧ d.testBit (drawLoop w d i) = true ∧ popW (drawLoop w d i) d = i) := by
  induction w with
  | zero => intro d i h; simp [popW] at h
  | succ w ih =>
    intro d i h
    by_cases hb : d % 2 = 0
    · rw [drawLoop_even w d i hb]
      have hi : i < popW w (d / 2) := by simp only [popW, hb] at h; omega
      obtain ⟨h1, h2, h3⟩ := ih (d / 2) i hi
      refine ⟨by omega, ?_, ?_⟩
      · rw [Nat.testBit_succ]; exact h2
      · simp only [popW, hb, h3]; omega
    · have hb1 : d % 2 = 1 := by omega
      cases i with
      | zero =>
        simp only [drawLoop, tzW, hb1, if_true]
        refine ⟨by omega, ?_, by simp [popW]⟩
        simp [Nat.testBit_zero, hb1]
      | succ i =>
        simp only [drawLoop]
        rw [clearLowest_odd d hb1]
        have hev : (2 * (d / 2)) % 2 = 0 := by omega
        rw [drawLoop_even w _ i hev]
        have hh : 2 * (d / 2) / 2 = d / 2 := by omega
        rw [hh]
        have hi : i < popW w (d / 2) := by simp only [popW, hb1] at h; omega
        obtain ⟨h1, h2, h3⟩ := ih (d / 2) i hi
        refine ⟨by omega, ?_, ?_⟩
        · rw [Nat.testBit_succ]; exact h2
        · simp only [popW, hb1, h3]; omega

/-- **Injective**: different indices draw different cards. -/
theorem C14_draw_injective (d i j : Nat) (hi : i < popW 64 d) (hj : j < popW 64 d)
    (h : (drawAt d i).1 = (drawAt d j).1) : i = j := by
  have a := (drawLoop_spec 64 d i hi).2.2
  have b := (drawLoop_spec 64 d j hj).2.2
  simp only [drawAt] at h
  rw [h] at a; omega

/-- **Surjective**: every card of the deck is drawn by exactly the index counting the cards below it. -/
theorem C14_draw_surjective (d c : Nat) (hc : c < 64) (hb : d.testBit c = true) :
    popW c d < popW 64 d ∧ (drawAt d (popW c d)).1 = c := by
  have hlt := popW_lt_of_testBit hc hb
  obtain ⟨_, h2, h3⟩ := drawLoop_spec 64 d (popW c d) hlt
  exact ⟨hlt, testBit_rank_unique h2 hb h3⟩

/-- The drawn card is in the deck (never a card that was already removed). -/
theorem C14_draw_mem (d i : Nat) (hi : i < popW 64 d) :
    (drawAt d i).1 < 64 ∧ d.testBit (drawAt d i).1 = true :=
  ⟨(drawLoop_spec 64 d i hi).1, (drawLoop_spec 64 d i hi).2.1⟩

theorem testBit_not64_shift (c j : Nat) (hc : c < 64) :
    (not64 (1 <<< c)).testBit j = (decide (j < 64) && !decide (j = c)) := by
  unfold not64
  rw [Nat.testBit_xor, Nat.testBit_two_pow_sub_one, Nat.one_shiftLeft, Nat.testBit_two_pow]
  by_cases h1 : j < 64 <;> by_cases h2 : c = j <;> simp [h1, h2] <;> omega

/-- The remaining deck is the old deck without exactly the drawn card. -/
theorem C14_draw_removes (d i j : Nat) (hd : d < 2^64) (hi : i < popW 64 d) :
    (drawAt d i).2.testBit j = (d.testBit j && !decide (j = (drawAt d i).1)) := by
  have hc := (drawLoop_spec 64 d i hi).1
  simp only [drawAt, remove, Nat.testBit_and]
  rw [testBit_not64_shift _ _ hc]
  by_cases h1 : j < 64
  · by_cases h2 : j = drawLoop 64 d i <;> simp [h1, h2]
  · have : d.testBit j = false := Nat.testBit_lt_two_pow (Nat.lt_of_lt_of_le hd (Nat.pow_le_pow_right (by omega) (by omega)))
    simp [this]

/-- **Uniformity in counting form**: for every card `c` of the deck exactly one index `i < n`
    draws it — so with the index uniform on `{0,…,n-1}` each remaining card has probability `1/n`. -/
theorem C14_draw_exactly_one_index (d c : Nat) (hc : c < 64) (hb : d.testBit c = true) :
    ((List.range (popW 64 d)).filter (fun i => (drawAt d i).1 == c)).length = 1 := by
  obtain ⟨hlt, heq⟩ := C14_draw_surjective d c hc hb
  have key : ∀ i, i < popW 64 d → (((drawAt d i).1 == c) = true ↔ i = popW c d) := by
    intro i hi
    constructor
    · intro h
      have h' : (drawAt d i).1 = c := by simpa using h
      exact C14_draw_injective d i (popW c d) hi hlt (by rw [h', heq])
    · intro h; subst h; simpa using heq
  have : (List.range (popW 64 d)).filter (fun i => (drawAt d i).1 == c)
       = (List.range (popW 64 d)).filter (fun i => i == popW c d) := by
    apply List.filter_congr
    intro i hi
    have hi' : i < popW 64 d := List.mem_range.mp hi
    have := key i hi'
    by_cases h : i = popW c d
    · subst h; simpa using heq
    · have h1 : ((drawAt d i).1 == c) = false := by
        cases hh : ((drawAt d i).1 == c) with
        | false => rfl
        | true => exact absurd (this.mp hh) h
      simp [h1, h]
  rw [this]
  -- exactly one element of `range n` equals a given `k < n`
  have cnt : ∀ n k, k < n → ((List.range n).filter (fun i => i == k)).length = 1 := by
    intro n
    induction n with
    | zero => intro k hk; omega
    | succ n ih =>
      intro k hk
      rw [List.range_succ, List.filter_append, List.length_append]
      by_cases h : k < n
      · have hne : (n == k) = false := by simp; omega
        simp [ih k h, hne]
      · have hk' : k = n := by omega
        subst hk'
        have : (List.range k).filter (fun i => i == k) = [] := by
          apply List.filter_eq_nil_iff.mpr
          intro i hi
          have := List.mem_range.mp hi
          simp; omega
        simp [this]
  exact cnt _ _ hlt

/-- The whole `draw`: whatever raw random value is supplied, a card of the deck comes out. -/
theorem C14_draw_total (d r : Nat) (hne : 0 < popW 64 d) :
    d.testBit (draw d r).1 = true :=
  (C14_draw_mem d (r % popW 64 d) (Nat.mod_lt _ hne)).2

/-- The pinned off-by-one (`while ones < i`) is refuted by the model: that loop body runs `i`
times and starts from `card = tz deck`, i.e. index `i` yields the `(i-1)`-th card. -/
def drawLoopPinned (w : Nat) (d i : Nat) : Nat := drawLoop w d (i - 1)
example : drawLoopPinned 64 0b111 0 = drawLoopPinned 64 0b111 1 := by decide
example : ∀ i, i < 3 → drawLoopPinned 64 0b111 i ≠ 2 := by decide

-- non-vacuity: a full 52-card deck, index 51 draws card 51 (the ace of spades)
example : popW 64 (2^52 - 1) = 52 := by decide
example : (drawAt (2^52 - 1) 51).1 = 51 := by decide
example : (drawAt (2^52 - 1) 0) = (0, 2^52 - 2) := by decide

end RP.C14
