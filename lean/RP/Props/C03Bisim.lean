import RP.Spec.Nlhe
import RP.Props.C03
/-! # C03 ② — lockstep simulation between the engine model and the NLHE rules specification

`RP.Spec.Nlhe` is a history-carrying rules machine (per-street "has acted" flags, current bet,
last raise size from the history). `Rel g t` relates an engine state `g` (ticker, stakes,
memoryless min-raise) with a specification state `t`. Theorems:

* `rel_root`: the freshly dealt hands are related;
* `turn_rel`: related states have the same turn (same player to act / chance / hand over);
* `permitted_rel`: related states accept exactly the same actions, for every action kind and
  every integer amount — in particular `to_raise` (memoryless, from the two largest stakes)
  equals `outstanding + max lastRaise BB` (history-based) whenever a raise is possible;
* `rel_act`: every accepted action leads to related states again;
* `C03_bisim`: hence along *every* action list the engine and the specification accept or reject
  together and stay related (induction over the list). -/
namespace RP.C03
open RP.Game
open RP.Showdown (Status)
open RP.Spec.Nlhe (Table Player)

def seatRel (s : Seat) (p : Player) : Prop :=
  p.stack = s.stack ∧ p.bet = s.stake ∧ p.total = s.spent ∧
  p.folded = (s.state == Status.folding) ∧ p.hole = s.hole

/-- the simulation relation between the engine model and the rules specification -/
structure Rel (g : Game) (t : Table) : Prop where
  seat0 : seatRel g.s0 t.p0
  seat1 : seatRel g.s1 t.p1
  street_eq : t.street = street g
  board_eq : t.board = g.board
  curBet_eq : t.curBet = max g.s0.stake g.s1.stake
  acted : g.s0.state = Status.betting → g.s1.state = Status.betting →
    t.p1.acted = decide (thr g ≤ g.ticker) ∧ t.p0.acted = decide (thr g + 1 ≤ g.ticker)
  toAct_eq : isEveryoneAlright g = false → t.toAct = actorIdx g
  lastRaise_ok : isEveryoneAlright g = false → g.s0.state = Status.betting →
    g.s1.state = Status.betting →
    (g.ticker < thr g → t.lastRaise = 0) ∧
    ((t.lastRaise = toCall g ∧ 0 < toCall g) ∨ (t.lastRaise = 0 ∧ toCall g ≤ BB))

theorem actor_parity (g : Game) (hd : g.dealer = 0) :
    (g.ticker % 2 = 0 → actor g = g.s0 ∧ other g = g.s1 ∧ actorIdx g = 0) ∧
    (g.ticker % 2 = 1 → actor g = g.s1 ∧ other g = g.s0 ∧ actorIdx g = 1) := by
  unfold actor other actorIdx; rw [hd, n_eq]
  constructor <;> intro h <;> simp [h]

/-- a flat summary of `GameInv` in seat coordinates -/
theorem flat_inv {g : Game} (h : GameInv g) :
    PairInv g.s0 g.s1 ∧ g.pot = g.s0.spent + g.s1.spent ∧ g.dealer = 0 ∧ thr g - 1 ≤ g.ticker ∨
    (PairInv g.s0 g.s1 ∧ g.pot = g.s0.spent + g.s1.spent ∧ g.dealer = 0 ∧
      g.s0.state = Status.shoving ∧ g.s1.state = Status.shoving) := by
  obtain ⟨hp, hpot⟩ := seats_view h
  by_cases hs : street g = 0
  · left; have := h.tick_pre hs; rw [thr_eq]; simp [hs]; exact ⟨hp, hpot, h.dealer0, by omega⟩
  · rcases h.tick_post hs with h1 | ⟨ha, ho⟩
    · left; rw [thr_eq]; simp [hs]; exact ⟨hp, hpot, h.dealer0, by omega⟩
    · right
      refine ⟨hp, hpot, h.dealer0, ?_⟩
      rcases actor_other_cases g with ⟨e1, e2⟩ | ⟨e1, e2⟩
      · rw [← e1, ← e2]; exact ⟨ha, ho⟩
      · rw [← e1, ← e2]; exact ⟨ho, ha⟩

/-- nobody folded: "betting closed" in the specification is "everyone alright" in the engine -/
theorem closed_eq {g : Game} {t : Table} (h : GameInv g) (r : Rel g t)
    (n0 : g.s0.state ≠ Status.folding) (n1 : g.s1.state ≠ Status.folding) :
    RP.Spec.Nlhe.closed t = isEveryoneAlright g := by
  obtain ⟨hp, _⟩ := seats_view h
  obtain ⟨⟨a1, a2, a3, a4, a5⟩, ⟨b1, b2, b3, b4, b5⟩, _, _, hcur, hact, _, _⟩ := r
  obtain ⟨h1, h2, h3, h4, h5, h6, h7, h8, h9, h10, h11, h12, h13, h14, h15, h16, h17⟩ := hp
  unfold RP.Spec.Nlhe.closed RP.Spec.Nlhe.settled RP.Spec.Nlhe.canAct
  unfold isEveryoneAlright isEveryoneCalling isEveryoneFolding isEveryoneShoving isEveryoneMatched effectiveStake
  rw [touched_eq, a1, a2, a4, b1, b2, b4, hcur]
  cases hs0 : g.s0.state <;> cases hs1 : g.s1.state <;> simp_all
  · rw [Bool.eq_iff_iff]; simp; omega
  · have hlt : g.s0.stake < g.s1.stake := by omega
    have hm : max g.s0.stake g.s1.stake = g.s1.stake := by omega
    have hb : (g.s0.stake == g.s1.stake) = false := by simpa using (show ¬ g.s0.stake = g.s1.stake by omega)
    have e1 : (Status.betting == Status.folding) = false := rfl
    have e2 : (Status.betting == Status.shoving) = false := rfl
    simp [hm, hb, e1, e2]
  · have hlt : g.s1.stake < g.s0.stake := by omega
    have hm : max g.s0.stake g.s1.stake = g.s0.stake := by omega
    have hb : (g.s1.stake == g.s0.stake) = false := by simpa using (show ¬ g.s1.stake = g.s0.stake by omega)
    have e1 : (Status.betting == Status.folding) = false := rfl
    have e2 : (Status.betting == Status.shoving) = false := rfl
    simp [hm, hb, e1, e2]

def plyOf : Turn → RP.Spec.Nlhe.Ply
  | .terminal => .over
  | .chance => .deal
  | .choice i => .player i

theorem folded_eq {g : Game} {t : Table} (h : GameInv g) (r : Rel g t) :
    (t.p0.folded || t.p1.folded) = isEveryoneFolding g := by
  obtain ⟨hp, _⟩ := seats_view h
  have f0 := hp.foldA; have f1 := hp.foldO
  rw [r.seat0.2.2.2.1, r.seat1.2.2.2.1]
  unfold isEveryoneFolding
  cases hs0 : g.s0.state <;> cases hs1 : g.s1.state <;> simp_all

/-- **same turn**: the specification and the engine agree on who is to act / chance / hand over -/
theorem turn_rel {g : Game} {t : Table} (h : GameInv g) (r : Rel g t) :
    RP.Spec.Nlhe.turn t = plyOf (turn g) := by
  unfold RP.Spec.Nlhe.turn
  rw [folded_eq h r]
  by_cases hf : isEveryoneFolding g = true
  · have hs : mustStop g = true := by
      unfold mustStop isEveryoneAlright; by_cases h3 : street g = 3 <;> simp [h3, hf]
    simp [hf, turn, hs, plyOf]
  · have hf' : isEveryoneFolding g = false := by simpa using hf
    have n01 : g.s0.state ≠ Status.folding ∧ g.s1.state ≠ Status.folding := by
      obtain ⟨hp, _⟩ := seats_view h
      have f0 := hp.foldA; have f1 := hp.foldO
      unfold isEveryoneFolding at hf'
      cases hs0 : g.s0.state <;> cases hs1 : g.s1.state <;> simp_all
    rw [closed_eq h r n01.1 n01.2, r.street_eq]
    simp only [hf', Bool.false_eq_true, if_false]
    unfold turn mustStop mustDeal
    by_cases hal : isEveryoneAlright g = true
    · by_cases h3 : street g = 3 <;> simp [hal, h3, hf', plyOf]
    · have hal' : isEveryoneAlright g = false := by simpa using hal
      by_cases h3 : street g = 3 <;> simp [hal', h3, hf', plyOf, r.toAct_eq hal']

theorem actor_rel {g : Game} {t : Table} (r : Rel g t) (hna : isEveryoneAlright g = false) :
    seatRel (actor g) (RP.Spec.Nlhe.actor t) ∧ RP.Spec.Nlhe.outstanding t = toCall g := by
  have ht := r.toAct_eq hna
  unfold RP.Spec.Nlhe.outstanding RP.Spec.Nlhe.actor toCall effectiveStake actor
  rw [ht, r.curBet_eq]
  by_cases hi : actorIdx g = 0
  · simp only [hi, if_true]; exact ⟨r.seat0, by rw [r.seat0.2.1]⟩
  · simp only [hi, if_false]; exact ⟨r.seat1, by rw [r.seat1.2.1]⟩

theorem nRevealed_lt3 {s : Nat} (h : s < 3) : nRevealed s = if s = 0 then 3 else 1 := by
  obtain ⟨n0, n1, n2⟩ := nRevealed_vals
  have : s = 0 ∨ s = 1 ∨ s = 2 := by omega
  rcases this with rfl | rfl | rfl <;> simp [n0, n1, n2]

/-- **same permitted set**: in related states the rules machine permits exactly the actions the
engine accepts — in particular the engine's memoryless min-raise equals the history-based one -/
theorem permitted_rel {g : Game} {t : Table} (h : GameInv g) (r : Rel g t) (a : Action) :
    RP.Spec.Nlhe.permitted t a = isAllowed g a := by
  obtain ⟨mT, mC, mP⟩ := C03_memoryless h
  unfold RP.Spec.Nlhe.permitted
  rw [turn_rel h r]
  cases htg : turn g with
  | terminal => simp only [plyOf]; exact (mT htg a).symm
  | chance =>
    simp only [plyOf]
    obtain ⟨hs3, hiff⟩ := mC htg
    have hin : RP.Spec.Nlhe.inPlay t = inPlay g := by
      unfold RP.Spec.Nlhe.inPlay inPlay; rw [r.board_eq, r.seat0.2.2.2.2, r.seat1.2.2.2.2]
    cases a with
    | draw c =>
      rw [Bool.eq_iff_iff, hiff, hin, r.street_eq, ← nRevealed_lt3 hs3]
      simp only [Bool.and_eq_true, beq_iff_eq, decide_eq_true_eq]
      constructor
      · rintro ⟨⟨a, b⟩, d⟩; exact ⟨c, rfl, a, b, d⟩
      · rintro ⟨c', e, a, b, d⟩; cases e; exact ⟨⟨a, b⟩, d⟩
    | fold => symm; rw [Bool.eq_false_iff]; intro hc; obtain ⟨_, e, _⟩ := (hiff _).1 hc; cases e
    | check => symm; rw [Bool.eq_false_iff]; intro hc; obtain ⟨_, e, _⟩ := (hiff _).1 hc; cases e
    | call x => symm; rw [Bool.eq_false_iff]; intro hc; obtain ⟨_, e, _⟩ := (hiff _).1 hc; cases e
    | raise x => symm; rw [Bool.eq_false_iff]; intro hc; obtain ⟨_, e, _⟩ := (hiff _).1 hc; cases e
    | shove x => symm; rw [Bool.eq_false_iff]; intro hc; obtain ⟨_, e, _⟩ := (hiff _).1 hc; cases e
    | blind x => symm; rw [Bool.eq_false_iff]; intro hc; obtain ⟨_, e, _⟩ := (hiff _).1 hc; cases e
  | choice i =>
    simp only [plyOf]
    obtain ⟨_, hA, hO, hk, hcall, hc0, _, hiff⟩ := mP i htg
    have hna : isEveryoneAlright g = false := ((C03_turn g).2.2 i).1 htg |>.1
    obtain ⟨⟨q1, q2, q3, q4, q5⟩, hout⟩ := actor_rel r hna
    cases a with
    | draw c => symm; rw [Bool.eq_false_iff]; intro hc; exact (hiff _).1 hc
    | blind x => symm; rw [Bool.eq_false_iff]; intro hc; exact (hiff _).1 hc
    | fold => rw [Bool.eq_iff_iff, hiff, hout]; simp
    | check => rw [Bool.eq_iff_iff, hiff, hout]; simp
    | call x =>
      rw [Bool.eq_iff_iff, hiff, hout, q1]; simp only [Bool.and_eq_true, decide_eq_true_eq]
      constructor
      · rintro ⟨⟨a, b⟩, c⟩; exact ⟨a, b, c⟩
      · rintro ⟨a, b, c⟩; exact ⟨⟨a, b⟩, c⟩
    | shove x => rw [Bool.eq_iff_iff, hiff, q1]; simp
    | raise x =>
      rw [Bool.eq_iff_iff, hiff, hout, q1]; simp only [Bool.and_eq_true, decide_eq_true_eq]
      -- the history-based last raise against the memoryless one
      obtain ⟨hna2, _, hOs, hle, _, _, _, _⟩ := choice_view h hna
      obtain ⟨_, _, _, _, _, hdiff⟩ := choice_facts h.pair h.phase hna2
      have hp := h.pair
      rcases hOs with hOb | hOsh
      · -- both players can act: the relation pins the last raise
        have hb01 : g.s0.state = Status.betting ∧ g.s1.state = Status.betting := by
          rcases actor_other_cases g with ⟨e1, e2⟩ | ⟨e1, e2⟩
          · rw [← e1, ← e2]; exact ⟨hA, hOb⟩
          · rw [← e1, ← e2]; exact ⟨hOb, hA⟩
        obtain ⟨_, hl⟩ := r.lastRaise_ok hna hb01.1 hb01.2
        have hcs := consts_ok
        constructor
        · rintro ⟨a, b⟩; refine ⟨?_, b⟩; rcases hl with ⟨e, _⟩ | ⟨e, _⟩ <;> rw [e] at a <;> omega
        · rintro ⟨a, b⟩; refine ⟨?_, b⟩; rcases hl with ⟨e, _⟩ | ⟨e, _⟩ <;> rw [e] <;> omega
      · -- facing an all-in: no raise fits on either side
        have := hp.shoveO hOsh
        have hcs := consts_ok
        constructor
        · rintro ⟨a, b⟩; exfalso; omega
        · rintro ⟨a, b⟩; exfalso; omega

theorem dec_congr {p q : Prop} [Decidable p] [Decidable q] (h : p ↔ q) : decide p = decide q :=
  decide_eq_decide.2 h
theorem dec_true {p : Prop} [Decidable p] (h : p) : true = decide p := by simp [h]

theorem thr_even (g : Game) : thr g % 2 = 0 := by rw [thr_eq]; split <;> rfl

/-- at a choice node the ticker is at least "first to act on this street" -/
theorem lower_bound {g : Game} (h : GameInv g) (hA : (actor g).state = Status.betting) :
    thr g - 1 ≤ g.ticker := by
  rcases flat_inv h with ⟨_, _, _, hb⟩ | ⟨_, _, _, s0, s1⟩
  · exact hb
  · rcases actor_other_cases g with ⟨e1, _⟩ | ⟨e1, _⟩ <;> rw [e1] at hA <;> simp_all

theorem rel_raise {g : Game} {t : Table} (h : GameInv g) (r : Rel g t) {x : Int}
    (ha : isAllowed g (.raise x) = true) : Rel (act g (.raise x)) (RP.Spec.Nlhe.apply t (.raise x)) := by
  rw [(inv_raise h ha).1]
  obtain ⟨hna, hlo, hhi⟩ := (allowed_raise_iff h x).1 ha
  obtain ⟨hna2, hA, hO, hle, hk, hc, hr, hsv⟩ := choice_view h hna
  have hlo' : toRaise2 (actor g) (other g) ≤ x := by
    rw [← toRaise_eq h (by simp [hA]) (by rcases hO with h | h <;> simp [h]), hr]; exact hlo
  obtain ⟨hOb, hal, hp', hph⟩ := raise_pair h.pair h.phase hna2 hlo' hhi
  have hlb := lower_bound h hA
  have hd := h.dealer0
  have hte := thr_even g
  have htoAct := r.toAct_eq hna
  have hp := h.pair
  obtain ⟨⟨a1, a2, a3, a4, a5⟩, ⟨b1, b2, b3, b4, b5⟩, hst, hbd, hcur, hact, _, hlr⟩ := r
  have hcs := consts_ok
  obtain ⟨pa0, pa1⟩ := actor_parity g hd
  rcases Nat.mod_two_eq_zero_or_one g.ticker with hpar | hpar
  · obtain ⟨eA, eO, eI⟩ := pa0 hpar
    rw [eA] at hA hk hhi; rw [eO] at hOb; rw [eA, eO] at hle hp
    rw [eI] at htoAct
    rw [hc, eA, eO] at hlo
    obtain ⟨fb1, fb0⟩ := hact (by first | exact hA | exact hOb) (by first | exact hOb | exact hA)
    have hx : g.s0.stack - x ≠ 0 := by omega
    have hcan : RP.Spec.Nlhe.canAct t.p1 = true := by
      unfold RP.Spec.Nlhe.canAct; rw [b4, b1, hOb]; have := hp.betO hOb; simp; omega
    have hg0 : (tick (bet g x)).s0 = g.s0.bet x := by simp [tick, bet, eI]
    have hg1 : (tick (bet g x)).s1 = g.s1 := by simp [tick, bet, eI]
    have ht' : RP.Spec.Nlhe.apply t (.raise x) =
        { t with p0 := t.p0.put x, lastRaise := (t.p0.put x).bet - t.curBet, curBet := (t.p0.put x).bet, toAct := 1 } := by
      simp [RP.Spec.Nlhe.apply, RP.Spec.Nlhe.actor, RP.Spec.Nlhe.setActor, RP.Spec.Nlhe.pass, htoAct, hcan]
    have hidx' : actorIdx (tick (bet g x)) = 1 := by
      unfold actorIdx; simp only [tick_dealer, tick_ticker, bet_dealer, bet_ticker, hd, n_eq]; omega
    rw [ht']
    refine ⟨?s0, ?s1, ?_, ?_, ?_, ?_, ?_, ?_⟩
    case s0 => rw [hg0]; simp [seatRel, RP.Spec.Nlhe.Player.put, Seat.bet, a1, a2, a3, a4, a5, hx, hA]
    case s1 => rw [hg1]; exact ⟨b1, b2, b3, b4, b5⟩
    · exact hst
    · exact hbd
    · rw [hg0, hg1]; simp only [RP.Spec.Nlhe.Player.put, Seat.bet, a2]; omega
    · rw [hg0, hg1]; intro _ _
      simp only [RP.Spec.Nlhe.Player.put, thr_tick, thr_bet, tick_ticker, bet_ticker, fb1, fb0]
      constructor <;> first | exact dec_congr (by omega) | exact dec_true (by omega)
    · intro _; simp only [hidx']
    · rw [hg0, hg1]; intro _ _ _
      have htc : toCall (tick (bet g x)) = g.s0.stake + x - g.s1.stake := by
        unfold toCall effectiveStake actor; rw [hidx', hg0, hg1]; simp [Seat.bet]; omega
      rw [htc]
      simp only [RP.Spec.Nlhe.Player.put, thr_tick, thr_bet, tick_ticker, bet_ticker, a2, hcur]
      refine ⟨fun hh => by omega, Or.inl ⟨by omega, by omega⟩⟩
  · obtain ⟨eA, eO, eI⟩ := pa1 hpar
    rw [eA] at hA hk hhi; rw [eO] at hOb; rw [eA, eO] at hle hp
    rw [eI] at htoAct
    rw [hc, eA, eO] at hlo
    obtain ⟨fb1, fb0⟩ := hact (by first | exact hA | exact hOb) (by first | exact hOb | exact hA)
    have hx : g.s1.stack - x ≠ 0 := by omega
    have hcan : RP.Spec.Nlhe.canAct t.p0 = true := by
      unfold RP.Spec.Nlhe.canAct; rw [a4, a1, hOb]; have := hp.betO hOb; simp; omega
    have hg0 : (tick (bet g x)).s1 = g.s1.bet x := by simp [tick, bet, eI]
    have hg1 : (tick (bet g x)).s0 = g.s0 := by simp [tick, bet, eI]
    have ht' : RP.Spec.Nlhe.apply t (.raise x) =
        { t with p1 := t.p1.put x, lastRaise := (t.p1.put x).bet - t.curBet, curBet := (t.p1.put x).bet, toAct := 0 } := by
      simp [RP.Spec.Nlhe.apply, RP.Spec.Nlhe.actor, RP.Spec.Nlhe.setActor, RP.Spec.Nlhe.pass, htoAct, hcan]
    have hidx' : actorIdx (tick (bet g x)) = 0 := by
      unfold actorIdx; simp only [tick_dealer, tick_ticker, bet_dealer, bet_ticker, hd, n_eq]; omega
    rw [ht']
    refine ⟨?s0, ?s1, ?_, ?_, ?_, ?_, ?_, ?_⟩
    case s1 => rw [hg0]; simp [seatRel, RP.Spec.Nlhe.Player.put, Seat.bet, b1, b2, b3, b4, b5, hx, hA]
    case s0 => rw [hg1]; exact ⟨a1, a2, a3, a4, a5⟩
    · exact hst
    · exact hbd
    · rw [hg0, hg1]; simp only [RP.Spec.Nlhe.Player.put, Seat.bet, b2]; omega
    · rw [hg0, hg1]; intro _ _
      simp only [RP.Spec.Nlhe.Player.put, thr_tick, thr_bet, tick_ticker, bet_ticker, fb1, fb0]
      constructor <;> first | exact dec_congr (by omega) | exact dec_true (by omega)
    · intro _; simp only [hidx']
    · rw [hg0, hg1]; intro _ _ _
      have htc : toCall (tick (bet g x)) = g.s1.stake + x - g.s0.stake := by
        unfold toCall effectiveStake actor; rw [hidx', hg0, hg1]; simp [Seat.bet]; omega
      rw [htc]
      simp only [RP.Spec.Nlhe.Player.put, thr_tick, thr_bet, tick_ticker, bet_ticker, b2, hcur]
      refine ⟨fun hh => by omega, Or.inl ⟨by omega, by omega⟩⟩

theorem rel_check {g : Game} {t : Table} (h : GameInv g) (r : Rel g t)
    (ha : isAllowed g .check = true) : Rel (act g .check) (RP.Spec.Nlhe.apply t .check) := by
  rw [(inv_check h ha).1]
  obtain ⟨hna, hz⟩ := (allowed_check_iff h).1 ha
  obtain ⟨hna2, hA, hO, hle, hk, hc, hr, hsv⟩ := choice_view h hna
  obtain ⟨hOb, _, _, _⟩ := check_pair h.pair h.phase hna2 (by omega)
  have hlb := lower_bound h hA
  have hz0 := hz
  rw [hc] at hz
  have hd := h.dealer0
  have hte := thr_even g
  have htoAct := r.toAct_eq hna
  have hp := h.pair
  obtain ⟨⟨a1, a2, a3, a4, a5⟩, ⟨b1, b2, b3, b4, b5⟩, hst, hbd, hcur, hact, _, hlr⟩ := r
  have hcs := consts_ok
  obtain ⟨pa0, pa1⟩ := actor_parity g hd
  rcases Nat.mod_two_eq_zero_or_one g.ticker with hpar | hpar
  · obtain ⟨eA, eO, eI⟩ := pa0 hpar
    rw [eA] at hA hk; rw [eO] at hOb; rw [eA, eO] at hle hp hc hz
    rw [eI] at htoAct
    obtain ⟨fb1, fb0⟩ := hact (by first | exact hA | exact hOb) (by first | exact hOb | exact hA)
    obtain ⟨_, hl⟩ := hlr hna (by first | exact hA | exact hOb) (by first | exact hOb | exact hA)
    have hcan : RP.Spec.Nlhe.canAct t.p1 = true := by
      unfold RP.Spec.Nlhe.canAct; rw [b4, b1, hOb]; have := hp.betO hOb; simp; omega
    have ht' : RP.Spec.Nlhe.apply t .check = { t with p0 := { t.p0 with acted := true }, toAct := 1 } := by
      simp [RP.Spec.Nlhe.apply, RP.Spec.Nlhe.actor, RP.Spec.Nlhe.setActor, RP.Spec.Nlhe.pass, htoAct, hcan]
    have hidx' : actorIdx (tick g) = 1 := by
      unfold actorIdx; simp only [tick_dealer, tick_ticker, hd, n_eq]; omega
    rw [ht']
    refine ⟨?s0, ?s1, ?_, ?_, ?_, ?_, ?_, ?_⟩
    case s0 => exact ⟨a1, a2, a3, a4, a5⟩
    case s1 => exact ⟨b1, b2, b3, b4, b5⟩
    · exact hst
    · exact hbd
    · exact hcur
    · intro _ _
      simp only [thr_tick, tick_ticker, fb1, fb0]
      constructor <;> first | exact dec_congr (by omega) | exact dec_true (by omega)
    · intro _; simp only [hidx']
    · intro _ _ _
      have htc : toCall (tick g) = 0 := by
        unfold toCall effectiveStake actor; rw [hidx']; simp only [tick_s0, tick_s1]; simp; omega
      rw [htc]
      simp only [thr_tick, tick_ticker]
      refine ⟨fun hh => by omega, Or.inr ⟨?_, by omega⟩⟩
      rcases hl with ⟨_, e⟩ | ⟨e, _⟩
      · omega
      · exact e
  · obtain ⟨eA, eO, eI⟩ := pa1 hpar
    rw [eA] at hA hk; rw [eO] at hOb; rw [eA, eO] at hle hp hc hz
    rw [eI] at htoAct
    obtain ⟨fb1, fb0⟩ := hact (by first | exact hA | exact hOb) (by first | exact hOb | exact hA)
    obtain ⟨_, hl⟩ := hlr hna (by first | exact hA | exact hOb) (by first | exact hOb | exact hA)
    have hcan : RP.Spec.Nlhe.canAct t.p0 = true := by
      unfold RP.Spec.Nlhe.canAct; rw [a4, a1, hOb]; have := hp.betO hOb; simp; omega
    have ht' : RP.Spec.Nlhe.apply t .check = { t with p1 := { t.p1 with acted := true }, toAct := 0 } := by
      simp [RP.Spec.Nlhe.apply, RP.Spec.Nlhe.actor, RP.Spec.Nlhe.setActor, RP.Spec.Nlhe.pass, htoAct, hcan]
    have hidx' : actorIdx (tick g) = 0 := by
      unfold actorIdx; simp only [tick_dealer, tick_ticker, hd, n_eq]; omega
    rw [ht']
    refine ⟨?s0, ?s1, ?_, ?_, ?_, ?_, ?_, ?_⟩
    case s1 => exact ⟨b1, b2, b3, b4, b5⟩
    case s0 => exact ⟨a1, a2, a3, a4, a5⟩
    · exact hst
    · exact hbd
    · exact hcur
    · intro _ _
      simp only [thr_tick, tick_ticker, fb1, fb0]
      constructor <;> first | exact dec_congr (by omega) | exact dec_true (by omega)
    · intro _; simp only [hidx']
    · intro _ _ _
      have htc : toCall (tick g) = 0 := by
        unfold toCall effectiveStake actor; rw [hidx']; simp only [tick_s0, tick_s1]; simp; omega
      rw [htc]
      simp only [thr_tick, tick_ticker]
      refine ⟨fun hh => by omega, Or.inr ⟨?_, by omega⟩⟩
      rcases hl with ⟨_, e⟩ | ⟨e, _⟩
      · omega
      · exact e

theorem rel_call {g : Game} {t : Table} (h : GameInv g) (r : Rel g t) {x : Int}
    (ha : isAllowed g (.call x) = true) : Rel (act g (.call x)) (RP.Spec.Nlhe.apply t (.call x)) := by
  obtain ⟨hact', hinv'⟩ := inv_call h ha
  rw [hact']
  obtain ⟨hna, hx, hpos, hlt⟩ := (allowed_call_iff h x).1 ha
  obtain ⟨hna2, hA, hO, hle, hk, hc, hr, hsv⟩ := choice_view h hna
  have hx' : x = max (actor g).stake (other g).stake - (actor g).stake := by rw [hx, toCall_eq]
  obtain ⟨hOb, hal, _, _, _, _⟩ := call_pair h.pair h.phase hna2 hx' (by omega) (by omega)
  have hal1 : isEveryoneAlright (bet g x) = decide (g.ticker > thr g) := by rw [alright_bet]; exact hal _
  have hlb := lower_bound h hA
  rw [hc] at hx hpos hlt
  have hd := h.dealer0
  have hte := thr_even g
  have htoAct := r.toAct_eq hna
  have hp := h.pair
  obtain ⟨⟨a1, a2, a3, a4, a5⟩, ⟨b1, b2, b3, b4, b5⟩, hst, hbd, hcur, hact, _, hlr⟩ := r
  have hcs := consts_ok
  obtain ⟨pa0, pa1⟩ := actor_parity g hd
  rcases Nat.mod_two_eq_zero_or_one g.ticker with hpar | hpar
  · obtain ⟨eA, eO, eI⟩ := pa0 hpar
    rw [eA] at hA hk; rw [eO] at hOb; rw [eA, eO] at hle hp hc hx hpos hlt
    rw [eI] at htoAct
    obtain ⟨fb1, fb0⟩ := hact (by first | exact hA | exact hOb) (by first | exact hOb | exact hA)
    obtain ⟨hl0, hl⟩ := hlr hna (by first | exact hA | exact hOb) (by first | exact hOb | exact hA)
    have hx0 : g.s0.stack - x ≠ 0 := by omega
    have hcan : RP.Spec.Nlhe.canAct t.p1 = true := by
      unfold RP.Spec.Nlhe.canAct; rw [b4, b1, hOb]; have := hp.betO hOb; simp; omega
    have ht' : RP.Spec.Nlhe.apply t (.call x) = { t with p0 := t.p0.put x, toAct := 1 } := by
      simp [RP.Spec.Nlhe.apply, RP.Spec.Nlhe.actor, RP.Spec.Nlhe.setActor, RP.Spec.Nlhe.pass, htoAct, hcan]
    rw [ht']
    by_cases htk : g.ticker > thr g
    · simp only [htk, if_true] at hinv' ⊢
      have hg0 : (bet g x).s0 = g.s0.bet x := by simp [bet, eI]
      have hg1 : (bet g x).s1 = g.s1 := by simp [bet, eI]
      have hal' : isEveryoneAlright (bet g x) = true := by rw [hal1]; simp [htk]
      refine ⟨?s0, ?s1, ?_, ?_, ?_, ?_, ?_, ?_⟩
      case s0 => rw [hg0]; simp [seatRel, RP.Spec.Nlhe.Player.put, Seat.bet, a1, a2, a3, a4, a5, hx0, hA]
      case s1 => rw [hg1]; exact ⟨b1, b2, b3, b4, b5⟩
      · exact hst
      · exact hbd
      · rw [hg0, hg1]; simp only [Seat.bet]; rw [hcur]; omega
      · rw [hg0, hg1]; intro _ _
        simp only [RP.Spec.Nlhe.Player.put, thr_bet, bet_ticker, fb1, fb0]
        constructor <;> first | exact dec_congr (by omega) | exact dec_true (by omega)
      · intro hh; rw [hal'] at hh; cases hh
      · intro hh; rw [hal'] at hh; cases hh
    · simp only [htk, if_false] at hinv' ⊢
      have hg0 : (tick (bet g x)).s0 = g.s0.bet x := by simp [tick, bet, eI]
      have hg1 : (tick (bet g x)).s1 = g.s1 := by simp [tick, bet, eI]
      have hidx' : actorIdx (tick (bet g x)) = 1 := by
        unfold actorIdx; simp only [tick_dealer, tick_ticker, bet_dealer, bet_ticker, hd, n_eq]; omega
      refine ⟨?s0, ?s1, ?_, ?_, ?_, ?_, ?_, ?_⟩
      case s0 => rw [hg0]; simp [seatRel, RP.Spec.Nlhe.Player.put, Seat.bet, a1, a2, a3, a4, a5, hx0, hA]
      case s1 => rw [hg1]; exact ⟨b1, b2, b3, b4, b5⟩
      · exact hst
      · exact hbd
      · rw [hg0, hg1]; simp only [Seat.bet]; rw [hcur]; omega
      · rw [hg0, hg1]; intro _ _
        simp only [RP.Spec.Nlhe.Player.put, thr_tick, thr_bet, tick_ticker, bet_ticker, fb1, fb0]
        constructor <;> first | exact dec_congr (by omega) | exact dec_true (by omega)
      · intro _; simp only [hidx']
      · intro hna' _ _
        have htc : toCall (tick (bet g x)) = 0 := by
          unfold toCall effectiveStake actor; rw [hidx', hg0, hg1]; simp [Seat.bet]; omega
        -- the street is still open although bets are matched: the caller was first to act
        have hph' := hinv'.phase
        rw [alright_eq] at hna'
        obtain ⟨_, _, _, hstrict⟩ := hph' hna'
        have hstk : (actor (tick (bet g x))).stake = (other (tick (bet g x))).stake := by
          unfold actor other; rw [hidx', hg0, hg1]; simp [Seat.bet]; omega
        have hnt : ¬ (tick (bet g x)).ticker > thr (tick (bet g x)) := by
          intro hgt; have := hstrict (by simpa using hgt); omega
        simp only [tick_ticker, bet_ticker, thr_tick, thr_bet] at hnt
        rw [htc]
        simp only [thr_tick, thr_bet, tick_ticker, bet_ticker]
        refine ⟨fun hh => by omega, Or.inr ⟨hl0 (by omega), by omega⟩⟩
  · obtain ⟨eA, eO, eI⟩ := pa1 hpar
    rw [eA] at hA hk; rw [eO] at hOb; rw [eA, eO] at hle hp hc hx hpos hlt
    rw [eI] at htoAct
    obtain ⟨fb1, fb0⟩ := hact (by first | exact hA | exact hOb) (by first | exact hOb | exact hA)
    obtain ⟨hl0, hl⟩ := hlr hna (by first | exact hA | exact hOb) (by first | exact hOb | exact hA)
    have hx0 : g.s1.stack - x ≠ 0 := by omega
    have hcan : RP.Spec.Nlhe.canAct t.p0 = true := by
      unfold RP.Spec.Nlhe.canAct; rw [a4, a1, hOb]; have := hp.betO hOb; simp; omega
    have ht' : RP.Spec.Nlhe.apply t (.call x) = { t with p1 := t.p1.put x, toAct := 0 } := by
      simp [RP.Spec.Nlhe.apply, RP.Spec.Nlhe.actor, RP.Spec.Nlhe.setActor, RP.Spec.Nlhe.pass, htoAct, hcan]
    rw [ht']
    by_cases htk : g.ticker > thr g
    · simp only [htk, if_true] at hinv' ⊢
      have hg0 : (bet g x).s1 = g.s1.bet x := by simp [bet, eI]
      have hg1 : (bet g x).s0 = g.s0 := by simp [bet, eI]
      have hal' : isEveryoneAlright (bet g x) = true := by rw [hal1]; simp [htk]
      refine ⟨?s0, ?s1, ?_, ?_, ?_, ?_, ?_, ?_⟩
      case s1 => rw [hg0]; simp [seatRel, RP.Spec.Nlhe.Player.put, Seat.bet, b1, b2, b3, b4, b5, hx0, hA]
      case s0 => rw [hg1]; exact ⟨a1, a2, a3, a4, a5⟩
      · exact hst
      · exact hbd
      · rw [hg0, hg1]; simp only [Seat.bet]; rw [hcur]; omega
      · rw [hg0, hg1]; intro _ _
        simp only [RP.Spec.Nlhe.Player.put, thr_bet, bet_ticker, fb1, fb0]
        constructor <;> first | exact dec_congr (by omega) | exact dec_true (by omega)
      · intro hh; rw [hal'] at hh; cases hh
      · intro hh; rw [hal'] at hh; cases hh
    · simp only [htk, if_false] at hinv' ⊢
      have hg0 : (tick (bet g x)).s1 = g.s1.bet x := by simp [tick, bet, eI]
      have hg1 : (tick (bet g x)).s0 = g.s0 := by simp [tick, bet, eI]
      have hidx' : actorIdx (tick (bet g x)) = 0 := by
        unfold actorIdx; simp only [tick_dealer, tick_ticker, bet_dealer, bet_ticker, hd, n_eq]; omega
      refine ⟨?s0, ?s1, ?_, ?_, ?_, ?_, ?_, ?_⟩
      case s1 => rw [hg0]; simp [seatRel, RP.Spec.Nlhe.Player.put, Seat.bet, b1, b2, b3, b4, b5, hx0, hA]
      case s0 => rw [hg1]; exact ⟨a1, a2, a3, a4, a5⟩
      · exact hst
      · exact hbd
      · rw [hg0, hg1]; simp only [Seat.bet]; rw [hcur]; omega
      · rw [hg0, hg1]; intro _ _
        simp only [RP.Spec.Nlhe.Player.put, thr_tick, thr_bet, tick_ticker, bet_ticker, fb1, fb0]
        constructor <;> first | exact dec_congr (by omega) | exact dec_true (by omega)
      · intro _; simp only [hidx']
      · intro hna' _ _
        have htc : toCall (tick (bet g x)) = 0 := by
          unfold toCall effectiveStake actor; rw [hidx', hg0, hg1]; simp [Seat.bet]; omega
        -- the street is still open although bets are matched: the caller was first to act
        have hph' := hinv'.phase
        rw [alright_eq] at hna'
        obtain ⟨_, _, _, hstrict⟩ := hph' hna'
        have hstk : (actor (tick (bet g x))).stake = (other (tick (bet g x))).stake := by
          unfold actor other; rw [hidx', hg0, hg1]; simp [Seat.bet]; omega
        have hnt : ¬ (tick (bet g x)).ticker > thr (tick (bet g x)) := by
          intro hgt; have := hstrict (by simpa using hgt); omega
        simp only [tick_ticker, bet_ticker, thr_tick, thr_bet] at hnt
        rw [htc]
        simp only [thr_tick, thr_bet, tick_ticker, bet_ticker]
        refine ⟨fun hh => by omega, Or.inr ⟨hl0 (by omega), by omega⟩⟩

theorem rel_shove {g : Game} {t : Table} (h : GameInv g) (r : Rel g t) {x : Int}
    (ha : isAllowed g (.shove x) = true) : Rel (act g (.shove x)) (RP.Spec.Nlhe.apply t (.shove x)) := by
  rw [(inv_shove h ha).1]
  obtain ⟨hna, hx⟩ := (allowed_shove_iff h x).1 ha
  subst hx
  obtain ⟨hna2, hA, hO, hle, hk, hc, hr, hsv⟩ := choice_view h hna
  obtain ⟨_, _, _, _, _, hdiff⟩ := choice_facts h.pair h.phase hna2
  obtain ⟨hst', halS, halB, _, _, _, _⟩ := shove_pair h.pair h.phase hna2
  have hd := h.dealer0
  have hte := thr_even g
  have htoAct := r.toAct_eq hna
  have hp := h.pair
  obtain ⟨⟨a1, a2, a3, a4, a5⟩, ⟨b1, b2, b3, b4, b5⟩, hst, hbd, hcur, hact, _, hlr⟩ := r
  have hcs := consts_ok
  obtain ⟨pa0, pa1⟩ := actor_parity g hd
  rcases Nat.mod_two_eq_zero_or_one g.ticker with hpar | hpar
  · obtain ⟨eA, eO, eI⟩ := pa0 hpar
    rw [eA] at hA hk hst' ; rw [eO] at hO; rw [eA, eO] at hle hp hc hdiff halS halB
    rw [eI] at htoAct
    have hxe : g.s0.stack - g.s0.stack = 0 := by omega
    have hput : (t.p0.put g.s0.stack).bet = g.s0.stake + g.s0.stack := by simp [RP.Spec.Nlhe.Player.put, a2]
    have hge : g.s1.stake ≤ g.s0.stake + g.s0.stack := by have := hp.stackO; omega
    rw [eA]
    by_cases hS : g.s1.state = Status.shoving
    · have hSo : (other g).state = Status.shoving := by rw [eO]; exact hS
      simp only [hSo, if_true]
      have hg0 : (bet g g.s0.stack).s0 = g.s0.bet g.s0.stack := by simp [bet, eI]
      have hg1 : (bet g g.s0.stack).s1 = g.s1 := by simp [bet, eI]
      have hal' : isEveryoneAlright (bet g g.s0.stack) = true := by
        rw [alright_bet, eA, eO]; exact halS hS _
      have hnb : ¬ (g.s0.bet g.s0.stack).state = Status.betting := by rw [hst']; simp
      have hseat : seatRel (g.s0.bet g.s0.stack) (t.p0.put g.s0.stack) := by
        simp [seatRel, RP.Spec.Nlhe.Player.put, Seat.bet, a1, a2, a3, a4, a5, hA]
        rfl
      unfold RP.Spec.Nlhe.apply
      simp only [RP.Spec.Nlhe.actor, htoAct, if_true, if_false, Nat.one_ne_zero]
      split <;> unfold RP.Spec.Nlhe.pass <;> simp only [RP.Spec.Nlhe.setActor, htoAct, if_true, if_false, Nat.one_ne_zero] <;> split <;>
      · refine ⟨?s0, ?s1, ?_, ?_, ?_, ?_, ?_, ?_⟩
        case s0 => rw [hg0]; exact hseat
        case s1 => rw [hg1]; exact ⟨b1, b2, b3, b4, b5⟩
        · exact hst
        · exact hbd
        · rw [hg0, hg1]; simp only [Seat.bet]; simp only [hput, hcur] at *; omega
        · rw [hg0, hg1]; intro _ _; simp_all
        · intro hh; rw [hal'] at hh; cases hh
        · intro hh; rw [hal'] at hh; cases hh
    · have hB : g.s1.state = Status.betting := by rcases hO with h | h; exact h; exact absurd h hS
      have hSo : ¬ (other g).state = Status.shoving := by rw [eO]; exact hS
      simp only [hSo, if_false]
      have hg0 : (tick (bet g g.s0.stack)).s0 = g.s0.bet g.s0.stack := by simp [tick, bet, eI]
      have hg1 : (tick (bet g g.s0.stack)).s1 = g.s1 := by simp [tick, bet, eI]
      have hidx' : actorIdx (tick (bet g g.s0.stack)) = 1 := by
        unfold actorIdx; simp only [tick_dealer, tick_ticker, bet_dealer, bet_ticker, hd, n_eq]; omega
      have hcan : RP.Spec.Nlhe.canAct t.p1 = true := by
        unfold RP.Spec.Nlhe.canAct; rw [b4, b1, hB]; have := hp.betO hB; simp; omega
      have hnb : ¬ (g.s0.bet g.s0.stack).state = Status.betting := by rw [hst']; simp
      have hseat : seatRel (g.s0.bet g.s0.stack) (t.p0.put g.s0.stack) := by
        simp [seatRel, RP.Spec.Nlhe.Player.put, Seat.bet, a1, a2, a3, a4, a5, hA]
        rfl
      unfold RP.Spec.Nlhe.apply
      simp only [RP.Spec.Nlhe.actor, htoAct, if_true, if_false, Nat.one_ne_zero]
      split <;> unfold RP.Spec.Nlhe.pass <;> simp only [RP.Spec.Nlhe.setActor, htoAct, if_true, if_false, Nat.one_ne_zero, hcan] <;>
      · refine ⟨?s0, ?s1, ?_, ?_, ?_, ?_, ?_, ?_⟩
        case s0 => rw [hg0]; exact hseat
        case s1 => rw [hg1]; exact ⟨b1, b2, b3, b4, b5⟩
        · exact hst
        · exact hbd
        · rw [hg0, hg1]; simp only [Seat.bet]; simp only [hput, hcur] at *; omega
        · rw [hg0, hg1]; intro _ _; simp_all
        · intro _; simp only [hidx']
        · rw [hg0, hg1]; intro _ _ _; simp_all
  · obtain ⟨eA, eO, eI⟩ := pa1 hpar
    rw [eA] at hA hk hst' ; rw [eO] at hO; rw [eA, eO] at hle hp hc hdiff halS halB
    rw [eI] at htoAct
    have hxe : g.s1.stack - g.s1.stack = 0 := by omega
    have hput : (t.p1.put g.s1.stack).bet = g.s1.stake + g.s1.stack := by simp [RP.Spec.Nlhe.Player.put, b2]
    have hge : g.s0.stake ≤ g.s1.stake + g.s1.stack := by have := hp.stackO; omega
    rw [eA]
    by_cases hS : g.s0.state = Status.shoving
    · have hSo : (other g).state = Status.shoving := by rw [eO]; exact hS
      simp only [hSo, if_true]
      have hg0 : (bet g g.s1.stack).s1 = g.s1.bet g.s1.stack := by simp [bet, eI]
      have hg1 : (bet g g.s1.stack).s0 = g.s0 := by simp [bet, eI]
      have hal' : isEveryoneAlright (bet g g.s1.stack) = true := by
        rw [alright_bet, eA, eO]; exact halS hS _
      have hnb : ¬ (g.s1.bet g.s1.stack).state = Status.betting := by rw [hst']; simp
      have hseat : seatRel (g.s1.bet g.s1.stack) (t.p1.put g.s1.stack) := by
        simp [seatRel, RP.Spec.Nlhe.Player.put, Seat.bet, b1, b2, b3, b4, b5, hA]
        rfl
      unfold RP.Spec.Nlhe.apply
      simp only [RP.Spec.Nlhe.actor, htoAct, if_true, if_false, Nat.one_ne_zero]
      split <;> unfold RP.Spec.Nlhe.pass <;> simp only [RP.Spec.Nlhe.setActor, htoAct, if_true, if_false, Nat.one_ne_zero] <;> split <;>
      · refine ⟨?s0, ?s1, ?_, ?_, ?_, ?_, ?_, ?_⟩
        case s1 => rw [hg0]; exact hseat
        case s0 => rw [hg1]; exact ⟨a1, a2, a3, a4, a5⟩
        · exact hst
        · exact hbd
        · rw [hg0, hg1]; simp only [Seat.bet]; simp only [hput, hcur] at *; omega
        · rw [hg0, hg1]; intro _ _; simp_all
        · intro hh; rw [hal'] at hh; cases hh
        · intro hh; rw [hal'] at hh; cases hh
    · have hB : g.s0.state = Status.betting := by rcases hO with h | h; exact h; exact absurd h hS
      have hSo : ¬ (other g).state = Status.shoving := by rw [eO]; exact hS
      simp only [hSo, if_false]
      have hg0 : (tick (bet g g.s1.stack)).s1 = g.s1.bet g.s1.stack := by simp [tick, bet, eI]
      have hg1 : (tick (bet g g.s1.stack)).s0 = g.s0 := by simp [tick, bet, eI]
      have hidx' : actorIdx (tick (bet g g.s1.stack)) = 0 := by
        unfold actorIdx; simp only [tick_dealer, tick_ticker, bet_dealer, bet_ticker, hd, n_eq]; omega
      have hcan : RP.Spec.Nlhe.canAct t.p0 = true := by
        unfold RP.Spec.Nlhe.canAct; rw [a4, a1, hB]; have := hp.betO hB; simp; omega
      have hnb : ¬ (g.s1.bet g.s1.stack).state = Status.betting := by rw [hst']; simp
      have hseat : seatRel (g.s1.bet g.s1.stack) (t.p1.put g.s1.stack) := by
        simp [seatRel, RP.Spec.Nlhe.Player.put, Seat.bet, b1, b2, b3, b4, b5, hA]
        rfl
      unfold RP.Spec.Nlhe.apply
      simp only [RP.Spec.Nlhe.actor, htoAct, if_true, if_false, Nat.one_ne_zero]
      split <;> unfold RP.Spec.Nlhe.pass <;> simp only [RP.Spec.Nlhe.setActor, htoAct, if_true, if_false, Nat.one_ne_zero, hcan] <;>
      · refine ⟨?s0, ?s1, ?_, ?_, ?_, ?_, ?_, ?_⟩
        case s1 => rw [hg0]; exact hseat
        case s0 => rw [hg1]; exact ⟨a1, a2, a3, a4, a5⟩
        · exact hst
        · exact hbd
        · rw [hg0, hg1]; simp only [Seat.bet]; simp only [hput, hcur] at *; omega
        · rw [hg0, hg1]; intro _ _; simp_all
        · intro _; simp only [hidx']
        · rw [hg0, hg1]; intro _ _ _; simp_all

theorem rel_fold {g : Game} {t : Table} (h : GameInv g) (r : Rel g t)
    (ha : isAllowed g .fold = true) : Rel (act g .fold) (RP.Spec.Nlhe.apply t .fold) := by
  obtain ⟨hact', _, hfo⟩ := inv_fold h ha
  rw [hact']
  obtain ⟨hna, hpos⟩ := (allowed_fold_iff h).1 ha
  obtain ⟨hna2, hA, hO, hle, hk, hc, hr, hsv⟩ := choice_view h hna
  have hal' : isEveryoneAlright (foldActor g) = true := by unfold isEveryoneAlright; simp [hfo]
  have hd := h.dealer0
  have hte := thr_even g
  have htoAct := r.toAct_eq hna
  have hp := h.pair
  obtain ⟨⟨a1, a2, a3, a4, a5⟩, ⟨b1, b2, b3, b4, b5⟩, hst, hbd, hcur, hact, _, hlr⟩ := r
  have hcs := consts_ok
  obtain ⟨pa0, pa1⟩ := actor_parity g hd
  rcases Nat.mod_two_eq_zero_or_one g.ticker with hpar | hpar
  · obtain ⟨eA, eO, eI⟩ := pa0 hpar
    rw [eA] at hA; rw [eO] at hO
    rw [eI] at htoAct
    have hg0 : (foldActor g).s0 = { g.s0 with state := Status.folding } := by simp [foldActor, eI]
    have hg1 : (foldActor g).s1 = g.s1 := by simp [foldActor, eI]
    have hnb : ¬ (foldActor g).s0.state = Status.betting := by rw [hg0]; simp
    unfold RP.Spec.Nlhe.apply
    simp only [RP.Spec.Nlhe.actor, htoAct, if_true, if_false, Nat.one_ne_zero]
    unfold RP.Spec.Nlhe.pass
    simp only [RP.Spec.Nlhe.setActor, htoAct, if_true, if_false, Nat.one_ne_zero]
    split <;>
    · refine ⟨?s0, ?s1, ?_, ?_, ?_, ?_, ?_, ?_⟩
      case s0 => rw [hg0]; simp [seatRel, a1, a2, a3, a5]
      case s1 => rw [hg1]; exact ⟨b1, b2, b3, b4, b5⟩
      · exact hst
      · exact hbd
      · rw [hg0, hg1]; exact hcur
      · intro h0 h1; first | exact absurd h0 hnb | exact absurd h1 hnb
      · intro hh; rw [hal'] at hh; cases hh
      · intro hh; rw [hal'] at hh; cases hh
  · obtain ⟨eA, eO, eI⟩ := pa1 hpar
    rw [eA] at hA; rw [eO] at hO
    rw [eI] at htoAct
    have hg0 : (foldActor g).s1 = { g.s1 with state := Status.folding } := by simp [foldActor, eI]
    have hg1 : (foldActor g).s0 = g.s0 := by simp [foldActor, eI]
    have hnb : ¬ (foldActor g).s1.state = Status.betting := by rw [hg0]; simp
    unfold RP.Spec.Nlhe.apply
    simp only [RP.Spec.Nlhe.actor, htoAct, if_true, if_false, Nat.one_ne_zero]
    unfold RP.Spec.Nlhe.pass
    simp only [RP.Spec.Nlhe.setActor, htoAct, if_true, if_false, Nat.one_ne_zero]
    split <;>
    · refine ⟨?s0, ?s1, ?_, ?_, ?_, ?_, ?_, ?_⟩
      case s1 => rw [hg0]; simp [seatRel, b1, b2, b3, b5]
      case s0 => rw [hg1]; exact ⟨a1, a2, a3, a4, a5⟩
      · exact hst
      · exact hbd
      · rw [hg0, hg1]; exact hcur
      · intro h0 h1; first | exact absurd h0 hnb | exact absurd h1 hnb
      · intro hh; rw [hal'] at hh; cases hh
      · intro hh; rw [hal'] at hh; cases hh


theorem rel_draw {g : Game} {t : Table} (h : GameInv g) (r : Rel g t) {c : Nat}
    (ha : isAllowed g (.draw c) = true) : Rel (act g (.draw c)) (RP.Spec.Nlhe.apply t (.draw c)) := by
  obtain ⟨hact', hinv', hstreet⟩ := inv_draw h ha
  obtain ⟨h1, h2, _, _, _⟩ := (allowed_draw_iff h c).1 ha
  obtain ⟨hs3, hview⟩ := chance_view h h1 h2
  obtain ⟨hp, _⟩ := seats_view h
  have hd := h.dealer0
  have hthr' : thr (act g (.draw c)) = 2 := by rw [thr_eq, hstreet]; simp
  obtain ⟨⟨a1, a2, a3, a4, a5⟩, ⟨b1, b2, b3, b4, b5⟩, hst, hbd, hcur, hact, _, hlr⟩ := r
  have hcs := consts_ok
  rcases hview with ⟨s0b, s1b, he, hsp, _⟩ | ⟨s0s, s1s, hsp⟩
  · -- both players can act: seat 1 opens the new street
    have hns : ¬ g.s0.state = Status.shoving := by rw [s0b]; simp
    have hcan : RP.Spec.Nlhe.canAct (RP.Spec.Nlhe.newStreet t.p1) = true := by
      unfold RP.Spec.Nlhe.canAct RP.Spec.Nlhe.newStreet; simp only []; rw [b4, b1, s1b]; have := hp.betO s1b; simp; omega
    have hg : act g (.draw c) = nextStreet (tick (showCards g c)) := by rw [hact']; simp [hns]
    have ht' : RP.Spec.Nlhe.apply t (.draw c) =
        { t with board := t.board ||| c, street := t.street + 1, curBet := 0, lastRaise := 0,
                 p0 := RP.Spec.Nlhe.newStreet t.p0, p1 := RP.Spec.Nlhe.newStreet t.p1, toAct := 1 } := by
      simp [RP.Spec.Nlhe.apply, hcan]
    have htk : (act g (.draw c)).ticker = 1 := by rw [hg]; simp [hd]
    have hidx : actorIdx (act g (.draw c)) = 1 := by
      unfold actorIdx; rw [htk, hg]; simp [hd, n_eq]
    have hs0 : (act g (.draw c)).s0 = { g.s0 with stake := 0 } := by rw [hg]; rfl
    have hs1 : (act g (.draw c)).s1 = { g.s1 with stake := 0 } := by rw [hg]; rfl
    rw [ht']
    refine ⟨?_, ?_, ?_, ?_, ?_, ?_, ?_, ?_⟩
    · rw [hs0]; exact ⟨a1, rfl, a3, a4, a5⟩
    · rw [hs1]; exact ⟨b1, rfl, b3, b4, b5⟩
    · show t.street + 1 = _; rw [hstreet, hst]
    · show t.board ||| c = _; rw [hg, hbd]; rfl
    · rw [hs0, hs1]; simp
    · intro _ _; rw [hthr', htk]; exact ⟨rfl, rfl⟩
    · intro _; rw [hidx]
    · intro _ _ _
      have htc : toCall (act g (.draw c)) = 0 := by
        unfold toCall effectiveStake actor; rw [hidx, hs0, hs1]; simp
      rw [htc]; exact ⟨fun _ => rfl, Or.inr ⟨rfl, by omega⟩⟩
  · -- both all-in: the board is run out
    have hg : act g (.draw c) = nextStreet (showCards g c) := by rw [hact']; simp [s0s]
    have hs0 : (act g (.draw c)).s0 = { g.s0 with stake := 0 } := by rw [hg]; rfl
    have hs1 : (act g (.draw c)).s1 = { g.s1 with stake := 0 } := by rw [hg]; rfl
    have hal' : isEveryoneAlright (act g (.draw c)) = true := by
      unfold isEveryoneAlright isEveryoneShoving; rw [hs0, hs1]; simp [s0s, s1s]
    have hnb : ¬ (act g (.draw c)).s0.state = Status.betting := by rw [hs0]; simp [s0s]
    unfold RP.Spec.Nlhe.apply
    simp only []
    split <;>
    · refine ⟨?_, ?_, ?_, ?_, ?_, ?_, ?_, ?_⟩
      · rw [hs0]; exact ⟨a1, rfl, a3, a4, a5⟩
      · rw [hs1]; exact ⟨b1, rfl, b3, b4, b5⟩
      · show t.street + 1 = _; rw [hstreet, hst]
      · show t.board ||| c = _; rw [hg, hbd]; rfl
      · rw [hs0, hs1]; simp
      · intro h0 _; exact absurd h0 hnb
      · intro hh; rw [hal'] at hh; cases hh
      · intro hh; rw [hal'] at hh; cases hh

theorem rel_root (h0 h1 : Nat) : Rel (root h0 h1) (RP.Spec.Nlhe.init h0 h1) := by
  have hcs := consts_ok
  have hs := street_root h0 h1
  have hthr : thr (root h0 h1) = 4 := by rw [thr_eq, hs]; rfl
  have htk : (root h0 h1).ticker = 3 := by simp [root, baseTicker_eq]
  have hidx := actorIdx_root h0 h1
  refine ⟨?_, ?_, ?_, ?_, ?_, ?_, ?_, ?_⟩
  · exact ⟨rfl, rfl, rfl, rfl, rfl⟩
  · exact ⟨rfl, rfl, rfl, rfl, rfl⟩
  · rw [hs]; rfl
  · rfl
  · show BB = max BB SB; omega
  · intro _ _; rw [hthr, htk]; exact ⟨rfl, rfl⟩
  · intro _; rw [hidx]; rfl
  · intro _ _ _
    have htc : toCall (root h0 h1) = BB - SB := by
      unfold toCall effectiveStake actor; rw [hidx]; simp [root]; omega
    rw [htc]; exact ⟨fun _ => rfl, Or.inr ⟨rfl, by omega⟩⟩


/-- every accepted action leads to related states -/
theorem rel_act {g : Game} {t : Table} (h : GameInv g) (r : Rel g t) {a : Action}
    (ha : isAllowed g a = true) : Rel (act g a) (RP.Spec.Nlhe.apply t a) := by
  cases a with
  | draw c => exact rel_draw h r ha
  | fold => exact rel_fold h r ha
  | check => exact rel_check h r ha
  | call x => exact rel_call h r ha
  | raise x => exact rel_raise h r ha
  | shove x => exact rel_shove h r ha
  | blind x => rw [allowed_blind_iff h x] at ha; cases ha

/-- one step in lockstep: both reject, or both accept and the successors are related -/
theorem C03_bisim_step {g : Game} {t : Table} (h : GameInv g) (r : Rel g t) (a : Action) :
    (step? g a = none ∧ RP.Spec.Nlhe.step? t a = none) ∨
    (step? g a = some (act g a) ∧ RP.Spec.Nlhe.step? t a = some (RP.Spec.Nlhe.apply t a) ∧
      GameInv (act g a) ∧ Rel (act g a) (RP.Spec.Nlhe.apply t a)) := by
  have hp := permitted_rel h r a
  rw [step?_eq h]; unfold RP.Spec.Nlhe.step?; rw [hp]
  by_cases ha : isAllowed g a = true
  · right; simp only [ha, if_true]; exact ⟨trivial, trivial, inv_act h ha, rel_act h r ha⟩
  · left; simp [ha]

/-- the outcome of running a whole action list on both machines -/
def Agree : Option Game → Option Table → Prop
  | some g, some t => GameInv g ∧ Rel g t ∧ RP.Spec.Nlhe.turn t = plyOf (turn g) ∧
      ∀ a, RP.Spec.Nlhe.permitted t a = isAllowed g a
  | none, none => True
  | _, _ => False

theorem bisim_run {g : Game} {t : Table} (h : GameInv g) (r : Rel g t) (as : List Action) :
    Agree (run? g as) (RP.Spec.Nlhe.run? t as) := by
  induction as generalizing g t with
  | nil => exact ⟨h, r, turn_rel h r, permitted_rel h r⟩
  | cons a as ih =>
    have hstep := C03_bisim_step h r a
    have e1' : run? g (a :: as) = (step? g a).bind (fun g' => run? g' as) := rfl
    have e2' : RP.Spec.Nlhe.run? t (a :: as) =
        (RP.Spec.Nlhe.step? t a).bind (fun t' => RP.Spec.Nlhe.run? t' as) := rfl
    rw [e1', e2']
    cases hstep with
    | inl hh => rw [hh.1, hh.2]; exact True.intro
    | inr hh => rw [hh.1, hh.2.1]; exact ih hh.2.2.1 hh.2.2.2

/-- **C03 ② (bisimulation).** From a freshly dealt hand, for every action list (all kinds, all
integer amounts, all card sets): the engine accepts it iff the rules specification does, and then
the two end in related states with the same turn and the same permitted set. -/
theorem C03_bisim {h0 h1 : Nat} (hv : ValidDeal h0 h1) (as : List Action) :
    Agree (run? (root h0 h1) as) (RP.Spec.Nlhe.run? (RP.Spec.Nlhe.init h0 h1) as) :=
  bisim_run (inv_root hv) (rel_root h0 h1) as

/-- the same action sequences are playable on both machines -/
theorem C03_same_language {h0 h1 : Nat} (hv : ValidDeal h0 h1) (as : List Action) :
    (run? (root h0 h1) as).isSome = (RP.Spec.Nlhe.run? (RP.Spec.Nlhe.init h0 h1) as).isSome := by
  have := C03_bisim hv as
  cases h1' : run? (root h0 h1) as <;> cases h2' : RP.Spec.Nlhe.run? (RP.Spec.Nlhe.init h0 h1) as <;>
    simp_all [Agree]

-- non-vacuity: the specification run of a concrete line and its history-based last raise
example : (RP.Spec.Nlhe.run? (RP.Spec.Nlhe.init 0x3 0x30) [.call 1, .check, .draw 0x700, .raise 10, .raise 30]).map
    (fun t => (t.lastRaise, t.curBet, RP.Spec.Nlhe.outstanding t, RP.Spec.Nlhe.turn t)) =
    some (20, 30, 20, RP.Spec.Nlhe.Ply.player 1) := by decide
example : (RP.Spec.Nlhe.run? (RP.Spec.Nlhe.init 0x3 0x30) [.call 1, .check, .draw 0x700, .raise 10, .raise 30]).map
    (fun t => [RP.Spec.Nlhe.permitted t (.raise 39), RP.Spec.Nlhe.permitted t (.raise 40)]) = some [false, true] := by decide
example : (RP.Spec.Nlhe.run? (RP.Spec.Nlhe.init 0x3 0x30) [.shove 99, .shove 98, .draw 0x700, .draw 0x1000, .draw 0x10000]).map
    RP.Spec.Nlhe.turn = some RP.Spec.Nlhe.Ply.over := by decide

end RP.C03
