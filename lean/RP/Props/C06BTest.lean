import RP.Props.C06Burnside
namespace RP.C06
set_option profiler true
example : coeff (fixedTotal 13) 2 3 = 1286792*24 := by decide +kernel
example : coeff (fixedPoly 13 [0,1,2,3]) 2 3 = 25989600 := by decide +kernel
example : (ppow (factor 1) 13).length = 18 := by decide +kernel
example : (fixedTotal 13).drop 12 = [31824, 685464, 6846372, 30883008, 335041200, 2955750096] := by decide +kernel
end RP.C06
