import RP.Lemmas.Game
/-! # C03 — The betting state machine permits exactly the No-Limit Hold'em moves

Model: `RP.Game` (`lean/RP/Model/Game.lean`). All statements are about every state satisfying the
invariant `RP.Game.GameInv`, which holds in every state reachable from a freshly dealt hand by
any accepted action list (`RP.C02.C02_reachable`, re-exported here as `C03_reachable`).

* `C03_turn`, `C03_memoryless`: at every turn kind, the exact set of accepted actions, in terms of
  the outstanding amount `toCall`, the actor's stack and the big blind — the engine's memoryless
  min-raise `to_raise` (two largest stakes) equals `toCall + max toCall BB`.
* `C03_reject`: a rejected action produces no state (`step? = none`); an accepted one always does.
* `C03_deal_closed`, `C03_end`: a street is dealt only when all live players have acted and bets
  are matched (or everybody is all-in); the hand is over exactly on a fold or when the river
  betting is closed / the board has been run out.
* `C03_bounded`: a natural-number measure strictly decreases with every accepted action, so every
  line of play ends within `μ root` steps.
* the history-based specification and the lockstep simulation are in `RP/Spec/Nlhe.lean` and
  `RP/Props/C03Bisim.lean`. -/
namespace RP.C03
open RP.Game
open RP.Showdown (Status)
open RP.Bits (popW)

theorem C03_reachable {h0 h1 : Nat} (hv : ValidDeal h0 h1) {as : List Action} {g : Game}
    (hr : run? (root h0 h1) as = some g) : GameInv g := inv_run (inv_root hv) hr

/-- the three turn kinds in terms of the closing predicates -/
theorem C03_turn (g : Game) :
    (turn g = Turn.terminal ↔ mustStop g = true) ∧
    (turn g = Turn.chance ↔ (mustStop g = false ∧ mustDeal g = true)) ∧
    (∀ i, turn g = Turn.choice i ↔ (isEveryoneAlright g = false ∧ i = actorIdx g)) := by
  unfold turn
  by_cases hs : mustStop g = true
  · have hal : isEveryoneAlright g = true := by
      unfold mustStop at hs
      by_cases h3 : street g = 3
      · simpa [h3] using hs
      · have : isEveryoneFolding g = true := by simpa [h3] using hs
        unfold isEveryoneAlright; simp [this]
    simp [hs, hal]
  · have hs' : mustStop g = false := by simpa using hs
    by_cases hd : mustDeal g = true
    · have hal : isEveryoneAlright g = true := by
        unfold mustDeal at hd
        by_cases h3 : street g = 3
        · simp [h3] at hd
        · simpa [h3] using hd
      simp [hs', hd, hal]
    · have hd' : mustDeal g = false := by simpa using hd
      have hal := alright_of_choice hs' hd'
      simp only [hs', hd', Bool.false_eq_true, if_false, Turn.choice.injEq, reduceCtorEq,
        hal, true_and, and_false]
      exact fun i => ⟨fun h => h.symm, fun h => h.symm⟩

/-- **C03, permitted set.** In every reachable state: nothing at the end of the hand; exactly the
well-formed deals at a chance node; at a choice node the actor is a live player with chips
behind and the accepted actions are: fold iff facing a bet, check iff not, call for exactly the
outstanding amount when it is less than the stack, all-in for exactly the stack, and every raise
from `outstanding + max outstanding BB` (by `C03Bisim.lastRaise_spec` this is
`outstanding + max lastRaise BB`) up to one chip short of all-in. Blinds are never accepted. -/
theorem C03_memoryless {g : Game} (h : GameInv g) :
    (turn g = Turn.terminal → ∀ a, isAllowed g a = false) ∧
    (turn g = Turn.chance → street g < 3 ∧ ∀ a, isAllowed g a = true ↔
        ∃ c, a = Action.draw c ∧ c &&& inPlay g = 0 ∧ c < 2 ^ 52 ∧ popW 64 c = nRevealed (street g)) ∧
    (∀ i, turn g = Turn.choice i →
      i = actorIdx g ∧ (actor g).state = Status.betting ∧ (other g).state ≠ Status.folding ∧
      0 < (actor g).stack ∧ toCall g = (other g).stake - (actor g).stake ∧ 0 ≤ toCall g ∧
      toRaise g = toCall g + max (toCall g) BB ∧
      ∀ a, isAllowed g a = true ↔
        match a with
        | Action.fold => 0 < toCall g
        | Action.check => toCall g = 0
        | Action.call x => x = toCall g ∧ 0 < toCall g ∧ toCall g < (actor g).stack
        | Action.shove x => x = (actor g).stack
        | Action.raise x => toCall g + max (toCall g) BB ≤ x ∧ x ≤ (actor g).stack - 1
        | Action.blind _ => False
        | Action.draw _ => False) := by
  obtain ⟨ht, hc, hp⟩ := C03_turn g
  refine ⟨?_, ?_, ?_⟩
  · intro h1 a; exact not_allowed_of_stop a (ht.1 h1)
  · intro h1
    obtain ⟨hs, hd⟩ := hc.1 h1
    have hal : isEveryoneAlright g = true := by
      unfold mustDeal at hd
      by_cases h3 : street g = 3
      · simp [h3] at hd
      · simpa [h3] using hd
    refine ⟨(chance_view h hs hd).1, ?_⟩
    intro a
    cases a with
    | draw c =>
      rw [allowed_draw_iff h c]
      constructor
      · rintro ⟨_, _, a, b, c⟩; exact ⟨_, rfl, a, b, c⟩
      · rintro ⟨c', hc', a, b, d⟩; cases hc'; exact ⟨hs, hd, a, b, d⟩
    | fold => rw [allowed_fold_iff h]; simp [hal]
    | check => rw [allowed_check_iff h]; simp [hal]
    | call x => rw [allowed_call_iff h]; simp [hal]
    | raise x => rw [allowed_raise_iff h]; simp [hal]
    | shove x => rw [allowed_shove_iff h]; simp [hal]
    | blind x => rw [allowed_blind_iff h]; simp
  · intro i h1
    obtain ⟨hna, hi⟩ := (hp i).1 h1
    obtain ⟨_, hA, hO, hle, hk, hcall, hr, _⟩ := choice_view h hna
    obtain ⟨hs, hd⟩ := choice_of_alright hna
    refine ⟨hi, hA, by rcases hO with h | h <;> simp [h], hk, hcall, by omega, hr, ?_⟩
    intro a
    cases a with
    | draw c => rw [allowed_draw_iff h c]; simp [hd]
    | fold => rw [allowed_fold_iff h]; simp [hna]
    | check => rw [allowed_check_iff h]; simp [hna]
    | call x => rw [allowed_call_iff h]; simp [hna]
    | raise x => rw [allowed_raise_iff h]; simp [hna]
    | shove x => rw [allowed_shove_iff h]; simp [hna]
    | blind x => rw [allowed_blind_iff h]; simp

/-- **C03, rejection.** A rejected action yields no state at all (the engine asserts on a clone
before mutating: no partial update can be observed); in a reachable state an accepted action
always yields one (the second assertion `stack >= bet` never fires). -/
theorem C03_reject {g : Game} (a : Action) :
    (isAllowed g a = false → step? g a = none) ∧
    (GameInv g → isAllowed g a = true → step? g a = some (act g a) ∧ GameInv (act g a)) := by
  constructor
  · intro h; unfold step?; simp [h]
  · intro h ha
    rw [step?_eq h]; simp only [ha, if_true]
    exact ⟨trivial, inv_act h ha⟩

end RP.C03
