import RP.Lemmas.Game
/-! # C03 — The betting state machine permits exactly the No-Limit Hold'em moves

Model: `RP.Game` (`lean/RP/Model/Game.lean`). All statements are about every state satisfying the
invariant `RP.Game.GameInv`, which holds in every state reachable from a freshly dealt hand by
any accepted action list (`RP.C02.C02_reachable`, re-exported here as `C03_reachable`).

* `C03_turn`, `C03_memoryless`: at every turn kind, the exact set of accepted actions, in terms of
  the outstanding amount `toCall`, the actor's stack and the big blind — the engine's memoryless
  min-raise `to_raise` (two largest stakes) equals `toCall + max toCall BB`.
* `C03_reject`: a rejected action produces no state (`step? = none`); an accepted one always does.
* `C03_deal_closed`, `C03_end`: a street is dealt only when all live players have acted and bets
  are matched (or everybody is all-in); the hand is over exactly on a fold or when the river
  betting is closed / the board has been run out.
* `C03_bounded`: a natural-number measure strictly decreases with every accepted action, so every
  line of play ends within `μ root` steps.
* the history-based specification and the lockstep simulation are in `RP/Spec/Nlhe.lean` and
  `RP/Props/C03Bisim.lean`. -/
namespace RP.C03
open RP.Game
open RP.Showdown (Status)
open RP.Bits (popW)

theorem C03_reachable {h0 h1 : Nat} (hv : ValidDeal h0 h1) {as : List Action} {g : Game}
    (hr : run? (root h0 h1) as = some g) : GameInv g := inv_run (inv_root hv) hr

/-- the three turn kinds in terms of the closing predicates -/
theorem C03_turn (g : Game) :
    (turn g = Turn.terminal ↔ mustStop g = true) ∧
    (turn g = Turn.chance ↔ (mustStop g = false ∧ mustDeal g = true)) ∧
    (∀ i, turn g = Turn.choice i ↔ (isEveryoneAlright g = false ∧ i = actorIdx g)) := by
  unfold turn
  by_cases hs : mustStop g = true
  · have hal : isEveryoneAlright g = true := by
      unfold mustStop at hs
      by_cases h3 : street g = 3
      · simpa [h3] using hs
      · have : isEveryoneFolding g = true := by simpa [h3] using hs
        unfold isEveryoneAlright; simp [this]
    simp [hs, hal]
  · have hs' : mustStop g = false := by simpa using hs
    by_cases hd : mustDeal g = true
    · have hal : isEveryoneAlright g = true := by
        unfold mustDeal at hd
        by_cases h3 : street g = 3
        · simp [h3] at hd
        · simpa [h3] using hd
      simp [hs', hd, hal]
    · have hd' : mustDeal g = false := by simpa using hd
      have hal := alright_of_choice hs' hd'
      simp only [hs', hd', Bool.false_eq_true, if_false, Turn.choice.injEq, reduceCtorEq,
        hal, true_and, and_false]
      exact fun i => ⟨fun h => h.symm, fun h => h.symm⟩

/-- **C03, permitted set.** In every reachable state: nothing at the end of the hand; exactly the
well-formed deals at a chance node; at a choice node the actor is a live player with chips
behind and the accepted actions are: fold iff facing a bet, check iff not, call for exactly the
outstanding amount when it is less than the stack, all-in for exactly the stack, and every raise
from `outstanding + max outstanding BB` (by `permitted_rel` in `C03Bisim.lean` this is
`outstanding + max lastRaise BB`) up to one chip short of all-in. Blinds are never accepted. -/
theorem C03_memoryless {g : Game} (h : GameInv g) :
    (turn g = Turn.terminal → ∀ a, isAllowed g a = false) ∧
    (turn g = Turn.chance → street g < 3 ∧ ∀ a, isAllowed g a = true ↔
        ∃ c, a = Action.draw c ∧ c &&& inPlay g = 0 ∧ c < 2 ^ 52 ∧ popW 64 c = nRevealed (street g)) ∧
    (∀ i, turn g = Turn.choice i →
      i = actorIdx g ∧ (actor g).state = Status.betting ∧ (other g).state ≠ Status.folding ∧
      0 < (actor g).stack ∧ toCall g = (other g).stake - (actor g).stake ∧ 0 ≤ toCall g ∧
      toRaise g = toCall g + max (toCall g) BB ∧
      ∀ a, isAllowed g a = true ↔
        match a with
        | Action.fold => 0 < toCall g
        | Action.check => toCall g = 0
        | Action.call x => x = toCall g ∧ 0 < toCall g ∧ toCall g < (actor g).stack
        | Action.shove x => x = (actor g).stack
        | Action.raise x => toCall g + max (toCall g) BB ≤ x ∧ x ≤ (actor g).stack - 1
        | Action.blind _ => False
        | Action.draw _ => False) := by
  obtain ⟨ht, hc, hp⟩ := C03_turn g
  refine ⟨?_, ?_, ?_⟩
  · intro h1 a; exact not_allowed_of_stop a (ht.1 h1)
  · intro h1
    obtain ⟨hs, hd⟩ := hc.1 h1
    have hal : isEveryoneAlright g = true := by
      unfold mustDeal at hd
      by_cases h3 : street g = 3
      · simp [h3] at hd
      · simpa [h3] using hd
    refine ⟨(chance_view h hs hd).1, ?_⟩
    intro a
    cases a with
    | draw c =>
      rw [allowed_draw_iff h c]
      constructor
      · rintro ⟨_, _, a, b, c⟩; exact ⟨_, rfl, a, b, c⟩
      · rintro ⟨c', hc', a, b, d⟩; cases hc'; exact ⟨hs, hd, a, b, d⟩
    | fold => rw [allowed_fold_iff h]; simp [hal]
    | check => rw [allowed_check_iff h]; simp [hal]
    | call x => rw [allowed_call_iff h]; simp [hal]
    | raise x => rw [allowed_raise_iff h]; simp [hal]
    | shove x => rw [allowed_shove_iff h]; simp [hal]
    | blind x => rw [allowed_blind_iff h]; simp
  · intro i h1
    obtain ⟨hna, hi⟩ := (hp i).1 h1
    obtain ⟨_, hA, hO, hle, hk, hcall, hr, _⟩ := choice_view h hna
    obtain ⟨hs, hd⟩ := choice_of_alright hna
    refine ⟨hi, hA, by rcases hO with h | h <;> simp [h], hk, hcall, by omega, hr, ?_⟩
    intro a
    cases a with
    | draw c => rw [allowed_draw_iff h c]; simp [hd]
    | fold => rw [allowed_fold_iff h]; simp [hna]
    | check => rw [allowed_check_iff h]; simp [hna]
    | call x => rw [allowed_call_iff h]; simp [hna]
    | raise x => rw [allowed_raise_iff h]; simp [hna]
    | shove x => rw [allowed_shove_iff h]; simp [hna]
    | blind x => rw [allowed_blind_iff h]; simp

/-- an accepted deal lies inside the deck mask of the model, the standard 52-card deck
(`RP.Gen.handMaskStd`): no card index 52..63 is ever dealt. (The short-deck build's mask is not
modelled; there the Rust rules machine checks that ranks 2..5 are refused.) -/
theorem C03_draw_inside_deck {g : Game} (h : GameInv g) {c : Nat} (ha : isAllowed g (.draw c) = true) :
    c &&& RP.Gen.handMaskStd = c ∧ c &&& deck g = c := by
  obtain ⟨_, _, hdis, hlt, _⟩ := (allowed_draw_iff h c).1 ha
  constructor
  · rw [handMask_eq, Nat.and_two_pow_sub_one_eq_mod, Nat.mod_eq_of_lt hlt]
  · unfold deck; rw [handMask_eq]
    exact (subset_compl_iff c (inPlay g) (inPlay_lt h.cards)).2 ⟨hdis, hlt⟩

/-- **C03, rejection.** A rejected action yields no state at all (the engine asserts on a clone
before mutating: no partial update can be observed); in a reachable state an accepted action
always yields one (the second assertion `stack >= bet` never fires). -/
theorem C03_reject {g : Game} (a : Action) :
    (isAllowed g a = false → step? g a = none) ∧
    (GameInv g → isAllowed g a = true → step? g a = some (act g a) ∧ GameInv (act g a)) := by
  constructor
  · intro h; unfold step?; simp [h]
  · intro h ha
    rw [step?_eq h]; simp only [ha, if_true]
    exact ⟨trivial, inv_act h ha⟩

/-- betting on the current street is closed: both live players have acted (`ticker > thr`) and
their bets are matched, or both are all-in -/
def Closed (g : Game) : Prop :=
  (g.s0.state = Status.betting ∧ g.s1.state = Status.betting ∧ g.s0.stake = g.s1.stake ∧
    g.ticker > thr g) ∨
  (g.s0.state = Status.shoving ∧ g.s1.state = Status.shoving)

/-- **C03, dealing.** A street is dealt only when betting is closed, never on the river, and the
deal moves exactly one street forward. -/
theorem C03_deal_closed {g : Game} (h : GameInv g) (ht : turn g = Turn.chance) :
    street g < 3 ∧ Closed g ∧
    ∀ c, isAllowed g (.draw c) = true → street (act g (.draw c)) = street g + 1 := by
  obtain ⟨hs, hd⟩ := (C03_turn g).2.1.1 ht
  obtain ⟨h3, hv⟩ := chance_view h hs hd
  refine ⟨h3, ?_, fun c hc => (inv_draw h hc).2.2⟩
  rcases hv with ⟨a, b, c, _, e⟩ | ⟨a, b, _⟩
  · exact Or.inl ⟨a, b, c, e⟩
  · exact Or.inr ⟨a, b⟩

/-- **C03, end of the hand.** The hand is over exactly when one player has folded, or the river
betting is closed (which includes the run-out with both players all-in). -/
theorem C03_end {g : Game} (h : GameInv g) :
    turn g = Turn.terminal ↔
      ((g.s0.state = Status.folding ∧ g.s1.state ≠ Status.folding) ∨
       (g.s1.state = Status.folding ∧ g.s0.state ≠ Status.folding) ∨
       (street g = 3 ∧ Closed g)) := by
  rw [(C03_turn g).1]
  constructor
  · intro hs
    rcases terminal_view h hs with ⟨a, b, _⟩ | ⟨a, b, _⟩ | ⟨s3, n0, n1, _⟩
    · exact Or.inl ⟨a, b⟩
    · exact Or.inr (Or.inl ⟨a, b⟩)
    · right; right
      refine ⟨s3, ?_⟩
      have hal : isEveryoneAlright g = true := by unfold mustStop at hs; simpa [s3] using hs
      have hnf : isEveryoneFolding g = false := by
        unfold isEveryoneFolding
        cases h0 : g.s0.state <;> cases h1 : g.s1.state <;> simp_all
      rw [alright_eq] at hal; rw [folding_eq] at hnf
      have := chance_pair h.pair hal hnf
      rcases actor_other_cases g with ⟨ha, ho⟩ | ⟨ha, ho⟩ <;> rw [ha, ho] at this
      · rcases this with ⟨a, b, c, _, e⟩ | ⟨a, b, _⟩
        · exact Or.inl ⟨a, b, c, by simpa using e⟩
        · exact Or.inr ⟨a, b⟩
      · rcases this with ⟨a, b, c, _, e⟩ | ⟨a, b, _⟩
        · exact Or.inl ⟨b, a, c.symm, by simpa using e⟩
        · exact Or.inr ⟨b, a⟩
  · intro hc
    unfold mustStop isEveryoneAlright isEveryoneCalling isEveryoneFolding isEveryoneShoving
      isEveryoneMatched effectiveStake
    rw [touched_eq]
    rcases hc with ⟨a, b⟩ | ⟨a, b⟩ | ⟨s3, ⟨a, b, c, d⟩ | ⟨a, b⟩⟩
    · cases h1 : g.s1.state <;> simp_all
    · cases h0 : g.s0.state <;> simp_all
    · simp [s3, a, b, c, d]
    · simp [s3, a, b]

/-! ## boundedness -/

/-- actions still needed before the street can close because "everyone has acted" -/
def actsLeft (g : Game) : Nat := thr g + 1 - g.ticker

/-- streets left (weight 8), chips not yet in the pot (weight 2), acts left, hand not over -/
def μ (g : Game) : Nat :=
  8 * (3 - street g) + 2 * (2 * STACK - g.pot).toNat + actsLeft g + (if mustStop g then 0 else 1)

theorem pot_le {g : Game} (h : GameInv g) : g.pot ≤ 2 * STACK := by
  have hp := h.pair; have := h.pot_eq
  have := hp.sumA; have := hp.sumO; have := hp.stackA; have := hp.stackO
  omega

theorem live_le (g : Game) : (if mustStop g then 0 else 1) ≤ 1 := by split <;> omega

theorem C03_measure_step {g g' : Game} {a : Action} (h : GameInv g) (hs : step? g a = some g') :
    μ g' < μ g := by
  rw [step?_eq h] at hs
  have ha : isAllowed g a = true := by
    cases hq : isAllowed g a
    · simp [hq] at hs
    · rfl
  simp only [ha, if_true, Option.some.injEq] at hs
  subst hs
  have hns : mustStop g = false := by
    cases hm : mustStop g
    · rfl
    · rw [not_allowed_of_stop a hm] at ha; cases ha
  have hpot := pot_le h
  have hpot' := pot_le (inv_act h ha)
  have hl' := live_le (act g a)
  unfold μ actsLeft
  simp only [hns, Bool.false_eq_true, if_false]
  cases a with
  | draw c =>
    obtain ⟨e, _, hst⟩ := inv_draw h ha
    obtain ⟨_, _, _⟩ := (allowed_draw_iff h c).1 ha
    have h3 := (chance_view h hns (by assumption)).1
    have hp : (act g (.draw c)).pot = g.pot := by rw [e]; split <;> rfl
    have ht : thr (act g (.draw c)) = 2 := by rw [thr_eq, hst]; simp
    rw [hst, hp, ht]
    omega
  | fold =>
    obtain ⟨e, _, hf⟩ := inv_fold h ha
    have hm : mustStop (foldActor g) = true := by
      unfold mustStop isEveryoneAlright; simp [hf]
    rw [e]; simp only [street_fold, fold_pot, thr_fold, fold_ticker, hm, if_true]; omega
  | check =>
    obtain ⟨e, _⟩ := inv_check h ha
    obtain ⟨hna, hz⟩ := (allowed_check_iff h).1 ha
    obtain ⟨hna2, hA, hO, hle, hk, hc, hr, hsv⟩ := choice_view h hna
    obtain ⟨_, ht, _, _⟩ := check_pair h.pair h.phase hna2 (by omega)
    have htk : ¬ g.ticker > thr g := by simpa using ht
    rw [e] at hl' ⊢; simp only [street_tick, tick_pot, thr_tick, tick_ticker]; omega
  | call x =>
    obtain ⟨e, _⟩ := inv_call h ha
    obtain ⟨_, hx, hpos, _⟩ := (allowed_call_iff h x).1 ha
    rw [e] at hl' hpot' ⊢
    by_cases ht : g.ticker > thr g
    · simp only [ht, if_true] at hl' hpot' ⊢; simp only [street_bet, bet_pot, thr_bet, bet_ticker] at hpot' ⊢; omega
    · simp only [ht, if_false] at hl' hpot' ⊢
      simp only [street_tick, street_bet, tick_pot, bet_pot, thr_tick, thr_bet, tick_ticker, bet_ticker] at hpot' ⊢; omega
  | raise x =>
    obtain ⟨e, _⟩ := inv_raise h ha
    obtain ⟨hna, hlo, _⟩ := (allowed_raise_iff h x).1 ha
    obtain ⟨_, _, _, hle, _, hc, _, _⟩ := choice_view h hna
    have hcs := consts_ok
    rw [e] at hl' hpot' ⊢
    simp only [street_tick, street_bet, tick_pot, bet_pot, thr_tick, thr_bet, tick_ticker, bet_ticker] at hpot' ⊢; omega
  | shove x =>
    obtain ⟨e, _⟩ := inv_shove h ha
    obtain ⟨hna, hx⟩ := (allowed_shove_iff h x).1 ha
    obtain ⟨_, _, _, _, hk, _, _, _⟩ := choice_view h hna
    rw [e] at hl' hpot' ⊢
    by_cases ht : (other g).state = Status.shoving
    · simp only [ht, if_true] at hl' hpot' ⊢; simp only [street_bet, bet_pot, thr_bet, bet_ticker] at hpot' ⊢; omega
    · simp only [ht, if_false] at hl' hpot' ⊢
      simp only [street_tick, street_bet, tick_pot, bet_pot, thr_tick, thr_bet, tick_ticker, bet_ticker] at hpot' ⊢; omega
  | blind x => rw [allowed_blind_iff h x] at ha; cases ha

theorem measure_run {g : Game} (h : GameInv g) : ∀ {as : List Action} {g' : Game},
    run? g as = some g' → as.length + μ g' ≤ μ g := by
  intro as
  induction as generalizing g with
  | nil => intro g' hr; simp only [run?, Option.some.injEq] at hr; subst hr; simp
  | cons a as ih =>
    intro g' hr
    simp only [run?] at hr
    cases hs : step? g a with
    | none => rw [hs] at hr; cases hr
    | some g1 =>
      rw [hs] at hr
      have h1 := C03_measure_step h hs
      have h2 := ih (inv_step h hs) hr
      simp only [List.length_cons]; omega

theorem μ_root (h0 h1 : Nat) : μ (root h0 h1) = 27 + 2 * (2 * STACK - (SB + BB)).toNat := by
  have hs := street_root h0 h1
  have hns : mustStop (root h0 h1) = false := by
    unfold mustStop isEveryoneFolding; rw [hs]; simp [root]
  unfold μ actsLeft
  rw [hns, thr_eq, hs]
  simp [root, baseTicker_eq]; omega

/-- **C03, boundedness.** Every accepted action strictly lowers the measure `μ`; hence every
line of play from a freshly dealt hand has at most `μ root = 27 + 2·(2·STACK − SB − BB)` actions
(421 for the configured game), after which no action is accepted. -/
theorem C03_bounded {h0 h1 : Nat} (hv : ValidDeal h0 h1) {as : List Action} {g : Game}
    (hr : run? (root h0 h1) as = some g) :
    as.length + μ g ≤ 27 + 2 * (2 * STACK - (SB + BB)).toNat := by
  rw [← μ_root h0 h1]; exact measure_run (inv_root hv) hr

/-- a hand cannot be continued for ever: any action list longer than the bound is rejected -/
theorem C03_no_long_history {h0 h1 : Nat} (hv : ValidDeal h0 h1) (as : List Action)
    (hl : 27 + 2 * (2 * STACK - (SB + BB)).toNat < as.length) : run? (root h0 h1) as = none := by
  cases hr : run? (root h0 h1) as with
  | none => rfl
  | some g => have := C03_bounded hv hr; omega

example : 27 + 2 * (2 * STACK - (SB + BB)).toNat = 421 := by decide

/-! ## non-vacuity: concrete states of every turn kind on a multi-street line -/

private def demo (as : List Action) : Option Game := run? (root 0x3 0x30) as
theorem demo_deal : ValidDeal 0x3 0x30 := by unfold ValidDeal; decide

-- choice node facing a raise after a re-raise: min-raise is call + last raise (30 - 10 = 20)
example : (demo [.call 1, .check, .draw 0x700, .raise 10, .raise 30]).map
    (fun g => (turn g, toCall g, toRaise g, (actor g).stack)) = some (Turn.choice 1, 20, 40, 88) := by decide
example : (demo [.call 1, .check, .draw 0x700, .raise 10, .raise 30]).map
    (fun g => [isAllowed g (.raise 39), isAllowed g (.raise 40), isAllowed g (.raise 87), isAllowed g (.raise 88),
               isAllowed g (.shove 88), isAllowed g (.shove 87), isAllowed g (.call 20), isAllowed g (.call 19),
               isAllowed g .fold, isAllowed g .check, isAllowed g (.blind 1), isAllowed g (.draw 0x1000)]) =
    some [false, true, true, false, true, false, true, false, true, false, false, false] := by decide
-- chance node: exactly the well-formed deals (three fresh cards)
-- (the fourth candidate contains card index 52: outside the deck)
example : (demo [.call 1, .check]).map
    (fun g => (turn g, [isAllowed g (.draw 0x700), isAllowed g (.draw 0x300), isAllowed g (.draw 0x7),
               isAllowed g (.draw (2^52 + 0x300)), isAllowed g .check, isAllowed g (.raise 2)])) =
    some (Turn.chance, [true, false, false, false, false, false]) := by decide
-- terminal node: nothing
example : (demo [.raise 5, .fold]).map (fun g => (turn g, isAllowed g .check, isAllowed g (.draw 0x700))) =
    some (Turn.terminal, false, false) := by decide
-- facing an all-in: exactly all-in or fold
example : (demo [.shove 99]).map (fun g => (legal g, isAllowed g (.call 98))) =
    some ([.shove 98, .fold], false) := by decide
-- the measure on a concrete line
example : (demo [.call 1, .check, .draw 0x700, .raise 10]).map μ = some 390 := by decide
example : μ (root 0x3 0x30) = 421 := by decide

end RP.C03
