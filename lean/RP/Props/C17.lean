import RP.Lemmas.Pgcopy
import RP.Lemmas.PgcopyMap
import RP.Lemmas.PgcopyProfile
import RP.Lemmas.PgcopySpec
/-! # C17 — Saved tables load back identically and match their declared column layout

Model: `RP.Pgcopy` (`lean/RP/Model/Pgcopy.lean`), interpreted from the generated call lists of
`save()` / `load()` (`RP.Gen.Layout`, `RP.Gen.C17`).  Format specification: `RP.PgSpec.pgParse`
(`lean/RP/Spec/Pgcopy.lean`), written from the PostgreSQL documentation.

* `layout_consistent` — for every table the COPY column list, the `columns()` types, the CREATE
  TABLE types, the meaning and order of the fields written by `save()` and the meaning and order of
  the fields read (and stored) by `load()` agree; decided on the generated lists.
* `C17_file_*` — for ALL table contents the saved file is a well-formed COPY stream (signature,
  flags, per-row field count, field lengths, trailer, nothing after it) and field `i` of every row is
  the big-endian pattern, in the width of the declared type of column `i`, of the value that column
  `i`'s *name* denotes (`regret` ↦ `memory.regret()` …).
* `C17_roundtrip_*` — for ALL canonical tables `t` (any 64-bit and 32-bit patterns, any number of rows)
  and ANY enumeration `rows` of `t` (the order the `BTreeMap` happens to iterate in):
  `load (save rows) = ok t`.
Values are bit patterns: NaN payloads, infinities, negative zero are covered by the quantifier. -/
namespace RP.C17
open RP.Pgcopy RP.PgSpec RP.Gen.Layout RP.Gen.C17

/-! ## layout consistency -/

/-- everything that is checked about one table's declared layout -/
def layoutOK (s : Spec) (cols types : List String) (creates : List (String × String))
    (wroles rroles loops expectedLoops : List String) : Bool :=
  -- the generated call lists could be interpreted, and the wire layer's / the format's conditions
  specOK s && pgOK s &&
  -- as many fields as columns, as types
  s.nfields == cols.length && types.length == cols.length &&
  -- the meaning of the fields written / read, in order, is the COPY column list
  wroles == cols && rroles == cols && cols.Nodup &&
  -- widths written (announced and actual) and read are the widths of the declared column types
  s.wfields.map (·.width) == types.map typeWidth && s.wfields.map (·.len) == types.map typeWidth &&
  s.rfields.map (·.width) == types.map typeWidth && types.all (fun ty => typeWidth ty != 0) &&
  -- CREATE TABLE gives every COPY column a type of the same width
  (cols.zip types).all (fun ct => (creates.lookup ct.1).map typeWidth == some (typeWidth ct.2)) &&
  -- the row loops bind the variables the dictionary of written expressions assumes
  loops == expectedLoops

/-- **layout_consistent**: COPY column names, `columns()` types, CREATE TABLE types, and the order
    and meaning of the fields written by `save()` and read by `load()` agree, for all four tables. -/
theorem layout_consistent :
    layoutOK blueprintSpec blueprint_cols blueprint_types blueprint_creates blueprintWRoles blueprintRRoles
      blueprint_loops blueprintLoops = true ∧
    layoutOK metricSpec metric_cols metric_types metric_creates metricWRoles metricRRoles
      metric_loops metricLoops = true ∧
    layoutOK lookupSpec lookup_cols lookup_types lookup_creates lookupWRoles lookupRRoles
      lookup_loops lookupLoops = true ∧
    layoutOK transitionsSpec transitions_cols transitions_types transitions_creates transitionsWRoles
      transitionsRRoles transitions_loops transitionsLoops = true := by
  decide

/-- the column named `regret` carries `memory.regret()` and is stored with `set_regret`;
    the column named `policy` carries `memory.policy()` and is stored with `set_policy`
    (the defect repaired by `fix: blueprint COPY column list …` had these two names exchanged). -/
theorem layout_regret_policy :
    (blueprint_cols.zip (blueprintSpec.wfields.map (·.expr))).lookup "regret" = some "memory.regret()" ∧
    (blueprint_cols.zip (blueprintSpec.wfields.map (·.expr))).lookup "policy" = some "memory.policy()" ∧
    (blueprint_cols.zip (blueprintSpec.rfields.map (·.sink))).lookup "regret" = some "memory.regret" ∧
    (blueprint_cols.zip (blueprintSpec.rfields.map (·.sink))).lookup "policy" = some "memory.policy" ∧
    (blueprint_cols.zip blueprint_types).lookup "regret" = some "FLOAT4" ∧
    (blueprint_cols.zip blueprint_types).lookup "policy" = some "FLOAT4" := by
  decide

-- non-vacuity: the check does reject the pinned column list (policy and regret exchanged)
example : layoutOK blueprintSpec ["past", "present", "future", "edge", "policy", "regret"] blueprint_types
    blueprint_creates blueprintWRoles blueprintRRoles blueprint_loops blueprintLoops = false := by decide

/-! ## bounds: values are 64-bit / 32-bit patterns -/

def PRow.ok (r : PRow) : Prop :=
  r.past < 18446744073709551616 ∧ r.present < 18446744073709551616 ∧ r.future < 18446744073709551616 ∧
    r.edge < 18446744073709551616 ∧ r.regret < 4294967296 ∧ r.policy < 4294967296
def MRow.ok (r : MRow) : Prop := r.xor < 18446744073709551616 ∧ r.dx < 4294967296
def LRow.ok (r : LRow) : Prop := r.obs < 18446744073709551616 ∧ r.abs < 18446744073709551616
def TRow.ok (r : TRow) : Prop :=
  r.prev < 18446744073709551616 ∧ r.next < 18446744073709551616 ∧ r.dx < 4294967296

theorem fits_blueprint (r : PRow) (h : PRow.ok r) : fits blueprintSpec.wfields r.toWire := by
  have e : fits blueprintSpec.wfields r.toWire =
      (r.past < 256 ^ 8 ∧ r.present < 256 ^ 8 ∧ r.future < 256 ^ 8 ∧ r.edge < 256 ^ 8 ∧
        r.regret < 256 ^ 4 ∧ r.policy < 256 ^ 4 ∧ True) := rfl
  rw [e]
  have a : (256 : Nat) ^ 8 = 18446744073709551616 := by decide
  have b : (256 : Nat) ^ 4 = 4294967296 := by decide
  rw [a, b]
  obtain ⟨h1, h2, h3, h4, h5, h6⟩ := h
  exact ⟨h1, h2, h3, h4, h5, h6, trivial⟩

theorem fits_metric (r : MRow) (h : MRow.ok r) : fits metricSpec.wfields r.toWire := by
  have e : fits metricSpec.wfields r.toWire = (r.xor < 256 ^ 8 ∧ r.dx < 256 ^ 4 ∧ True) := rfl
  rw [e]
  have a : (256 : Nat) ^ 8 = 18446744073709551616 := by decide
  have b : (256 : Nat) ^ 4 = 4294967296 := by decide
  rw [a, b]
  exact ⟨h.1, h.2, trivial⟩

theorem fits_lookup (r : LRow) (h : LRow.ok r) : fits lookupSpec.wfields r.toWire := by
  have e : fits lookupSpec.wfields r.toWire = (r.obs < 256 ^ 8 ∧ r.abs < 256 ^ 8 ∧ True) := rfl
  rw [e]
  have a : (256 : Nat) ^ 8 = 18446744073709551616 := by decide
  rw [a]
  exact ⟨h.1, h.2, trivial⟩

theorem fits_transitions (r : TRow) (h : TRow.ok r) : fits transitionsSpec.wfields r.toWire := by
  have e : fits transitionsSpec.wfields r.toWire = (r.prev < 256 ^ 8 ∧ r.next < 256 ^ 8 ∧ r.dx < 256 ^ 4 ∧ True) := rfl
  rw [e]
  have a : (256 : Nat) ^ 8 = 18446744073709551616 := by decide
  have b : (256 : Nat) ^ 4 = 4294967296 := by decide
  rw [a, b]
  exact ⟨h.1, h.2.1, h.2.2, trivial⟩

theorem fits_map {α : Type} (wfs : List WField) (f : α → List Nat) (rows : List α) (P : α → Prop)
    (h : ∀ r, P r → fits wfs (f r)) (hr : ∀ r ∈ rows, P r) : ∀ w ∈ rows.map f, fits wfs w := by
  intro w hw
  obtain ⟨r, hr', rfl⟩ := List.mem_map.1 hw
  exact h r (hr r hr')

/-! ## what `load` makes of a saved file: the rows inserted in file order -/

theorem specOK_all : specOK blueprintSpec = true ∧ specOK metricSpec = true ∧ specOK lookupSpec = true ∧
    specOK transitionsSpec = true := by decide

theorem load_save_blueprint (rows : List PRow) (hb : ∀ r ∈ rows, PRow.ok r) :
    loadBlueprint (saveBlueprint rows) = some (buildP rows []) := by
  simp only [loadBlueprint, saveBlueprint, load]
  rw [loadWith_encode _ _ _ _ specOK_all.1 _ (fits_map _ _ rows PRow.ok fits_blueprint hb)]
  simp only [List.foldl_map, buildP]
  rfl

theorem load_save_metric (rows : List MRow) (hb : ∀ r ∈ rows, MRow.ok r) :
    loadMetric (saveMetric rows) = some (buildKV (rows.map (fun r => (r.xor, r.dx))) []) := by
  simp only [loadMetric, saveMetric, load]
  rw [loadWith_encode _ _ _ _ specOK_all.2.1 _ (fits_map _ _ rows MRow.ok fits_metric hb)]
  simp only [List.foldl_map, buildKV]
  rfl

theorem load_save_lookup (rows : List LRow) (hb : ∀ r ∈ rows, LRow.ok r) :
    loadLookup (saveLookup rows) = some (buildKV (rows.map (fun r => (r.obs, r.abs))) []) := by
  simp only [loadLookup, saveLookup, load]
  rw [loadWith_encode _ _ _ _ specOK_all.2.2.1 _ (fits_map _ _ rows LRow.ok fits_lookup hb)]
  simp only [List.foldl_map, buildKV]
  rfl

/-! ## round trip -/

/-- **blueprint**: for every canonical profile `t` (buckets ascending by code, every bucket with at
    least one edge, edges ascending, any bit patterns) and every enumeration `rows` of its rows,
    loading the saved file gives back exactly `t`. -/
theorem C17_roundtrip_blueprint (t : PMap) (hw : WFP t) (hk : KeysOK t)
    (rows : List PRow) (hb : ∀ r ∈ rows, PRow.ok r) (hm : ∀ r, r ∈ rows ↔ r ∈ t.rows) :
    loadBlueprint (saveBlueprint rows) = some t := by
  rw [load_save_blueprint rows hb, buildP_eq hw hk hm]

/-- **metric**: every canonical map, every enumeration of its entries. -/
theorem C17_roundtrip_metric (t : KV) (ht : Sorted t)
    (rows : List MRow) (hb : ∀ r ∈ rows, MRow.ok r)
    (hm : ∀ p, p ∈ rows.map (fun r => (r.xor, r.dx)) ↔ p ∈ t) :
    loadMetric (saveMetric rows) = some t := by
  rw [load_save_metric rows hb, buildKV_eq ht hm]

/-- **lookup**: every canonical map, every enumeration of its entries. -/
theorem C17_roundtrip_lookup (t : KV) (ht : Sorted t)
    (rows : List LRow) (hb : ∀ r ∈ rows, LRow.ok r)
    (hm : ∀ p, p ∈ rows.map (fun r => (r.obs, r.abs)) ↔ p ∈ t) :
    loadLookup (saveLookup rows) = some t := by
  rw [load_save_lookup rows hb, buildKV_eq ht hm]

-- non-vacuity: the hypotheses are satisfiable on a table given in a non-canonical order, with a NaN
-- payload, a negative zero and a key with the sign bit set
example : loadMetric (saveMetric [⟨0x8000000000000005, 0x7fc12345⟩, ⟨3, 0x80000000⟩])
    = some [(3, 0x80000000), (0x8000000000000005, 0x7fc12345)] :=
  C17_roundtrip_metric _ (by simp [Sorted]) _ (by simp [MRow.ok]) (by intro p; simp [or_comm])
-- and the model really computes it (kernel evaluation of encoder and decoder)
example : loadMetric (saveMetric [⟨0x8000000000000005, 0x7fc12345⟩, ⟨3, 0x80000000⟩])
    = some [(3, 0x80000000), (0x8000000000000005, 0x7fc12345)] := by decide +kernel
example : loadBlueprint (saveBlueprint [⟨1, 2, 3, 4, 0xff800000, 6⟩, ⟨1, 2, 3, 1, 7, 8⟩, ⟨0, 2, 3, 1, 7, 0x7f800001⟩])
    = some [(bkey 0 2 3, [(1, (7, 0x7f800001))]), (bkey 1 2 3, [(1, (7, 8)), (4, (0xff800000, 6))])] := by decide +kernel
example : loadLookup (saveLookup [⟨0x0102, 0x0300000000000001⟩]) = some [(0x0102, 0x0300000000000001)] := by decide +kernel

/-- the canonical enumeration (ascending codes) is one such enumeration -/
theorem C17_roundtrip_metric_sorted (t : KV) (ht : Sorted t)
    (hb : ∀ p ∈ t, p.1 < 18446744073709551616 ∧ p.2 < 4294967296) :
    loadMetric (saveMetric (t.map (fun p => ⟨p.1, p.2⟩))) = some t := by
  apply C17_roundtrip_metric t ht
  · intro r hr
    obtain ⟨p, hp, rfl⟩ := List.mem_map.1 hr
    exact hb p hp
  · intro p
    simp [List.map_map, Function.comp_def]

theorem C17_roundtrip_lookup_sorted (t : KV) (ht : Sorted t)
    (hb : ∀ p ∈ t, p.1 < 18446744073709551616 ∧ p.2 < 18446744073709551616) :
    loadLookup (saveLookup (t.map (fun p => ⟨p.1, p.2⟩))) = some t := by
  apply C17_roundtrip_lookup t ht
  · intro r hr
    obtain ⟨p, hp, rfl⟩ := List.mem_map.1 hr
    exact hb p hp
  · intro p
    simp [List.map_map, Function.comp_def]

theorem C17_roundtrip_blueprint_sorted (t : PMap) (hw : WFP t) (hk : KeysOK t)
    (hb : ∀ r ∈ t.rows, PRow.ok r) : loadBlueprint (saveBlueprint t.rows) = some t :=
  C17_roundtrip_blueprint t hw hk t.rows hb (fun _ => Iff.rfl)

/-! ## the file is a well-formed COPY stream whose columns carry what their names denote -/

theorem pgOK_all : pgOK blueprintSpec = true ∧ pgOK metricSpec = true ∧ pgOK lookupSpec = true ∧
    pgOK transitionsSpec = true := by decide

/-- **blueprint file**: `pgParse` (the format specification) accepts the file and returns one tuple
    per row whose `i`-th field is the value denoted by the `i`-th COPY column name, in the width of
    the `i`-th `columns()` type. -/
theorem C17_file_blueprint (rows : List PRow) :
    pgParse (saveBlueprint rows)
      = some (rows.map (fun r => declaredFields blueprint_cols blueprint_types r.get)) := by
  simp only [saveBlueprint]
  rw [pgParse_encode _ pgOK_all.1 _ ?_]
  · simp only [List.map_map]
    rfl
  · intro w hw
    obtain ⟨r, _, rfl⟩ := List.mem_map.1 hw
    rfl

-- non-vacuity: one blueprint row, as the format reader sees it
example : pgParse (saveBlueprint [⟨1, 2, 3, 4, 5, 6⟩])
    = some [[some [0,0,0,0,0,0,0,1], some [0,0,0,0,0,0,0,2], some [0,0,0,0,0,0,0,3], some [0,0,0,0,0,0,0,4],
        some [0,0,0,5], some [0,0,0,6]]] := by decide +kernel
-- and a damaged file is rejected by the format reader (trailer missing)
example : pgParse ((saveBlueprint [⟨1, 2, 3, 4, 5, 6⟩]).take 85) = none := by decide +kernel

theorem C17_file_metric (rows : List MRow) :
    pgParse (saveMetric rows) = some (rows.map (fun r => declaredFields metric_cols metric_types r.get)) := by
  simp only [saveMetric]
  rw [pgParse_encode _ pgOK_all.2.1 _ ?_]
  · simp only [List.map_map]
    rfl
  · intro w hw
    obtain ⟨r, _, rfl⟩ := List.mem_map.1 hw
    rfl

theorem C17_file_lookup (rows : List LRow) :
    pgParse (saveLookup rows) = some (rows.map (fun r => declaredFields lookup_cols lookup_types r.get)) := by
  simp only [saveLookup]
  rw [pgParse_encode _ pgOK_all.2.2.1 _ ?_]
  · simp only [List.map_map]
    rfl
  · intro w hw
    obtain ⟨r, _, rfl⟩ := List.mem_map.1 hw
    rfl

theorem C17_file_transitions (rows : List TRow) :
    pgParse (saveTransitions rows)
      = some (rows.map (fun r => declaredFields transitions_cols transitions_types r.get)) := by
  simp only [saveTransitions]
  rw [pgParse_encode _ pgOK_all.2.2.2 _ ?_]
  · simp only [List.map_map]
    rfl
  · intro w hw
    obtain ⟨r, _, rfl⟩ := List.mem_map.1 hw
    rfl

end RP.C17
