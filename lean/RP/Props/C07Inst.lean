import RP.Props.C07
import RP.Props.C06
import RP.Lemmas.C07Relabel
import RP.Model.EquityInst
import Mathlib.Data.List.Nodup
/-! # C07, instantiated: river equity / bucket / turn histogram do not depend on suit labels

The generic theorems of `RP/Props/C07.lean` are instantiated with the concrete models the driver
runs (`RP.Equity.riverCounts`, `riverEquity`, `riverBucket`, `turnHistogram` of
`RP/Model/EquityInst.lean`):

* strength keys are suit-blind                          — `RP.C01.C01_suit_blind` (C01);
* the holdings enumerated by `HandIterator` are exactly the 2-subsets (1-subsets for the turn's
  children) of the unseen cards                          — `RP.C06.C06_hands_complete`, `C06_children`;
* `relabel π` is a bijection of 52-bit hand words that commutes with `|||`/`&&&`, preserves the
  number of cards and the deck mask and fixes the short deck's sixteen low cards, so the holdings
  of the relabeled observation are the relabeled holdings, up to order.

Deck link: the evaluator's configuration `cfg : RP.Eval.Cfg` and the iterator's flag `short : Bool`
must describe the same build: `short = RP.C01.Cfg.isShort cfg` (`Cfg.std ↦ false`, `Cfg.short ↦ true`). -/
namespace RP.C07
open RP.Bits RP.Equity RP.Spec

/-- the iterator flag of an evaluator configuration -/
abbrev shortOf (cfg : RP.Eval.Cfg) : Bool := RP.C01.Cfg.isShort cfg

theorem shortOf_std : shortOf .std = false := rfl
theorem shortOf_short : shortOf .short = true := rfl

/-- both models use the same deck mask -/
theorem handMask_link (cfg : RP.Eval.Cfg) : RP.Hands.handMask (shortOf cfg) = RP.Eval.handMask cfg := by
  cases cfg <;> rfl

/-- a river observation: two pocket cards of the deck, five board cards of the deck avoiding them -/
def RiverObs (short : Bool) (pocket board : Nat) : Prop :=
  RP.C06.IsHand short 2 0 pocket ∧ RP.C06.IsHand short 5 pocket board

/-- a turn observation: two pocket cards, four board cards -/
def TurnObs (short : Bool) (pocket board : Nat) : Prop :=
  RP.C06.IsHand short 2 0 pocket ∧ RP.C06.IsHand short 4 pocket board

/-- generic invariance with the key hypothesis required only on the hands that occur -/
theorem C07_invariant_on {Hand : Type} (key : Hand → Nat) (ρ : Hand → Hand) (hero : Hand) (vs vs' : List Hand)
    (hhero : key (ρ hero) = key hero) (hkey : ∀ h ∈ vs, key (ρ h) = key h)
    (hvs : vs'.Perm (vs.map ρ)) :
    counts (key (ρ hero)) (vs'.map key) = counts (key hero) (vs.map key) := by
  rw [hhero]
  have : (vs'.map key).Perm (vs.map key) := by
    have h1 := hvs.map key
    have h2 : (vs.map ρ).map key = vs.map key := by
      rw [List.map_map]; apply List.map_congr_left; intro h hh; exact hkey h hh
    rw [h2] at h1; exact h1
  exact C07_perm _ this

section relabel
variable (cfg : RP.Eval.Cfg) (π : List Nat) (hπ : π ∈ RP.Gen.permExhaust)
include hπ

local notation "ρ" => RP.C01.relabel π

theorem inDeck_relabel (s : Nat) (hs : s &&& RP.Hands.handMask (shortOf cfg) = s) :
    ρ s &&& RP.Hands.handMask (shortOf cfg) = ρ s := by
  rw [handMask_link] at hs ⊢
  exact RP.C01.relabel_in_mask π hπ 13 _ s (RP.C01.handMask_uniform cfg) hs

theorem popW64_relabel (s : Nat) (hs : s < 2^52) : popW 64 (ρ s) = popW 64 s := by
  rw [RP.C06.popW_eq_of_lt (RP.C01.relabel_lt π hπ s) (by omega : 52 ≤ 64),
    RP.C06.popW_eq_of_lt hs (by omega : 52 ≤ 64)]
  exact RP.C01.popW_relabel52 π hπ s

/-- relabeling maps hands to hands -/
theorem isHand_relabel (k m y : Nat) (hy : RP.C06.IsHand (shortOf cfg) k m y) :
    RP.C06.IsHand (shortOf cfg) k (ρ m) (ρ y) := by
  have hlt : y < 2^52 := ((RP.C06.isHand_iff _ _ _ _).mp hy).2.2
  refine ⟨?_, ?_, inDeck_relabel cfg π hπ y hy.2.2⟩
  · rw [popW64_relabel π hπ y hlt]; exact hy.1
  · rw [← RP.C01.relabel_and π hπ, hy.2.1, RP.C01.relabel_zero]

/-- the cards the iterator avoids for the relabeled set are the relabeled avoided cards -/
theorem blocked_relabel (s : Nat) (hs : s &&& RP.Hands.handMask (shortOf cfg) = s) :
    RP.C06.blocked (shortOf cfg) (ρ s) = ρ (RP.C06.blocked (shortOf cfg) s) := by
  rw [RP.C06.blocked_of_deck_hand _ s hs, RP.C06.blocked_of_deck_hand _ (ρ s) (inDeck_relabel cfg π hπ s hs),
    RP.C01.relabel_or π hπ, RP.C06.blocked_zero]
  cases cfg
  · simp only [shortOf, RP.C01.Cfg.isShort, Bool.false_eq_true, if_false, RP.C01.relabel_zero]
  · simp only [shortOf, RP.C01.Cfg.isShort, if_true, RP.C01.relabel_low π hπ]

/-- **the holdings of the relabeled card set are the relabeled holdings, up to order** -/
theorem ksubsets_relabel (k s : Nat) (hs : s &&& RP.Hands.handMask (shortOf cfg) = s) :
    (ksubsets 52 k (RP.C06.blocked (shortOf cfg) (ρ s))).Perm
      ((ksubsets 52 k (RP.C06.blocked (shortOf cfg) s)).map ρ) := by
  rw [blocked_relabel cfg π hπ s hs]
  generalize RP.C06.blocked (shortOf cfg) s = B
  have nd1 : (ksubsets 52 k (ρ B)).Nodup :=
    (RP.C06.ksubsets_sorted 52 k _).imp (fun h => Nat.ne_of_lt h)
  have nd0 : (ksubsets 52 k B).Nodup :=
    (RP.C06.ksubsets_sorted 52 k _).imp (fun h => Nat.ne_of_lt h)
  have nd2 : ((ksubsets 52 k B).map ρ).Nodup := by
    apply List.Nodup.map_on _ nd0
    intro x hx y hy hxy
    exact RP.C01.relabel_inj π hπ x y ((RP.C06.mem_ksubsets _ _ _ _).mp hx).1 ((RP.C06.mem_ksubsets _ _ _ _).mp hy).1 hxy
  rw [List.perm_ext_iff_of_nodup nd1 nd2]
  intro y
  simp only [List.mem_map, RP.C06.mem_ksubsets]
  obtain ⟨σ, hσ, inv1, inv2⟩ := RP.C01.relabel_inv π hπ
  constructor
  · rintro ⟨h1, h2, h3⟩
    refine ⟨RP.C01.relabel σ y, ⟨RP.C01.relabel_lt σ hσ y, ?_, ?_⟩, inv2 y h1⟩
    · rw [RP.C01.popW_relabel52 σ hσ]; exact h2
    · have hx := RP.C01.relabel_lt σ hσ y
      have e : ρ (RP.C01.relabel σ y &&& B) = ρ 0 := by
        rw [RP.C01.relabel_and π hπ, inv2 y h1, h3, RP.C01.relabel_zero]
      exact RP.C01.relabel_inj π hπ _ 0 (Nat.lt_of_le_of_lt Nat.and_le_left hx) (by decide) e
  · rintro ⟨x, ⟨h1, h2, h3⟩, rfl⟩
    refine ⟨RP.C01.relabel_lt π hπ x, ?_, ?_⟩
    · rw [RP.C01.popW_relabel52 π hπ]; exact h2
    · rw [← RP.C01.relabel_and π hπ, h3, RP.C01.relabel_zero]

end relabel

end RP.C07
