import RP.Props.C07
import RP.Props.C06
import RP.Lemmas.C07Relabel
import RP.Model.EquityInst
import Mathlib.Data.List.Nodup
/-! # C07, instantiated: river equity / bucket / turn histogram do not depend on suit labels

The generic theorems of `RP/Props/C07.lean` are instantiated with the concrete models the driver
runs (`RP.Equity.riverCounts`, `riverEquity`, `riverBucket`, `turnHistogram` of
`RP/Model/EquityInst.lean`):

* strength keys are suit-blind                          — `RP.C01.C01_suit_blind` (C01);
* the holdings enumerated by `HandIterator` are exactly the 2-subsets (1-subsets for the turn's
  children) of the unseen cards                          — `RP.C06.C06_hands_complete`, `C06_children`;
* `relabel π` is a bijection of 52-bit hand words that commutes with `|||`/`&&&`, preserves the
  number of cards and the deck mask and fixes the short deck's sixteen low cards, so the holdings
  of the relabeled observation are the relabeled holdings, up to order.

Deck link: the evaluator's configuration `cfg : RP.Eval.Cfg` and the iterator's flag `short : Bool`
must describe the same build: `short = RP.C01.Cfg.isShort cfg` (`Cfg.std ↦ false`, `Cfg.short ↦ true`). -/
namespace RP.C07
open RP.Bits RP.Equity RP.Spec

/-- the iterator flag of an evaluator configuration -/
abbrev shortOf (cfg : RP.Eval.Cfg) : Bool := RP.C01.Cfg.isShort cfg

theorem shortOf_std : shortOf .std = false := rfl
theorem shortOf_short : shortOf .short = true := rfl

/-- both models use the same deck mask -/
theorem handMask_link (cfg : RP.Eval.Cfg) : RP.Hands.handMask (shortOf cfg) = RP.Eval.handMask cfg := by
  cases cfg <;> rfl

/-- a river observation: two pocket cards of the deck, five board cards of the deck avoiding them -/
def RiverObs (short : Bool) (pocket board : Nat) : Prop :=
  RP.C06.IsHand short 2 0 pocket ∧ RP.C06.IsHand short 5 pocket board

/-- a turn observation: two pocket cards, four board cards -/
def TurnObs (short : Bool) (pocket board : Nat) : Prop :=
  RP.C06.IsHand short 2 0 pocket ∧ RP.C06.IsHand short 4 pocket board

/-- generic invariance with the key hypothesis required only on the hands that occur -/
theorem C07_invariant_on {Hand : Type} (key : Hand → Nat) (ρ : Hand → Hand) (hero : Hand) (vs vs' : List Hand)
    (hhero : key (ρ hero) = key hero) (hkey : ∀ h ∈ vs, key (ρ h) = key h)
    (hvs : vs'.Perm (vs.map ρ)) :
    counts (key (ρ hero)) (vs'.map key) = counts (key hero) (vs.map key) := by
  rw [hhero]
  have : (vs'.map key).Perm (vs.map key) := by
    have h1 := hvs.map key
    have h2 : (vs.map ρ).map key = vs.map key := by
      rw [List.map_map]; apply List.map_congr_left; intro h hh; exact hkey h hh
    rw [h2] at h1; exact h1
  exact C07_perm _ this

section relabel
variable (cfg : RP.Eval.Cfg) (π : List Nat) (hπ : π ∈ RP.Gen.permExhaust)
include hπ

local notation "ρ" => RP.C01.relabel π

theorem inDeck_relabel (s : Nat) (hs : s &&& RP.Hands.handMask (shortOf cfg) = s) :
    ρ s &&& RP.Hands.handMask (shortOf cfg) = ρ s := by
  rw [handMask_link] at hs ⊢
  exact RP.C01.relabel_in_mask π hπ 13 _ s (RP.C01.handMask_uniform cfg) hs

theorem popW64_relabel (s : Nat) (hs : s < 2^52) : popW 64 (ρ s) = popW 64 s := by
  rw [RP.C06.popW_eq_of_lt (RP.C01.relabel_lt π hπ s) (by omega : 52 ≤ 64),
    RP.C06.popW_eq_of_lt hs (by omega : 52 ≤ 64)]
  exact RP.C01.popW_relabel52 π hπ s

/-- relabeling maps hands to hands -/
theorem isHand_relabel (k m y : Nat) (hy : RP.C06.IsHand (shortOf cfg) k m y) :
    RP.C06.IsHand (shortOf cfg) k (ρ m) (ρ y) := by
  have hlt : y < 2^52 := ((RP.C06.isHand_iff _ _ _ _).mp hy).2.2
  refine ⟨?_, ?_, inDeck_relabel cfg π hπ y hy.2.2⟩
  · rw [popW64_relabel π hπ y hlt]; exact hy.1
  · rw [← RP.C01.relabel_and π hπ, hy.2.1, RP.C01.relabel_zero]

/-- the cards the iterator avoids for the relabeled set are the relabeled avoided cards -/
theorem blocked_relabel (s : Nat) (hs : s &&& RP.Hands.handMask (shortOf cfg) = s) :
    RP.C06.blocked (shortOf cfg) (ρ s) = ρ (RP.C06.blocked (shortOf cfg) s) := by
  rw [RP.C06.blocked_of_deck_hand _ s hs, RP.C06.blocked_of_deck_hand _ (ρ s) (inDeck_relabel cfg π hπ s hs),
    RP.C01.relabel_or π hπ, RP.C06.blocked_zero]
  cases cfg
  · simp only [shortOf, RP.C01.Cfg.isShort, Bool.false_eq_true, if_false, RP.C01.relabel_zero]
  · simp only [shortOf, RP.C01.Cfg.isShort, if_true, RP.C01.relabel_low π hπ]

/-- **the holdings of the relabeled card set are the relabeled holdings, up to order** -/
theorem ksubsets_relabel (k s : Nat) (hs : s &&& RP.Hands.handMask (shortOf cfg) = s) :
    (ksubsets 52 k (RP.C06.blocked (shortOf cfg) (ρ s))).Perm
      ((ksubsets 52 k (RP.C06.blocked (shortOf cfg) s)).map ρ) := by
  rw [blocked_relabel cfg π hπ s hs]
  generalize RP.C06.blocked (shortOf cfg) s = B
  have nd1 : (ksubsets 52 k (ρ B)).Nodup :=
    (RP.C06.ksubsets_sorted 52 k _).imp (fun h => Nat.ne_of_lt h)
  have nd0 : (ksubsets 52 k B).Nodup :=
    (RP.C06.ksubsets_sorted 52 k _).imp (fun h => Nat.ne_of_lt h)
  have nd2 : ((ksubsets 52 k B).map ρ).Nodup := by
    apply List.Nodup.map_on _ nd0
    intro x hx y hy hxy
    exact RP.C01.relabel_inj π hπ x y ((RP.C06.mem_ksubsets _ _ _ _).mp hx).1 ((RP.C06.mem_ksubsets _ _ _ _).mp hy).1 hxy
  rw [List.perm_ext_iff_of_nodup nd1 nd2]
  intro y
  simp only [List.mem_map, RP.C06.mem_ksubsets]
  obtain ⟨σ, hσ, inv1, inv2⟩ := RP.C01.relabel_inv π hπ
  constructor
  · rintro ⟨h1, h2, h3⟩
    refine ⟨RP.C01.relabel σ y, ⟨RP.C01.relabel_lt σ hσ y, ?_, ?_⟩, inv2 y h1⟩
    · rw [RP.C01.popW_relabel52 σ hσ]; exact h2
    · have hx := RP.C01.relabel_lt σ hσ y
      have e : ρ (RP.C01.relabel σ y &&& B) = ρ 0 := by
        rw [RP.C01.relabel_and π hπ, inv2 y h1, h3, RP.C01.relabel_zero]
      exact RP.C01.relabel_inj π hπ _ 0 (Nat.lt_of_le_of_lt Nat.and_le_left hx) (by decide) e
  · rintro ⟨x, ⟨h1, h2, h3⟩, rfl⟩
    refine ⟨RP.C01.relabel_lt π hπ x, ?_, ?_⟩
    · rw [RP.C01.popW_relabel52 π hπ]; exact h2
    · rw [← RP.C01.relabel_and π hπ, h3, RP.C01.relabel_zero]

end relabel

/-! ## valid seven-card hands of a river observation -/

theorem isHand_facts {short : Bool} {k m y : Nat} (h : RP.C06.IsHand short k m y) :
    y < 2^52 ∧ popW 52 y = k := by
  obtain ⟨h1, _, h3⟩ := (RP.C06.isHand_iff _ _ _ _).mp h
  exact ⟨h3, by rw [← RP.C06.popW_eq_of_lt h3 (by omega : 52 ≤ 64)]; exact h1⟩

/-- a holding listed for the blocked set of `seen` is a hand of the deck avoiding `seen` -/
theorem isHand_of_mem {short : Bool} {k seen u : Nat}
    (hu : u ∈ ksubsets 52 k (RP.C06.blocked short seen)) : RP.C06.IsHand short k seen u := by
  obtain ⟨h1, h2, h3⟩ := (RP.C06.mem_ksubsets _ _ _ _).mp hu
  exact (RP.C06.isHand_iff _ _ _ _).mpr ⟨by rw [RP.C06.popW_eq_of_lt h1 (by omega : 52 ≤ 64)]; exact h2, h3, h1⟩

/-- the union of two disjoint hands of the deck with 5..7 cards in total is a valid hand for C01 -/
theorem valid_union (cfg : RP.Eval.Cfg) {kx ky mx my x y : Nat}
    (hx : RP.C06.IsHand (shortOf cfg) kx mx x) (hy : RP.C06.IsHand (shortOf cfg) ky my y)
    (hd : x &&& y = 0) (h5 : 5 ≤ kx + ky) (h7 : kx + ky ≤ 7) : RP.C01.ValidHand cfg (x ||| y) := by
  have fx := isHand_facts hx
  have fy := isHand_facts hy
  refine ⟨?_, ?_, ?_⟩
  · rw [← handMask_link, Nat.and_or_distrib_right, hx.2.2, hy.2.2]
  · rw [RP.C06.popW_or_disjoint 52 x y hd, fx.2, fy.2]; exact h5
  · rw [RP.C06.popW_or_disjoint 52 x y hd, fx.2, fy.2]; exact h7

theorem valid_seen (cfg : RP.Eval.Cfg) {p b : Nat} (ho : RiverObs (shortOf cfg) p b) :
    RP.C01.ValidHand cfg (p ||| b) :=
  valid_union cfg ho.1 ho.2 (by rw [Nat.and_comm]; exact ho.2.2.1) (by decide) (by decide)

theorem valid_seven (cfg : RP.Eval.Cfg) {p b u : Nat} (ho : RiverObs (shortOf cfg) p b)
    (hu : u ∈ ksubsets 52 2 (RP.C06.blocked (shortOf cfg) (p ||| b))) :
    RP.C01.ValidHand cfg (b ||| u) := by
  have hU := isHand_of_mem hu
  have hd : b &&& u = 0 := by
    have := (RP.C06.and_or_zero hU.2.1).2
    rw [Nat.and_comm]; exact this
  exact valid_union cfg ho.2 hU hd (by decide) (by decide)

theorem seen_inDeck {short : Bool} {kp kb p b : Nat} (hp : RP.C06.IsHand short kp 0 p) (hb : RP.C06.IsHand short kb p b) :
    (p ||| b) &&& RP.Hands.handMask short = p ||| b := by
  rw [Nat.and_or_distrib_right, hp.2.2, hb.2.2]

theorem strengthKey_relabel (cfg : RP.Eval.Cfg) (π : List Nat) (hπ : π ∈ RP.Gen.permExhaust) (h : Nat)
    (hv : RP.C01.ValidHand cfg h) :
    RP.Eval.strengthKey cfg (RP.C01.relabel π h) = RP.Eval.strengthKey cfg h := by
  simp only [RP.Eval.strengthKey, RP.C01.strength_relabel cfg π hπ h hv]

/-! ## (1) the river counts are invariant under every suit relabeling -/

/-- **C07_river_counts_invariant**: for both decks, every one of the 24 suit relabelings and
    every river observation, the `(wins, total)` pair computed by the composed model (hand
    iterator + evaluator + counting fold — the function the driver runs) is the same for the
    relabeled observation -/
theorem C07_river_counts_invariant (cfg : RP.Eval.Cfg) (π : List Nat) (hπ : π ∈ RP.Gen.permExhaust)
    (p b : Nat) (ho : RiverObs (shortOf cfg) p b) :
    riverCounts cfg (shortOf cfg) (RP.C01.relabel π p) (RP.C01.relabel π b) =
      riverCounts cfg (shortOf cfg) p b := by
  have hdeck := seen_inDeck ho.1 ho.2
  have hperm := ksubsets_relabel cfg π hπ 2 (p ||| b) hdeck
  simp only [riverCounts]
  rw [← RP.C01.relabel_or π hπ, RP.C06.C06_hands_complete _ 2 _ (by decide) (by decide),
    RP.C06.C06_hands_complete _ 2 _ (by decide) (by decide)]
  generalize hL : ksubsets 52 2 (RP.C06.blocked (shortOf cfg) (p ||| b)) = L at hperm
  generalize ksubsets 52 2 (RP.C06.blocked (shortOf cfg) (RP.C01.relabel π (p ||| b))) = L' at hperm
  have hmem : ∀ u ∈ L, RP.C01.ValidHand cfg (b ||| u) := by
    intro u hu; rw [← hL] at hu; exact valid_seven cfg ho hu
  have key := C07_invariant_on (RP.Eval.strengthKey cfg) (RP.C01.relabel π) (p ||| b)
    (L.map (b ||| ·)) (L'.map (RP.C01.relabel π b ||| ·))
    (strengthKey_relabel cfg π hπ _ (valid_seen cfg ho))
    (by
      intro h hh
      obtain ⟨u, hu, rfl⟩ := List.mem_map.mp hh
      exact strengthKey_relabel cfg π hπ _ (hmem u hu))
    (by
      have h1 := hperm.map (RP.C01.relabel π b ||| ·)
      have h2 : (L.map (b ||| ·)).map (RP.C01.relabel π) = (L.map (RP.C01.relabel π)).map (RP.C01.relabel π b ||| ·) := by
        rw [List.map_map, List.map_map]
        apply List.map_congr_left
        intro u _
        simp only [Function.comp, RP.C01.relabel_or π hπ]
      rw [h2]; exact h1)
  rw [List.map_map, List.map_map] at key
  exact key

/-! ## (2) corollaries: equity bits, bucket, and what the fold ranges over -/

/-- the reported `f32` equity is the same value (bit for bit) on the whole suit class -/
theorem C07_river_equity_invariant (cfg : RP.Eval.Cfg) (π : List Nat) (hπ : π ∈ RP.Gen.permExhaust)
    (p b : Nat) (ho : RiverObs (shortOf cfg) p b) :
    riverEquity cfg (shortOf cfg) (RP.C01.relabel π p) (RP.C01.relabel π b) = riverEquity cfg (shortOf cfg) p b ∧
    (riverEquity cfg (shortOf cfg) (RP.C01.relabel π p) (RP.C01.relabel π b)).toBits =
      (riverEquity cfg (shortOf cfg) p b).toBits := by
  simp only [riverEquity, C07_river_counts_invariant cfg π hπ p b ho, and_self]

/-- … and so is the river bucket -/
theorem C07_river_bucket_invariant (cfg : RP.Eval.Cfg) (π : List Nat) (hπ : π ∈ RP.Gen.permExhaust)
    (p b : Nat) (ho : RiverObs (shortOf cfg) p b) :
    riverBucket cfg (shortOf cfg) (RP.C01.relabel π p) (RP.C01.relabel π b) = riverBucket cfg (shortOf cfg) p b := by
  simp only [riverBucket, (C07_river_equity_invariant cfg π hπ p b ho).1]

/-- a relabeled river observation is a river observation -/
theorem riverObs_relabel (cfg : RP.Eval.Cfg) (π : List Nat) (hπ : π ∈ RP.Gen.permExhaust)
    (p b : Nat) (ho : RiverObs (shortOf cfg) p b) :
    RiverObs (shortOf cfg) (RP.C01.relabel π p) (RP.C01.relabel π b) := by
  refine ⟨?_, isHand_relabel cfg π hπ 5 p b ho.2⟩
  have := isHand_relabel cfg π hπ 2 0 p ho.1
  rw [RP.C01.relabel_zero] at this
  exact this

/-- number of cards of the deck not among the seven seen ones -/
def unseen (short : Bool) : Nat := if short then 29 else 45

theorem nFree_river {short : Bool} {kb p b : Nat} (hp : RP.C06.IsHand short 2 0 p) (hb : RP.C06.IsHand short kb p b)
    (hk : kb ≤ 5) : RP.C06.nFree short (p ||| b) + (2 + kb) = if short then 36 else 52 := by
  have fp := isHand_facts hp
  have fb := isHand_facts hb
  have hp' := (RP.C06.isHand_iff _ _ _ _).mp hp
  have hb' := (RP.C06.isHand_iff _ _ _ _).mp hb
  have hdisj : p &&& b = 0 := by rw [Nat.and_comm]; exact hb.2.1
  have hS : p &&& RP.C06.blocked short 0 = 0 := hp'.2.1
  have hbS : b &&& RP.C06.blocked short 0 = 0 := by
    have := hb'.2.1
    rw [RP.C06.blocked_of_deck_hand short p hp.2.2] at this
    exact (RP.C06.and_or_zero this).2
  have hblk := RP.C06.blocked_of_deck_hand short _ (seen_inDeck hp hb)
  unfold RP.C06.nFree
  rw [hblk, RP.C06.popW_or_disjoint _ _ _ (by rw [Nat.and_or_distrib_right, hS, hbS]; rfl),
    RP.C06.popW_or_disjoint _ _ _ hdisj, fp.2, fb.2, RP.C06.blocked_zero]
  have e16 : popW 52 65535 = 16 := by decide
  have e0 : popW 52 0 = 0 := popW_zero 52
  cases short
  · simp only [Bool.false_eq_true, if_false]; rw [e0]; omega
  · simp only [if_true]; rw [e16]; omega

/-- **the fold ranges over exactly the 2-subsets of the unseen cards**: the villain holdings of a
    river observation are, in increasing order and each exactly once, the two-card hands of the
    deck disjoint from the seven seen cards; there are C(45,2) = 990 of them in the standard deck
    and C(29,2) = 406 in the short deck -/
theorem C07_river_holdings (short : Bool) (p b : Nat) (ho : RiverObs short p b) :
    RP.Hands.hands short 2 (p ||| b) = ksubsets 52 2 (RP.C06.blocked short (p ||| b)) ∧
    (∀ v, v ∈ RP.Hands.hands short 2 (p ||| b) ↔ RP.C06.IsHand short 2 (p ||| b) v) ∧
    (RP.Hands.hands short 2 (p ||| b)).Pairwise (· < ·) ∧
    (RP.Hands.hands short 2 (p ||| b)).length = Nat.choose (unseen short) 2 := by
  have hc := RP.C06.C06_hands_complete short 2 (p ||| b) (by decide) (by decide)
  refine ⟨hc, ?_, ?_, ?_⟩
  · intro v
    rw [hc]
    constructor
    · exact isHand_of_mem
    · intro hv
      obtain ⟨h1, h2, h3⟩ := (RP.C06.isHand_iff _ _ _ _).mp hv
      exact (RP.C06.mem_ksubsets _ _ _ _).mpr ⟨h3, by rw [← RP.C06.popW_eq_of_lt h3 (by omega : 52 ≤ 64)]; exact h1, h2⟩
  · rw [hc]; exact RP.C06.ksubsets_sorted _ _ _
  · rw [RP.C06.C06_hands_count short 2 _ (by decide) (by decide)]
    have := nFree_river ho.1 ho.2 (by decide)
    have e : RP.C06.nFree short (p ||| b) = unseen short := by
      unfold unseen
      cases short
      · simp only [Bool.false_eq_true, if_false] at this ⊢; omega
      · simp only [if_true] at this ⊢; omega
    rw [e]

theorem choose_unseen : Nat.choose (unseen false) 2 = 990 ∧ Nat.choose (unseen true) 2 = 406 := by decide

/-- wins ≤ total ≤ number of unseen holdings: at most 990 (standard deck) / 406 (short deck) -/
theorem C07_river_total_le (cfg : RP.Eval.Cfg) (p b : Nat) (ho : RiverObs (shortOf cfg) p b) :
    (riverCounts cfg (shortOf cfg) p b).1 ≤ (riverCounts cfg (shortOf cfg) p b).2 ∧
    (riverCounts cfg (shortOf cfg) p b).2 ≤ Nat.choose (unseen (shortOf cfg)) 2 := by
  refine ⟨C07_wins_le _ _, ?_⟩
  have := C07_total_le (RP.Eval.strengthKey cfg (p ||| b))
    ((RP.Hands.hands (shortOf cfg) 2 (p ||| b)).map (fun v => RP.Eval.strengthKey cfg (b ||| v)))
  rw [List.length_map, (C07_river_holdings _ p b ho).2.2.2] at this
  exact this

/-! ## (3) the turn histogram is invariant -/

/-- a turn observation extended by an unseen card is a river observation -/
theorem riverObs_of_child {short : Bool} {p b t : Nat} (ho : TurnObs short p b)
    (ht : t ∈ ksubsets 52 1 (RP.C06.blocked short (p ||| b))) : RiverObs short p (b ||| t) := by
  have hT := isHand_of_mem ht
  have hz := RP.C06.and_or_zero hT.2.1
  have hd : b &&& t = 0 := by rw [Nat.and_comm]; exact hz.2
  refine ⟨ho.1, ?_, ?_, ?_⟩
  · rw [RP.C06.popW_or_disjoint 64 b t hd, ho.2.1, hT.1]
  · rw [Nat.and_or_distrib_right, ho.2.2.1, hz.1]; rfl
  · rw [Nat.and_or_distrib_right, ho.2.2.2, hT.2.2]

/-- **C07_turn_histogram_invariant**: the histogram of the river buckets of the children of a turn
    observation (`Observation::children` + equity bucket of each child, the function behind the
    driver's `hist` operation) is the same for the relabeled observation -/
theorem C07_turn_histogram_invariant (cfg : RP.Eval.Cfg) (π : List Nat) (hπ : π ∈ RP.Gen.permExhaust)
    (p b : Nat) (ho : TurnObs (shortOf cfg) p b) :
    turnHistogram cfg (shortOf cfg) (RP.C01.relabel π p) (RP.C01.relabel π b) =
      turnHistogram cfg (shortOf cfg) p b := by
  have hp' : RP.C06.IsHand (shortOf cfg) 2 0 (RP.C01.relabel π p) := by
    have := isHand_relabel cfg π hπ 2 0 p ho.1
    rw [RP.C01.relabel_zero] at this
    exact this
  have hb' := isHand_relabel cfg π hπ 4 p b ho.2
  have hc := (RP.C06.C06_children (shortOf cfg) 2 p b (by decide) ho.1 ho.2).1
  have hc' := (RP.C06.C06_children (shortOf cfg) 2 _ _ (by decide) hp' hb').1
  have e1 : RP.Hands.nRevealed 2 = 1 := by decide
  rw [e1] at hc hc'
  rw [← RP.C01.relabel_or π hπ] at hc'
  have hperm := ksubsets_relabel cfg π hπ 1 (p ||| b) (seen_inDeck ho.1 ho.2)
  simp only [turnHistogram, hc, hc', Option.map_some, List.map_map]
  apply congrArg some
  apply C07_histogram_perm
  generalize hK : ksubsets 52 1 (RP.C06.blocked (shortOf cfg) (p ||| b)) = K at hperm
  generalize ksubsets 52 1 (RP.C06.blocked (shortOf cfg) (RP.C01.relabel π (p ||| b))) = K' at hperm
  have h1 := hperm.map ((fun o : Nat × Nat => riverBucket cfg (shortOf cfg) o.1 o.2) ∘
    fun r => (RP.C01.relabel π p, RP.C01.relabel π b ||| r))
  refine h1.trans ?_
  rw [List.map_map]
  apply List.Perm.of_eq
  apply List.map_congr_left
  intro t ht
  rw [← hK] at ht
  simp only [Function.comp]
  rw [← RP.C01.relabel_or π hπ]
  exact C07_river_bucket_invariant cfg π hπ p (b ||| t) (riverObs_of_child ho ht)

theorem C07_river_total_le_std (p b : Nat) (ho : RiverObs false p b) :
    (riverCounts .std false p b).2 ≤ 990 := by
  have h := (C07_river_total_le .std p b ho).2
  have e : Nat.choose (unseen (shortOf .std)) 2 = 990 := choose_unseen.1
  rw [e] at h
  exact h

/-! ## non-vacuity: 2d5s on 4d6d7hKdAd (the observation whose equity the repaired flush tie
changed from 1.0 to 0.67: `riverCounts = (666, 990)` under `#eval`) and its image under d ↔ h -/

def exPocket : Nat := 2^1 + 2^15
def exBoard : Nat := 2^9 + 2^17 + 2^22 + 2^45 + 2^49
def exTurn : Nat := 2^9 + 2^17 + 2^22 + 2^45
def swapDH : List Nat := [0, 2, 1, 3]

example : swapDH ∈ RP.Gen.permExhaust := by decide
example : RiverObs false exPocket exBoard := by unfold RiverObs RP.C06.IsHand; decide
example : TurnObs false exPocket exTurn := by unfold TurnObs RP.C06.IsHand; decide
-- the image is 2h5s on 4h6h7dKhAh
example : RP.C01.relabel swapDH exPocket = 2^2 + 2^15 ∧
    RP.C01.relabel swapDH exBoard = 2^10 + 2^18 + 2^21 + 2^46 + 2^50 := by decide
example : riverCounts .std false (2^2 + 2^15) (2^10 + 2^18 + 2^21 + 2^46 + 2^50) =
    riverCounts .std false exPocket exBoard :=
  C07_river_counts_invariant .std swapDH (by decide) exPocket exBoard (by unfold RiverObs RP.C06.IsHand; decide)
example : riverBucket .std false (2^2 + 2^15) (2^10 + 2^18 + 2^21 + 2^46 + 2^50) =
    riverBucket .std false exPocket exBoard :=
  C07_river_bucket_invariant .std swapDH (by decide) exPocket exBoard (by unfold RiverObs RP.C06.IsHand; decide)
example : turnHistogram .std false (2^2 + 2^15) (2^10 + 2^18 + 2^21 + 2^46) =
    turnHistogram .std false exPocket exTurn :=
  C07_turn_histogram_invariant .std swapDH (by decide) exPocket exTurn (by unfold TurnObs RP.C06.IsHand; decide)
example : (riverCounts .std false exPocket exBoard).2 ≤ 990 :=
  C07_river_total_le_std exPocket exBoard (by unfold RiverObs RP.C06.IsHand; decide)
-- short deck: 6d9s on 7d8hKdAd (+ Td on the river), same swap
example : RiverObs true (2^17 + 2^31) (2^21 + 2^26 + 2^33 + 2^45 + 2^49) ∧ TurnObs true (2^17 + 2^31) (2^21 + 2^26 + 2^45 + 2^49) := by
  unfold RiverObs TurnObs RP.C06.IsHand; decide
example : riverCounts .short true (RP.C01.relabel swapDH (2^17 + 2^31)) (RP.C01.relabel swapDH (2^21 + 2^26 + 2^33 + 2^45 + 2^49)) =
    riverCounts .short true (2^17 + 2^31) (2^21 + 2^26 + 2^33 + 2^45 + 2^49) :=
  C07_river_counts_invariant .short swapDH (by decide) _ _ (by unfold RiverObs RP.C06.IsHand; decide)
-- a five-card board is not a turn observation, overlapping cards are no observation at all
example : ¬ TurnObs false exPocket exBoard := by unfold TurnObs RP.C06.IsHand; decide
example : ¬ RiverObs false exPocket (exBoard - 2^9 + 2^1) := by unfold RiverObs RP.C06.IsHand; decide

end RP.C07
