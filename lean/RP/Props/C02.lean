import RP.Lemmas.Game
/-! # C02 — Chips are conserved and a hand is zero-sum along every action history

Model: `RP.Game` (`lean/RP/Model/Game.lean`), the two-seat `Game` of src/gameplay/game.rs with
`STACK`, blinds and `N` taken from the generated `RP.Gen` constants. The only facts about the
constants the proofs use are `RP.Game.consts_ok` (`0 < SB ≤ BB < STACK`, `2·STACK ≤ 32767`) and
`N = 2`, `dealer = 0`, `ticker = 1`, touched thresholds `2/0`, all discharged by `decide` on the
generated values.

The invariant `RP.Game.GameInv` (file `RP/Lemmas/Game.lean`) holds at the root for every valid
deal and is preserved by every accepted action (`step? g a = some g'`), hence along every action
list, of every length, with every integer chip amount. The statements of the property are read
off the invariant seat by seat (`Conserved`), and the payout at every terminal state is computed
through the model of `Showdown::settle` (`RP.Showdown.settle`, shared with C04) for an arbitrary
hand-strength function. -/
namespace RP.C02
open RP.Game
open RP.Showdown (Status)

/-- the statement of the property about one state, seat by seat, plus the `i16` range facts -/
structure Conserved (g : Game) : Prop where
  pot_eq : g.pot = g.s0.spent + g.s1.spent
  sum0 : g.s0.stack + g.s0.spent = STACK
  sum1 : g.s1.stack + g.s1.spent = STACK
  stack0 : 0 ≤ g.s0.stack
  stack1 : 0 ≤ g.s1.stack
  stake0 : 0 ≤ g.s0.stake ∧ g.s0.stake ≤ g.s0.spent
  stake1 : 0 ≤ g.s1.stake ∧ g.s1.stake ≤ g.s1.spent
  allin0 : g.s0.state ≠ Status.folding → (g.s0.state = Status.shoving ↔ g.s0.stack = 0)
  allin1 : g.s1.state ≠ Status.folding → (g.s1.state = Status.shoving ↔ g.s1.stack = 0)
  /-- every chip quantity fits `i16` with room for one more bet -/
  range : g.pot ≤ 2 * STACK ∧ g.s0.spent ≤ STACK ∧ g.s1.spent ≤ STACK ∧ 2 * STACK ≤ 32767

/-- ① the invariant holds in the freshly dealt hand -/
theorem C02_inv_root {h0 h1 : Nat} (hv : ValidDeal h0 h1) : GameInv (root h0 h1) := inv_root hv

/-! `Game::root()` is `base().deal().post()`: two blinds through `act` from the base state -/

theorem street_base (s0 s1 : Seat) (p : Int) (d t : Nat) :
    street { s0 := s0, s1 := s1, pot := p, board := 0, dealer := d, ticker := t } = 0 := by
  unfold street; simp only [RP.Bits.popW_zero]; rw [streetOf_eq]; rfl

/-- the state between the two blinds -/
def halfPosted (a b : Nat) : Game :=
  { s0 := freshSeat a,
    s1 := { state := Status.betting, stack := STACK - SB, stake := SB, spent := SB, hole := b },
    pot := SB, board := 0, dealer := 0, ticker := 2 }

theorem C02_root_posted (a b : Nat) : post? (base a b) = some (root a b) := by
  have hc := consts_ok
  have hm1 : min SB STACK = SB := by omega
  have hm2 : min BB STACK = BB := by omega
  have e1 : step? (base a b) (.blind (toPost (base a b))) = some (halfPosted a b) := by
    have hx : ¬ STACK - SB = 0 := by omega
    have hp : (0:Int) < SB + BB := by omega
    simp [step?, isAllowed, mustStop, mustPost, betOk, Action.chips, act, bet, nextPlayer, advance,
      isEveryoneAlright, isEveryoneCalling, isEveryoneTouched, isEveryoneMatched, isEveryoneFolding,
      isEveryoneShoving, effectiveStake, toPost, actor, actorIdx, base, freshSeat, Seat.bet, halfPosted,
      baseDealer_eq, baseTicker_eq, n_eq, touchedPref_eq, street_base, hm1, hx, hp]
    omega
  have e2 : toPost (halfPosted a b) = BB := by
    simp [toPost, halfPosted, actor, actorIdx, n_eq, freshSeat, hm2]
  have e3 : step? (halfPosted a b) (.blind BB) = some (root a b) := by
    have hx : ¬ STACK - BB = 0 := by omega
    have hp : SB < SB + BB := by omega
    simp [step?, isAllowed, mustStop, mustPost, betOk, Action.chips, act, bet, nextPlayer, advance,
      isEveryoneAlright, isEveryoneCalling, isEveryoneTouched, isEveryoneMatched, isEveryoneFolding,
      isEveryoneShoving, effectiveStake, actor, actorIdx, root, freshSeat, Seat.bet, halfPosted,
      baseDealer_eq, baseTicker_eq, n_eq, touchedPref_eq, street_base, hx, hp]
    omega
  unfold post?
  rw [e1]; simp only [Option.bind]; rw [e2, e3]

/-- ① the invariant is preserved by every accepted action -/
theorem C02_inv_step {g g' : Game} {a : Action} (h : GameInv g) (hs : step? g a = some g') :
    GameInv g' := inv_step h hs

/-- ① … hence it holds after every action list that the engine accepts -/
theorem C02_reachable {h0 h1 : Nat} (hv : ValidDeal h0 h1) {as : List Action} {g : Game}
    (hr : run? (root h0 h1) as = some g) : GameInv g := inv_run (inv_root hv) hr

/-- the invariant contains the property's statement -/
theorem C02_conserved {g : Game} (h : GameInv g) : Conserved g := by
  obtain ⟨hp, hpot⟩ := seats_view h
  obtain ⟨h1, h2, h3, h4, h5, h6, h7, h8, h9, h10, h11, h12, h13, h14, h15, h16, h17⟩ := hp
  have hc := consts_ok
  refine ⟨hpot, h1, h2, h3, h4, ⟨h5, h8⟩, ⟨h6, by omega⟩, ?_, ?_, by omega⟩
  · intro hf
    constructor
    · exact h12
    · intro hz
      cases hs : g.s0.state
      · have := h14 hs; omega
      · rfl
      · exact absurd hs hf
  · intro hf
    constructor
    · exact h13
    · intro hz
      cases hs : g.s1.state
      · have := h15 hs; omega
      · rfl
      · exact absurd hs hf

/-- **C02, first half.** Along every accepted action history from a freshly dealt hand: no stack
is negative, the pot equals what the players have put in, stack + contribution = `STACK`. -/
theorem C02_history {h0 h1 : Nat} (hv : ValidDeal h0 h1) {as : List Action} {g : Game}
    (hr : run? (root h0 h1) as = some g) : Conserved g :=
  C02_conserved (C02_reachable hv hr)

/-- no `i16` overflow: every intermediate value of `to_call / to_raise / to_shove`, and the pot
after any accepted bet, stays inside `[-1, 2·STACK] ⊆ i16` -/
theorem C02_no_overflow {g : Game} (h : GameInv g) (hna : isEveryoneAlright g = false) :
    0 ≤ toCall g ∧ toCall g ≤ STACK ∧ 0 < toRaise g ∧ toRaise g ≤ 2 * STACK ∧
    0 < toShove g ∧ toShove g ≤ STACK ∧ -1 ≤ toShove g - 1 ∧
    (∀ x, isAllowed g (.call x) = true ∨ isAllowed g (.raise x) = true ∨ isAllowed g (.shove x) = true →
      0 < x ∧ x ≤ toShove g ∧ g.pot + x ≤ 2 * STACK) ∧ 2 * STACK ≤ 32767 := by
  obtain ⟨_, _, _, hle, hk, hc, hr, hsv⟩ := choice_view h hna
  have hp := h.pair
  have hpot := h.pot_eq
  have hcs := consts_ok
  obtain ⟨h1, h2, h3, h4, h5, h6, h7, h8, h9, h10, h11, h12, h13, h14, h15, h16, h17⟩ := hp
  refine ⟨by omega, by omega, by omega, by omega, by omega, by omega, by omega, ?_, by omega⟩
  intro x hx
  rcases hx with hx | hx | hx
  · obtain ⟨_, a, b, c⟩ := (allowed_call_iff h x).1 hx; omega
  · obtain ⟨_, a, b⟩ := (allowed_raise_iff h x).1 hx; omega
  · obtain ⟨_, a⟩ := (allowed_shove_iff h x).1 hx; omega

/-- **C02, second half (payout).** At every terminal state satisfying the invariant, for every
hand-strength function: `settlements` succeeds with two entries whose rewards add up to the
pot (net winnings sum to zero); a folded seat receives nothing and the other seat the whole pot;
at a showdown the stronger hand takes the whole pot and equal strengths split it exactly
(both have contributed the same, so there is no odd chip). -/
theorem C02_payout {g : Game} (h : GameInv g) (hs : mustStop g = true) (strength : Nat → Nat) :
    ∃ r0 r1 : Int,
      rewards strength g = some [r0, r1] ∧
      pnls strength g = some [r0 - g.s0.spent, r1 - g.s1.spent] ∧
      r0 + r1 = g.pot ∧ (r0 - g.s0.spent) + (r1 - g.s1.spent) = 0 ∧ 0 ≤ r0 ∧ 0 ≤ r1 ∧
      (g.s0.state = Status.folding → r0 = 0 ∧ r1 = g.pot) ∧
      (g.s1.state = Status.folding → r1 = 0 ∧ r0 = g.pot) ∧
      (g.s0.state ≠ Status.folding → g.s1.state ≠ Status.folding →
        let a := strength (g.s0.hole ||| g.board)
        let b := strength (g.s1.hole ||| g.board)
        (b < a → r0 = g.pot ∧ r1 = 0) ∧ (a < b → r0 = 0 ∧ r1 = g.pot) ∧
        (a = b → r0 = g.s0.spent ∧ r1 = g.s1.spent ∧ r0 = r1)) := by
  obtain ⟨hp, hpot⟩ := seats_view h
  have hc := consts_ok
  have hsp0 : 0 < g.s0.spent := by have := hp.blindA; omega
  have hsp1 : 0 < g.s1.spent := by have := hp.blindO; omega
  have hset : settlements strength g = some (RP.Showdown.settle
      [⟨g.s0.spent, g.s0.state, strength (g.s0.hole ||| g.board), 0⟩,
       ⟨g.s1.spent, g.s1.state, strength (g.s1.hole ||| g.board), 0⟩]) := by
    unfold settlements ledger entry; simp [hs]
  rcases terminal_view h hs with ⟨f0, n1, hlt⟩ | ⟨f1, n0, hlt⟩ | ⟨_, n0, n1, heq⟩
  · refine ⟨0, g.s0.spent + g.s1.spent, ?_, ?_, by omega, by omega, by omega, by omega, ?_, ?_, ?_⟩
    · unfold rewards; rw [hset, f0, settle_fold0 _ _ _ _ _ n1 (by omega) hlt]; rfl
    · unfold pnls; rw [hset, f0, settle_fold0 _ _ _ _ _ n1 (by omega) hlt]; simp
    · intro _; exact ⟨rfl, hpot.symm⟩
    · intro f1; exact absurd f1 n1
    · intro n0; exact absurd f0 n0
  · refine ⟨g.s0.spent + g.s1.spent, 0, ?_, ?_, by omega, by omega, by omega, by omega, ?_, ?_, ?_⟩
    · unfold rewards; rw [hset, f1, settle_fold1 _ _ _ _ _ n0 (by omega) hlt]; rfl
    · unfold pnls; rw [hset, f1, settle_fold1 _ _ _ _ _ n0 (by omega) hlt]; simp
    · intro f0; exact absurd f0 n0
    · intro _; exact ⟨rfl, hpot.symm⟩
    · intro _ n1; exact absurd f1 n1
  · rw [← heq] at hset
    rcases Nat.lt_trichotomy (strength (g.s1.hole ||| g.board)) (strength (g.s0.hole ||| g.board)) with hgt | he | hlt
    · refine ⟨g.s0.spent + g.s0.spent, 0, ?_, ?_, by omega, by omega, by omega, by omega, ?_, ?_, ?_⟩
      · unfold rewards; rw [hset, settle_show_gt _ _ _ _ _ n0 n1 hsp0 hgt]; rfl
      · unfold pnls; rw [hset, settle_show_gt _ _ _ _ _ n0 n1 hsp0 hgt]; simp; omega
      · intro f0; exact absurd f0 n0
      · intro f1; exact absurd f1 n1
      · intro _ _; refine ⟨fun _ => ⟨by omega, rfl⟩, fun hh => by omega, fun hh => by omega⟩
    · refine ⟨g.s0.spent, g.s0.spent, ?_, ?_, by omega, by omega, by omega, by omega, ?_, ?_, ?_⟩
      · unfold rewards; rw [hset, he, settle_show_eq _ _ _ _ n0 n1 hsp0]; rfl
      · unfold pnls; rw [hset, he, settle_show_eq _ _ _ _ n0 n1 hsp0]; simp; omega
      · intro f0; exact absurd f0 n0
      · intro f1; exact absurd f1 n1
      · intro _ _; refine ⟨fun hh => by omega, fun hh => by omega, fun _ => ⟨rfl, heq, rfl⟩⟩
    · refine ⟨0, g.s0.spent + g.s0.spent, ?_, ?_, by omega, by omega, by omega, by omega, ?_, ?_, ?_⟩
      · unfold rewards; rw [hset, settle_show_lt _ _ _ _ _ n0 n1 hsp0 hlt]; rfl
      · unfold pnls; rw [hset, settle_show_lt _ _ _ _ _ n0 n1 hsp0 hlt]; simp; omega
      · intro f0; exact absurd f0 n0
      · intro f1; exact absurd f1 n1
      · intro _ _; refine ⟨fun hh => by omega, fun _ => ⟨rfl, by omega⟩, fun hh => by omega⟩

/-! ## non-vacuity: a concrete multi-street history (call, check, flop, bet 10, raise to 30, call,
turn, check, check, river, shove, call) reaches a terminal all-in showdown; the theorems above
apply to it and the computed payouts are the expected ones -/

/-- holes `2c2d` / `3c3d`, flop `4c4d4h`, turn `5c`, river `6c` -/
def demoHistory : List Action :=
  [.call 1, .check, .draw 0x700, .raise 10, .raise 30, .call 20, .draw 0x1000, .check, .check,
   .draw 0x10000, .shove 68, .shove 68]

theorem demo_deal : ValidDeal 0x3 0x30 := by unfold ValidDeal; decide
example : (run? (root 0x3 0x30) demoHistory).map (fun g => (turn g, g.pot, g.s0.stack, g.s1.stack, street g)) =
    some (Turn.terminal, 200, 0, 0, 3) := by decide
-- the theorems apply to it (their hypotheses are satisfiable)
example : ∃ g, run? (root 0x3 0x30) demoHistory = some g ∧ Conserved g ∧ mustStop g = true := by
  cases h : run? (root 0x3 0x30) demoHistory with
  | none => exact absurd h (by decide)
  | some g =>
    refine ⟨g, rfl, C02_history demo_deal h, ?_⟩
    have : (run? (root 0x3 0x30) demoHistory).map mustStop = some true := by decide
    rw [h] at this; simpa using this
-- seat 1 stronger / seat 0 stronger / tie
example : (run? (root 0x3 0x30) demoHistory).bind (rewards (fun m => if m &&& 0x30 = 0 then 1 else 2)) = some [0, 200] := by decide
example : (run? (root 0x3 0x30) demoHistory).bind (rewards (fun m => if m &&& 0x30 = 0 then 2 else 1)) = some [200, 0] := by decide
example : (run? (root 0x3 0x30) demoHistory).bind (rewards (fun _ => 7)) = some [100, 100] := by decide
-- a fold on the turn: the folder gets nothing
example : (run? (root 0x3 0x30) [.call 1, .check, .draw 0x700, .raise 10, .call 10, .draw 0x1000, .raise 24, .fold]).bind
    (pnls (fun _ => 0)) = some [-12, 12] := by decide
-- the invariant's hypotheses are satisfiable at every node kind: root is a choice node
example : turn (root 0x3 0x30) = Turn.choice 1 := by decide
-- a rejected action: no state
example : step? (root 0x3 0x30) (.raise 2) = none := by decide
example : step? (root 0x3 0x30) (.raise 3) ≠ none := by decide

end RP.C02
