import RP.Lemmas.IsoBridge
/-! # C05 — Suit-isomorphism canonicalisation is invariant, faithful and idempotent

Model: `RP/Model/Iso.lean` (`Permutation::from/permute/image/shift`, `Isomorphism::from`,
`is_canonical` at bit level, parametrised by the deck mask `m`).  All theorems hold for every
deck mask satisfying `MaskOK` (52 bits, closed under changing a card's suit); `maskOK_std` and
`maskOK_short` discharge that for the two generated masks `RP.Gen.handMaskStd/Short` by `decide`,
so both builds are covered.  `S4 = RP.Gen.permExhaust` is the generated 24-row table of
`Permutation::exhaust()`; `exhaust_is_S4` shows it is exactly the set of rearrangements of the
four suits.

Everything is proved for **all** observations (no enumeration): the abstract argument
(`Lemmas/IsoSort`: four contents sorted by `(key, suit)`) is connected to the bit-level model by
`Lemmas/IsoBits/IsoKeys/IsoOrder/IsoImage/IsoBridge` (shift by the suit difference = relabel,
keys do not see the suit, the model's sort is the abstract sort of the contents).

`Valid m o` asks less than the property does (no disjointness of pocket and board, any board
size ≤ 5), so the theorems cover every `Observation` value the Rust type can hold. -/
namespace RP.C05
open RP.Iso List

/-- what `Observation::from((Hand, Hand))` guarantees: cards inside the deck, two pocket cards,
    at most five board cards -/
structure Valid (m : Nat) (o : Obs) : Prop where
  pocket_in : o.pocket &&& m = o.pocket
  board_in : o.board &&& m = o.board
  pocket2 : size o.pocket = 2
  board5 : size o.board ≤ 5

/-- the observations of the property statement: additionally disjoint, 0/3/4/5 board cards -/
structure WellFormed (m : Nat) (o : Obs) : Prop extends Valid m o where
  disjoint : o.pocket &&& o.board = 0
  street : size o.board = 0 ∨ size o.board = 3 ∨ size o.board = 4 ∨ size o.board = 5

theorem permute_pocket (m : Nat) (p : List Nat) (o : Obs) : (permute m p o).pocket = image m p o.pocket := rfl
theorem permute_board (m : Nat) (p : List Nat) (o : Obs) : (permute m p o).board = image m p o.board := rfl
theorem canon_pocket (m : Nat) (o : Obs) : (canon m o).pocket = image m (permOf m o) o.pocket := rfl
theorem canon_board (m : Nat) (o : Obs) : (canon m o).board = image m (permOf m o) o.board := rfl
theorem permute_eq (m : Nat) (p : List Nat) (o : Obs) : permute m p o = ⟨image m p o.pocket, image m p o.board⟩ := rfl
theorem canon_eq (m : Nat) (o : Obs) : canon m o = permute m (permOf m o) o := rfl
theorem Obs.ext' {a b : Obs} (h1 : a.pocket = b.pocket) (h2 : a.board = b.board) : a = b := by
  cases a; cases b; simp only at h1 h2; rw [h1, h2]

/-! ## example observations for the non-vacuity checks

`exA` = `2s Ks ~ 2d 5h 8c Tc Th`, `exB` = `2s Ks ~ 2h 5c 8d Tc Td` (the repository's `super_symmetry` pair):
`exB` is `exA` relabeled by `c→d, d→h, h→c`. `exT` = `2c 2d ~ 3c 3d 4h` has two tied suits. -/
def exA : Obs := ⟨2^3 + 2^47, 2^1 + 2^14 + 2^24 + 2^32 + 2^34⟩
def exB : Obs := ⟨2^3 + 2^47, 2^2 + 2^12 + 2^25 + 2^32 + 2^33⟩
def exT : Obs := ⟨2^0 + 2^1, 2^4 + 2^5 + 2^10⟩
def exS : Obs := ⟨2^19 + 2^47, 2^17 + 2^30 + 2^40 + 2^48 + 2^50⟩   -- 6s Ks ~ 6d 9h Qc Ac Ah (inside the short deck)

theorem exA_valid : Valid RP.Gen.handMaskStd exA :=
  ⟨by decide +kernel, by decide +kernel, by decide +kernel, by decide +kernel⟩
theorem exB_valid : Valid RP.Gen.handMaskStd exB :=
  ⟨by decide +kernel, by decide +kernel, by decide +kernel, by decide +kernel⟩
theorem exT_valid : Valid RP.Gen.handMaskStd exT :=
  ⟨by decide +kernel, by decide +kernel, by decide +kernel, by decide +kernel⟩
theorem exS_valid : Valid RP.Gen.handMaskShort exS :=
  ⟨by decide +kernel, by decide +kernel, by decide +kernel, by decide +kernel⟩

/-! ## relabeling is total and stays inside the observations -/

theorem valid_permute {m : Nat} (hm : MaskOK m) {p : List Nat} (hp : p ∈ S4) {o : Obs} (ho : Valid m o) :
    Valid m (permute m p o) :=
  ⟨image_and_mask hm hp _, image_and_mask hm hp _,
   by rw [permute_pocket, size_image hm hp _ ho.pocket_in]; exact ho.pocket2,
   by rw [permute_board, size_image hm hp _ ho.board_in]; exact ho.board5⟩

/-- no assertion of `Permutation::permute` (`Hand::add`, `Observation::from`) fires -/
theorem permute?_eq {m : Nat} (hm : MaskOK m) {p : List Nat} (hp : p ∈ S4) {o : Obs} (ho : Valid m o) :
    permute? m p o = some (permute m p o) := by
  have hv := valid_permute hm hp ho
  have h2 := hv.pocket2
  have h5 := hv.board5
  rw [permute_pocket] at h2
  rw [permute_board] at h5
  simp [permute?, image?_eq hm hp, obsFrom?, permute_eq, h2, h5]

-- non-vacuity: a relabeling that really moves cards, evaluated through the asserting functions
example : permute? RP.Gen.handMaskStd [1, 2, 0, 3] exA = some exB ∧ exB ≠ exA := by decide +kernel

theorem wellFormed_permute {m : Nat} (hm : MaskOK m) {p : List Nat} (hp : p ∈ S4) {o : Obs}
    (ho : WellFormed m o) : WellFormed m (permute m p o) := by
  refine { valid_permute hm hp ho.toValid with disjoint := ?_, street := ?_ }
  · rw [permute_pocket, permute_board]
    apply Nat.eq_of_testBit_eq
    intro i
    obtain ⟨s, hs, hsi⟩ := pmap_surj p hp (i % 4) (by omega)
    rw [Nat.testBit_and, image_testBit_at hm hp hs _ hsi.symm, image_testBit_at hm hp hs _ hsi.symm,
      Nat.zero_testBit]
    have : (o.pocket &&& o.board).testBit (i / 4 * 4 + s) = false := by rw [ho.disjoint]; simp
    rw [Nat.testBit_and] at this
    cases m.testBit i <;> simp [this]
  · rw [permute_board, size_image hm hp _ ho.board_in]; exact ho.street

theorem canon?_eq {m : Nat} (hm : MaskOK m) {o : Obs} (ho : Valid m o) :
    canon? m o = some (canon m o) := permute?_eq hm (permOf_mem m o) ho

theorem valid_canon {m : Nat} (hm : MaskOK m) {o : Obs} (ho : Valid m o) : Valid m (canon m o) :=
  valid_permute hm (permOf_mem m o) ho

/-! ## key completeness (the counting argument) -/

/-- **key_complete**: within one observation, two suits with the same six content keys
    `(|pocket∩s|, |board∩s|, min/max ranks)` hold the same ranks in the pocket and on the board.
    (The pocket has 2 cards, so each suit's part is determined by size/min/max; two suits with the
    same board size `q` need `2q ≤ 5`, so `q ≤ 2` and the same holds for the board part.) -/
theorem key_complete {m : Nat} (hm : MaskOK m) {o : Obs} (ho : Valid m o) {s t : Nat} (hs : s < 4) (ht : t < 4)
    (hk : KN (cont m o s) = KN (cont m o t)) : cont m o s = cont m o t := by
  by_cases hst : s = t
  · rw [hst]
  obtain ⟨k1, k2, k3, k4, k5, k6⟩ := kcode_inj hk
  have sp := size_norms hm ho.pocket_in
  have sb := size_norms hm ho.board_in
  have p2 := ho.pocket2
  have b5 := ho.board5
  simp only [cont] at k1 k2 k3 k4 k5 k6
  have cs : s = 0 ∨ s = 1 ∨ s = 2 ∨ s = 3 := by omega
  have ct : t = 0 ∨ t = 1 ∨ t = 2 ∨ t = 3 := by omega
  have hp2 : size (norm m o.pocket s) ≤ 2 := by
    rcases cs with rfl | rfl | rfl | rfl <;> omega
  have hb2 : size (norm m o.board s) ≤ 2 := by
    rcases cs with rfl | rfl | rfl | rfl <;> rcases ct with rfl | rfl | rfl | rfl <;> omega
  apply NC.ext
  · exact determined (norm_normalized _ _ _) (norm_normalized _ _ _) k1 hp2 k3 k5
  · exact determined (norm_normalized _ _ _) (norm_normalized _ _ _) k2 hb2 k4 k6

-- non-vacuity: `2c 2d ~ 3c 3d 4h` has two different suits (c, d) with the same key, and a third with another key
example : KN (cont RP.Gen.handMaskStd exT 0) = KN (cont RP.Gen.handMaskStd exT 1) ∧
    KN (cont RP.Gen.handMaskStd exT 0) ≠ KN (cont RP.Gen.handMaskStd exT 2) := by decide +kernel
example : cont RP.Gen.handMaskStd exT 0 = cont RP.Gen.handMaskStd exT 1 :=
  key_complete maskOK_std exT_valid (by decide) (by decide) (by decide +kernel)

/-- the same at the level of the model's sort entries: a tie on the six content keys of
    `Permutation::order` means equal contents (up to the suit position) -/
theorem key_complete_model {m : Nat} (hm : MaskOK m) {o : Obs} (ho : Valid m o) {s t : Nat} (hs : s < 4) (ht : t < 4)
    (hk : (keyVec (colex m o s)).take 6 = (keyVec (colex m o t)).take 6) :
    ofSuit m o.pocket s >>> s = ofSuit m o.pocket t >>> t ∧ ofSuit m o.board s >>> s = ofSuit m o.board t >>> t := by
  simp only [colex, keyVec_eq, take_succ_cons, take_zero, cons.injEq, and_true] at hk
  obtain ⟨a1, a2, a3, a4, a5, a6⟩ := hk
  have hkc : KN (cont m o s) = KN (cont m o t) := by
    have e : ∀ u, u < 4 → KN (cont m o u) = kcode (ofSuit m o.pocket u) (ofSuit m o.board u) := by
      intro u hu
      simp only [KN, cont]
      rw [ofSuit_eq_norm hu, ofSuit_eq_norm hu, kcode_shift (norm_normalized _ _ _) (norm_normalized _ _ _) hu]
    rw [e s hs, e t ht]
    simp only [kcode, a1, a2, a3, a4, a5, a6]
  have := key_complete hm ho hs ht hkc
  exact ⟨congrArg (fun k : NC => k.1.1) this, congrArg (fun k : NC => k.1.2) this⟩

/-! ## the comparison is strict and total on the four entries: every sort returns the model's list -/

theorem orderLt_asymm : ∀ a b : Entry, orderLt a b = true → orderLt b a = false := by
  intro ⟨s, P, Q⟩ ⟨t, P', Q'⟩ h
  rw [← Bool.not_eq_true, orderLt_iff]; rw [orderLt_iff] at h; omega

theorem orderLt_neg : ∀ a b c : Entry, orderLt a c = true → orderLt a b = true ∨ orderLt b c = true := by
  intro ⟨s, P, Q⟩ ⟨t, P', Q'⟩ ⟨u, P'', Q''⟩ h
  rw [orderLt_iff] at h; rw [orderLt_iff, orderLt_iff]; omega

/-- **sort_unique**: whatever algorithm `sort_by(order)` uses, a rearrangement of the four colex
    entries that is sorted w.r.t. `Permutation::order` is the list the model computes
    (the comparison never returns `Equal` on two different entries because the suit is the last key). -/
theorem sort_unique (m : Nat) (o : Obs) (l : List Entry) (hp : l.Perm (suits.map (colex m o)))
    (hs : l.Pairwise (fun a b => orderLt b a = false)) : l = sortedEntries m o := by
  refine RP.Iso.sort_unique orderLt orderLt_asymm orderLt_neg _ l hp hs ?_
  intro a ha b hb hab hba
  simp only [suits_eq, map_cons, map_nil, mem_cons, not_mem_nil, or_false] at ha hb
  have key : ∀ s t, orderLt (colex m o s) (colex m o t) = false → orderLt (colex m o t) (colex m o s) = false → s = t := by
    intro s t h1 h2
    rw [← Bool.not_eq_true, colex, colex, orderLt_iff] at h1 h2
    omega
  rcases ha with rfl | rfl | rfl | rfl <;> rcases hb with rfl | rfl | rfl | rfl <;>
    first | rfl | (have := key _ _ hab hba; omega)

-- non-vacuity: the sort really reorders the four entries of `exA`
example : sortedEntries RP.Gen.handMaskStd exA ≠ suits.map (colex RP.Gen.handMaskStd exA) ∧
    (sortedEntries RP.Gen.handMaskStd exA).map (·.1) = [1, 2, 0, 3] := by decide +kernel

/-! ## the three parts of the property -/

/-- **Invariant**: the canonical form of a relabeled observation is the canonical form of the original. -/
theorem C05_invariant {m : Nat} (hm : MaskOK m) {o : Obs} (ho : Valid m o) {π : List Nat} (hπ : π ∈ S4) :
    canon m (permute m π o) = canon m o := by
  have hinv := sortedA_invariant orderSpec (cont m o) (cont m (permute m π o)) π (S4_perm π hπ)
    (fun s hs => cont_permute hm hπ o hs) (fun s t hs ht => key_complete hm ho hs ht)
  have h1 := cont_canon hm o
  have h2 := cont_canon hm (permute m π o)
  rw [hinv, ← h1] at h2
  simp only [map_cons, map_nil, cons.injEq, and_true] at h2
  obtain ⟨e0, e1, e2, e3⟩ := h2
  have hn : ∀ s, s < 4 → cont m (canon m (permute m π o)) s = cont m (canon m o) s := by
    intro s hs
    have : s = 0 ∨ s = 1 ∨ s = 2 ∨ s = 3 := by omega
    rcases this with rfl | rfl | rfl | rfl <;> assumption
  have hv1 := valid_canon hm (valid_permute hm hπ ho)
  have hv2 := valid_canon hm ho
  exact Obs.ext'
    (hand_ext hm hv1.pocket_in hv2.pocket_in (fun s hs => congrArg (fun k : NC => k.1.1) (hn s hs)))
    (hand_ext hm hv1.board_in hv2.board_in (fun s hs => congrArg (fun k : NC => k.1.2) (hn s hs)))

-- non-vacuity: `exB` is a genuine relabeling of `exA` (different observation), same canonical form
example : canon RP.Gen.handMaskStd exB = canon RP.Gen.handMaskStd exA := by
  have h : permute RP.Gen.handMaskStd [1, 2, 0, 3] exA = exB := by decide +kernel
  rw [← h]; exact C05_invariant maskOK_std exA_valid (by decide)
example : canon RP.Gen.handMaskStd exA = ⟨2^3 + 2^47, 2^0 + 2^13 + 2^26 + 2^33 + 2^34⟩ ∧ exA ≠ exB := by decide +kernel

/-- the same through the asserting functions: relabel (no panic), then canonicalise (no panic) -/
theorem C05_invariant_total {m : Nat} (hm : MaskOK m) {o : Obs} (ho : Valid m o) {π : List Nat} (hπ : π ∈ S4) :
    (permute? m π o).bind (canon? m) = canon? m o ∧ canon? m o = some (canon m o) := by
  rw [permute?_eq hm hπ ho, Option.bind_some, canon?_eq hm (valid_permute hm hπ ho), canon?_eq hm ho,
    C05_invariant hm ho hπ]
  exact ⟨rfl, rfl⟩

/-- **Faithful**: the permutation computed by `Permutation::from` is a row of the table (a bijection
    on suits), canonicalisation is the relabeling by it with no assertion firing, and pocket and board
    are each relabeled card by card: card `(r, s)` of the original is card `(r, p[s])` of the canonical form. -/
theorem C05_faithful {m : Nat} (hm : MaskOK m) {o : Obs} (ho : Valid m o) :
    permOf m o ∈ S4 ∧
    (∀ s, s < 4 → ∀ t, t < 4 → pmap (permOf m o) s = pmap (permOf m o) t → s = t) ∧
    (∀ t, t < 4 → ∃ s, s < 4 ∧ pmap (permOf m o) s = t) ∧
    canon? m o = permute? m (permOf m o) o ∧ canon? m o = some (canon m o) ∧
    Relabel (permOf m o) o.pocket (canon m o).pocket ∧ Relabel (permOf m o) o.board (canon m o).board :=
  have hp := permOf_mem m o
  ⟨hp, pmap_inj _ hp, pmap_surj _ hp, rfl, canon?_eq hm ho,
   image_relabel hm hp ho.pocket_in, image_relabel hm hp ho.board_in⟩

-- non-vacuity: the computed permutation is not the identity and moves the board
example : permOf RP.Gen.handMaskStd exA = [2, 0, 1, 3] ∧ (canon RP.Gen.handMaskStd exA).board ≠ exA.board := by
  decide +kernel

/-- ... hence two observations with the same canonical form are relabelings of each other
    (strategically identical): no false merges. -/
theorem C05_orbit {m : Nat} (hm : MaskOK m) {o o' : Obs} (ho : Valid m o) (ho' : Valid m o')
    (h : canon m o = canon m o') :
    ∃ π, π ∈ S4 ∧ o' = permute m π o ∧ Relabel π o.pocket o'.pocket ∧ Relabel π o.board o'.board := by
  have hp := permOf_mem m o
  have hsg' := sigma_mem m o'
  have hp' := permOf_mem m o'
  have hπ : comp (sigma m o') (permOf m o) ∈ S4 := comp_mem _ hp _ hsg'
  -- undoing the canonicalisation of o'
  have hinv : comp (sigma m o') (permOf m o') = [0, 1, 2, 3] := comp_self_invFold _ hsg'
  have back : ∀ x, x &&& m = x → image m (sigma m o') (image m (permOf m o') x) = x := by
    intro x hx
    rw [image_image hm hp' hsg', hinv, image_id hm hx]
  have e1 : o'.pocket = image m (comp (sigma m o') (permOf m o)) o.pocket := by
    rw [← image_image hm hp hsg', ← canon_pocket, h, canon_pocket, back _ ho'.pocket_in]
  have e2 : o'.board = image m (comp (sigma m o') (permOf m o)) o.board := by
    rw [← image_image hm hp hsg', ← canon_board, h, canon_board, back _ ho'.board_in]
  generalize comp (sigma m o') (permOf m o) = π at hπ e1 e2
  refine ⟨π, hπ, Obs.ext' (by rw [permute_pocket]; exact e1) (by rw [permute_board]; exact e2), ?_, ?_⟩
  · rw [e1]; exact image_relabel hm hπ ho.pocket_in
  · rw [e2]; exact image_relabel hm hπ ho.board_in

-- non-vacuity: the two `super_symmetry` observations share their canonical form, so they are relabelings
example : ∃ π, π ∈ S4 ∧ exB = permute RP.Gen.handMaskStd π exA ∧ Relabel π exA.pocket exB.pocket ∧ Relabel π exA.board exB.board :=
  C05_orbit maskOK_std exA_valid exB_valid (by decide +kernel)

/-- **Idempotent**: canonicalising a canonical form changes nothing, and it is recognised as canonical. -/
theorem C05_idempotent {m : Nat} (hm : MaskOK m) (o : Obs) :
    canon m (canon m o) = canon m o ∧ isCanonical m (canon m o) = true := by
  have hs : sortedA ltN (cont m (canon m o)) = entriesA (cont m (canon m o)) :=
    sortedA_canonical orderSpec (cont m o) _ (cont_canon hm o)
  have hsig : sigma m (canon m o) = [0, 1, 2, 3] := by rw [sigma_eq, hs]; rfl
  have hperm : permOf m (canon m o) = suits := by rw [permOf, hsig]; decide
  have hp := permOf_mem m o
  refine ⟨?_, by simp [isCanonical, hperm]⟩
  rw [canon_eq m (canon m o), hperm, suits_eq]
  apply Obs.ext'
  · rw [permute_pocket, canon_pocket, image_id hm (image_and_mask hm hp _)]
  · rw [permute_board, canon_board, image_id hm (image_and_mask hm hp _)]

-- non-vacuity: the input itself is *not* canonical, its canonical form is
example : isCanonical RP.Gen.handMaskStd exA = false ∧
    isCanonical RP.Gen.handMaskStd (canon RP.Gen.handMaskStd exA) = true := by decide +kernel

/-- the same through the asserting functions -/
theorem C05_idempotent_total {m : Nat} (hm : MaskOK m) {o : Obs} (ho : Valid m o) :
    (canon? m o).bind (canon? m) = canon? m o ∧ (canon? m o).map (isCanonical m) = some true := by
  rw [canon?_eq hm ho, Option.bind_some, canon?_eq hm (valid_canon hm ho), (C05_idempotent hm o).1,
    Option.map_some, (C05_idempotent hm o).2]
  exact ⟨rfl, rfl⟩

/-- an observation recognised as canonical is its own canonical form -/
theorem canon_of_isCanonical {m : Nat} (hm : MaskOK m) {o : Obs} (ho : Valid m o)
    (hc : isCanonical m o = true) : canon m o = o := by
  have hperm : permOf m o = suits := by simpa [isCanonical] using hc
  rw [canon_eq, hperm, suits_eq]
  apply Obs.ext'
  · rw [permute_pocket, image_id hm ho.pocket_in]
  · rw [permute_board, image_id hm ho.board_in]

/-- **one representative per orbit**: two relabelings of each other that are both recognised as
    canonical are the same observation -/
theorem C05_unique_representative {m : Nat} (hm : MaskOK m) {o : Obs} (ho : Valid m o) {π : List Nat}
    (hπ : π ∈ S4) (h1 : isCanonical m o = true) (h2 : isCanonical m (permute m π o) = true) :
    permute m π o = o := by
  rw [← canon_of_isCanonical hm (valid_permute hm hπ ho) h2, C05_invariant hm ho hπ,
    canon_of_isCanonical hm ho h1]

-- non-vacuity: a canonical observation with a non-trivial stabiliser (`2c 2d` pre-flop... here `exT`'s canonical form)
example : isCanonical RP.Gen.handMaskStd (canon RP.Gen.handMaskStd exT) = true ∧
    permute RP.Gen.handMaskStd [1, 0, 2, 3] exT = exT := by decide +kernel

/-! ## both deck builds -/

theorem C05_std {o : Obs} (ho : Valid RP.Gen.handMaskStd o) {π : List Nat} (hπ : π ∈ RP.Gen.permExhaust) :
    canon RP.Gen.handMaskStd (permute RP.Gen.handMaskStd π o) = canon RP.Gen.handMaskStd o ∧
    canon RP.Gen.handMaskStd (canon RP.Gen.handMaskStd o) = canon RP.Gen.handMaskStd o ∧
    isCanonical RP.Gen.handMaskStd (canon RP.Gen.handMaskStd o) = true ∧
    canon? RP.Gen.handMaskStd o = some (canon RP.Gen.handMaskStd o) :=
  ⟨C05_invariant maskOK_std ho hπ, (C05_idempotent maskOK_std o).1, (C05_idempotent maskOK_std o).2,
   canon?_eq maskOK_std ho⟩

theorem C05_short {o : Obs} (ho : Valid RP.Gen.handMaskShort o) {π : List Nat} (hπ : π ∈ RP.Gen.permExhaust) :
    canon RP.Gen.handMaskShort (permute RP.Gen.handMaskShort π o) = canon RP.Gen.handMaskShort o ∧
    canon RP.Gen.handMaskShort (canon RP.Gen.handMaskShort o) = canon RP.Gen.handMaskShort o ∧
    isCanonical RP.Gen.handMaskShort (canon RP.Gen.handMaskShort o) = true ∧
    canon? RP.Gen.handMaskShort o = some (canon RP.Gen.handMaskShort o) :=
  ⟨C05_invariant maskOK_short ho hπ, (C05_idempotent maskOK_short o).1, (C05_idempotent maskOK_short o).2,
   canon?_eq maskOK_short ho⟩

-- non-vacuity for the short deck: a valid short-deck observation whose canonical form differs from it
example : canon RP.Gen.handMaskShort exS ≠ exS ∧
    canon RP.Gen.handMaskShort (permute RP.Gen.handMaskShort [3, 2, 1, 0] exS) = canon RP.Gen.handMaskShort exS := by
  decide +kernel

end RP.C05
