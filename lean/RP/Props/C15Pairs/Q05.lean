import RP.Lemmas.PairKeys
/-! Four-street pair-key table, part 5: for every `d` in 80..95 the keys of all pairs `i < i xor d`
of the preflop, flop, turn and river bucket sets TOGETHER are pairwise distinct once the three known
preflop pairs are set aside (kernel evaluation, no `native_decide`). -/
namespace RP.C15Pairs
open RP.Codec
theorem chunkQ10 : chunkOK4 80 8 = true := by decide +kernel
theorem chunkQ11 : chunkOK4 88 8 = true := by decide +kernel
end RP.C15Pairs
