import RP.Lemmas.PairKeys
/-! C15 pair-key table, part 3: for every `d` in 48..63 the keys of all pairs `i < i xor d` of the
flop, turn and river bucket sets are pairwise distinct (kernel evaluation, no `native_decide`). -/
namespace RP.C15Pairs
open RP.Codec
theorem chunk06 : chunkOK 48 8 = true := by decide +kernel
theorem chunk07 : chunkOK 56 8 = true := by decide +kernel
end RP.C15Pairs
