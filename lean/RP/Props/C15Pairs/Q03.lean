import RP.Lemmas.PairKeys
/-! Four-street pair-key table, part 3: for every `d` in 48..63 the keys of all pairs `i < i xor d`
of the preflop, flop, turn and river bucket sets TOGETHER are pairwise distinct once the three known
preflop pairs are set aside (kernel evaluation, no `native_decide`). -/
namespace RP.C15Pairs
open RP.Codec
theorem chunkQ06 : chunkOK4 48 8 = true := by decide +kernel
theorem chunkQ07 : chunkOK4 56 8 = true := by decide +kernel
end RP.C15Pairs
