import RP.Lemmas.PairKeys
/-! C15 pair-key table, part 10: for every `d` in 160..175 the keys of all pairs `i < i xor d` of the
flop, turn and river bucket sets are pairwise distinct (kernel evaluation, no `native_decide`). -/
namespace RP.C15Pairs
open RP.Codec
theorem chunk20 : chunkOK 160 8 = true := by decide +kernel
theorem chunk21 : chunkOK 168 8 = true := by decide +kernel
end RP.C15Pairs
