import RP.Lemmas.PairKeys
/-! Four-street pair-key table, part 8: for every `d` in 128..143 the keys of all pairs `i < i xor d`
of the preflop, flop, turn and river bucket sets TOGETHER are pairwise distinct once the three known
preflop pairs are set aside (kernel evaluation, no `native_decide`). -/
namespace RP.C15Pairs
open RP.Codec
theorem chunkQ16 : chunkOK4 128 8 = true := by decide +kernel
theorem chunkQ17 : chunkOK4 136 8 = true := by decide +kernel
end RP.C15Pairs
