import RP.Props.C15Pairs.Q00
import RP.Props.C15Pairs.Q01
import RP.Props.C15Pairs.Q02
import RP.Props.C15Pairs.Q03
import RP.Props.C15Pairs.Q04
import RP.Props.C15Pairs.Q05
import RP.Props.C15Pairs.Q06
import RP.Props.C15Pairs.Q07
import RP.Props.C15Pairs.Q08
import RP.Props.C15Pairs.Q09
import RP.Props.C15Pairs.Q10
import RP.Props.C15Pairs.Q11
import RP.Props.C15Pairs.Q12
import RP.Props.C15Pairs.Q13
import RP.Props.C15Pairs.Q14
import RP.Props.C15Pairs.Q15
/-! Four-street pair-key tables assembled: every `d < 256`. -/
namespace RP.C15Pairs
open RP.Codec
theorem all_d4 (d : Nat) (hd : d < 256) : rdx 44 (entries4x d) = true := by
  have h : d / 8 = 0 ∨ d / 8 = 1 ∨ d / 8 = 2 ∨ d / 8 = 3 ∨ d / 8 = 4 ∨ d / 8 = 5 ∨ d / 8 = 6 ∨ d / 8 = 7 ∨ d / 8 = 8 ∨ d / 8 = 9 ∨ d / 8 = 10 ∨ d / 8 = 11 ∨ d / 8 = 12 ∨ d / 8 = 13 ∨ d / 8 = 14 ∨ d / 8 = 15 ∨ d / 8 = 16 ∨ d / 8 = 17 ∨ d / 8 = 18 ∨ d / 8 = 19 ∨ d / 8 = 20 ∨ d / 8 = 21 ∨ d / 8 = 22 ∨ d / 8 = 23 ∨ d / 8 = 24 ∨ d / 8 = 25 ∨ d / 8 = 26 ∨ d / 8 = 27 ∨ d / 8 = 28 ∨ d / 8 = 29 ∨ d / 8 = 30 ∨ d / 8 = 31 := by omega
  rcases h with h | h | h | h | h | h | h | h | h | h | h | h | h | h | h | h | h | h | h | h | h | h | h | h | h | h | h | h | h | h | h | h
  · exact chunkOK4_spec 0 8 d RP.C15Pairs.chunkQ00 (by omega) (by omega)
  · exact chunkOK4_spec 8 8 d RP.C15Pairs.chunkQ01 (by omega) (by omega)
  · exact chunkOK4_spec 16 8 d RP.C15Pairs.chunkQ02 (by omega) (by omega)
  · exact chunkOK4_spec 24 8 d RP.C15Pairs.chunkQ03 (by omega) (by omega)
  · exact chunkOK4_spec 32 8 d RP.C15Pairs.chunkQ04 (by omega) (by omega)
  · exact chunkOK4_spec 40 8 d RP.C15Pairs.chunkQ05 (by omega) (by omega)
  · exact chunkOK4_spec 48 8 d RP.C15Pairs.chunkQ06 (by omega) (by omega)
  · exact chunkOK4_spec 56 8 d RP.C15Pairs.chunkQ07 (by omega) (by omega)
  · exact chunkOK4_spec 64 8 d RP.C15Pairs.chunkQ08 (by omega) (by omega)
  · exact chunkOK4_spec 72 8 d RP.C15Pairs.chunkQ09 (by omega) (by omega)
  · exact chunkOK4_spec 80 8 d RP.C15Pairs.chunkQ10 (by omega) (by omega)
  · exact chunkOK4_spec 88 8 d RP.C15Pairs.chunkQ11 (by omega) (by omega)
  · exact chunkOK4_spec 96 8 d RP.C15Pairs.chunkQ12 (by omega) (by omega)
  · exact chunkOK4_spec 104 8 d RP.C15Pairs.chunkQ13 (by omega) (by omega)
  · exact chunkOK4_spec 112 8 d RP.C15Pairs.chunkQ14 (by omega) (by omega)
  · exact chunkOK4_spec 120 8 d RP.C15Pairs.chunkQ15 (by omega) (by omega)
  · exact chunkOK4_spec 128 8 d RP.C15Pairs.chunkQ16 (by omega) (by omega)
  · exact chunkOK4_spec 136 8 d RP.C15Pairs.chunkQ17 (by omega) (by omega)
  · exact chunkOK4_spec 144 8 d RP.C15Pairs.chunkQ18 (by omega) (by omega)
  · exact chunkOK4_spec 152 8 d RP.C15Pairs.chunkQ19 (by omega) (by omega)
  · exact chunkOK4_spec 160 8 d RP.C15Pairs.chunkQ20 (by omega) (by omega)
  · exact chunkOK4_spec 168 8 d RP.C15Pairs.chunkQ21 (by omega) (by omega)
  · exact chunkOK4_spec 176 8 d RP.C15Pairs.chunkQ22 (by omega) (by omega)
  · exact chunkOK4_spec 184 8 d RP.C15Pairs.chunkQ23 (by omega) (by omega)
  · exact chunkOK4_spec 192 8 d RP.C15Pairs.chunkQ24 (by omega) (by omega)
  · exact chunkOK4_spec 200 8 d RP.C15Pairs.chunkQ25 (by omega) (by omega)
  · exact chunkOK4_spec 208 8 d RP.C15Pairs.chunkQ26 (by omega) (by omega)
  · exact chunkOK4_spec 216 8 d RP.C15Pairs.chunkQ27 (by omega) (by omega)
  · exact chunkOK4_spec 224 8 d RP.C15Pairs.chunkQ28 (by omega) (by omega)
  · exact chunkOK4_spec 232 8 d RP.C15Pairs.chunkQ29 (by omega) (by omega)
  · exact chunkOK4_spec 240 8 d RP.C15Pairs.chunkQ30 (by omega) (by omega)
  · exact chunkOK4_spec 248 8 d RP.C15Pairs.chunkQ31 (by omega) (by omega)
end RP.C15Pairs
