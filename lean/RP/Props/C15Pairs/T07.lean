import RP.Lemmas.PairKeys
/-! C15 pair-key table, part 7: for every `d` in 112..127 the keys of all pairs `i < i xor d` of the
flop, turn and river bucket sets are pairwise distinct (kernel evaluation, no `native_decide`). -/
namespace RP.C15Pairs
open RP.Codec
theorem chunk14 : chunkOK 112 8 = true := by decide +kernel
theorem chunk15 : chunkOK 120 8 = true := by decide +kernel
end RP.C15Pairs
