import RP.Lemmas.PairKeys
/-! Four-street pair-key table, part 11: for every `d` in 176..191 the keys of all pairs `i < i xor d`
of the preflop, flop, turn and river bucket sets TOGETHER are pairwise distinct once the three known
preflop pairs are set aside (kernel evaluation, no `native_decide`). -/
namespace RP.C15Pairs
open RP.Codec
theorem chunkQ22 : chunkOK4 176 8 = true := by decide +kernel
theorem chunkQ23 : chunkOK4 184 8 = true := by decide +kernel
end RP.C15Pairs
