import RP.Lemmas.PairKeys
/-! Four-street pair-key table, part 1: for every `d` in 16..31 the keys of all pairs `i < i xor d`
of the preflop, flop, turn and river bucket sets TOGETHER are pairwise distinct once the three known
preflop pairs are set aside (kernel evaluation, no `native_decide`). -/
namespace RP.C15Pairs
open RP.Codec
theorem chunkQ02 : chunkOK4 16 8 = true := by decide +kernel
theorem chunkQ03 : chunkOK4 24 8 = true := by decide +kernel
end RP.C15Pairs
