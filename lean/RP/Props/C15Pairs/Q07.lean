import RP.Lemmas.PairKeys
/-! Four-street pair-key table, part 7: for every `d` in 112..127 the keys of all pairs `i < i xor d`
of the preflop, flop, turn and river bucket sets TOGETHER are pairwise distinct once the three known
preflop pairs are set aside (kernel evaluation, no `native_decide`). -/
namespace RP.C15Pairs
open RP.Codec
theorem chunkQ14 : chunkOK4 112 8 = true := by decide +kernel
theorem chunkQ15 : chunkOK4 120 8 = true := by decide +kernel
end RP.C15Pairs
