import RP.Lemmas.PairKeys
/-! C15 pair-key table, part 5: for every `d` in 80..95 the keys of all pairs `i < i xor d` of the
flop, turn and river bucket sets are pairwise distinct (kernel evaluation, no `native_decide`). -/
namespace RP.C15Pairs
open RP.Codec
theorem chunk10 : chunkOK 80 8 = true := by decide +kernel
theorem chunk11 : chunkOK 88 8 = true := by decide +kernel
end RP.C15Pairs
