import RP.Lemmas.PairKeys
/-! C15 pair-key table, part 14: for every `d` in 224..239 the keys of all pairs `i < i xor d` of the
flop, turn and river bucket sets are pairwise distinct (kernel evaluation, no `native_decide`). -/
namespace RP.C15Pairs
open RP.Codec
theorem chunk28 : chunkOK 224 8 = true := by decide +kernel
theorem chunk29 : chunkOK 232 8 = true := by decide +kernel
end RP.C15Pairs
