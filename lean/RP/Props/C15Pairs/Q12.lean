import RP.Lemmas.PairKeys
/-! Four-street pair-key table, part 12: for every `d` in 192..207 the keys of all pairs `i < i xor d`
of the preflop, flop, turn and river bucket sets TOGETHER are pairwise distinct once the three known
preflop pairs are set aside (kernel evaluation, no `native_decide`). -/
namespace RP.C15Pairs
open RP.Codec
theorem chunkQ24 : chunkOK4 192 8 = true := by decide +kernel
theorem chunkQ25 : chunkOK4 200 8 = true := by decide +kernel
end RP.C15Pairs
