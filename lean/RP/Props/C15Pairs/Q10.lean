import RP.Lemmas.PairKeys
/-! Four-street pair-key table, part 10: for every `d` in 160..175 the keys of all pairs `i < i xor d`
of the preflop, flop, turn and river bucket sets TOGETHER are pairwise distinct once the three known
preflop pairs are set aside (kernel evaluation, no `native_decide`). -/
namespace RP.C15Pairs
open RP.Codec
theorem chunkQ20 : chunkOK4 160 8 = true := by decide +kernel
theorem chunkQ21 : chunkOK4 168 8 = true := by decide +kernel
end RP.C15Pairs
