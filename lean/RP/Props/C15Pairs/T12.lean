import RP.Lemmas.PairKeys
/-! C15 pair-key table, part 12: for every `d` in 192..207 the keys of all pairs `i < i xor d` of the
flop, turn and river bucket sets are pairwise distinct (kernel evaluation, no `native_decide`). -/
namespace RP.C15Pairs
open RP.Codec
theorem chunk24 : chunkOK 192 8 = true := by decide +kernel
theorem chunk25 : chunkOK 200 8 = true := by decide +kernel
end RP.C15Pairs
