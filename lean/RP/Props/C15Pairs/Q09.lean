import RP.Lemmas.PairKeys
/-! Four-street pair-key table, part 9: for every `d` in 144..159 the keys of all pairs `i < i xor d`
of the preflop, flop, turn and river bucket sets TOGETHER are pairwise distinct once the three known
preflop pairs are set aside (kernel evaluation, no `native_decide`). -/
namespace RP.C15Pairs
open RP.Codec
theorem chunkQ18 : chunkOK4 144 8 = true := by decide +kernel
theorem chunkQ19 : chunkOK4 152 8 = true := by decide +kernel
end RP.C15Pairs
