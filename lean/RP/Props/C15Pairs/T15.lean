import RP.Lemmas.PairKeys
/-! C15 pair-key table, part 15: for every `d` in 240..255 the keys of all pairs `i < i xor d` of the
flop, turn and river bucket sets are pairwise distinct (kernel evaluation, no `native_decide`). -/
namespace RP.C15Pairs
open RP.Codec
theorem chunk30 : chunkOK 240 8 = true := by decide +kernel
theorem chunk31 : chunkOK 248 8 = true := by decide +kernel
end RP.C15Pairs
