import RP.Lemmas.PairKeys
/-! C13/C15 preflop pair-key table, part 5: for every `d` in 160..191 the keys of all pairs
`i < i xor d` of the 169 preflop buckets are pairwise distinct (kernel evaluation, no `native_decide`). -/
namespace RP.C15Pairs
open RP.Codec
theorem chunkP5 : chunkOKP 160 32 = true := by decide +kernel
end RP.C15Pairs
