import RP.Lemmas.PairKeys
/-! Four-street pair-key table, part 13: for every `d` in 208..223 the keys of all pairs `i < i xor d`
of the preflop, flop, turn and river bucket sets TOGETHER are pairwise distinct once the three known
preflop pairs are set aside (kernel evaluation, no `native_decide`). -/
namespace RP.C15Pairs
open RP.Codec
theorem chunkQ26 : chunkOK4 208 8 = true := by decide +kernel
theorem chunkQ27 : chunkOK4 216 8 = true := by decide +kernel
end RP.C15Pairs
