import RP.Lemmas.PairKeys
/-! Four-street pair-key table, part 14: for every `d` in 224..239 the keys of all pairs `i < i xor d`
of the preflop, flop, turn and river bucket sets TOGETHER are pairwise distinct once the three known
preflop pairs are set aside (kernel evaluation, no `native_decide`). -/
namespace RP.C15Pairs
open RP.Codec
theorem chunkQ28 : chunkOK4 224 8 = true := by decide +kernel
theorem chunkQ29 : chunkOK4 232 8 = true := by decide +kernel
end RP.C15Pairs
