import RP.Lemmas.PairKeys
/-! C15 pair-key table, part 4: for every `d` in 64..79 the keys of all pairs `i < i xor d` of the
flop, turn and river bucket sets are pairwise distinct (kernel evaluation, no `native_decide`). -/
namespace RP.C15Pairs
open RP.Codec
theorem chunk08 : chunkOK 64 8 = true := by decide +kernel
theorem chunk09 : chunkOK 72 8 = true := by decide +kernel
end RP.C15Pairs
