import RP.Lemmas.PairKeys
/-! C15 pair-key table, part 6: for every `d` in 96..111 the keys of all pairs `i < i xor d` of the
flop, turn and river bucket sets are pairwise distinct (kernel evaluation, no `native_decide`). -/
namespace RP.C15Pairs
open RP.Codec
theorem chunk12 : chunkOK 96 8 = true := by decide +kernel
theorem chunk13 : chunkOK 104 8 = true := by decide +kernel
end RP.C15Pairs
