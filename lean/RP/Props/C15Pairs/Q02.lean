import RP.Lemmas.PairKeys
/-! Four-street pair-key table, part 2: for every `d` in 32..47 the keys of all pairs `i < i xor d`
of the preflop, flop, turn and river bucket sets TOGETHER are pairwise distinct once the three known
preflop pairs are set aside (kernel evaluation, no `native_decide`). -/
namespace RP.C15Pairs
open RP.Codec
theorem chunkQ04 : chunkOK4 32 8 = true := by decide +kernel
theorem chunkQ05 : chunkOK4 40 8 = true := by decide +kernel
end RP.C15Pairs
