import RP.Props.C15Pairs.P0
import RP.Props.C15Pairs.P1
import RP.Props.C15Pairs.P2
import RP.Props.C15Pairs.P3
import RP.Props.C15Pairs.P4
import RP.Props.C15Pairs.P5
import RP.Props.C15Pairs.P6
import RP.Props.C15Pairs.P7
/-! Preflop pair-key tables assembled: every `d < 256`. -/
namespace RP.C15Pairs
open RP.Codec
theorem all_dP (d : Nat) (hd : d < 256) : rdx 44 (entriesOf prefLayer d) = true := by
  have h : d / 32 = 0 ∨ d / 32 = 1 ∨ d / 32 = 2 ∨ d / 32 = 3 ∨ d / 32 = 4 ∨ d / 32 = 5 ∨ d / 32 = 6 ∨ d / 32 = 7 := by omega
  rcases h with h | h | h | h | h | h | h | h
  · exact chunkOKP_spec 0 32 d RP.C15Pairs.chunkP0 (by omega) (by omega)
  · exact chunkOKP_spec 32 32 d RP.C15Pairs.chunkP1 (by omega) (by omega)
  · exact chunkOKP_spec 64 32 d RP.C15Pairs.chunkP2 (by omega) (by omega)
  · exact chunkOKP_spec 96 32 d RP.C15Pairs.chunkP3 (by omega) (by omega)
  · exact chunkOKP_spec 128 32 d RP.C15Pairs.chunkP4 (by omega) (by omega)
  · exact chunkOKP_spec 160 32 d RP.C15Pairs.chunkP5 (by omega) (by omega)
  · exact chunkOKP_spec 192 32 d RP.C15Pairs.chunkP6 (by omega) (by omega)
  · exact chunkOKP_spec 224 32 d RP.C15Pairs.chunkP7 (by omega) (by omega)
end RP.C15Pairs
