import RP.Lemmas.PairKeys
/-! Four-street pair-key table, part 4: for every `d` in 64..79 the keys of all pairs `i < i xor d`
of the preflop, flop, turn and river bucket sets TOGETHER are pairwise distinct once the three known
preflop pairs are set aside (kernel evaluation, no `native_decide`). -/
namespace RP.C15Pairs
open RP.Codec
theorem chunkQ08 : chunkOK4 64 8 = true := by decide +kernel
theorem chunkQ09 : chunkOK4 72 8 = true := by decide +kernel
end RP.C15Pairs
