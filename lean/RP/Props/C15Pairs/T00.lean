import RP.Lemmas.PairKeys
/-! C15 pair-key table, part 0: for every `d` in 0..15 the keys of all pairs `i < i xor d` of the
flop, turn and river bucket sets are pairwise distinct (kernel evaluation, no `native_decide`). -/
namespace RP.C15Pairs
open RP.Codec
theorem chunk00 : chunkOK 0 8 = true := by decide +kernel
theorem chunk01 : chunkOK 8 8 = true := by decide +kernel
end RP.C15Pairs
