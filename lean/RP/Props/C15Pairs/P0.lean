import RP.Lemmas.PairKeys
/-! C13/C15 preflop pair-key table, part 0: for every `d` in 0..31 the keys of all pairs
`i < i xor d` of the 169 preflop buckets are pairwise distinct (kernel evaluation, no `native_decide`). -/
namespace RP.C15Pairs
open RP.Codec
theorem chunkP0 : chunkOKP 0 32 = true := by decide +kernel
end RP.C15Pairs
