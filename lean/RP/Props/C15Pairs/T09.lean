import RP.Lemmas.PairKeys
/-! C15 pair-key table, part 9: for every `d` in 144..159 the keys of all pairs `i < i xor d` of the
flop, turn and river bucket sets are pairwise distinct (kernel evaluation, no `native_decide`). -/
namespace RP.C15Pairs
open RP.Codec
theorem chunk18 : chunkOK 144 8 = true := by decide +kernel
theorem chunk19 : chunkOK 152 8 = true := by decide +kernel
end RP.C15Pairs
