import RP.Lemmas.PairKeys
/-! C15 pair-key table, part 8: for every `d` in 128..143 the keys of all pairs `i < i xor d` of the
flop, turn and river bucket sets are pairwise distinct (kernel evaluation, no `native_decide`). -/
namespace RP.C15Pairs
open RP.Codec
theorem chunk16 : chunkOK 128 8 = true := by decide +kernel
theorem chunk17 : chunkOK 136 8 = true := by decide +kernel
end RP.C15Pairs
