import RP.Lemmas.PairKeys
/-! C15 pair-key table, part 13: for every `d` in 208..223 the keys of all pairs `i < i xor d` of the
flop, turn and river bucket sets are pairwise distinct (kernel evaluation, no `native_decide`). -/
namespace RP.C15Pairs
open RP.Codec
theorem chunk26 : chunkOK 208 8 = true := by decide +kernel
theorem chunk27 : chunkOK 216 8 = true := by decide +kernel
end RP.C15Pairs
