import RP.Props.C15Pairs.T00
import RP.Props.C15Pairs.T01
import RP.Props.C15Pairs.T02
import RP.Props.C15Pairs.T03
import RP.Props.C15Pairs.T04
import RP.Props.C15Pairs.T05
import RP.Props.C15Pairs.T06
import RP.Props.C15Pairs.T07
import RP.Props.C15Pairs.T08
import RP.Props.C15Pairs.T09
import RP.Props.C15Pairs.T10
import RP.Props.C15Pairs.T11
import RP.Props.C15Pairs.T12
import RP.Props.C15Pairs.T13
import RP.Props.C15Pairs.T14
import RP.Props.C15Pairs.T15
/-! C15 pair-key tables assembled: every `d < 256`. -/
namespace RP.C15Pairs
open RP.Codec
theorem all_d (d : Nat) (hd : d < 256) : rdx 44 (entries d) = true := by
  have h : d / 8 = 0 ∨ d / 8 = 1 ∨ d / 8 = 2 ∨ d / 8 = 3 ∨ d / 8 = 4 ∨ d / 8 = 5 ∨ d / 8 = 6 ∨ d / 8 = 7 ∨ d / 8 = 8 ∨ d / 8 = 9 ∨ d / 8 = 10 ∨ d / 8 = 11 ∨ d / 8 = 12 ∨ d / 8 = 13 ∨ d / 8 = 14 ∨ d / 8 = 15 ∨ d / 8 = 16 ∨ d / 8 = 17 ∨ d / 8 = 18 ∨ d / 8 = 19 ∨ d / 8 = 20 ∨ d / 8 = 21 ∨ d / 8 = 22 ∨ d / 8 = 23 ∨ d / 8 = 24 ∨ d / 8 = 25 ∨ d / 8 = 26 ∨ d / 8 = 27 ∨ d / 8 = 28 ∨ d / 8 = 29 ∨ d / 8 = 30 ∨ d / 8 = 31 := by omega
  rcases h with h | h | h | h | h | h | h | h | h | h | h | h | h | h | h | h | h | h | h | h | h | h | h | h | h | h | h | h | h | h | h | h
  · exact chunkOK_spec 0 8 d RP.C15Pairs.chunk00 (by omega) (by omega)
  · exact chunkOK_spec 8 8 d RP.C15Pairs.chunk01 (by omega) (by omega)
  · exact chunkOK_spec 16 8 d RP.C15Pairs.chunk02 (by omega) (by omega)
  · exact chunkOK_spec 24 8 d RP.C15Pairs.chunk03 (by omega) (by omega)
  · exact chunkOK_spec 32 8 d RP.C15Pairs.chunk04 (by omega) (by omega)
  · exact chunkOK_spec 40 8 d RP.C15Pairs.chunk05 (by omega) (by omega)
  · exact chunkOK_spec 48 8 d RP.C15Pairs.chunk06 (by omega) (by omega)
  · exact chunkOK_spec 56 8 d RP.C15Pairs.chunk07 (by omega) (by omega)
  · exact chunkOK_spec 64 8 d RP.C15Pairs.chunk08 (by omega) (by omega)
  · exact chunkOK_spec 72 8 d RP.C15Pairs.chunk09 (by omega) (by omega)
  · exact chunkOK_spec 80 8 d RP.C15Pairs.chunk10 (by omega) (by omega)
  · exact chunkOK_spec 88 8 d RP.C15Pairs.chunk11 (by omega) (by omega)
  · exact chunkOK_spec 96 8 d RP.C15Pairs.chunk12 (by omega) (by omega)
  · exact chunkOK_spec 104 8 d RP.C15Pairs.chunk13 (by omega) (by omega)
  · exact chunkOK_spec 112 8 d RP.C15Pairs.chunk14 (by omega) (by omega)
  · exact chunkOK_spec 120 8 d RP.C15Pairs.chunk15 (by omega) (by omega)
  · exact chunkOK_spec 128 8 d RP.C15Pairs.chunk16 (by omega) (by omega)
  · exact chunkOK_spec 136 8 d RP.C15Pairs.chunk17 (by omega) (by omega)
  · exact chunkOK_spec 144 8 d RP.C15Pairs.chunk18 (by omega) (by omega)
  · exact chunkOK_spec 152 8 d RP.C15Pairs.chunk19 (by omega) (by omega)
  · exact chunkOK_spec 160 8 d RP.C15Pairs.chunk20 (by omega) (by omega)
  · exact chunkOK_spec 168 8 d RP.C15Pairs.chunk21 (by omega) (by omega)
  · exact chunkOK_spec 176 8 d RP.C15Pairs.chunk22 (by omega) (by omega)
  · exact chunkOK_spec 184 8 d RP.C15Pairs.chunk23 (by omega) (by omega)
  · exact chunkOK_spec 192 8 d RP.C15Pairs.chunk24 (by omega) (by omega)
  · exact chunkOK_spec 200 8 d RP.C15Pairs.chunk25 (by omega) (by omega)
  · exact chunkOK_spec 208 8 d RP.C15Pairs.chunk26 (by omega) (by omega)
  · exact chunkOK_spec 216 8 d RP.C15Pairs.chunk27 (by omega) (by omega)
  · exact chunkOK_spec 224 8 d RP.C15Pairs.chunk28 (by omega) (by omega)
  · exact chunkOK_spec 232 8 d RP.C15Pairs.chunk29 (by omega) (by omega)
  · exact chunkOK_spec 240 8 d RP.C15Pairs.chunk30 (by omega) (by omega)
  · exact chunkOK_spec 248 8 d RP.C15Pairs.chunk31 (by omega) (by omega)
end RP.C15Pairs
