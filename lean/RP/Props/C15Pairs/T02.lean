import RP.Lemmas.PairKeys
/-! C15 pair-key table, part 2: for every `d` in 32..47 the keys of all pairs `i < i xor d` of the
flop, turn and river bucket sets are pairwise distinct (kernel evaluation, no `native_decide`). -/
namespace RP.C15Pairs
open RP.Codec
theorem chunk04 : chunkOK 32 8 = true := by decide +kernel
theorem chunk05 : chunkOK 40 8 = true := by decide +kernel
end RP.C15Pairs
