import RP.Lemmas.PairKeys
/-! Four-street pair-key table, part 6: for every `d` in 96..111 the keys of all pairs `i < i xor d`
of the preflop, flop, turn and river bucket sets TOGETHER are pairwise distinct once the three known
preflop pairs are set aside (kernel evaluation, no `native_decide`). -/
namespace RP.C15Pairs
open RP.Codec
theorem chunkQ12 : chunkOK4 96 8 = true := by decide +kernel
theorem chunkQ13 : chunkOK4 104 8 = true := by decide +kernel
end RP.C15Pairs
