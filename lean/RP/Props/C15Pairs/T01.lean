import RP.Lemmas.PairKeys
/-! C15 pair-key table, part 1: for every `d` in 16..31 the keys of all pairs `i < i xor d` of the
flop, turn and river bucket sets are pairwise distinct (kernel evaluation, no `native_decide`). -/
namespace RP.C15Pairs
open RP.Codec
theorem chunk02 : chunkOK 16 8 = true := by decide +kernel
theorem chunk03 : chunkOK 24 8 = true := by decide +kernel
end RP.C15Pairs
