import RP.Lemmas.PairKeys
/-! Four-street pair-key table, part 0: for every `d` in 0..15 the keys of all pairs `i < i xor d`
of the preflop, flop, turn and river bucket sets TOGETHER are pairwise distinct once the three known
preflop pairs are set aside (kernel evaluation, no `native_decide`). -/
namespace RP.C15Pairs
open RP.Codec
theorem chunkQ00 : chunkOK4 0 8 = true := by decide +kernel
theorem chunkQ01 : chunkOK4 8 8 = true := by decide +kernel
end RP.C15Pairs
