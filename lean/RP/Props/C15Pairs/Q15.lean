import RP.Lemmas.PairKeys
/-! Four-street pair-key table, part 15: for every `d` in 240..255 the keys of all pairs `i < i xor d`
of the preflop, flop, turn and river bucket sets TOGETHER are pairwise distinct once the three known
preflop pairs are set aside (kernel evaluation, no `native_decide`). -/
namespace RP.C15Pairs
open RP.Codec
theorem chunkQ30 : chunkOK4 240 8 = true := by decide +kernel
theorem chunkQ31 : chunkOK4 248 8 = true := by decide +kernel
end RP.C15Pairs
