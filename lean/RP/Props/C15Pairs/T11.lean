import RP.Lemmas.PairKeys
/-! C15 pair-key table, part 11: for every `d` in 176..191 the keys of all pairs `i < i xor d` of the
flop, turn and river bucket sets are pairwise distinct (kernel evaluation, no `native_decide`). -/
namespace RP.C15Pairs
open RP.Codec
theorem chunk22 : chunkOK 176 8 = true := by decide +kernel
theorem chunk23 : chunkOK 184 8 = true := by decide +kernel
end RP.C15Pairs
