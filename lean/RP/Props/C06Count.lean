import RP.Props.C06RowsStd
import RP.Props.C06RowsShort
import RP.Props.C06ClassesPref
/-! # C06 ② — the number of suit classes equals the published constant, on every street, both decks

`C06_burnside` : `24 · #classes = Σ_π #{observations fixed by π}` (Burnside's lemma for the generated
relabeling table, `RP/Lemmas/BurnsideCount.lean`) and `#{observations fixed by π}` is the `(2, k)` entry
of the rank-by-rank table `W` (the coefficient of `x² y^k` in `Π_ranks Σ_{π-fixed disjoint nibble
pairs} x^|u| y^|v|`, `RP/Lemmas/FixCount.lean`), whose values the kernel evaluates
(`RP/Props/C06Rows{Std,Short}.lean`).  `C06_class_count`: hence the model of `IsomorphismIterator`
yields exactly `Street::n_isomorphisms()` items — 169 / 1,286,792 / 13,960,050 / 123,156,254 and
81 / 186,696 / 1,340,856 / 7,723,728 — one per suit class (`C06_one_per_class_iso`). -/
namespace RP.C06
open RP.Bits RP.Hands RP.Spec

/-- **C06_burnside**: for every street and both decks, 24 times the number of yielded classes (= the
number of suit-orbits of legal observations, by `C06_one_per_class_iso`) is the sum over the 24
relabelings of the `x² y^k` entries of the rank-by-rank fixed-point tables. -/
theorem C06_burnside (short : Bool) (street : Nat) (hs : street ≤ 3) :
    (classes short street).length * 24 =
      (RP.Gen.permExhaust.map (fun π => (xrow (deckMask short) π).getD (nObserved street) 0)).sum := by
  rw [classes_mul_24 short street hs]
  congr 1
  apply List.map_congr_left
  intro π hπ
  rw [fixCount_eq short street hs π hπ, xrow_getD]

/-- the per-relabeling factor of the table is the cycle polynomial: over one rank, the disjoint
`π`-fixed nibble pairs by (pocket bits, board bits) are the coefficients of `Π_cycles (1 + x^ℓ + y^ℓ)` -/
theorem fixPairs_cycle_poly : ∀ π ∈ RP.Gen.permExhaust, ∀ a, a < 3 → ∀ b, b < 6 →
    ((fixPairs π).filter (fun uv => popW 4 uv.1 == a && popW 4 uv.2 == b)).length
      = coeff ((cycleLengths π).foldl (fun acc l => mulFactor l acc) pone) a b := by decide +kernel

/-- **C06_class_count**: the isomorphism iterator yields exactly the published number of classes -/
theorem C06_class_count (short : Bool) (street : Nat) (hs : street ≤ 3) :
    (classes short street).length = (nIsomorphismsTable short).getD street 0 := by
  have h := C06_burnside short street hs
  have hmap : ∀ k, RP.Gen.permExhaust.map (fun π => (xrow (deckMask short) π).getD k 0)
      = (RP.Gen.permExhaust.map (xrow (deckMask short))).map (fun r => r.getD k 0) := by
    intro k; rw [List.map_map]; rfl
  rw [hmap] at h
  have hst : street = 0 ∨ street = 1 ∨ street = 2 ∨ street = 3 := by omega
  cases short
  · rw [show deckMask false = RP.Gen.handMaskStd from rfl, rowsStd] at h
    rcases hst with rfl | rfl | rfl | rfl
    · have e : (nIsomorphismsTable false).getD 0 0 = 169 := by decide
      rw [e]; simp only [show nObserved 0 = 0 from rfl] at h; norm_num at h; omega
    · have e : (nIsomorphismsTable false).getD 1 0 = 1286792 := by decide
      rw [e]; simp only [show nObserved 1 = 3 from rfl] at h; norm_num at h; omega
    · have e : (nIsomorphismsTable false).getD 2 0 = 13960050 := by decide
      rw [e]; simp only [show nObserved 2 = 4 from rfl] at h; norm_num at h; omega
    · have e : (nIsomorphismsTable false).getD 3 0 = 123156254 := by decide
      rw [e]; simp only [show nObserved 3 = 5 from rfl] at h; norm_num at h; omega
  · rw [show deckMask true = RP.Gen.handMaskShort from rfl, rowsShort] at h
    rcases hst with rfl | rfl | rfl | rfl
    · have e : (nIsomorphismsTable true).getD 0 0 = 81 := by decide
      rw [e]; simp only [show nObserved 0 = 0 from rfl] at h; norm_num at h; omega
    · have e : (nIsomorphismsTable true).getD 1 0 = 186696 := by decide
      rw [e]; simp only [show nObserved 1 = 3 from rfl] at h; norm_num at h; omega
    · have e : (nIsomorphismsTable true).getD 2 0 = 1340856 := by decide
      rw [e]; simp only [show nObserved 2 = 4 from rfl] at h; norm_num at h; omega
    · have e : (nIsomorphismsTable true).getD 3 0 = 7723728 := by decide
      rw [e]; simp only [show nObserved 3 = 5 from rfl] at h; norm_num at h; omega

end RP.C06
