import RP.Props.C17
/-! # C18 — A truncated table file is never loaded as if it were complete

Model: the four loaders of `RP.Pgcopy` (`lean/RP/Model/Pgcopy.lean`), whose row loop is interpreted
from the generated `load()` call lists and whose strictness (is the `0xFFFF` trailer mandatory?) is
the generated flag `RP.Gen.Layout.<t>_strict`.

* `C18_<table>` — for ALL table contents (rows in any order, any bit patterns) and EVERY byte offset
  `k` below the file length: loading the first `k` bytes *fails*, or returns exactly what loading
  the complete file returns.  Proved in the stronger form `C18_<table>_fails`: it always fails.
  The proof is the prefix induction over rows of DESIGN A.6 (`loadLoop_trunc`): a cut inside a row
  is a short read inside the row (the `expect` panic), a cut between rows or inside the header or
  trailer is a short 2-byte read, which the repaired loaders turn into a failure.
  The side condition `strict = true` is discharged by `decide` on the generated flag, so reverting
  the repair (`while reader.read_exact(..).is_ok()`) breaks these theorems.
* `C18_pinned_*` — the pinned (non-strict) loader semantics, kept as a proved counter-example:
  for every table and every `j`, cutting the file after `j` complete rows loads exactly those `j`
  rows without any error; with a concrete `decide`d witness that this differs from the complete
  content. -/
namespace RP.C18
open RP.Pgcopy RP.C17 RP.Gen.Layout

/-- the loaders insist on the trailer (generated from the source: `loop { read_exact(..).expect(..)`) -/
theorem strict_all : blueprintSpec.strict = true ∧ metricSpec.strict = true ∧ lookupSpec.strict = true ∧
    transitionsSpec.strict = true := by decide

/-- generic form: a strict loader fails on every strict prefix of a saved file -/
theorem load_prefix_fails {σ : Type} (s : Spec) (ins : List Nat → σ → σ) (init : σ)
    (hs : specOK s = true) (hstrict : s.strict = true) (rows : List (List Nat))
    (hf : ∀ r ∈ rows, fits s.wfields r) (k : Nat) (hk : k < (encode s rows).length) :
    load s ins init ((encode s rows).take k) = none := by
  simp only [load, hstrict]
  exact loadWith_prefix_strict s ins init hs rows hf k hk

/-! ## the four loaders: every strict prefix fails -/

theorem C18_blueprint_fails (rows : List PRow) (hb : ∀ r ∈ rows, PRow.ok r)
    (k : Nat) (hk : k < (saveBlueprint rows).length) :
    loadBlueprint ((saveBlueprint rows).take k) = none :=
  load_prefix_fails _ _ _ specOK_all.1 strict_all.1 _ (fits_map _ _ rows PRow.ok fits_blueprint hb) k hk

theorem C18_metric_fails (rows : List MRow) (hb : ∀ r ∈ rows, MRow.ok r)
    (k : Nat) (hk : k < (saveMetric rows).length) :
    loadMetric ((saveMetric rows).take k) = none :=
  load_prefix_fails _ _ _ specOK_all.2.1 strict_all.2.1 _ (fits_map _ _ rows MRow.ok fits_metric hb) k hk

theorem C18_lookup_fails (rows : List LRow) (hb : ∀ r ∈ rows, LRow.ok r)
    (k : Nat) (hk : k < (saveLookup rows).length) :
    loadLookup ((saveLookup rows).take k) = none :=
  load_prefix_fails _ _ _ specOK_all.2.2.1 strict_all.2.2.1 _ (fits_map _ _ rows LRow.ok fits_lookup hb) k hk

theorem C18_transitions_fails (conv : Nat → Nat) (rows : List TRow) (hb : ∀ r ∈ rows, TRow.ok r)
    (k : Nat) (hk : k < (saveTransitions rows).length) :
    loadTransitions conv ((saveTransitions rows).take k) = none :=
  load_prefix_fails _ _ _ specOK_all.2.2.2 strict_all.2.2.2 _ (fits_map _ _ rows TRow.ok fits_transitions hb) k hk

/-! ## the property as stated: fail, or exactly the complete content -/

/-- **C18, blueprint**: `∀ t k, k < |save t| → load (take k (save t)) = fail ∨ = load (save t)`
    (and `load (save t) = ok t` is C17). -/
theorem C18_blueprint (rows : List PRow) (hb : ∀ r ∈ rows, PRow.ok r)
    (k : Nat) (hk : k < (saveBlueprint rows).length) :
    loadBlueprint ((saveBlueprint rows).take k) = none ∨
      loadBlueprint ((saveBlueprint rows).take k) = loadBlueprint (saveBlueprint rows) :=
  Or.inl (C18_blueprint_fails rows hb k hk)

theorem C18_metric (rows : List MRow) (hb : ∀ r ∈ rows, MRow.ok r)
    (k : Nat) (hk : k < (saveMetric rows).length) :
    loadMetric ((saveMetric rows).take k) = none ∨
      loadMetric ((saveMetric rows).take k) = loadMetric (saveMetric rows) :=
  Or.inl (C18_metric_fails rows hb k hk)

theorem C18_lookup (rows : List LRow) (hb : ∀ r ∈ rows, LRow.ok r)
    (k : Nat) (hk : k < (saveLookup rows).length) :
    loadLookup ((saveLookup rows).take k) = none ∨
      loadLookup ((saveLookup rows).take k) = loadLookup (saveLookup rows) :=
  Or.inl (C18_lookup_fails rows hb k hk)

theorem C18_transitions (conv : Nat → Nat) (rows : List TRow) (hb : ∀ r ∈ rows, TRow.ok r)
    (k : Nat) (hk : k < (saveTransitions rows).length) :
    loadTransitions conv ((saveTransitions rows).take k) = none ∨
      loadTransitions conv ((saveTransitions rows).take k) = loadTransitions conv (saveTransitions rows) :=
  Or.inl (C18_transitions_fails conv rows hb k hk)

/-- the statement with the table itself: for every canonical blueprint `t`, every enumeration `rows`
    of it and every cut `k`, the loader fails or returns exactly `t` -/
theorem C18_blueprint_table (t : PMap) (hw : WFP t) (hkeys : KeysOK t) (rows : List PRow)
    (hb : ∀ r ∈ rows, PRow.ok r) (hm : ∀ r, r ∈ rows ↔ r ∈ t.rows)
    (k : Nat) (hk : k < (saveBlueprint rows).length) :
    loadBlueprint ((saveBlueprint rows).take k) = none ∨ loadBlueprint ((saveBlueprint rows).take k) = some t := by
  rw [← C17_roundtrip_blueprint t hw hkeys rows hb hm]
  exact C18_blueprint rows hb k hk

theorem C18_metric_table (t : KV) (ht : Sorted t) (rows : List MRow) (hb : ∀ r ∈ rows, MRow.ok r)
    (hm : ∀ p, p ∈ rows.map (fun r => (r.xor, r.dx)) ↔ p ∈ t)
    (k : Nat) (hk : k < (saveMetric rows).length) :
    loadMetric ((saveMetric rows).take k) = none ∨ loadMetric ((saveMetric rows).take k) = some t := by
  rw [← C17_roundtrip_metric t ht rows hb hm]
  exact C18_metric rows hb k hk

theorem C18_lookup_table (t : KV) (ht : Sorted t) (rows : List LRow) (hb : ∀ r ∈ rows, LRow.ok r)
    (hm : ∀ p, p ∈ rows.map (fun r => (r.obs, r.abs)) ↔ p ∈ t)
    (k : Nat) (hk : k < (saveLookup rows).length) :
    loadLookup ((saveLookup rows).take k) = none ∨ loadLookup ((saveLookup rows).take k) = some t := by
  rw [← C17_roundtrip_lookup t ht rows hb hm]
  exact C18_lookup rows hb k hk

/-! ## the composite loaders (`Encoder::load`, `Blueprint::load`, anchors: mccfr/blueprint.rs) -/

theorem encStep_none (f : Bytes) : encStep none f = none := rfl

theorem encStep_fail (acc : Option KV) (f : Bytes) (h : loadLookup f = none) : encStep acc f = none := by
  cases acc <;> simp [encStep, h]

theorem foldl_encStep_none (fs : List Bytes) : fs.foldl encStep none = none := by
  induction fs with
  | nil => rfl
  | cons f fs ih => simpa [List.foldl_cons, encStep_none] using ih

/-- one street file that does not load makes `Encoder::load` fail, whatever the other files are -/
theorem loadEncoder_none_of_part (pre post : List Bytes) (f : Bytes) (h : loadLookup f = none) :
    loadEncoder (pre ++ f :: post) = none := by
  simp only [loadEncoder, List.foldl_append, List.foldl_cons, encStep_fail _ f h]
  exact foldl_encStep_none post

/-- **C18, `Encoder::load`**: with ANY street's lookup file cut at ANY byte (the other files being
    whatever they are), the composite load fails — a street is never silently missing. -/
theorem C18_encoder_fails (pre post : List Bytes) (rows : List LRow) (hb : ∀ r ∈ rows, LRow.ok r)
    (k : Nat) (hk : k < (saveLookup rows).length) :
    loadEncoder (pre ++ (saveLookup rows).take k :: post) = none :=
  loadEncoder_none_of_part pre post _ (C18_lookup_fails rows hb k hk)

/-- **C18, `Blueprint::load`**: a cut in the blueprint file or in any street's lookup file fails it -/
theorem C18_blueprint_all_fails_profile (rows : List PRow) (hb : ∀ r ∈ rows, PRow.ok r)
    (k : Nat) (hk : k < (saveBlueprint rows).length) (lookups : List Bytes) :
    loadBlueprintAll ((saveBlueprint rows).take k) lookups = none := by
  simp [loadBlueprintAll, C18_blueprint_fails rows hb k hk]

theorem C18_blueprint_all_fails_lookup (profile : Bytes) (pre post : List Bytes) (rows : List LRow)
    (hb : ∀ r ∈ rows, LRow.ok r) (k : Nat) (hk : k < (saveLookup rows).length) :
    loadBlueprintAll profile (pre ++ (saveLookup rows).take k :: post) = none := by
  simp only [loadBlueprintAll, C18_encoder_fails pre post rows hb k hk]
  cases loadBlueprint profile <;> rfl

-- non-vacuity: four complete street files load and merge; cutting the third one fails
example : loadEncoder [saveLookup [⟨1, 10⟩], saveLookup [⟨2, 20⟩], saveLookup [⟨3, 30⟩, ⟨4, 40⟩], saveLookup [⟨5, 50⟩]]
    = some [(1, 10), (2, 20), (3, 30), (4, 40), (5, 50)] := by decide +kernel
example : loadEncoder [saveLookup [⟨1, 10⟩], saveLookup [⟨2, 20⟩], (saveLookup [⟨3, 30⟩, ⟨4, 40⟩]).take 45, saveLookup [⟨5, 50⟩]]
    = none := by decide +kernel

/-- the complete file does load (so the theorems above are not about a loader that always fails) -/
theorem C18_complete_loads_transitions (conv : Nat → Nat) (rows : List TRow) (hb : ∀ r ∈ rows, TRow.ok r) :
    loadTransitions conv (saveTransitions rows)
      = some ((rows.map TRow.toWire).foldl (fun a r => transitionsIns conv r a) []) := by
  simp only [loadTransitions, saveTransitions, load]
  exact loadWith_encode _ _ _ _ specOK_all.2.2.2 _ (fits_map _ _ rows TRow.ok fits_transitions hb)

-- non-vacuity: a two-row metric file has 65 bytes; every one of the 65 strict prefixes fails, the
-- complete file loads both rows
example : (saveMetric [⟨3, 7⟩, ⟨5, 0x3f800000⟩]).length = 65 := by decide +kernel
example : (List.range 65).all (fun k => loadMetric ((saveMetric [⟨3, 7⟩, ⟨5, 0x3f800000⟩]).take k) == none) = true := by
  decide +kernel
example : loadMetric (saveMetric [⟨3, 7⟩, ⟨5, 0x3f800000⟩]) = some [(3, 7), (5, 0x3f800000)] := by decide +kernel
example : loadTransitions (fun w => w / 2) ((saveTransitions [⟨1, 2, 8⟩]).take 54) = none := by decide +kernel
example : loadTransitions (fun w => w / 2) (saveTransitions [⟨1, 2, 8⟩]) = some [(1, (4, [(2, 4)]))] := by decide +kernel

/-! ## the pinned loaders (trailer optional): a cut at a row boundary loads short -/

theorem rowLen_all : rowLen blueprintSpec = 66 ∧ rowLen metricSpec = 22 ∧ rowLen lookupSpec = 26 ∧
    rowLen transitionsSpec = 34 ∧ blueprintSpec.header.length = 19 ∧ metricSpec.header.length = 19 ∧
    lookupSpec.header.length = 19 ∧ transitionsSpec.header.length = 19 := by decide

/-- generic: the non-strict loop returns the first `j` rows for a file cut after `j` rows -/
theorem pinned_boundary {σ : Type} (s : Spec) (ins : List Nat → σ → σ) (init : σ) (hs : specOK s = true)
    (rows more : List (List Nat)) (hf : ∀ r ∈ rows, fits s.wfields r) :
    loadWith s false ins init ((encode s (rows ++ more)).take (s.header.length + rows.length * rowLen s))
      = some (rows.foldl (fun a r => ins r a) init) := by
  have := loadWith_boundary_nonstrict s ins init hs rows more hf
  rw [encRows_length hf] at this
  exact this

/-- **pinned blueprint loader**: cut after `j` rows (byte `19 + 66·j`) ⇒ those `j` rows, no error -/
theorem C18_pinned_blueprint_loads_short (rows more : List PRow) (hb : ∀ r ∈ rows, PRow.ok r) :
    loadBlueprintWith false ((saveBlueprint (rows ++ more)).take (19 + rows.length * 66))
      = some (buildP rows []) := by
  have := pinned_boundary blueprintSpec blueprintIns [] specOK_all.1 (rows.map PRow.toWire)
    (more.map PRow.toWire) (fits_map _ _ rows PRow.ok fits_blueprint hb)
  rw [rowLen_all.1, rowLen_all.2.2.2.2.1, List.length_map, ← List.map_append] at this
  simp only [loadBlueprintWith, saveBlueprint]
  rw [this]
  simp only [List.foldl_map, buildP]
  rfl

/-- **pinned metric loader**: cut after `j` rows (byte `19 + 22·j`) ⇒ those `j` rows, no error -/
theorem C18_pinned_metric_loads_short (rows more : List MRow) (hb : ∀ r ∈ rows, MRow.ok r) :
    loadMetricWith false ((saveMetric (rows ++ more)).take (19 + rows.length * 22))
      = some (buildKV (rows.map (fun r => (r.xor, r.dx))) []) := by
  have := pinned_boundary metricSpec metricIns [] specOK_all.2.1 (rows.map MRow.toWire)
    (more.map MRow.toWire) (fits_map _ _ rows MRow.ok fits_metric hb)
  rw [rowLen_all.2.1, rowLen_all.2.2.2.2.2.1, List.length_map, ← List.map_append] at this
  simp only [loadMetricWith, saveMetric]
  rw [this]
  simp only [List.foldl_map, buildKV]
  rfl

/-- **pinned lookup loader** -/
theorem C18_pinned_lookup_loads_short (rows more : List LRow) (hb : ∀ r ∈ rows, LRow.ok r) :
    loadLookupWith false ((saveLookup (rows ++ more)).take (19 + rows.length * 26))
      = some (buildKV (rows.map (fun r => (r.obs, r.abs))) []) := by
  have := pinned_boundary lookupSpec lookupIns [] specOK_all.2.2.1 (rows.map LRow.toWire)
    (more.map LRow.toWire) (fits_map _ _ rows LRow.ok fits_lookup hb)
  rw [rowLen_all.2.2.1, rowLen_all.2.2.2.2.2.2.1, List.length_map, ← List.map_append] at this
  simp only [loadLookupWith, saveLookup]
  rw [this]
  simp only [List.foldl_map, buildKV]
  rfl

/-- **pinned transitions loader** -/
theorem C18_pinned_transitions_loads_short (conv : Nat → Nat) (rows more : List TRow) (hb : ∀ r ∈ rows, TRow.ok r) :
    loadTransitionsWith conv false ((saveTransitions (rows ++ more)).take (19 + rows.length * 34))
      = some ((rows.map TRow.toWire).foldl (fun a r => transitionsIns conv r a) []) := by
  have := pinned_boundary transitionsSpec (transitionsIns conv) [] specOK_all.2.2.2 (rows.map TRow.toWire)
    (more.map TRow.toWire) (fits_map _ _ rows TRow.ok fits_transitions hb)
  rw [rowLen_all.2.2.2.1, rowLen_all.2.2.2.2.2.2.2, List.length_map, ← List.map_append] at this
  simp only [loadTransitionsWith, saveTransitions]
  exact this

/-- **the pinned semantics violates the property** (witness): a two-row metric file cut at byte 41
    (after the first row) loads without error and one row is missing; also a cut inside the header
    (byte 10) loads an empty table. -/
theorem C18_pinned_violates :
    (41 < (saveMetric [⟨3, 7⟩, ⟨5, 0x3f800000⟩]).length) ∧
    loadMetricWith false ((saveMetric [⟨3, 7⟩, ⟨5, 0x3f800000⟩]).take 41) = some [(3, 7)] ∧
    loadMetricWith false (saveMetric [⟨3, 7⟩, ⟨5, 0x3f800000⟩]) = some [(3, 7), (5, 0x3f800000)] ∧
    loadMetricWith false ((saveMetric [⟨3, 7⟩, ⟨5, 0x3f800000⟩]).take 10) = some [] ∧
    -- the repaired loader on the same cuts
    loadMetric ((saveMetric [⟨3, 7⟩, ⟨5, 0x3f800000⟩]).take 41) = none ∧
    loadMetric ((saveMetric [⟨3, 7⟩, ⟨5, 0x3f800000⟩]).take 10) = none := by
  decide +kernel

end RP.C18
