import RP.Model.Sampler
import Mathlib.Order.Interval.Finset.Nat
import Mathlib.Tactic.Ring
/-! # C20 / C14 — `gen_range` is exactly uniform over the accepted 64-bit draws

`rand 0.8`'s `sample_single` draws a word `v`, forms the double-width product `v * n`, accepts when the
low word is `≤ zone` and returns the high word. Counting theorem: whenever `zone + 1` is a multiple of
`n`, every index `i < n` is returned by exactly `(zone + 1) / n` of the `W = 2^w` possible words — so
with `v` uniform the accepted index is exactly uniform on `{0,…,n-1}` (no modulo bias). The model's
zone `(n << lz) - 1` and the `u8` zone used by `Deck::draw` both satisfy the hypothesis. -/
namespace RP.C20
open RP.Sampler

/-- smallest `x` with `a ≤ x * n` -/
def ceilDiv (a n : Nat) : Nat := (a + n - 1) / n

theorem le_mul_iff_ceilDiv (a n x : Nat) (hn : 0 < n) : a ≤ x * n ↔ ceilDiv a n ≤ x := by
  unfold ceilDiv
  constructor
  · intro h
    have : (a + n - 1) / n < x + 1 := by
      rw [Nat.div_lt_iff_lt_mul hn]
      have : (x + 1) * n = x * n + n := by ring
      omega
    omega
  · intro h
    have h1 : (a + n - 1) / n < x + 1 := by omega
    rw [Nat.div_lt_iff_lt_mul hn] at h1
    have : (x + 1) * n = x * n + n := by ring
    omega

theorem mul_lt_add_iff (a n q x : Nat) (hn : 0 < n) :
    x * n < a + n * q ↔ x < ceilDiv a n + q := by
  by_cases hx : x < q
  · constructor
    · intro _; omega
    · intro _
      have : x * n < n * q := by
        rw [Nat.mul_comm x n]; exact Nat.mul_lt_mul_of_pos_left hx hn
      omega
  · obtain ⟨y, rfl⟩ : ∃ y, x = y + q := ⟨x - q, by omega⟩
    have e : (y + q) * n = y * n + n * q := by ring
    rw [e]
    have := le_mul_iff_ceilDiv a n y hn
    constructor
    · intro h
      have : ¬ a ≤ y * n := by omega
      have : ¬ ceilDiv a n ≤ y := fun c => this ((le_mul_iff_ceilDiv a n y hn).2 c)
      omega
    · intro h
      have : ¬ ceilDiv a n ≤ y := by omega
      have : ¬ a ≤ y * n := fun c => this ((le_mul_iff_ceilDiv a n y hn).1 c)
      omega

/-- the accepted words that yield index `i` form an interval of length `(Z+1)/n` -/
theorem accepted_iff (W n Z i v : Nat) (hW : 0 < W) (hn : 0 < n) (hZ : Z < W) (q : Nat)
    (hq : Z + 1 = n * q) :
    ((v * n) % W ≤ Z ∧ (v * n) / W = i) ↔ (ceilDiv (i * W) n ≤ v ∧ v < ceilDiv (i * W) n + q) := by
  rw [← le_mul_iff_ceilDiv (i * W) n v hn, ← mul_lt_add_iff (i * W) n q v hn]
  have hdm := Nat.div_add_mod (v * n) W
  have hml := Nat.mod_lt (v * n) hW
  constructor
  · rintro ⟨h1, h2⟩
    rw [h2] at hdm
    have : W * i = i * W := Nat.mul_comm _ _
    omega
  · rintro ⟨h1, h2⟩
    have hlt : v * n < (i + 1) * W := by
      have : (i + 1) * W = i * W + W := by ring
      omega
    have hdiv : (v * n) / W = i := by
      apply Nat.div_eq_of_lt_le
      · exact h1
      · exact hlt
    rw [hdiv] at hdm
    have : W * i = i * W := Nat.mul_comm _ _
    refine ⟨by omega, hdiv⟩

/-- **Counting form of uniformity**: every index `i < n` is produced by exactly `(Z + 1) / n` of the
    `W` equally likely words. -/
theorem C20_genRange_uniform (W n Z i : Nat) (hW : 0 < W) (hn : 0 < n) (hZ : Z < W) (hi : i < n)
    (hdvd : (Z + 1) % n = 0) :
    ((Finset.range W).filter (fun v => (v * n) % W ≤ Z ∧ (v * n) / W = i)).card = (Z + 1) / n := by
  obtain ⟨q, hq⟩ : ∃ q, Z + 1 = n * q := ⟨(Z + 1) / n, by
    have := Nat.div_add_mod (Z + 1) n; omega⟩
  have hqd : (Z + 1) / n = q := by rw [hq]; exact Nat.mul_div_cancel_left q hn
  rw [hqd]
  set c := ceilDiv (i * W) n with hc
  have key : (Finset.range W).filter (fun v => (v * n) % W ≤ Z ∧ (v * n) / W = i) = Finset.Ico c (c + q) := by
    ext v
    simp only [Finset.mem_filter, Finset.mem_range, Finset.mem_Ico]
    rw [accepted_iff W n Z i v hW hn hZ q hq]
    constructor
    · rintro ⟨_, h⟩; exact h
    · intro h
      refine ⟨?_, h⟩
      -- v < W: from v * n < i * W + n * q ≤ i * W + W ≤ n * W
      have h2 := (mul_lt_add_iff (i * W) n q v hn).2 h.2
      have h3 : (i + 1) * W ≤ n * W := Nat.mul_le_mul_right W hi
      have h4 : (i + 1) * W = i * W + W := by ring
      have h5 : v * n < n * W := by omega
      rw [Nat.mul_comm v n] at h5
      exact Nat.lt_of_mul_lt_mul_left h5
  rw [key, Nat.card_Ico]; omega

/-- consequently any two indices are equally likely -/
theorem C20_genRange_unbiased (W n Z i j : Nat) (hW : 0 < W) (hn : 0 < n) (hZ : Z < W) (hi : i < n)
    (hj : j < n) (hdvd : (Z + 1) % n = 0) :
    ((Finset.range W).filter (fun v => (v * n) % W ≤ Z ∧ (v * n) / W = i)).card =
    ((Finset.range W).filter (fun v => (v * n) % W ≤ Z ∧ (v * n) / W = j)).card := by
  rw [C20_genRange_uniform W n Z i hW hn hZ hi hdvd, C20_genRange_uniform W n Z j hW hn hZ hj hdvd]

/-- the zone of the model (`(range << lz) - 1`, the 64-bit path used by `explore_any` and k-means
    seeding) satisfies the hypothesis: `zone + 1 = n * 2^lz` -/
theorem genRangeZone_spec (n : Nat) (hn : 0 < n) (hlt : n < 2 ^ 64) :
    genRangeZone n < 2 ^ 64 ∧ (genRangeZone n + 1) % n = 0 := by
  unfold genRangeZone
  simp only []
  have hlog : n.log2 < 64 := (Nat.log2_lt (by omega)).2 hlt
  have hself : n < 2 ^ (n.log2 + 1) := Nat.lt_log2_self
  set lz := 64 - (n.log2 + 1) with hlz
  have hsh : n <<< lz = n * 2 ^ lz := Nat.shiftLeft_eq n lz
  have hbound : n * 2 ^ lz < 2 ^ 64 := by
    have : 2 ^ (n.log2 + 1) * 2 ^ lz = 2 ^ 64 := by
      rw [← Nat.pow_add]; congr 1; omega
    calc n * 2 ^ lz < 2 ^ (n.log2 + 1) * 2 ^ lz := Nat.mul_lt_mul_of_pos_right hself (Nat.two_pow_pos lz)
      _ = 2 ^ 64 := this
  have hpos : 0 < n * 2 ^ lz := Nat.mul_pos hn (Nat.two_pow_pos lz)
  rw [hsh, Nat.mod_eq_of_lt hbound]
  have e : (n * 2 ^ lz + 2 ^ 64 - 1) % 2 ^ 64 = n * 2 ^ lz - 1 := by
    have : n * 2 ^ lz + 2 ^ 64 - 1 = (n * 2 ^ lz - 1) + 2 ^ 64 := by omega
    rw [this, Nat.add_mod_right, Nat.mod_eq_of_lt (by omega)]
  rw [e]
  refine ⟨by omega, ?_⟩
  have : n * 2 ^ lz - 1 + 1 = n * 2 ^ lz := by omega
  rw [this]; exact Nat.mul_mod_right n _

/-- **`explore_any` / k-means seeding draw without bias**: with the model's own zone, every chance
    branch index `i < n` is selected by the same number of 64-bit words. -/
theorem C20_exploreAny_unbiased (n i j : Nat) (hn : 0 < n) (hlt : n < 2 ^ 64) (hi : i < n) (hj : j < n) :
    ((Finset.range (2 ^ 64)).filter (fun v => (v * n) % 2 ^ 64 ≤ genRangeZone n ∧ (v * n) / 2 ^ 64 = i)).card =
    ((Finset.range (2 ^ 64)).filter (fun v => (v * n) % 2 ^ 64 ≤ genRangeZone n ∧ (v * n) / 2 ^ 64 = j)).card :=
  C20_genRange_unbiased (2 ^ 64) n (genRangeZone n) i j (Nat.two_pow_pos 64) hn (genRangeZone_spec n hn hlt).1 hi hj
    (genRangeZone_spec n hn hlt).2

/-- the zone `rand` uses for `u8`/`u16`/`u32` ranges (a 32-bit word, `Deck::draw`'s
    `gen_range(0..n as u8)`): `zone = 2^32 - 1 - (2^32 - n) % n`, again a multiple of `n` minus one -/
theorem smallZone_spec (n : Nat) (hn : 0 < n) (hlt : n ≤ 2 ^ 32) :
    (2 ^ 32 - 1 - (2 ^ 32 - n) % n) < 2 ^ 32 ∧ ((2 ^ 32 - 1 - (2 ^ 32 - n) % n) + 1) % n = 0 := by
  have hr : (2 ^ 32 - n) % n < n := Nat.mod_lt _ hn
  refine ⟨by omega, ?_⟩
  have e : (2 ^ 32 - 1 - (2 ^ 32 - n) % n) + 1 = 2 ^ 32 - (2 ^ 32 - n) % n := by omega
  rw [e]
  have hm : 2 ^ 32 % n = (2 ^ 32 - n) % n := Nat.mod_eq_sub_mod hlt
  apply Nat.sub_mod_eq_zero_of_mod_eq
  rw [Nat.mod_mod]; exact hm

/-- **`Deck::draw`'s index is unbiased**: for a deck of `n ≤ 52` cards every index is produced by the
    same number of 32-bit words (so, with C14's bijection index ↦ card, every remaining card is
    equally likely given a uniform generator word). -/
theorem C14_draw_index_unbiased (n i j : Nat) (hn : 0 < n) (hlt : n ≤ 2 ^ 32) (hi : i < n) (hj : j < n) :
    ((Finset.range (2 ^ 32)).filter (fun v => (v * n) % 2 ^ 32 ≤ 2 ^ 32 - 1 - (2 ^ 32 - n) % n ∧ (v * n) / 2 ^ 32 = i)).card =
    ((Finset.range (2 ^ 32)).filter (fun v => (v * n) % 2 ^ 32 ≤ 2 ^ 32 - 1 - (2 ^ 32 - n) % n ∧ (v * n) / 2 ^ 32 = j)).card :=
  C20_genRange_unbiased (2 ^ 32) n _ i j (Nat.two_pow_pos 32) hn (smallZone_spec n hn hlt).1 hi hj (smallZone_spec n hn hlt).2

-- non-vacuity on a small word: W = 16, n = 3, zone = 11 (12 = 3 * 4): each index from exactly 4 words
example : ((Finset.range 16).filter (fun v => (v * 3) % 16 ≤ 11 ∧ (v * 3) / 16 = 1)).card = 4 := by decide
example : (genRangeZone 5 + 1) % 5 = 0 := by decide

end RP.C20
