import RP.Model.Pgcopy
open RP.Pgcopy
#eval blueprintSpec
#eval specOK blueprintSpec && specOK metricSpec && specOK lookupSpec && specOK transitionsSpec
#eval (blueprintWRoles, blueprintRRoles, metricWRoles, metricRRoles, lookupWRoles, lookupRRoles, transitionsWRoles, transitionsRRoles)
#eval saveMetric [⟨5, 0x3f800000⟩]
#eval loadMetric (saveMetric [⟨5, 0x3f800000⟩, ⟨3, 7⟩])
#eval loadBlueprint (saveBlueprint [⟨1,2,3,4,5,6⟩, ⟨1,2,3,1,7,8⟩, ⟨0,2,3,1,7,8⟩])
#eval (loadBlueprint (saveBlueprint [⟨1,2,3,4,5,6⟩, ⟨1,2,3,1,7,8⟩, ⟨0,2,3,1,7,8⟩])).map PMap.rows
#eval (List.range 45).map (fun k => (loadMetric ((saveMetric [⟨5, 0x3f800000⟩]).take k)).isSome)
#eval (List.range 45).map (fun k => (loadMetricWith false ((saveMetric [⟨5, 0x3f800000⟩]).take k)))
example : specOK blueprintSpec = true := by decide
example : ∀ r : PRow, PRow.ofWire r.toWire = r := by intro r; cases r; rfl
example : ∀ r : PRow, PRow.ofWire r.toWire = r := by intro r; cases r; decide
