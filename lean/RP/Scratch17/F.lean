#eval (Float32.ofBits 0x7f800000).toUInt64
#eval (Float32.ofBits 0x7fc00000).toUInt64
#eval (Float32.ofBits 0xbf800000).toUInt64
#eval ((Float32.ofBits 0x3f000000) * (Float32.ofNat 47)).toUInt64
#eval (Float32.ofNat 19600)
