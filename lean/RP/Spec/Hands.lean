/-! # Executable specification for C06: the `k`-subsets of the unblocked cards, in increasing order

`ksubsets w k m` lists, as bit masks and in increasing numeric order, every set of `k` cards taken
from the positions `c < w` whose bit is clear in `m`.  It is written by recursion on the highest
card (a set either avoids card `w` or is a smaller set plus card `w`), which is the textbook
definition of the subsets of a finite set; it does not mention Gosper's step. Core Lean only. -/
namespace RP.Spec

def ksubsets : Nat → Nat → Nat → List Nat
  | _, 0, _ => [0]
  | 0, _+1, _ => []
  | w+1, k+1, m =>
    ksubsets w (k+1) m ++ (if m.testBit w then [] else (ksubsets w k m).map (· + 2^w))

/-- the observations of a street with `n` board cards in a `w`-position deck whose unusable
positions are `m0`: every pocket, and for every pocket every board avoiding it -/
def observations (w : Nat) (m0 : Nat) (n : Nat) : List (Nat × Nat) :=
  (ksubsets w 2 m0).flatMap (fun p => (ksubsets w n (p ||| m0)).map (fun b => (p, b)))

end RP.Spec
