/-! # The rules of poker hand ranking (executable specification for C01)

Written from the rules, independent of the evaluator model and of `RP.Gen`:

* a card is `4·rank + suit`, rank `0` = deuce … `12` = ace;
* the value of five cards is the pair (category, tie-break), the category decided by the
  multiplicity pattern of the ranks, by "all five of one suit" and by "five consecutive ranks
  (the ace may play low: A-2-3-4-5 in the 52-card deck, A-6-7-8-9 in the 36-card deck)";
  the tie-break lists the five ranks ordered by (multiplicity, rank), highest first; for straights
  it is the top card of the run;
* categories: high card < pair < two pair < trips < straight < flush < full house < quads <
  straight flush; in the 36-card deck flush and full house are exchanged;
* the value of a 5-7 card set is the maximum over its five-card subsets.

Values are encoded as base-16 numbers with digits `category, t₁+2, …, t₅+2` (absent = 0), so the
order of values is the lexicographic order of `(category, tie-break)`. -/
namespace RP.Spec.Poker

inductive Cat where
  | highCard | pair | twoPair | trips | straight | flush | fullHouse | quads | straightFlush
  deriving DecidableEq, Repr

/-- position of a category in the ranking; `short` = 36-card deck -/
def Cat.pos (short : Bool) : Cat → Nat
  | .highCard => 0
  | .pair => 1
  | .twoPair => 2
  | .trips => 3
  | .straight => 4
  | .flush => if short then 6 else 5
  | .fullHouse => if short then 5 else 6
  | .quads => 7
  | .straightFlush => 8

def rank (c : Nat) : Nat := c / 4
def suit (c : Nat) : Nat := c % 4

/-- the cards of a hand word (bit `c` set = card `c` present), highest card first -/
def cardsW : Nat → Nat → List Nat
  | 0, _ => []
  | w+1, h => if h.testBit w then w :: cardsW w h else cardsW w h

def cards (h : Nat) : List Nat := cardsW 52 h

/-- all sublists of length `k` -/
def sublistsLen {α : Type} : Nat → List α → List (List α)
  | 0, _ => [[]]
  | _+1, [] => []
  | k+1, x :: xs => (sublistsLen k xs).map (x :: ·) ++ sublistsLen (k+1) xs

def insertDesc (key : Nat → Nat) (x : Nat) : List Nat → List Nat
  | [] => [x]
  | y :: ys => if key y < key x then x :: y :: ys else y :: insertDesc key x ys

def sortDesc (key : Nat → Nat) (l : List Nat) : List Nat := l.foldr (insertDesc key) []

/-- the ranks ordered by (multiplicity, rank), highest first -/
def tiebreak (l : List Nat) : List Nat := sortDesc (fun r => l.count r * 16 + r) l

/-- top card of a straight, for five ranks already ordered highest first -/
def straightTop (short : Bool) : List Nat → Option Nat
  | [a, b, c, d, e] =>
    if a = b + 1 ∧ b = c + 1 ∧ c = d + 1 ∧ d = e + 1 then some a
    else if !short && [a, b, c, d, e] == [12, 3, 2, 1, 0] then some 3
    else if short && [a, b, c, d, e] == [12, 7, 6, 5, 4] then some 7
    else none
  | _ => none

def encode (pos : Nat) (tb : List Nat) : Nat :=
  (tb ++ [0, 0, 0, 0, 0]).take 5 |>.foldl (fun v d => v * 16 + d) pos

/-- category and tie-break of five ranks; `flush` = the five cards are of one suit -/
def classify (short : Bool) (l : List Nat) (flush : Bool) : Cat × List Nat :=
  let tb := tiebreak l
  let pat := tb.map (l.count ·)
  let all := tb.map (· + 2)
  if pat = [4, 4, 4, 4, 1] then (.quads, all)
  else if pat = [3, 3, 3, 2, 2] then (.fullHouse, all)
  else if pat = [3, 3, 3, 1, 1] then (.trips, all)
  else if pat = [2, 2, 2, 2, 1] then (.twoPair, all)
  else if pat = [2, 2, 1, 1, 1] then (.pair, all)
  else match straightTop short tb, flush with
    | some t, true => (.straightFlush, [t + 2])
    | some t, false => (.straight, [t + 2])
    | none, true => (.flush, all)
    | none, false => (.highCard, all)

/-- value of five ranks -/
def valueR (short : Bool) (l : List Nat) (flush : Bool) : Nat :=
  let (c, tb) := classify short l flush
  encode (c.pos short) tb

def sameSuit : List Nat → Bool
  | [] => true
  | c :: cs => cs.all (fun d => suit d == suit c)

/-- value of a five-card set (list of cards) -/
def value5 (short : Bool) (s : List Nat) : Nat := valueR short (s.map rank) (sameSuit s)

def maxList (l : List Nat) : Nat := l.foldl max 0

/-- the best five-card hand contained in the card set `h` -/
def best5 (short : Bool) (h : Nat) : Nat := maxList ((sublistsLen 5 (cards h)).map (value5 short))

/-- the best value of five ranks out of a rank multiset (no flush) / out of one suit's ranks (flush) -/
def bestOfRanks (short : Bool) (l : List Nat) (flush : Bool) : Nat :=
  maxList ((sublistsLen 5 l).map (valueR short · flush))

end RP.Spec.Poker
