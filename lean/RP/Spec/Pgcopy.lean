import RP.Model.Pgcopy
/-! # Specification: the PostgreSQL binary COPY file format

Written from the PostgreSQL documentation (SQL COPY, "Binary Format"), not from the Rust code:

* file header: 11-byte signature `PGCOPY\n\377\r\n\0`, a 32-bit flags field (bits 16–31 are
  critical: a reader must abort on any it does not know; bit 16 = OIDs, no longer supported),
  a 32-bit header-extension length followed by that many bytes to be skipped;
* tuples: a 16-bit field count, then per field a 32-bit length (−1 = NULL, no bytes) and the bytes;
* file trailer: a 16-bit word −1.  Nothing may follow it.

`pgParse` is a length-driven reader of that format (the way `Writer::stream` re-reads the files
before streaming them to Postgres); it returns the fields of every tuple as byte strings. -/
namespace RP.PgSpec
open RP.Pgcopy

/-- `PGCOPY\n\377\r\n\0` -/
def signature : Bytes := [80, 71, 67, 79, 80, 89, 10, 255, 13, 10, 0]

def pgFields : Nat → Bytes → Option (List (Option Bytes) × Bytes)
  | 0, bs => some ([], bs)
  | n+1, bs =>
    match readN 4 bs with
    | none => none
    | some (l, bs1) =>
      if beVal l = 4294967295 then
        match pgFields n bs1 with
        | none => none
        | some (fs, r) => some (none :: fs, r)
      else
        match readN (beVal l) bs1 with
        | none => none
        | some (p, bs2) =>
          match pgFields n bs2 with
          | none => none
          | some (fs, r) => some (some p :: fs, r)

def pgTuples : Nat → Bytes → Option (List (List (Option Bytes)))
  | 0, _ => none
  | fuel+1, bs =>
    match readN 2 bs with
    | none => none
    | some (c, rest) =>
      if beVal c = 65535 then (if rest = [] then some [] else none)
      else
        match pgFields (beVal c) rest with
        | none => none
        | some (fs, rest') =>
          match pgTuples fuel rest' with
          | none => none
          | some ts => some (fs :: ts)

def pgParse (file : Bytes) : Option (List (List (Option Bytes))) :=
  match readN 11 file with
  | none => none
  | some (sig, r1) =>
    if sig = signature then
      match readN 4 r1 with
      | none => none
      | some (flags, r2) =>
        if beVal flags / 65536 = 0 then
          match readN 4 r2 with
          | none => none
          | some (ext, r3) =>
            match readN (beVal ext) r3 with
            | none => none
            | some (_, r4) => pgTuples (file.length + 1) r4
        else none
    else none

/-- width in bytes of the binary representation of a declared column type -/
def typeWidth : String → Nat
  | "INT8" => 8
  | "FLOAT4" => 4
  | "BIGINT" => 8
  | "REAL" => 4
  | _ => 0

/-- the fields a tuple must have for the declared columns: column `c` of type `ty` carries the
    big-endian `typeWidth ty`-byte pattern of the value that the column name denotes -/
def declaredFields (cols types : List String) (get : String → Nat) : List (Option Bytes) :=
  (cols.zip types).map (fun ct => some (be (typeWidth ct.2) (get ct.1)))

end RP.PgSpec
