import RP.Model.Game
/-! Executable specification: heads-up No-Limit Hold'em betting rules, *history-carrying*.

This is the "simple, obviously right" rules machine the engine model is compared with
(`RP/Props/C03Bisim.lean`). It shares nothing with `RP.Game` except the `Action` type and the
constants: there is no ticker, no "touched" threshold and no memoryless min-raise. Instead each
player carries a *has acted on this street* flag, the table carries the current bet to match and
the **size of the last raise on this street, taken from the history**.

Rules (from the property text):
* the hand is over when a player has folded, or when river betting is closed;
* betting on a street is closed when every player who can still act (not folded, chips behind)
  has acted on this street and has matched the current bet — in particular when nobody can act;
* when betting is closed before the river the next street is dealt: exactly 3 / 1 / 1 cards, none
  of them in play, all inside the 52-card deck;
* otherwise the player to act may: fold iff facing a bet; check iff not; call exactly the
  outstanding amount when it is less than his stack; go all-in for exactly his stack; raise any
  amount from `outstanding + max lastRaise BB` to one chip short of all-in;
* seat order (interpretation, see DESIGN C03): seat 1 is the small blind and acts first on every
  street, seat 0 is the big blind. -/
namespace RP.Spec.Nlhe
open RP.Game (Action BB SB STACK)
open RP.Bits (popW)

structure Player where
  stack : Int
  /-- chips put in on the current street -/
  bet : Int
  /-- chips put in during the hand -/
  total : Int
  folded : Bool
  /-- has acted on the current street -/
  acted : Bool
  hole : Nat
  deriving DecidableEq, Repr, Inhabited

structure Table where
  p0 : Player
  p1 : Player
  street : Nat
  board : Nat
  /-- the bet to match on this street -/
  curBet : Int
  /-- size of the last raise on this street (0: nobody has raised yet) -/
  lastRaise : Int
  /-- seat to act -/
  toAct : Nat
  deriving DecidableEq, Repr, Inhabited

inductive Ply where
  | over
  | deal
  | player (seat : Nat)
  deriving DecidableEq, Repr

/-- not folded and chips behind -/
def canAct (p : Player) : Bool := !p.folded && decide (0 < p.stack)

/-- a player who can act has nothing left to answer -/
def settled (t : Table) (p : Player) : Bool := !canAct p || (p.acted && p.bet == t.curBet)

def closed (t : Table) : Bool := settled t t.p0 && settled t t.p1

def turn (t : Table) : Ply :=
  if t.p0.folded || t.p1.folded then .over
  else if closed t then (if t.street = 3 then .over else .deal)
  else .player t.toAct

def actor (t : Table) : Player := if t.toAct = 0 then t.p0 else t.p1

def outstanding (t : Table) : Int := t.curBet - (actor t).bet

def inPlay (t : Table) : Nat := t.board ||| t.p0.hole ||| t.p1.hole

/-- the permitted moves -/
def permitted (t : Table) (a : Action) : Bool :=
  match turn t with
  | .over => false
  | .deal =>
    match a with
    | .draw c => (c &&& inPlay t == 0) && decide (c < 2 ^ 52) && (popW 64 c == if t.street = 0 then 3 else 1)
    | _ => false
  | .player _ =>
    match a with
    | .fold => decide (0 < outstanding t)
    | .check => decide (outstanding t = 0)
    | .call x => decide (x = outstanding t) && decide (0 < outstanding t) && decide (outstanding t < (actor t).stack)
    | .shove x => decide (x = (actor t).stack)
    | .raise x => decide (outstanding t + max t.lastRaise BB ≤ x) && decide (x ≤ (actor t).stack - 1)
    | .blind _ => false
    | .draw _ => false

/-- chips go from the stack into the pot -/
def Player.put (p : Player) (x : Int) : Player :=
  { p with stack := p.stack - x, bet := p.bet + x, total := p.total + x, acted := true }

def setActor (t : Table) (p : Player) : Table :=
  if t.toAct = 0 then { t with p0 := p } else { t with p1 := p }

/-- the seat after the actor, if it can act -/
def pass (t : Table) : Table :=
  let nxt := if t.toAct = 0 then 1 else 0
  let q := if nxt = 0 then t.p0 else t.p1
  if canAct q then { t with toAct := nxt } else t

def newStreet (p : Player) : Player := { p with bet := 0, acted := false }

/-- the effect of a permitted move -/
def apply (t : Table) (a : Action) : Table :=
  let p := actor t
  match a with
  | .fold => pass (setActor t { p with folded := true, acted := true })
  | .check => pass (setActor t { p with acted := true })
  | .call x => pass (setActor t (p.put x))
  | .raise x =>
    let p' := p.put x
    pass (setActor { t with lastRaise := p'.bet - t.curBet, curBet := p'.bet } p')
  | .shove x =>
    let p' := p.put x
    if p'.bet > t.curBet then
      let by_ := p'.bet - t.curBet
      pass (setActor { t with lastRaise := if by_ ≥ max t.lastRaise BB then by_ else t.lastRaise,
                              curBet := p'.bet } p')
    else pass (setActor t p')
  | .blind _ => t
  | .draw c =>
    let t' : Table := { t with board := t.board ||| c, street := t.street + 1, curBet := 0, lastRaise := 0,
                               p0 := newStreet t.p0, p1 := newStreet t.p1, toAct := 1 }
    if canAct t'.p1 then t' else { t' with toAct := 0 }

def step? (t : Table) (a : Action) : Option Table :=
  if permitted t a then some (apply t a) else none

def run? (t : Table) : List Action → Option Table
  | [] => some t
  | a :: as => (step? t a).bind (fun t' => run? t' as)

/-- a freshly dealt hand: seat 1 has posted the small blind, seat 0 the big blind, the big blind
is the bet to match, nobody has acted, nobody has raised, the small blind is first to act -/
def init (h0 h1 : Nat) : Table :=
  { p0 := { stack := STACK - BB, bet := BB, total := BB, folded := false, acted := false, hole := h0 },
    p1 := { stack := STACK - SB, bet := SB, total := SB, folded := false, acted := false, hole := h1 },
    street := 0, board := 0, curBet := BB, lastRaise := 0, toAct := 1 }

end RP.Spec.Nlhe
