import RP.Model.Cfr
/-! # Textbook external-sampling counterfactual regret (specification for C08)

Written from the definition, on the same flat tree representation as the dump (only the node
records and the children lists are used; none of the model's reach products or `leaves`).

* `value n` — sampled counterfactual value of node `n` for the traverser: the payoff at a
  childless node; at a traverser node the σ-weighted sum of the children's values; at any other
  node (opponent / chance: already sampled) the plain sum of the children's values.
  Unrolled: `value c = Σ_{leaves ℓ below c} u(ℓ) · Π_{walker edges on the path c → ℓ} σ`
  (theorem `RP.C08.C08_value_unrolled`).
* `regret I a = Σ_{h ∈ I} ( value(h·a) − Σ_b σ(h,b) · value(h·b) )`. -/
namespace RP.Cfr.Spec
open RP.Cfr

variable {α : Type} [Zero α] [One α] [Add α] [Sub α] [Mul α]

/-- probability the *traverser* gives to moving from `n` to its child `c` (1 when `n` is not
    the traverser's node) -/
def weight (t : Tree α) (σ : Nat → Nat → α) (n c : Nat) : α :=
  if t.player n = .walker then σ (t.bucket n) (t.incoming c) else 1

def valueAux (t : Tree α) (σ : Nat → Nat → α) : Nat → Nat → α
  | 0, n => t.payoff n
  | f+1, n =>
    if t.kids n = [] then t.payoff n
    else ((t.kids n).map (fun c => weight t σ n c * valueAux t σ f c)).sum

/-- sampled counterfactual value of node `n` -/
def value (t : Tree α) (σ : Nat → Nat → α) (n : Nat) : α := valueAux t σ t.size n

/-- the child of `h` reached by edge `a` -/
def child (t : Tree α) (h a : Nat) : Option Nat :=
  (t.kids h).find? (fun c => t.incoming c == a)

/-- `v(h·a)` -/
def actionValue (t : Tree α) (σ : Nat → Nat → α) (h a : Nat) : α :=
  match child t h a with
  | some c => value t σ c
  | none => 0

/-- `Σ_b σ(h,b) · v(h·b)` -/
def nodeValue (t : Tree α) (σ : Nat → Nat → α) (h : Nat) : α :=
  ((t.kids h).map (fun b => σ (t.bucket h) (t.incoming b) * value t σ b)).sum

/-- `r(I,a) = Σ_{h∈I} ( v(h·a) − Σ_b σ(h,b)·v(h·b) )` -/
def regret (t : Tree α) (σ : Nat → Nat → α) (roots : List Nat) (a : Nat) : α :=
  (roots.map (fun h => actionValue t σ h a - nodeValue t σ h)).sum

/-! unrolled form: sum over the leaves below with the product of the traverser's probabilities
    along the path -/

/-- `Π σ` over the edges on the path from `c` down to `ℓ` whose upper end is a traverser node -/
def walkerProbAux (t : Tree α) (σ : Nat → Nat → α) (c : Nat) : Nat → Nat → α
  | 0, _ => 1
  | f+1, l =>
    if c = l then 1
    else match t.parent l with
      | some p => walkerProbAux t σ c f p * weight t σ p l
      | none => 1

def walkerProb (t : Tree α) (σ : Nat → Nat → α) (c l : Nat) : α := walkerProbAux t σ c (l+1) l

/-- `Σ_{ℓ ∈ L} u(ℓ) · Π σ` -/
def valueOver (t : Tree α) (σ : Nat → Nat → α) (c : Nat) (L : List Nat) : α :=
  (L.map (fun l => t.payoff l * walkerProb t σ c l)).sum

end RP.Cfr.Spec
