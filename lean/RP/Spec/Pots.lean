import RP.Model.Showdown
/-! Layered-pot specification of a poker showdown (textbook side-pot rule), independent of the
engine's nested loop.

The distinct positive commitments `l₁ < … < l_m` of *all* seats cut the pot into layers
`(l_{j-1}, l_j]` (`l₀ = 0`). Layer `j` holds `(l_j − l_{j−1})·#{risked ≥ l_j}` chips; the seats
eligible for it are those that have not folded and have paid into it (`risked ≥ l_j`); its
winners are the eligible seats of maximal strength. -/
namespace RP.Pots
open RP.Showdown

/-- a ledger row without its payout -/
structure Seat where
  risked : Int
  status : Status
  strength : Nat
  deriving DecidableEq, Repr

def seat (p : Entry) : Seat := ⟨p.risked, p.status, p.strength⟩
def seats (l : List Entry) : List Seat := l.map seat

def live (s : Seat) : Bool := s.status != Status.folding

/-- hypotheses of the property: commitments are non-negative and some contesting seat `m` holds
    the largest commitment of the table (so no folded seat has committed more than the largest
    contesting commitment and every all-in seat is in for at most that), and every contesting
    seat that is not all-in has matched it -/
def Valid (ss : List Seat) : Prop :=
  (∀ s ∈ ss, 0 ≤ s.risked) ∧
  ∃ m ∈ ss, live m = true ∧ (∀ s ∈ ss, s.risked ≤ m.risked) ∧
    (∀ s ∈ ss, s.status = Status.betting → s.risked = m.risked)

instance (ss : List Seat) : Decidable (Valid ss) := by unfold Valid; exact inferInstance

/-- a showdown ledger as built by `Settlement::from`: nothing paid yet, hypotheses hold -/
def ValidLedger (l : List Entry) : Prop := (∀ p ∈ l, p.reward = 0) ∧ Valid (seats l)

instance (l : List Entry) : Decidable (ValidLedger l) := by unfold ValidLedger; exact inferInstance

/-! ### commitment levels and layers -/

/-- insert into a strictly increasing list, dropping duplicates -/
def insert (x : Int) : List Int → List Int
  | [] => [x]
  | y :: ys => if x < y then x :: y :: ys else if x = y then y :: ys else y :: insert x ys

def sortDedup : List Int → List Int
  | [] => []
  | x :: xs => insert x (sortDedup xs)

/-- the distinct positive commitments, increasing -/
def levels (ss : List Seat) : List Int := sortDedup ((ss.map (·.risked)).filter (fun r => decide (0 < r)))

/-- consecutive pairs `(lo, hi)` starting at `lo` -/
def layersFrom : Int → List Int → List (Int × Int)
  | _, [] => []
  | lo, h :: t => (lo, h) :: layersFrom h t

def layers (ss : List Seat) : List (Int × Int) := layersFrom 0 (levels ss)

/-! ### one layer -/

/-- seats that paid into the layer whose ceiling is `h` -/
def payers (ss : List Seat) (h : Int) : Nat := (ss.filter (fun s => decide (h ≤ s.risked))).length

/-- chips in the layer `(lo, hi]` -/
def pot (ss : List Seat) (lo hi : Int) : Int := (hi - lo) * (payers ss hi : Int)

/-- contesting and paid into the layer with ceiling `h` -/
def eligible (h : Int) (s : Seat) : Bool := live s && decide (h ≤ s.risked)

/-- eligible and no eligible seat is stronger -/
def wins (ss : List Seat) (h : Int) (s : Seat) : Bool :=
  eligible h s && ss.all (fun q => !eligible h q || decide (q.strength ≤ s.strength))

def nWinners (ss : List Seat) (h : Int) : Nat := (ss.filter (wins ss h)).length

/-- `⌊x / n⌋` -/
def floorDiv (x : Int) (n : Nat) : Int := x / (n : Int)
/-- `⌈x / n⌉` -/
def ceilDiv (x : Int) (n : Nat) : Int := -((-x) / (n : Int))

/-- `Σ_{j : s ∈ W_j} ⌊pot_j / |W_j|⌋` -/
def lower (ss : List Seat) (s : Seat) : Int :=
  sumInt ((layers ss).map (fun ab =>
    if wins ss ab.2 s then floorDiv (pot ss ab.1 ab.2) (nWinners ss ab.2) else 0))

/-- `Σ_{j : s ∈ W_j} ⌈pot_j / |W_j|⌉` -/
def upper (ss : List Seat) (s : Seat) : Int :=
  sumInt ((layers ss).map (fun ab =>
    if wins ss ab.2 s then ceilDiv (pot ss ab.1 ab.2) (nWinners ss ab.2) else 0))

/-- what the others' contributions up to the seat's own commitment allow -/
def cap (ss : List Seat) (s : Seat) : Int := sumInt (ss.map (fun q => min q.risked s.risked))

/-! ### exact payout with the engine's odd-chip rule

Adjacent layers with the same winner set are merged; a merged layer of `chips` chips and `n`
winners pays `⌊chips / n⌋` to each winner and one more chip to the first `chips mod n` winners
in seat order. -/

/-- winner flags of the layer with ceiling `h`, in seat order -/
def winnerFlags (ss : List Seat) (h : Int) : List Bool := ss.map (wins ss h)

/-- merged layers: `(flags, chips)` runs of adjacent layers with identical winner flags -/
def merge (ss : List Seat) : List (Int × Int) → List (List Bool × Int)
  | [] => []
  | ab :: rest =>
    match merge ss rest with
    | [] => [(winnerFlags ss ab.2, pot ss ab.1 ab.2)]
    | (f, c) :: more =>
      if winnerFlags ss ab.2 = f then (f, pot ss ab.1 ab.2 + c) :: more
      else (winnerFlags ss ab.2, pot ss ab.1 ab.2) :: (f, c) :: more

/-- `share` to every flagged seat, one more to the first `bonus` of them -/
def payFlags (share : Int) : Nat → List Bool → List Int
  | _, [] => []
  | bonus, true :: fs =>
    (match bonus with
     | 0 => share :: payFlags share 0 fs
     | b + 1 => (share + 1) :: payFlags share b fs)
  | bonus, false :: fs => 0 :: payFlags share bonus fs

def countTrue (fs : List Bool) : Nat := (fs.filter id).length

/-- payout vector of one merged layer -/
def payMerged (fc : List Bool × Int) : List Int :=
  let n := countTrue fc.1
  payFlags (fc.2 / (n : Int)) (fc.2 % (n : Int)).toNat fc.1

def addVec : List Int → List Int → List Int
  | x :: xs, y :: ys => (x + y) :: addVec xs ys
  | _, _ => []

/-- the exact payout of the whole showdown, in seat order -/
def payout (ss : List Seat) : List Int :=
  (merge ss (layers ss)).foldr (fun fc acc => addVec (payMerged fc) acc) (ss.map (fun _ => 0))

end RP.Pots
