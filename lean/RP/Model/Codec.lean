import RP.Model.Bits
import RP.Gen.Consts
import RP.Gen.C15
/-! # Model of the integer packings of robopoker (property C15)

Every definition mirrors one `From` impl of /repo/src and takes its shift counts, masks,
offsets and code numbers from the *generated* files `RP/Gen/Consts.lean` / `RP/Gen/C15.lean`,
so a changed code number, shift or mask in the Rust source changes these definitions.

Conventions
* machine words are `Nat` with explicit truncation (`u64`, `u32`), `i64`/`i16` values are `Int`;
* a Rust panic (failed `assert!`, `unreachable!`, arithmetic overflow under
  `overflow-checks`, shift amount ≥ width, index out of bounds) is `none`;
* iterator pipelines `(0..k).map(|i| x >> (i*s))…` are written as structural recursion that
  shifts the word by `s` at every step (`x >> (i*s)` = `i` times `>> s`).
* a card is its `u8` (0..51), a hand its 64-bit set word. -/
namespace RP.Codec
open RP.Bits RP.Gen

/-! ## casts -/
def u64 (n : Nat) : Nat := n % 2^64
def u32 (n : Nat) : Nat := n % 2^32
/-- `x as i64` for `x : u64` -/
def toI64 (n : Nat) : Int := if n < 2^63 then (n : Int) else (n : Int) - 2^64
/-- `x as u64` for `x : i64` -/
def ofI64 (i : Int) : Nat := (i % 2^64).toNat
/-- `x as i16` for an unsigned `x` (truncation to 16 bits, two's complement) -/
def toI16 (n : Nat) : Int := if n % 2^16 < 2^15 then ((n % 2^16 : Nat) : Int) else ((n % 2^16 : Nat) : Int) - 2^16
/-- `x as u32` for `x : i16` (sign extension) -/
def i16ToU32 (x : Int) : Nat := (x % 2^32).toNat
/-- `x as u64` for `x : i16` (sign extension) -/
def i16ToU64 (x : Int) : Nat := (x % 2^64).toNat

/-- highest set bit among the low `w` bits (0 when there is none) -/
def msbW : Nat → Nat → Nat
  | 0, _ => 0
  | w+1, n => if n.testBit w then w else msbW w n

/-! ## Card  (src/cards/card.rs, rank.rs, suit.rs) -/
def cardOfRS (r s : Nat) : Nat := r * C15.cardMul + s
def rank (c : Nat) : Nat := c / C15.cardRankDiv
def suit (c : Nat) : Nat := c % C15.cardSuitMod
def cardToU8 (c : Nat) : Nat := c
def cardOfU8 (n : Nat) : Nat := n
/-- `Rank::from(u8)`: panics outside 0..12 -/
def rankOfU8 (n : Nat) : Option Nat := if n < rankCount then some n else none
/-- `Suit::from(u8)`: `unreachable!` outside 0..3 -/
def suitOfU8 (n : Nat) : Option Nat := if n ∈ suitCodes then some n else none
def rankToU16 (r : Nat) : Nat := 1 <<< r
/-- `Rank::from(u16)`: `16 - 1 - (n & mask).leading_zeros()` underflows on 0 -/
def rankOfU16 (n : Nat) : Option Nat :=
  let m := (n % 2^16) &&& rankMask
  if m = 0 then none else rankOfU8 (msbW 16 m)
def cardToU32 (c : Nat) : Nat :=
  rankToU16 (rank c) ||| ((1 <<< C15.cardU32SuitShiftEnc) <<< suit c)
def cardOfU32 (n : Nat) : Option Nat :=
  match rankOfU16 n, suitOfU8 (tzW 32 (n >>> C15.cardU32SuitShiftDec)) with
  | some r, some s => some (cardOfRS r s)
  | _, _ => none

/-! ## Hand  (src/cards/hand.rs) -/
/-- `Hand::from(u64)` masks with the deck mask of the build -/
def handOfU64 (mask n : Nat) : Nat := n &&& mask
def handToU64 (h : Nat) : Nat := h
/-- the cards of a `w`-bit word, lowest first, positions counted from `off` -/
def cardsW : Nat → Nat → Nat → List Nat
  | 0, _, _ => []
  | w+1, off, n => if n % 2 = 1 then off :: cardsW w (off+1) (n/2) else cardsW w (off+1) (n/2)
/-- `Hand::into_iter()` / `Vec<Card>::from(Hand)`: lowest card first -/
def handCards (h : Nat) : List Nat := cardsW 64 0 h
/-- `Hand::from(Card)` = `1u64 << card` (a shift by ≥ 64 panics) -/
def handOfCard (c : Nat) : Option Nat := if c < 64 then some (1 <<< c) else none
/-- `Hand::add`: asserts disjointness -/
def handAdd (a b : Nat) : Option Nat := if a &&& b = 0 then some (a ||| b) else none
/-- `.map(Hand::from).fold(acc, Hand::add)` over a list of cards -/
def addAll : List Nat → Nat → Option Nat
  | [], acc => some acc
  | c :: cs, acc =>
    match handOfCard c with
    | none => none
    | some h => match handAdd acc h with
      | none => none
      | some acc' => addAll cs acc'
def handSize (h : Nat) : Nat := popW 64 h

/-! ## Observation ↔ i64  (src/cards/observation.rs), Street from the code (street.rs) -/
structure Obs where
  pocket : Nat
  board : Nat
deriving DecidableEq, Repr

def obsCards (o : Obs) : List Nat :=
  if C15.obsPublicFirst then handCards o.board ++ handCards o.pocket
  else handCards o.pocket ++ handCards o.board
/-- `.fold(0u64, |acc, card| acc << 8 | card)` -/
def obsStep (acc card : Nat) : Nat := u64 (acc <<< C15.obsShift) ||| card
def obsToU64 (o : Obs) : Nat := ((obsCards o).map (fun c => C15.obsOffset + c)).foldl obsStep 0
def obsToI64 (o : Obs) : Int := toI64 (obsToU64 o)

/-- `(0..k).map(|i| bits >> (i*sh)).take_while(|b| b > 0).map(|b| b as u8)` on a positive word -/
def digitsRem (sh : Nat) : Nat → Nat → List Nat
  | 0, _ => []
  | k+1, n => if n = 0 then [] else n % 256 :: digitsRem sh k (n >>> sh)
/-- the same walk on an `i64`: a non-positive word yields nothing (arithmetic shift keeps the sign) -/
def obsDigits (k sh : Nat) (bits : Int) : List Nat := if bits ≤ 0 then [] else digitsRem sh k bits.toNat
/-- `.map(|b| b - 1).map(Card::from).map(Hand::from).enumerate().fold(.., Hand::add ..)` -/
def obsFold (off np : Nat) : Nat → List Nat → Nat × Nat → Option (Nat × Nat)
  | _, [], acc => some acc
  | i, d :: ds, (pocket, board) =>
    if d < off then none else
    match handOfCard (d - off) with
    | none => none
    | some h =>
      if i < np then
        match handAdd pocket h with
        | none => none
        | some p => obsFold off np (i+1) ds (p, board)
      else
        match handAdd board h with
        | none => none
        | some q => obsFold off np (i+1) ds (pocket, q)
/-- `Observation::from((pocket, public))`: asserts the sizes -/
def obsMk (pocket board : Nat) : Option Obs :=
  if handSize pocket = C15.obsPocketSize ∧ handSize board ≤ C15.obsPublicMax then some ⟨pocket, board⟩ else none
def obsOfI64 (bits : Int) : Option Obs :=
  match obsFold C15.obsDecOffset C15.obsDecPocket 0 (obsDigits C15.obsDecDigits C15.obsDecShift bits) (0, 0) with
  | none => none
  | some (p, q) => obsMk p q

/-- `Street::from(usize)`: table lookup, panics on other sizes -/
def streetOfSize? (n : Nat) : Option Nat := (streetOfSize.find? (fun e => e.1 == n)).map (·.2)
/-- `Observation::street()` -/
def obsStreet (o : Obs) : Option Nat := streetOfSize? (handSize o.board)
/-- `Street::from(i64)`: walk the digits, `bits - 1`, `1u64 << bits`, skip 2, count -/
def streetOfObsCode (bits : Int) : Option Nat :=
  let ds := obsDigits C15.streetDecDigits C15.streetDecShift bits
  if ds.all (fun d => decide (C15.streetDecOffset ≤ d ∧ d - C15.streetDecOffset < 64)) then
    streetOfSize? (ds.length - C15.streetDecSkip)
  else none

/-! ## Action ↔ u32  (src/gameplay/action.rs) -/
inductive Action where
  | draw (h : Nat) | fold | call (x : Int) | check | raise (x : Int) | shove (x : Int) | blind (x : Int)
deriving DecidableEq, Repr

/-- `BITS = MASK.count_ones()` -/
def actBits : Nat := popW 32 actionMask
-- order of `actionEnc` / `actionDec`: Fold, Check, Call, Raise, Shove, Blind, Draw
def actEnc (k : Nat) : Nat := actionEnc.getD k 255
def actDec (k : Nat) : Nat := actionDec.getD k 256

/-- `.enumerate().map(|(i, x)| x << (i * w)).fold(0, |a, b| a | b)` with truncation modulo `m` -/
def packAt (w m : Nat) : Nat → List Nat → Nat → Nat
  | _, [], acc => acc
  | i, b :: bs, acc => packAt w m (i+1) bs (acc ||| (b <<< (i * w)) % m)

def chipsToU32 (code : Nat) (x : Int) : Nat := code ||| u32 (i16ToU32 x <<< actBits)
def drawToU32 (h : Nat) : Nat :=
  u32 (packAt actBits (2^32) 0 (((handCards h).take C15.drawTake).map (fun c => c + C15.drawOffset)) 0 <<< actBits)

def actionToU32 : Action → Nat
  | .fold => actEnc 0
  | .check => actEnc 1
  | .call x => chipsToU32 (actEnc 2) x
  | .raise x => chipsToU32 (actEnc 3) x
  | .shove x => chipsToU32 (actEnc 4) x
  | .blind x => chipsToU32 (actEnc 5) x
  | .draw h => actEnc 6 ||| drawToU32 h

def drawOfData (data : Nat) : Option Nat :=
  let xs := (C15.drawDecPositions.map (fun i => (data >>> (actBits * i)) &&& actionMask)).filter (fun x => x > 0)
  if xs.all (fun x => decide (C15.drawDecOffset ≤ x % 256)) then
    addAll (xs.map (fun x => x % 256 - C15.drawDecOffset)) 0
  else none

def actionOfU32 (v : Nat) : Option Action :=
  let kind := v &&& actionMask
  let data := v >>> actBits
  let bets := toI16 data
  if kind = actDec 0 then some .fold
  else if kind = actDec 1 then some .check
  else if kind = actDec 2 then some (.call bets)
  else if kind = actDec 3 then some (.raise bets)
  else if kind = actDec 4 then some (.shove bets)
  else if kind = actDec 5 then some (.blind bets)
  else if kind = actDec 6 then (drawOfData data).map .draw
  else none

/-! ## Edge ↔ u8 / u64  (src/mccfr/edge.rs), Path ↔ Vec<Edge>  (path.rs) -/
inductive Edge where
  | draw | fold | check | call | raise (n d : Int) | shove
deriving DecidableEq, Repr

def grid : List (Int × Int) := oddsGrid.map (fun p => ((p.1 : Int), (p.2 : Int)))
-- order of `edgeU8` : Draw, Fold, Check, Call, Shove, raise base
def e8 (k : Nat) : Nat := edgeU8.getD k 255
-- order of `edgeU8Dec` : Draw, Fold, Check, Call, Shove, raise lo, raise hi, raise subtrahend
def d8 (k : Nat) : Nat := edgeU8Dec.getD k 256
def edgeToU8 : Edge → Option Nat
  | .draw => some (e8 0) | .fold => some (e8 1) | .check => some (e8 2) | .call => some (e8 3) | .shove => some (e8 4)
  | .raise n d =>
    let i := grid.findIdx (fun o => o == (n, d))
    if i < grid.length ∧ e8 5 + i < 256 then some (e8 5 + i) else none
def edgeOfU8 (v : Nat) : Option Edge :=
  if v = d8 0 then some .draw else if v = d8 1 then some .fold else if v = d8 2 then some .check
  else if v = d8 3 then some .call else if v = d8 4 then some .shove
  else if d8 5 ≤ v ∧ v ≤ d8 6 ∧ d8 7 ≤ v then (grid[v - d8 7]?).map (fun o => .raise o.1 o.2)
  else none

-- order of `edgeU64` : Draw, Fold, Check, Call, Shove, raise tag, num shift, den shift
def e64 (k : Nat) : Nat := edgeU64.getD k (2^64)
-- order of `edgeU64Dec`: Draw, Fold, Check, Call, Shove, raise tag, num shift, num mask, den shift, den mask, tag mask
def d64 (k : Nat) : Nat := edgeU64Dec.getD k (2^64)
def edgeToU64 : Edge → Nat
  | .draw => e64 0 | .fold => e64 1 | .check => e64 2 | .call => e64 3 | .shove => e64 4
  | .raise n d => e64 5 ||| u64 (i16ToU64 n <<< e64 6) ||| u64 (i16ToU64 d <<< e64 7)
def edgeOfU64 (v : Nat) : Option Edge :=
  let tag := v &&& d64 10
  if tag = d64 0 then some .draw else if tag = d64 1 then some .fold else if tag = d64 2 then some .check
  else if tag = d64 3 then some .call
  else if tag = d64 5 then some (.raise (toI16 ((v >>> d64 6) &&& d64 7)) (toI16 ((v >>> d64 8) &&& d64 9)))
  else if tag = d64 4 then some .shove
  else none

-- `pathParams` : decode count, decode shift, decode mask, encode max length, encode shift
def pp (k : Nat) : Nat := pathParams.getD k 0
def optAll {α β : Type} (f : α → Option β) : List α → Option (List β)
  | [] => some []
  | a :: as => match f a, optAll f as with
    | some b, some bs => some (b :: bs)
    | _, _ => none
/-- `Path::from(Vec<Edge>)`: asserts the length, ORs `u8(edge) << (i*4)` -/
def pathOfEdges (es : List Edge) : Option Nat :=
  if es.length ≤ pp 3 then
    match optAll edgeToU8 es with
    | some cs => some (packAt (pp 4) (2^64) 0 cs 0)
    | none => none
  else none
/-- `(0..16).map(|i| i*4).map(|b| 0xF & (p >> b)).take_while(|x| x != 0)` -/
def nibbles (sh mask : Nat) : Nat → Nat → List Nat
  | 0, _ => []
  | k+1, p => if p &&& mask = 0 then [] else (p &&& mask) :: nibbles sh mask k (p >>> sh)
def pathToEdges (p : Nat) : Option (List Edge) := optAll edgeOfU8 (nibbles (pp 1) (pp 2) (pp 0) p)
def pathToI64 (p : Nat) : Int := toI64 p
def pathOfI64 (i : Int) : Nat := ofI64 i

/-! ## Abstraction  (src/clustering/abstraction.rs), Pair (pair.rs), Bucket (mccfr/bucket.rs) -/
/-- variant: 0 = Percent, 1 = Learned, 2 = Preflop -/
structure Abs where
  variant : Nat
  bits : Nat
deriving DecidableEq, Repr

def absLbits : Nat := popW 64 absL          -- `L.count_ones()`
def absHshift : Nat := 64 - popW 64 absH    -- `H.count_zeros()`
/-- `street as u8 as u64` from the enum discriminants -/
def streetU8 (s : Nat) : Nat := C15.streetDiscr.getD s 255
def signature (s index : Nat) : Nat :=
  let bits := absL &&& u64 index
  let bits := bits ||| u64 (streetU8 s <<< absLbits)
  let bits := u64 (bits * absMul)
  absM &&& bits
/-- `Abstraction::from((street, index))` -/
def absOf (s index : Nat) : Abs :=
  let bits := absL &&& u64 index
  let bits := bits ||| (absM &&& signature s index)
  let bits := bits ||| (absH &&& u64 (streetU8 s <<< absHshift))
  ⟨C15.absStreetVariant.getD s 255, bits⟩
def absTag (n : Nat) : Nat := (absH &&& n) >>> absHshift
def lookup (t : List (Nat × Nat)) (k : Nat) : Option Nat := (t.find? (fun e => e.1 == k)).map (·.2)
def absToU64 (a : Abs) : Nat := a.bits
/-- `Abstraction::from(u64)`: the variant is chosen by the street tag, other tags are `unreachable!` -/
def absOfU64 (n : Nat) : Option Abs := (lookup C15.absTagVariant (absTag n % 256)).map (fun v => ⟨v, n⟩)
/-- `Abstraction::street()` -/
def absStreet (a : Abs) : Option Nat := lookup C15.absTagStreet (absTag a.bits)
/-- `Abstraction::index()` -/
def absIndex (a : Abs) : Nat := absL &&& a.bits
def absToI64 (a : Abs) : Int := toI64 (absToU64 a)
def absOfI64 (i : Int) : Option Abs := absOfU64 (ofI64 i)

/-- `Pair::from((&a, &b))` -/
def pairKey (a b : Abs) : Nat :=
  match C15.pairOp with
  | 0 => absToU64 a ^^^ absToU64 b
  | 1 => absToU64 a ||| absToU64 b
  | 2 => absToU64 a &&& absToU64 b
  | _ => u64 (absToU64 a + absToU64 b)
def pairToI64 (k : Nat) : Int := toI64 k
def pairOfI64 (i : Int) : Nat := ofI64 i

/-- `Bucket(Path, Abstraction, Path)`; its stored form is the three `i64` columns -/
structure Bucket where
  past : Nat
  present : Abs
  future : Nat
deriving DecidableEq, Repr
def bucketToCodes (b : Bucket) : Int × Int × Int := (pathToI64 b.past, absToI64 b.present, pathToI64 b.future)
def bucketOfCodes (c : Int × Int × Int) : Option Bucket :=
  (absOfI64 c.2.1).map (fun a => ⟨pathOfI64 c.1, a, pathOfI64 c.2.2⟩)
/-- the street of a bucket from its stored code alone -/
def bucketStreetOfCodes (c : Int × Int × Int) : Option Nat := (absOfI64 c.2.1).bind absStreet

/-- number of abstractions of a street: `Street::n_abstractions` (169 pre-flop classes, k-means counts, equity buckets) -/
def nAbstractions (s : Nat) : Nat :=
  match s with
  | 0 => n_isomorphisms_Std.getD 0 0
  | 1 => KMEANS_FLOP_CLUSTER_COUNT
  | 2 => KMEANS_TURN_CLUSTER_COUNT
  | _ => KMEANS_EQTY_CLUSTER_COUNT

end RP.Codec
