import RP.Gen.Layout
import RP.Gen.C17
/-! # Byte-level model of the four `Table::save` / `Table::load` pairs (C17, C18)

A file is a `List Nat` of bytes.  Nothing here is written against a fixed layout: every table's
encoder and decoder is *interpreted* from the lists that `tools/extract.py` and
`tools/extractors/c17.py` regenerate from `/repo/src` on every run:

* `RP.Gen.Layout.<t>_writes`  – the `file.write_*::<BE>(expr)` calls of `save()`, in order
* `RP.Gen.Layout.<t>_reads`   – the `reader.read_*::<BE>()` calls of `load()`, in order
* `RP.Gen.C17.<t>_binds`      – what `load()` does with each value read (discard / assert / where
                                 the bound variable ends up in the table)
* `N_FIELDS`, the row tag matched by `load()`, the trailer, the header bytes, the seek offset and
  whether the loader insists on the trailer (`<t>_strict`).

Three layers:

1. **wire layer** (`Spec`, `encode`, `load`): rows are lists of field values; `load` is the loop of
   the Rust loaders: seek, then `read_exact` two bytes — short read ⇒ *fail* (strict, the repaired
   code: `.expect`) or *stop and return what has been read* (non-strict, the pinned code) — tag =
   row tag ⇒ read the fields (any short read ⇒ fail = the `expect` panic; `assert!(8 == len)` for
   the lookup), tag = trailer ⇒ done, anything else ⇒ fail.  Failure is `none`.
2. **meaning layer**: a dictionary from the written expressions (`memory.regret()`, …) and from the
   places where `load()` stores the values (`set_regret(..)`, `Bucket::from((_, _, _))`, …) to *roles*;
   the role names are the column names of the table.  A row structure is turned into a wire row by
   listing its components in the order of the roles written, and back by looking the roles up in the
   order read.  Swapping two writes, two reads, or two setter arguments in the source changes these
   lists and therefore the functions below.
3. **table layer**: the `BTreeMap` semantics — sorted association lists with overwrite on equal
   keys; the blueprint groups by bucket and then by edge; `transitions` converts the weight on load.

Values: `u64`/`i64` are their 64-bit patterns as `Nat`, `f32` its 32-bit pattern; floats are never
interpreted (the one place where Rust does — `(weight * mass) as usize` in the transitions loader —
is a parameter `conv`).  Typed keys (`Path`, `Abstraction`, `Edge`, `Isomorphism`, `Pair`) are
represented by their integer codes; that the code ↔ key conversions are lossless is property C15. -/
namespace RP.Pgcopy

abbrev Bytes := List Nat

/-! ## bytes -/

/-- `n` bytes, big-endian (what `write_uN::<BE>` emits for a value below `256^n`). -/
def be : Nat → Nat → Bytes
  | 0, _ => []
  | n+1, v => be n (v / 256) ++ [v % 256]

/-- big-endian value of a byte string (`uN::from_be_bytes`). -/
def beVal (bs : Bytes) : Nat := bs.foldl (fun a b => a * 256 + b) 0

/-- `read_exact` of `n` bytes: fails (and we never look at the stream again) on a short read. -/
def readN (n : Nat) (bs : Bytes) : Option (Bytes × Bytes) :=
  let t := bs.take n
  if t.length = n then some (t, bs.drop n) else none

/-! ## interpretation of the generated call lists -/

/-- payload width of a `byteorder` call -/
def widthOf : String → Option Nat
  | "u16" => some 2
  | "u32" => some 4
  | "u64" => some 8
  | "i64" => some 8
  | "f32" => some 4
  | _ => none

/-- value of the length expressions that `save()` writes in front of each field -/
def sizeExpr : String → Option Nat
  | "size_of::<u64>() as u32" => some 8
  | "size_of::<i64>() as u32" => some 8
  | "size_of::<f32>() as u32" => some 4
  | _ => none

/-- one field as written: the length announced, the width of the payload call, the expression -/
structure WField where
  len : Nat
  width : Nat
  expr : String
deriving DecidableEq, Repr

/-- one field as read: payload width, the asserted length (lookup only), where the value goes -/
structure RField where
  width : Nat
  check : Option Nat
  sink : String
deriving DecidableEq, Repr

def parseWFields : List (String × String) → Option (List WField)
  | [] => some []
  | [_] => none
  | (k1, e1) :: (k2, e2) :: rest =>
    if k1 = "u32" then
      match sizeExpr e1, widthOf k2, parseWFields rest with
      | some l, some w, some fs => some (⟨l, w, e2⟩ :: fs)
      | _, _, _ => none
    else none

/-- `save()`: `write_u16(N_FIELDS)`, then (length, payload) pairs, and the trailer as last call. -/
def parseWrites (ws : List (String × String)) : Option (List WField) :=
  match ws with
  | ("u16", "N_FIELDS") :: rest =>
    if rest.getLast? = some ("u16", "Self::footer()") then parseWFields rest.dropLast else none
  | _ => none

def parseCheck : String × String → Option (Option Nat)
  | ("skip", "") => some none
  | ("assert", "8") => some (some 8)
  | ("assert", "4") => some (some 4)
  | _ => none

def parseRFields : List String → List (String × String) → Option (List RField)
  | [], [] => some []
  | k1 :: k2 :: rest, b1 :: (b2k, b2v) :: brest =>
    if k1 = "u32" ∧ b2k = "bind" then
      match parseCheck b1, widthOf k2, parseRFields rest brest with
      | some c, some w, some fs => some (⟨w, c, b2v⟩ :: fs)
      | _, _, _ => none
    else none
  | _, _ => none

/-- everything the wire layer needs to know about one table -/
structure Spec where
  header : Bytes
  seek : Nat
  nfields : Nat
  rowtag : Nat
  footer : Nat
  strict : Bool
  wfields : List WField
  rfields : List RField
deriving Repr

/-- a spec no theorem holds for: what a table gets when its generated lists cannot be interpreted -/
def badSpec : Spec := ⟨[], 0, 0, 1, 0, false, [], []⟩

def mkSpec (writes : List (String × String)) (reads : List String) (binds : List (String × String))
    (nfields rowtag strict seek : Nat) (depths : List Nat) (nloops : Nat) : Spec :=
  match parseWrites writes, parseRFields reads binds with
  | some w, some r =>
    -- header and trailer are written outside the row loops, every row write inside all of them
    if depths = [0] ++ List.replicate (1 + 2 * w.length) nloops ++ [0] then
      ⟨Gen.Layout.header, seek, nfields, rowtag, Gen.Layout.footer, strict == 1, w, r⟩
    else badSpec
  | _, _ => badSpec

open Gen.Layout Gen.C17 in
def blueprintSpec : Spec :=
  mkSpec blueprint_writes blueprint_reads blueprint_binds blueprint_nfields blueprint_rowtag
    blueprint_strict blueprint_seek blueprint_depths blueprint_loops.length
open Gen.Layout Gen.C17 in
def metricSpec : Spec :=
  mkSpec metric_writes metric_reads metric_binds metric_nfields metric_rowtag
    metric_strict metric_seek metric_depths metric_loops.length
open Gen.Layout Gen.C17 in
def lookupSpec : Spec :=
  mkSpec lookup_writes lookup_reads lookup_binds lookup_nfields lookup_rowtag
    lookup_strict lookup_seek lookup_depths lookup_loops.length
open Gen.Layout Gen.C17 in
def transitionsSpec : Spec :=
  mkSpec transitions_writes transitions_reads transitions_binds transitions_nfields transitions_rowtag
    transitions_strict transitions_seek transitions_depths transitions_loops.length

/-! ## wire layer -/

/-- the (length, payload) pairs of one row -/
def encFields : List WField → List Nat → Bytes
  | [], _ => []
  | _ :: _, [] => []
  | f :: fs, v :: vs => be 4 f.len ++ be f.width v ++ encFields fs vs

def encRow (s : Spec) (vals : List Nat) : Bytes := be 2 s.nfields ++ encFields s.wfields vals

def encRows (s : Spec) (rows : List (List Nat)) : Bytes := rows.flatMap (encRow s)

/-- `save()`: header, rows, trailer -/
def encode (s : Spec) (rows : List (List Nat)) : Bytes := s.header ++ encRows s rows ++ be 2 s.footer

/-- the reads of one row; `none` = a short read (`expect` panic) or a failed `assert!` -/
def decFields : List RField → Bytes → Option (List Nat × Bytes)
  | [], bs => some ([], bs)
  | f :: fs, bs =>
    match readN 4 bs with
    | none => none
    | some (l, bs1) =>
      if (match f.check with | some n => beVal l == n | none => true) then
        match readN f.width bs1 with
        | none => none
        | some (p, bs2) =>
          match decFields fs bs2 with
          | none => none
          | some (vs, bs3) => some (beVal p :: vs, bs3)
      else none

/-- the row loop of `load()`; `strict` = a failed 2-byte read panics, otherwise it ends the loop.
    `fuel` bounds the number of iterations (every iteration consumes two bytes or more). -/
def loadLoop {σ : Type} (s : Spec) (strict : Bool) (ins : List Nat → σ → σ) : Nat → Bytes → σ → Option σ
  | 0, _, _ => none
  | fuel+1, bs, acc =>
    match readN 2 bs with
    | none => if strict then none else some acc
    | some (tag, rest) =>
      if beVal tag = s.rowtag then
        match decFields s.rfields rest with
        | none => none
        | some (vals, rest') => loadLoop s strict ins fuel rest' (ins vals acc)
      else if beVal tag = s.footer then some acc
      else none

/-- `load()` with an explicit strictness (the pinned loaders are `loadWith s false`) -/
def loadWith {σ : Type} (s : Spec) (strict : Bool) (ins : List Nat → σ → σ) (init : σ) (file : Bytes) : Option σ :=
  loadLoop s strict ins (file.length + 1) (file.drop s.seek) init

/-- `load()` as the source has it now: strictness from the generated flag -/
def load {σ : Type} (s : Spec) (ins : List Nat → σ → σ) (init : σ) (file : Bytes) : Option σ :=
  loadWith s s.strict ins init file

/-- what the wire layer needs from a spec for the theorems (decided on the generated lists) -/
def compat : List WField → List RField → Bool
  | [], [] => true
  | w :: ws, r :: rs =>
    w.width == r.width && decide (w.len < 4294967296) &&
      (match r.check with | some n => w.len == n | none => true) && compat ws rs
  | _, _ => false

def specOK (s : Spec) : Bool :=
  compat s.wfields s.rfields && s.nfields == s.rowtag && decide (s.nfields < 65536) &&
    decide (s.footer < 65536) && s.rowtag != s.footer && s.header.length == s.seek

/-- a wire row fits the layout: one value per field, each below `256^width` -/
def fits : List WField → List Nat → Prop
  | [], [] => True
  | f :: fs, v :: vs => v < 256 ^ f.width ∧ fits fs vs
  | _, _ => False

/-! ## sorted association lists = `BTreeMap` -/

def insertKV {ν : Type} (k : Nat) (v : ν) : List (Nat × ν) → List (Nat × ν)
  | [] => [(k, v)]
  | (k', v') :: m =>
    if k < k' then (k, v) :: (k', v') :: m
    else if k = k' then (k, v) :: m
    else (k', v') :: insertKV k v m

def lookupKV {ν : Type} (k : Nat) : List (Nat × ν) → Option ν
  | [] => none
  | (k', v') :: m => if k = k' then some v' else lookupKV k m

/-- the value found for a role among the values read, in the order read -/
def roleVal (roles : List String) (vals : List Nat) (role : String) : Nat :=
  ((roles.zip vals).lookup role).getD 0

/-! ## blueprint (`Profile`) -/

/-- meaning of the expressions `Profile::save` writes; `Bucket(past, present, future)` -/
def blueprintExprRole : String → String
  | "u64::from(bucket.0)" => "past"
  | "u64::from(bucket.1)" => "present"
  | "u64::from(bucket.2)" => "future"
  | "u64::from(edge.clone())" => "edge"
  | "memory.regret()" => "regret"
  | "memory.policy()" => "policy"
  | _ => "?"

/-- meaning of the places `Profile::load` stores the values it reads -/
def blueprintSinkRole : String → String
  | "bucket.0" => "past"
  | "bucket.1" => "present"
  | "bucket.2" => "future"
  | "entry.1" => "edge"
  | "memory.regret" => "regret"
  | "memory.policy" => "policy"
  | _ => "??"

def blueprintLoops : List String :=
  ["(bucket, strategy) in self.strategies.iter()", "(edge, memory) in strategy.iter()"]

def blueprintWRoles : List String := blueprintSpec.wfields.map (fun f => blueprintExprRole f.expr)
def blueprintRRoles : List String := blueprintSpec.rfields.map (fun f => blueprintSinkRole f.sink)

structure PRow where
  past : Nat
  present : Nat
  future : Nat
  edge : Nat
  regret : Nat
  policy : Nat
deriving DecidableEq, Repr

def PRow.get (r : PRow) : String → Nat
  | "past" => r.past
  | "present" => r.present
  | "future" => r.future
  | "edge" => r.edge
  | "regret" => r.regret
  | "policy" => r.policy
  | _ => 0

def PRow.toWire (r : PRow) : List Nat := blueprintWRoles.map r.get

def PRow.ofWire (vals : List Nat) : PRow :=
  let g := roleVal blueprintRRoles vals
  ⟨g "past", g "present", g "future", g "edge", g "regret", g "policy"⟩

/-- code of a bucket: the three 64-bit codes side by side (order = lexicographic order) -/
def bkey (past present future : Nat) : Nat := (past * 18446744073709551616 + present) * 18446744073709551616 + future

/-- `BTreeMap<Bucket, BTreeMap<Edge, Memory>>` -/
abbrev PMap := List (Nat × List (Nat × (Nat × Nat)))

/-- `strategies.entry(bucket).or_insert_with(default).entry(edge).or_insert_with(default)`, then
    `set_regret`, `set_policy` -/
def insP (r : PRow) (m : PMap) : PMap :=
  let b := bkey r.past r.present r.future
  insertKV b (insertKV r.edge (r.regret, r.policy) ((lookupKV b m).getD [])) m

def PMap.rows (m : PMap) : List PRow :=
  m.flatMap (fun (b, inner) => inner.map (fun (e, (rg, po)) =>
    ⟨b / 18446744073709551616 / 18446744073709551616, b / 18446744073709551616 % 18446744073709551616,
      b % 18446744073709551616, e, rg, po⟩))

def saveBlueprint (rows : List PRow) : Bytes := encode blueprintSpec (rows.map PRow.toWire)
def blueprintIns (vals : List Nat) (acc : PMap) : PMap := insP (PRow.ofWire vals) acc
def loadBlueprint (file : Bytes) : Option PMap := load blueprintSpec blueprintIns [] file
def loadBlueprintWith (strict : Bool) (file : Bytes) : Option PMap := loadWith blueprintSpec strict blueprintIns [] file

/-! ## metric -/

def metricExprRole : String → String
  | "i64::from(*pair)" => "xor"
  | "*distance" => "dx"
  | _ => "?"
def metricSinkRole : String → String
  | "insert.0" => "xor"
  | "insert.1" => "dx"
  | _ => "??"
def metricLoops : List String := ["(pair, distance) in self.0.iter()"]
def metricWRoles : List String := metricSpec.wfields.map (fun f => metricExprRole f.expr)
def metricRRoles : List String := metricSpec.rfields.map (fun f => metricSinkRole f.sink)

structure MRow where
  xor : Nat
  dx : Nat
deriving DecidableEq, Repr

def MRow.get (r : MRow) : String → Nat
  | "xor" => r.xor
  | "dx" => r.dx
  | _ => 0
def MRow.toWire (r : MRow) : List Nat := metricWRoles.map r.get
def MRow.ofWire (vals : List Nat) : MRow :=
  let g := roleVal metricRRoles vals
  ⟨g "xor", g "dx"⟩

/-- `BTreeMap<Pair, f32>` -/
abbrev KV := List (Nat × Nat)

def saveMetric (rows : List MRow) : Bytes := encode metricSpec (rows.map MRow.toWire)
def metricIns (vals : List Nat) (acc : KV) : KV := let r := MRow.ofWire vals; insertKV r.xor r.dx acc
def loadMetric (file : Bytes) : Option KV := load metricSpec metricIns [] file
def loadMetricWith (strict : Bool) (file : Bytes) : Option KV := loadWith metricSpec strict metricIns [] file

/-! ## lookup (`isomorphism`) -/

def lookupExprRole : String → String
  | "i64::from(*obs)" => "obs"
  | "i64::from(*abs)" => "abs"
  | _ => "?"
def lookupSinkRole : String → String
  | "insert.0" => "obs"
  | "insert.1" => "abs"
  | _ => "??"
def lookupLoops : List String := ["(Isomorphism(obs), abs) in self.0.iter()"]
def lookupWRoles : List String := lookupSpec.wfields.map (fun f => lookupExprRole f.expr)
def lookupRRoles : List String := lookupSpec.rfields.map (fun f => lookupSinkRole f.sink)

structure LRow where
  obs : Nat
  abs : Nat
deriving DecidableEq, Repr

def LRow.get (r : LRow) : String → Nat
  | "obs" => r.obs
  | "abs" => r.abs
  | _ => 0
def LRow.toWire (r : LRow) : List Nat := lookupWRoles.map r.get
def LRow.ofWire (vals : List Nat) : LRow :=
  let g := roleVal lookupRRoles vals
  ⟨g "obs", g "abs"⟩

/-- `Lookup::save` takes the street (file name) from the first key: `.expect("non empty")`. -/
def saveLookup? (rows : List LRow) : Option Bytes :=
  if rows.isEmpty then none else some (encode lookupSpec (rows.map LRow.toWire))
def saveLookup (rows : List LRow) : Bytes := encode lookupSpec (rows.map LRow.toWire)
def lookupIns (vals : List Nat) (acc : KV) : KV := let r := LRow.ofWire vals; insertKV r.obs r.abs acc
def loadLookup (file : Bytes) : Option KV := load lookupSpec lookupIns [] file
def loadLookupWith (strict : Bool) (file : Bytes) : Option KV := loadWith lookupSpec strict lookupIns [] file

/-- `Encoder::load`: the four street lookups, loaded one after the other (`Street::all()` order) and
    merged with `map.extend`; a loader that fails (panics) fails the whole load. `Blueprint::load` /
    `Blueprint::grow` = `Profile::load` (resp. an empty profile) and this. -/
def encStep (acc : Option KV) (f : Bytes) : Option KV :=
  match acc, loadLookup f with
  | some m, some l => some (l.foldl (fun a p => insertKV p.1 p.2 a) m)
  | _, _ => none

def loadEncoder (files : List Bytes) : Option KV := files.foldl encStep (some [])

/-- `Blueprint::load`: fails when either part fails -/
def loadBlueprintAll (profile : Bytes) (lookups : List Bytes) : Option (PMap × KV) :=
  match loadBlueprint profile, loadEncoder lookups with
  | some p, some e => some (p, e)
  | _, _ => none

/-! ## transitions (`Decomp`) -/

def transitionsExprRole : String → String
  | "i64::from(*from)" => "prev"
  | "i64::from(*into)" => "next"
  | "histogram.density(into)" => "dx"
  | _ => "?"
def transitionsSinkRole : String → String
  | "entry.0" => "prev"
  | "set.0" => "next"
  | "set.1" => "dx"
  | _ => "??"
def transitionsLoops : List String := ["(from, histogram) in self.0.iter()", "into in histogram.support()"]
def transitionsWRoles : List String := transitionsSpec.wfields.map (fun f => transitionsExprRole f.expr)
def transitionsRRoles : List String := transitionsSpec.rfields.map (fun f => transitionsSinkRole f.sink)

structure TRow where
  prev : Nat
  next : Nat
  dx : Nat
deriving DecidableEq, Repr

def TRow.get (r : TRow) : String → Nat
  | "prev" => r.prev
  | "next" => r.next
  | "dx" => r.dx
  | _ => 0
def TRow.toWire (r : TRow) : List Nat := transitionsWRoles.map r.get
def TRow.ofWire (vals : List Nat) : TRow :=
  let g := roleVal transitionsRRoles vals
  ⟨g "prev", g "next", g "dx"⟩

/-- `BTreeMap<Abstraction, Histogram{mass, counts}>` -/
abbrev TMap := List (Nat × (Nat × List (Nat × Nat)))

/-- `decomp.entry(from).or_insert_with(default).set(into, (weight * mass) as usize)`;
    `Histogram::set` = `counts.insert(abs, count); mass += count`.  `conv` = the float expression. -/
def insT (conv : Nat → Nat) (r : TRow) (m : TMap) : TMap :=
  let h := (lookupKV r.prev m).getD (0, [])
  let c := conv r.dx
  insertKV r.prev (h.1 + c, insertKV r.next c h.2) m

def saveTransitions (rows : List TRow) : Bytes := encode transitionsSpec (rows.map TRow.toWire)
def transitionsIns (conv : Nat → Nat) (vals : List Nat) (acc : TMap) : TMap := insT conv (TRow.ofWire vals) acc
def loadTransitions (conv : Nat → Nat) (file : Bytes) : Option TMap := load transitionsSpec (transitionsIns conv) [] file
def loadTransitionsWith (conv : Nat → Nat) (strict : Bool) (file : Bytes) : Option TMap :=
  loadWith transitionsSpec strict (transitionsIns conv) [] file

end RP.Pgcopy
