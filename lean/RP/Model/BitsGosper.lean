import RP.Model.Bits
/-! Core-only bit lemmas used by `RP/Model/Hands.lean` to justify the fast form of `permute` that the
driver executes (`trailing_zeros` through `Nat.log2` of the isolated lowest bit). -/
namespace RP.Bits

/-- every positive number is an odd number times a power of two -/
theorem pos_decomp (x : Nat) (hx : 0 < x) : ∃ t m, m % 2 = 1 ∧ x = m * 2^t := by
  induction x using Nat.strongRecOn with
  | _ x ih =>
    by_cases h : x % 2 = 1
    · exact ⟨0, x, h, by simp⟩
    · obtain ⟨t, m, hm, e⟩ := ih (x/2) (by omega) (by omega)
      refine ⟨t+1, m, hm, ?_⟩
      have : m * 2^(t+1) = 2 * (m * 2^t) := by rw [Nat.pow_succ, Nat.mul_comm (2^t) 2, Nat.mul_left_comm]
      rw [this, ← e]; omega

theorem tzW_mul_two_pow (m : Nat) (hm : m % 2 = 1) (t w : Nat) (ht : t < w) : tzW w (m * 2^t) = t := by
  induction t generalizing w with
  | zero =>
    obtain ⟨w, rfl⟩ : ∃ w', w = w' + 1 := ⟨w - 1, by omega⟩
    simp [tzW, hm]
  | succ t ih =>
    obtain ⟨w, rfl⟩ : ∃ w', w = w' + 1 := ⟨w - 1, by omega⟩
    have e : m * 2^(t+1) = 2 * (m * 2^t) := by rw [Nat.pow_succ, Nat.mul_comm (2^t) 2, Nat.mul_left_comm]
    have h1 : ¬ (2 * (m * 2^t)) % 2 = 1 := by omega
    have h2 : 2 * (m * 2^t) / 2 = m * 2^t := by omega
    rw [e]; simp only [tzW, h1, if_false, h2]; rw [ih w (by omega)]

/-- `x ^ (x-1)` is the mask up to and including the lowest set bit -/
theorem xor_pred (m : Nat) (hm : m % 2 = 1) (t : Nat) :
    (m * 2^t) ^^^ (m * 2^t - 1) = 2^(t+1) - 1 := by
  induction t with
  | zero =>
    have h1 : (m ^^^ (m - 1)) / 2 = 0 := by
      rw [Nat.xor_div_two]
      have : (m - 1) / 2 = m / 2 := by omega
      rw [this, Nat.xor_self]
    have h2 : (m ^^^ (m - 1)) % 2 = 1 := by
      rw [Nat.xor_mod_two_eq_one]; omega
    simp only [Nat.pow_zero, Nat.mul_one, Nat.zero_add, Nat.pow_one]; omega
  | succ t ih =>
    have hp : 0 < 2^t := Nat.two_pow_pos t
    have hy : 0 < m * 2^t := Nat.mul_pos (by omega) hp
    have e : m * 2^(t+1) = 2 * (m * 2^t) := by rw [Nat.pow_succ, Nat.mul_comm (2^t) 2, Nat.mul_left_comm]
    have e' : 2^(t+1+1) = 2 * 2^(t+1) := by rw [Nat.pow_succ, Nat.mul_comm]
    have hp1 : 0 < 2^(t+1) := Nat.two_pow_pos _
    rw [e, e']
    generalize m * 2^t = y at *
    have h1 : (2 * y ^^^ (2 * y - 1)) / 2 = y ^^^ (y - 1) := by
      rw [Nat.xor_div_two]
      have a1 : 2 * y / 2 = y := by omega
      have a2 : (2 * y - 1) / 2 = y - 1 := by omega
      rw [a1, a2]
    have h2 : (2 * y ^^^ (2 * y - 1)) % 2 = 1 := by
      rw [Nat.xor_mod_two_eq_one]; omega
    omega

/-- `trailing_zeros` as the bit length of the isolated lowest set bit -/
theorem tzW_eq_log2 (x : Nat) (hx : 0 < x) (hlt : x < 2^64) :
    tzW 64 x = Nat.log2 (x &&& (x ^^^ (x - 1))) := by
  obtain ⟨t, m, hm, rfl⟩ := pos_decomp x hx
  have ht : t < 64 := by
    have h1 : 2^t ≤ m * 2^t := Nat.le_mul_of_pos_left _ (by omega)
    exact (Nat.pow_lt_pow_iff_right (by omega : 1 < 2)).mp (Nat.lt_of_le_of_lt h1 hlt)
  rw [tzW_mul_two_pow m hm t 64 ht, xor_pred m hm t, Nat.and_two_pow_sub_one_eq_mod]
  have : m * 2^t % 2^(t+1) = 2^t := by
    rw [Nat.pow_succ, Nat.mul_comm (2^t) 2, Nat.mul_mod_mul_right, hm, Nat.one_mul]
  rw [this, Nat.log2_two_pow]

end RP.Bits
