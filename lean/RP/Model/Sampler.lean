/-! Bit-exact model of the solver's seeded sampling (src/mccfr/profile.rs `rng`, `explore_any`,
`explore_one`; src/clustering/layer.rs `init`):

* `std::collections::hash_map::DefaultHasher` = SipHash-1-3 with keys (0,0) over the byte stream
  produced by the derived `Hash` impls (`usize`/`u64`/`isize` discriminants as 8 little-endian bytes),
* `SmallRng::seed_from_u64` = rand_core's default PCG32 filling of the Xoshiro256++ seed (rand 0.8.5, 64-bit),
* `gen_range(0..n)` for `usize` = widening-multiply rejection sampling,
* `WeightedIndex<f32>` = prefix sums + `Uniform<f32>` (23 random mantissa bits) + partition point.

The model *predicts* the branch the real code takes for a given (epoch, bucket, weights); the
correspondence check compares the prediction with the real choice made on many threads.
`rand`, `DefaultHasher` and f32 are library/hardware behaviour: modelled here, validated by the
correspondence run, trusted in the theorems. -/
namespace RP.Sampler

@[inline] def rotl (x : UInt64) (n : UInt64) : UInt64 := (x <<< n) ||| (x >>> (64 - n))

structure Sip where
  v0 : UInt64
  v1 : UInt64
  v2 : UInt64
  v3 : UInt64

def sipRound (s : Sip) : Sip :=
  let v0 := s.v0 + s.v1
  let v1 := rotl s.v1 13
  let v1 := v1 ^^^ v0
  let v0 := rotl v0 32
  let v2 := s.v2 + s.v3
  let v3 := rotl s.v3 16
  let v3 := v3 ^^^ v2
  let v0 := v0 + v3
  let v3 := rotl v3 21
  let v3 := v3 ^^^ v0
  let v2 := v2 + v1
  let v1 := rotl v1 17
  let v1 := v1 ^^^ v2
  let v2 := rotl v2 32
  ⟨v0, v1, v2, v3⟩

def sipInit : Sip :=
  ⟨0x736f6d6570736575, 0x646f72616e646f6d, 0x6c7967656e657261, 0x7465646279746573⟩

def sipWord (s : Sip) (m : UInt64) : Sip :=
  let s := { s with v3 := s.v3 ^^^ m }
  let s := sipRound s
  { s with v0 := s.v0 ^^^ m }

/-- SipHash-1-3, keys (0,0), of a message consisting of whole 64-bit little-endian words -/
def sipHash13 (words : List UInt64) : UInt64 :=
  let s := words.foldl sipWord sipInit
  let b : UInt64 := (UInt64.ofNat (8 * words.length)) <<< 56
  let s := { s with v3 := s.v3 ^^^ b }
  let s := sipRound s
  let s := { s with v0 := s.v0 ^^^ b }
  let s := { s with v2 := s.v2 ^^^ 0xff }
  let s := sipRound (sipRound (sipRound s))
  s.v0 ^^^ s.v1 ^^^ s.v2 ^^^ s.v3

/-- `Profile::rng`: hash of (epochs : usize, Bucket(Path(u64), Abstraction{discriminant, u64}, Path(u64))) -/
def seedOf (epoch past absDisc absBits future : Nat) : UInt64 :=
  sipHash13 [UInt64.ofNat epoch, UInt64.ofNat past, UInt64.ofNat absDisc, UInt64.ofNat absBits, UInt64.ofNat future]

/-- `Layer::init`: hash of the street discriminant (isize) -/
def seedOfStreet (street : Nat) : UInt64 := sipHash13 [UInt64.ofNat street]

structure Xo where
  s0 : UInt64
  s1 : UInt64
  s2 : UInt64
  s3 : UInt64

def splitmix (state : UInt64) : UInt64 × UInt64 :=
  let state := state + 0x9e3779b97f4a7c15
  let z := state
  let z := (z ^^^ (z >>> 30)) * 0xbf58476d1ce4e5b9
  let z := (z ^^^ (z >>> 27)) * 0x94d049bb133111eb
  let z := z ^^^ (z >>> 31)
  (state, z)

def xoSeedRaw (seed : UInt64) : Xo :=
  let (st, a) := splitmix seed
  let (st, b) := splitmix st
  let (st, c) := splitmix st
  let (_, d) := splitmix st
  ⟨a, b, c, d⟩

/-- one PCG32 step of `rand_core::SeedableRng::seed_from_u64` (the default implementation, which
    `SmallRng` uses — it does not forward to Xoshiro's own SplitMix64 seeding) -/
def pcg32 (state : UInt64) : UInt64 × UInt64 :=
  let state := state * 6364136223846793005 + 11634580027462260723
  let xorshifted : UInt64 := (((state >>> 18) ^^^ state) >>> 27) &&& 0xFFFFFFFF
  let rot : UInt64 := state >>> 59
  let x := ((xorshifted >>> rot) ||| (xorshifted <<< ((32 - rot) &&& 31))) &&& 0xFFFFFFFF
  (state, x)

/-- `SmallRng::seed_from_u64`: eight PCG32 outputs fill the 32 seed bytes (little endian);
    `Xoshiro256PlusPlus::from_seed` maps the all-zero seed to its own `seed_from_u64(0)` (SplitMix64) -/
def xoSeed (seed : UInt64) : Xo :=
  let (st, a0) := pcg32 seed
  let (st, a1) := pcg32 st
  let (st, b0) := pcg32 st
  let (st, b1) := pcg32 st
  let (st, c0) := pcg32 st
  let (st, c1) := pcg32 st
  let (st, d0) := pcg32 st
  let (_, d1) := pcg32 st
  let x : Xo := ⟨a0 ||| (a1 <<< 32), b0 ||| (b1 <<< 32), c0 ||| (c1 <<< 32), d0 ||| (d1 <<< 32)⟩
  if x.s0 == 0 && x.s1 == 0 && x.s2 == 0 && x.s3 == 0 then xoSeedRaw 0 else x

def xoNext (x : Xo) : UInt64 × Xo :=
  let result := rotl (x.s0 + x.s3) 23 + x.s0
  let t := x.s1 <<< 17
  let s2 := x.s2 ^^^ x.s0
  let s3 := x.s3 ^^^ x.s1
  let s1 := x.s1 ^^^ s2
  let s0 := x.s0 ^^^ s3
  let s2 := s2 ^^^ t
  let s3 := rotl s3 45
  (result, ⟨s0, s1, s2, s3⟩)

/-- rejection zone of `sample_single_inclusive` for a 64-bit range: `(range << lz) - 1` (wrapping) -/
def genRangeZone (range : Nat) : Nat :=
  let lz := 64 - (Nat.log2 range + 1)
  ((range <<< lz) % 2 ^ 64 + 2 ^ 64 - 1) % 2 ^ 64

/-- the rejection loop: draw `v`, widen-multiply by the range, accept when the low word is in the zone -/
def genRangeGo (range zone : Nat) (x : Xo) : Nat → Nat × Xo
  | 0 => (0, x)
  | f + 1 =>
    let vx := xoNext x
    let prod := vx.1.toNat * range
    if prod % 2 ^ 64 ≤ zone then (prod / 2 ^ 64, vx.2) else genRangeGo range zone vx.2 f

/-- `rng.gen_range(0..n)` for `usize` (rand 0.8.5 `sample_single_inclusive`) -/
def genRange (x : Xo) (n : Nat) (fuel : Nat := 64) : Nat × Xo :=
  genRangeGo n (genRangeZone n) x fuel

/-- `Uniform<f32>::new(0.0, total)`: the scale after the (normally idle) decrease loop -/
def uniformScale (total : Float32) : Float32 :=
  let maxRand : Float32 := Float32.ofBits ((0xFFFFFFFF : UInt32) >>> 9 ||| 0x3F800000) - 1.0
  let rec go (scale : Float32) : Nat → Float32
    | 0 => scale
    | f + 1 => if scale * maxRand + 0.0 >= total then go (Float32.ofBits (scale.toBits - 1)) f else scale
  go (total - 0.0) 64

/-- `Uniform<f32>::sample` -/
def uniformSample (x : Xo) (scale : Float32) : Float32 × Xo :=
  let (v, x') := xoNext x
  let u32 : UInt32 := (v >>> 32).toUInt32
  let value12 := Float32.ofBits ((u32 >>> 9) ||| 0x3F800000)
  let value01 := value12 - 1.0
  (value01 * scale + 0.0, x')

/-- running prefix sums `t, t+w₁, t+w₁+w₂, …` without the last one -/
def cums {α : Type} [Add α] : α → List α → List α
  | _, [] => []
  | t, w :: ws => t :: cums (t + w) ws

/-- prefix sums as `WeightedIndex::new` builds them: (cumulative weights without the last, total) -/
def prefixSums {α : Type} [Add α] [Inhabited α] : List α → List α × α
  | [] => ([], default)
  | w :: ws => (cums w ws, ws.foldl (· + ·) w)

/-- first index whose cumulative weight exceeds the chosen weight (binary search = partition point
    on a monotone list) -/
def partitionPoint {α : Type} [LE α] [DecidableRel (α := α) (· ≤ ·)] : List α → α → Nat
  | [], _ => 0
  | c :: cs, x => if c ≤ x then partitionPoint cs x + 1 else 0

/-- `WeightedIndex::new(weights).sample(rng)`; `none` = the `expect` panic (invalid / all-zero weights) -/
def weightedIndex (x : Xo) (weights : List Float32) : Option (Nat × Xo) :=
  if weights.isEmpty then none
  else if weights.any (fun w => !(w >= 0.0)) then none
  else
    let (cum, total) := prefixSums weights
    if total == 0.0 then none
    else if !(0.0 < total) then none
    else
      let scale := uniformScale total
      let (chosen, x') := uniformSample x scale
      some (partitionPoint cum chosen, x')

/-- index drawn by the rejection loop (first component of `genRangeGo`, as its own recursion) -/
def genRangeIdx (range zone : Nat) (x : Xo) : Nat → Nat
  | 0 => 0
  | f + 1 =>
    let vx := xoNext x
    let prod := vx.1.toNat * range
    if prod % 2 ^ 64 ≤ zone then prod / 2 ^ 64 else genRangeIdx range zone vx.2 f

/-- `Profile::explore_any`: index of the chance branch taken among `n` -/
def exploreAny (epoch past absDisc absBits future n : Nat) : Nat :=
  genRangeIdx n (genRangeZone n) (xoSeed (seedOf epoch past absDisc absBits future)) 64

/-- `Profile::explore_one`: index of the opponent branch taken for the given policy weights -/
def exploreOne (epoch past absDisc absBits future : Nat) (weights : List Float32) : Option Nat :=
  (weightedIndex (xoSeed (seedOf epoch past absDisc absBits future)) weights).map (·.1)

/-! ### k-means++ seeding (`Layer::init`) for points given as river-equity histograms

`emd` = `Equity::variation` in f32, potentials updated as `min(d², previous)` with the chosen
point's potential set to 0 first. Points are `(mass, counts over the 101 buckets)`. -/

def density (mass : Nat) (count : Nat) : Float32 := Float32.ofNat count / Float32.ofNat mass

def variation (x y : Nat × List Nat) : Float32 :=
  let rec go (cx cy : List Nat) (cdfx cdfy acc : Float32) : Float32 :=
    match cx, cy with
    | a :: cx', b :: cy' =>
      let cdfx := cdfx + density x.1 a
      let cdfy := cdfy + density y.1 b
      go cx' cy' cdfx cdfy (acc + (cdfx - cdfy).abs)
    | _, _ => acc
  go x.2 y.2 0.0 0.0 0.0 / Float32.ofNat x.2.length

/-- indices of the points chosen as initial centroids, in order; `none` = panic -/
def kmeansInit (street k : Nat) (points : List (Nat × List Nat)) : Option (List Nat) :=
  let n := points.length
  let rec go (x : Xo) (pot : List Float32) (chosen : List Nat) : Nat → Option (List Nat)
    | 0 => some chosen.reverse
    | f + 1 =>
      match weightedIndex x pot with
      | none => none
      | some (i, x') =>
        match points[i]? with
        | none => none
        | some p =>
          let pot0 := pot.set i 0.0
          let d := points.map (fun h => let e := variation p h; e * e)
          let pot' := (d.zip pot0).map (fun (d0, d1) => if d0 < d1 then d0 else if d1 < d0 then d1 else if d0 == d0 then d0 else d1)
          go x' pot' (i :: chosen) f
  go (xoSeed (seedOfStreet street)) (List.replicate n 1.0) [] k

/-- `Layer::init`: on the preflop street nothing is clustered — `assert!(n == k)` and the points themselves
are returned as the centroids, in order; on every other street the k-means++ seeding above -/
def layerInit (street k : Nat) (points : List (Nat × List Nat)) : Option (List Nat) :=
  if street = 0 then (if points.length = k then some (List.range k) else none)
  else kmeansInit street k points

end RP.Sampler
