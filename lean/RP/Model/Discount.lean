import RP.Gen.Consts
import RP.Gen.C09
import RP.Model.Arith
/-! # Model of the discounted accumulation of regret and average strategy (C19)

Mirrors, function by function, the code as it is now in `/repo/src/mccfr`:

* `discount.rs`  `Discount::default`, `Discount::policy`, `Discount::regret`
* `phase.rs`     `Phase::from(epochs)`
* `memory.rs`    `Memory::add_regret`, `Memory::add_policy`
* `profile.rs`   `Profile::add_regret`, `add_policy`, `next`, `walker`, `epochs`, `phase`
* `strategy.rs`  `Strategy::weight`

Parameters come from the generated files: `γ, α, ω, period` (`RP.Gen.discount_*`), the phase
boundaries (`RP.Gen.CFR_DISCOUNT_PHASE`, `CFR_PRUNNING_PHASE`), the `% 2` and the two arms of
`walker`, the `+= 1` of `next` (`RP.Gen.C09`).  Arithmetic is an `Ops α` record and `powf` a
separate parameter `pow`: the theorems use `ℝ` with `Real.rpow`, the driver `Float32` with
`Float32.pow` (C `powf`, the function Rust's `f32::powf` calls).

Order of events in `Blueprint::solve`, one epoch: `add_regret` and `add_policy` are called with
`t = self.epochs()` *before* `next()` increments the counter; a fresh profile starts at `t = 0`. -/
namespace RP.Discount
open RP.Arith

variable {α : Type}

/-! ## epoch counter -/

/-- `Profile::walker`: `match iterations % 2 { 0 => Choice(0), _ => Choice(1) }` -/
def walker (t : Nat) : Nat :=
  if t % RP.Gen.C09.walkerMod = 0 then RP.Gen.C09.walkerZero else RP.Gen.C09.walkerElse

/-- `Profile::next`: `iterations += 1` (returns the new count) -/
def next (t : Nat) : Nat := t + RP.Gen.C09.epochStep

inductive Phase where
  | discount | explore | prune
  deriving DecidableEq, Repr

/-- `Phase::from(epochs)` -/
def phaseOf (t : Nat) : Phase :=
  if t < RP.Gen.CFR_DISCOUNT_PHASE then .discount
  else if t < RP.Gen.CFR_PRUNNING_PHASE then .explore
  else .prune

/-! ## `Discount` -/

structure Params (α : Type) where
  period : Nat
  alpha : α
  omega : α
  gamma : α

/-- a generated parameter `(num, den)` as `num as α / den as α` (exact in `f32` for the
    literals in `Discount::default`, all of which are dyadic) -/
def ofPair (o : Ops α) (p : Nat × Nat) : α := o.div (o.ofNat p.1) (o.ofNat p.2)

/-- `Discount::default()` -/
def params (o : Ops α) : Params α where
  period := RP.Gen.discount_period.1 / RP.Gen.discount_period.2
  alpha := ofPair o RP.Gen.discount_alpha
  omega := ofPair o RP.Gen.discount_omega
  gamma := ofPair o RP.Gen.discount_gamma

/-- `Discount::policy(t) = (t / (t + 1)).powf(γ)` -/
def policyDiscount (o : Ops α) (pow : α → α → α) (P : Params α) (t : Nat) : α :=
  pow (o.div (o.ofNat t) (o.add (o.ofNat t) (o.ofNat 1))) P.gamma

/-- `x / (x + 1)` with `x = (t / period).powf(e)` -/
def ratio (o : Ops α) (pow : α → α → α) (P : Params α) (t : Nat) (e : α) : α :=
  let x := pow (o.div (o.ofNat t) (o.ofNat P.period)) e
  o.div x (o.add x (o.ofNat 1))

/-- `Discount::regret(t, regret)`: the sign tested is that of the regret being *added* -/
def regretDiscount (o : Ops α) (pow : α → α → α) (P : Params α) (t : Nat) (r : α) : α :=
  if t % P.period ≠ 0 then o.ofNat 1
  else if o.lt (o.ofNat 0) r then ratio o pow P t P.alpha
  else if o.lt r (o.ofNat 0) then ratio o pow P t P.omega
  else o.ofNat 1

/-- the factor `Profile::add_regret` uses: `match phase { Discount => discount.regret(t, r), _ => 1. }` -/
def regretFactor (o : Ops α) (pow : α → α → α) (P : Params α) (t : Nat) (r : α) : α :=
  match phaseOf t with
  | .discount => regretDiscount o pow P t r
  | .explore => o.ofNat 1
  | .prune => o.ofNat 1

/-! ## `Memory` -/

/-- `Memory::add_regret` / `Memory::add_policy`: `x *= discount; x += value` -/
def accumulate (o : Ops α) (mem d v : α) : α := o.add (o.mul mem d) v

/-- one `add_regret` at epoch counter `t` for one action -/
def regretStep (o : Ops α) (pow : α → α → α) (P : Params α) (t : Nat) (mem r : α) : α :=
  accumulate o mem (regretFactor o pow P t r) r

/-- one `add_policy` at epoch counter `t` for one action -/
def policyStep (o : Ops α) (pow : α → α → α) (P : Params α) (t : Nat) (mem p : α) : α :=
  accumulate o mem (policyDiscount o pow P t) p

/-! ## sequences of epochs at one information set, one action

`Profile::add_regret(bucket, regrets)` and `Profile::add_policy(bucket, policy)` update every
action named by the vector independently (`for (action, &regret) in regrets.inner()`), so one
information set is a family of scalar sequences, one per action.
`regretAcc … t0 prior r k` is the stored regret after `k` epochs, the counter having started at
`t0` with stored value `prior`, when the vector added in the `j`-th of these epochs has the
entry `r j` (so that epoch uses the counter value `t0 + j`).  Likewise `policyAcc`. -/

def regretAcc (o : Ops α) (pow : α → α → α) (P : Params α) (t0 : Nat) (prior : α) (r : Nat → α) : Nat → α
  | 0 => prior
  | k + 1 => regretStep o pow P (t0 + k) (regretAcc o pow P t0 prior r k) (r k)

def policyAcc (o : Ops α) (pow : α → α → α) (P : Params α) (t0 : Nat) (prior : α) (p : Nat → α) : Nat → α
  | 0 => prior
  | k + 1 => policyStep o pow P (t0 + k) (policyAcc o pow P t0 prior p k) (p k)

/-- the counter after `k` calls of `next` -/
def counterAfter (t0 : Nat) : Nat → Nat
  | 0 => t0
  | k + 1 => next (counterAfter t0 k)

/-! ## normalisation -/

/-- `Strategy::weight(edge)`: `policy(edge) / Σ policy` -/
def weight (o : Ops α) (policies : List α) (x : α) : α := o.div x (o.sum policies)

end RP.Discount
