import RP.Model.Bits
/-! Model of `Deck::draw` (src/cards/deck.rs) for a given uniform index `i`.

```rust
let mut ones = 0u8; let mut deck = u64::from(self.0);
let mut card = u64::from(self.0).trailing_zeros() as u8;
while ones <= i { card = deck.trailing_zeros() as u8; deck = deck & (deck - 1); ones += 1; }
self.0.remove(card)          // self.0 &= !(1 << card)
```
The loop body runs `i + 1` times; the card is the trailing-zero count of the deck after
`i` clearings. The `rand` index `i` is the model's parameter (PRNG trusted). -/
namespace RP.Deck
open RP.Bits

/-- the card found by the bit-walk for index `i` in a `w`-bit deck word -/
def drawLoop (w : Nat) : Nat → Nat → Nat
  | d, 0 => tzW w d
  | d, i+1 => drawLoop w (clearLowest d) i

/-- `Hand::remove`: `self.0 &= !(1 << card)` -/
def remove (d card : Nat) : Nat := d &&& not64 (1 <<< card)

/-- `Deck::draw` with the random index fixed to `i`: (card, remaining deck) -/
def drawAt (d i : Nat) : Nat × Nat :=
  let c := drawLoop 64 d i
  (c, remove d c)

/-- `Deck::draw` as a whole: the index is `gen_range(0..n)`; `r` is the raw random value -/
def draw (d r : Nat) : Nat × Nat := drawAt d (r % popW 64 d)

end RP.Deck

namespace RP.Deck
open RP.Bits

/-- successive `Deck::draw`s on one kept deck (`Deck::hole`, `Deck::deal`, several streets from the
    same deck) with raw random values `rs`: `none` when a draw meets an empty deck (the real
    `gen_range(0..0)` panics), else (cards in draw order, remaining deck) -/
def drawMany : Nat → List Nat → Option (List Nat × Nat)
  | d, [] => some ([], d)
  | d, r :: rs =>
    if popW 64 d = 0 then none else
      match drawMany (draw d r).2 rs with
      | none => none
      | some (cs, d') => some ((draw d r).1 :: cs, d')

/-- the `Hand` of a list of cards (`Hand::add` fold) -/
def handOf (cs : List Nat) : Nat := cs.foldl (fun h c => h ||| (1 <<< c)) 0

/-- `Street::n_revealed`: cards dealt by `Deck::deal(street)` (0 = pre-flop → the flop) -/
def dealSize : Nat → Nat
  | 0 => 3
  | 1 => 1
  | 2 => 1
  | _ => 0

/-- a dealer keeping one deck for a whole hand: `hole(); hole(); deal(Pref); deal(Flop); deal(Turn)`
    with the same raw value `r` for every draw: the five dealt hands and the remaining deck -/
def dealRun (d r : Nat) : Option (List Nat × Nat) :=
  let step (acc : Option (List Nat × Nat)) (k : Nat) : Option (List Nat × Nat) :=
    match acc with
    | none => none
    | some (hs, d) =>
      match drawMany d (List.replicate k r) with
      | none => none
      | some (cs, d') => some (hs ++ [handOf cs], d')
  [2, 2, dealSize 0, dealSize 1, dealSize 2].foldl step (some ([], d))

end RP.Deck
