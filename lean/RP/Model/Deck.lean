import RP.Model.Bits
/-! Model of `Deck::draw` (src/cards/deck.rs) for a given uniform index `i`.

```rust
let mut ones = 0u8; let mut deck = u64::from(self.0);
let mut card = u64::from(self.0).trailing_zeros() as u8;
while ones <= i { card = deck.trailing_zeros() as u8; deck = deck & (deck - 1); ones += 1; }
self.0.remove(card)          // self.0 &= !(1 << card)
```
The loop body runs `i + 1` times; the card is the trailing-zero count of the deck after
`i` clearings. The `rand` index `i` is the model's parameter (PRNG trusted). -/
namespace RP.Deck
open RP.Bits

/-- the card found by the bit-walk for index `i` in a `w`-bit deck word -/
def drawLoop (w : Nat) : Nat → Nat → Nat
  | d, 0 => tzW w d
  | d, i+1 => drawLoop w (clearLowest d) i

/-- `Hand::remove`: `self.0 &= !(1 << card)` -/
def remove (d card : Nat) : Nat := d &&& not64 (1 <<< card)

/-- `Deck::draw` with the random index fixed to `i`: (card, remaining deck) -/
def drawAt (d i : Nat) : Nat × Nat :=
  let c := drawLoop 64 d i
  (c, remove d c)

/-- `Deck::draw` as a whole: the index is `gen_range(0..n)`; `r` is the raw random value -/
def draw (d r : Nat) : Nat × Nat := drawAt d (r % popW 64 d)

end RP.Deck
