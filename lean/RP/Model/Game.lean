import RP.Gen.Consts
import RP.Model.Bits
import RP.Model.Showdown
/-! Model of the two-seat `Game` state machine (src/gameplay/game.rs, seat.rs, action.rs,
ply.rs, cards/board.rs, cards/street.rs), function by function.

* `Chips = i16` is modelled by `Int`; the range facts (`0 ≤ x ≤ 2·STACK ≤ 32767`) are part of
  the invariant `GameInv` (file `RP/Lemmas/Game.lean`), so wrap-around is excluded by proof.
* Card sets (`Hole`, `Board`, `Hand`) are `Nat` bitmasks (bit `c` = card `c`), `u64` words.
* `seats: [Seat; N]` is unrolled to the two fields `s0`, `s1`; `RP.Gen.N = 2` is re-checked by
  `n_eq` below (the build breaks when `N` changes). All iterator pipelines over `self.seats`
  are written out for the two seats in seat order.
* The `assert!(self.is_allowed(&a))` in `act` (and the second `assert!(stack >= bet)` in `bet`)
  is the `none` result of `step?`.
* Panics that are outside `is_allowed` — `Street::from(usize)` on a board of 1, 2 or > 5 cards,
  `Hand::add` on overlapping sets inside `deck()`/`show`, `assert!(options.len() > 0)` in
  `legal` — are not modelled as failures: `street` returns the marker `4`, `|||` is total.
  `GameInv` proves that none of them is reachable (board size ∈ {0,3,4,5}, holes and board
  pairwise disjoint, the actor always has chips behind).
* `next_player`'s inner `loop` gets fuel `N`: after `N` increments every seat has been looked
  at, so if no seat is `Betting` the Rust loop would spin forever; the model then stops with the
  ticker advanced `N` times. `RP.Game.nextPlayer_eq` (Lemmas/Game.lean), used by every `inv_*`
  transition lemma, proves that in every reachable state the loop body runs exactly once.
* `legal()` at a chance node contains the *random* `Draw(self.deck().deal(street))`; the model
  takes the dealt cards as a parameter (`legal g deal`). `is_allowed` only consults `legal()` for
  `Fold/Check/Call/Shove`, for which that entry never matters.
* Hand strength (`Strength::from(hole ∪ board)`) belongs to the evaluator model (C01); here it is
  an abstract parameter `strength : Nat → Nat` of `settlements`. -/
namespace RP.Game
open RP.Showdown (Status Entry)
open RP.Bits (popW)

/-! ## constants (generated) -/

def STACK : Int := (RP.Gen.STACK : Nat)
def BB : Int := (RP.Gen.B_BLIND : Nat)
def SB : Int := (RP.Gen.S_BLIND : Nat)

/-- the side conditions every theorem needs, discharged on the generated values -/
theorem consts_ok : 0 < SB ∧ SB ≤ BB ∧ BB < STACK ∧ 2 * STACK ≤ 32767 := by decide

theorem n_eq : RP.Gen.N = 2 := by decide
theorem baseDealer_eq : RP.Gen.baseDealer = 0 := by decide
theorem baseTicker_eq : RP.Gen.baseTicker = 1 := by decide
theorem touchedPref_eq : RP.Gen.touchedPref = 2 := by decide
theorem touchedPost_eq : RP.Gen.touchedPost = 0 := by decide
theorem streetOfSize_eq : RP.Gen.streetOfSize = [(0, 0), (3, 1), (4, 2), (5, 3)] := by decide
theorem nRevealed_eq : RP.Gen.nRevealed = [3, 1, 1, 0] := by decide
theorem handMask_eq : RP.Gen.handMaskStd = 2 ^ 52 - 1 := by decide

/-! ## data -/

/-- `gameplay::seat::Seat` (`cards: Hole` as a bitmask) -/
structure Seat where
  state : Status
  stack : Int
  stake : Int
  spent : Int
  hole : Nat
  deriving DecidableEq, Repr, Inhabited

/-- `gameplay::game::Game` -/
structure Game where
  s0 : Seat
  s1 : Seat
  pot : Int
  board : Nat
  dealer : Nat
  ticker : Nat
  deriving DecidableEq, Repr, Inhabited

/-- `gameplay::action::Action` -/
inductive Action where
  | draw (cards : Nat)
  | fold
  | call (chips : Int)
  | check
  | raise (chips : Int)
  | shove (chips : Int)
  | blind (chips : Int)
  deriving DecidableEq, Repr, Inhabited

/-- `gameplay::ply::Turn` -/
inductive Turn where
  | terminal
  | chance
  | choice (seat : Nat)
  deriving DecidableEq, Repr, Inhabited

/-! ## cards -/

/-- `Street::from(usize)` through the generated size table; `4` marks the panic arm -/
def streetOf (size : Nat) : Nat := (RP.Gen.streetOfSize.lookup size).getD 4

/-- `Street::n_revealed` through the generated table (Rive panics: never asked, see `isAllowed`) -/
def nRevealed (street : Nat) : Nat := RP.Gen.nRevealed.getD street 0

/-- `self.board.street()` = `Street::from(self.0.size())`, `size = count_ones` -/
def street (g : Game) : Nat := streetOf (popW 64 g.board)

/-- the cards removed from the deck: `Hand::add(board, hole_0, hole_1)` -/
def inPlay (g : Game) : Nat := g.board ||| g.s0.hole ||| g.s1.hole

/-- `fn deck(&self)`: `Deck::from(removed.complement())`, `complement = self.0 ^ mask` -/
def deck (g : Game) : Nat := inPlay g ^^^ RP.Gen.handMaskStd

/-- `cards.all(|c| deck.contains(&c))` -/
def subset (cards deck : Nat) : Bool := cards &&& deck == cards

/-! ## seats and turn order -/

/-- `fn actor_idx(&self)` -/
def actorIdx (g : Game) : Nat := (g.dealer + g.ticker) % RP.Gen.N

/-- `fn actor_ref(&self)` -/
def actor (g : Game) : Seat := if actorIdx g = 0 then g.s0 else g.s1

/-- the seat that is not the actor (no Rust counterpart; used in statements only) -/
def other (g : Game) : Seat := if actorIdx g = 0 then g.s1 else g.s0

/-- `fn effective_stake(&self)`: max over all seats -/
def effectiveStake (g : Game) : Int := max g.s0.stake g.s1.stake

/-- all players have acted at least once: `ticker > n + if Pref {2} else {0}` -/
def isEveryoneTouched (g : Game) : Bool :=
  decide (g.ticker > RP.Gen.N + (if street g = 0 then RP.Gen.touchedPref else RP.Gen.touchedPost))

/-- `seats.filter(Betting).all(stake == effective_stake)` -/
def isEveryoneMatched (g : Game) : Bool :=
  (g.s0.state != Status.betting || g.s0.stake == effectiveStake g) &&
  (g.s1.state != Status.betting || g.s1.stake == effectiveStake g)

/-- `seats.filter(!Folding).all(Shoving)` -/
def isEveryoneShoving (g : Game) : Bool :=
  (g.s0.state == Status.folding || g.s0.state == Status.shoving) &&
  (g.s1.state == Status.folding || g.s1.state == Status.shoving)

/-- `seats.filter(!Folding).count() == 1` -/
def isEveryoneFolding (g : Game) : Bool :=
  (if g.s0.state != Status.folding then 1 else 0) + (if g.s1.state != Status.folding then 1 else 0) == (1 : Nat)

def isEveryoneCalling (g : Game) : Bool := isEveryoneTouched g && isEveryoneMatched g

def isEveryoneAlright (g : Game) : Bool :=
  isEveryoneCalling g || isEveryoneFolding g || isEveryoneShoving g

/-- `fn must_stop(&self)` -/
def mustStop (g : Game) : Bool :=
  if street g = 3 then isEveryoneAlright g else isEveryoneFolding g

/-- `fn must_deal(&self)` -/
def mustDeal (g : Game) : Bool :=
  if street g = 3 then false else isEveryoneAlright g

/-- `fn must_post(&self)` -/
def mustPost (g : Game) : Bool :=
  if street g = 0 then decide (g.pot < SB + BB) else false

/-- `fn turn(&self)` -/
def turn (g : Game) : Turn :=
  if mustStop g then .terminal else if mustDeal g then .chance else .choice (actorIdx g)

/-! ## amounts -/

/-- `fn to_call(&self)` -/
def toCall (g : Game) : Int := effectiveStake g - (actor g).stake

/-- `fn to_shove(&self)` -/
def toShove (g : Game) : Int := (actor g).stack

/-- one step of the `(most, next)` fold in `to_raise` -/
def top2 (acc : Int × Int) (stake : Int) : Int × Int :=
  if stake > acc.1 then (stake, acc.1) else if stake > acc.2 then (acc.1, stake) else acc

/-- the fold of `to_raise` over the non-folded seats in seat order -/
def topStakes (g : Game) : Int × Int :=
  let a := if g.s0.state != Status.folding then top2 (0, 0) g.s0.stake else (0, 0)
  if g.s1.state != Status.folding then top2 a g.s1.stake else a

/-- `fn to_raise(&self)`: memoryless min-raise from the two largest stakes -/
def toRaise (g : Game) : Int :=
  let most := (topStakes g).1
  let next := (topStakes g).2
  let relative := most - (actor g).stake
  let marginal := most - next
  relative + max marginal BB

/-- `fn to_post(&self)`: `(ticker - dealer) % n` is Rust's truncating remainder on `isize` -/
def toPost (g : Game) : Int :=
  if Int.tmod ((g.ticker : Int) - (g.dealer : Int)) (RP.Gen.N : Nat) = 1
  then min SB (actor g).stack else min BB (actor g).stack

def mayFold (g : Game) : Bool := decide (toCall g > 0)
def mayCall (g : Game) : Bool := mayFold g && decide (toCall g < toShove g)
def mayCheck (g : Game) : Bool := effectiveStake g == (actor g).stake
def mayRaise (g : Game) : Bool := decide (toRaise g < toShove g)
def mayShove (g : Game) : Bool := decide (toShove g > 0)

/-! ## legal / is_allowed -/

/-- the part of `legal()` after the three early returns, in push order -/
def legalChoice (g : Game) : List Action :=
  (if mayRaise g then [Action.raise (toRaise g)] else []) ++
  (if mayShove g then [Action.shove (toShove g)] else []) ++
  (if mayCall g then [Action.call (toCall g)] else []) ++
  (if mayFold g then [Action.fold] else []) ++
  (if mayCheck g then [Action.check] else [])

/-- `fn legal(&self)`; `deal` stands for the random `self.deck().deal(self.street())` -/
def legal (g : Game) (deal : Nat := 0) : List Action :=
  if mustStop g then []
  else if mustDeal g then [Action.draw deal]
  else if mustPost g then [Action.blind SB]
  else legalChoice g

/-- `fn is_allowed(&self, action)` -/
def isAllowed (g : Game) (a : Action) : Bool :=
  if mustStop g then false else
  match a with
  | .raise x => !mustDeal g && mayRaise g && decide (x ≥ toRaise g) && decide (x ≤ toShove g - 1)
  | .draw c => mustDeal g && subset c (deck g) && popW 64 c == nRevealed (street g)
  | .blind _ => mustPost g
  | a => (legal g).contains a

/-! ## transitions -/

/-- `Seat::bet` followed by the `if stack == 0 { shove }` of `Game::bet` -/
def Seat.bet (s : Seat) (x : Int) : Seat :=
  { s with stack := s.stack - x, stake := s.stake + x, spent := s.spent + x,
           state := if s.stack - x = 0 then Status.shoving else s.state }

/-- `fn bet(&mut self, bet)` after its `assert!(stack >= bet)` -/
def bet (g : Game) (x : Int) : Game :=
  { g with pot := g.pot + x,
           s0 := if actorIdx g = 0 then g.s0.bet x else g.s0,
           s1 := if actorIdx g = 0 then g.s1 else g.s1.bet x }

/-- `fn fold(&mut self)` -/
def foldActor (g : Game) : Game :=
  { g with s0 := if actorIdx g = 0 then { g.s0 with state := Status.folding } else g.s0,
           s1 := if actorIdx g = 0 then g.s1 else { g.s1 with state := Status.folding } }

/-- `fn show(&mut self, hand)`: `ticker = dealer; board.add(hand)` -/
def showCards (g : Game) (c : Nat) : Game :=
  { g with ticker := g.dealer, board := g.board ||| c }

/-- `fn next_street(&mut self)`: every stake back to 0 -/
def nextStreet (g : Game) : Game :=
  { g with s0 := { g.s0 with stake := 0 }, s1 := { g.s1 with stake := 0 } }

/-- the inner `loop` of `next_player` with fuel -/
def advance : Nat → Game → Game
  | 0, g => g
  | fuel + 1, g =>
    let g' := { g with ticker := g.ticker + 1 }
    if (actor g').state = Status.betting then g' else advance fuel g'

/-- `fn next_player(&mut self)`: `is_everyone_alright` is evaluated with the old ticker -/
def nextPlayer (g : Game) : Game :=
  if isEveryoneAlright g then g else advance RP.Gen.N g

/-- the body of `fn act(&mut self, a)` after the assertion -/
def act (g : Game) : Action → Game
  | .check => nextPlayer g
  | .fold => nextPlayer (foldActor g)
  | .call x => nextPlayer (bet g x)
  | .blind x => nextPlayer (bet g x)
  | .raise x => nextPlayer (bet g x)
  | .shove x => nextPlayer (bet g x)
  | .draw c => nextStreet (nextPlayer (showCards g c))

/-- the chips an action moves (`None` for check/fold/draw) -/
def Action.chips : Action → Option Int
  | .call x | .blind x | .raise x | .shove x => some x
  | _ => none

/-- the second assertion on the way: `assert!(self.actor_ref().stack() >= bet)` -/
def betOk (g : Game) (a : Action) : Bool :=
  match a.chips with
  | some x => decide ((actor g).stack ≥ x)
  | none => true

/-- `fn apply(&self, action) -> Self`; `none` = an assertion fails (panic, no state returned) -/
def step? (g : Game) (a : Action) : Option Game :=
  if isAllowed g a && betOk g a then some (act g a) else none

/-- a whole action list; `none` as soon as one action is rejected -/
def run? (g : Game) : List Action → Option Game
  | [] => some g
  | a :: as => (step? g a).bind (fun g' => run? g' as)

/-! ## start of a hand -/

/-- `Seat::from(STACK)` with its hole cards already dealt -/
def freshSeat (hole : Nat) : Seat :=
  { state := Status.betting, stack := STACK, stake := 0, spent := 0, hole := hole }

/-- `Game::base().deal()`: the holes are the model's parameters (the deck model is C14's) -/
def base (h0 h1 : Nat) : Game :=
  { s0 := freshSeat h0, s1 := freshSeat h1, pot := 0, board := 0,
    dealer := RP.Gen.baseDealer, ticker := RP.Gen.baseTicker }

/-- `fn post(self)`: two blinds through `act` -/
def post? (g : Game) : Option Game :=
  (step? g (Action.blind (toPost g))).bind (fun g1 => step? g1 (Action.blind (toPost g1)))

/-- `Game::root()` written out (proved equal to `post? (base h0 h1)` in `root_posted`) -/
def root (h0 h1 : Nat) : Game :=
  { s0 := { state := Status.betting, stack := STACK - BB, stake := BB, spent := BB, hole := h0 },
    s1 := { state := Status.betting, stack := STACK - SB, stake := SB, spent := SB, hole := h1 },
    pot := SB + BB, board := 0, dealer := RP.Gen.baseDealer, ticker := RP.Gen.baseTicker + 2 }

/-! ## settlement -/

/-- `fn entry(&self, seat)` -/
def entry (strength : Nat → Nat) (g : Game) (s : Seat) : Entry :=
  { risked := s.spent, status := s.state, strength := strength (s.hole ||| g.board), reward := 0 }

/-- `fn ledger(&self)` -/
def ledger (strength : Nat → Nat) (g : Game) : List Entry :=
  [entry strength g g.s0, entry strength g g.s1]

/-- `fn settlements(&self)`: `none` = `assert!(self.must_stop())` fails -/
def settlements (strength : Nat → Nat) (g : Game) : Option (List Entry) :=
  if mustStop g then some (RP.Showdown.settle (ledger strength g)) else none

/-- rewards in seat order -/
def rewards (strength : Nat → Nat) (g : Game) : Option (List Int) :=
  (settlements strength g).map (fun l => l.map (·.reward))

/-- `Settlement::pnl` in seat order -/
def pnls (strength : Nat → Nat) (g : Game) : Option (List Int) :=
  (settlements strength g).map (fun l => l.map (fun e => e.reward - e.risked))

end RP.Game
