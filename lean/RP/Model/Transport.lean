import RP.Gen.Consts
import RP.Gen.C12
/-! # Transport — executable model of `clustering/{sinkhorn,equity,heuristic,metric,potential,histogram,pair}.rs`

Everything numeric is polymorphic over an arithmetic structure `Arith α`:
the theorems (`RP/Props/C12.lean`, `RP/Props/C13.lean`) instantiate it with `ℝ`,
the drivers with `Float32` (instance at the end of this file), so that the function
definitions the theorems talk about are the ones the correspondence executes.

Conventions
* an `Abstraction` is the natural number `variant · 2^64 + bits` (`variant` = position of the enum
  variant, `bits` the `u64`): the derived `Ord` of the Rust enum is then `<` on `Nat`, and every
  `BTreeMap<Abstraction, _>` is a list of entries in increasing code order;
* `Option`'s `none` is the Rust panic (a failed `expect`/`unwrap`/`assert!`);
* `sum` is Rust's `Iterator::sum::<f32>()`: a left fold (seeded with `-0.0`). -/
namespace RP.Transport

/-- the arithmetic the transport code uses (`f32` in the implementation) -/
class Arith (α : Type) where
  add : α → α → α
  sub : α → α → α
  mul : α → α → α
  div : α → α → α
  exp : α → α
  log : α → α
  abs : α → α
  /-- `f32::max` -/
  max : α → α → α
  /-- `f32::min` -/
  min : α → α → α
  /-- `n as f32` -/
  ofNat : Nat → α
  /-- the seed of `Iterator::sum` (`-0.0` for `f32`) -/
  sumSeed : α
  /-- `a < b` (false when unordered) -/
  lt : α → α → Bool
  /-- `partial_cmp` -/
  cmp : α → α → Option Ordering
  /-- `is_finite` -/
  finite : α → Bool
  /-- `f32::MIN_POSITIVE` -/
  minPos : α

section
variable {α : Type} [Arith α]
open Arith

local infixl:65 " +. " => Arith.add
local infixl:65 " -. " => Arith.sub
local infixl:70 " *. " => Arith.mul
local infixl:70 " /. " => Arith.div

/-- `Iterator::sum::<f32>()` -/
def sum (xs : List α) : α := xs.foldl Arith.add Arith.sumSeed

/-! ## Abstraction codes and pair keys -/

def W64 : Nat := 2 ^ 64
/-- `u64::from(Abstraction)` -/
def bitsOf (a : Nat) : Nat := a % W64
/-- position of the enum variant (`Percent, Learned, Preflop` = 0, 1, 2) -/
def variantOf (a : Nat) : Nat := a / W64
/-- `Abstraction::index` -/
def indexOf (a : Nat) : Nat := RP.Gen.absL &&& bitsOf a

/-- `Abstraction::signature(street, index)` -/
def signature (street index : Nat) : Nat :=
  RP.Gen.absM &&& ((((RP.Gen.absL &&& index) ||| (street <<< RP.Gen.C12.shiftL)) * RP.Gen.absMul) % W64)

/-- `Abstraction::from((street, index))`, street as `Street as u8` (Pref, Flop, Turn, Rive = 0..3) -/
def absCode (street index : Nat) : Nat :=
  (RP.Gen.C12.variantOfStreet.getD street 2) * W64 +
    ((RP.Gen.absL &&& index) ||| (RP.Gen.absM &&& signature street index)
      ||| (RP.Gen.absH &&& ((street <<< RP.Gen.C12.shiftH) % W64)))

/-- `Pair::from((a, b))` : XOR of the two `u64`s -/
def pairKey (a b : Nat) : Nat := bitsOf a ^^^ bitsOf b

theorem pairKey_comm (a b : Nat) : pairKey a b = pairKey b a := Nat.xor_comm _ _

/-! ## Histogram -/

/-- `Histogram { mass, counts }`, `counts` in increasing key order -/
structure Hist where
  mass : Nat
  counts : List (Nat × Nat)
deriving Repr, BEq, DecidableEq

def Hist.empty : Hist := ⟨0, []⟩

/-- `counts.get(x).unwrap_or(0)` -/
def Hist.count (h : Hist) (a : Nat) : Nat := (h.counts.lookup a).getD 0

/-- `Histogram::density` : `count as f32 / mass as f32` -/
def density (h : Hist) (a : Nat) : α := Arith.ofNat (h.count a) /. Arith.ofNat h.mass

def Hist.support (h : Hist) : List Nat := h.counts.map Prod.fst
/-- `Histogram::n` -/
def Hist.n (h : Hist) : Nat := h.counts.length

/-- `entry(key).or_insert(0) += c` on a key-sorted entry list -/
def insertAdd (k c : Nat) : List (Nat × Nat) → List (Nat × Nat)
  | [] => [(k, c)]
  | (k', c') :: rest =>
    if k = k' then (k', c' + c) :: rest
    else if k < k' then (k, c) :: (k', c') :: rest
    else (k', c') :: insertAdd k c rest

/-- `Histogram::increment` -/
def Hist.increment (h : Hist) (a : Nat) : Hist := ⟨h.mass + 1, insertAdd a 1 h.counts⟩

/-- `Histogram::from(Vec<Abstraction>)` -/
def Hist.ofList (as : List Nat) : Hist := as.foldl Hist.increment Hist.empty

/-- `Histogram::absorb` -/
def Hist.absorb (h other : Hist) : Hist :=
  ⟨h.mass + other.mass, other.counts.foldl (fun acc kc => insertAdd kc.1 kc.2 acc) h.counts⟩

/-! ## Metric -/

/-- `Metric(BTreeMap<Pair, f32>)` -/
structure Metric (α : Type) where
  entries : List (Nat × α)

/-- `Metric::lookup` (`none` = "missing abstraction pair") -/
def Metric.lookup (m : Metric α) (x y : Nat) : Option α := m.entries.lookup (pairKey x y)

/-- `Abstraction::floatize(index)` -/
def floatize (q : Nat) : α := Arith.ofNat q /. Arith.ofNat RP.Gen.C12.equityGrid

/-- `Equity::distance` -/
def equityDistance (x y : Nat) : α := Arith.abs (floatize (indexOf x) -. floatize (indexOf y))

/-- `Metric::distance` (`none` = `unreachable!` / missing pair) -/
def Metric.distance (m : Metric α) (x y : Nat) : Option α :=
  if x = y then some (Arith.ofNat 0)
  else if variantOf x = 1 ∧ variantOf y = 1 then m.lookup x y
  else if variantOf x = 0 ∧ variantOf y = 0 then some (equityDistance x y)
  else none

/-- `Metric::from(BTreeMap<Pair, f32>)` : divide by `fold(MIN_POSITIVE, max)` -/
def Metric.maxValue (es : List (Nat × α)) : α := es.foldl (fun acc e => Arith.max acc e.2) Arith.minPos
def Metric.scale (mx : α) (es : List (Nat × α)) : Metric α := ⟨es.map fun e => (e.1, e.2 /. mx)⟩
def Metric.normalize (es : List (Nat × α)) : Metric α := Metric.scale (Metric.maxValue es) es

/-! ## Potential -/

/-- `Potential(BTreeMap<Abstraction, f32>)` as its entry list -/
abbrev Pot (α : Type) := List (Nat × α)

/-- `Potential::uniform` : `ln(1 / n)` on the support -/
def uniform (h : Hist) : Pot α := h.counts.map fun kc => (kc.1, Arith.log (Arith.ofNat 1 /. Arith.ofNat h.n))

/-- `Potential::normalize` : the densities on the support -/
def normalize (h : Hist) : Pot α := h.counts.map fun kc => (kc.1, density h kc.1)

/-! ## Sinkhorn -/

/-- `Sinkhorn::regularization` with distance function `d` and temperature `T` -/
def reg (d : Nat → Nat → α) (T : α) (x y : Nat) : α := d x y /. T

/-- `Sinkhorn::divergence(x, histogram, potential)` with `px = histogram.density(x)` -/
def divergence (d : Nat → Nat → α) (T : α) (x : Nat) (px : α) (pot : Pot α) : α :=
  Arith.log px -.
    Arith.log (sum (pot.map fun yg => Arith.max (Arith.exp (yg.2 -. reg d T x yg.1)) Arith.minPos))

/-- `Sinkhorn::lhs()` : the next left potential -/
def lhsUpd (d : Nat → Nat → α) (T : α) (mu : Hist) (lhs rhs : Pot α) : Pot α :=
  lhs.map fun xf => (xf.1, divergence d T xf.1 (density mu xf.1) rhs)

/-- `Sinkhorn::rhs()` : the next right potential -/
def rhsUpd (d : Nat → Nat → α) (T : α) (nu : Hist) (lhs rhs : Pot α) : Pot α :=
  rhs.map fun yg => (yg.1, divergence d T yg.1 (density nu yg.1) lhs)

/-- `Sinkhorn::delta(prev, next)` -/
def delta (prev next : Pot α) : α :=
  sum ((prev.zip next).map fun pn => Arith.abs (Arith.exp pn.2.2 -. Arith.exp pn.1.2))

def allFinite (p : Pot α) : Bool := p.all fun e => Arith.finite e.2

structure SK (α : Type) where
  lhs : Pot α
  rhs : Pot α

/-- one pass of the `for` loop in `Sinkhorn::sinkhorn`; the Boolean is the `break` -/
def skIter (d : Nat → Nat → α) (T tol : α) (mu nu : Hist) (s : SK α) : Option (SK α × Bool) :=
  let l := lhsUpd d T mu s.lhs s.rhs
  if allFinite l then
    let e1 := delta s.lhs l
    let r := rhsUpd d T nu l s.rhs
    if allFinite r then
      let e2 := delta s.rhs r
      some (⟨l, r⟩, Arith.lt (e1 +. e2) tol)
    else none
  else none

/-- `Sinkhorn::sinkhorn` : at most `n` iterations with the early stop -/
def skLoop (d : Nat → Nat → α) (T tol : α) (mu nu : Hist) : Nat → SK α → Option (SK α)
  | 0, s => some s
  | n + 1, s =>
    match skIter d T tol mu nu s with
    | none => none
    | some (s', stop) => if stop then some s' else skLoop d T tol mu nu n s'

/-- `Sinkhorn::coupling(x, y)` given the two potential values -/
def coupling (d : Nat → Nat → α) (T : α) (x : Nat) (f : α) (y : Nat) (g : α) : α :=
  Arith.exp (f +. g -. reg d T x y)

/-- `Sinkhorn::flow` -/
def flow (d : Nat → Nat → α) (T : α) (x : Nat) (f : α) (y : Nat) (g : α) : α :=
  coupling d T x f y g *. d x y

/-- all flows in the order `Sinkhorn::cost` visits them -/
def flows (d : Nat → Nat → α) (T : α) (s : SK α) : List α :=
  s.lhs.flatMap fun xf => s.rhs.map fun yg => flow d T xf.1 xf.2 yg.1 yg.2

/-- `Sinkhorn::cost` -/
def cost (d : Nat → Nat → α) (T : α) (s : SK α) : Option α :=
  let fl := flows d T s
  if fl.all Arith.finite then some (sum fl) else none

/-- the plan, row by row -/
def plan (d : Nat → Nat → α) (T : α) (s : SK α) : List (List α) :=
  s.lhs.map fun xf => s.rhs.map fun yg => coupling d T xf.1 xf.2 yg.1 yg.2

/-- `Sinkhorn::from((mu, nu, metric))` -/
def skInit (mu nu : Hist) : SK α := ⟨uniform mu, uniform nu⟩

/-- the metric as a total function once every pair that is looked up is known to be present -/
def Metric.distD (m : Metric α) (x y : Nat) : α := (m.distance x y).getD (Arith.ofNat 0)

/-- every `metric.distance` call of a Sinkhorn run succeeds (both argument orders are used) -/
def Metric.covers (m : Metric α) (xs ys : List Nat) : Bool :=
  xs.all fun x => ys.all fun y => (m.distance x y).isSome && (m.distance y x).isSome

/-- `Sinkhorn::from((mu, nu, metric)).minimize()` with the generated parameters.
    `none` = the run panics (missing pair, non-finite potential, empty histogram). -/
def minimize (T tol : α) (iters : Nat) (m : Metric α) (mu nu : Hist) : Option (SK α) :=
  if mu.counts.isEmpty || nu.counts.isEmpty then none   -- `Potential::from` asserts `len > 0`
  else if m.covers mu.support nu.support then
    skLoop m.distD T tol mu nu iters (skInit mu nu)
  else none

/-! ## Equity -/

/-- the loop of `Equity::variation` over the first `n` buckets with bucket densities `p`, `q`:
    state = (cdf_x, cdf_y, Σ|cdf_x − cdf_y|) -/
def cdfStep (p q : Nat → α) (st : α × α × α) (i : Nat) : α × α × α :=
  let cx := st.1 +. p i
  let cy := st.2.1 +. q i
  (cx, cy, st.2.2 +. Arith.abs (cx -. cy))

def variationOn (n : Nat) (p q : Nat → α) : α :=
  ((List.range n).foldl (cdfStep p q) (Arith.ofNat 0, Arith.ofNat 0, Arith.sumSeed)).2.2 /. Arith.ofNat n

/-- the `i`-th river abstraction `Abstraction::from((Street::Rive, i))` -/
def riverCode (i : Nat) : Nat := absCode 3 i

/-- `Equity::variation(x, y)` -/
def variation (x y : Hist) : α :=
  variationOn RP.Gen.C12.equityBuckets (fun i => density x (riverCode i)) (fun i => density y (riverCode i))

/-! ## `Metric::emd` : the entry point `Layer` uses -/

/-- `Metric::emd(source, target)`: dispatch on the variant of `source.peek()` (its first key):
    `Learned` ⇒ `Sinkhorn::from(..).minimize().cost()`, `Percent` ⇒ `Equity::variation`,
    `Preflop` ⇒ `unreachable!`; an empty source ⇒ `peek` panics. No other path exists. -/
def Metric.emd (T tol : α) (iters : Nat) (m : Metric α) (source target : Hist) : Option α :=
  match source.counts with
  | [] => none
  | (a, _) :: _ =>
    if variantOf a = 1 then
      match minimize T tol iters m source target with
      | none => none
      | some s => cost m.distD T s
    else if variantOf a = 0 then some (variation source target)
    else none

/-! ## Heuristic (greedy plan) -/

/-- `Iterator::min_by(|a, b| cmp(a, b).unwrap())` : keeps the current element unless it is strictly
    greater than the next one, so the FIRST minimum wins; `none` = `unwrap` of an unordered pair -/
def minByGo {β : Type} (cmp : β → β → Option Ordering) : β → List β → Option β
  | acc, [] => some acc
  | acc, c :: cs =>
    match cmp acc c with
    | none => none
    | some Ordering.gt => minByGo cmp c cs
    | some _ => minByGo cmp acc cs

def minBy {β : Type} (cmp : β → β → Option Ordering) : List β → Option (Option β)
  | [] => some none
  | b :: bs => (minByGo cmp b bs).map some

/-- the sinks with positive remaining mass, with position, key, mass and distance from `x` -/
def candidates (d : Nat → Nat → Option α) (x : Nat) (sink : Pot α) : List (Nat × Nat × α × Option α) :=
  ((List.range sink.length).zip sink).filterMap fun je =>
    if Arith.lt (Arith.ofNat 0) je.2.2 then some (je.1, je.2.1, je.2.2, d x je.2.1) else none

/-- nearest positive sink: `none` = panic, `some none` = no sink left -/
def nearest (d : Nat → Nat → Option α) (x : Nat) (sink : Pot α) : Option (Option (Nat × Nat × α × α)) :=
  let cs := candidates d x sink
  if cs.all fun c => c.2.2.2.isSome then
    minBy (fun a b => Arith.cmp a.2.2.2 b.2.2.2)
      (cs.filterMap fun c => c.2.2.2.map fun dist => (c.1, c.2.1, c.2.2.1, dist))
  else none

/-- `*plan.entry(pair).or_default() += v` on a key-sorted entry list -/
def planAdd (k : Nat) (v : α) : List (Nat × α) → List (Nat × α)
  | [] => [(k, Arith.ofNat 0 +. v)]
  | (k', v') :: rest =>
    if k = k' then (k', v' +. v) :: rest
    else if k < k' then (k, Arith.ofNat 0 +. v) :: (k', v') :: rest
    else (k', v') :: planAdd k v rest

/-- state of `Heuristic::minimize`; `steps` is a ghost record `(x, y, mass)` of every move -/
structure Greedy (α : Type) where
  pile : Pot α
  sink : Pot α
  plan : List (Nat × α)
  steps : List (Nat × Nat × α)

/-- the inner `'pile` loop over the snapshot of the sources; returns the processed prefix of the
    pile (in order) and whether `break 'cost` was hit -/
def greedyPass (d : Nat → Nat → Option α) :
    Pot α → Pot α → List (Nat × α) → List (Nat × Nat × α) → Option (Greedy α × Bool)
  | [], sink, plan, steps => some (⟨[], sink, plan, steps⟩, false)
  | (x, dx) :: rest, sink, plan, steps =>
    if Arith.lt (Arith.ofNat 0) dx then
      match nearest d x sink with
      | none => none
      | some none => some (⟨(x, dx) :: rest, sink, plan, steps⟩, true)
      | some (some (j, y, dy, dist)) =>
        let mass := Arith.min dx dy
        match greedyPass d rest (sink.set j (y, dy -. mass)) (planAdd (pairKey x y) (mass *. dist) plan)
            (steps ++ [(x, y, mass)]) with
        | none => none
        | some (g, b) => some ({ g with pile := (x, dx -. mass) :: g.pile }, b)
    else
      match greedyPass d rest sink plan steps with
      | none => none
      | some (g, b) => some ({ g with pile := (x, dx) :: g.pile }, b)

/-- the outer `'cost` loop, with fuel (theorem `greedy_fuel`: `|pile| + |sink| + 1` passes suffice) -/
def greedyLoop (d : Nat → Nat → Option α) : Nat → Greedy α → Option (Greedy α)
  | 0, g => some g
  | n + 1, g =>
    if g.pile.any fun e => Arith.lt (Arith.ofNat 0) e.2 then
      match greedyPass d g.pile g.sink g.plan g.steps with
      | none => none
      | some (g', true) => some g'
      | some (g', false) => greedyLoop d n g'
    else some g

/-- `Heuristic::from((source, target, metric)).minimize()` -/
def greedy (d : Nat → Nat → Option α) (source target : Hist) : Option (Greedy α) :=
  let pile : Pot α := normalize source
  let sink : Pot α := normalize target
  greedyLoop d (pile.length + sink.length + 1) ⟨pile, sink, [], []⟩

/-- `Heuristic::cost` : sum of the stored `mass · distance` per pair key -/
def greedyCost (g : Greedy α) : α := sum (g.plan.map Prod.snd)

end

/-! ## `Float32` instantiation (driver only; never used in a theorem) -/

def f32max (a b : Float32) : Float32 :=
  if a.isNaN then b else if b.isNaN then a else if a < b then b else a
def f32min (a b : Float32) : Float32 :=
  if a.isNaN then b else if b.isNaN then a else if b < a then b else a
def f32cmp (a b : Float32) : Option Ordering :=
  if a < b then some .lt else if a > b then some .gt else if a == b then some .eq else none

instance : Arith Float32 where
  add := (· + ·)
  sub := (· - ·)
  mul := (· * ·)
  div := (· / ·)
  exp := Float32.exp
  log := Float32.log
  abs := Float32.abs
  max := f32max
  min := f32min
  ofNat := Float32.ofNat
  sumSeed := Float32.ofBits 0x80000000
  lt := fun a b => a < b
  cmp := f32cmp
  finite := Float32.isFinite
  minPos := Float32.ofBits 0x00800000

/-- decimal rendering of an `f32` with 12 significant digits (truncated), exact for the comparison
    tolerance; `Float32.toString` only prints six decimals -/
def fmt32 (x : Float32) : String :=
  if x.isNaN then "~NaN"
  else
    let bits := x.toBits.toNat
    let neg := bits / 2 ^ 31 == 1
    let e := (bits / 2 ^ 23) % 256
    let m := bits % 2 ^ 23
    let sgn := if neg then "-" else ""
    if e == 255 then s!"~{sgn}inf"
    else
      -- value = mant · 2^(ex − 150)
      let mant := if e == 0 then m else m + 2 ^ 23
      let ex := if e == 0 then 1 else e
      if mant == 0 then s!"~{sgn}0"
      else
        let scale := 70
        let num := mant * 2 ^ ex * 10 ^ scale
        let n := num / 2 ^ 150
        let ds := toString n
        let k : Int := Int.ofNat ds.length - 1 - Int.ofNat scale
        let head := (ds.take 12).toString
        let padded := head ++ String.ofList (List.replicate (12 - head.length) '0')
        s!"~{sgn}{(padded.take 1).toString}.{(padded.drop 1).toString}e{k}"

end RP.Transport
