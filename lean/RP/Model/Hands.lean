import RP.Model.Bits
import RP.Model.BitsGosper
import RP.Gen.Consts
import RP.Gen.C06
/-! # Executable model of `HandIterator`, `ObservationIterator`, `IsomorphismIterator`
and `Observation::children` (src/cards/{hands,observations,isomorphisms,observation}.rs).

Hands are `Nat`s (the `u64` inside `Hand`), streets are their discriminants `0..3`.
`u64` arithmetic is modelled on `Nat` without wrap-around; that no `+ 1` overflows and no `- 1`
underflows in any reachable state is a theorem (`RP.C06.permute_no_overflow`,
`RP.C06.C06_reachable_no_overflow`).  Loops are fuel-based (structural recursion, kernel-reducible);
the fuel constants are proved never to run out (`RP.C06.skipUntil_spec`, `RP.C06.handsFrom_fuel`).
Core Lean only: this file is linked into the driver executable. -/
namespace RP.Hands
open RP.Bits

/-! ## generic iterator unfolding: `iter.collect()` and `iter.fold(..)` -/

/-- the list produced by calling `next` until the first `None` (at most `fuel` items) -/
def unfold {σ α : Type} (step : σ → Option (α × σ)) : Nat → σ → List α
  | 0, _ => []
  | n+1, s =>
    match step s with
    | none => []
    | some (a, s') => a :: unfold step n s'

/-- tail-recursive fold over the same sequence (used by the driver for long iterations) -/
def unfoldFold {σ α β : Type} (step : σ → Option (α × σ)) (f : β → α → β) : Nat → σ → β → β
  | 0, _, b => b
  | n+1, s, b =>
    match step s with
    | none => b
    | some (a, s') => unfoldFold step f n s' (f b a)

theorem unfoldFold_eq {σ α β : Type} (step : σ → Option (α × σ)) (f : β → α → β) (n : Nat) (s : σ) (b : β) :
    unfoldFold step f n s b = (unfold step n s).foldl f b := by
  induction n generalizing s b with
  | zero => rfl
  | succ n ih =>
    simp only [unfoldFold, unfold]
    cases h : step s with
    | none => rfl
    | some p => obtain ⟨a, s'⟩ := p; simp only [List.foldl_cons]; exact ih s' (f b a)

/-- `iter.nth(n)` from a fresh position: drop `n` items, return the next -/
def unfoldAt {σ α : Type} (step : σ → Option (α × σ)) : Nat → σ → Option α
  | 0, s => (step s).map (fun p => p.1)
  | n+1, s =>
    match step s with
    | none => none
    | some (_, s') => unfoldAt step n s'

/-- `next()` of `iter.filter(keep)`: skip items until one is kept -/
def filterStep {σ α : Type} (step : σ → Option (α × σ)) (keep : α → Bool) : Nat → σ → Option (α × σ)
  | 0, _ => none
  | f+1, s =>
    match step s with
    | none => none
    | some (a, s') => if keep a then some (a, s') else filterStep step keep f s'

/-! ## `u64` helpers -/

/-- `u64::leading_zeros` (`Nat.log2` is the index of the highest set bit) -/
def lz64 (n : Nat) : Nat := if n = 0 then 64 else 63 - Nat.log2 n

/- `@[noinline]` on the big constants: the code generator otherwise re-parses a decimal literal on
every use (`lean_cstr_to_nat`), which costs ~100 ns per call in the driver. -/
@[noinline] def handMaskStdC : Nat := RP.Gen.handMaskStd
@[noinline] def handMaskShortC : Nat := RP.Gen.handMaskShort
def handMask (short : Bool) : Nat := if short then handMaskShortC else handMaskStdC

/-- `Hand::from(u64)`: keeps only the cards of the configured deck -/
def handOf (short : Bool) (n : Nat) : Nat := n &&& handMask short

/-! ## `HandIterator` -/

/-- `HandIterator::permute` (Gosper's next bit permutation), line by line -/
def permute (x : Nat) : Nat :=
  let a := x ||| (x - 1)
  let b := a + 1
  let c := not64 a
  let d := c &&& b
  let e := d - 1
  let f := 1 + tzW 64 x
  let g := e >>> f
  let h := b ||| g
  h

/-- `!a & b` without the 65-bit intermediate (`not64 a` is a bignum in the Lean runtime) -/
theorem not64_and (a b : Nat) (hb : b < 2^64) : not64 a &&& b = (a ^^^ b) &&& b := by
  apply Nat.eq_of_testBit_eq
  intro j
  simp only [not64, Nat.testBit_and, Nat.testBit_xor, Nat.testBit_two_pow_sub_one]
  by_cases hj : j < 64
  · simp [hj]; cases a.testBit j <;> cases b.testBit j <;> rfl
  · have : b.testBit j = false :=
      Nat.testBit_lt_two_pow (Nat.lt_of_lt_of_le hb (Nat.pow_le_pow_right (by omega) (by omega)))
    simp [this]

/-- what the driver executes for `permute`: the same computation with `!a & b` fused and
`trailing_zeros` taken as `log2` of the isolated lowest bit, for non-zero words below `2^63`;
kernel-checked equal to `permute` on every input (`permute_eq_fast`) -/
def permuteFast (x : Nat) : Nat :=
  if x >>> 63 = 0 ∧ x ≠ 0 then
    let a := x ||| (x - 1)
    let b := a + 1
    let d := (a ^^^ b) &&& b
    let e := d - 1
    let f := 1 + Nat.log2 (x &&& (x ^^^ (x - 1)))
    let g := e >>> f
    b ||| g
  else
    let a := x ||| (x - 1)
    let b := a + 1
    let c := not64 a
    let d := c &&& b
    let e := d - 1
    let f := 1 + tzW 64 x
    let g := e >>> f
    b ||| g

@[csimp] theorem permute_eq_fast : @permute = @permuteFast := by
  funext x
  unfold permute permuteFast
  split
  · next h =>
    have hx : x < 2^63 := by
      have h1 := h.1
      rw [Nat.shiftRight_eq_div_pow] at h1
      exact Nat.lt_of_div_eq_zero (by decide) h1
    have ha : x ||| (x - 1) < 2^63 := Nat.or_lt_two_pow hx (by omega)
    simp only []
    rw [not64_and _ _ (by omega), tzW_eq_log2 x (by omega) (by omega)]
  · rfl

structure HandIter where
  next : Nat
  mask : Nat
  deriving Repr, DecidableEq

/-- `HandIterator::exhausted` on the `next` word: `next == 0 || (64 - 52) > next.leading_zeros()` -/
def exhaustedN (x : Nat) : Bool := x == 0 || decide (64 - RP.Gen.C06.exhaustWidth > lz64 x)

def HandIter.exhausted (s : HandIter) : Bool := exhaustedN s.next

/-- `while !stop(x) { x = permute(x) }` -/
def skipUntil (stop : Nat → Bool) : Nat → Nat → Nat
  | 0, x => x
  | f+1, x => if stop x then x else skipUntil stop f (permute x)

/-- fuel of the two skip loops; never reached (`RP.C06.advance_spec`, `RP.C06.init_spec`) -/
@[noinline] def SKIP_FUEL : Nat := 2^53

/-- `HandIterator::advance`: `loop { next = permute(); if next & mask == 0 { break } }` -/
def HandIter.advance (s : HandIter) : HandIter :=
  { s with next := skipUntil (fun y => y &&& s.mask == 0) SKIP_FUEL (permute s.next) }

/-- `HandIterator::look` -/
def HandIter.look (short : Bool) (s : HandIter) : Nat := handOf short s.next

/-- `From<(usize, Hand)> for HandIterator`; `hand` is the `u64` of the blocking `Hand` -/
def HandIter.init (short : Bool) (n : Nat) (hand : Nat) : HandIter :=
  let mask := if short then hand ||| RP.Gen.C06.shortBlocked else hand
  { next := skipUntil (fun x => !(decide (x &&& mask > 0) && !exhaustedN x)) SKIP_FUEL ((1 <<< n) - 1),
    mask := mask }

/-- `Iterator::next` for `HandIterator` -/
def HandIter.step (short : Bool) (s : HandIter) : Option (Nat × HandIter) :=
  if s.exhausted then none else some (s.look short, s.advance)

/-- fuel of the list unfolding; never reached (`RP.C06.handsFrom_fuel`) -/
@[noinline] def LIST_FUEL : Nat := 2^52

/-- everything the iterator still yields -/
def handsFrom (short : Bool) (s : HandIter) : List Nat := unfold (HandIter.step short) LIST_FUEL s

/-- `HandIterator::from((k, hand)).collect()` for a blocking `Hand` word -/
def handsOfHand (short : Bool) (k hand : Nat) : List Nat := handsFrom short (HandIter.init short k hand)

/-- `HandIterator::from((k, Hand::from(mask))).collect()` -/
def hands (short : Bool) (k mask : Nat) : List Nat := handsOfHand short k (handOf short mask)

/-- `HandIterator::combinations` (the `size_hint`) -/
def HandIter.combinations (short : Bool) (s : HandIter) : Nat :=
  let n := 52 - popW 64 (handOf short s.mask)
  let k := popW 64 (handOf short s.next)
  (List.range k).foldl (fun x i => x * (n - i) / (i + 1)) 1

/-! ## `ObservationIterator` -/

def nObserved (street : Nat) : Nat := RP.Gen.nObserved.getD street 0
def nRevealed (street : Nat) : Nat := RP.Gen.nRevealed.getD street 0

structure ObsIter where
  street : Nat
  pocket : Nat
  outer : HandIter
  inner : HandIter
  deriving Repr, DecidableEq

/-- `ObservationIterator::start` -/
def obsStart (short : Bool) : Nat :=
  handOf short (if short then RP.Gen.C06.startShort else RP.Gen.C06.startStd)

/-- `From<Street> for ObservationIterator` -/
def ObsIter.init (short : Bool) (street : Nat) : ObsIter :=
  let pocket := obsStart short
  let inner := HandIter.init short (nObserved street) pocket
  let outer := HandIter.init short RP.Gen.C06.pocketSize 0
  let outer := if street = 0 then outer else
    match outer.step short with
    | some (_, o) => o
    | none => outer
  { street := street, pocket := pocket, outer := outer, inner := inner }

/-- `Iterator::next` for `ObservationIterator`; an observation is `(pocket, public)` -/
def ObsIter.step (short : Bool) (s : ObsIter) : Option ((Nat × Nat) × ObsIter) :=
  match s.inner.step short with
  | some (pub, inner') => some ((s.pocket, pub), { s with inner := inner' })
  | none =>
    match s.outer.step short with
    | none => none
    | some (p, outer') =>
      if s.street = 0 then
        some ((p, 0), { s with pocket := p, outer := outer' })
      else
        match (HandIter.init short (nObserved s.street) p).step short with
        | some (pub, inner') => some ((p, pub), { s with pocket := p, outer := outer', inner := inner' })
        | none => none

/-- fuel of the observation unfolding (more than the 2.8e9 river observations) -/
@[noinline] def OBS_FUEL : Nat := 2^62

def observations (short : Bool) (street : Nat) : List (Nat × Nat) :=
  unfold (ObsIter.step short) OBS_FUEL (ObsIter.init short street)

/-- the item an `ObservationIterator` returns after `i` earlier items were consumed in any way
(`next`, `nth`, `skip`, `step_by`, …): `ObservationIterator::from(street).nth(i)` -/
def observationAt (short : Bool) (street i : Nat) : Option (Nat × Nat) :=
  unfoldAt (ObsIter.step short) i (ObsIter.init short street)

/-! ## `IsomorphismIterator`: the observation iterator filtered by `Isomorphism::is_canonical`
(the canonicity predicate is a parameter: its model belongs to C05) -/

/-- `while let Some(o) = self.0.next() { if is_canonical(o) { return Some(o) } } None` -/
def isoStep (short : Bool) (isCanonical : Nat → Nat → Bool) :
    Nat → ObsIter → Option ((Nat × Nat) × ObsIter)
  | 0, _ => none
  | f+1, s =>
    match s.step short with
    | none => none
    | some (o, s') => if isCanonical o.1 o.2 then some (o, s') else isoStep short isCanonical f s'

def isomorphisms (short : Bool) (isCanonical : Nat → Nat → Bool) (street : Nat) : List (Nat × Nat) :=
  unfold (isoStep short isCanonical OBS_FUEL) OBS_FUEL (ObsIter.init short street)

/-! ## `Observation::children` -/

/-- `Street::from(usize)` on the board size; `none` = the Rust panics -/
def streetOfSize (n : Nat) : Option Nat :=
  (RP.Gen.streetOfSize.find? (fun p => p.1 == n)).map (fun p => p.2)

/-- `Observation::children`; `none` = the Rust panics (river: `n_revealed` is terminal,
board size that is no street, or pocket and board overlapping in `Hand::add`) -/
def children (short : Bool) (pocket board : Nat) : Option (List (Nat × Nat)) :=
  match streetOfSize (popW 64 board) with
  | none => none
  | some street =>
    if street ≥ 3 then none
    else if pocket &&& board ≠ 0 then none
    else
      let removed := pocket ||| board
      some ((handsOfHand short (nRevealed street) removed).map (fun reveal => (pocket, board ||| reveal)))

/-! ## order checksum used by the correspondence streams (same fold on the Rust side) -/

@[noinline] def CK_MOD : Nat := 1099511627689
def CK_MUL : Nat := 1000003

def mix (h x : Nat) : Nat := (h * CK_MUL + x) % CK_MOD

/-- (count, checksum) step for hands -/
def ckHand (acc : Nat × Nat) (x : Nat) : Nat × Nat := (acc.1 + 1, mix acc.2 x)

/-- (count, checksum) step for observations -/
def ckObs (acc : Nat × Nat) (o : Nat × Nat) : Nat × Nat := (acc.1 + 1, mix (mix acc.2 o.1) o.2)

/-- count and checksum of `hands` without building the list -/
def handsSummary (short : Bool) (k mask : Nat) : Nat × Nat :=
  unfoldFold (HandIter.step short) ckHand LIST_FUEL (HandIter.init short k (handOf short mask)) (0, 0)

theorem handsSummary_eq (short : Bool) (k mask : Nat) :
    handsSummary short k mask = (hands short k mask).foldl ckHand (0, 0) :=
  unfoldFold_eq _ _ _ _ _

def observationsSummary (short : Bool) (street : Nat) : Nat × Nat :=
  unfoldFold (ObsIter.step short) ckObs OBS_FUEL (ObsIter.init short street) (0, 0)

theorem observationsSummary_eq (short : Bool) (street : Nat) :
    observationsSummary short street = (observations short street).foldl ckObs (0, 0) :=
  unfoldFold_eq _ _ _ _ _

end RP.Hands
