import RP.Model.Transport
/-! # Kmeans — executable model of `clustering/layer.rs` (`neighborhood`, `next`, `lookup`, `metric`)

The earth mover's distance is a parameter: `dist : π → κ → β` from points to centroids, into any
type `β` with a partial comparison `cmp` (`partial_cmp`; `none` ⇒ the `unwrap` panics ⇒ `none`).
In the theorems `π = κ = Hist` and `dist = emd`; the driver instantiates `π` with a histogram
carrying the real distances the implementation computed, so that argmin/absorb/lookup/metric
are compared as an order and exactly, independent of floating point in the distance itself. -/
namespace RP.Kmeans
open RP.Transport

variable {π κ β ι : Type}

/-- compare `(index, distance)` pairs by distance (`|(_, dx), (_, dy)| dx.partial_cmp(dy)`) -/
def cmpSnd (cmp : β → β → Option Ordering) (a b : Nat × β) : Option Ordering := cmp a.2 b.2

/-- `[d₀, d₁, …] ↦ [(0, d₀), (1, d₁), …]` (`enumerate`) -/
def enumFrom : Nat → List β → List (Nat × β)
  | _, [] => []
  | i, d :: ds => (i, d) :: enumFrom (i + 1) ds

/-- `Layer::neighborhood` on the list of distances to the centroids:
    `enumerate().min_by(partial_cmp().unwrap()).expect(..)`; `none` = panic (unordered or no centroid) -/
def argmin (cmp : β → β → Option Ordering) (ds : List β) : Option (Nat × β) :=
  match minBy (cmpSnd cmp) (enumFrom 0 ds) with
  | none => none
  | some none => none
  | some (some r) => some r

/-- `Layer::neighborhood(x)` -/
def neighborhood (cmp : β → β → Option Ordering) (dist : π → κ → β) (kmeans : List κ) (x : π) : Option (Nat × β) :=
  argmin cmp (kmeans.map (dist x))

/-- `centroids.get_mut(n).expect(..).absorb(point)` -/
def absorbAt : List Hist → Nat → Hist → Option (List Hist)
  | [], _, _ => none
  | c :: cs, 0, p => some (c.absorb p :: cs)
  | c :: cs, n + 1, p => (absorbAt cs n p).map (c :: ·)

/-- the sequential loop of `Layer::next` over `(point, neighbor)` -/
def absorbAll : List Hist → List (Hist × Nat) → Option (List Hist)
  | cs, [] => some cs
  | cs, (p, n) :: rest =>
    match absorbAt cs n p with
    | none => none
    | some cs' => absorbAll cs' rest

/-- all neighborhoods (the `par_iter().map(neighborhood).collect()`; any panic is a panic) -/
def neighbors (cmp : β → β → Option Ordering) (dist : π → κ → β) (kmeans : List κ) : List π → Option (List (Nat × β))
  | [] => some []
  | x :: xs =>
    match neighborhood cmp dist kmeans x with
    | none => none
    | some r => (neighbors cmp dist kmeans xs).map (r :: ·)

/-- `Layer::next` : `k = street.k()` fresh centroids, every point absorbed into its neighbor -/
def next (k : Nat) (cmp : β → β → Option Ordering) (dist : π → κ → β) (histOf : π → Hist)
    (points : List π) (kmeans : List κ) : Option (List Hist) :=
  match neighbors cmp dist kmeans points with
  | none => none
  | some ns => absorbAll (List.replicate k Hist.empty) ((points.map histOf).zip (ns.map Prod.fst))

/-- `Layer::lookup` (Flop/Turn branch): i-th isomorphism ↦ `abstraction(neighbor of i-th point)`;
    the `zip` stops at the shorter side -/
def lookup (street : Nat) (cmp : β → β → Option Ordering) (dist : π → κ → β)
    (points : List π) (kmeans : List κ) (isos : List ι) : Option (List (ι × Nat)) :=
  match neighbors cmp dist kmeans points with
  | none => none
  | some ns => some (isos.zip (ns.map fun r => absCode street r.1))

/-- `Lookup::projections` : the points of a layer are the futures (histograms of next-street buckets)
    of the isomorphism classes, IN the order of `IsomorphismIterator` — the order `lookup` zips against.
    (`into_par_iter().map().collect()` on a `Vec` preserves positions.) -/
def projections (future : ι → Hist) (isos : List ι) : List Hist := isos.map future

/-- `Layer::init` on the preflop street: no clustering — the centroids ARE the points, in point order -/
def initPref (points : List Hist) : List Hist := points

/-- `Lookup::grow(Street::Pref)` (what `Layer::lookup` delegates to on preflop): the `k`-th class of the
    iterator is labelled `abstraction(Pref, k)` -/
def lookupPref (isos : List ι) : List (ι × Nat) := isos.zip ((List.range isos.length).map (absCode 0))

/-- `Layer::decomp` : bucket `abstraction(street, k)` ↦ the `k`-th centroid -/
def decompFrom (street : Nat) : Nat → List Hist → List (Nat × Hist)
  | _, [] => []
  | k, c :: cs => (absCode street k, c) :: decompFrom street (k + 1) cs
def decomp (street : Nat) (kmeans : List Hist) : List (Nat × Hist) := decompFrom street 0 kmeans

/-! ## derived metric -/
section
variable {α : Type} [Arith α]

/-- `BTreeMap::insert` on a key-sorted entry list (overwrites an equal key) -/
def mapInsert (k : Nat) (v : α) : List (Nat × α) → List (Nat × α)
  | [] => [(k, v)]
  | (k', v') :: rest =>
    if k = k' then (k, v) :: rest
    else if k < k' then (k, v) :: (k', v') :: rest
    else (k', v') :: mapInsert k v rest

/-- the value `Layer::metric` stores for the pair `(x, y)` -/
def symDist (emd : κ → κ → α) (x y : κ) : α :=
  Arith.div (Arith.add (emd x y) (emd y x)) (Arith.ofNat RP.Gen.C12.layerMetricHalf)

/-- the inner loop over `j` with `i > j`, for the `i`-th centroid `x` -/
def metricRow (street : Nat) (emd : κ → κ → α) (i : Nat) (x : κ) :
    Nat → List κ → List (Nat × α) → List (Nat × α)
  | _, [], acc => acc
  | j, y :: ys, acc =>
    metricRow street emd i x (j + 1) ys
      (if i > j then mapInsert (pairKey (absCode street i) (absCode street j)) (symDist emd x y) acc else acc)

/-- the outer loop over `i` -/
def metricRows (street : Nat) (emd : κ → κ → α) (all : List κ) : Nat → List κ → List (Nat × α) → List (Nat × α)
  | _, [], acc => acc
  | i, x :: xs, acc => metricRows street emd all (i + 1) xs (metricRow street emd i x 0 all acc)

/-- the map `Layer::metric` builds before normalisation -/
def metricRaw (street : Nat) (emd : κ → κ → α) (kmeans : List κ) : List (Nat × α) :=
  metricRows street emd kmeans 0 kmeans []

/-- `Layer::metric` -/
def metric (street : Nat) (emd : κ → κ → α) (kmeans : List κ) : Metric α :=
  Metric.normalize (metricRaw street emd kmeans)

end
end RP.Kmeans
