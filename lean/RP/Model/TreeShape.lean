import RP.Model.Game
import RP.Model.Codec
/-! # Model of tree sampling (C10): `Game::choices/raises/actionize` (game.rs bottom),
`Node::history/subgame/recall/choices/realize/branches` (node.rs), `Tree::plant/fork` (tree.rs),
`Blueprint::tree/sample` (blueprint.rs), `Profile::witness/explore_*` (profile.rs).

A sampled tree is dumped verbatim: node records in insertion order
`{parent, incoming edge, game state, bucket = (history path, abstraction, menu path), payoffs}`.
`acceptTree` re-derives for every node everything the property (C10) says about it from the
game model `RP.Game` and the codecs `RP.Codec`, and compares.

Floating point: `actionize` computes `(pot as f32 * (num as f32 / den as f32)) as Chips`. For the
grid odds and pots up to `2·STACK` this equals `⌊pot·num/den⌋` (checked exhaustively by the C10
harness on the Rust expression, and on every child state of every dumped tree); the model uses the
integer formula. -/
namespace RP.TreeShape
open RP.Game (Game Action Turn)
open RP.Codec (Edge)

/-! ## edges -/
instance : Inhabited Edge := ⟨.draw⟩
def isChance : Edge → Bool | .draw => true | _ => false
def isChoice (e : Edge) : Bool := !isChance e
def isRaise : Edge → Bool | .raise _ _ => true | _ => false
def isShove : Edge → Bool | .shove => true | _ => false
def isAggro (e : Edge) : Bool := isRaise e || isShove e

/-- `Edge::from(Action)`; `Raise` is expanded by `expand`, `Blind` panics (`none`) -/
def edgeOfAction : Action → Option Edge
  | .fold => some .fold | .check => some .check | .call _ => some .call
  | .draw _ => some .draw | .shove _ => some .shove | .raise _ => none | .blind _ => none

/-! ## `Game::raises / expand / choices / actionize` -/

def oddsList (l : List (Nat × Nat)) : List Edge := l.map (fun o => Edge.raise (o.1 : Int) (o.2 : Int))

/-- `fn raises(&self, n)` -/
def raises (g : Game) (n : Nat) : List Edge :=
  if n > RP.Gen.MAX_RAISE_REPEATS then []
  else match RP.Game.street g with
    | 0 => oddsList RP.Gen.PREF_RAISES
    | 1 => oddsList RP.Gen.FLOP_RAISES
    | _ => if n = 0 then oddsList RP.Gen.LATE_RAISES else oddsList RP.Gen.LAST_RAISES

/-- `fn expand(&self, action, n)` (`Blind` would panic in `Edge::from`: no edge) -/
def expand (g : Game) (n : Nat) (a : Action) : List Edge :=
  match a with
  | .raise _ => raises g n
  | a => (edgeOfAction a).toList

/-- `fn choices(&self, n)`: `legal()` expanded, in `legal`'s push order -/
def choices (g : Game) (n : Nat) : List Edge := (RP.Game.legal g).flatMap (expand g n)

/-- `fn actionize(&self, edge)`; `deal` stands for the random `self.draw()` -/
def actionize (g : Game) (deal : Nat) : Edge → Action
  | .check => .check
  | .fold => .fold
  | .draw => .draw deal
  | .call => .call (RP.Game.toCall g)
  | .shove => .shove (RP.Game.toShove g)
  | .raise n d =>
    let min := RP.Game.toRaise g
    let max := RP.Game.toShove g
    let bet := (g.pot * n) / d
    if bet ≥ max then .shove max else if bet ≤ min then .raise min else .raise bet

/-! ## history windows (`node.rs`) -/

/-- `Node::subgame`: the choice edges since the last chance edge (at most 16), newest first -/
def subgame (history : List Edge) : List Edge :=
  (history.reverse.takeWhile isChoice).take RP.Gen.MAX_DEPTH_SUBGAME

/-- `Node::recall`: the first 16 edges of the history -/
def recall (history : List Edge) : List Edge := history.take RP.Gen.MAX_DEPTH_SUBGAME

/-- number of aggressive edges in the current betting round's window -/
def nAggro (history : List Edge) : Nat := (subgame history).countP isAggro

/-- `Node::choices`: the menu -/
def menu (g : Game) (history : List Edge) : List Edge := choices g (nAggro history)

/-- all edges of the current betting round (no window), used for the raise cap -/
def roundEdges (history : List Edge) : List Edge := history.reverse.takeWhile isChoice

/-! ## dumped trees -/

structure DNode where
  parent : Option Nat
  edge : Edge              -- incoming edge (`draw` placeholder at the root)
  game : Game
  hist : Nat               -- bucket.0 : Path(u64)
  abs : Nat                -- bucket.1 : Abstraction(u64)
  menu : Nat               -- bucket.2 : Path(u64)
  pay0 : Int               -- settlements()[0].pnl() at childless nodes
  pay1 : Int
  deriving Repr, Inhabited

structure DTree where
  walker : Nat
  nodes : Array DNode

namespace DTree
def size (t : DTree) : Nat := t.nodes.size
def node (t : DTree) (i : Nat) : DNode := t.nodes[i]?.getD default
def parent (t : DTree) (i : Nat) : Option Nat := (t.nodes[i]?).bind (·.parent)
def game (t : DTree) (i : Nat) : Game := (t.node i).game
def edge (t : DTree) (i : Nat) : Edge := (t.node i).edge

/-- `Node::children` (indices, ascending) -/
def kids (t : DTree) (i : Nat) : List Nat :=
  (List.range t.size).filter (fun j => t.parent j == some i)

def kidEdges (t : DTree) (i : Nat) : List Edge := (t.kids i).map t.edge

/-- `Node::history`: edges from the root to the node -/
def historyAux (t : DTree) : Nat → Nat → List Edge
  | 0, _ => []
  | f+1, i => match t.parent i with
    | some p => historyAux t f p ++ [t.edge i]
    | none => []
def history (t : DTree) (i : Nat) : List Edge := historyAux t (i+1) i

/-- what `Encoder::abstraction` looks at: `game.sweat()` = (actor's hole, board) -/
def sweat (t : DTree) (i : Nat) : Nat × Nat := ((RP.Game.actor (t.game i)).hole, (t.game i).board)

/-- the node's menu recomputed from the model -/
def menuOf (t : DTree) (i : Nat) : List Edge := menu (t.game i) (t.history i)
end DTree

/-! ## the acceptor -/
open DTree

/-- the action that leads from the parent's state to the child's along `edge` -/
def actionAlong (gp g : Game) (e : Edge) : Action :=
  actionize gp (g.board ^^^ gp.board) e

/-- root: `Game::root()` for its own hole cards; child: the parent state after the permitted
    action the incoming edge stands for, and the edge is on the parent's menu. -/
def linkOk (t : DTree) (i : Nat) : Bool :=
  match t.parent i with
  | none => i == 0 && t.game i == RP.Game.root (t.game i).s0.hole (t.game i).s1.hole
  | some p =>
    decide (p < i) &&
    RP.Game.step? (t.game p) (actionAlong (t.game p) (t.game i) (t.edge i)) == some (t.game i) &&
    (t.menuOf p).contains (t.edge i)

/-- `Node::realize`: bucket = (encode (recall history), abstraction, encode menu); the stored
    words also decode back to those lists (so equal words mean equal lists) -/
def bucketOk (t : DTree) (i : Nat) : Bool :=
  RP.Codec.pathOfEdges (recall (t.history i)) == some (t.node i).hist &&
  RP.Codec.pathOfEdges (t.menuOf i) == some (t.node i).menu &&
  RP.Codec.pathToEdges (t.node i).hist == some (recall (t.history i)) &&
  RP.Codec.pathToEdges (t.node i).menu == some (t.menuOf i)

/-- children by turn: traverser → exactly the menu, each action once; opponent / chance →
    exactly one child; terminal → none -/
def kidsOk (t : DTree) (i : Nat) : Bool :=
  match RP.Game.turn (t.game i) with
  | .terminal => t.kids i == []
  | .chance => (t.kids i).length == 1
  | .choice x =>
    if x = t.walker then
      (t.menuOf i).all (fun e => (t.kidEdges i).count e == 1) &&
      (t.kidEdges i).all (fun e => (t.menuOf i).contains e)
    else (t.kids i).length == 1

/-- a childless node is a finished hand whose two payoffs sum to zero -/
def leafOk (t : DTree) (i : Nat) : Bool :=
  t.kids i != [] ||
    (RP.Game.mustStop (t.game i) && (t.node i).pay0 + (t.node i).pay1 == 0)

/-- at most `MAX_RAISE_REPEATS + 1` raise edges in the current betting round -/
def capOk (t : DTree) (i : Nat) : Bool :=
  decide ((roundEdges (t.history i)).countP isRaise ≤ RP.Gen.MAX_RAISE_REPEATS + 1)

def acceptNode (t : DTree) (i : Nat) : Bool :=
  linkOk t i && bucketOk t i && kidsOk t i && leafOk t i && capOk t i

/-- the card abstraction is a function of (actor's hole, board) -/
def absOk (t : DTree) : Bool :=
  (List.range t.size).all fun i => (List.range i).all fun j =>
    t.sweat i != t.sweat j || (t.node i).abs == (t.node j).abs

def acceptTree (t : DTree) : Bool :=
  decide (0 < t.size) && decide (t.walker < 2) && (List.range t.size).all (acceptNode t) && absOk t

/-- names of the clauses a node fails (driver diagnostics) -/
def failures (t : DTree) (i : Nat) : List String :=
  (if linkOk t i then [] else ["link"]) ++ (if bucketOk t i then [] else ["bucket"]) ++
  (if kidsOk t i then [] else ["kids"]) ++ (if leafOk t i then [] else ["leaf"]) ++
  (if capOk t i then [] else ["cap"])

/-! ## the model's own builder (`Blueprint::tree`) -/

/-- the randomness of one run: which option is taken at the `k`-th sampled node out of `n`
    (`explore_any` / `explore_one`), and which cards a chance node deals -/
structure Oracle where
  pick : Nat → Nat → Nat
  deal : Game → Nat
  abs : Nat × Nat → Nat      -- `Encoder::abstraction` as a function of `sweat`

/-- `Branch(Data, Edge, NodeIndex)` -/
structure Branch where
  game : Game
  edge : Edge
  parent : Nat

def DTree.push (t : DTree) (n : DNode) : DTree := ⟨t.walker, t.nodes.push n⟩

/-- `Tree::plant` / `Tree::fork`: append the node, then `realize` its bucket -/
def attach (o : Oracle) (t : DTree) (parent : Option Nat) (e : Edge) (g : Game) : Option DTree :=
  let i := t.size
  let t' := t.push ⟨parent, e, g, 0, 0, 0, 0, 0⟩
  match RP.Codec.pathOfEdges (recall (t'.history i)), RP.Codec.pathOfEdges (t'.menuOf i) with
  | some h, some m => some (t.push ⟨parent, e, g, h, o.abs (t'.sweat i), m, 0, 0⟩)
  | _, _ => none

/-- the branch along one menu edge: `(edge, game.apply(game.actionize(edge)))`; `none` = the
    assertion in `apply` fails -/
def branchOf (o : Oracle) (g : Game) (i : Nat) (e : Edge) : Option Branch :=
  (RP.Game.step? g (actionize g (o.deal g) e)).map fun g' => ({ game := g', edge := e, parent := i } : Branch)

/-- all-or-nothing map (a panic in any branch aborts the run) -/
def allSome {α β : Type} (f : α → Option β) : List α → Option (List β)
  | [] => some []
  | a :: as => match f a, allSome f as with
    | some b, some bs => some (b :: bs)
    | _, _ => none

/-- `Node::branches`: every menu edge with the state it leads to (`apply` asserts `is_allowed`) -/
def branches (o : Oracle) (t : DTree) (i : Nat) : Option (List Branch) :=
  allSome (branchOf o (t.game i) i) (t.menuOf i)

/-- `Blueprint::sample`: all branches at the traverser, one elsewhere -/
def sample (o : Oracle) (t : DTree) (i : Nat) : Option (List Branch) :=
  match branches o t i with
  | none => none
  | some [] => some []
  | some bs =>
    match RP.Game.turn (t.game i) with
    | .choice x => if x = t.walker then some bs else some ((bs[o.pick i bs.length % bs.length]?).toList)
    | _ => some ((bs[o.pick i bs.length % bs.length]?).toList)

/-- one turn of the `while let Some(branch) = todo.pop()` loop: `fork` the popped branch, `sample`
    its children, push them (`none`: empty work list, or an assertion of the Rust code fails) -/
def growStep (o : Oracle) (t : DTree) (todo : List Branch) : Option (DTree × List Branch) :=
  match todo.getLast? with
  | none => none
  | some b =>
    match attach o t (some b.parent) b.edge b.game with
    | none => none
    | some t' =>
      match sample o t' t.size with
      | none => none
      | some kids => some (t', todo.dropLast ++ kids)

/-- the loop with fuel (`none` when the fuel runs out with work left, or a step fails) -/
def grow (o : Oracle) : Nat → DTree → List Branch → Option DTree
  | 0, t, todo => if todo.isEmpty then some t else none
  | f+1, t, todo =>
    if todo.isEmpty then some t else
    match growStep o t todo with
    | none => none
    | some s => grow o f s.1 s.2

/-- `Blueprint::tree` for the deal `(h0, h1)`; payoffs are filled in by `settle` -/
def build (o : Oracle) (walker h0 h1 fuel : Nat) : Option DTree :=
  match attach o (⟨walker, #[]⟩ : DTree) none .draw (RP.Game.root h0 h1) with
  | none => none
  | some t =>
    match sample o t 0 with
    | none => none
    | some kids => grow o fuel t kids

/-! ## `Profile::witness` and the weighted choice of `explore_one` -/

/-- `Profile::witness` on the strategy table (bucket ↦ edge ↦ (regret, policy)): a bucket met for
    the first time gets regret 0 and policy `1/n` on each of the `n` children's edges; a known
    bucket is left alone. -/
def witness {α : Type} [Zero α] [One α] [Div α] [NatCast α]
    (profile : List (Nat × List (Edge × α × α))) (bucket : Nat) (edges : List Edge) :
    List (Nat × List (Edge × α × α)) :=
  match profile.lookup bucket with
  | some _ => profile
  | none => (bucket, edges.map (fun e => (e, (0 : α), (1 : α) / (edges.length : α)))) :: profile

/-- inverse-CDF selection (`WeightedIndex::sample`: `partition_point(|c| c <= x)` over the
    cumulative weights): the first index whose cumulative weight exceeds the draw `x ∈ [0, Σw)` -/
def pickIndexAux {α : Type} [Add α] [LT α] [DecidableLT α] : α → List α → α → Nat
  | _, [], _ => 0
  | acc, w :: ws, x => if x < acc + w then 0 else pickIndexAux (acc + w) ws x + 1

def pickIndex {α : Type} [Zero α] [Add α] [LT α] [DecidableLT α] (ws : List α) (x : α) : Nat :=
  pickIndexAux 0 ws x

end RP.TreeShape
