import RP.Model.Equity
import RP.Model.Eval
import RP.Model.Hands
/-! `Observation::equity` / river bucket / turn histogram with the concrete models plugged in:
villain holdings from the hand-iterator model (`RP.Hands.hands`, C06), strengths from the
evaluator model (`RP.Eval.strengthKey`, C01).  These are the functions the C07 driver runs and
the functions `RP/Props/C07Inst.lean` is about.  Core Lean only (linked into the driver). -/
namespace RP.Equity

/-- `N` of `Abstraction::quantize`: number of river equity buckets − 1 -/
def nBuckets : Nat := RP.Gen.KMEANS_EQTY_CLUSTER_COUNT - 1

/-- (wins, total) of a river observation: `HandIterator::from((2, pocket ∪ board))`, each holding
    added to the board and evaluated, compared with the hero's seven cards -/
def riverCounts (cfg : RP.Eval.Cfg) (short : Bool) (pocket board : Nat) : Nat × Nat :=
  let seen := pocket ||| board
  let hero := RP.Eval.strengthKey cfg seen
  let villains := (RP.Hands.hands short 2 seen).map (fun v => RP.Eval.strengthKey cfg (board ||| v))
  counts hero villains

/-- the reported `f32` equity of a river observation -/
def riverEquity (cfg : RP.Eval.Cfg) (short : Bool) (pocket board : Nat) : Float32 :=
  equityF32 (riverCounts cfg short pocket board)

/-- the river bucket index -/
def riverBucket (cfg : RP.Eval.Cfg) (short : Bool) (pocket board : Nat) : Nat :=
  quantize nBuckets (riverEquity cfg short pocket board)

/-- histogram of the river buckets of the children of a turn observation; `none` = the Rust panics -/
def turnHistogram (cfg : RP.Eval.Cfg) (short : Bool) (pocket board : Nat) : Option (List (Nat × Nat)) :=
  (RP.Hands.children short pocket board).map fun kids =>
    histogram nBuckets (kids.map (fun o => riverBucket cfg short o.1 o.2))

end RP.Equity
