/-! Model of `Observation::equity` (src/cards/observation.rs) and of the river bucket
(`Abstraction::from(Probability)`), parametric in the strength key and the villain list so that it
composes with the evaluator model (C01) and the hand-iterator model (C06).

```rust
let (won, sum) = HandIterator::from((2, hand)).map(|v| Hand::add(self.public, v)).map(Strength::from)
    .map(|v| hero.cmp(&v)).filter(|&o| o != Equal)
    .fold((0u32,0u32), |(wins,total), ord| match ord { Greater => (wins+1,total+1), Less => (wins,total+1), .. });
match sum { 0 => 0.5, _ => won as f32 / sum as f32 }
``` -/
namespace RP.Equity

/-- the fold over villain strength keys: (wins, wins+losses) -/
def counts (hero : Nat) (villains : List Nat) : Nat × Nat :=
  villains.foldl (fun (acc : Nat × Nat) v =>
    if v < hero then (acc.1 + 1, acc.2 + 1)
    else if hero < v then (acc.1, acc.2 + 1)
    else acc) (0, 0)

/-- the reported equity as an IEEE binary32 value -/
def equityF32 (c : Nat × Nat) : Float32 :=
  if c.2 = 0 then Float32.ofBits 0x3F000000 else Float32.ofNat c.1 / Float32.ofNat c.2

/-- `f32::round` for a non-negative value below 2^31 (round half away from zero) -/
def roundF32 (x : Float32) : Nat :=
  let f := x.toUInt32
  let d := x - Float32.ofNat f.toNat
  if d >= Float32.ofBits 0x3F000000 then f.toNat + 1 else f.toNat

/-- `Abstraction::quantize`: `(p * N as f32).round() as usize` with `N` = number of river buckets − 1 -/
def quantize (n : Nat) (p : Float32) : Nat := roundF32 (p * Float32.ofNat n)

/-- equity bucket index of an observation given its villain keys -/
def bucket (n : Nat) (hero : Nat) (villains : List Nat) : Nat :=
  quantize n (equityF32 (counts hero villains))

/-- histogram of a list of bucket indices as sorted (index, count) pairs over `0..=n` -/
def histogram (n : Nat) (buckets : List Nat) : List (Nat × Nat) :=
  ((List.range (n + 1)).map (fun i => (i, (buckets.filter (· == i)).length))).filter (fun p => p.2 ≠ 0)

end RP.Equity
