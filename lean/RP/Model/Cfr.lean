/-! # Model of the regret estimator of `src/mccfr/profile.rs` (C08)

The sampled tree is modelled the way the code stores it (`petgraph::DiGraph<Data, Edge>`):
a flat array of node records in insertion order — the parent is inserted before the child,
so `parent < index` — together with the adjacency table the graph keeps (`kids`, in the
order `neighbors_directed(Outgoing)` iterates: most recently added child first).

Every function below mirrors one Rust function of `profile.rs` / `node.rs` *as fixed by
commit d6f8047*; the pre-fix versions are kept in `namespace Pinned`.  The arithmetic is
polymorphic (`+ - * / 0 1`, `max`/`min` for the clamp): theorems instantiate it with an
arbitrary field, the driver with exact rationals built from the dumped `f32` values.
`σ bucket edge` is `Profile::weight` (normalised accumulated policy), a parameter.

Recursion up the parent chain / down the children uses fuel (`index+1` resp. `size`), which
is enough for well-formed trees (`Props/C08.lean`: fuel irrelevance lemmas). -/
namespace RP.Cfr

/-- `Player` of a node relative to the traverser (`Profile::walker`). -/
inductive Player where
  | walker | opponent | chance | terminal
  deriving DecidableEq, Repr, Inhabited

/-- one node record: `Data` + the incoming edge + the walker's payoff (`Node::payoff`, only
    meaningful at childless nodes). Edges are numeric codes (`u8::from(Edge)`), buckets are
    small ids assigned by the dump. -/
structure Node (α : Type) where
  parent : Option Nat
  incoming : Nat
  player : Player
  bucket : Nat
  payoff : α
  deriving Repr, Inhabited

/-- the sampled tree: node records in insertion order + adjacency lists. -/
structure Tree (α : Type) where
  nodes : Array (Node α)
  kidsTab : Array (List Nat)

variable {α : Type}

namespace Tree
def size (t : Tree α) : Nat := t.nodes.size
/-- `Node::parent` -/
def parent (t : Tree α) (i : Nat) : Option Nat := (t.nodes[i]?).bind (·.parent)
/-- `Node::incoming` (edge code; 0 when there is none) -/
def incoming (t : Tree α) (i : Nat) : Nat := ((t.nodes[i]?).map (·.incoming)).getD 0
/-- `Node::player` seen from the walker -/
def player (t : Tree α) (i : Nat) : Player := ((t.nodes[i]?).map (·.player)).getD .terminal
/-- `Node::bucket` -/
def bucket (t : Tree α) (i : Nat) : Nat := ((t.nodes[i]?).map (·.bucket)).getD 0
/-- `Node::children` (indices) -/
def kids (t : Tree α) (i : Nat) : List Nat := (t.kidsTab[i]?).getD []

/-- the adjacency table the graph must hold for these node records (`ofNodes` builds it) -/
def kidsSpec (t : Tree α) (i : Nat) : List Nat :=
  (List.range t.size).reverse.filter (fun j => t.parent j == some i)

/-- executable well-formedness (linear time): parents precede children; every listed child
    has the listing node as its parent; the table has one row per node. -/
def wfb (t : Tree α) : Bool :=
  (List.range t.size).all (fun i => match t.parent i with | some p => decide (p < i) | none => true)
  && t.kidsTab.size == t.size
  && (List.range t.size).all (fun i => (t.kids i).all (fun j => t.parent j == some i))

/-- executable external-sampling shape: a node that is not the walker's has at most one child -/
def externalShapeB (t : Tree α) : Bool :=
  (List.range t.size).all (fun n => t.player n == .walker || decide ((t.kids n).length ≤ 1))

/-- build the tree (adjacency table) from node records, as `Tree::fork` does edge by edge. -/
def ofNodes (ns : Array (Node α)) : Tree α :=
  let tab := (List.range ns.size).foldl
    (fun (tab : Array (List Nat)) j =>
      match (ns[j]?).bind (·.parent) with
      | some p => tab.modify p (fun l => j :: l)
      | none => tab)
    (Array.replicate ns.size [])
  { nodes := ns, kidsTab := tab }

/-- the same tree with every payoff replaced (used for the shift-invariance statement) -/
def mapPayoff {β : Type} (f : α → β) (t : Tree α) : Tree β :=
  { nodes := t.nodes.map (fun nd => { nd with payoff := f nd.payoff }), kidsTab := t.kidsTab }
end Tree

/-- `Node::payoff(walker)` -/
def Tree.payoff [Zero α] (t : Tree α) (i : Nat) : α := ((t.nodes[i]?).map (·.payoff)).getD 0

/-! ## navigation (`node.rs`) -/

/-- `Node::leaves`: the node itself when childless, else the leaves of the children. -/
def leavesAux (t : Tree α) : Nat → Nat → List Nat
  | 0, n => [n]
  | f+1, n => if t.kids n = [] then [n] else (t.kids n).flatMap (leavesAux t f)

def leaves (t : Tree α) (n : Nat) : List Nat := leavesAux t t.size n

/-- `Node::follow`: the child reached by `edge`. -/
def follow (t : Tree α) (head edge : Nat) : Option Nat :=
  (t.kids head).find? (fun c => t.incoming c == edge)

/-- `Node::outgoing` -/
def outgoing (t : Tree α) (n : Nat) : List Nat := (t.kids n).map t.incoming

/-! ## reach (`profile.rs`) -/
section arith
variable [Zero α] [One α] [Add α] [Sub α] [Mul α] [Div α]

/-- `Profile::reach`: 1 at chance, else the profile's weight of the edge at the head's bucket. -/
def reach (t : Tree α) (σ : Nat → Nat → α) (head edge : Nat) : α :=
  if t.player head = .chance then 1 else σ (t.bucket head) edge

/-- `Profile::external_reach`: product over the path from the root of the reach of every edge
    whose parent is *not* the walker. -/
def externalReachAux (t : Tree α) (σ : Nat → Nat → α) : Nat → Nat → α
  | 0, _ => 1
  | f+1, n =>
    match t.parent n with
    | some p =>
      if t.player p = .walker then externalReachAux t σ f p
      else externalReachAux t σ f p * reach t σ p (t.incoming n)
    | none => 1

def externalReach (t : Tree α) (σ : Nat → Nat → α) (n : Nat) : α := externalReachAux t σ (n+1) n

/-- `Profile::profiled_reach`: product of the reach of every edge from the root. -/
def profiledReachAux (t : Tree α) (σ : Nat → Nat → α) : Nat → Nat → α
  | 0, _ => 1
  | f+1, n =>
    match t.parent n with
    | some p => profiledReachAux t σ f p * reach t σ p (t.incoming n)
    | none => 1

def profiledReach (t : Tree α) (σ : Nat → Nat → α) (n : Nat) : α := profiledReachAux t σ (n+1) n

/-- `Profile::relative_reach` (fixed code: stops when the *node index* equals the root's).
    The Rust `unreachable!` branch (leaf not below root) is totalised as 1. -/
def relativeReachAux (t : Tree α) (σ : Nat → Nat → α) (root : Nat) : Nat → Nat → α
  | 0, _ => 1
  | f+1, leaf =>
    if root = leaf then 1
    else match t.parent leaf with
      | some p => relativeReachAux t σ root f p * reach t σ p (t.incoming leaf)
      | none => 1

def relativeReach (t : Tree α) (σ : Nat → Nat → α) (root leaf : Nat) : α :=
  relativeReachAux t σ root (leaf+1) leaf

/-! ## utilities (`profile.rs`) -/

/-- `Profile::terminal_value`: `reward * probability / conditional`. -/
def terminalValue (t : Tree α) (σ : Nat → Nat → α) (head leaf : Nat) : α :=
  t.payoff leaf * relativeReach t σ head leaf / externalReach t σ leaf

/-- `Profile::expected_value` (fixed: scaled by `external_reach(head)`). -/
def expectedValue (t : Tree α) (σ : Nat → Nat → α) (head : Nat) : α :=
  externalReach t σ head * List.sum ((leaves t head).map (terminalValue t σ head))

/-- `Profile::cfactual_value` (fixed: terminal values are taken from the child `tail`).
    A missing edge is `expect("valid edge to follow")` in Rust; totalised as 0 here, the driver
    reports `panic` for it. -/
def cfactualValue (t : Tree α) (σ : Nat → Nat → α) (head edge : Nat) : α :=
  match follow t head edge with
  | some tail => externalReach t σ head * List.sum ((leaves t tail).map (terminalValue t σ tail))
  | none => 0

/-- `Profile::gain` -/
def gain (t : Tree α) (σ : Nat → Nat → α) (head edge : Nat) : α :=
  cfactualValue t σ head edge - expectedValue t σ head

/-- `Profile::immediate_regret`: sum of the gains over the information set's nodes. -/
def immediateRegret (t : Tree α) (σ : Nat → Nat → α) (roots : List Nat) (edge : Nat) : α :=
  List.sum (roots.map (fun head => gain t σ head edge))

/-- `Profile::regret_vector`: one entry per outgoing edge of the first node of the set, clamped
    `.max(REGRET_MIN).min(REGRET_MAX)`. -/
def regretVector [Max α] [Min α] (t : Tree α) (σ : Nat → Nat → α) (lo hi : α) (roots : List Nat) :
    List (Nat × α) :=
  match roots with
  | [] => []
  | h :: _ => (outgoing t h).map (fun a => (a, min (max (immediateRegret t σ roots a) lo) hi))

/-- the Rust code panics (`expect("valid edge to follow")`) unless every node of the set has
    every edge of the first node. -/
def regretVectorDefined (t : Tree α) (roots : List Nat) : Bool :=
  match roots with
  | [] => false
  | h :: _ => roots.all (fun r => (outgoing t h).all (fun a => (follow t r a).isSome))

/-! ## the estimator as pinned before commit d6f8047 -/
namespace Pinned

/-- pre-fix `relative_reach`: stops at the first ancestor sharing the root's *bucket*. -/
def relativeReachAux (t : Tree α) (σ : Nat → Nat → α) (root : Nat) : Nat → Nat → α
  | 0, _ => 1
  | f+1, leaf =>
    if t.bucket root = t.bucket leaf then 1
    else match t.parent leaf with
      | some p => relativeReachAux t σ root f p * reach t σ p (t.incoming leaf)
      | none => 1

def relativeReach (t : Tree α) (σ : Nat → Nat → α) (root leaf : Nat) : α :=
  relativeReachAux t σ root (leaf+1) leaf

def terminalValue (t : Tree α) (σ : Nat → Nat → α) (head leaf : Nat) : α :=
  t.payoff leaf * relativeReach t σ head leaf / externalReach t σ leaf

/-- pre-fix `expected_value`: scaled by `profiled_reach(head)`. -/
def expectedValue (t : Tree α) (σ : Nat → Nat → α) (head : Nat) : α :=
  profiledReach t σ head * List.sum ((leaves t head).map (terminalValue t σ head))

/-- pre-fix `cfactual_value`: relative reach measured from `head`, so it contains `σ(head, edge)`. -/
def cfactualValue (t : Tree α) (σ : Nat → Nat → α) (head edge : Nat) : α :=
  match follow t head edge with
  | some tail => externalReach t σ head * List.sum ((leaves t tail).map (terminalValue t σ head))
  | none => 0

def gain (t : Tree α) (σ : Nat → Nat → α) (head edge : Nat) : α :=
  cfactualValue t σ head edge - expectedValue t σ head

def immediateRegret (t : Tree α) (σ : Nat → Nat → α) (roots : List Nat) (edge : Nat) : α :=
  List.sum (roots.map (fun head => gain t σ head edge))

end Pinned
end arith

end RP.Cfr
