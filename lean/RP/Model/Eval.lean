import RP.Gen.Consts
import RP.Gen.C01
import RP.Model.Bits
/-! # Model of the hand evaluator (`src/cards/{evaluator,ranking,kicks,strength,hand,rank,suit}.rs`)

`strength cfg bits` mirrors `Strength::from(Hand::from(bits))` for the deck configuration `cfg`
(`std` = default build, `short` = `--features shortdeck`):

* `Hand::from(u64)` masks with `Hand::mask()`                        → `handOf`
* `u16::from(Hand)` (nibble-OR shredding)                             → `shred`      (constants from `RP.Gen`)
* `find_suit_of_flush` (first suit with ≥ 5 cards)                    → `flushOf`    (`suitMasks`, `flushThreshold`)
* `find_rank_of_n_oak_skip` (nibble window walking down from the Ace) → `nOakSkip`   on the per-rank counts
* `find_rank_of_straight` (4 × `bits &= bits << 1`, wheel)            → `findStraight` (`straightShifts`, `wheel*`, `lowStraight*`)
* `find_ranking` (lazy search, order = `RP.Gen.findOrder`)            → `findRanking?`
* `find_kickers` / `n_kickers`                                        → `findKickers?` (`nKickers`)
* `find_kickers_of_flush` (the four flush cards below the top one)    → `flushKickers?` (`RP.Gen.C01`)
* `Strength::from(Evaluator)`: kickers of `Flush(hi)` from the latter → `evalA?`
* derived `Ord` of `Strength {value: Ranking, kicks: Kickers}`        → `strengthKey` (variant index from the generated
  enum order `rankingOrder*`, then the rank fields, then the kicker mask as a number)

The evaluator reads a hand only through (a) the number of cards of every rank, (b) the rank
mask, (c) the rank mask of the first suit holding ≥ 5 cards.  The model is therefore written as
`evalA cfg (α h)`, `α h = (count vector, rank mask, flush rank mask)`; the count vector is a `Nat`
with one octal digit per rank.  Everything is structurally recursive, hence kernel-reducible. -/
namespace RP.Eval
open RP.Bits

inductive Cfg where
  | std | short
  deriving DecidableEq, Repr

def handMask : Cfg → Nat
  | .std => RP.Gen.handMaskStd
  | .short => RP.Gen.handMaskShort
def wheel : Cfg → Nat
  | .std => RP.Gen.wheelStd
  | .short => RP.Gen.wheelShort
def lowStraight : Cfg → Nat
  | .std => RP.Gen.lowStraightStd
  | .short => RP.Gen.lowStraightShort
def rankingOrder : Cfg → List Nat
  | .std => RP.Gen.rankingOrderStd
  | .short => RP.Gen.rankingOrderShort

/-- canonical category numbers (the order of the extractor's table header) -/
abbrev cHighCard : Nat := 0
abbrev cOnePair : Nat := 1
abbrev cTwoPair : Nat := 2
abbrev cThreeOAK : Nat := 3
abbrev cStraight : Nat := 4
abbrev cFullHouse : Nat := 5
abbrev cFlush : Nat := 6
abbrev cFourOAK : Nat := 7
abbrev cStraightFlush : Nat := 8

/-- `Hand::from(u64)`: `n & Hand::mask()` -/
def handOf (cfg : Cfg) (bits : Nat) : Nat := bits &&& handMask cfg

/-- `u16::from(Hand)`: `x |= x>>1; x |= x>>2; x &= 0x1111…; y |= (x >> 3r) & (1<<r)` -/
def shred (h : Nat) : Nat :=
  let x := RP.Gen.shredPre.foldl (fun x s => x ||| (x >>> s)) h
  let x := x &&& RP.Gen.shredMask
  (RP.Gen.shredSteps.foldl (fun y sm => y ||| ((x >>> sm.1) &&& sm.2)) 0) % 2^16

/-- highest set bit below `w` (`Rank::from(u16)`: `16 - 1 - leading_zeros`) -/
def msbW : Nat → Nat → Nat
  | 0, _ => 0
  | w+1, n => if n.testBit w then w else msbW w n

/-- `Rank::from(u16)` -/
def rankOfMask (n : Nat) : Nat := msbW 16 (n &&& RP.Gen.rankMask)

/-- per-rank card counts as octal digits: digit `r` = `(hand & (0xF << 4r)).count_ones()` -/
def cvW : Nat → Nat → Nat
  | 0, _ => 0
  | w+1, h => popW 4 (h % 16) + 8 * cvW w (h / 16)

def digit (cv r : Nat) : Nat := (cv >>> (3 * r)) &&& 7

/-- `find_suit_of_flush` + `u16::from(self.0.of(&suit))`: rank mask of the first suit with ≥ 5 cards -/
def flushIn (h : Nat) : List Nat → Option Nat
  | [] => none
  | m :: ms => if RP.Gen.flushThreshold ≤ popW 64 (h &&& m) then some (shred (h &&& m)) else flushIn h ms

def flushOf (h : Nat) : Option Nat := flushIn h RP.Gen.suitMasks

/-- what the evaluator reads from a hand -/
structure Cls where
  cv : Nat          -- count vector, octal digit per rank
  rk : Nat          -- rank mask `u16::from(hand)`
  fl : Option Nat   -- rank mask of the flush suit, if any
  deriving DecidableEq, Repr

def α (h : Nat) : Cls := ⟨cvW RP.Gen.rankCount h, shred h, flushOf h⟩

/-- `find_rank_of_n_oak_skip(n, skip)`: ranks `w-1, …, 0` are examined in this order -/
def nOakSkip (cv n : Nat) (skip : Option Nat) : Nat → Option Nat
  | 0 => none
  | w+1 => if skip = some w then nOakSkip cv n skip w
           else if n ≤ digit cv w then some w
           else nOakSkip cv n skip w

def nOak (cv n : Nat) : Option Nat := nOakSkip cv n none RP.Gen.rankCount

def shiftAnd : Nat → Nat → Nat
  | 0, b => b
  | k+1, b => shiftAnd k (b &&& ((b <<< 1) % 2^16))

/-- `find_rank_of_straight` on a rank mask -/
def findStraight (cfg : Cfg) (ranks : Nat) : Option Nat :=
  let bits := shiftAnd RP.Gen.straightShifts ranks
  if bits > 0 then some (rankOfMask bits)
  else if wheel cfg = (wheel cfg &&& ranks) then some (lowStraight cfg)
  else none

/-- a `Ranking` value: canonical category and its one or two rank fields (`r2 = 0` if absent) -/
structure Rk where
  cat : Nat
  r1 : Nat
  r2 : Nat
  deriving DecidableEq, Repr

def findFlush (cfg : Cfg) (c : Cls) : Option Rk :=
  match c.fl with
  | none => none
  | some F =>
    match findStraight cfg F with
    | some t => some ⟨cStraightFlush, t, 0⟩
    | none => some ⟨cFlush, rankOfMask F, 0⟩

def find4Oak (c : Cls) : Option Rk := (nOak c.cv 4).map fun r => ⟨cFourOAK, r, 0⟩

def find3Oak2Oak (c : Cls) : Option Rk :=
  match nOak c.cv 3 with
  | none => none
  | some t => (nOakSkip c.cv 2 (some t) RP.Gen.rankCount).map fun p => ⟨cFullHouse, t, p⟩

def findStraightRk (cfg : Cfg) (c : Cls) : Option Rk := (findStraight cfg c.rk).map fun r => ⟨cStraight, r, 0⟩

def find3Oak (c : Cls) : Option Rk := (nOak c.cv 3).map fun r => ⟨cThreeOAK, r, 0⟩

def find2Oak2Oak (c : Cls) : Option Rk :=
  match nOak c.cv 2 with
  | none => none
  | some hi =>
    match nOakSkip c.cv 2 (some hi) RP.Gen.rankCount with
    | some lo => some ⟨cTwoPair, hi, lo⟩
    | none => some ⟨cOnePair, hi, 0⟩

def find2Oak (c : Cls) : Option Rk := (nOak c.cv 2).map fun r => ⟨cOnePair, r, 0⟩
def find1Oak (c : Cls) : Option Rk := (nOak c.cv 1).map fun r => ⟨cHighCard, r, 0⟩

/-- the order in which `find_ranking` tries the finders; `findOrder_matches` below ties it to the source -/
def findRanking? (cfg : Cfg) (c : Cls) : Option Rk :=
  (findFlush cfg c).orElse fun _ =>
  (find4Oak c).orElse fun _ =>
  (find3Oak2Oak c).orElse fun _ =>
  (findStraightRk cfg c).orElse fun _ =>
  (find3Oak c).orElse fun _ =>
  (find2Oak2Oak c).orElse fun _ =>
  (find2Oak c).orElse fun _ =>
  (find1Oak c)

/-- the chain above is written in the order of the source's `find_ranking` -/
theorem findOrder_matches : RP.Gen.findOrder =
    ["find_flush", "find_4_oak", "find_3_oak_2_oak", "find_straight", "find_3_oak",
     "find_2_oak_2_oak", "find_2_oak", "find_1_oak"] := rfl

def not16 (x : Nat) : Nat := (2^16 - 1) ^^^ x

/-- the `while n < rank.count_ones()` loop: drop lowest set bits until at most `n` remain -/
def trim (n : Nat) : Nat → Nat → Nat
  | 0, x => x
  | f+1, x => if n < popW 16 x then trim n f (clearLowest x) else x

/-- `find_kickers`; `none` = the `unreachable!()` arm -/
def findKickers? (c : Cls) (v : Rk) : Option Nat :=
  let n := RP.Gen.nKickers.getD v.cat 0
  if n = 0 then some 0 else
    let mask : Option Nat :=
      if v.cat = cHighCard ∨ v.cat = cOnePair ∨ v.cat = cFourOAK ∨ v.cat = cThreeOAK then some (not16 (1 <<< v.r1))
      else if v.cat = cTwoPair then some (not16 ((1 <<< v.r1) ||| (1 <<< v.r2)))
      else none
    mask.map fun m => trim n 16 (c.rk &&& m)

/-- `find_kickers_of_flush(hi)`: rank mask of the flush suit without `hi`, lowest ranks dropped
    until `RP.Gen.C01.flushKickers` remain; `none` = `.expect("flush suit")` fails -/
def flushKickers? (c : Cls) (hi : Nat) : Option Nat :=
  c.fl.map fun F => trim RP.Gen.C01.flushKickers 16 (F &&& not16 (1 <<< hi))

/-- `Strength`, flattened: derived-order position of the variant, its fields, the kicker mask -/
structure Strength where
  idx : Nat
  r1 : Nat
  r2 : Nat
  kicks : Nat
  deriving DecidableEq, Repr

/-- the evaluator on what it reads; `none` = a panic in the real code (empty hand, unreachable arm) -/
def evalA? (cfg : Cfg) (c : Cls) : Option (Rk × Nat) :=
  match findRanking? cfg c with
  | none => none
  | some v =>
    (if RP.Gen.C01.flushKickerCats.contains v.cat then flushKickers? c v.r1 else findKickers? c v).map fun k => (v, k)

def evalA (cfg : Cfg) (c : Cls) : Rk × Nat := (evalA? cfg c).getD (⟨0, 0, 0⟩, 0)

def variantIdx (cfg : Cfg) (cat : Nat) : Nat := (rankingOrder cfg).getD cat 0

def toStrength (cfg : Cfg) (vk : Rk × Nat) : Strength := ⟨variantIdx cfg vk.1.cat, vk.1.r1, vk.1.r2, vk.2⟩

/-- `Strength::from(Hand::from(bits))` -/
def strength? (cfg : Cfg) (bits : Nat) : Option Strength :=
  (evalA? cfg (α (handOf cfg bits))).map (toStrength cfg)

def strength (cfg : Cfg) (bits : Nat) : Strength := toStrength cfg (evalA cfg (α (handOf cfg bits)))

/-- the derived `Ord`: lexicographic (variant index, field 1, field 2, kicker mask); all fields
    fit their slot (`r < 16`, `kicks < 2^16`), so the number orders like the tuple -/
def keyOf (s : Strength) : Nat := s.idx * 2^24 + s.r1 * 2^20 + s.r2 * 2^16 + s.kicks

def strengthKey (cfg : Cfg) (bits : Nat) : Nat := keyOf (strength cfg bits)

/-- `Strength::cmp` -/
def compareHands (cfg : Cfg) (a b : Nat) : Ordering := compare (strengthKey cfg a) (strengthKey cfg b)

end RP.Eval
