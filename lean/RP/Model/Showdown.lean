/-! Model of `Showdown::settle` (src/gameplay/showdown.rs), function by function.

```rust
pub struct Showdown { payouts: Vec<Settlement>, distributing: Chips, distributed: Chips, best: Strength }
pub fn settle(mut self) -> Vec<Settlement> {
    'winners: while let Some(strength) = self.strongest() {
        self.best = strength;
        'pots: while let Some(amount) = self.remaining() {
            self.distributing = amount;
            self.distribute();
            if self.is_complete() { break 'winners; } else { continue 'pots; }
        }
    }
    self.payouts
}
```
Hand strengths are abstracted to naturals (the harness maps `Strength` values
order-isomorphically). The initial `best = (Ranking::MAX, Kickers::default())` sentinel ("no
best yet", above every real strength) is `none`. `Chips = i16` is modelled by `Int` (the
property's domain keeps every intermediate value inside `i16`; the harness build has overflow
checks on, an overflow would surface as `panic`).

Loops carry explicit fuel so that the kernel can evaluate the model; `RP.C04` proves that the
fuel given by `settle` is never exhausted (`best` strictly decreases, `distributing` strictly
increases). -/
namespace RP.Showdown

/-- `gameplay::seat::State` -/
inductive Status where
  | betting | shoving | folding
  deriving DecidableEq, Repr, Inhabited

/-- `gameplay::settlement::Settlement` with the strength abstracted to a natural -/
structure Entry where
  risked : Int
  status : Status
  strength : Nat
  reward : Int
  deriving DecidableEq, Repr, Inhabited

/-- `Settlement::from((risked, status, strength))`: reward starts at 0 -/
def Entry.mk0 (risked : Int) (status : Status) (strength : Nat) : Entry :=
  { risked, status, strength, reward := 0 }

/-- `struct Showdown` -/
structure State where
  payouts : List Entry
  distributing : Int
  distributed : Int
  /-- `none` = the `Ranking::MAX` sentinel -/
  best : Option Nat
  deriving Repr

/-- `Showdown::from(payouts)` -/
def init (l : List Entry) : State :=
  { payouts := l, distributing := 0, distributed := 0, best := none }

/-- `p.strength < self.best` with the sentinel above everything -/
def below (best : Option Nat) (s : Nat) : Bool :=
  match best with
  | none => true
  | some b => decide (s < b)

/-- `Iterator::max` over naturals -/
def maxNat? : List Nat → Option Nat
  | [] => none
  | x :: xs =>
    match maxNat? xs with
    | none => some x
    | some m => some (max x m)

/-- `Iterator::min` over chips -/
def minInt? : List Int → Option Int
  | [] => none
  | x :: xs =>
    match minInt? xs with
    | none => some x
    | some m => some (min x m)

def sumInt : List Int → Int
  | [] => 0
  | x :: xs => x + sumInt xs

/-- `fn strongest(&self) -> Option<Strength>` -/
def strongest (st : State) : Option Nat :=
  maxNat? (((st.payouts.filter (fun p => below st.best p.strength)).filter
    (fun p => p.status ≠ Status.folding)).map (·.strength))

/-- the filter shared by `remaining` and `distribute`:
    strength == best, risked > distributed, status != Folding -/
def isWinner (best : Option Nat) (distributed : Int) (p : Entry) : Bool :=
  (some p.strength == best) && decide (p.risked > distributed) && (p.status != Status.folding)

/-- `fn remaining(&mut self) -> Option<Chips>`: first `self.distributed = self.distributing` -/
def remaining (st : State) : State × Option Int :=
  let st' := { st with distributed := st.distributing }
  (st', minInt? ((st'.payouts.filter (isWinner st'.best st'.distributed)).map (·.risked)))

/-- `fn winnings(&self) -> Chips` -/
def winnings (st : State) : Int :=
  sumInt (st.payouts.map (fun p => max (min p.risked st.distributing - st.distributed) 0))

/-- the two `for winner in …` loops of `distribute`: `share` to every winner, one more chip to
    the first `bonus` winners in seat order -/
def pay (best : Option Nat) (distributed share : Int) : Nat → List Entry → List Entry
  | _, [] => []
  | bonus, p :: ps =>
    if isWinner best distributed p then
      match bonus with
      | 0 => { p with reward := p.reward + share } :: pay best distributed share 0 ps
      | b + 1 => { p with reward := p.reward + share + 1 } :: pay best distributed share b ps
    else p :: pay best distributed share bonus ps

/-- `fn distribute(&mut self)`. `n = 0` (division by zero in Rust) cannot happen after
    `remaining` returned `Some`; the model then leaves the ledger unchanged. -/
def distribute (st : State) : State :=
  let chips := winnings st
  let n := (st.payouts.filter (isWinner st.best st.distributed)).length
  if n = 0 then st else
  let share := Int.tdiv chips n
  let bonus := Int.tmod chips n
  { st with payouts := pay st.best st.distributed share bonus.toNat st.payouts }

/-- `fn is_complete(&self) -> bool` -/
def isComplete (st : State) : Bool :=
  sumInt (st.payouts.map (·.risked)) == sumInt (st.payouts.map (·.reward))

/-- the `'pots` loop; the flag is `true` when it left through `break 'winners` -/
def inner : Nat → State → State × Bool
  | 0, st => (st, false)
  | fuel + 1, st =>
    match remaining st with
    | (st1, none) => (st1, false)
    | (st1, some amount) =>
      let st2 := distribute { st1 with distributing := amount }
      if isComplete st2 then (st2, true) else inner fuel st2

/-- the `'winners` loop -/
def outer : Nat → State → State
  | 0, st => st
  | fuel + 1, st =>
    match strongest st with
    | none => st
    | some s =>
      match inner (st.payouts.length + 1) { st with best := some s } with
      | (st1, true) => st1
      | (st1, false) => outer fuel st1

/-- final state of `Showdown::from(l).settle()` -/
def run (l : List Entry) : State := outer (l.length + 1) (init l)

/-- `Showdown::from(l).settle()` -/
def settle (l : List Entry) : List Entry := (run l).payouts

/-- the observable: rewards in seat order -/
def rewards (l : List Entry) : List Int := (settle l).map (·.reward)

end RP.Showdown
