import RP.Model.Codec
import RP.Gen.C16
/-! # Model of the text parsers and printers of robopoker (property C16)

`TryFrom<&str>` for Card / Hand / Hole / Observation / Street / Abstraction / Action / Turn and the
matching `Display` impls.  A string is the list of its `char`s.  The outcome of a parser is
`ok v` (Rust `Ok`), `err` (Rust `Err`, whatever the message) or `panic` (the call would abort:
byte-index slicing off a char boundary or past the end, slicing a vector past its end, a failed
`assert!`).  Accepted spellings, keywords, separators and printed forms come from the generated
`RP/Gen/C16.lean`.

The Unicode tables behind `char::is_whitespace` (`trim`, `split_whitespace`), `str::to_uppercase`
and `str::to_lowercase` are a **parameter** `U : Unicode`; the theorems only assume its behaviour
on ASCII (`Unicode.AsciiOK`).  The driver instantiates it with `rustU` (the 25 `White_Space` code
points and the code points whose case mapping produces an ASCII letter). -/
namespace RP.Parse
open RP.Codec RP.Gen

inductive Outcome (α : Type) where
  | ok (v : α) | err | panic
deriving DecidableEq, Repr

/-- the Unicode-dependent functions of Rust's `str` used by the parsers -/
structure Unicode where
  isWs : Char → Bool
  upper : List Char → List Char
  lower : List Char → List Char

def isAscii (c : Char) : Bool := decide (c.toNat < 128)
/-- ASCII members of `White_Space`: U+0009..U+000D and U+0020 -/
def asciiWs (c : Char) : Bool := decide (c.toNat = 32 ∨ (9 ≤ c.toNat ∧ c.toNat ≤ 13))
def asciiUpper (c : Char) : Char := if 97 ≤ c.toNat ∧ c.toNat ≤ 122 then Char.ofNat (c.toNat - 32) else c
def asciiLower (c : Char) : Char := if 65 ≤ c.toNat ∧ c.toNat ≤ 90 then Char.ofNat (c.toNat + 32) else c

/-- what the theorems assume about the Unicode tables: their restriction to ASCII -/
structure Unicode.AsciiOK (U : Unicode) : Prop where
  ws : ∀ c, isAscii c = true → U.isWs c = asciiWs c
  upper : ∀ s : List Char, (∀ c ∈ s, isAscii c = true) → U.upper s = s.map asciiUpper
  lower : ∀ s : List Char, (∀ c ∈ s, isAscii c = true) → U.lower s = s.map asciiLower

/-- the ASCII-only instantiation -/
def asciiU : Unicode where
  isWs := asciiWs
  upper := fun s => s.map asciiUpper
  lower := fun s => s.map asciiLower

/-! ## `str` primitives -/
/-- `str::trim` -/
def trim (U : Unicode) (s : List Char) : List Char :=
  ((s.dropWhile U.isWs).reverse.dropWhile U.isWs).reverse

def splitWsAux (U : Unicode) : List Char → List Char → List (List Char)
  | [], cur => if cur.isEmpty then [] else [cur.reverse]
  | c :: cs, cur =>
    if U.isWs c then (if cur.isEmpty then splitWsAux U cs [] else cur.reverse :: splitWsAux U cs [])
    else splitWsAux U cs (c :: cur)
/-- `str::split_whitespace` -/
def splitWs (U : Unicode) (s : List Char) : List (List Char) := splitWsAux U s []

/-- `chars.chunks(2)` -/
def chunks2 : List Char → List (List Char)
  | [] => []
  | [a] => [[a]]
  | a :: b :: rest => [a, b] :: chunks2 rest

/-- `str::split_once(sep)` -/
def splitOnce (sep : List Char) : List Char → Option (List Char × List Char)
  | [] => if sep.isEmpty then some ([], []) else none
  | c :: cs =>
    if sep.isPrefixOf (c :: cs) then some ([], (c :: cs).drop sep.length)
    else (splitOnce sep cs).map (fun p => (c :: p.1, p.2))

def splitOnAux (sep : List Char) : List Char → List Char → Nat → List (List Char)
  | [], cur, _ => [cur.reverse]
  | _ :: cs, cur, skip+1 => splitOnAux sep cs cur skip
  | c :: cs, cur, 0 =>
    if sep.isPrefixOf (c :: cs) && !sep.isEmpty then cur.reverse :: splitOnAux sep cs [] (sep.length - 1)
    else splitOnAux sep cs (c :: cur) 0
/-- `str::split(sep)` for a non-empty string pattern -/
def splitOn (sep s : List Char) : List (List Char) := splitOnAux sep s [] 0

/-- `parts.join(" ")` -/
def joinSp : List (List Char) → List Char
  | [] => []
  | [a] => a
  | a :: b :: rest => a ++ ' ' :: joinSp (b :: rest)

def utf8Len (c : Char) : Nat :=
  if c.toNat < 0x80 then 1 else if c.toNat < 0x800 then 2 else if c.toNat < 0x10000 then 3 else 4
/-- `&s[n..]` with a byte index: `none` (panic) unless `n` is a char boundary inside the string -/
def byteSliceFrom : List Char → Nat → Option (List Char)
  | s, 0 => some s
  | [], _+1 => none
  | c :: cs, n+1 => if utf8Len c ≤ n+1 then byteSliceFrom cs (n+1 - utf8Len c) else none
/-- `&v[n..]` on a vector: `none` (panic) when `n > len` -/
def vecSliceFrom {α : Type} (v : List α) (n : Nat) : Option (List α) := if n ≤ v.length then some (v.drop n) else none

/-! ## numbers: `from_str_radix`, `Display`, `{:02x}` -/
/-- `char::to_digit(radix)` for radix ≤ 36 -/
def digitVal (radix : Nat) (c : Char) : Option Nat :=
  let v := c.toNat
  let d : Option Nat :=
    if 48 ≤ v ∧ v ≤ 57 then some (v - 48)
    else if 97 ≤ v ∧ v ≤ 122 then some (v - 87)
    else if 65 ≤ v ∧ v ≤ 90 then some (v - 55)
    else none
  match d with
  | some d => if d < radix then some d else none
  | none => none
def parseDigits (radix : Nat) : List Char → Nat → Option Nat
  | [], acc => some acc
  | c :: cs, acc => match digitVal radix c with
    | some d => parseDigits radix cs (acc * radix + d)
    | none => none
/-- `<int>::from_str_radix(s, radix)` for a `bits`-wide signed / unsigned type (`str::parse` is radix 10):
optional sign (`-` only for signed types), at least one digit, no other characters, range check -/
def parseInt (radix bits : Nat) (signed : Bool) (s : List Char) : Option Int :=
  let maxPos : Nat := if signed then 2^(bits-1) - 1 else 2^bits - 1
  let pos (ds : List Char) : Option Int :=
    if ds.isEmpty then none else
    match parseDigits radix ds 0 with
    | some v => if v ≤ maxPos then some (v : Int) else none
    | none => none
  match s with
  | [] => none
  | c :: ds =>
    if c = '+' then pos ds
    else if c = '-' then
      (if signed then
        (if ds.isEmpty then none else
          match parseDigits radix ds 0 with
          | some v => if v ≤ 2^(bits-1) then some (-(v : Int)) else none
          | none => none)
      else none)
    else pos (c :: ds)

def digitChar (d : Nat) : Char := if d < 10 then Char.ofNat (48 + d) else Char.ofNat (87 + d)
/-- little-endian digits, at least one -/
def digitsLE (radix : Nat) : Nat → Nat → List Nat
  | 0, _ => []
  | f+1, n => if n < radix then [n] else (n % radix) :: digitsLE radix f (n / radix)
/-- `Display` / `{:x}` of an unsigned integer -/
def printNat (radix n : Nat) : List Char := ((digitsLE radix (n+1) n).reverse).map digitChar
/-- `Display` of a signed integer -/
def printInt (x : Int) : List Char := if x < 0 then '-' :: printNat 10 x.natAbs else printNat 10 x.natAbs
/-- `{:0w x}` -/
def hexPad (w n : Nat) : List Char :=
  let ds := printNat 16 n
  List.replicate (w - ds.length) '0' ++ ds

/-! ## parsers -/
/-- `Rank::try_from(&str)`: `s.trim().to_uppercase()` looked up in the accepted spellings -/
def parseRank (U : Unicode) (s : List Char) : Option Nat := C16.rankParse.lookup (U.upper (trim U s))
/-- `Suit::try_from(&str)`: `s.trim().to_lowercase()` -/
def parseSuit (U : Unicode) (s : List Char) : Option Nat := C16.suitParse.lookup (U.lower (trim U s))
/-- `Card::try_from(&str)` (as fixed: split by characters, exactly two) -/
def parseCard (U : Unicode) (s : List Char) : Outcome Nat :=
  match trim U s with
  | [r, su] =>
    match parseRank U [r] with
    | none => .err
    | some r => match parseSuit U [su] with
      | none => .err
      | some x => .ok (cardOfRS r x)
  | _ => .err

/-- `.map(Card::try_from).collect::<Result<Vec<Card>, _>>()` (stops at the first `Err`) -/
def collectCards (U : Unicode) : List (List Char) → Outcome (List Nat)
  | [] => .ok []
  | ch :: rest =>
    match parseCard U ch with
    | .ok c => (match collectCards U rest with
      | .ok cs => .ok (c :: cs)
      | .err => .err
      | .panic => .panic)
    | .err => .err
    | .panic => .panic
/-- per token: the cards of the token, or nothing when any chunk is not a card (`flatten` drops `Err`) -/
def tokensCards (U : Unicode) : List (List Char) → Outcome (List Nat)
  | [] => .ok []
  | t :: ts =>
    match collectCards U (chunks2 t) with
    | .panic => .panic
    | .err => tokensCards U ts
    | .ok cs => (match tokensCards U ts with
      | .ok r => .ok (cs ++ r)
      | .err => .err
      | .panic => .panic)
/-- `Hand::from(Vec<Card>)`: OR of `1 << card` -/
def handOfCards (cs : List Nat) : Nat := cs.foldl (fun a c => a ||| (1 <<< c)) 0
/-- `Hand::try_from(&str)` -/
def parseHand (U : Unicode) (s : List Char) : Outcome Nat :=
  match tokensCards U (splitWs U s) with
  | .ok cs => .ok (handOfCards cs)
  | .err => .err
  | .panic => .panic
/-- `Hole::try_from(&str)` -/
def parseHole (U : Unicode) (s : List Char) : Outcome Nat :=
  match parseHand U s with
  | .ok h => if handSize h = C16.holeSize then .ok h else .err
  | .err => .err
  | .panic => .panic

/-- `Observation::try_from(&str)` (as fixed: overlapping pocket and board is an error) -/
def parseObs (U : Unicode) (s : List Char) : Outcome Obs :=
  let t := trim U s
  let (a, b) := (splitOnce C16.obsSeparator t).getD (t, [])
  match parseHand U a with
  | .err => .err
  | .panic => .panic
  | .ok pocket =>
    match parseHand U b with
    | .err => .err
    | .panic => .panic
    | .ok board =>
      if pocket &&& board ≠ 0 then .err
      else if (handSize pocket, handSize board) ∈ C16.obsSizes then
        (match obsMk pocket board with
         | some o => .ok o
         | none => .panic)
      else .err

/-- `Street::try_from(&str)`: first character of `s.to_uppercase()` -/
def parseStreet (U : Unicode) (s : List Char) : Outcome Nat :=
  match (U.upper s).head? with
  | some c => (match C16.streetParse.lookup c with
    | some st => .ok st
    | none => .err)
  | none => .err

/-- `Abstraction::try_from(&str)`: `street::hexindex` -/
def parseAbs (U : Unicode) (s : List Char) : Outcome Abs :=
  let parts := splitOn C16.absDelim (trim U s)
  match parts[0]?, parts[1]? with
  | some a, some b =>
    (match parseStreet U a with
     | .ok st => (match parseInt C16.absRadix 64 false b with
       | some i => .ok (absOf st i.toNat)
       | none => .err)
     | .err => .err
     | .panic => .panic)
  | _, _ => .err

-- kind order of `actionKeyword` / `actionPrefix`: Fold, Check, Call, Raise, Shove, Blind, Draw
def keyword (k : Nat) : List Char := C16.actionKeyword.getD k []
/-- `Action::try_from(&str)` (as fixed: an empty token list is an error) -/
def parseAction (U : Unicode) (s : List Char) : Outcome Action :=
  let parts := splitWs U s
  match parts with
  | [] => .err
  | first :: rest =>
    let kw := U.upper first
    let amount (mk : Int → Action) : Outcome Action :=
      match rest.head? with
      | some n => (match parseInt 10 CHIPS_BITS true n with
        | some x => .ok (mk x)
        | none => .err)
      | none => .err
    if kw = keyword 1 then .ok .check
    else if kw = keyword 0 then .ok .fold
    else if kw = keyword 2 then amount .call
    else if kw = keyword 3 then amount .raise
    else if kw = keyword 4 then amount .shove
    else if kw = keyword 5 then amount .blind
    else if kw = keyword 6 then
      (match vecSliceFrom parts 1 with
       | none => .panic
       | some tl => (match parseHand U (joinSp tl) with
         | .ok h => .ok (.draw h)
         | .err => .err
         | .panic => .panic))
    else .err

inductive Turn where
  | terminal | chance | choice (n : Nat)
deriving DecidableEq, Repr
/-- `Turn::try_from(&str)`: exact literals, or the prefix character followed by a `usize` -/
def parseTurn (s : List Char) : Outcome Turn :=
  if s = C16.turnTerminal then .ok .terminal
  else if s = C16.turnChance then .ok .chance
  else if s.head? = some C16.turnPrefix then
    (match byteSliceFrom s C16.turnSliceFrom with
     | none => .panic
     | some r => (match parseInt 10 64 false r with
       | some n => .ok (.choice n.toNat)
       | none => .err))
  else .err

/-! ## printers (`Display`) -/
def printRank (r : Nat) : List Char := C16.rankPrint.getD r []
def printSuit (s : Nat) : List Char := C16.suitPrint.getD s []
def printCard (c : Nat) : List Char := printRank (rank c) ++ printSuit (suit c)
def printHand (h : Nat) : List Char := (handCards h).flatMap printCard
def printObs (o : Obs) : List Char := printHand o.pocket ++ ' ' :: (C16.obsSeparator ++ ' ' :: printHand o.board)
def printStreet (s : Nat) : List Char := C16.streetPrint.getD s []
/-- `Display for Abstraction`; `none` when `street()` panics (tag > 3) -/
def printAbs (U : Unicode) (a : Abs) : Option (List Char) :=
  match absStreet a with
  | none => none
  | some s => (match (printStreet s).head? with
    | none => none
    | some c => some (U.upper [c] ++ C16.absDelim ++ hexPad C16.absHexWidth (absIndex a)))
def prefixOf (k : Nat) : List Char := C16.actionPrefix.getD k []
def printAction : Action → List Char
  | .fold => prefixOf 0
  | .check => prefixOf 1
  | .call x => prefixOf 2 ++ printInt x
  | .raise x => prefixOf 3 ++ printInt x
  | .shove x => prefixOf 4 ++ printInt x
  | .blind x => prefixOf 5 ++ printInt x
  | .draw h => prefixOf 6 ++ printHand h
def printTurn : Turn → List Char
  | .terminal => C16.turnPrintTerminal
  | .chance => C16.turnPrintChance
  | .choice n => C16.turnPrintChoice ++ printNat 10 n

/-! ## the driver's instantiation of the Unicode parameter (Rust 1.95 std tables) -/
/-- the 25 `White_Space` code points -/
def rustWs : List Nat := [9, 10, 11, 12, 13, 32, 133, 160, 5760, 8192, 8193, 8194, 8195, 8196, 8197, 8198, 8199,
  8200, 8201, 8202, 8232, 8233, 8239, 8287, 12288]
/-- non-ASCII code points whose `to_uppercase` contains an ASCII character (placeholder 0x80 = some non-ASCII char) -/
def rustUpperSpecial : List (Nat × List Nat) := [
  (0xdf, [83, 83]), (0x131, [73]), (0x149, [0x80, 78]), (0x17f, [83]), (0x1f0, [74, 0x80]), (0x1e96, [72, 0x80]),
  (0x1e97, [84, 0x80]), (0x1e98, [87, 0x80]), (0x1e99, [89, 0x80]), (0x1e9a, [65, 0x80]),
  (0xfb00, [70, 70]), (0xfb01, [70, 73]), (0xfb02, [70, 76]), (0xfb03, [70, 70, 73]), (0xfb04, [70, 70, 76]),
  (0xfb05, [83, 84]), (0xfb06, [83, 84])]
/-- non-ASCII code points whose `to_lowercase` contains an ASCII character -/
def rustLowerSpecial : List (Nat × List Nat) := [(0x130, [105, 0x80]), (0x212a, [107])]
def mapChar (special : List (Nat × List Nat)) (ascii : Char → Char) (c : Char) : List Char :=
  if c.toNat < 128 then [ascii c]
  else match special.lookup c.toNat with
    | some l => l.map Char.ofNat
    | none => [c]
/-- Rust's tables as far as the parsers can observe them: any character that is not ASCII and does
not map to ASCII is left alone (the parsers only compare against ASCII spellings and the four suit symbols) -/
def rustU : Unicode where
  isWs := fun c => rustWs.contains c.toNat
  upper := fun s => s.flatMap (mapChar rustUpperSpecial asciiUpper)
  lower := fun s => s.flatMap (mapChar rustLowerSpecial asciiLower)

end RP.Parse
