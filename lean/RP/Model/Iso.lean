import RP.Gen.Consts
import RP.Model.Bits
/-! # Model of suit-isomorphism canonicalisation (`cards/permutation.rs`, `cards/isomorphism.rs`)

Cards are `4·rank + suit`; a `Hand` is a `Nat` used as a 52-bit set; an `Observation` is a pair
`(pocket, board)` (`board` is the Rust field `public`, a reserved word in Lean). Everything is parametrised by the deck mask `m` (`Hand::mask()`), so the
standard and the short-deck build are the same definitions at `RP.Gen.handMaskStd` /
`RP.Gen.handMaskShort`.

Rust ↔ model
* `Hand::from(u64)`            ↔ `handFrom m n = n &&& m`
* `Hand::of(suit)`             ↔ `ofSuit m h s = handFrom m (h &&& suitMask s)`
* `Hand::size`                 ↔ `size = popW 64` (`count_ones`)
* `Rank::lo / Rank::hi`        ↔ `lo = tzW 64 · / 4`, `hi = msbW 64 · / 4` (`63 - leading_zeros`)
* `Hand::min_rank / max_rank`  ↔ `minRank / maxRank : Option Nat` (`None` when the hand is empty)
* `Permutation::colex`         ↔ `colex m o s = (s, pocket∩s, board∩s)`
* `Permutation::order`         ↔ `order`: `Ordering::then_with` chain over the keys *in the generated
                                 order* `RP.Gen.permOrderKeys`; `Option<Rank>` is compared through the
                                 order embedding `optKey` (`None ↦ 0`, `Some r ↦ r+1`, i.e. `None < Some`)
* `sort_by(order)`             ↔ `isort orderLt` (insertion sort; `Props/C05` proves the order is strict
                                 and total on the four entries, so every sorting algorithm returns this list)
* `Permutation::from(&obs)`    ↔ `permOf m o` (`permutation[suit] = i` for the i-th sorted entry)
* `Permutation::shift`         ↔ `shift m p s h` (suit mask `&`, shift left / right by the suit difference,
                                 `Hand::from` masking)
* `Hand::add` (asserts disjoint) ↔ `add?`;  `Permutation::image` ↔ `image?` (fold of `add?`), `image` (pure OR)
* `Observation::from((Hand,Hand))` (asserts sizes) ↔ `obsFrom?`
* `Permutation::permute`       ↔ `permute?`;  `Isomorphism::from` ↔ `canon?`;  `is_canonical` ↔ `isCanonical`
A `none` is a Rust panic (failed `assert!`). -/
namespace RP.Iso
open RP.Bits

structure Obs where
  pocket : Nat
  board : Nat
deriving DecidableEq, Repr

/-- `Suit::all()` -/
def suits : List Nat := RP.Gen.suitCodes

/-- `u64::from(Suit)` -/
def suitMask (s : Nat) : Nat := RP.Gen.suitMasks.getD s 0

/-- `Hand::from(u64)` -/
def handFrom (m n : Nat) : Nat := n &&& m

/-- `Hand::size` (`count_ones`) -/
def size (h : Nat) : Nat := popW 64 h

/-- index of the highest set bit among the low `w` bits (`64 - 1 - leading_zeros` for a non-zero u64) -/
def msbW : Nat → Nat → Nat
  | 0, _ => 0
  | w+1, n => if n / 2 = 0 then 0 else msbW w (n / 2) + 1

/-- `Rank::lo` -/
def lo (bits : Nat) : Nat := tzW 64 bits / 4
/-- `Rank::hi` -/
def hi (bits : Nat) : Nat := msbW 64 bits / 4

/-- `Hand::min_rank` -/
def minRank (h : Nat) : Option Nat := if size h = 0 then none else some (lo h)
/-- `Hand::max_rank` -/
def maxRank (h : Nat) : Option Nat := if size h = 0 then none else some (hi h)

/-- `Hand::of(&suit)` -/
def ofSuit (m h s : Nat) : Nat := handFrom m (h &&& suitMask s)

/-- one sort entry `(Suit, Hand, Hand)` -/
abbrev Entry := Nat × Nat × Nat

/-- `Permutation::colex` -/
def colex (m : Nat) (o : Obs) (s : Nat) : Entry := (s, ofSuit m o.pocket s, ofSuit m o.board s)

/-- order embedding of `Option<Rank>` (derived `Ord`: `None < Some(_)`) into `Nat` -/
def optKey : Option Nat → Nat
  | none => 0
  | some r => r + 1

/-- the value of one comparison key, named as the extractor prints it:
    `<tuple field>:<method>` or the bare tuple field `0` (the suit) -/
def keyOf (k : String) (e : Entry) : Nat :=
  if k = "0" then e.1
  else if k = "1:size" then size e.2.1
  else if k = "2:size" then size e.2.2
  else if k = "1:min_rank" then optKey (minRank e.2.1)
  else if k = "2:min_rank" then optKey (minRank e.2.2)
  else if k = "1:max_rank" then optKey (maxRank e.2.1)
  else if k = "2:max_rank" then optKey (maxRank e.2.2)
  else 0

/-- the key extractors in the order in which `Permutation::order` consults them -/
def keyFns : List (Entry → Nat) := RP.Gen.permOrderKeys.map keyOf

/-- the keys of an entry in that order -/
def keyVec (e : Entry) : List Nat := keyFns.map (fun f => f e)

/-- `Ordering::Equal.then_with(..).then_with(..)…` -/
def cmpVec : List Nat → List Nat → Ordering
  | a :: as, b :: bs => (compare a b).then (cmpVec as bs)
  | _, _ => .eq

/-- `Permutation::order` -/
def order (x y : Entry) : Ordering := cmpVec (keyVec x) (keyVec y)

def orderLt (x y : Entry) : Bool := order x y == .lt

/-- insertion into a sorted list (before the first element that is not smaller) -/
def ins {α : Type} (lt : α → α → Bool) (e : α) : List α → List α
  | [] => [e]
  | x :: xs => if lt x e then x :: ins lt e xs else e :: x :: xs

/-- insertion sort -/
def isort {α : Type} (lt : α → α → Bool) : List α → List α
  | [] => []
  | x :: xs => ins lt x (isort lt xs)

/-- the four entries after `colex.sort_by(Self::order)` -/
def sortedEntries (m : Nat) (o : Obs) : List Entry := isort orderLt (suits.map (colex m o))

/-- suits in sorted order -/
def sigma (m : Nat) (o : Obs) : List Nat := (sortedEntries m o).map (fun e => e.1)

/-- `permutation[suit] = i` for the `i`-th element of the sorted list, starting from `Suit::all()` -/
def invFold (sg : List Nat) : List Nat :=
  sg.zipIdx.foldl (fun perm (si : Nat × Nat) => perm.set si.1 si.2) suits

/-- `Permutation::from(&Observation)`: the image of each suit -/
def permOf (m : Nat) (o : Obs) : List Nat := invFold (sigma m o)

/-- `Permutation::map` -/
def pmap (p : List Nat) (s : Nat) : Nat := p.getD s 0

/-- `Permutation::shift` -/
def shift (m : Nat) (p : List Nat) (s h : Nat) : Nat :=
  let new := pmap p s
  let cards := suitMask s &&& h
  if s ≤ new then handFrom m (cards <<< (new - s)) else handFrom m (cards >>> (s - new))

/-- `Hand::add` (`assert!((lhs & rhs) == 0)`) -/
def add? (a b : Nat) : Option Nat := if a &&& b = 0 then some (a ||| b) else none

/-- `Permutation::image` -/
def image? (m : Nat) (p : List Nat) (h : Nat) : Option Nat :=
  suits.foldl (fun acc s => acc.bind (fun a => add? a (shift m p s h))) (some 0)

/-- `Permutation::image` without the disjointness assertion -/
def image (m : Nat) (p : List Nat) (h : Nat) : Nat :=
  suits.foldl (fun acc s => acc ||| shift m p s h) 0

/-- `Observation::from((Hand, Hand))` (`assert!(pocket.size() == 2); assert!(public.size() <= 5)`) -/
def obsFrom? (pocket board : Nat) : Option Obs :=
  if size pocket = 2 ∧ size board ≤ 5 then some ⟨pocket, board⟩ else none

/-- `Permutation::permute` -/
def permute? (m : Nat) (p : List Nat) (o : Obs) : Option Obs :=
  (image? m p o.pocket).bind fun a => (image? m p o.board).bind fun b => obsFrom? a b

/-- `Permutation::permute` without assertions -/
def permute (m : Nat) (p : List Nat) (o : Obs) : Obs := ⟨image m p o.pocket, image m p o.board⟩

/-- `Isomorphism::from(Observation)` -/
def canon? (m : Nat) (o : Obs) : Option Obs := permute? m (permOf m o) o

/-- `Isomorphism::from(Observation)` without assertions -/
def canon (m : Nat) (o : Obs) : Obs := permute m (permOf m o) o

/-- `Isomorphism::is_canonical` (`Permutation::from(obs) == Permutation::identity()`) -/
def isCanonical (m : Nat) (o : Obs) : Bool := permOf m o == suits

end RP.Iso
