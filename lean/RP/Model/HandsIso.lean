import RP.Model.Hands
import RP.Model.Iso
/-! `IsomorphismIterator` with C05's model of `Isomorphism::is_canonical` plugged into the iterator
model of `RP/Model/Hands.lean`. Core Lean only (linked into the C06 driver). -/
namespace RP.Hands

/-- `Hand::mask()` of the build, as the C05 model takes it -/
def deckMask (short : Bool) : Nat := if short then RP.Gen.handMaskShort else RP.Gen.handMaskStd

/-- `Isomorphism::is_canonical` of the build, in the shape `isoStep` takes it -/
def isCanon (short : Bool) (p b : Nat) : Bool := RP.Iso.isCanonical (deckMask short) ⟨p, b⟩

/-- `IsomorphismIterator::from(street).collect()` -/
def classes (short : Bool) (street : Nat) : List (Nat × Nat) := isomorphisms short (isCanon short) street

/-- `IsomorphismIterator::from(street).take(n).collect()` -/
def classesPrefix (short : Bool) (street n : Nat) : List (Nat × Nat) :=
  unfold (isoStep short (isCanon short) OBS_FUEL) n (ObsIter.init short street)

/-- count and order checksum of the first `n` classes without building the list -/
def classesSummary (short : Bool) (street n : Nat) : Nat × Nat :=
  unfoldFold (isoStep short (isCanon short) OBS_FUEL) ckObs n (ObsIter.init short street) (0, 0)

theorem classesSummary_eq (short : Bool) (street n : Nat) :
    classesSummary short street n = (classesPrefix short street n).foldl ckObs (0, 0) :=
  unfoldFold_eq _ _ _ _ _

/-- one pocket's segment of the class list: the canonical boards of `pocket`, in iteration order
(`HandIterator::from((n, pocket)).filter(is_canonical)`) -/
def pocketClasses (short : Bool) (street pocket : Nat) : List (Nat × Nat) :=
  ((handsOfHand short (nObserved street) pocket).filter (fun b => isCanon short pocket b)).map
    (fun b => (pocket, b))

/-- the first `n` of them, produced lazily -/
def pocketClassesPrefix (short : Bool) (street pocket n : Nat) : List (Nat × Nat) :=
  (unfold (filterStep (HandIter.step short) (fun b => isCanon short pocket b) LIST_FUEL) n
    (HandIter.init short (nObserved street) pocket)).map (fun b => (pocket, b))

def pocketClassesSummary (short : Bool) (street pocket n : Nat) : Nat × Nat :=
  unfoldFold (filterStep (HandIter.step short) (fun b => isCanon short pocket b) LIST_FUEL)
    (fun acc b => ckObs acc (pocket, b)) n (HandIter.init short (nObserved street) pocket) (0, 0)

theorem pocketClassesSummary_eq (short : Bool) (street pocket n : Nat) :
    pocketClassesSummary short street pocket n = (pocketClassesPrefix short street pocket n).foldl ckObs (0, 0) := by
  unfold pocketClassesSummary pocketClassesPrefix
  rw [unfoldFold_eq, List.foldl_map]

end RP.Hands
