import RP.Gen.C09
import RP.Model.Arith
import RP.Model.Discount
/-! # Model of regret matching (C09)

Mirrors `Profile::policy_vector`, `Profile::cumulated_regret` and the clamp of
`Profile::regret_vector` in `/repo/src/mccfr/profile.rs` as they are now (with the `fix:` that
divides by `self.epochs().max(1)`).

* A `BTreeMap<Edge, f32>` is a list of `(key, value)` in key order; `values().sum()` is a left fold
  in that order.
* `none` is the Rust panic (a failed `assert!`).
* The constants (`POLICY_MIN`, the clamp bounds and their order, the `k` of `.max(k)`, the
  assertion bounds) are the generated ones of `RP.Gen.C09`.
* `policyVectorWith` takes the divisor as a parameter so that the computation of the pinned
  code (`divisor = epochs()`) can be stated next to the one of the fixed code. -/
namespace RP.Regret
open RP.Arith

variable {α κ : Type}

/-- the divisor of `cumulated_regret`: `self.epochs().max(1)` -/
def divisor (t : Nat) : Nat := max t RP.Gen.C09.epochFloor

/-- the divisor of the pinned code: `self.epochs()` -/
def divisorPinned (t : Nat) : Nat := t

/-- `cumulated_regret`: stored regret `/ divisor as f32` -/
def cumulated (o : Ops α) (dv : Nat → Nat) (t : Nat) (r : α) : α :=
  o.div r (o.ofNat (dv t))

/-- `assert!(*p >= 0.)`, `assert!(*p <= 1.)` -/
def okProb (o : Ops α) (p : α) : Bool :=
  o.le (o.ofNat RP.Gen.C09.assertLo) p && o.le p (o.ofNat RP.Gen.C09.assertHi)

/-- the floored regrets `max(R_a / t, ε)` of `policy_vector`, in key order -/
def floored (o : Ops α) (dv : Nat → Nat) (eps : α) (t : Nat) (kv : List (κ × α)) : List (κ × α) :=
  kv.map fun (a, r) => (a, o.fmax (cumulated o dv t r) eps)

/-- `Profile::policy_vector` for a node of player `player` at epoch counter `t` with stored regrets
    `kv` (one entry per outgoing edge) -/
def policyVectorWith (o : Ops α) (dv : Nat → Nat) (eps : α) (player t : Nat) (kv : List (κ × α)) :
    Option (List (κ × α)) :=
  if player ≠ RP.Discount.walker t then none
  else
    let fl := floored o dv eps t kv
    let s := o.sum (fl.map (·.2))
    let ps := fl.map fun (a, x) => (a, o.div x s)
    if ps.all (fun (_, p) => okProb o p) then some ps else none

/-- the code as it is now -/
def policyVector (o : Ops α) (eps : α) (player t : Nat) (kv : List (κ × α)) : Option (List (κ × α)) :=
  policyVectorWith o divisor eps player t kv

/-- the clamp of `regret_vector`: the generated list of `max` / `min` operations in source order -/
def clamp (o : Ops α) (ops : List (Bool × α)) (r : α) : α :=
  ops.foldl (fun x (op : Bool × α) => if op.1 then o.fmax x op.2 else o.fmin x op.2) r

/-- clamp followed by `assert!(!r.is_nan())`, `assert!(!r.is_infinite())` -/
def record (o : Ops α) (ops : List (Bool × α)) (r : α) : Option α :=
  let c := clamp o ops r
  if o.isNaN c || o.isInf c then none else some c

/-! ## the three instantiations of the constants -/

def epsQ : Rat := RP.Gen.C09.policyFloor
def eps32 : Float32 := Float32.ofBits (UInt32.ofNat RP.Gen.C09.policyFloorBits)
def epsExt : Ext := .fin RP.Gen.C09.policyFloor

def clampOpsQ : List (Bool × Rat) := RP.Gen.C09.clampOps
def clampOps32 : List (Bool × Float32) :=
  RP.Gen.C09.clampOpsBits.map fun (m, b) => (m, Float32.ofBits (UInt32.ofNat b))
def clampOpsExt : List (Bool × Ext) := RP.Gen.C09.clampOps.map fun (m, q) => (m, Ext.fin q)

end RP.Regret
