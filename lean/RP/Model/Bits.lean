/-! Width-indexed bit utilities on `Nat`, mirroring Rust's `u64` intrinsics.

`tzW w n` is `n.trailing_zeros()` of a `w`-bit word (so `tzW 64 0 = 64` as in Rust),
`popW w n` is the number of set bits among the lowest `w` bits (`count_ones` when `n < 2^w`).
All definitions are structurally recursive on the width, hence kernel-reducible. -/
namespace RP.Bits

def tzW : Nat → Nat → Nat
  | 0, _ => 0
  | w+1, n => if n % 2 = 1 then 0 else tzW w (n / 2) + 1

def popW : Nat → Nat → Nat
  | 0, _ => 0
  | w+1, n => n % 2 + popW w (n / 2)

/-- `x & (x - 1)`: clear the lowest set bit (Rust: `deck & (deck - 1)`). -/
def clearLowest (d : Nat) : Nat := d &&& (d - 1)

/-- bitwise not of a 64-bit word -/
def not64 (x : Nat) : Nat := (2^64 - 1) ^^^ x

theorem tzW_zero (w : Nat) : tzW w 0 = w := by
  induction w with
  | zero => rfl
  | succ w ih => simp [tzW, ih]

theorem popW_zero (w : Nat) : popW w 0 = 0 := by
  induction w with
  | zero => rfl
  | succ w ih => simp [popW, ih]

theorem popW_le (w n : Nat) : popW w n ≤ w := by
  induction w generalizing n with
  | zero => simp [popW]
  | succ w ih => simp only [popW]; have := ih (n/2); omega

/-- counting one more position: the "snoc" form of `popW` -/
theorem popW_succ (c d : Nat) : popW (c+1) d = popW c d + (if d.testBit c then 1 else 0) := by
  induction c generalizing d with
  | zero =>
    simp only [popW, Nat.testBit_zero]
    by_cases h : d % 2 = 1 <;> simp [h] <;> omega
  | succ c ih =>
    have := ih (d/2)
    simp only [popW] at this ⊢
    rw [Nat.testBit_succ]; omega

theorem popW_mono {a b : Nat} (h : a ≤ b) (d : Nat) : popW a d ≤ popW b d := by
  induction h with
  | refl => exact Nat.le_refl _
  | step _ ih => rw [popW_succ]; omega

theorem popW_lt_of_testBit {c w d : Nat} (hc : c < w) (hb : d.testBit c = true) : popW c d < popW w d := by
  have h1 := popW_succ c d
  have h2 := popW_mono (show c+1 ≤ w from hc) d
  simp [hb] at h1; omega

/-- two set bits with the same number of set bits below them coincide -/
theorem testBit_rank_unique {d c₁ c₂ : Nat} (h₁ : d.testBit c₁ = true) (h₂ : d.testBit c₂ = true)
    (h : popW c₁ d = popW c₂ d) : c₁ = c₂ := by
  rcases Nat.lt_trichotomy c₁ c₂ with hlt | heq | hgt
  · have := popW_lt_of_testBit hlt h₁; omega
  · exact heq
  · have := popW_lt_of_testBit hgt h₂; omega

theorem clearLowest_even (d : Nat) (h : d % 2 = 0) : clearLowest d = 2 * clearLowest (d / 2) := by
  unfold clearLowest
  apply Nat.eq_of_testBit_eq
  intro i
  cases i with
  | zero => simp [Nat.testBit_zero]; omega
  | succ i =>
    rw [Nat.testBit_succ, Nat.and_div_two]
    have h2 : 2 * (d / 2 &&& (d / 2 - 1)) / 2 = (d / 2 &&& (d / 2 - 1)) := by omega
    rw [Nat.testBit_succ, h2]
    by_cases hd : d = 0
    · subst hd; simp
    · have : (d - 1) / 2 = d / 2 - 1 := by omega
      rw [this]

theorem clearLowest_odd (d : Nat) (h : d % 2 = 1) : clearLowest d = 2 * (d / 2) := by
  unfold clearLowest
  apply Nat.eq_of_testBit_eq
  intro i
  cases i with
  | zero => simp [Nat.testBit_zero]; omega
  | succ i =>
    rw [Nat.testBit_succ, Nat.and_div_two, Nat.testBit_succ]
    have h1 : (d - 1) / 2 = d / 2 := by omega
    have h2 : 2 * (d / 2) / 2 = d / 2 := by omega
    rw [h1, h2, Nat.and_self]

end RP.Bits
