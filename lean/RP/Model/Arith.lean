/-! # Arithmetic structure shared by the regret-matching (C09) and discount (C19) models

`src/mccfr/{profile,memory,discount}.rs` compute in `f32`.  The models are written once over an
explicit record of operations `Ops α` and instantiated three times:

* `ratOps`  — exact rationals (`Rat` of core Lean, which is Mathlib's `ℚ`): the theorems;
* `f32Ops`  — `Float32` (IEEE-754 binary32 with a logical model in Lean 4.33): the driver, and
  kernel-evaluated witnesses of the floating-point corner cases;
* `extOps`  — extended rationals `finite q | +inf | -inf | NaN` with exact arithmetic on the
  finite part and the IEEE rules for the exceptional values (`x/0`, `inf/inf`, `inf-inf`) and
  Rust's `f32::max/min` NaN rule (`NaN.max(x) = x`): statements "for every extended input".

`powf` is not part of the record; the discount model takes it as a separate parameter. -/
namespace RP.Arith

structure Ops (α : Type) where
  /-- `n as f32` -/
  ofNat : Nat → α
  add : α → α → α
  mul : α → α → α
  div : α → α → α
  /-- Rust `f32::max`: if one argument is NaN the other is returned -/
  fmax : α → α → α
  /-- Rust `f32::min`: if one argument is NaN the other is returned -/
  fmin : α → α → α
  /-- `a <= b` (false when either side is NaN) -/
  le : α → α → Bool
  /-- `a < b` (false when either side is NaN) -/
  lt : α → α → Bool
  isNaN : α → Bool
  isInf : α → Bool
  /-- the seed of `Iterator::sum::<f32>()` (`-0.0` in current `std`; immaterial except for the
      sign of an all-zero sum) -/
  sumSeed : α

variable {α : Type}

/-- `iter.sum::<f32>()`: a left fold in iteration order -/
def Ops.sum (o : Ops α) (xs : List α) : α := xs.foldl o.add o.sumSeed

/-! ## exact rationals -/

def ratOps : Ops Rat where
  ofNat n := (n : Rat)
  add a b := a + b
  mul a b := a * b
  div a b := a / b
  fmax a b := if a ≤ b then b else a
  fmin a b := if a ≤ b then a else b
  le a b := decide (a ≤ b)
  lt a b := decide (a < b)
  isNaN _ := false
  isInf _ := false
  sumSeed := 0

/-! ## binary32 -/

def f32max (a b : Float32) : Float32 :=
  if a.isNaN then b else if b.isNaN then a else if a < b then b else a

def f32min (a b : Float32) : Float32 :=
  if a.isNaN then b else if b.isNaN then a else if b < a then b else a

def f32Ops : Ops Float32 where
  ofNat n := Float32.ofNat n
  add a b := a + b
  mul a b := a * b
  div a b := a / b
  fmax := f32max
  fmin := f32min
  le a b := decide (a ≤ b)
  lt a b := decide (a < b)
  isNaN a := a.isNaN
  isInf a := a.isInf
  sumSeed := Float32.ofBits 0x80000000

/-! ## extended rationals -/

inductive Ext where
  | fin (q : Rat)
  | posInf
  | negInf
  | nan
  deriving DecidableEq, Repr, Inhabited

namespace Ext

def add : Ext → Ext → Ext
  | nan, _ => nan
  | _, nan => nan
  | fin a, fin b => fin (a + b)
  | posInf, negInf => nan
  | negInf, posInf => nan
  | posInf, _ => posInf
  | _, posInf => posInf
  | negInf, _ => negInf
  | _, negInf => negInf

/-- sign of a finite value: the sign of zero is ignored (taken as `+0`) -/
def mul : Ext → Ext → Ext
  | nan, _ => nan
  | _, nan => nan
  | fin a, fin b => fin (a * b)
  | fin a, posInf => if a = 0 then nan else if 0 < a then posInf else negInf
  | fin a, negInf => if a = 0 then nan else if 0 < a then negInf else posInf
  | posInf, fin b => if b = 0 then nan else if 0 < b then posInf else negInf
  | negInf, fin b => if b = 0 then nan else if 0 < b then negInf else posInf
  | posInf, posInf => posInf
  | negInf, negInf => posInf
  | posInf, negInf => negInf
  | negInf, posInf => negInf

/-- IEEE division; a finite zero divisor is `+0.0` (the only zero divisor the code can produce is
    `0 as f32`) -/
def div : Ext → Ext → Ext
  | nan, _ => nan
  | _, nan => nan
  | fin a, fin b =>
      if b = 0 then (if a = 0 then nan else if 0 < a then posInf else negInf) else fin (a / b)
  | fin _, posInf => fin 0
  | fin _, negInf => fin 0
  | posInf, fin b => if 0 ≤ b then posInf else negInf
  | negInf, fin b => if 0 ≤ b then negInf else posInf
  | posInf, posInf => nan
  | posInf, negInf => nan
  | negInf, posInf => nan
  | negInf, negInf => nan

def le : Ext → Ext → Bool
  | nan, _ => false
  | _, nan => false
  | fin a, fin b => decide (a ≤ b)
  | negInf, _ => true
  | _, posInf => true
  | posInf, _ => false
  | _, negInf => false

def lt : Ext → Ext → Bool
  | nan, _ => false
  | _, nan => false
  | fin a, fin b => decide (a < b)
  | posInf, _ => false
  | _, negInf => false
  | negInf, _ => true
  | _, posInf => true

/-- `f32::max` -/
def fmax (a b : Ext) : Ext :=
  match a, b with
  | nan, _ => b
  | _, nan => a
  | _, _ => if lt a b then b else a

/-- `f32::min` -/
def fmin (a b : Ext) : Ext :=
  match a, b with
  | nan, _ => b
  | _, nan => a
  | _, _ => if lt b a then b else a

def isNaN : Ext → Bool
  | nan => true
  | _ => false

def isInf : Ext → Bool
  | posInf => true
  | negInf => true
  | _ => false

end Ext

def extOps : Ops Ext where
  ofNat n := .fin (n : Rat)
  add := Ext.add
  mul := Ext.mul
  div := Ext.div
  fmax := Ext.fmax
  fmin := Ext.fmin
  le := Ext.le
  lt := Ext.lt
  isNaN := Ext.isNaN
  isInf := Ext.isInf
  sumSeed := .fin 0

end RP.Arith
