import RP.Driver.GameOps
/-! line-protocol driver for C03 (ops `game`, `allowed`; see `RP/Driver/GameOps.lean`) -/
def main : IO Unit := RP.Driver.run RP.Driver.GameOps.handle
