import RP.Driver.Common
import RP.Model.Game
/-! Line protocol shared by the C02 / C03 / C14 drivers (all run `RP.Game` definitions).

```
game <h0> <h1> | <action>*                      -> state after the root and after every action, " ; "-separated
                                                    (`panic` and stop as soon as `step?` is `none`)
allowed <h0> <h1> | <action>* | <candidate>*    -> one character per candidate: 1 = is_allowed, 0 = not
                                                    (`panic` when the history itself is rejected)
rewards <h0> <h1> | <action>* | <r0> <r1>       -> "reward0 reward1 pnl0 pnl1" with strength ranks r0, r1
                                                    (`panic` when the state is not terminal)
deck <h0> <h1> | <action>*                      -> "<deck> <board> <hole0> <hole1>" bitmasks after the history
```
actions: `f` fold, `x` check, `c<n>` call, `r<n>` raise, `s<n>` shove, `b<n>` blind, `d<mask>` draw
(amounts may be negative). state: `pot stack0 stack1 stake0 stake1 spent0 spent1 <st0><st1> ticker
street turn board L=<legal>` with states `B/S/F`, turn `T` (terminal) / `C` (chance) / `P<i>`. -/
namespace RP.Driver.GameOps
open RP.Driver RP.Game
open RP.Showdown (Status)

def parseInt? (s : String) : Option Int :=
  match s.toList with
  | '-' :: cs => (String.ofList cs).toNat?.map (fun n => - (Int.ofNat n))
  | _ => s.toNat?.map Int.ofNat

def parseAction? (s : String) : Option Action :=
  if s == "f" then some .fold
  else if s == "x" then some .check
  else
    match s.toList with
    | 'c' :: cs => (parseInt? (String.ofList cs)).map .call
    | 'r' :: cs => (parseInt? (String.ofList cs)).map .raise
    | 's' :: cs => (parseInt? (String.ofList cs)).map .shove
    | 'b' :: cs => (parseInt? (String.ofList cs)).map .blind
    | 'd' :: cs => (String.ofList cs).toNat?.map .draw
    | _ => none

def parseActions? : List String → Option (List Action)
  | [] => some []
  | s :: ss =>
    match parseAction? s, parseActions? ss with
    | some a, some as => some (a :: as)
    | _, _ => none

def showStatus : Status → String
  | .betting => "B" | .shoving => "S" | .folding => "F"

def showTurn : Turn → String
  | .terminal => "T" | .chance => "C" | .choice i => s!"P{i}"

def showAction : Action → String
  | .fold => "f" | .check => "x" | .call n => s!"c{n}" | .raise n => s!"r{n}" | .shove n => s!"s{n}"
  | .blind n => s!"b{n}" | .draw _ => "D"

def showLegal (g : Game) : String :=
  "L=" ++ ",".intercalate ((legal g).map showAction)

def showState (g : Game) : String :=
  s!"{g.pot} {g.s0.stack} {g.s1.stack} {g.s0.stake} {g.s1.stake} {g.s0.spent} {g.s1.spent} " ++
  s!"{showStatus g.s0.state}{showStatus g.s1.state} {g.ticker} {street g} {showTurn (turn g)} {g.board} {showLegal g}"

/-- states along a history, newest last; `none` marks the rejected action -/
def trace (g : Game) : List Action → List (Option Game)
  | [] => []
  | a :: as =>
    match step? g a with
    | none => [none]
    | some g' => some g' :: trace g' as

def splitBar (ws : List String) : List (List String) :=
  ws.foldr (fun w acc =>
    if w == "|" then [] :: acc else
    match acc with
    | [] => [[w]]
    | x :: xs => (w :: x) :: xs) [[]]

def handle (line : String) : String :=
  match splitBar (words line) with
  | [[op, h0, h1], hist] =>
    match h0.toNat?, h1.toNat?, parseActions? hist with
    | some h0, some h1, some as =>
      let g0 := root h0 h1
      if op == "game" then
        " ; ".intercalate (showState g0 :: (trace g0 as).map (fun o => match o with
          | some g => showState g | none => "panic"))
      else if op == "deck" then
        match run? g0 as with
        | some g => s!"{deck g} {g.board} {g.s0.hole} {g.s1.hole}"
        | none => "panic"
      else "bad-op"
    | _, _, _ => "bad-op"
  | [[op, h0, h1], hist, tail] =>
    match h0.toNat?, h1.toNat?, parseActions? hist with
    | some h0, some h1, some as =>
      match run? (root h0 h1) as with
      | none => "panic"
      | some g =>
        if op == "allowed" then
          match parseActions? tail with
          | some cs => String.ofList (cs.map (fun c => if isAllowed g c then '1' else '0'))
          | none => "bad-op"
        else if op == "rewards" then
          match tail with
          | [r0, r1] =>
            match r0.toNat?, r1.toNat? with
            | some r0, some r1 =>
              let str : Nat → Nat := fun m => if m = (g.s0.hole ||| g.board) then r0 else r1
              match settlements str g with
              | some l => joinSp (l.map (fun e => toString e.reward) ++ l.map (fun e => toString (e.reward - e.risked)))
              | none => "panic"
            | _, _ => "bad-op"
          | _ => "bad-op"
        else "bad-op"
    | _, _, _ => "bad-op"
  | _ => "bad-op"

end RP.Driver.GameOps
