import RP.Driver.Common
import RP.Driver.GameOps
import RP.Lemmas.Menu
/-! line-protocol driver for C11 (runs the definitions the theorems of `RP.Props.C11` are about:
`RP.TreeShape.choices / actionize`, `RP.Menu.actionizeF32 / betF32`, `RP.Codec.pathOfEdges /
pathToEdges / edgeToU8 / edgeOfU8 / edgeToU64 / edgeOfU64`).

```
menu <h0> <h1> | <action>* | <n>+    -> "<turn> <pot> <toRaise> <toShove> | <section> ; <section> …", one section per raise
                                        count n: "<path u64> <u8 code>:<concrete action> …" in menu order
                                        (`panic` when the history is rejected; path `panic` when the menu
                                        does not pack). An entry whose float translation (`actionizeF32`)
                                        differs from the integer one is marked with a trailing `!F32`.
pack <u8 code>*                      -> "<path u64> <decoded u8 code>*"   (`panic`: more than 16 edges)
path64 <u8 code>*                    -> "<path u64> <i64::from(path)> <u64 of Path::from(that i64)>"   (`panic`: more than 16 edges)
edge <u8 code>                       -> "<u64 code> <u8 code of Edge::from(u64 code)>"
f32 <num> <den> <lo> <hi>            -> `(pot as f32 * (num as f32 / den as f32)) as i16` for pot = lo..=hi
```
actions as in `GameOps` (`f x c<n> r<n> s<n> b<n> d<mask>`); a dealt hand prints as `D`. -/
open RP.Driver RP.Driver.GameOps RP.Game RP.TreeShape RP.Menu
open RP.Codec (Edge)

namespace RP.Driver.C11

def codeOf (e : Edge) : String :=
  match RP.Codec.edgeToU8 e with
  | some c => toString c
  | none => "panic"

def parseNats? : List String → Option (List Nat)
  | [] => some []
  | s :: ss =>
    match s.toNat?, parseNats? ss with
    | some a, some as => some (a :: as)
    | _, _ => none

def menuSection (g : Game) (n : Nat) : String :=
  let m := choices g n
  let path := match RP.Codec.pathOfEdges m with
    | some p => toString p
    | none => "panic"
  let entries := m.map fun e =>
    let a := actionize g 0 e
    let mark := if actionizeF32 g 0 e == a then "" else "!F32"
    s!"{codeOf e}:{showAction a}{mark}"
  joinSp (path :: entries)

def codesOfEdges (es : List Edge) : String := joinSp (es.map codeOf)

def handle (line : String) : String :=
  match words line with
  | "pack" :: cs =>
    match parseNats? cs with
    | none => "bad-op"
    | some cs =>
      match RP.Codec.optAll RP.Codec.edgeOfU8 cs with
      | none => "bad-op"
      | some es =>
        match RP.Codec.pathOfEdges es with
        | none => "panic"
        | some p =>
          match RP.Codec.pathToEdges p with
          | none => s!"{p} panic"
          | some back => joinSp (toString p :: back.map codeOf)
  | "path64" :: cs =>
    match parseNats? cs with
    | none => "bad-op"
    | some cs =>
      match RP.Codec.optAll RP.Codec.edgeOfU8 cs with
      | none => "bad-op"
      | some es =>
        match RP.Codec.pathOfEdges es with
        | none => "panic"
        | some p =>
          let i := RP.Codec.pathToI64 p
          s!"{p} {i} {RP.Codec.pathOfI64 i}"
  | ["edge", c] =>
    match c.toNat? with
    | none => "bad-op"
    | some c =>
      match RP.Codec.edgeOfU8 c with
      | none => "bad-op"
      | some e =>
        let w := RP.Codec.edgeToU64 e
        match RP.Codec.edgeOfU64 w with
        | none => s!"{w} panic"
        | some e' => s!"{w} {codeOf e'}"
  | ["f32", n, d, lo, hi] =>
    match n.toNat?, d.toNat?, lo.toNat?, hi.toNat? with
    | some n, some d, some lo, some hi =>
      if hi < lo ∨ hi > 40000 then "bad-op" else
      joinSp ((List.range (hi - lo + 1)).map fun k => toString (betF32 ((lo + k : Nat) : Int) n d))
    | _, _, _, _ => "bad-op"
  | "menu" :: _ =>
    match splitBar (words line) with
    | [[_, h0, h1], hist, ns] =>
      match h0.toNat?, h1.toNat?, parseActions? hist, parseNats? ns with
      | some h0, some h1, some as, some ns =>
        if ns.isEmpty then "bad-op" else
        match run? (root h0 h1) as with
        | none => "panic"
        | some g =>
          s!"{showTurn (turn g)} {g.pot} {toRaise g} {toShove g} | " ++
            " ; ".intercalate (ns.map (menuSection g))
      | _, _, _, _ => "bad-op"
    | _ => "bad-op"
  | _ => "bad-op"

end RP.Driver.C11

def main : IO Unit := RP.Driver.run RP.Driver.C11.handle
