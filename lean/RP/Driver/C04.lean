import RP.Driver.Common
import RP.Model.Showdown
/-! line-protocol driver for C04:
    `settle <n> <risked> <b|s|f> <strength> …` (n triples) → rewards in seat order.
    Malformed input → `bad-op` (no defaults). -/
open RP.Driver RP.Showdown

namespace RP.DriverC04

def int? (s : String) : Option Int :=
  if s.startsWith "-" then (s.drop 1).toNat?.map (fun n => - Int.ofNat n) else s.toNat?.map Int.ofNat

def status? : String → Option Status
  | "b" => some .betting
  | "s" => some .shoving
  | "f" => some .folding
  | _ => none

def entries? : List String → Option (List Entry)
  | [] => some []
  | r :: s :: k :: rest =>
    match int? r, status? s, k.toNat?, entries? rest with
    | some r, some s, some k, some es => some (Entry.mk0 r s k :: es)
    | _, _, _, _ => none
  | _ => none

def showInt (i : Int) : String := if i < 0 then s!"-{i.natAbs}" else s!"{i.natAbs}"

end RP.DriverC04
open RP.DriverC04

def handle (line : String) : String :=
  match words line with
  | "settle" :: n :: rest =>
    match n.toNat?, entries? rest with
    | some n, some es =>
      if es.length = n then joinSp ("rewards" :: (rewards es).map showInt) else "bad-op"
    | _, _ => "bad-op"
  | _ => "bad-op"

def main : IO Unit := RP.Driver.run handle
