import RP.Driver.Common
import RP.Model.Transport
import Std.Data.HashMap
/-! line-protocol driver for C12 (`Float32` instantiation of `RP.Transport`)

```
abs <street> <index>                          → <code>
hist <n> <code>*                              → <mass> <n> (<code> <count>)*
mnorm <k> (<key> <bits>)*                     → <k> (<key> ~v)*
edist <a> <b>                                 → ~v
sk <H mu> <H nu> <M>                          → ok L ~.. R ~.. C ~cost S ~colsum.. [P ~plan..] | panic
var <H x> <H y>                               → ~v
greedy <H src> <H tgt> <M>                    → ok C ~cost K <n> (<key> ~v)* | panic
skn <r> <H mu> <H nu> <M>  /  greedyn <r> <H src> <H tgt> <M>   `minimize()` applied r ≥ 1 times to the same coupling
emd <H x> <H y> <M>                           → ~v | panic          (Metric::emd dispatch)
H = <n> <mass> (<code> <count>)*      M = <k> (<key> <f32 bits>)*
```
Floats enter as raw `f32` bit patterns and leave as `~decimal`. -/
open RP.Driver RP.Transport

abbrev F := Float32

def Tf : F := Float32.ofNat RP.Gen.C12.temperature.1 / Float32.ofNat RP.Gen.C12.temperature.2
def tolf : F := Float32.ofNat RP.Gen.C12.tolerance.1 / Float32.ofNat RP.Gen.C12.tolerance.2

def nat? (s : String) : Option Nat := s.toNat?

def f32ofBits? (s : String) : Option F := (s.toNat?).bind fun n => if n < 2 ^ 32 then some (Float32.ofBits n.toUInt32) else none

/-- parse `<n> <mass> (<code> <count>)*` -/
def parseHist : List String → Option (Hist × List String)
  | n :: mass :: rest => do
    let n ← nat? n
    let mass ← nat? mass
    if rest.length < 2 * n then none else
    let rec go : Nat → List String → List (Nat × Nat) → Option (List (Nat × Nat) × List String)
      | 0, ts, acc => some (acc.reverse, ts)
      | k + 1, a :: c :: ts, acc => do go k ts (((← nat? a), (← nat? c)) :: acc)
      | _, _, _ => none
    let (cs, rest') ← go n rest []
    some (⟨mass, cs⟩, rest')
  | _ => none

/-- parse `<k> (<key> <bits>)*` -/
def parseMetric : List String → Option (Metric F × List String)
  | k :: rest => do
    let k ← nat? k
    let rec go : Nat → List String → List (Nat × F) → Option (List (Nat × F) × List String)
      | 0, ts, acc => some (acc.reverse, ts)
      | k + 1, a :: c :: ts, acc => do go k ts (((← nat? a), (← f32ofBits? c)) :: acc)
      | _, _, _ => none
    let (es, rest') ← go k rest []
    some (⟨es⟩, rest')
  | _ => none

/-- `Metric.distance` with the entry list indexed by a hash map (same answers as `List.lookup`
    on the first occurrence of a key) -/
def fastTable (m : Metric F) : Std.HashMap Nat F :=
  m.entries.foldl (fun t e => if t.contains e.1 then t else t.insert e.1 e.2) {}

def fastDistance (t : Std.HashMap Nat F) (x y : Nat) : Option F :=
  if x = y then some (Float32.ofNat 0)
  else if variantOf x = 1 ∧ variantOf y = 1 then t.get? (pairKey x y)
  else if variantOf x = 0 ∧ variantOf y = 0 then some (equityDistance x y)
  else none

def fmts (xs : List F) : String := joinSp (xs.map fmt32)

/-- `minimize()` applied `reps` times: the loop restarts from the potentials it stopped at -/
def skRepeat (d : Nat → Nat → F) (mu nu : Hist) : Nat → SK F → Option (SK F)
  | 0, s => some s
  | r + 1, s =>
    match skLoop d Tf tolf mu nu RP.Gen.C12.iterations s with
    | none => none
    | some s' => skRepeat d mu nu r s'

def runSk (mu nu : Hist) (m : Metric F) (reps : Nat := 1) : String :=
  let t := fastTable m
  let dO := fastDistance t
  let covers := mu.support.all fun x => nu.support.all fun y => (dO x y).isSome && (dO y x).isSome
  if mu.counts.isEmpty || nu.counts.isEmpty || !covers then "panic" else
  let d : Nat → Nat → F := fun x y => (dO x y).getD (Float32.ofNat 0)
  match skRepeat d mu nu reps (skInit mu nu) with
  | none => "panic"
  | some s =>
    match cost d Tf s with
    | none => "panic"
    | some c =>
      let p := plan d Tf s
      let cols := (List.range s.rhs.length).map fun j => sum (p.map fun row => row.getD j (Float32.ofNat 0))
      let small := s.lhs.length * s.rhs.length ≤ 256
      s!"ok L {fmts (s.lhs.map Prod.snd)} R {fmts (s.rhs.map Prod.snd)} C {fmt32 c} S {fmts cols}"
        ++ (if small then s!" P {fmts p.flatten}" else "")

/-- `Metric.emd` with the hashed distance table (same dispatch, same `skLoop`/`cost`/`variation`) -/
def runEmd (x y : Hist) (m : Metric F) : String :=
  match x.counts with
  | [] => "panic"
  | (a, _) :: _ =>
    if variantOf a = 1 then
      let t := fastTable m
      let dO := fastDistance t
      let covers := x.support.all fun u => y.support.all fun v => (dO u v).isSome && (dO v u).isSome
      if y.counts.isEmpty || !covers then "panic" else
      let d : Nat → Nat → F := fun u v => (dO u v).getD (Float32.ofNat 0)
      match skLoop d Tf tolf x y RP.Gen.C12.iterations (skInit x y) with
      | none => "panic"
      | some s => match cost d Tf s with | none => "panic" | some c => fmt32 c
    else if variantOf a = 0 then fmt32 (variation x y : F)
    else "panic"

def runGreedy (src tgt : Hist) (m : Metric F) : String :=
  let t := fastTable m
  match greedy (fastDistance t) src tgt with
  | none => "panic"
  | some g =>
    s!"ok C {fmt32 (greedyCost g)} K {g.plan.length}"
      ++ String.join (g.plan.map fun e => s!" {e.1} {fmt32 e.2}")

def handle (line : String) : String :=
  match words line with
  | ["abs", s, i] =>
    match nat? s, nat? i with
    | some s, some i => if s < 4 then toString (absCode s i) else "bad-op"
    | _, _ => "bad-op"
  | "hist" :: n :: rest =>
    match nat? n, rest.mapM nat? with
    | some n, some cs =>
      if cs.length ≠ n then "bad-op" else
      let h := Hist.ofList cs
      s!"{h.mass} {h.n}" ++ String.join (h.counts.map fun e => s!" {e.1} {e.2}")
    | _, _ => "bad-op"
  | "mnorm" :: rest =>
    match parseMetric rest with
    | some (m, []) =>
      let r : Metric F := Metric.normalize m.entries
      s!"{r.entries.length}" ++ String.join (r.entries.map fun e => s!" {e.1} {fmt32 e.2}")
    | _ => "bad-op"
  | ["edist", a, b] =>
    match nat? a, nat? b with
    | some a, some b => fmt32 (equityDistance a b : F)
    | _, _ => "bad-op"
  | "skn" :: r :: rest =>
    match nat? r, parseHist rest with
    | some r, some (mu, r1) =>
      if r = 0 then "bad-op" else
      match parseHist r1 with
      | some (nu, r2) =>
        match parseMetric r2 with
        | some (m, []) => runSk mu nu m r
        | _ => "bad-op"
      | none => "bad-op"
    | _, _ => "bad-op"
  | "greedyn" :: r :: rest =>
    -- `Heuristic::minimize` clears the plan and rebuilds pile and sink from the two histograms:
    -- every application computes the same plan
    match nat? r, parseHist rest with
    | some r, some (src, r1) =>
      if r = 0 then "bad-op" else
      match parseHist r1 with
      | some (tgt, r2) =>
        match parseMetric r2 with
        | some (m, []) => ((List.range r).map fun _ => runGreedy src tgt m).getLastD "bad-op"
        | _ => "bad-op"
      | none => "bad-op"
    | _, _ => "bad-op"
  | "sk" :: rest =>
    match parseHist rest with
    | some (mu, r1) =>
      match parseHist r1 with
      | some (nu, r2) =>
        match parseMetric r2 with
        | some (m, []) => runSk mu nu m
        | _ => "bad-op"
      | none => "bad-op"
    | none => "bad-op"
  | "var" :: rest =>
    match parseHist rest with
    | some (x, r1) =>
      match parseHist r1 with
      | some (y, []) => fmt32 (variation x y : F)
      | _ => "bad-op"
    | none => "bad-op"
  | "emd" :: rest =>
    match parseHist rest with
    | some (x, r1) =>
      match parseHist r1 with
      | some (y, r2) =>
        match parseMetric r2 with
        | some (m, []) => runEmd x y m
        | _ => "bad-op"
      | none => "bad-op"
    | none => "bad-op"
  | "greedy" :: rest =>
    match parseHist rest with
    | some (src, r1) =>
      match parseHist r1 with
      | some (tgt, r2) =>
        match parseMetric r2 with
        | some (m, []) => runGreedy src tgt m
        | _ => "bad-op"
      | none => "bad-op"
    | none => "bad-op"
  | _ => "bad-op"

def main : IO Unit := RP.Driver.run handle
