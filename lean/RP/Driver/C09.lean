import RP.Driver.Common
import RP.Model.Regret
import RP.Driver.F32Text
/-! line-protocol driver for C09.

`policy32 <player> <t> <bits>…`  `policyVector` over `Float32` (the stored regrets as f32 bit
                                 patterns, in key order) → `~p…` (exact decimal value of each
                                 f32 result) or `panic`
`policyq  <player> <t> <bits>…`  the same inputs through the exact-rational instantiation the
                                 theorems are about → `~p…` (17 significant digits)
`clamp <bits>`                   clamp + assertions of `regret_vector` over `Float32`
`walker <t>`                     `Profile::walker` -/
open RP.Driver RP.Arith RP.Regret

def withKeys {α : Type} (xs : List α) : List (Nat × α) := xs.zipIdx.map fun (x, i) => (i, x)

def showResult {α : Type} (f : α → String) : Option (List (Nat × α)) → String
  | none => "panic"
  | some ps => joinSp (ps.map fun (_, p) => "~" ++ f p)

def handle (line : String) : String :=
  match words line with
  | "policy32" :: pl :: t :: rest =>
    match pl.toNat?, t.toNat?, natsOf rest with
    | some pl, some t, some bs =>
      if bs.any (· ≥ 2 ^ 32) then "bad-op" else
      let kv := withKeys (bs.map fun b => Float32.ofBits (UInt32.ofNat b))
      showResult f32ToDec (policyVector f32Ops eps32 pl t kv)
    | _, _, _ => "bad-op"
  | "policyq" :: pl :: t :: rest =>
    match pl.toNat?, t.toNat?, natsOf rest with
    | some pl, some t, some bs =>
      match bs.mapM f32BitsToRat with
      | some qs => showResult ratToDec (policyVector ratOps epsQ pl t (withKeys qs))
      | none => "bad-op"
    | _, _, _ => "bad-op"
  | ["clamp", b] =>
    match b.toNat? with
    | some b =>
      if b ≥ 2 ^ 32 then "bad-op" else
      match record f32Ops clampOps32 (Float32.ofBits (UInt32.ofNat b)) with
      | some c => "~" ++ f32ToDec c
      | none => "panic"
    | none => "bad-op"
  | ["walker", t] =>
    match t.toNat? with
    | some t => toString (RP.Discount.walker t)
    | none => "bad-op"
  | _ => "bad-op"

def main : IO Unit := RP.Driver.run handle
