import RP.Driver.Common
import RP.Model.Regret
/-! line-protocol driver for C09.

`policy32 <player> <t> <bits>…`  `policyVector` over `Float32` (the stored regrets as f32 bit
                                 patterns, in key order) → `~p…` (exact decimal value of each
                                 f32 result) or `panic`
`policyq  <player> <t> <bits>…`  the same inputs through the exact-rational instantiation the
                                 theorems are about → `~p…` (17 significant digits)
`clamp <bits>`                   clamp + assertions of `regret_vector` over `Float32`
`walker <t>`                     `Profile::walker` -/
open RP.Driver RP.Arith RP.Regret

/-- exact decimal text of a binary32 value -/
def f32ToDec (x : Float32) : String :=
  if x.isNaN then "NaN" else
  let b := x.toBits.toNat
  let neg := decide (b ≥ 2 ^ 31)
  let e : Nat := (b / 2 ^ 23) % 256
  let m : Nat := b % 2 ^ 23
  let sign := if neg then "-" else ""
  if e = 255 then sign ++ "inf" else
  let mant := if e = 0 then m else m + 2 ^ 23
  let ex : Int := if e = 0 then -149 else (e : Int) - 150
  if ex ≥ 0 then sign ++ toString (mant * 2 ^ ex.toNat)
  else sign ++ toString (mant * 5 ^ (-ex).toNat) ++ "e-" ++ toString (-ex).toNat

/-- exact rational value of a finite binary32 bit pattern -/
def f32BitsToRat (b : Nat) : Option Rat :=
  let neg := decide (b ≥ 2 ^ 31)
  let e : Nat := (b / 2 ^ 23) % 256
  let m : Nat := b % 2 ^ 23
  if b ≥ 2 ^ 32 ∨ e = 255 then none else
  let mant : Int := if e = 0 then m else m + 2 ^ 23
  let mant := if neg then -mant else mant
  let ex : Int := if e = 0 then -149 else (e : Int) - 150
  some (if ex ≥ 0 then (mant : Rat) * ((2 ^ ex.toNat : Nat) : Rat) else mkRat mant (2 ^ (-ex).toNat))

def digits (n : Nat) : Nat := (toString n).length

/-- a rational to 17 significant decimal digits (truncated) -/
def ratToDec (q : Rat) : String :=
  if q.num = 0 then "0" else
  let sign := if q.num < 0 then "-" else ""
  let n := q.num.natAbs
  let d := q.den
  let k : Int := 18 + (digits d : Int) - (digits n : Int)
  let m := if k ≥ 0 then n * 10 ^ k.toNat / d else n / (d * 10 ^ (-k).toNat)
  sign ++ toString m ++ "e" ++ toString (-k)

def natsOf (ws : List String) : Option (List Nat) := ws.mapM String.toNat?

def withKeys {α : Type} (xs : List α) : List (Nat × α) := xs.zipIdx.map fun (x, i) => (i, x)

def showResult {α : Type} (f : α → String) : Option (List (Nat × α)) → String
  | none => "panic"
  | some ps => joinSp (ps.map fun (_, p) => "~" ++ f p)

def handle (line : String) : String :=
  match words line with
  | "policy32" :: pl :: t :: rest =>
    match pl.toNat?, t.toNat?, natsOf rest with
    | some pl, some t, some bs =>
      if bs.any (· ≥ 2 ^ 32) then "bad-op" else
      let kv := withKeys (bs.map fun b => Float32.ofBits (UInt32.ofNat b))
      showResult f32ToDec (policyVector f32Ops eps32 pl t kv)
    | _, _, _ => "bad-op"
  | "policyq" :: pl :: t :: rest =>
    match pl.toNat?, t.toNat?, natsOf rest with
    | some pl, some t, some bs =>
      match bs.mapM f32BitsToRat with
      | some qs => showResult ratToDec (policyVector ratOps epsQ pl t (withKeys qs))
      | none => "bad-op"
    | _, _, _ => "bad-op"
  | ["clamp", b] =>
    match b.toNat? with
    | some b =>
      if b ≥ 2 ^ 32 then "bad-op" else
      match record f32Ops clampOps32 (Float32.ofBits (UInt32.ofNat b)) with
      | some c => "~" ++ f32ToDec c
      | none => "panic"
    | none => "bad-op"
  | ["walker", t] =>
    match t.toNat? with
    | some t => toString (RP.Discount.walker t)
    | none => "bad-op"
  | _ => "bad-op"

def main : IO Unit := RP.Driver.run handle
