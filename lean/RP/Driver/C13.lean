import RP.Driver.Common
import RP.Model.Kmeans
/-! line-protocol driver for C13 (the distances are the real `f32` values, as bit patterns)

```
nbr <K> <bits>^K                                   → <index> ~d | panic
next <street> <K> <N> (<H point> <bits>^K)^N       → ok <k> (<mass> <n> (<code> <count>)*)^k | panic   (k = street.k() from RP.Gen)
lookup <street> <K> <N> (<bits>^K)^N               → ok <code>^N | panic
metric <street> <K> <bits>^(K·K)                   → <n> (<key> ~v)*
proj <n> (<H>)^n                                   → <n> (<mass> <n> (<code> <count>)*)^n   (Lookup::projections: futures of the classes, in class order)
prefchain <n> (<H>)^n                              → per class: <label> <k> (<next code> ~dx)^k   (preflop layer: projections → init → lookup → decomp)
dens <H> <code>                                    → ~v        (Histogram::density)
vdist <H point> <H centroid>                       → ~v        (Equity::variation of RP.Transport, Float32)
H = <n> <mass> (<code> <count>)*
``` -/
open RP.Driver RP.Transport RP.Kmeans

abbrev F := Float32

def nat? (s : String) : Option Nat := s.toNat?
def f32ofBits? (s : String) : Option F := (s.toNat?).bind fun n => if n < 2 ^ 32 then some (Float32.ofBits n.toUInt32) else none
def nan : F := Float32.ofBits 0x7fc00000

def takeF : Nat → List String → List F → Option (List F × List String)
  | 0, ts, acc => some (acc.reverse, ts)
  | k + 1, t :: ts, acc => do takeF k ts ((← f32ofBits? t) :: acc)
  | _, _, _ => none

def parseHist : List String → Option (Hist × List String)
  | n :: mass :: rest => do
    let n ← nat? n
    let mass ← nat? mass
    let rec go : Nat → List String → List (Nat × Nat) → Option (List (Nat × Nat) × List String)
      | 0, ts, acc => some (acc.reverse, ts)
      | k + 1, a :: c :: ts, acc => do go k ts (((← nat? a), (← nat? c)) :: acc)
      | _, _, _ => none
    let (cs, rest') ← go n rest []
    some (⟨mass, cs⟩, rest')
  | _ => none

def parsePoints (kc : Nat) (withHist : Bool) : Nat → List String → List (Hist × List F) → Option (List (Hist × List F) × List String)
  | 0, ts, acc => some (acc.reverse, ts)
  | n + 1, ts, acc => do
    let (h, ts1) ← if withHist then parseHist ts else some (Hist.empty, ts)
    let (row, ts2) ← takeF kc ts1 []
    parsePoints kc withHist n ts2 ((h, row) :: acc)

/-- distance of a point (carrying its real distance row) to the `j`-th centroid -/
def rowDist (p : Hist × List F) (j : Nat) : F := p.2.getD j nan

def cmpF : F → F → Option Ordering := Arith.cmp

/-- `Street::k()` from the generated constants (standard deck) -/
def streetK : Nat → Nat
  | 0 => RP.Gen.n_isomorphisms_Std.getD 0 0
  | 1 => RP.Gen.KMEANS_FLOP_CLUSTER_COUNT
  | 2 => RP.Gen.KMEANS_TURN_CLUSTER_COUNT
  | _ => 0

def showHist (h : Hist) : String :=
  s!" {h.mass} {h.n}" ++ String.join (h.counts.map fun e => s!" {e.1} {e.2}")

def handle (line : String) : String :=
  match words line with
  | "nbr" :: k :: rest =>
    match nat? k with
    | some k =>
      match takeF k rest [] with
      | some (ds, []) =>
        match neighborhood cmpF rowDist (List.range k) (Hist.empty, ds) with
        | some (i, d) => s!"{i} {fmt32 d}"
        | none => "panic"
      | _ => "bad-op"
    | none => "bad-op"
  | "next" :: st :: kc :: n :: rest =>
    match nat? st, nat? kc, nat? n with
    | some st, some kc, some n =>
      if st ≥ 4 then "bad-op" else
      match parsePoints kc true n rest [] with
      | some (pts, []) =>
        match next (streetK st) cmpF rowDist Prod.fst pts (List.range kc) with
        | some cs => s!"ok {cs.length}" ++ String.join (cs.map showHist)
        | none => "panic"
      | _ => "bad-op"
    | _, _, _ => "bad-op"
  | "lookup" :: s :: kc :: n :: rest =>
    match nat? s, nat? kc, nat? n with
    | some s, some kc, some n =>
      if s ≥ 4 then "bad-op" else
      match parsePoints kc false n rest [] with
      | some (pts, []) =>
        match lookup s cmpF rowDist pts (List.range kc) (List.range n) with
        | some l => "ok" ++ String.join (l.map fun e => s!" {e.2}")
        | none => "panic"
      | _ => "bad-op"
    | _, _, _ => "bad-op"
  | "proj" :: n :: rest =>
    match nat? n with
    | some n =>
      let rec go : Nat → List String → List Hist → Option (List Hist)
        | 0, [], acc => some acc.reverse
        | 0, _, _ => none
        | k + 1, ts, acc => match parseHist ts with
          | some (h, ts') => go k ts' (h :: acc)
          | none => none
      match go n rest [] with
      | some futures =>
        -- the i-th class's future is the i-th histogram given; the points are the futures in class order
        let pts := projections (fun i : Nat => futures.getD i Hist.empty) (List.range n)
        s!"{pts.length}" ++ String.join (pts.map showHist)
      | none => "bad-op"
    | none => "bad-op"
  | "prefchain" :: n :: rest =>
    match nat? n with
    | some n =>
      let rec goP : Nat → List String → List Hist → Option (List Hist)
        | 0, [], acc => some acc.reverse
        | 0, _, _ => none
        | k + 1, ts, acc => match parseHist ts with
          | some (h, ts') => goP k ts' (h :: acc)
          | none => none
      match goP n rest [] with
      | some futures =>
        let pts := projections (fun i : Nat => futures.getD i Hist.empty) (List.range n)
        let kmeans := initPref pts
        let labels := lookupPref (List.range n)
        let dec := decomp 0 kmeans
        String.join (labels.map fun il =>
          match dec.lookup il.2 with
          | some h => s!" {il.2} {h.n}" ++ String.join (h.counts.map fun e => s!" {e.1} {fmt32 (density h e.1 : F)}")
          | none => s!" {il.2} missing")
      | none => "bad-op"
    | none => "bad-op"
  | "dens" :: rest =>
    match parseHist rest with
    | some (h, [a]) =>
      match nat? a with
      | some a => fmt32 (density h a : F)
      | none => "bad-op"
    | _ => "bad-op"
  | "vdist" :: rest =>
    match parseHist rest with
    | some (x, r1) =>
      match parseHist r1 with
      | some (y, []) => fmt32 (variation x y : F)
      | _ => "bad-op"
    | none => "bad-op"
  | "metric" :: s :: k :: rest =>
    match nat? s, nat? k with
    | some s, some k =>
      if s ≥ 4 then "bad-op" else
      match takeF (k * k) rest [] with
      | some (ds, []) =>
        let tbl := ds.toArray
        let emd : Nat → Nat → F := fun i j => tbl.getD (i * k + j) nan
        let m : Metric F := metric s emd (List.range k)
        s!"{m.entries.length}" ++ String.join (m.entries.map fun e => s!" {e.1} {fmt32 e.2}")
      | _ => "bad-op"
    | _, _ => "bad-op"
  | _ => "bad-op"

def main : IO Unit := RP.Driver.run handle
