/-! Shared line-protocol loop for the per-property model drivers.
    One operation per input line, one answer per output line. -/
namespace RP.Driver

partial def loop (h : IO.FS.Stream) (out : IO.FS.Stream) (f : String → String) : IO Unit := do
  let line ← h.getLine
  if line.isEmpty then
    out.flush
    return ()
  let l := if line.back == '\n' then line.dropRight 1 else line
  out.putStrLn (f l)
  loop h out f

def run (f : String → String) : IO Unit := do
  let stdin ← IO.getStdin
  let stdout ← IO.getStdout
  loop stdin stdout f

def words (s : String) : List String :=
  (s.splitOn " ").filter (· ≠ "")

def natOf (s : String) : Nat := s.toNat?.getD 0

def intOf (s : String) : Int :=
  if s.startsWith "-" then - (Int.ofNat ((s.drop 1).toNat?.getD 0)) else Int.ofNat (s.toNat?.getD 0)

def joinSp (xs : List String) : String := " ".intercalate xs

end RP.Driver
