import RP.Driver.Common
import RP.Model.Sampler
/-! line-protocol driver for C20:
 `one <epoch> <past> <disc> <abs> <future> <weight bits…>` → predicted opponent branch index
 `any <epoch> <past> <disc> <abs> <future> <n>`            → predicted chance branch index
 `init <street> <k> <points>`                               → predicted centroid point indices -/
open RP.Driver RP.Sampler

def parsePoint (s : String) : Nat × List Nat :=
  let pairs := (s.splitOn ",").filterMap (fun kv =>
    match kv.splitOn "=" with
    | [i, c] => some (natOf i, natOf c)
    | _ => none)
  let counts := (List.range 101).map (fun i => (pairs.filter (·.1 == i)).foldl (fun a p => a + p.2) 0)
  (counts.foldl (· + ·) 0, counts)

def handle (line : String) : String :=
  match words line with
  | "one" :: e :: p :: d :: a :: f :: ws =>
    match exploreOne (natOf e) (natOf p) (natOf d) (natOf a) (natOf f) (ws.map (fun w => Float32.ofBits (UInt32.ofNat (natOf w)))) with
    | some i => toString i
    | none => "panic"
  | ["any", e, p, d, a, f, n] =>
    if natOf n = 0 then "panic" else toString (exploreAny (natOf e) (natOf p) (natOf d) (natOf a) (natOf f) (natOf n))
  | ["init", s, k, pts] =>
    match layerInit (natOf s) (natOf k) ((pts.splitOn ";").map parsePoint) with
    | some is => ",".intercalate (is.map toString)
    | none => "panic"
  | _ => "bad-op"

def main : IO Unit := RP.Driver.run handle
