import RP.Driver.Common
import RP.Model.Deck
/-! line-protocol driver for C14: `drawat <deck> <i>` → `<card> <deck'>` -/
open RP.Driver

def handle (line : String) : String :=
  match words line with
  | ["drawat", d, i] =>
    let (c, d') := RP.Deck.drawAt (natOf d) (natOf i)
    s!"{c} {d'}"
  | _ => "bad-op"

def main : IO Unit := RP.Driver.run handle
