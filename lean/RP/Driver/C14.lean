import RP.Driver.Common
import RP.Driver.GameOps
import RP.Model.Deck
/-! line-protocol driver for C14: `drawat <deck> <i>` → `<card> <deck'>`; the game ops
    (`game`, `deck`, `allowed`) of `RP/Driver/GameOps.lean` for the dealing half -/
open RP.Driver

def handle (line : String) : String :=
  match words line with
  | ["drawat", d, i] =>
    match d.toNat?, i.toNat? with
    | some d, some i =>
      let (c, d') := RP.Deck.drawAt d i
      s!"{c} {d'}"
    | _, _ => "bad-op"
  | _ => RP.Driver.GameOps.handle line

def main : IO Unit := RP.Driver.run handle
