import RP.Driver.Common
import RP.Driver.GameOps
import RP.Model.Deck
/-! line-protocol driver for C14: `drawat <deck> <i>` → `<card> <deck'>`; the game ops
    `dealrun <deck> <r>` (hole, hole, flop, turn, river from one kept deck) → five hands and the rest; `redeal <full> <r>` (`Game::deal` on a game that already holds cards) → the two holes; (`game`, `deck`, `allowed`) of `RP/Driver/GameOps.lean` for the dealing half -/
open RP.Driver

def handle (line : String) : String :=
  match words line with
  | ["drawat", d, i] =>
    match d.toNat?, i.toNat? with
    | some d, some i =>
      let (c, d') := RP.Deck.drawAt d i
      s!"{c} {d'}"
    | _, _ => "bad-op"
  | ["dealrun", d, r] =>
    match d.toNat?, r.toNat? with
    | some d, some r =>
      match RP.Deck.dealRun d r with
      | some (hs, d') => " ".intercalate (hs.map toString) ++ s!" {d'}"
      | none => "panic"
    | _, _ => "bad-op"
  | ["redeal", d, r] =>
    match d.toNat?, r.toNat? with
    | some d, some r =>
      match RP.Deck.drawMany d [r, r, r, r] with
      | some ([a, b, c, e], _) => s!"{RP.Deck.handOf [a, b]} {RP.Deck.handOf [c, e]}"
      | _ => "panic"
    | _, _ => "bad-op"
  | _ => RP.Driver.GameOps.handle line

def main : IO Unit := RP.Driver.run handle
