import RP.Driver.Common
-- line-protocol driver for property C15 (stub)
def handle (_line : String) : String := "unimplemented"
def main : IO Unit := RP.Driver.run handle
