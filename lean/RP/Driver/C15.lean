import RP.Driver.Common
import RP.Model.Codec
/-! line-protocol driver for C15: every op runs the definitions of `RP.Codec` that the theorems of
`RP/Props/C15.lean` are about.  `panic` is the model's `none`. -/
open RP.Driver RP.Codec

namespace RP.DriverC15

def nat? (s : String) : Option Nat := s.toNat?
def int? (s : String) : Option Int :=
  if s.startsWith "-" then (s.drop 1).toNat?.map (fun n => - (Int.ofNat n)) else s.toNat?.map Int.ofNat

def showOpt {α : Type} (f : α → String) : Option α → String
  | some a => f a
  | none => "panic"

def showAction : Action → String
  | .fold => "fold" | .check => "check"
  | .call x => s!"call:{x}" | .raise x => s!"raise:{x}" | .shove x => s!"shove:{x}" | .blind x => s!"blind:{x}"
  | .draw h => s!"draw:{h}"
def readAction (s : String) : Option Action :=
  match s.splitOn ":" with
  | ["fold"] => some .fold
  | ["check"] => some .check
  | ["call", x] => (int? x).map .call
  | ["raise", x] => (int? x).map .raise
  | ["shove", x] => (int? x).map .shove
  | ["blind", x] => (int? x).map .blind
  | ["draw", h] => (nat? h).map .draw
  | _ => none

def showEdge : Edge → String
  | .draw => "draw" | .fold => "fold" | .check => "check" | .call => "call" | .shove => "shove"
  | .raise n d => s!"raise:{n}:{d}"
def readEdge (s : String) : Option Edge :=
  match s.splitOn ":" with
  | ["draw"] => some .draw | ["fold"] => some .fold | ["check"] => some .check
  | ["call"] => some .call | ["shove"] => some .shove
  | ["raise", n, d] => match int? n, int? d with
    | some n, some d => some (.raise n d)
    | _, _ => none
  | _ => none
def showEdges (es : List Edge) : String := if es.isEmpty then "-" else ",".intercalate (es.map showEdge)
def readEdges (s : String) : Option (List Edge) :=
  if s = "-" then some [] else optAll readEdge (s.splitOn ",")

def showAbs (a : Abs) : String := s!"{a.variant}:{a.bits}"

/-- every pair key (all four streets) that more than one unordered pair of buckets maps to, from the
model's `pairKey ∘ absOf`: `key=s.i.j,s'.i'.j'` in ascending key order (`none` if there is no collision) -/
def crossCollisions : String :=
  let ks : Array (Nat × Nat × Nat × Nat) := Id.run do
    let mut a := #[]
    for s in [0:4] do
      let n := nAbstractions s
      for i in [0:n] do
        for j in [i+1:n] do
          a := a.push (pairKey (absOf s i) (absOf s j), s, i, j)
    return a
  let ks := ks.qsort (fun x y => x.1 < y.1 || (x.1 == y.1 && (x.2.1 < y.2.1 || (x.2.1 == y.2.1 && x.2.2.1 < y.2.2.1))))
  let out : List String := Id.run do
    let mut out : Array String := #[]
    let mut cur : Option Nat := none
    let mut grp : Array String := #[]
    for k in ks do
      if cur != some k.1 then
        if grp.size > 1 then out := out.push (s!"{cur.getD 0}=" ++ ",".intercalate grp.toList)
        cur := some k.1; grp := #[]
      grp := grp.push s!"{k.2.1}.{k.2.2.1}.{k.2.2.2}"
    if grp.size > 1 then out := out.push (s!"{cur.getD 0}=" ++ ",".intercalate grp.toList)
    return out.toList
  if out.isEmpty then "none" else ";".intercalate out

def handle (line : String) : String :=
  match words line with
  | ["enc-card8", c] => match nat? c with | some c => s!"{cardToU8 c}" | none => "bad-op"
  | ["dec-card8", n] => match nat? n with | some n => s!"{cardOfU8 n}" | none => "bad-op"
  | ["enc-card32", c] => match nat? c with | some c => s!"{cardToU32 c}" | none => "bad-op"
  | ["dec-card32", n] => match nat? n with | some n => showOpt toString (cardOfU32 n) | none => "bad-op"
  | ["dec-hand", n] => match nat? n with | some n => s!"{handOfU64 RP.Gen.handMaskStd n}" | none => "bad-op"
  | ["enc-hand", h] => match nat? h with | some h => s!"{handToU64 h}" | none => "bad-op"
  | ["cards-hand", h] => match nat? h with
    | some h => let cs := handCards h; if cs.isEmpty then "-" else ",".intercalate (cs.map toString)
    | none => "bad-op"
  | ["enc-obs", p, q] => match nat? p, nat? q with
    | some p, some q => s!"{obsToI64 ⟨p, q⟩}"
    | _, _ => "bad-op"
  | ["dec-obs", c] => match int? c with
    | some c => showOpt (fun o => s!"{o.pocket} {o.board}") (obsOfI64 c)
    | none => "bad-op"
  | ["street-obs", c] => match int? c with
    | some c => showOpt toString (streetOfObsCode c)
    | none => "bad-op"
  | ["enc-action", a] => match readAction a with | some a => s!"{actionToU32 a}" | none => "bad-op"
  | ["dec-action", n] => match nat? n with | some n => showOpt showAction (actionOfU32 n) | none => "bad-op"
  | ["enc-edge8", e] => match readEdge e with | some e => showOpt toString (edgeToU8 e) | none => "bad-op"
  | ["dec-edge8", n] => match nat? n with | some n => showOpt showEdge (edgeOfU8 n) | none => "bad-op"
  | ["enc-edge64", e] => match readEdge e with | some e => s!"{edgeToU64 e}" | none => "bad-op"
  | ["dec-edge64", n] => match nat? n with | some n => showOpt showEdge (edgeOfU64 n) | none => "bad-op"
  | ["enc-path", es] => match readEdges es with | some es => showOpt toString (pathOfEdges es) | none => "bad-op"
  | ["dec-path", n] => match nat? n with | some n => showOpt showEdges (pathToEdges n) | none => "bad-op"
  | ["path-i64", n] => match nat? n with | some n => s!"{pathToI64 n}" | none => "bad-op"
  | ["path-of-i64", i] => match int? i with | some i => s!"{pathOfI64 i}" | none => "bad-op"
  | ["abs", s, i] => match nat? s, nat? i with
    | some s, some i => if s < 4 then showAbs (absOf s i) else "bad-op"
    | _, _ => "bad-op"
  | ["dec-abs", n] => match nat? n with
    | some n => showOpt (fun a => s!"{showAbs a} {showOpt toString (absStreet a)} {absIndex a}") (absOfU64 n)
    | none => "bad-op"
  | ["abs-i64", n] => match nat? n with | some n => s!"{toI64 n}" | none => "bad-op"
  | ["abs-of-i64", i] => match int? i with
    | some i => showOpt (fun a => s!"{showAbs a} {showOpt toString (absStreet a)}") (absOfI64 i)
    | none => "bad-op"
  | ["paircross"] => crossCollisions
  | ["pair", a, b] => match nat? a, nat? b with
    | some a, some b => match absOfU64 a, absOfU64 b with
      | some a, some b => let k := pairKey a b; s!"{k} {pairToI64 k} {pairOfI64 (pairToI64 k)}"
      | _, _ => "panic"
    | _, _ => "bad-op"
  | ["enc-bucket", p, a, f] => match nat? p, nat? a, nat? f with
    | some p, some a, some f => match absOfU64 a with
      | some a => let c := bucketToCodes ⟨p, a, f⟩; s!"{c.1} {c.2.1} {c.2.2}"
      | none => "panic"
    | _, _, _ => "bad-op"
  | ["dec-bucket", p, a, f] => match int? p, int? a, int? f with
    | some p, some a, some f =>
      showOpt (fun b => s!"{b.past} {showAbs b.present} {b.future} {showOpt toString (bucketStreetOfCodes (p, a, f))}") (bucketOfCodes (p, a, f))
    | _, _, _ => "bad-op"
  | _ => "bad-op"

end RP.DriverC15

def main : IO Unit := RP.Driver.run RP.DriverC15.handle
