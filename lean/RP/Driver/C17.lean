import RP.Driver.Common
import RP.Model.Pgcopy
/-! line-protocol driver for C17:
`save <blueprint|metric|lookup> <n> <row values…>` → the bytes `save()` writes
(`len=… fnv=… [hex=…]`) and what `load()` makes of them (`load=ok n=… cfnv=… [rows=…]`), or `panic`.\n`saveb <blueprint|metric|lookup|transitions> <n> <row values…>` → `len=… fnv=…` only (large tables).
Rows are given in the order the table iterates (= the order they are written). -/
open RP.Driver RP.Pgcopy

namespace RP.Driver.C17

def fnvStep (h b : Nat) : Nat := ((h ^^^ b) * 1099511628211) % 18446744073709551616
def fnv (bs : List Nat) : Nat := bs.foldl fnvStep 14695981039346656037
def fnvRows (rows : List (List Nat)) : Nat :=
  rows.foldl (fun h r => r.foldl (fun h v => (be 8 v).foldl fnvStep h) h) 14695981039346656037

def hexDigit (n : Nat) : Char := if n < 10 then Char.ofNat (48 + n) else Char.ofNat (87 + n)
def hex (bs : List Nat) : String := String.ofList (bs.flatMap (fun b => [hexDigit (b / 16), hexDigit (b % 16)]))
def hex16 (n : Nat) : String := hex (be 8 n)

def parseNats (ws : List String) : Option (List Nat) := ws.mapM String.toNat?

def chunk (k : Nat) : Nat → List Nat → Option (List (List Nat))
  | 0, [] => some []
  | 0, _ :: _ => none
  | n+1, xs =>
    let r := xs.take k
    if r.length < k then none else (chunk k n (xs.drop k)).map (r :: ·)

def hexLimit : Nat := 700
def rowsLimit : Nat := 8

def answer (file : Option Bytes) (reload : Option (List (List Nat))) : String :=
  match file with
  | none => "panic"
  | some bytes =>
    let a := s!"len={bytes.length} fnv={hex16 (fnv bytes)}" ++ (if bytes.length ≤ hexLimit then s!" hex={hex bytes}" else "")
    match reload with
    | none => a ++ " load=panic"
    | some rows =>
      let b := s!" load=ok n={rows.length} cfnv={hex16 (fnvRows rows)}"
      let c := if rows.length ≤ rowsLimit then
          " rows=" ++ (if rows.isEmpty then "-" else ",".intercalate (rows.flatMap (fun r => r.map toString)))
        else ""
      a ++ b ++ c

def prow : List Nat → Option PRow
  | [a, b, c, d, e, f] => some ⟨a, b, c, d, e, f⟩
  | _ => none
def mrow : List Nat → Option MRow
  | [a, b] => some ⟨a, b⟩
  | _ => none
def lrow : List Nat → Option LRow
  | [a, b] => some ⟨a, b⟩
  | _ => none
def trow : List Nat → Option TRow
  | [a, b, c] => some ⟨a, b, c⟩
  | _ => none

def handle (line : String) : String :=
  match words line with
  | "save" :: table :: n :: rest =>
    match n.toNat?, parseNats rest with
    | some n, some vals =>
      match table with
      | "blueprint" =>
        match (chunk 6 n vals).bind (·.mapM prow) with
        | some rows =>
          let file := saveBlueprint rows
          answer (some file) ((loadBlueprint file).map (fun m => m.rows.map (fun r => [r.past, r.present, r.future, r.edge, r.regret, r.policy])))
        | none => "bad-op"
      | "metric" =>
        match (chunk 2 n vals).bind (·.mapM mrow) with
        | some rows =>
          let file := saveMetric rows
          answer (some file) ((loadMetric file).map (fun m => m.map (fun (k, v) => [k, v])))
        | none => "bad-op"
      | "lookup" =>
        match (chunk 2 n vals).bind (·.mapM lrow) with
        | some rows =>
          match saveLookup? rows with
          | none => "panic"
          | some file => answer (some file) ((loadLookup file).map (fun m => m.map (fun (k, v) => [k, v])))
        | none => "bad-op"
      | _ => "bad-op"
    | _, _ => "bad-op"
  -- large tables: the file only (length + checksum; hex when short)
  | "saveb" :: table :: n :: rest =>
    match n.toNat?, parseNats rest with
    | some n, some vals =>
      let fileOnly (file : Option Bytes) : String :=
        match file with
        | none => "panic"
        | some bytes => s!"len={bytes.length} fnv={hex16 (fnv bytes)}"
      match table with
      | "blueprint" =>
        match (chunk 6 n vals).bind (·.mapM prow) with
        | some rows => fileOnly (some (saveBlueprint rows))
        | none => "bad-op"
      | "metric" =>
        match (chunk 2 n vals).bind (·.mapM mrow) with
        | some rows => fileOnly (some (saveMetric rows))
        | none => "bad-op"
      | "lookup" =>
        match (chunk 2 n vals).bind (·.mapM lrow) with
        | some rows => fileOnly (saveLookup? rows)
        | none => "bad-op"
      | "transitions" =>
        match (chunk 3 n vals).bind (·.mapM trow) with
        | some rows => fileOnly (some (saveTransitions rows))
        | none => "bad-op"
      | _ => "bad-op"
    | _, _ => "bad-op"
  | _ => "bad-op"

end RP.Driver.C17

def main : IO Unit := RP.Driver.run RP.Driver.C17.handle
